(* C09 — birth-death skyline density: agrees across epochs, with the constant model, with the
   birth-death master equations; JSON options select what they name.
   Statements only.  Proofs: proof/P_bdsk.v (reals, Coquelicot), proof/P_bdsk_param.v (free
   theorems tying the interval run used by the correspondence check to the real model),
   proof/P_options.v (reflection for the option table regenerated from the source).
   Model: model/M_bdsk.v (one term polymorphic in Num T), model/M_options.v.

   Time runs forward as in bdsk.py (origin 0, present T); tau is the time left to the END of an
   epoch, so d/dtau is the derivative backwards in time, the direction of the master equations. *)
From Coq Require Import QArith Reals Qreals List String.
Set Warnings "-ambiguous-paths".
From Coquelicot Require Import Coquelicot.
From TT Require Import Num NumR NumI ParamI Tree M_bdsk P_bdsk P_bdsk_param P_bdsk_refine M_options G_options P_options.
Import ListNotations.
Open Scope R_scope.

(* Admissible epoch (P_bdsk.wf_ep), the hypothesis of every theorem below:
     wf_ep e  :=  0 < lambda_e /\ 0 < mu_e /\ 0 < psi_e /\ 0 <= rho_e <= 1 /\ t0_e <= t1_e. *)
Example C09_wf_ep_unfolds : forall e : epoch R,
  wf_ep e <-> (0 < elam e /\ 0 < emu e /\ 0 < epsi e /\ 0 <= Q2R (erho e) <= 1 /\ Q2R (et0 e) <= Q2R (et1 e)).
Proof. exact (fun e => conj (fun H => H) (fun H => H)). Qed.

(* Master equation for p.  Inside ANY epoch e of the backward recursion (positive rates, rho in
   [0,1]), whatever probability pn the following epoch hands over at the boundary: the code's
   closed form p0 (with A = Aof, B = Bof as computed by log_p) satisfies
       dp/dtau = mu - (lambda + mu + psi) p + lambda p^2,
   starts at the boundary from p(0) = (1 - rho) * pn (boundary wiring of B_i), and stays a
   probability.  For all positive rates — not a comparison with one numerical integration. *)
Theorem C09_p0_solves_master : forall (e : epoch R) (pn tau : R),
  wf_ep e -> 0 <= pn <= 1 -> 0 <= tau ->
  let A := Aof NumR (elam e) (emu e) (epsi e) in
  let B := Bof NumR (elam e) (emu e) (epsi e) A (Q2R (erho e)) pn in
  let p := fun t => p0form NumR (elam e) (emu e) (epsi e) A B (exp (A * t)) in
  is_derive p tau (emu e - (elam e + emu e + epsi e) * p tau + elam e * (p tau * p tau))
  /\ p 0 = (1 - Q2R (erho e)) * pn /\ 0 <= p tau <= 1.
Proof. exact C09_p0_master. Qed.
Print Assumptions C09_p0_solves_master.

(* Master equation for the lineage density q = exp(log_q):
       dq/dtau = (-(lambda + mu + psi) + 2 lambda p) q,   q(0) = 1,   q > 0. *)
Theorem C09_q_solves_master : forall (e : epoch R) (pn tau : R),
  wf_ep e -> 0 <= pn <= 1 -> 0 <= tau ->
  let A := Aof NumR (elam e) (emu e) (epsi e) in
  let B := Bof NumR (elam e) (emu e) (epsi e) A (Q2R (erho e)) pn in
  let p := fun t => p0form NumR (elam e) (emu e) (epsi e) A B (exp (A * t)) in
  let q := fun t => qform NumR B (exp (A * t)) in
  is_derive q tau ((- (elam e + emu e + epsi e) + 2 * elam e * p tau) * q tau)
  /\ q 0 = 1 /\ 0 < q tau.
Proof. exact C09_q_master. Qed.
Print Assumptions C09_q_solves_master.

(* Boundary wiring in the recursion `back` (= log_p) for a skyline with ANY number of epochs:
   at the end of its epoch p_e equals (1 - rho_e) times the p handed over by the rest of the
   skyline (1 beyond the present), the value stored for the epoch is p_e at its start, and every
   p in the recursion is a probability. *)
Theorem C09_boundary_wiring : forall (e : epoch R) (r : list (epoch R)),
  List.Forall wf_ep (e :: r) ->
  match back NumR (e :: r) with
  | (s :: _, p) => p_at NumR e s (et1 e) = (1 - Q2R (erho e)) * snd (back NumR r)
                   /\ sp s = p_at NumR e s (et0 e) /\ p = sp s /\ 0 <= p <= 1
  | _ => False
  end.
Proof. exact C09_boundary. Qed.
Print Assumptions C09_boundary_wiring.

(* Epoch refinement at the level of the recursion, for a skyline with any number of epochs
   before (pre) and after (r) the epoch that is cut: replacing the epoch [t0,t2] by
   [t0,t1] (rho = 0 at the cut) and [t1,t2] (the original rho), identical rates, leaves every
   other solved epoch and the probability handed to `pre` unchanged, and p / q of the earlier
   half continue those of the uncut epoch (q composes multiplicatively across the cut). *)
Theorem C09_split_epoch : forall (l u p : R) (rho t0 t1 t2 : Q) (pre r : list (epoch R)),
  let e  := mkEp l u p rho t0 t2 in
  let e1 := mkEp l u p 0%Q t0 t1 in
  let e2 := mkEp l u p rho t1 t2 in
  List.Forall wf_ep (pre ++ e1 :: e2 :: r)%list ->
  exists lpre s1 s2 s lr,
    fst (back NumR (pre ++ e1 :: e2 :: r)%list) = (lpre ++ s1 :: s2 :: lr)%list /\
    fst (back NumR (pre ++ e :: r)%list) = (lpre ++ s :: lr)%list /\
    List.length lpre = List.length pre /\
    snd (back NumR (pre ++ e1 :: e2 :: r)%list) = snd (back NumR (pre ++ e :: r)%list) /\
    sp s1 = sp s /\ sA s1 = sA s /\ sA s2 = sA s /\ sB s2 = sB s /\
    (forall tau, 0 <= tau ->
       let d := Q2R t2 - Q2R t1 in
       p0form NumR l u p (sA s1) (sB s1) (exp (sA s1 * tau))
         = p0form NumR l u p (sA s) (sB s) (exp (sA s * (tau + d))) /\
       qform NumR (sB s1) (exp (sA s1 * tau)) * qform NumR (sB s) (exp (sA s * d))
         = qform NumR (sB s) (exp (sA s * (tau + d)))).
Proof. exact C09_split. Qed.
Print Assumptions C09_split_epoch.

(* Refinement invariance of the WHOLE density (proof/P_bdsk_refine.v): for every skyline pre ++ e :: post with
   ANY number of epochs before and after (contiguous: [chain]; admissible rates: [wf_ep]; first epoch starting
   at a time >= 0), every cut time c strictly inside e, every tree — no hypothesis on tip or node heights, so
   tips and nodes exactly on the cut are covered —, with and without survival conditioning, with and without
   removal probabilities (r with the entry of e duplicated):  cutting e into
       lower_part e c = (rates of e, rho = 0, [t0, c])    upper_part e c = (rates of e, rho of e, [c, t1])
   leaves the log density unchanged. *)
Theorem C09_refinement_invariance : forall survival r pre e post c tips ints,
  List.Forall wf_ep (pre ++ e :: post)%list -> chain (pre ++ e :: post)%list ->
  0 <= Q2R (et0 (hd e pre)) ->
  Q2R (et0 e) < Q2R c < Q2R (et1 e) ->
  log_prob NumR survival (option_map (dup_at (List.length pre)) r)
           (pre ++ lower_part e c :: upper_part e c :: post)%list tips ints
  = log_prob NumR survival r (pre ++ e :: post)%list tips ints.
Proof. exact refinement_invariance_origin. Qed.
Print Assumptions C09_refinement_invariance.

(* the special case of a single epoch cut in two, in explicit form *)
Theorem C09_refinement_invariance_single : forall (l u p : R) (rho c T : Q) survival tips ints,
  0 < l -> 0 < u -> 0 < p -> 0 <= Q2R rho <= 1 -> 0 < Q2R c -> Q2R c < Q2R T ->
  List.Forall (fun h => 0 <= Q2R h) tips -> List.Forall (fun h => 0 <= Q2R h) ints ->
  log_prob NumR survival None [mkEp l u p 0%Q 0%Q c; mkEp l u p rho c T] tips ints
  = log_prob NumR survival None [mkEp l u p rho 0%Q T] tips ints.
Proof. exact C09_refine2. Qed.
Print Assumptions C09_refinement_invariance_single.

(* non-vacuity: the three-epoch skyline of C09_example is contiguous and admissible, and its middle epoch cut
   at time 4 gives the same density for every tree and every removal vector *)
Example C09_refinement_example_admissible := refine_example_admissible.
Example C09_refinement_example_middle := refine_example_middle.

(* Single epoch = constant model: with m = 1 the skyline density (log_prob) equals the density of
   BirthDeath.log_prob, which the code writes independently (other form of q0, no epochs), for
   every tree (tip and internal heights), with and without survival conditioning. *)
Theorem C09_single_epoch_is_constant : forall (lam mu psi : R) (rho T : Q) survival tips ints,
  0 < lam -> 0 < mu -> 0 < psi -> 0 <= Q2R rho <= 1 -> 0 <= Q2R T ->
  log_prob NumR survival None [mkEp lam mu psi rho 0%Q T] tips ints
  = bd_log_prob NumR survival lam mu psi rho T tips ints.
Proof. exact C09_single. Qed.
Print Assumptions C09_single_epoch_is_constant.

(* The interval runs evaluated by the correspondence check (PiecewiseConstantBirthDeath.log_prob,
   BDSKModel(), BirthDeath.log_prob / BirthDeathModel()) enclose the real-valued model the
   theorems above are about (Paramcoq free theorems + Interval's correctness lemmas). *)
Theorem C09_run_encloses_model : forall survival r Rr lam Lam mu Mu psi Psi rho times tips ints,
  option_R _ _ (list_R R I.type rel) r Rr ->
  list_R R I.type rel lam Lam -> list_R R I.type rel mu Mu -> list_R R I.type rel psi Psi ->
  rel (pw_log_prob NumR survival r lam mu psi rho times tips ints)
      (pw_log_prob NumI survival Rr Lam Mu Psi rho times tips ints).
Proof. exact pw_log_prob_enclosed. Qed.
Print Assumptions C09_run_encloses_model.

Theorem C09_run_encloses_bdsk_model : forall survival r Rr Rn RN delta Delta s S rho times tips ints,
  option_R _ _ (list_R R I.type rel) r Rr ->
  list_R R I.type rel Rn RN -> list_R R I.type rel delta Delta -> list_R R I.type rel s S ->
  rel (bdsk_model_log_prob NumR survival r Rn delta s rho times tips ints)
      (bdsk_model_log_prob NumI survival Rr RN Delta S rho times tips ints).
Proof. exact bdsk_model_log_prob_enclosed. Qed.
Print Assumptions C09_run_encloses_bdsk_model.

Theorem C09_run_encloses_constant_model : forall survival lam Lam mu Mu psi Psi rho origin tips ints,
  rel lam Lam -> rel mu Mu -> rel psi Psi ->
  rel (bd_log_prob NumR survival lam mu psi rho origin tips ints)
      (bd_log_prob NumI survival Lam Mu Psi rho origin tips ints).
Proof. exact bd_log_prob_enclosed. Qed.
Print Assumptions C09_run_encloses_constant_model.

(* non-vacuity: a three-epoch skyline with a rho-sampling event meets the hypotheses *)
Example C09_example_admissible :
  List.Forall wf_ep [mkEp 3 (5/2) 2 0%Q 0%Q 3%Q; mkEp 2 1 (1/2) (1#5)%Q 3%Q (9#2)%Q;
                     mkEp 4 (1/2) 1 (1#100)%Q (9#2)%Q 6%Q].
Proof. exact C09_example. Qed.

(* ---- JSON options (tables regenerated from the source by translator T6 on every run) ---- *)

(* every parameter of BDSKModel.__init__ / BirthDeathModel.__init__ can be set from the specification *)
Theorem C09_options_cover_constructor :
  (forall p, In p bdsk_params -> exists k, In (p, k) bdsk_options) /\
  (forall p, In p bd_params -> exists k, In (p, k) bd_options).
Proof. exact (conj (covered_sound bdsk_params bdsk_options eq_refl) (covered_sound bd_params bd_options eq_refl)). Qed.

(* an option left out of the specification takes the default the constructor documents *)
Theorem C09_option_defaults_agree :
  List.Forall (fun t => match t with (_, json_default, ctor_default) => json_default = ctor_default end)
         (bdsk_defaults ++ bd_defaults)%list.
Proof. exact (defaults_ok_sound (bdsk_defaults ++ bd_defaults)%list eq_refl). Qed.

(* Options select what they name: every value handed to a constructor argument is read from the
   JSON key of that name (argument names with Python's keyword-avoiding trailing underscore:
   id_ <- "id", lambda_ <- "lambda"), for every (argument, key) pair of both from_json methods.
   KEEP LAST: on a tree where an option is read from another key this is the statement that
   stops checking, and harness/props/c09.py then reproduces the misdirected option on the code. *)
Theorem C09_options_select_what_they_name :
  List.Forall (fun p => norm_arg (fst p) = snd p) (bdsk_options ++ bd_options)%list.
Proof. exact (options_ok_sound (bdsk_options ++ bd_options)%list eq_refl). Qed.
Print Assumptions C09_options_select_what_they_name.
