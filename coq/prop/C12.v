(* C12 — gradients are the derivatives of the reported densities.
   What is proved: verified forward-mode AD.  NumFD_R: every Num operation on dual numbers over
   intervals encloses value and derivative of the corresponding operation on real functions (NaN =
   no claim where differentiability is not certain: possible zero divisor, ln/sqrt of a possibly
   non-positive value, max at a possible tie — the "away from ties" side condition of the
   property).  By parametricity the dual-number run of ANY polymorphic model term encloses the
   derivative of its real-valued reading; instances for the likelihood, the node-height log-Jacobian
   and the site rates below (more densities: see DESIGN.md).  That PyTorch's autograd returns this
   derivative is a statement about PyTorch: it is the correspondence (harness/props/c12.py), together
   with the direct comparison autograd vs finite differences on the implementation. *)
From Coq Require Import QArith Reals List.
From Coquelicot Require Import Coquelicot.
From TT Require Import Num NumR NumI ParamI NumD ParamD Tree M_like M_height M_site P_like_param P_height_param P_grad_param.
From TT Require Import M_coalescent P_coalescent_param M_bdsk P_bdsk_param M_gmrf P_gmrf_param P_grad_more.

Theorem C12_dual_numbers_enclose_derivatives : forall x0, Num_R (R -> R) dual (relD x0) NumF NumD.
Proof. exact NumFD_R. Qed.
Print Assumptions C12_dual_numbers_enclose_derivatives.

Theorem C12_loglik_gradient : forall x0 S freqs Freqs Ps PS props Props t pats Pats,
  list_R _ _ (relD x0) freqs Freqs ->
  list_R _ _ (fun P P' => forall j j', nat_R j j' -> list_R _ _ (list_R _ _ (relD x0)) (P j) (P' j')) Ps PS ->
  list_R _ _ (relD x0) props Props ->
  list_R _ _ (P_like_param.Coq_o_Init_o_Datatypes_o_prod_R _ _ (relD x0) _ _
                (fun tp tp' => forall i i', nat_R i i' -> list_R _ _ (relD x0) (tp i) (tp' i'))) pats Pats ->
  relD x0 (loglik NumF S freqs Ps props t pats) (loglik NumD S Freqs PS Props t Pats).
Proof. exact loglik_derivative_enclosed. Qed.
Print Assumptions C12_loglik_gradient.

Theorem C12_height_jacobian_gradient : forall x0 n times Times x X t,
  list_R _ _ (relD x0) times Times -> list_R _ _ (relD x0) x X ->
  relD x0 (ratio_logdet NumF times None t (ratio_fwd NumF n times x None t))
          (ratio_logdet NumD Times None t (ratio_fwd NumD n Times X None t)).
Proof. exact ratio_logdet_derivative_enclosed. Qed.
Print Assumptions C12_height_jacobian_gradient.

Theorem C12_site_rates_gradient : forall x0 shape Shape K inv Inv mu Mu,
  relD x0 shape Shape -> option_R _ _ (relD x0) inv Inv -> option_R _ _ (relD x0) mu Mu ->
  list_R _ _ (relD x0) (weibull_rates NumF shape K inv mu) (weibull_rates NumD Shape K Inv Mu).
Proof. exact weibull_rates_derivative_enclosed. Qed.
Print Assumptions C12_site_rates_gradient.

(* ---- coalescent priors: population sizes and event times are functions of the variable; the
        order of the events is decided on their exact keys (shared by both sides) ---- *)
Theorem C12_constant_coalescent_gradient : forall x0 theta Theta evs Evs,
  relD x0 theta Theta -> list_R _ _ (TT_o_M_coalescent_o_event_R (R -> R) dual (relD x0)) evs Evs ->
  relD x0 (constant_lp NumF theta evs) (constant_lp NumD Theta Evs).
Proof. exact constant_lp_derivative_enclosed. Qed.
Print Assumptions C12_constant_coalescent_gradient.

Theorem C12_exponential_coalescent_gradient : forall x0 theta Theta gq g G evs Evs,
  relD x0 theta Theta -> relD x0 g G ->
  list_R _ _ (TT_o_M_coalescent_o_event_R (R -> R) dual (relD x0)) evs Evs ->
  relD x0 (exponential_lp NumF theta gq g evs) (exponential_lp NumD Theta gq G Evs).
Proof. exact exponential_lp_derivative_enclosed. Qed.
Print Assumptions C12_exponential_coalescent_gradient.

Theorem C12_skyride_gradient : forall x0 thetas Thetas evs Evs,
  list_R _ _ (relD x0) thetas Thetas ->
  list_R _ _ (TT_o_M_coalescent_o_event_R (R -> R) dual (relD x0)) evs Evs ->
  relD x0 (skyride_lp NumF thetas evs) (skyride_lp NumD Thetas Evs).
Proof. exact skyride_lp_derivative_enclosed. Qed.
Print Assumptions C12_skyride_gradient.

Theorem C12_skygrid_gradient : forall x0 thetas Thetas evs Evs,
  list_R _ _ (relD x0) thetas Thetas ->
  list_R _ _ (TT_o_M_coalescent_o_event_R (R -> R) dual (relD x0)) evs Evs ->
  relD x0 (skygrid_lp NumF thetas evs) (skygrid_lp NumD Thetas Evs).
Proof. exact skygrid_lp_derivative_enclosed. Qed.
Print Assumptions C12_skygrid_gradient.

(* ---- birth-death skyline w.r.t. the per-epoch rates (R, delta, s), any number of epochs; and the
        constant-rate model w.r.t. lambda, mu, psi ---- *)
Theorem C12_bdsk_gradient : forall x0 survival r Rr Rn RN delta Delta s S rho times tips ints,
  option_R _ _ (list_R _ _ (relD x0)) r Rr ->
  list_R _ _ (relD x0) Rn RN -> list_R _ _ (relD x0) delta Delta -> list_R _ _ (relD x0) s S ->
  relD x0 (bdsk_model_log_prob NumF survival r Rn delta s rho times tips ints)
          (bdsk_model_log_prob NumD survival Rr RN Delta S rho times tips ints).
Proof. exact bdsk_derivative_enclosed. Qed.
Print Assumptions C12_bdsk_gradient.

Theorem C12_birth_death_gradient : forall x0 survival lam Lam mu Mu psi Psi rho origin tips ints,
  relD x0 lam Lam -> relD x0 mu Mu -> relD x0 psi Psi ->
  relD x0 (bd_log_prob NumF survival lam mu psi rho origin tips ints)
          (bd_log_prob NumD survival Lam Mu Psi rho origin tips ints).
Proof. exact bd_derivative_enclosed. Qed.
Print Assumptions C12_birth_death_gradient.

(* ---- GMRF (plain, weighted, time-aware) w.r.t. the field, the precision and the weights ---- *)
Theorem C12_gmrf_gradient : forall x0 l L v V x X tau Tau,
  relD x0 l L -> TT_o_M_gmrf_o_variant_R (R -> R) dual (relD x0) v V ->
  list_R _ _ (relD x0) x X -> relD x0 tau Tau ->
  relD x0 (gmrf NumF l v x tau) (gmrf NumD L V X Tau).
Proof. exact gmrf_derivative_enclosed. Qed.
Print Assumptions C12_gmrf_gradient.

(* non-vacuity: the independent variable itself: value x0, derivative 1 *)
Example C12_example : forall q : Q, relD (Q2R q) (fun x => x) (dvar q).
Proof.
  intros q. split; [apply rel_ofQ|]. exists (Xreal.Xreal 1). split; [exact (I.fromZ_correct prec 1)|].
  apply (is_derive_id (K:=R_AbsRing)).
Qed.
