(* C02 — the likelihood is invariant to how the same tree and data are written down.
   Statements only; proofs in proof/P_invariance.v and proof/P_like.v. *)
From Coq Require Import QArith Reals List Permutation.
Import ListNotations.
From Coq Require Import Relations.
From TT Require Import Num NumR Tree M_like M_data M_like_data P_like P_invariance P_taxa_order P_reroot.
Open Scope R_scope.

(* children of any node can be swapped *)
Theorem C02_swap_children : forall P tip i l r,
  prune NumR P tip (INode i l r) = prune NumR P tip (INode i r l).
Proof. exact prune_swap_children. Qed.
Print Assumptions C02_swap_children.

(* tip data are matched to taxa by NAME: any permutation of the sequence list (distinct names)
   gives the same rows in taxa order, hence the same likelihood *)
Theorem C02_perm_sequences : forall taxa seqs seqs',
  NoDup (map fst seqs) -> Permutation seqs seqs' ->
  rows_in_taxa_order taxa seqs = rows_in_taxa_order taxa seqs'.
Proof. exact rows_perm_sequences. Qed.
Print Assumptions C02_perm_sequences.

(* THE ORDER OF THE TAXA LIST.  The position of a taxon in the list is the index of its leaf (rename), the rows of
   the alignment are listed in that order and compressed into patterns in that order, and the per-node tables of
   transition matrices are indexed by it: all three change with the order.  With the branch data keyed by what they
   belong to ([leafmat k name] for the branch above the leaf called name, [intmat k i] for internal node i, whose
   number does not depend on the order; [mats_for] lays them out as the tables the likelihood takes for a given
   order), ANY permutation of the taxa list gives the same log-likelihood: every tree, any number of rate
   categories, tip partials (with / without ambiguities) or tip states, nucleotides and amino acids.  Hypotheses:
   every leaf name is in the list, the list has as many entries as the tree has leaves, the sequences have equal
   lengths (the number of columns is read off the first row). *)
Theorem C02_perm_taxa : forall leafmat intmat m taxa taxa' seqs t freqs K props,
  NoDup taxa -> Permutation taxa taxa' ->
  (forall x, In x (leaf_names t) -> In x taxa) ->
  length taxa = leaves t ->
  (forall x y, In x taxa -> In y taxa -> length (assoc x seqs) = length (assoc y seqs)) ->
  loglik_nuc NumR m taxa' seqs t freqs (mats_for leafmat intmat taxa' K (2 * leaves t - 1)) props
  = loglik_nuc NumR m taxa seqs t freqs (mats_for leafmat intmat taxa K (2 * leaves t - 1)) props.
Proof. exact taxa_order_invariance_nuc. Qed.
Print Assumptions C02_perm_taxa.
Theorem C02_perm_taxa_amino_acids : forall leafmat intmat m taxa taxa' seqs t freqs K props,
  NoDup taxa -> Permutation taxa taxa' ->
  (forall x, In x (leaf_names t) -> In x taxa) ->
  length taxa = leaves t ->
  (forall x y, In x taxa -> In y taxa -> length (assoc x seqs) = length (assoc y seqs)) ->
  loglik_aa NumR m taxa' seqs t freqs (mats_for leafmat intmat taxa' K (2 * leaves t - 1)) props
  = loglik_aa NumR m taxa seqs t freqs (mats_for leafmat intmat taxa K (2 * leaves t - 1)) props.
Proof. exact taxa_order_invariance_aa. Qed.
Print Assumptions C02_perm_taxa_amino_acids.
(* non-vacuity: ((2,0),1) with taxa [0;1;2] vs [2;0;1]: the hypotheses hold, the indexed trees, the rows and the
   compressed patterns all differ, the log-likelihoods are equal *)
Example C02_perm_taxa_example_hyps := taxa_order_example_hyps.
Example C02_perm_taxa_example_differs := taxa_order_example_differs.
Example C02_perm_taxa_example := taxa_order_example.

(* any permutation of the alignment columns, and merging identical columns into weighted
   patterns, leaves the sum over sites unchanged (for any per-column function) *)
Theorem C02_perm_columns : forall (C : Type) (f : C -> R) cols cols',
  Permutation cols cols' -> rsum (map f cols) = rsum (map f cols').
Proof. exact @columns_sum_perm. Qed.
Print Assumptions C02_perm_columns.
Theorem C02_merge_columns : forall (C : Type) (ceq : C -> C -> bool),
  (forall a b, ceq a b = true -> a = b) ->
  forall (f : C -> R) cols, wsum f (compress ceq cols) = rsum (map f cols).
Proof. exact @compress_sum. Qed.
Print Assumptions C02_merge_columns.

(* tip states vs tip partials (unknown/ambiguous treated as missing; rows of P sum to one) *)
Theorem C02_states_vs_partials : forall S M s,
  wf_mat S M -> (s < S)%nat -> tip_message_state NumR S M s = matvec NumR M (indicator S s).
Proof. exact tip_state_is_indicator. Qed.
Print Assumptions C02_states_vs_partials.
Theorem C02_states_vs_partials_missing : forall S M,
  wf_mat S M -> (forall row, In row M -> rsum row = 1) ->
  tip_message_state NumR S M S = matvec NumR M (repeat 1 S).
Proof. exact tip_unknown_is_ones. Qed.
Print Assumptions C02_states_vs_partials_missing.

(* Pulley principle, one step, any number of states: for a time-reversible family
   (pi_s Pa[s][x] = pi_x Pa[x][s]) with Pab = Pa.Pb (semigroup: lengths add), the root can slide
   along its edge — the site likelihood depends on the two root branches only through their sum:
     sum_s pi_s (Pa u)_s (Pb v)_s  =  sum_x pi_x u_x (Pab v)_x.
   With u = (Pc u1) * (Pd u2) the right-hand side is symmetric in the three subtrees meeting at
   that node, so applying the identity backwards on another pair moves the root onto an adjacent
   branch.  C02_reroot_any_branch below carries this to every root placement. *)
Theorem C02_reroot_one_step : forall S (pi u v : list R) (Pa Pb Pab : list (list R)),
  length pi = S -> length u = S -> length v = S ->
  wf_mat S Pa -> wf_mat S Pb -> wf_mat S Pab ->
  (forall s x, (s < S)%nat -> (x < S)%nat -> lk pi s 0 * entry NumR Pa s x = lk pi x 0 * entry NumR Pa x s) ->
  (forall x y, (x < S)%nat -> (y < S)%nat ->
     entry NumR Pab x y = rsum (map (fun s => entry NumR Pa x s * entry NumR Pb s y) (seq 0 S))) ->
  ndot NumR pi (vmul NumR (matvec NumR Pa u) (matvec NumR Pb v))
  = ndot NumR pi (vmul NumR u (matvec NumR Pab v)).
Proof. exact pulley_l. Qed.
Print Assumptions C02_reroot_one_step.

(* EVERY root placement.  [wtree]: a rooted binary tree carrying its tip vectors and, at every internal
   node, the two child branch lengths; [lik S pi P t] its site likelihood by pruning with the matrices
   P(length).  [step] = one move of the root: exchange the two root children, slide the root along
   the root edge (only the SUM of the two root branch lengths is kept), or push it across the node
   below onto the branch of either grandchild (at any point of that branch).  [reroot] = any number
   of moves in either direction: these are exactly the ways of rooting one and the same unrooted
   tree.  For every reversible semigroup family P (hypotheses: S x S matrices, detailed balance,
   P(a+b) = P(a)P(b) for a, b >= 0 — what C04 proves of the shipped models) all of them have the same
   likelihood.  Any number of states, any tree, any tip data. *)
Theorem C02_reroot_any_branch : forall S pi P,
  length pi = S -> (forall t, wf_mat S (P t)) ->
  (forall t s x, (s < S)%nat -> (x < S)%nat ->
     lk pi s 0 * entry NumR (P t) s x = lk pi x 0 * entry NumR (P t) x s) ->
  (forall a b, 0 <= a -> 0 <= b -> forall x y, (x < S)%nat -> (y < S)%nat ->
     entry NumR (P (a + b)) x y = rsum (map (fun s => entry NumR (P a) x s * entry NumR (P b) s y) (seq 0 S))) ->
  forall t t', reroot S t t' -> lik pi P t = lik pi P t'.
Proof. exact reroot_lik. Qed.
Print Assumptions C02_reroot_any_branch.

(* ... in particular the root moved down ANY path of the tree (left / right at each node) *)
Theorem C02_reroot_along_any_path : forall S pi P,
  length pi = S -> (forall t, wf_mat S (P t)) ->
  (forall t s x, (s < S)%nat -> (x < S)%nat ->
     lk pi s 0 * entry NumR (P t) s x = lk pi x 0 * entry NumR (P t) x s) ->
  (forall a b, 0 <= a -> 0 <= b -> forall x y, (x < S)%nat -> (y < S)%nat ->
     entry NumR (P (a + b)) x y = rsum (map (fun s => entry NumR (P a) x s * entry NumR (P b) s y) (seq 0 S))) ->
  forall path t t', wfw S t -> descend path t = Some t' -> lik pi P t = lik pi P t'.
Proof. exact descend_lik. Qed.
Print Assumptions C02_reroot_along_any_path.

(* non-vacuity of the moves: a 4-tip tree, the root pushed to the branch above its left-left grandchild *)
Example C02_example_reroot :
  descend [true]
    (WN (WN (WL [1; 0]) (WL [0; 1]) 1 2) (WN (WL [1; 1]) (WL [0; 1]) 3 4) 5 6)
  = Some (WN (WL [1; 0]) (WN (WL [0; 1]) (WN (WL [1; 1]) (WL [0; 1]) 3 4) 2 (5 + 6)) 1 0).
Proof. reflexivity. Qed.

(* non-vacuity: two named sequences listed in either order give the same rows *)
Example C02_example :
  rows_in_taxa_order [7; 3]%nat [(3, [65; 67]); (7, [71; 84])]%nat
  = rows_in_taxa_order [7; 3]%nat [(7, [71; 84]); (3, [65; 67])]%nat.
Proof. reflexivity. Qed.
