(* C15 — every MCMC transition is a Metropolis-Hastings step on the stated target.

   Statements only.  Model: model/M_mcmc.v (one iteration of MCMC.run, polymorphic in the numeric
   type; the tuning arithmetic comes from gen/G_tuning.v, regenerated from operator.py,
   gmrf_block_updating.py, hmc/operator.py, hmc/adaptation.py on every run).  Proofs: proof/P_mcmc.v,
   proof/P_mcmc_param.v.  The model is tied to the implementation by replaying reconstructed
   transition records (harness/props/c15.py).

   Quantification.  [run NumR dec cfgs st ds] is the chain after the iterations described by the
   list [ds]; every element of [ds] carries the operator drawn for that iteration ([d_op], so every
   schedule and every mixture [cfgs] of operators is covered), the operator's internal draws or
   oracle proposal, the uniform draw of the accept test and the evaluations of the target performed
   during that iteration.  Theorems hold for ALL such lists (induction over the list). *)
From Coq Require Import QArith Reals List Bool Lra.
From Coquelicot Require Import Coquelicot.
Import ListNotations.
From TT Require Import Num NumR NumI ParamI Tree G_tuning M_mcmc P_mcmc P_mcmc_param.
From TT Require Import P_det_def P_tridet M_gmrf P_block_gauss.
Open Scope R_scope.

(* 1. The carried log density is the target at the current state, at every iteration of every
   run, and the density used for a proposed state is the target at that state — for ANY way of
   deciding moves.  Hypothesis made explicit: each evaluation of the joint model returns the
   target at the parameter values it is called on ([faithful]: no stale cache, property C11). *)
Theorem carried_density_is_target :
  forall (pi : list R -> ext R) (dec : R -> R -> bool) (cfgs : list (opcfg R)) (ds : list (draws R))
         (st : chain R),
  pi (c_x st) = Fin (c_lj st) -> List.Forall (faithful pi) ds ->
  let sr := run NumR dec cfgs st ds in
  pi (c_x (fst sr)) = Fin (c_lj (fst sr)) /\
  List.Forall (fun r => pi (r_before r) = Fin (r_lj_before r) /\
                        (r_hast r <> NonFin -> r_dens r = pi (r_prop r)) /\
                        pi (r_after r) = Fin (r_lj_after r)) (snd sr).
Proof. exact carried_any_dec. Qed.
Print Assumptions carried_density_is_target.

(* 2. With the accept test of the code (u < exp(min(0, D + H)), [dec := Rltb]): at every iteration
   the move is accepted exactly when the Hastings term and the proposed density are finite and
   u < min(1, exp(change in log density + log Hastings ratio)); the acceptance probability handed to
   the tuner is that minimum (0 when something is not finite); rejected moves leave state and
   carried density unchanged, accepted moves install the proposed state and its density; the logger
   row written after the move is the current state with the target evaluated at it. *)
Theorem accept_iff :
  forall (pi : list R -> ext R) (cfgs : list (opcfg R)) (ds : list (draws R)) (st : chain R),
  pi (c_x st) = Fin (c_lj st) -> List.Forall (faithful pi) ds ->
  let sr := run NumR Rltb cfgs st ds in
  pi (c_x (fst sr)) = Fin (c_lj (fst sr)) /\
  List.Forall (fun r => rec_density_ok pi r /\ rec_accept_ok r /\ rec_restore_ok r) (snd sr).
Proof. exact run_ok. Qed.
Print Assumptions accept_iff.

(* what the three predicates say, spelled out for one record *)
Theorem accept_iff_unfolded : forall r : rec R,
  rec_accept_ok r ->
  (r_acc r = true <->
   exists hv p', r_hast r = Fin hv /\ r_dens r = Fin p' /\
                 r_u r < Rmin 1 (exp ((p' - r_lj_before r) + hv))) /\
  ((r_hast r = NonFin \/ r_dens r = NonFin) -> r_acc r = false /\ r_ap r = 0).
Proof. exact accept_unfolded. Qed.
Print Assumptions accept_iff_unfolded.

(* same test in logarithmic form:  ln u < min(0, D + H)  (u > 0) *)
Theorem accept_log_form : forall u a, 0 < u -> (u < Rmin 1 (exp a) <-> ln u < Rmin 0 a).
Proof. exact accept_ln_form. Qed.
Print Assumptions accept_log_form.

(* 3. A rejected move restores the state: identical parameter values and carried density — in every
   run, for ANY decision function and ANY oracles (no hypothesis).  Accepted moves install the
   proposal and its density.  (In the model this is equality of lists of reals; bit-identity of
   every parameter of the implementation, including parameters reached through views and
   transforms, is checked on the recorded runs.) *)
Theorem reject_restores : forall (dec : R -> R -> bool) (cfgs : list (opcfg R)) (ds : list (draws R))
                                 (st : chain R),
  List.Forall (fun r => (r_acc r = false -> r_after r = r_before r /\ r_lj_after r = r_lj_before r) /\
                        (r_acc r = true -> r_after r = r_prop r /\ r_dens r = Fin (r_lj_after r)))
              (snd (run NumR dec cfgs st ds)).
Proof. exact run_restores. Qed.
Print Assumptions reject_restores.

(* every logger row is self-consistent: the logged parameter values are the state after the move
   and the logged density is the target at them (= the carried density) *)
Theorem logged_row_consistent :
  forall (pi : list R -> ext R) (cfgs : list (opcfg R)) (ds : list (draws R)) (st : chain R),
  pi (c_x st) = Fin (c_lj st) -> List.Forall (faithful pi) ds ->
  List.Forall (fun r => r_logx r = r_after r /\ r_logp r = pi (r_logx r) /\ r_logp r = Fin (r_lj_after r))
              (snd (run NumR Rltb cfgs st ds)).
Proof. exact run_logged. Qed.
Print Assumptions logged_row_consistent.

(* consecutive iterations are chained: nothing changes the state between two iterations *)
Theorem trace_chained : forall dec cfgs ds st,
  chained (c_x st) (c_lj st) (snd (run NumR dec cfgs st ds)).
Proof. intros dec cfgs ds st. exact (run_chained dec cfgs ds st). Qed.
Print Assumptions trace_chained.

(* 4. ScalerOperator.  s = a + u (1/a - a) with u ~ U(0,1) and 0 < a < 1, proposal x' = s x (x > 0).
   [scaler_event]: {x' <= t} = {u <= scale_cdf a x t}, so scale_cdf is the distribution function of
   the proposal; [scale_density_is_derivative]: its derivative is 1/(x (1/a - a)); the reverse move
   is the scaling by 1/s, inside the same window, and the Hastings term computed by the code,
   -ln s, is ln( q(x | x') / q(x' | x) ). *)
Theorem scaler_event_is_cdf : forall a x u t, 0 < a < 1 -> 0 < x ->
  (scaler_s NumR a u * x <= t <-> u <= scale_cdf a x t).
Proof. exact scaler_event. Qed.
Print Assumptions scaler_event_is_cdf.
Theorem scale_density_is_derivative : forall a x t, 0 < a < 1 -> 0 < x ->
  is_derive (scale_cdf a x) t (scale_density a x).
Proof. exact scale_density_derive. Qed.
Print Assumptions scale_density_is_derivative.
Theorem hastings_scaler : forall a u x, 0 < a < 1 -> 0 < u < 1 -> 0 < x ->
  let s := scaler_s NumR a u in
  let x' := s * x in
  (a < / s < / a) /\ x = / s * x' /\
  opp NumR (nln NumR s) = ln (scale_density a x' / scale_density a x).
Proof. exact hastings_scaler_l. Qed.
Print Assumptions hastings_scaler.
(* and this -ln s is what the model's proposal returns for a scaler operator *)
Theorem model_scaler_hastings : forall (cfg : opcfg R) os x d, k_kind cfg = KScaler ->
  snd (propose NumR cfg os x d) = Fin (opp NumR (nln NumR (scaler_s NumR (o_field os) (d_u d)))).
Proof. exact model_scaler_hastings_l. Qed.
Print Assumptions model_scaler_hastings.

(* 5. SlidingWindowOperator.  x' = x + w (u - 1/2): distribution function, density 1/w, symmetric:
   the Hastings term 0 is the log of the density ratio. *)
Theorem sliding_event_is_cdf : forall w x u t, 0 < w ->
  (x + sliding_shift NumR w u <= t <-> u <= slide_cdf w x t).
Proof. exact sliding_event. Qed.
Print Assumptions sliding_event_is_cdf.
Theorem slide_density_is_derivative : forall w x t, 0 < w -> is_derive (slide_cdf w x) t (slide_density w).
Proof. exact slide_density_derive. Qed.
Print Assumptions slide_density_is_derivative.
Theorem hastings_sliding : forall w u x, 0 < w -> 0 < u < 1 ->
  let x' := x + sliding_shift NumR w u in
  (- (w / 2) < x - x' < w / 2) /\ zero NumR = ln (slide_density w / slide_density w).
Proof. exact hastings_sliding_l. Qed.
Print Assumptions hastings_sliding.
Theorem model_sliding_hastings : forall (cfg : opcfg R) os x d, k_kind cfg = KSliding ->
  snd (propose NumR cfg os x d) = Fin 0.
Proof. exact model_sliding_hastings_l. Qed.
Print Assumptions model_sliding_hastings.

(* 6. Operators whose proposal densities are oracles (Dirichlet: b = log Dir(x | c x'), f = log
   Dir(x' | c x); block update: the two Gaussian log densities; HMC: kinetic energies): the term
   b - f is the log of the ratio of reverse to forward density; for HMC, change in log density +
   (K0 - K1) is the decrease of the full Hamiltonian. *)
Theorem hastings_dirichlet : forall b f, sub NumR b f = ln (exp b / exp f).
Proof. exact hastings_log_ratio. Qed.
Print Assumptions hastings_dirichlet.
Theorem hastings_hmc_is_delta_H : forall lp0 lp1 k0 k1,
  (lp1 - lp0) + sub NumR k0 k1 = (- lp0 + k0) - (- lp1 + k1).
Proof. exact hmc_full_hamiltonian. Qed.
Print Assumptions hastings_hmc_is_delta_H.

(* 7. Block-updating operator, proposal of the precision: the multiplier is drawn from the mixture
   (uniform on (1/s, s) with probability L/(L + 2 ln s), s^(2u-1) otherwise); events, distribution
   function, density (1 + 1/m)/(L + 2 ln s); the density ratio of reverse to forward move is 1, so
   adding no Hastings term for the precision is correct. *)
Theorem precision_uniform_event : forall s u t, 1 < s ->
  (prec_mult_uniform NumR s u <= t <-> u <= (t - / s) / (s - / s)).
Proof. exact prec_uniform_event. Qed.
Print Assumptions precision_uniform_event.
Theorem precision_loguniform_event : forall s u t, 1 < s -> 0 < t ->
  (prec_mult_loguniform NumR s u <= t <-> u <= (ln t / ln s + 1) / 2).
Proof. exact prec_loguniform_event. Qed.
Print Assumptions precision_loguniform_event.
Theorem precision_density_is_derivative : forall s t, 1 < s -> 0 < t ->
  is_derive (prec_cdf s) t (prec_density s t).
Proof. exact prec_density_derive. Qed.
Print Assumptions precision_density_is_derivative.
Theorem hastings_precision_mixture : forall s m tau, 1 < s -> 0 < m -> 0 < tau ->
  let tau' := m * tau in
  let fwd := prec_density s (tau' / tau) / tau in
  let bwd := prec_density s (tau / tau') / tau' in
  0 < fwd /\ ln (bwd / fwd) = 0.
Proof. exact hastings_precision_l. Qed.
Print Assumptions hastings_precision_mixture.
(* 7b. Block-updating operator, Gaussian proposal of the field (proof/P_block_gauss.v; matrices as lists of rows read
   through [entry], any dimension n).  The operator factorises the precision QW = Q + diag(w exp(-mode)) of its
   Gaussian approximation as U^T U (U upper triangular, positive diagonal: [chol_of]), draws z ~ N(0, I), solves
   U u = z and proposes gamma' = mu + u; it reports
       log_q_forward  = sum_i ln U_ii - z.z / 2
       log_q_backward = sum_i ln Ub_ii - (gamma - mu_b) . QW_b (gamma - mu_b) / 2
   and returns their difference.  [lgauss_chol n mu U y] is the log density at y of the image of a standard normal
   vector under the affine bijection z |-> mu + U^-1 z (change of variables: C15_gaussian_density_is_change_of_variables;
   the solve has exactly one solution: C15_back_substitution), i.e. of N(mu, (U^T U)^-1).  Both reported quantities are
   these log densities up to the SAME constant n/2 ln(2 pi), so the returned value IS the log ratio of the reverse to
   the forward proposal density; and the mean the code computes by two triangular solves is QW^-1 b. *)
Theorem hastings_gaussian_block : forall n gamma gamma' mu_f U_f u z QW_b mu_b U_b,
  chol_shape n U_f -> length mu_f = n -> length u = n ->
  matvec NumR U_f u = z -> gamma' = vadd mu_f u ->
  chol_of n QW_b U_b -> length gamma = n -> length mu_b = n ->
  log_q_backward n U_b QW_b gamma mu_b - log_q_forward n U_f z =
  lgauss_chol n mu_b U_b gamma - lgauss_chol n mu_f U_f gamma'.
Proof. exact P_block_gauss.hastings_gaussian_block. Qed.
Print Assumptions hastings_gaussian_block.
Theorem C15_gaussian_density_is_change_of_variables : forall n mu U y, length U = n ->
  lgauss_chol n mu U y =
  rsum (map (fun t => ln (phi t)) (matvec NumR U (vsub y mu))) + ln (Rabs (ldet NumR n U)).
Proof. exact lgauss_chol_change_of_variables. Qed.
Print Assumptions C15_gaussian_density_is_change_of_variables.
Theorem C15_gaussian_density_precision_form : forall n QW mu U y,
  chol_of n QW U -> length (vsub y mu) = n ->
  lgauss_chol n mu U y =
  - (1/2) * quad NumR QW (vsub y mu) + rsum (map ln (diagonal n U)) - half_n_ln2pi n.
Proof. exact lgauss_chol_precision_form. Qed.
Print Assumptions C15_gaussian_density_precision_form.
Theorem C15_back_substitution : forall n U z, chol_shape n U -> length z = n ->
  exists u, length u = n /\ matvec NumR U u = z /\ forall u', length u' = n -> matvec NumR U u' = z -> u' = u.
Proof. exact back_substitution. Qed.
Print Assumptions C15_back_substitution.
Theorem C15_block_mean_solves : forall n QW U b v mu,
  length QW = n -> length U = n -> length mu = n ->
  mat_eq n QW (mm n (transpose n U) U) ->
  matvec NumR (transpose n U) v = b -> matvec NumR U mu = v -> matvec NumR QW mu = b.
Proof. exact mean_solves. Qed.
Print Assumptions C15_block_mean_solves.
Example C15_block_example := block_step_example.
(* Assumed, as data of the move: the Newton iteration's mode, the Cholesky factorisation and the triangular solves are
   exact (the correspondence recomputes both log densities with independent dense linear algebra on every recorded
   block move); the code sums ln over the diagonal entries above 1e-7 only, which is the full sum when every entry
   exceeds it (filter_log_sum in the proof file). *)

(* 8. Tuning.  Over the getter / setter / tune expressions regenerated from the sources: for every
   operator kind, every field value in its domain, every adaptation count, acceptance probability
   >= target: the proposal spread after tune is >= before (scaler: width 1/s - s of the multiplier
   window; sliding window: width; HMC: step size; block update: width s - 1/s of the precision
   window; Dirichlet: INVERSE concentration), and the new field is again in the domain. *)
Theorem tuning_direction : forall (cfg : opcfg R) (os : opstate R) ap,
  k_tuner cfg = TBase -> dom (k_kind cfg) (o_field os) -> k_target cfg <= ap ->
  let os' := tune NumR cfg os ap in
  dom (k_kind cfg) (o_field os') /\
  spread (k_kind cfg) (o_field os) <= spread (k_kind cfg) (o_field os').
Proof. exact tuning_direction_l. Qed.
Print Assumptions tuning_direction.

(* and acceptance below target never widens it (block update: as long as the adaptable parameter
   stays non-negative) *)
Theorem tuning_direction_below : forall (cfg : opcfg R) (os : opstate R) ap,
  k_tuner cfg = TBase -> dom (k_kind cfg) (o_field os) -> ap <= k_target cfg ->
  (k_kind cfg = KBlock ->
   0 <= MCMCOperator_tune NumR (getf NumR KBlock (o_field os)) ap (k_target cfg) (o_count os)) ->
  spread (k_kind cfg) (o_field (tune NumR cfg os ap)) <= spread (k_kind cfg) (o_field os).
Proof. exact tuning_direction_down_l. Qed.
Print Assumptions tuning_direction_below.

(* HMC with an AdaptiveStepSize adaptor (its own Robbins-Monro step on ln(step size)): acceptance
   probability >= target never shrinks the step size. *)
Theorem tuning_direction_adaptive : forall (cfg : opcfg R) (os : opstate R) ap tgt,
  k_tuner cfg = TAdaptive tgt -> 0 < o_field os -> tgt <= ap ->
  0 < o_field (tune NumR cfg os ap) /\ o_field os <= o_field (tune NumR cfg os ap).
Proof. exact tuning_direction_adaptive_l. Qed.
Print Assumptions tuning_direction_adaptive.
(* HMC with a DualAveragingStepSize adaptor (Nesterov dual averaging, as in Stan).  The literal
   "after >= before" is NOT a property of dual averaging (the iterate also forgets its history at
   rate 1/(t + t0)); what holds, and is what "moves the acceptance rate toward the target" means for
   it, is monotone response: from the same state, a higher acceptance probability never gives a
   smaller next step size (tuning_direction_partial for this adaptor). *)
Theorem tuning_direction_dual_averaging_partial :
  forall (cfg : opcfg R) (os : opstate R) ap1 ap2 delta t0 mu gamma,
  k_tuner cfg = TDual delta t0 mu gamma -> 0 < gamma -> 0 <= t0 -> ap1 <= ap2 ->
  o_field (tune NumR cfg os ap1) <= o_field (tune NumR cfg os ap2).
Proof. exact tuning_dual_monotone_l. Qed.
Print Assumptions tuning_direction_dual_averaging_partial.

(* The model of the Dirichlet operator uses the CORRECT re-parameterisation (-ln s, exp(-v)).
   For the shipped one the statement is conditional on what a correct re-parameterisation
   satisfies; the check tries to discharge the two hypotheses about the regenerated expressions
   on every run (obligation file written by harness/props/c15.py).  On the unchanged tree they
   are false: *)
Theorem tuning_direction_dirichlet_code :
  (forall v1 v2, v1 <= v2 -> / DirichletOperator_set NumR v1 <= / DirichletOperator_set NumR v2) ->
  (forall s, 0 < s -> DirichletOperator_set NumR (DirichletOperator_get NumR s) = s) ->
  forall s ap tgt n, 0 < s -> tgt <= ap ->
  / s <= / DirichletOperator_set NumR (MCMCOperator_tune NumR (DirichletOperator_get NumR s) ap tgt n).
Proof. exact tuning_direction_dirichlet_code_l. Qed.
Print Assumptions tuning_direction_dirichlet_code.
(* tuning the LOG of the concentration upwards (get = ln, set = exp, as shipped) makes the
   proposals strictly more timid whenever acceptance is above target *)
Theorem tuning_direction_dirichlet_refuted_for_log_exp : forall s ap tgt n, 0 < s -> tgt < ap ->
  let s' := exp (MCMCOperator_tune NumR (ln s) ap tgt n) in
  s < s' /\ / s' < / s.
Proof. exact dirichlet_log_exp_is_timid. Qed.
Print Assumptions tuning_direction_dirichlet_refuted_for_log_exp.

(* 9. Tie between the instances: the interval replay of a recorded transition (what the
   correspondence evaluates, with the recorded decision b) encloses the real-valued model, and the
   replay with decision b is the real model's step whenever b is the real comparison. *)
Theorem replay_encloses_model : forall (b : bool) cfgs Cfgs st St d D,
  list_R (opcfg R) (opcfg I.type) (opcfg_R R I.type rel) cfgs Cfgs ->
  chain_R R I.type rel st St -> draws_R R I.type rel d D ->
  prod_R (chain R) (chain I.type) (chain_R R I.type rel) (rec R) (rec I.type) (rec_R R I.type rel)
         (step NumR (fun _ _ => b) cfgs st d) (step NumI (fun _ _ => b) Cfgs St D).
Proof. exact step_enclosed. Qed.
Print Assumptions replay_encloses_model.
Theorem replay_with_recorded_decision : forall (b : bool) cfgs st d,
  let sr := step NumR (fun _ _ => b) cfgs st d in
  (forall hv p', r_hast (snd sr) = Fin hv -> r_dens (snd sr) = Fin p' ->
                 b = Rltb (r_u (snd sr)) (r_ap (snd sr))) ->
  step NumR Rltb cfgs st d = sr.
Proof. exact step_const_dec. Qed.
Print Assumptions replay_with_recorded_decision.

(* non-vacuity: a two-operator mixture (scaler on entry 0, sliding window on entry 1) on the
   target pi(x) = -(x0 + x1^2): the hypotheses of carried_density_is_target / accept_iff hold for
   a three-iteration schedule, a scaler move is accepted and changes the state, a sliding-window
   move is rejected and leaves it unchanged. *)
Definition ex_pi (x : list R) : ext R := Fin (- (lk x 0%nat 0 + lk x 1%nat 0 * lk x 1%nat 0)).
Definition ex_cfgs : list (opcfg R) :=
  [mkCfg KScaler (1/4) TBase [[0%nat]]; mkCfg KSliding (1/4) TBase [[1%nat]]].
Definition ex_draw (k : nat) (u ua : R) : draws R :=
  mkDraws k u 0 0 [] 0 0 true ex_pi ua ex_pi.
Definition ex_ds : list (draws R) := [ex_draw 0 (1/2) 0; ex_draw 1 1 1; ex_draw 1 (1/4) 0].
Definition ex_st : chain R := mkChain [1; 0] (-1) [mkOp (1/2) 0 0 0 0; mkOp 1 0 0 0 0].
Example C15_example :
  ex_pi (c_x ex_st) = Fin (c_lj ex_st) /\ List.Forall (faithful ex_pi) ex_ds /\
  (let r := snd (step NumR Rltb ex_cfgs ex_st (ex_draw 0 (1/2) 0)) in
   r_acc r = true /\ r_after r <> r_before r) /\
  (let r := snd (step NumR Rltb ex_cfgs ex_st (ex_draw 1 1 1)) in
   r_acc r = false /\ r_after r = r_before r).
Proof. exact C15_example_l. Qed.
Print Assumptions C15_example.
