(* C16 — the leapfrog integrator is reversible and volume preserving; the Hastings term of the
   Hamiltonian operator is the change in kinetic energy.
   Statements only.  Model: model/M_leapfrog.v (hand-written from integrator.py / operator.py /
   hamiltonian.py, tied on every run by exact-rational correspondence with
   HMCOperator.step() / LeapfrogIntegrator.__call__, and — for the integrator itself — by the arithmetic
   regenerated from the source into gen/G_leapfrog.v, C16_integrator_source_is_model).
   [grad] is ANY function (the gradient of the potential energy as the code obtains it from
   autograd); no smoothness is used except where a derivative is mentioned explicitly. *)
Set Warnings "-notation-overridden,-ambiguous-paths".
From Coq Require Import QArith Reals List.
From Coquelicot Require Import Coquelicot.
Import ListNotations.
From TT Require Import Num NumR NumQ ParamQ ParamI M_leapfrog M_lf_oracle G_leapfrog P_leapfrog_gen P_leapfrog P_leapfrog_param P_leapfrog_jac.
From TT Require P_leapfrog_det P_leapfrog_ndim.
Open Scope R_scope.

(* The integrator assembled from the four expressions regenerated from LeapfrogIntegrator.__call__ (translator T9,
   which also pins the order: new position, gradient AT the new position, momentum), in that order, IS the model's
   [leapfrog]: every number type, step size, diagonal or dense mass matrix, gradient, number of steps, start. *)
Theorem C16_integrator_source_is_model : forall (T : Type) (N : Num T) eps Minv grad L qp,
  g_leapfrog N eps Minv grad L qp = leapfrog N eps Minv grad L qp.
Proof. exact @g_leapfrog_is_model. Qed.
Print Assumptions C16_integrator_source_is_model.

(* The code's arrangement (half step, L x (position, full momentum step), half step BACK with the
   last gradient) is exactly L textbook kick-drift-kick steps.  Any grad, any dimension n, any L,
   diagonal or dense inverse mass matrix; shapes agree as torch requires. *)
Theorem C16_leapfrog_is_standard : forall eps Minv grad n L q p,
  wf_minv n Minv -> wf_grad n grad -> length q = n -> length p = n ->
  leapfrog NumR eps Minv grad L (q, p) = iter L (kdk NumR eps Minv grad) (q, p).
Proof. intros; apply (leapfrog_standard eps Minv grad n); auto; split; auto. Qed.
Print Assumptions C16_leapfrog_is_standard.

(* Time reversal: integrate, negate the momentum, integrate again: back at the start with the
   momentum negated — exactly, over the reals (so: up to round-off in floating point). *)
Theorem C16_leapfrog_reversible : forall eps Minv grad n L q p,
  wf_minv n Minv -> wf_grad n grad -> length q = n -> length p = n ->
  leapfrog NumR eps Minv grad L (flip NumR (leapfrog NumR eps Minv grad L (q, p))) = flip NumR (q, p).
Proof. intros; apply (leapfrog_reversible_l eps Minv grad n); auto; split; auto. Qed.
Print Assumptions C16_leapfrog_reversible.

(* The inverse mass matrix acts as an odd map, Minv (-p) = - (Minv p), in both representations
   (this is what reversibility needs of it). *)
Theorem C16_minv_odd : forall Minv p,
  minv_apply NumR Minv (vopp NumR p) = vopp NumR (minv_apply NumR Minv p).
Proof. exact minv_apply_odd. Qed.
Print Assumptions C16_minv_odd.

(* Shear decomposition, unconditionally: the implemented map is the composition of the 2L+2 shears
   kick(eps/2); L x [drift(eps); kick(eps)]; kick(-eps/2)   where
   kick c (q,p) = (q, p - c grad q)   and   drift c (q,p) = (q + c Minv p, p). *)
Theorem C16_leapfrog_shear_decomposition : forall eps Minv grad L x,
  leapfrog NumR eps Minv grad L x =
  kick NumR grad (- half NumR eps)
    (iter L (fun y => kick NumR grad eps (drift NumR Minv eps y)) (kick NumR grad (half NumR eps) x)).
Proof. exact leapfrog_shears. Qed.
Print Assumptions C16_leapfrog_shear_decomposition.

(* Volume preservation, one degree of freedom, ANY differentiable gradient g (derivative g'), any step
   size, inverse mass and number of steps: the partial derivatives of the implemented map
   (q,p) -> (q',p') = (Fq q p, Fp q p) exist and the Jacobian determinant is one.  Real derivatives
   (Coquelicot's is_derive); the chain rule is proved, not assumed. *)
Theorem C16_volume_preserving_dim1 : forall (mi : R) (g g' : R -> R),
  (forall x, is_derive g x (g' x)) ->
  forall eps L q p, exists a b c d : R,
    is_derive (fun t => Fq mi g eps L t p) q a /\ is_derive (fun t => Fq mi g eps L q t) p b /\
    is_derive (fun t => Fp mi g eps L t p) q c /\ is_derive (fun t => Fp mi g eps L q t) p d /\
    a * d - b * c = 1.
Proof. exact leapfrog_jacobian_det_one_dim1. Qed.
Print Assumptions C16_volume_preserving_dim1.
(* where Fq / Fp are the two components of the model on one-element vectors: *)
Theorem C16_Fq_Fp_are_the_model : forall mi g eps L q p,
  leapfrog NumR eps (Diag [mi]) (map g) L ([q], [p]) = ([Fq mi g eps L q p], [Fp mi g eps L q p]).
Proof.
  intros. unfold Fq, Fp. change ([q], [p]) with (lift (q, p)). rewrite leapfrog_lift. reflexivity.
Qed.
Print Assumptions C16_Fq_Fp_are_the_model.
(* ANY dimension, ANY (Frechet) differentiable gradient, diagonal or dense inverse mass matrix — the n-dimensional
   chain rule, formalised (Coquelicot's filterdiff on normed modules; R^(n+1) is [Un n] = R x ... x R, read as the
   model's lists through the coordinates [emb]):
   (1) through the coordinates, the list model IS the generic map [gleap] (kick, L x [drift; kick], kick back);
   (2) the inverse mass matrix acts as a (bounded) linear map;
   (3) when the gradient is differentiable, the implemented map is differentiable at EVERY point and its
       differential is a composition of 2L+2 linear shears (dq,dp) -> (dq, dp - c Hess(q_k) dq) and
       (dq,dp) -> (dq + c Minv dp, dp), the Hessians taken along the trajectory;
   (4) hence every determinant-like functional (multiplicative, extensional, one on the identity and on the two
       kinds of block shear — mathcomp's \det has these properties, C16_shear_jacobians_det_one below) gives the
       Jacobian of the implemented map the value ONE. *)
Theorem C16_volume_preserving_any_dimension :
  forall (n : nat) (grad : list R -> list R) (Minv : mass R),
    wf_grad (S n) grad -> wf_minv (S n) Minv ->
    let g := P_leapfrog_ndim.gU n grad in
    let Mi := P_leapfrog_ndim.MiU n Minv in
    (forall eps L x, leapfrog NumR eps Minv grad L (P_leapfrog_ndim.embs n x)
                     = P_leapfrog_ndim.embs n (P_leapfrog_ndim.gleap g Mi eps L x)) /\
    is_linear Mi /\
    forall Dg, (forall q, filterdiff g (locally q) (Dg q)) ->
      forall eps L x,
        (exists l, length l = (2 * L + 2)%nat /\
                   filterdiff (P_leapfrog_ndim.gleap g Mi eps L) (locally x) (P_leapfrog_ndim.lcomp Dg Mi l)) /\
        forall det : (P_leapfrog_ndim.Un n * P_leapfrog_ndim.Un n -> P_leapfrog_ndim.Un n * P_leapfrog_ndim.Un n) -> R,
          (forall f h, is_linear f -> is_linear h -> det (fun d => h (f d)) = det h * det f) ->
          (forall f h, (forall d, f d = h d) -> det f = det h) ->
          det (fun d => d) = 1 ->
          (forall A, is_linear A -> det (fun d => (fst d, plus (snd d) (A (fst d)))) = 1) ->
          (forall B, is_linear B -> det (fun d => (plus (fst d) (B (snd d)), snd d)) = 1) ->
          exists Df, filterdiff (P_leapfrog_ndim.gleap g Mi eps L) (locally x) Df /\ det Df = 1.
Proof. exact P_leapfrog_ndim.leapfrog_list_model_ndim. Qed.
Print Assumptions C16_volume_preserving_any_dimension.
(* the coordinates lose nothing: lists of length n+1 and Un n are in bijection *)
Theorem C16_coordinates_are_a_bijection : forall n,
  (forall u, P_leapfrog_ndim.unemb n (P_leapfrog_ndim.emb n u) = u) /\
  (forall l, length l = S n -> P_leapfrog_ndim.emb n (P_leapfrog_ndim.unemb n l) = l).
Proof. intro n. split; [apply P_leapfrog_ndim.unemb_emb | apply P_leapfrog_ndim.emb_unemb]. Qed.
(* the same statement on an arbitrary normed module U (no coordinates), the differential written out along the
   trajectory *)
Theorem C16_leapfrog_differential_any_normed_module :
  forall (U : NormedModule R_AbsRing) (g : U -> U) (Dg : U -> U -> U) (Mi : U -> U),
  (forall q, filterdiff g (locally q) (Dg q)) -> is_linear Mi ->
  forall eps L x,
    filterdiff (P_leapfrog_ndim.gleap g Mi eps L) (locally x)
      (P_leapfrog_ndim.lcomp Dg Mi (P_leapfrog_ndim.dlist g Mi (P_leapfrog_ndim.leap_list eps L) x)).
Proof. exact @P_leapfrog_ndim.gleap_differential_along_trajectory. Qed.
Print Assumptions C16_leapfrog_differential_any_normed_module.
(* dimension one with the genuine 2 x 2 determinant of the differential (det2), no abstract functional *)
Theorem C16_volume_preserving_dim1_frechet : forall mi (g g' : R -> R),
  (forall x, is_derive g x (g' x)) -> forall eps L x,
  exists Df, filterdiff (sleap mi g eps L) (locally x) Df /\ P_leapfrog_ndim.det2 Df = 1.
Proof. exact P_leapfrog_ndim.gleap_dim1_volume. Qed.
Print Assumptions C16_volume_preserving_dim1_frechet.
(* the abstract functional is instantiated with the genuine determinant of the matrix of partial derivatives at the
   end of this file: C16_jacobian_determinant_one. *)

(* The positions written into the parameters form a trajectory that ends at the returned position. *)
Theorem C16_trace_ends_at_result : forall eps Minv grad L x,
  last (leapfrog_trace NumR eps Minv grad L x) [] = fst (leapfrog NumR eps Minv grad L x).
Proof. exact leapfrog_trace_last. Qed.
Print Assumptions C16_trace_ends_at_result.

(* The Hastings term returned by HMCOperator._step is K(p0) - K(p1), p1 the momentum returned by the
   integrator started from the drawn momentum p0; the positions it leaves are the integrator's. *)
Theorem C16_hmc_hastings_is_dK : forall eps L Minv grad q0 p0,
  snd (hmc_step NumR eps L Minv grad q0 p0)
  = kinetic NumR Minv p0 - kinetic NumR Minv (snd (leapfrog NumR eps Minv grad L (q0, p0)))
  /\ fst (hmc_step NumR eps L Minv grad q0 p0) = fst (leapfrog NumR eps Minv grad L (q0, p0)).
Proof. exact hmc_hastings_dK. Qed.
Print Assumptions C16_hmc_hastings_is_dK.

(* ... so that MCMC.run's log acceptance ratio (logp1 - logp0) + hastings is minus the change of the
   full Hamiltonian H = -log p + K. *)
Theorem C16_acceptance_on_full_hamiltonian : forall logp0 logp1 K0 K1,
  log_alpha NumR logp0 logp1 (K0 - K1) = - ((- logp1 + K1) - (- logp0 + K0)).
Proof. exact log_alpha_dH. Qed.
Print Assumptions C16_acceptance_on_full_hamiltonian.

(* Flipping the momentum does not change the kinetic energy (so a reversed trajectory has the same
   Hamiltonian at its ends). *)
Theorem C16_kinetic_even : forall Minv p, kinetic NumR Minv (vopp NumR p) = kinetic NumR Minv p.
Proof. exact kinetic_even. Qed.
Print Assumptions C16_kinetic_even.

(* Energy error, quadratic potential k/2 (q-mu)^2 with inverse mass mi (omega^2 = k mi): the modified
   energy 1/2 mi p^2 + 1/2 k (q-mu)^2 (1 - eps^2 omega^2 / 4) is conserved EXACTLY by the implemented
   integrator, for any number of steps. *)
Theorem C16_energy_error_harmonic : forall eps mi k mu L q p,
  let x := leapfrog NumR eps (Diag [mi]) (gauss_grad NumR [[k]] [mu]) L ([q], [p]) in
  exists q' p', x = ([q'], [p']) /\ Hmod eps mi k mu (q', p') = Hmod eps mi k mu (q, p).
Proof.
  intros. unfold x. rewrite leapfrog_harmonic.
  exists (fst (iter L (hstep eps mi k mu) (q, p))), (snd (iter L (hstep eps mi k mu) (q, p))).
  split; [reflexivity|]. rewrite <- surjective_pairing. apply iter_hstep_Hmod.
Qed.
Print Assumptions C16_energy_error_harmonic.

(* Hence the energy error is eps^2 times a bounded quantity, uniformly in the number of steps:
   H_L - H_0 = eps^2 (k^2 mi / 8) ((q_L - mu)^2 - (q_0 - mu)^2), and for stable step sizes
   (eps^2 omega^2 < 4)   |H_L - H_0| <= eps^2 * (omega^2 / 4) H_0 / (1 - eps^2 omega^2 / 4). *)
Theorem C16_energy_error_partial : forall eps mi k mu L q p,
  0 < mi -> 0 < k -> eps * eps * (k * mi) < 4 ->
  forall q' p', leapfrog NumR eps (Diag [mi]) (gauss_grad NumR [[k]] [mu]) L ([q], [p]) = ([q'], [p']) ->
  Rabs (Hen mi k mu (q', p') - Hen mi k mu (q, p))
  <= eps * eps * ((k * mi / 4) * Hen mi k mu (q, p) / (1 - eps * eps * (k * mi) / 4)).
Proof.
  intros eps mi k mu L q p Hmi Hk Hst q' p' E. rewrite leapfrog_harmonic in E.
  unfold s1 in E. injection E as E1 E2.
  pose proof (harmonic_energy_bound eps mi k mu L (q, p) Hmi Hk Hst) as B.
  rewrite (surjective_pairing (iter L (hstep eps mi k mu) (q, p))) in B. rewrite E1, E2 in B. exact B.
Qed.
Print Assumptions C16_energy_error_partial.
(* _partial: proved for quadratic potentials in one degree of freedom (by simultaneous diagonalisation
   this is every Gaussian target, not formalised).  MISSING: for a general smooth target the full claim
     exists C, forall eps small, |H(leapfrog eps (T/eps) x) - H x| <= C eps^2
   (backward error analysis) is not proved; on the implementation the order is measured at
   eps, eps/2, eps/4, ... on every run. *)

(* The exact run used by the correspondence (gcd-free dyadic arithmetic, model/M_lf_oracle.v) IS the
   real-valued model of the theorems above (free theorem): reld r d  means  d is undefined or
   r = mantissa * 2^exponent.  Gaussian targets: the gradient is part of the model ... *)
Theorem C16_run_is_model_gauss : forall eps Eps L Minv MINV A AA mu MU q Q p P,
  reld eps Eps -> TT_o_M_leapfrog_o_mass_R R dy reld Minv MINV ->
  list_R _ _ (list_R R dy reld) A AA -> list_R R dy reld mu MU -> list_R R dy reld q Q -> list_R R dy reld p P ->
  Coq_o_Init_o_Datatypes_o_prod_R _ _ (list_R R dy reld) _ _ reld
    (gauss_step NumR eps L Minv A mu q p) (gauss_step NumDy Eps L MINV AA MU Q P).
Proof. exact gauss_step_dyadic. Qed.
Print Assumptions C16_run_is_model_gauss.

(* ... any other target: for whatever real function [grad] the recorded oracle is related to
   (positions written, returned momentum; likewise step()'s pair). *)
Theorem C16_run_is_model : forall eps Eps L Minv MINV grad GRAD q Q p P,
  reld eps Eps -> TT_o_M_leapfrog_o_mass_R R dy reld Minv MINV ->
  (forall x X, list_R R dy reld x X -> list_R R dy reld (grad x) (GRAD X)) ->
  list_R R dy reld q Q -> list_R R dy reld p P ->
  Coq_o_Init_o_Datatypes_o_prod_R _ _ (list_R R dy reld) _ _ (list_R R dy reld)
    (leapfrog NumR eps Minv grad L (q, p)) (leapfrog NumDy Eps MINV GRAD L (Q, P)).
Proof. exact leapfrog_dyadic. Qed.
Print Assumptions C16_run_is_model.
Theorem C16_run_is_model_step : forall eps Eps L Minv MINV grad GRAD q Q p P,
  reld eps Eps -> TT_o_M_leapfrog_o_mass_R R dy reld Minv MINV ->
  (forall x X, list_R R dy reld x X -> list_R R dy reld (grad x) (GRAD X)) ->
  list_R R dy reld q Q -> list_R R dy reld p P ->
  Coq_o_Init_o_Datatypes_o_prod_R _ _ (list_R R dy reld) _ _ reld
    (hmc_step NumR eps L Minv grad q p) (hmc_step NumDy Eps L MINV GRAD Q P).
Proof. exact hmc_step_dyadic. Qed.
Print Assumptions C16_run_is_model_step.

(* non-vacuity: two steps of size 1/2 on the standard normal in one dimension from (1, 0):
   q2 = 17/32, p2 = -105/128; time reversal brings (17/32, 105/128) back to (1, 0). *)
Example C16_example :
  let g := gauss_grad NumQ [[sq 1]] [sq 0] in
  let x := leapfrog NumQ (sq (1#2)) (Diag [sq 1]) g 2 ([sq 1], [sq 0]) in
  (map show_q (fst x ++ snd x) = map show_q [sq (17#32); sq (-105#128)])
  /\ map show_q (fst (leapfrog NumQ (sq (1#2)) (Diag [sq 1]) g 2 (flip NumQ x))
                 ++ snd (leapfrog NumQ (sq (1#2)) (Diag [sq 1]) g 2 (flip NumQ x)))
     = map show_q [sq 1; sq 0].
Proof. vm_compute. split; reflexivity. Qed.

(* Volume preservation, ANY dimension, linear gradient q -> H q (every Gaussian target; H, M arbitrary
   square matrices over any commutative ring): the Jacobians of the shears are
   kickJ c H = [[1, 0], [-c H, 1]]  and  driftJ c M = [[1, c M], [0, 1]]  (they act on stacked vectors
   exactly as the shears do), and the matrix of the implemented arrangement
   kick(h2); L x [drift(h); kick(h)]; kick(-h2)  has determinant exactly 1. *)
From mathcomp Require Import all_ssreflect all_algebra.
Local Open Scope ring_scope.
Import P_leapfrog_det.
Theorem C16_shear_jacobians_det_one : forall (K : comRingType) (n : nat) (l : seq (shear K n)),
  \det (shearsJ l) = 1.
Proof. exact shearsJ_det. Qed.
Print Assumptions C16_shear_jacobians_det_one.
Theorem C16_volume_preserving_partial : forall (K : comRingType) (n : nat) (h h2 : K) (L : nat) (H M : 'M[K]_n),
  \det (shearsJ (leapfrog_shears h h2 L H M)) = 1.
Proof. exact leapfrogJ_det. Qed.
Print Assumptions C16_volume_preserving_partial.
(* _partial: together with C16_shear_matrices_act_as_shears below this is "det Jacobian = 1" for every
   linear gradient in every dimension, stated on mathcomp matrices rather than on the list model (the
   two are the same composition of shears by C16_leapfrog_shear_decomposition; that identification and,
   for nonlinear gradients, the n-dimensional chain rule are NOT formalised).  Dimension one is complete:
   C16_volume_preserving_dim1. *)
Theorem C16_shear_matrices_act_as_shears : forall (K : comRingType) (n : nat) (l : seq (shear K n)) (q p : 'cV[K]_n),
  shearsJ l *m col_mx q p =
  col_mx (foldl (fun x s => shear_act s x) (q, p) l).1 (foldl (fun x s => shear_act s x) (q, p) l).2.
Proof. exact shearsJ_acts. Qed.
Print Assumptions C16_shear_matrices_act_as_shears.

(* ------------------------------------------------------------------------------------------------------------
   Volume preservation, COMPLETE: any dimension n+1, any Frechet-differentiable gradient, diagonal or dense inverse
   mass matrix, any step size, any number of steps, any point.  The determinant is the genuine one: mathcomp's
   Leibniz determinant of the 2(n+1) x 2(n+1) real matrix [jacU Df] whose column j is the image of the j-th basis
   vector (R made a mathcomp comRingType in proof/P_Rring.v); [detU n f := \det (jacU n f)] satisfies the five
   hypotheses of C16_volume_preserving_any_dimension, and the entries of the matrix ARE the partial derivatives of
   the coordinates of the implemented map.  Hence: the matrix of partial derivatives of
   (q, p) |-> leapfrog(q, p) exists at every point and its determinant is exactly one. *)
From TT Require Import P_Rring P_leapfrog_ndim P_leapfrog_detU.
Local Close Scope ring_scope.
Local Open Scope R_scope.
Theorem C16_jacobian_determinant_one :
  forall (n : nat) (grad : list R -> list R) (Minv : mass R),
    wf_grad (S n) grad -> wf_minv (S n) Minv ->
    let g := gU n grad in let Mi := MiU n Minv in
    (forall eps L x, leapfrog NumR eps Minv grad L (embs n x) = embs n (gleap g Mi eps L x)) /\
    forall Dg, (forall q, filterdiff g (locally q) (Dg q)) ->
    forall eps L x, exists J : 'M[R]_(n.+1 + n.+1),
      (forall i j, is_derive (fun t : R => coord2 n (gleap g Mi eps L (plus x (scal t (basis2 n j)))) i) 0 (J i j)) /\
      determinant J = 1.
Proof.
  intros n grad Minv Hg Hm g Mi. split.
  - exact (proj1 (leapfrog_list_model_ndim n grad Minv Hg Hm)).
  - exact (leapfrog_jacobian_matrix_determinant_one n grad Minv Hg Hm).
Qed.
Print Assumptions C16_jacobian_determinant_one.
(* what the coordinates and the basis are: coordinate i of a pair is the i-th entry of the model's lists q ++ p, the
   basis vectors are the unit vectors *)
Theorem C16_coordinates_are_list_entries : forall n x i,
  coord2 n x i = nth R0 (emb n (fst x) ++ emb n (snd x)) i.      (* mathcomp's nth: default, list, index *)
Proof. exact coord2_emb. Qed.
Theorem C16_basis_is_unit_vectors : forall n i j, coord2 n (basis2 n j) i = if i == j then 1 else 0.
Proof. exact coord2_basis2. Qed.
(* detU is a determinant and not a constant: it is the 2x2 determinant in dimension one and c^(2(n+1)) on the
   homothety of ratio c *)
Theorem C16_detU_is_determinant_like : forall n : nat,
  (forall f h : Un n * Un n -> Un n * Un n, is_linear f -> is_linear h ->
      detU n (fun d => h (f d)) = detU n h * detU n f) /\
  (forall f h : Un n * Un n -> Un n * Un n, (forall d, f d = h d) -> detU n f = detU n h) /\
  detU n (fun d => d) = 1 /\
  (forall A : Un n -> Un n, is_linear A -> detU n (fun d => (fst d, plus (snd d) (A (fst d)))) = 1) /\
  (forall B : Un n -> Un n, is_linear B -> detU n (fun d => (plus (fst d) (B (snd d)), snd d)) = 1).
Proof. exact detU_is_determinant_like. Qed.
Print Assumptions C16_detU_is_determinant_like.
Theorem C16_detU_homothety : forall n c, detU n (fun d => scal c d) = pow c (n.+1 + n.+1).
Proof. exact detU_homothety. Qed.
