(* C01 — the tree log-likelihood equals exact marginalisation over ancestral states.
   Statements only.  Model: model/M_like.v (pruning as tree_likelihood.py arranges it),
   model/M_data.v over tables regenerated from datatype.py (gen/G_datatype.v). *)
From Coq Require Import QArith Reals List.
Import ListNotations.
From TT Require Import Num NumR NumI ParamI Tree M_like M_data G_datatype P_like P_data P_like_param.
From TT Require Import M_prune_loop G_prune P_prune_loop.
Open Scope R_scope.

(* Felsenstein pruning, EVERY indexed binary tree, every number of states S, every family of
   matrices (stochasticity not needed), every tip vectors: entry s of the root partial is the sum,
   over every assignment of states to all nodes below with root state s, of the product of branch
   transition probabilities and tip compatibilities. *)
Theorem C01_pruning_is_marginalisation : forall S P tip,
  (forall j, wf_mat S (P j)) -> (forall i, length (tip i) = S) ->
  forall t s, (s < S)%nat ->
  lk (prune NumR P tip t) s 0 = rsum (map (weight NumR P tip) (enum_at S t s)).
Proof. exact prune_is_sum. Qed.
Print Assumptions C01_pruning_is_marginalisation.

(* THE LOOP OF THE CODE.  [g_update] is regenerated on every run from the body of
   `for node, left, right in post_indexing:` in calculate_treelikelihood_discrete (translator T8);
   [loop] runs it over a mutable array of partials.  For every tree whose node numbering is sound (wfi:
   internal indices pairwise distinct and different from the leaf indices), every number type, every
   matrices and every initial array holding the tip vectors at the leaf indices, the entry the loop
   leaves at the root index is the structural recursion [prune] — which the previous theorem proves
   equal to the marginalisation.  A wrong child index, a transposed product, an update written to the
   wrong slot change the regenerated term and this proof no longer checks. *)
Theorem C01_array_loop_is_pruning : forall (T : Type) (N : Num T) (mats : nat -> mat) (tip : nat -> vec) t a,
  wfi t -> (forall i, In i (ileaves t) -> a i = tip i) ->
  loop (g_update N mats) (postorder t) a (iidx t) = prune N mats tip t.
Proof. exact @loop_computes_prune. Qed.
Print Assumptions C01_array_loop_is_pruning.

(* setup_indexes numbers the leaves by taxon position and the internal nodes from the number of taxa
   upwards in post-order: that numbering is sound for every tree ... *)
Theorem C01_indexing_is_sound : forall t,
  (forall i, In i (tlabels t) -> (i < leaves t)%nat) -> wfi (index_tree t).
Proof. exact index_tree_wfi. Qed.
Print Assumptions C01_indexing_is_sound.

(* ... the entry read at the end, post_indexing[-1][0], is the root, and the returned expression
   (regenerated) is  sum over sites of weight * ln(freqs . sum over categories of props * partials[root]),
   for the tip-partial and for the tip-state function *)
Theorem C01_loop_result_is_read_at_the_root : forall i l r, root_of_last (postorder (INode i l r)) = i.
Proof. exact root_of_last_postorder. Qed.
Theorem C01_returned_expression : g_return = expected_return /\ g_return_states = expected_return.
Proof. split; reflexivity. Qed.
Print Assumptions C01_returned_expression.

(* The tip-STATE loop (regenerated from calculate_treelikelihood_tip_states_discrete) performs the same
   update as the tip-partial loop whenever, at the children that are tips, selecting the column of the
   augmented matrix by the tip state equals the matrix-vector product with the tip vector — which
   C01_tip_state_is_indicator / C01_tip_unknown_is_missing establish for indicator / all-ones vectors. *)
Theorem C01_tip_state_loop_is_tip_partial_loop : forall (T : Type) (N : Num T) S tc mats states a node lf rt,
  ((lf < tc)%nat -> matvec N (mats lf) (a lf) = tip_message_state N S (mats lf) (states lf)) ->
  ((rt < tc)%nat -> matvec N (mats rt) (a rt) = tip_message_state N S (mats rt) (states rt)) ->
  g_update_states N S tc mats states a node lf rt = g_update N mats a node lf rt.
Proof. exact @g_update_states_eq. Qed.
Print Assumptions C01_tip_state_loop_is_tip_partial_loop.

(* The reported site likelihood (root frequencies, rate-category mixture) is the sum over every
   assignment of states and every rate category of root frequency x branch probabilities x tips. *)
Theorem C01_site_likelihood_is_marginal : forall S tip,
  (forall i, length (tip i) = S) -> forall freqs, length freqs = S -> forall Ps props t,
  (forall P, In P Ps -> forall j, wf_mat S (P j)) ->
  site_lik NumR S freqs Ps props tip t = marginal_cats NumR S freqs Ps props tip t.
Proof. exact site_lik_is_marginal. Qed.
Print Assumptions C01_site_likelihood_is_marginal.

(* The reported log-likelihood is the weighted sum over patterns of ln(marginal). *)
Theorem C01_loglik_is_marginal : forall S freqs Ps props t patterns,
  length freqs = S ->
  (forall P, In P Ps -> forall j, wf_mat S (P j)) ->
  (forall w tip, In (w, tip) patterns -> forall i, length (tip i) = S) ->
  loglik NumR S freqs Ps props t patterns = loglik_spec S freqs Ps props t patterns.
Proof. exact loglik_is_marginal. Qed.
Print Assumptions C01_loglik_is_marginal.

(* Pattern compression: summing ANY function over all alignment columns equals summing
   weight x function over the compressed patterns — repeated columns are handled. *)
Theorem C01_compress_sum : forall (C : Type) (ceq : C -> C -> bool),
  (forall a b, ceq a b = true -> a = b) ->
  forall (f : C -> R) cols, wsum f (compress ceq cols) = rsum (map f cols).
Proof. exact @compress_sum. Qed.
Print Assumptions C01_compress_sum.

(* Tip vectors over the regenerated tables: every 7-bit symbol (all 18 IUPAC symbols, both cases,
   and everything else) maps to the indicator of the set of states it may stand for. *)
Theorem C01_nucleotide_symbols_are_unions :
  forall c, In c (seq 0 128) -> nuc_partial true c = indicator_of 4 (iupac_set c).
Proof. exact nuc_partial_is_union_l. Qed.
Print Assumptions C01_nucleotide_symbols_are_unions.
Theorem C01_nucleotide_symbols_without_ambiguities :
  forall c, In c (seq 0 128) ->
  nuc_partial false c = if mem_nat c nuc_unambiguous then indicator_of 4 (iupac_set c) else [1; 1; 1; 1]%nat.
Proof. exact nuc_partial_noamb_l. Qed.
Print Assumptions C01_nucleotide_symbols_without_ambiguities.
Theorem C01_amino_acid_symbols_are_unions :
  forall c, In c (seq 0 128) -> aa_partial true c = indicator_of 20 (aa_set c).
Proof. exact aa_partial_is_union_l. Qed.
Print Assumptions C01_amino_acid_symbols_are_unions.

(* Tip-state representation = tip-partial representation with indicator vectors; the unknown
   state = all ones when matrix rows sum to one. *)
Theorem C01_tip_state_is_indicator : forall S M s,
  wf_mat S M -> (s < S)%nat -> tip_message_state NumR S M s = matvec NumR M (indicator S s).
Proof. exact tip_state_is_indicator. Qed.
Print Assumptions C01_tip_state_is_indicator.
Theorem C01_tip_unknown_is_missing : forall S M,
  wf_mat S M -> (forall row, In row M -> rsum row = 1) ->
  tip_message_state NumR S M S = matvec NumR M (repeat 1 S).
Proof. exact tip_unknown_is_ones. Qed.
Print Assumptions C01_tip_unknown_is_missing.

(* The interval run evaluated by the correspondence encloses the real-valued model. *)
Theorem C01_run_encloses_model : forall S freqs Freqs Ps PS props Props t pats Pats,
  list_R R I.type rel freqs Freqs ->
  list_R _ _ (fun P P' => forall j j', nat_R j j' -> list_R _ _ (list_R R I.type rel) (P j) (P' j')) Ps PS ->
  list_R R I.type rel props Props ->
  list_R _ _ (Coq_o_Init_o_Datatypes_o_prod_R _ _ rel _ _
                (fun tp tp' => forall i i', nat_R i i' -> list_R R I.type rel (tp i) (tp' i'))) pats Pats ->
  rel (loglik NumR S freqs Ps props t pats) (loglik NumI S Freqs PS Props t Pats).
Proof. exact loglik_enclosed. Qed.
Print Assumptions C01_run_encloses_model.

(* non-vacuity: two-state, three-taxon example; the enumeration has 2^5 labellings *)
Example C01_example :
  length (enum 2 (index_tree (Node (Node (Leaf 0) (Leaf 1)) (Leaf 2)))) = 32%nat.
Proof. vm_compute. reflexivity. Qed.
