(* C11 — cached values never go stale.
   Model: model/M_listen.v (objects, listener lists, dirty flags, caches; the notification cascade `marks`
   implements fire_parameter_changed / fire_model_changed over the per-class handler table that
   gen/G_handlers.v regenerates from the source on every run).  Proofs: proof/P_listen.v.
   The graphs `g` on which `wired` is evaluated (vm_compute, by the harness) are extracted from real
   torchtree objects: listener lists by introspection, read-dependencies by tracing. *)
From Coq Require Import List Arith Bool.
Import ListNotations.
From TT Require Import M_listen G_handlers P_listen.

(* wired_sound.  `wired g` is the decidable predicate: for every leaf parameter p the notification cascade
   started at p (every listener's handler, in registration order, recursively through whatever each
   handler fires) raises nowhere and sets the dirty flag of EVERY cached slot whose value transitively
   reads p; assignment through every view / concatenation / transformed parameter changes exactly the
   leaves it should and notifies each of them; no reachable handler raises.
   Then, from any state in which clean caches hold fresh values, EVERY finite history of operations
   (assign through any parameter kind | in-place change followed by the notification | bare notification |
   evaluate any slot), in any interleaving, runs without raising and every evaluation returns the value
   recomputed from the leaves ignoring all caches (spec_run never looks at a cache or a flag). *)
Theorem wired_sound : forall g, wired g = true -> forall ops s, inv g s ->
  forallb (op_ok g) ops = true ->
  exists s', run g s ops = Ok (s', spec_run g (ver s) ops) /\ inv g s'.
Proof. exact wired_sound_l. Qed.
Print Assumptions wired_sound.

(* the state of a graph as constructed (any set d of flags dirty, clean caches holding the constructed
   values) satisfies the invariant, so the theorem applies to every history from construction on *)
Theorem wired_sound_from_construction : forall g d ops, wired g = true ->
  forallb (op_ok g) ops = true ->
  exists s', run g (init g d) ops = Ok (s', spec_run g (fun _ => 0) ops).
Proof. exact wired_sound_init_l. Qed.
Print Assumptions wired_sound_from_construction.

(* a single evaluation, whatever the flags: with slots numbered topologically and one flag per slot,
   reading slot n returns the fresh value, leaves the leaves alone and keeps the invariant *)
Theorem eval_returns_fresh : forall g, topo g = true -> flags_inj g = true ->
  forall s n, n < nslots g -> inv g s ->
    match evalN g s n with (s', v, _) => v = freshN g (ver s) n /\ ver s' = ver s /\ inv g s' end.
Proof. exact evalN_correct. Qed.
Print Assumptions eval_returns_fresh.

(* whether an update raises does not depend on the state (flags, caches, versions): `wired` can be
   decided once per graph *)
Theorem update_state_independent : forall g p s1 s2,
  match exec_steps g s1 p, exec_steps g s2 p with
  | Ok _, Ok _ => True
  | Raised a, Raised b => a = b
  | Fuel, Fuel => True
  | _, _ => False
  end.
Proof. exact update_state_independent_l. Qed.
Print Assumptions update_state_independent.

(* non-vacuity: the smallest graph (one leaf, one caching listener) is wired with CallableModel's handler *)
Example C11_tiny_wired : wired (tiny [HSet 3; HFire EvM]) = true.
Proof. exact tiny_wired_l. Qed.

(* ... and `wired` is not vacuously true: with a handler that is `pass` (BirthDeathModel.handle_model_changed,
   CompoundGammaDirichletPrior.handle_parameter_changed) it is false and the history
   [evaluate; assign the leaf; evaluate] returns a value different from the specification *)
Example C11_pass_handler_is_stale : wired (tiny []) = false /\
  exists s' outs, run (tiny []) (init (tiny []) [(1, 3)]) [OEval 1; OAssign 0; OEval 1] = Ok (s', outs) /\
                  outs <> spec_run (tiny []) (fun _ => 0) [OEval 1; OAssign 0; OEval 1].
Proof. exact tiny_pass_not_wired_l. Qed.

(* ... and with a handler that calls a method that does not exist (MG94.handle_parameter_changed) the
   assignment itself raises *)
Example C11_missing_method_raises : wired (tiny [HRaise]) = false /\
  run (tiny [HRaise]) (init (tiny [HRaise]) [(1, 3)]) [OAssign 0] = Raised 1.
Proof. exact tiny_raise_not_wired_l. Qed.

(* the generated class table is the one the theorems are instantiated with by the harness *)
Example C11_table_nonempty : length cls_table <> 0.
Proof. vm_compute. discriminate. Qed.
