(* C08 — coalescent priors equal the Kingman density of their demographic function.
   Statements only.  Model: model/M_coalescent.v (hand-written, one polymorphic term per class of
   torchtree/evolution/coalescent.py, tied to the code by interval-run correspondence).  Proofs:
   proof/P_coalescent.v (over R), proof/P_coalescent_param.v (Paramcoq free theorems).

   Vocabulary.  An event carries an exact key (Q), its time (R) and a kind Tip / Coal / Grid;
   [keys_ok evs]: the keys order the events exactly as the real times do (true for every finite set
   of reals with suitable keys, and for the events [mk_events] builds from exact inputs,
   C08_entry_points).  COUNTING definitions (no sorting):
     kcount evs t = #tips sampled at or before t - #coalescences at or before t      (lineages on (t, next))
     gcount / ccount evs t = #grid points / #coalescences at or before t
     glt evs t = #grid points strictly before t
   [kterm P evs a b] = C(kcount evs a, 2) * P a b (gcount evs a) (ccount evs a) if a < b, else 0.
   [isum F ts] = sum of F over consecutive pairs of ts.  [ts] is always "any list that is sorted and a
   permutation of the event times" -- a declarative description of the time sequence, no algorithm.
   [kingman P lnN evs ts] = - isum (kterm P evs) ts - sum over coalescent events of lnN(time):
   the Kingman log density with int_a^b 1/N = P a b . . and ln N = lnN.
   [no_tie evs]: no grid point lies exactly on a coalescent time (needed for the piecewise-CONSTANT grid
   model only, whose N jumps at grid points; the continuous models below do without it).
   [grid_times evs]: the times of the Grid events of evs. *)
From Coq Require Import QArith ZArith Reals Qreals List Permutation Sorted.
Import ListNotations.
From TT Require Import Num NumR NumQ NumI ParamI Tree M_coalescent P_coalescent P_coalescent_param P_coalescent_tie P_coalescent_scale.
From Coquelicot Require Import Coquelicot.
Open Scope R_scope.

(* ------------------------------------------------------------------ the bookkeeping *)

(* For ANY list s that is a permutation of the events and sorted by time -- i.e. whatever way the
   sort breaks ties -- the running-count sum the code computes (cumsum of +1/-1/0 marks, theta index
   by cumulative grid / coalescent marks) equals the sum over inter-event intervals with the
   lineage count, grid index and coalescent index DEFINED BY COUNTING.  Intervals of length zero
   (ties) contribute 0 whatever count the sort order produced on them. *)
Theorem C08_sorted_cumsum_is_counting : forall P (evs s : list (event R)),
  keys_ok evs -> Permutation s evs -> StronglySorted tle s ->
  ksum NumR (fun iv => P (i_a iv) (i_b iv) (i_g iv) (i_c iv)) (intervals s)
  = isum (kterm P evs) (map etime s).
Proof. exact sorted_cumsum_is_counting_l. Qed.
Print Assumptions C08_sorted_cumsum_is_counting.

(* The ln N terms: at a coalescent event the cumulative number of grid marks is the number of grid
   points strictly before its time, again for any tie-breaking (no grid point exactly on a
   coalescent time: the value of a step function at its jump is a convention). *)
Theorem C08_lnN_terms_are_counting : forall L (evs s : list (event R)),
  keys_ok evs -> no_tie evs -> Permutation s evs -> StronglySorted tle s ->
  csum NumR (fun iv => L (i_b iv) (i_g iv)) (intervals s) = coal_sum (fun t => L t (glt evs t)) evs.
Proof. exact csum_counting_l. Qed.
Print Assumptions C08_lnN_terms_are_counting.

(* Order invariance: any permutation of the supplied events (internal heights in any order, tips
   in any order, grid in any order) leaves every log_prob unchanged. *)
Theorem C08_order_invariance : forall (evs evs' : list (event R)),
  keys_ok evs -> Permutation evs evs' ->
  (forall theta, constant_lp NumR theta evs = constant_lp NumR theta evs') /\
  (forall theta gq g, exponential_lp NumR theta gq g evs = exponential_lp NumR theta gq g evs') /\
  (forall thetas, skyride_lp NumR thetas evs = skyride_lp NumR thetas evs') /\
  (no_tie evs ->
   (forall thetas, skygrid_lp NumR thetas evs = skygrid_lp NumR thetas evs') /\
   (forall thq th gridT, linear_lp NumR thq th gridT evs = linear_lp NumR thq th gridT evs') /\
   (forall theta gq growth gridT,
      pwexp_lp NumR theta gq growth gridT evs = pwexp_lp NumR theta gq growth gridT evs')).
Proof. exact order_invariance_l. Qed.
Print Assumptions C08_order_invariance.

(* ------------------------------------------------------------------ model = Kingman density *)

(* ConstantCoalescent: N(t) = theta. *)
Theorem C08_constant_eq_kingman : forall theta (evs : list (event R)) ts,
  keys_ok evs -> StronglySorted Rle ts -> Permutation ts (map etime evs) ->
  constant_lp NumR theta evs = kingman (fun a b _ _ => (b - a) / theta) (fun _ => ln theta) evs ts.
Proof. exact constant_eq_kingman_l. Qed.
Print Assumptions C08_constant_eq_kingman.

(* ExponentialCoalescent: N(t) = theta exp(-g t), g <> 0 (integral: C08_integral_exp). *)
Theorem C08_exponential_eq_kingman : forall theta gq g (evs : list (event R)) ts,
  Qeq_bool gq 0 = false ->
  keys_ok evs -> StronglySorted Rle ts -> Permutation ts (map etime evs) ->
  exponential_lp NumR theta gq g evs
  = kingman (fun a b _ _ => (exp (b * g) - exp (a * g)) / (theta * g))
            (fun t => ln (theta * exp (- t * g))) evs ts.
Proof. exact exponential_eq_kingman_l. Qed.
Print Assumptions C08_exponential_eq_kingman.
(* growth rate 0 is the constant model (the code returns nan there: known finding). *)
Theorem C08_exponential_growth0_is_constant : forall theta gq g (evs : list (event R)),
  Qeq_bool gq 0 = true -> exponential_lp NumR theta gq g evs = constant_lp NumR theta evs.
Proof. exact exponential_flat_l. Qed.
Print Assumptions C08_exponential_growth0_is_constant.

(* PiecewiseConstantCoalescent (skyride): N = thetas_c between the c-th and (c+1)-th coalescence
   (c = number of coalescences at or before the start of the interval, by counting); the j-th
   coalescence contributes ln thetas_j. *)
Theorem C08_skyride_eq_kingman : forall thetas (evs : list (event R)) ts,
  keys_ok evs -> StronglySorted Rle ts -> Permutation ts (map etime evs) ->
  skyride_lp NumR thetas evs
  = - isum (kterm (fun a b _ c => (b - a) / lk thetas c 0) evs) ts - Rsum (map ln thetas).
Proof. exact skyride_eq_kingman_l. Qed.
Print Assumptions C08_skyride_eq_kingman.

(* PiecewiseConstantCoalescentGrid (skygrid): N(t) = thetas_(number of grid points before t), for
   every grid: points beyond the root, before the first coalescence, on sampling times. *)
Theorem C08_skygrid_eq_kingman : forall thetas (evs : list (event R)) ts,
  keys_ok evs -> no_tie evs -> StronglySorted Rle ts -> Permutation ts (map etime evs) ->
  skygrid_lp NumR thetas evs
  = kingman (fun a b g _ => (b - a) / lk thetas g 0) (fun t => ln (lk thetas (glt evs t) 0)) evs ts.
Proof. exact skygrid_eq_kingman_l. Qed.
Print Assumptions C08_skygrid_eq_kingman.

(* PiecewiseLinearCoalescentGrid: N = linN (linear interpolation of the thetas on the grid with
   t = 0 prepended, last theta beyond the grid); piece integral linP = duration / N on flat pieces,
   the closed form elsewhere (C08_lin_piece_is_integral, C08_lin_piece_flat_is_integral).
   FULL statement: N is continuous, so coalescent times MAY coincide with grid points (no [no_tie]); what is
   needed instead is that the interpolation abscissae gridT are the grid points of the events and form a
   grid 0 < g_1 < g_2 < ... — each part of which is necessary (refutations below). *)
Theorem C08_linear_eq_kingman : forall thq th gridT (evs : list (event R)) ts,
  keys_ok evs -> StronglySorted Rlt (0 :: gridT) -> Permutation gridT (grid_times evs) ->
  StronglySorted Rle ts -> Permutation ts (map etime evs) ->
  linear_lp NumR thq th gridT evs
  = kingman (fun a b g _ => linP thq th gridT a b g) (fun t => ln (linN th gridT (glt evs t) t)) evs ts.
Proof. exact linear_eq_kingman_full. Qed.
Print Assumptions C08_linear_eq_kingman.

(* PiecewiseExponentialCoalescentGrid: ln N = peLnN (N(0) = theta, growth_j on piece j, continuous).
   FULL statement, ties allowed; repeated grid points and grid points <= 0 are fine here. *)
Theorem C08_pwexp_eq_kingman : forall theta gq growth gridT (evs : list (event R)) ts,
  keys_ok evs -> StronglySorted Rle gridT -> Permutation gridT (grid_times evs) ->
  StronglySorted Rle ts -> Permutation ts (map etime evs) ->
  pwexp_lp NumR theta gq growth gridT evs
  = kingman (fun a b g _ => peP theta gq growth gridT a b g)
            (fun t => peLnN theta growth gridT (glt evs t) t) evs ts.
Proof. exact pwexp_eq_kingman_full. Qed.
Print Assumptions C08_pwexp_eq_kingman.

(* At the entry points used by the correspondence (events and abscissae built from ONE exact grid list) the
   link holds by construction; only the shape of the grid remains. *)
Theorem C08_linear_entry_point : forall thetas grid tips coals ts,
  StronglySorted Qlt (0%Q :: grid) ->
  let evs := mk_events NumR tips coals grid in
  StronglySorted Rle ts -> Permutation ts (map etime evs) ->
  linear_q NumR thetas grid tips coals
  = kingman (fun a b g _ => linP thetas (map Q2R thetas) (map Q2R grid) a b g)
            (fun t => ln (linN (map Q2R thetas) (map Q2R grid) (glt evs t) t)) evs ts.
Proof. exact linear_q_eq_kingman. Qed.
Print Assumptions C08_linear_entry_point.
Theorem C08_pwexp_entry_point : forall theta growth grid tips coals ts,
  StronglySorted Qle grid ->
  let evs := mk_events NumR tips coals grid in
  StronglySorted Rle ts -> Permutation ts (map etime evs) ->
  pwexp_q NumR theta growth grid tips coals
  = kingman (fun a b g _ => peP (Q2R theta) growth (map Q2R growth) (map Q2R grid) a b g)
            (fun t => peLnN (Q2R theta) (map Q2R growth) (map Q2R grid) (glt evs t) t) evs ts.
Proof. exact pwexp_q_eq_kingman. Qed.
Print Assumptions C08_pwexp_entry_point.

(* The hypotheses on the grid cannot be dropped (concrete witnesses, a grid point and a coalescence at the same
   time): abscissae unrelated to the grid events; a grid point at t = 0 or a repeated grid point (a piece of
   length zero: the interpolated N is discontinuous there); an unsorted grid for the exponential model. *)
Theorem C08_linear_needs_linked_grid_refuted :
  exists thq th gridT (evs : list (event R)) ts,
    keys_ok evs /\ StronglySorted Rle ts /\ Permutation ts (map etime evs) /\
    linear_lp NumR thq th gridT evs
    <> kingman (fun a b g _ => linP thq th gridT a b g) (fun t => ln (linN th gridT (glt evs t) t)) evs ts.
Proof. exact linear_eq_kingman_unlinked_refuted. Qed.
Print Assumptions C08_linear_needs_linked_grid_refuted.
Theorem C08_linear_needs_positive_grid_refuted :
  exists thq th gridT (evs : list (event R)) ts,
    keys_ok evs /\ StronglySorted Rle (0 :: gridT) /\ StronglySorted Rlt gridT /\
    Permutation gridT (grid_times evs) /\
    StronglySorted Rle ts /\ Permutation ts (map etime evs) /\
    linear_lp NumR thq th gridT evs
    <> kingman (fun a b g _ => linP thq th gridT a b g) (fun t => ln (linN th gridT (glt evs t) t)) evs ts.
Proof. exact linear_eq_kingman_grid_at_zero_refuted. Qed.
Print Assumptions C08_linear_needs_positive_grid_refuted.
Theorem C08_linear_needs_strict_grid_refuted :
  exists thq th gridT (evs : list (event R)) ts,
    keys_ok evs /\ StronglySorted Rle gridT /\ List.Forall (fun g => 0 < g) gridT /\
    Permutation gridT (grid_times evs) /\
    StronglySorted Rle ts /\ Permutation ts (map etime evs) /\
    linear_lp NumR thq th gridT evs
    <> kingman (fun a b g _ => linP thq th gridT a b g) (fun t => ln (linN th gridT (glt evs t) t)) evs ts.
Proof. exact linear_eq_kingman_repeated_grid_refuted. Qed.
Print Assumptions C08_linear_needs_strict_grid_refuted.
Theorem C08_pwexp_needs_sorted_grid_refuted :
  exists theta gq growth gridT (evs : list (event R)) ts,
    keys_ok evs /\ Permutation gridT (grid_times evs) /\
    StronglySorted Rle ts /\ Permutation ts (map etime evs) /\
    pwexp_lp NumR theta gq growth gridT evs
    <> kingman (fun a b g _ => peP theta gq growth gridT a b g)
               (fun t => peLnN theta growth gridT (glt evs t) t) evs ts.
Proof. exact pwexp_eq_kingman_unsorted_grid_refuted. Qed.
Print Assumptions C08_pwexp_needs_sorted_grid_refuted.

(* ------------------------------------------------------------------ closed-form piece integrals *)

Theorem C08_integral_const : forall N0 a b, is_RInt (fun _ => / N0) a b ((b - a) / N0).
Proof. exact integral_const_l. Qed.
Print Assumptions C08_integral_const.

(* N(t) = theta exp(-g t), g <> 0 *)
Theorem C08_integral_exp : forall theta g a b, theta <> 0 -> g <> 0 ->
  is_RInt (fun t => / (theta * exp (- t * g))) a b ((exp (b * g) - exp (a * g)) / (theta * g)).
Proof. exact integral_exp_l. Qed.
Print Assumptions C08_integral_exp.

(* a piece starting at t0 with size N0 and growth rate g <> 0 *)
Theorem C08_integral_exp_piece : forall N0 g t0 a b, N0 <> 0 -> g <> 0 ->
  is_RInt (fun t => / (N0 * exp (- g * (t - t0)))) a b
          ((exp (g * (b - t0)) - exp (g * (a - t0))) / (N0 * g)).
Proof. exact integral_exp_piece_l. Qed.
Print Assumptions C08_integral_exp_piece.

(* linear piece through (t0,N0) and (t1,N1), N1 <> N0, positive on the interval *)
Theorem C08_integral_linear : forall N0 N1 t0 t1 a b,
  t1 <> t0 -> N1 <> N0 -> a <> b ->
  let N := fun t => N0 + (N1 - N0) * (t - t0) / (t1 - t0) in
  (forall x, Rmin a b <= x <= Rmax a b -> 0 < N x) ->
  is_RInt (fun t => / N t) a b ((b - a) * (ln (N b) - ln (N a)) / (N b - N a)).
Proof. exact integral_linear_l. Qed.
Print Assumptions C08_integral_linear.

(* the flat limit N1 = N0: duration / N0 -- not duration / (last theta) as the code computes *)
Theorem C08_integral_linear_flat : forall N0 N1 t0 t1 a b, N1 = N0 ->
  is_RInt (fun t => / (N0 + (N1 - N0) * (t - t0) / (t1 - t0))) a b ((b - a) / N0).
Proof. exact integral_linear_flat_l. Qed.
Print Assumptions C08_integral_linear_flat.

(* the MODEL's piece functions are the integrals of 1 / (the model's own N) *)
Theorem C08_lin_piece_is_integral : forall thq th gridT (iv : ival R),
  let j := i_g iv in
  (j < length gridT)%nat -> lin_flat thq (length gridT) j = false ->
  lk th (S j) 0 <> lk th j 0 -> g0 NumR gridT (S j) <> g0 NumR gridT j -> i_a iv <> i_b iv ->
  (forall x, Rmin (i_a iv) (i_b iv) <= x <= Rmax (i_a iv) (i_b iv) -> 0 < lin_N NumR th gridT j x) ->
  is_RInt (fun t => / lin_N NumR th gridT j t) (i_a iv) (i_b iv) (lin_piece NumR thq th gridT iv).
Proof. exact lin_piece_is_integral_l. Qed.
Print Assumptions C08_lin_piece_is_integral.
Theorem C08_lin_piece_flat_is_integral : forall thq th gridT (iv : ival R),
  let j := i_g iv in
  lin_flat thq (length gridT) j = true ->
  ((length gridT <= j)%nat \/ lk th (S j) 0 = lk th j 0) ->
  is_RInt (fun t => / lin_N NumR th gridT j t) (i_a iv) (i_b iv) (lin_piece NumR thq th gridT iv).
Proof. exact lin_piece_flat_is_integral_l. Qed.
Print Assumptions C08_lin_piece_flat_is_integral.
Theorem C08_pe_piece_is_integral : forall theta gq growth gridT (iv : ival R),
  let j := i_g iv in
  Qeq_bool (lk gq j 0%Q) 0 = false -> lk growth j 0 <> 0 ->
  is_RInt (fun t => / exp (pe_lnN NumR (ln theta) growth gridT j t)) (i_a iv) (i_b iv)
          (pe_piece NumR (ln theta) gq growth gridT iv).
Proof. exact pe_piece_is_integral_l. Qed.
Print Assumptions C08_pe_piece_is_integral.
Theorem C08_pe_piece_flat_is_integral : forall theta gq growth gridT (iv : ival R),
  let j := i_g iv in
  Qeq_bool (lk gq j 0%Q) 0 = true -> lk growth j 0 = 0 ->
  is_RInt (fun t => / exp (pe_lnN NumR (ln theta) growth gridT j t)) (i_a iv) (i_b iv)
          (pe_piece NumR (ln theta) gq growth gridT iv).
Proof. exact pe_piece_flat_is_integral_l. Qed.
Print Assumptions C08_pe_piece_flat_is_integral.

(* ------------------------------------------------------------------ all pieces equal = constant model *)

(* skygrid, EVERY grid and every event list (grid points beyond the root, before the first
   coalescence, on event times; no validity assumption on the times at all) *)
Theorem C08_skygrid_all_equal_is_constant : forall theta (evs : list (event R)),
  keys_ok evs ->
  skygrid_lp NumR (repeat theta (S (sumN isgrid evs))) evs = constant_lp NumR theta evs.
Proof. exact skygrid_all_equal_l. Qed.
Print Assumptions C08_skygrid_all_equal_is_constant.

(* piecewise linear, every grid *)
Theorem C08_linear_all_equal_is_constant : forall q theta gridT (evs : list (event R)),
  keys_ok evs -> length gridT = sumN isgrid evs ->
  linear_lp NumR (repeat q (S (length gridT))) (repeat theta (S (length gridT))) gridT evs
  = constant_lp NumR theta evs.
Proof. exact linear_all_equal_l. Qed.
Print Assumptions C08_linear_all_equal_is_constant.

(* skyride, every valid time vector: at most n tips for n-1 coalescences, and at no time more
   coalescences than sampled lineages *)
Theorem C08_skyride_all_equal_is_constant : forall theta (evs : list (event R)),
  keys_ok evs -> (sumN istip evs <= S (sumN iscoal evs))%nat -> (forall t, (0 <= kcount evs t)%Z) ->
  skyride_lp NumR (repeat theta (sumN iscoal evs)) evs = constant_lp NumR theta evs.
Proof. exact skyride_all_equal_l. Qed.
Print Assumptions C08_skyride_all_equal_is_constant.

(* ------------------------------------------------------------------ scaling law *)
(* All times (and their keys) and all population sizes multiplied by c > 0, growth rates divided
   by c: log p - (n-1) ln c, n-1 = sumN iscoal evs = the number of coalescent events.
   PROVED for all six models (linear and exponential grid models: proof/P_coalescent_scale.v, ties between
   coalescent times and grid points allowed).  (The implementation is checked for all six directly, on every
   correspondence case.) *)
Theorem C08_scaling_law_constant : forall cq c (evs : list (event R)),
  0 < c -> keys_ok evs -> keys_ok (map (scale_ev cq c) evs) ->
  forall theta, 0 < theta ->
  constant_lp NumR (c * theta) (map (scale_ev cq c) evs)
  = constant_lp NumR theta evs - INR (sumN iscoal evs) * ln c.
Proof. exact constant_scaling_l. Qed.
Print Assumptions C08_scaling_law_constant.
Theorem C08_scaling_law_exponential : forall cq c (evs : list (event R)),
  0 < c -> keys_ok evs -> keys_ok (map (scale_ev cq c) evs) ->
  forall theta gq gq' g, 0 < theta -> Qeq_bool gq 0 = false -> Qeq_bool gq' 0 = false ->
  exponential_lp NumR (c * theta) gq' (g / c) (map (scale_ev cq c) evs)
  = exponential_lp NumR theta gq g evs - INR (sumN iscoal evs) * ln c.
Proof. exact exponential_scaling_l. Qed.
Print Assumptions C08_scaling_law_exponential.
Theorem C08_scaling_law_skyride : forall cq c (evs : list (event R)),
  0 < c -> keys_ok evs -> keys_ok (map (scale_ev cq c) evs) ->
  forall thetas, List.Forall (fun x => 0 < x) thetas -> length thetas = sumN iscoal evs ->
  skyride_lp NumR (map (Rmult c) thetas) (map (scale_ev cq c) evs)
  = skyride_lp NumR thetas evs - INR (sumN iscoal evs) * ln c.
Proof. exact skyride_scaling_l. Qed.
Print Assumptions C08_scaling_law_skyride.
Theorem C08_scaling_law_skygrid : forall cq c (evs : list (event R)),
  0 < c -> keys_ok evs -> keys_ok (map (scale_ev cq c) evs) ->
  forall thetas, no_tie evs -> List.Forall (fun x => 0 < x) thetas -> length thetas = S (sumN isgrid evs) ->
  skygrid_lp NumR (map (Rmult c) thetas) (map (scale_ev cq c) evs)
  = skygrid_lp NumR thetas evs - INR (sumN iscoal evs) * ln c.
Proof. exact skygrid_scaling_l. Qed.
Print Assumptions C08_scaling_law_skygrid.

(* piecewise-exponential grid model: no hypothesis on the grid at all (ties, unsorted, unlinked) *)
Theorem C08_scaling_law_pwexp : forall (cq : Q) (c : R) theta gq growth gridT (evs : list (event R)),
  0 < c -> (0 < cq)%Q -> keys_ok evs -> 0 < theta ->
  pwexp_lp NumR (c * theta) (map (fun g => (g / cq)%Q) gq) (map (fun g => g / c) growth)
           (map (Rmult c) gridT) (map (scale_ev cq c) evs)
  = pwexp_lp NumR theta gq growth gridT evs - INR (sumN iscoal evs) * ln c.
Proof. exact pwexp_scaling. Qed.
Print Assumptions C08_scaling_law_pwexp.
(* piecewise-linear grid model: the grid hypotheses of C08_linear_eq_kingman, positive thetas (one per grid point
   plus one), times >= 0 — exactly what makes N > 0 wherever the model takes a logarithm *)
Theorem C08_scaling_law_linear : forall (cq : Q) (c : R) thq th gridT (evs : list (event R)),
  0 < c -> (0 < cq)%Q -> keys_ok evs ->
  StronglySorted Rlt (0 :: gridT) -> Permutation gridT (grid_times evs) ->
  List.Forall (fun x => 0 < x) th -> length th = S (length gridT) ->
  List.Forall (fun e => 0 <= etime e) evs ->
  linear_lp NumR (map (Qmult cq) thq) (map (Rmult c) th) (map (Rmult c) gridT) (map (scale_ev cq c) evs)
  = linear_lp NumR thq th gridT evs - INR (sumN iscoal evs) * ln c.
Proof. exact linear_scaling. Qed.
Print Assumptions C08_scaling_law_linear.
(* "times >= 0" cannot be dropped: with a negative time N(t) = 1 + t is <= 0 where the model takes ln N *)
Theorem C08_scaling_law_linear_needs_nonnegative_times_refuted :
  exists (cq : Q) (c : R) thq th gridT (evs : list (event R)),
    0 < c /\ (0 < cq)%Q /\ keys_ok evs /\ StronglySorted Rlt (0 :: gridT) /\ Permutation gridT (grid_times evs) /\
    List.Forall (fun x => 0 < x) th /\ length th = S (length gridT) /\
    linear_lp NumR (map (Qmult cq) thq) (map (Rmult c) th) (map (Rmult c) gridT) (map (scale_ev cq c) evs)
    <> linear_lp NumR thq th gridT evs - INR (sumN iscoal evs) * ln c.
Proof. exact linear_scaling_negative_time_refuted. Qed.
Print Assumptions C08_scaling_law_linear_needs_nonnegative_times_refuted.
(* at the entry points the correspondence uses (one exact rational factor) *)
Theorem C08_scaling_law_pwexp_entry_point : forall (c theta : Q) growth grid tips coals, (0 < c)%Q -> (0 < theta)%Q ->
  pwexp_q NumR (c * theta) (map (fun g => (g / c)%Q) growth) (map (Qmult c) grid) (map (Qmult c) tips) (map (Qmult c) coals)
  = pwexp_q NumR theta growth grid tips coals - INR (length coals) * ln (Q2R c).
Proof. exact pwexp_q_scaling. Qed.
Print Assumptions C08_scaling_law_pwexp_entry_point.
Theorem C08_scaling_law_linear_entry_point : forall (c : Q) thetas grid tips coals,
  (0 < c)%Q -> StronglySorted Qlt (0%Q :: grid) ->
  List.Forall (fun x => (0 < x)%Q) thetas -> length thetas = S (length grid) ->
  List.Forall (fun q => (0 <= q)%Q) tips -> List.Forall (fun q => (0 <= q)%Q) coals ->
  linear_q NumR (map (Qmult c) thetas) (map (Qmult c) grid) (map (Qmult c) tips) (map (Qmult c) coals)
  = linear_q NumR thetas grid tips coals - INR (length coals) * ln (Q2R c).
Proof. exact linear_q_scaling. Qed.
Print Assumptions C08_scaling_law_linear_entry_point.

(* ------------------------------------------------------------------ the runs of the correspondence *)

(* The events the entry points build from exact inputs satisfy the hypotheses above, and a sorted
   time sequence exists for every consistent event list (the theorems are not vacuous). *)
Theorem C08_entry_points : forall tips coals grid,
  keys_ok (mk_events NumR tips coals grid) /\
  ((forall c g, In c coals -> In g grid -> ~ (c == g)%Q) -> no_tie (mk_events NumR tips coals grid)) /\
  exists ts, StronglySorted Rle ts /\ Permutation ts (map etime (mk_events NumR tips coals grid)).
Proof.
  intros tips coals grid. split; [apply mk_events_keys_ok|]. split; [apply mk_events_no_tie|].
  apply sorted_times_exist, mk_events_keys_ok.
Qed.
Print Assumptions C08_entry_points.

(* Free theorems (Paramcoq): the interval run the harness evaluates encloses the real-valued model
   the theorems above speak about, for each of the six log_probs. *)
Theorem C08_run_encloses_constant : forall theta tips coals,
  rel (constant_q NumR theta tips coals) (constant_q NumI theta tips coals).
Proof. exact constant_enclosed. Qed.
Print Assumptions C08_run_encloses_constant.
Theorem C08_run_encloses_exponential : forall theta g tips coals,
  rel (exponential_q NumR theta g tips coals) (exponential_q NumI theta g tips coals).
Proof. exact exponential_enclosed. Qed.
Theorem C08_run_encloses_skyride : forall thetas tips coals,
  rel (skyride_q NumR thetas tips coals) (skyride_q NumI thetas tips coals).
Proof. exact skyride_enclosed. Qed.
Theorem C08_run_encloses_skygrid : forall thetas grid tips coals,
  rel (skygrid_q NumR thetas grid tips coals) (skygrid_q NumI thetas grid tips coals).
Proof. exact skygrid_enclosed. Qed.
Theorem C08_run_encloses_linear : forall thetas grid tips coals,
  rel (linear_q NumR thetas grid tips coals) (linear_q NumI thetas grid tips coals).
Proof. exact linear_enclosed. Qed.
Theorem C08_run_encloses_pwexp : forall theta growth grid tips coals,
  rel (pwexp_q NumR theta growth grid tips coals) (pwexp_q NumI theta growth grid tips coals).
Proof. exact pwexp_enclosed. Qed.
Print Assumptions C08_run_encloses_pwexp.

(* non-vacuity: a heterochronous 4-taxon example with a tie (tips 0,1,1,0; internal heights
   supplied as 3,2,4; grid point 5/2).  Per sorted event: [lineages k; grid marks g; coalescent
   marks c; zero-length?] on the interval ending at it: 0,1 lineages up to the tips at 1, 4 lineages on (1,2),
   3 on (2,5/2) and (5/2,3) -- the latter in grid piece 1 --, 2 on (3,4). *)
Example C08_example :
  map (fun iv => [i_k iv; Z.of_nat (i_g iv); Z.of_nat (i_c iv); if i_zero iv then 1 else 0]%Z)
      (intervals (sort_ev (mk_events NumQ [0; 1; 1; 0]%Q [3; 2; 4]%Q ((5#2)%Q :: nil))))
  = [[0; 0; 0; 1]; [1; 0; 0; 1]; [2; 0; 0; 0]; [3; 0; 0; 1]; [4; 0; 0; 0];
     [3; 0; 1; 0]; [3; 1; 1; 0]; [2; 1; 2; 0]]%Z.
Proof. vm_compute. reflexivity. Qed.
