(* C08 — coalescent priors equal the Kingman density of their demographic function. (draft) *)
From Coq Require Import QArith Reals List.
Import ListNotations.
From TT Require Import Num NumR NumI ParamI Tree M_coalescent P_coalescent P_coalescent_param.
Open Scope R_scope.

Theorem C08_run_encloses_constant : forall theta tips coals,
  rel (constant_q NumR theta tips coals) (constant_q NumI theta tips coals).
Proof. exact constant_enclosed. Qed.
Print Assumptions C08_run_encloses_constant.
