(* C13 — in a model specification every id denotes exactly one shared object.
   Statements only; proofs in proof/P_loader.v; model in model/M_loader.v (JSON terms,
   remove_comments, expand_plates, process_object(s) threading the registry, from_json_safe).

   Every statement quantifies over ALL schemas (what each class's from_json does with its data:
   which values it processes as objects, in which order, which ids it looks up directly, where it
   raises), all JSON documents and all amounts of fuel; [spec_of schema fuel data = Some ps] only
   names the sequence [ps] of values that main hands to process_object, as read under the schema
   (ps is a function of the inputs).  The loader is [load schema true]: the code as it stands since fix
   106ad2b (duplicate test repeated at registration time).  [load schema false] is the loader
   before that fix; what holds and what fails for it is stated at the end.  The concrete table for torchtree's
   classes ([schema_of class_aliases], class_aliases regenerated from the source on every run) is
   validated against the implementation by the correspondence in harness/props/c13.py. *)
From Coq Require Import List String ZArith.
Import ListNotations.
From TT Require Import M_loader G_classes P_loader.
Open Scope string_scope.
Open Scope list_scope.

(* Sharing.  After a successful load there is ONE map R from ids to identities (the final
   registry) that explains the whole specification: every definition {"id": i, ...} anywhere in
   the nesting is the object R i, of the stated class, and each of its slots holds exactly R of
   the id the slot's value mentions — whether that value is a string reference or an inline
   definition.  So all occurrences of an id denote the same instance; and distinct ids are
   distinct instances. *)
Theorem C13_refs_share_identity : forall (schema : schema_t) fuel data ps st,
  spec_of schema fuel data = Some ps -> load schema true fuel data = Ok tt st ->
  let R := fun s => lookup s (st_reg st) in
  let H := fun n => hget n (st_heap st) in
  Forall (explained R H) ps /\ (forall a b n, R a = Some n -> R b = Some n -> a = b).
Proof. exact C13_refs_l. Qed.
Print Assumptions C13_refs_share_identity.

(* Hence an update of the object bound to id s is observed through EVERY holder h (any class,
   any depth) one of whose slots k mentions s, and through no slot that mentions another id. *)
Theorem C13_update_seen_by_every_holder : forall (schema : schema_t) fuel data ps st,
  spec_of schema fuel data = Some ps -> load schema true fuel data = Ok tt st ->
  forall h cls body k c s n,
    Exists (occurs h cls body) ps -> pget k body = Some c -> mention c = Some s ->
    lookup s (st_reg st) = Some n ->
    forall (V : Type) (sigma : nat -> option V) (v : V),
      sees st (upd sigma n v) h k = Some v /\
      (forall h' cls' body' k' c' s', Exists (occurs h' cls' body') ps -> pget k' body' = Some c' ->
         mention c' = Some s' -> s' <> s -> sees st (upd sigma n v) h' k' = sees st sigma h' k').
Proof. exact C13_update_l. Qed.
Print Assumptions C13_update_seen_by_every_holder.

(* Dangling references.  If anywhere in the nesting a reference (or a direct registry lookup)
   names an id whose definition has not been completed earlier in processing order — never
   defined, defined later, or still under construction — or a step raises, the load fails; and
   when the steps themselves only raise parse errors / KeyErrors, it fails with a PARSE error.
   Holds for the pre-fix loader too (recheck arbitrary). *)
Theorem C13_dangling_rejected : forall (schema : schema_t) recheck fuel data ps,
  spec_of schema fuel data = Some ps -> ~ scoped_all [] ps ->
  exists e ch, load schema recheck fuel data = Err e ch /\
               (Forall (only_parse false) ps -> parse_error e = true).
Proof. exact C13_dangling_l. Qed.
Print Assumptions C13_dangling_rejected.

(* Duplicate ids.  If the same id is defined twice ANYWHERE in the nesting (siblings, different
   top-level objects, or one inside the other at any depth), the load fails, with a parse error
   under the same proviso. *)
Theorem C13_duplicate_rejected : forall (schema : schema_t) fuel data ps,
  spec_of schema fuel data = Some ps -> ~ NoDup (defs_all ps) ->
  exists e ch, load schema true fuel data = Err e ch /\
               (Forall (only_parse false) ps -> parse_error e = true).
Proof. exact C13_duplicate_l. Qed.
Print Assumptions C13_duplicate_rejected.

(* Nothing else is rejected: the load succeeds exactly on the specifications in which every id is
   defined once and every reference names an earlier, completed definition. *)
Theorem C13_accepts_exactly_wellformed : forall (schema : schema_t) fuel data ps,
  spec_of schema fuel data = Some ps ->
  ((exists st, load schema true fuel data = Ok tt st) <-> (scoped_all [] ps /\ NoDup (defs_all ps))).
Proof. exact C13_accepts_iff_l. Qed.
Print Assumptions C13_accepts_exactly_wellformed.

(* Comments are inert: adding, at any depth, entries whose key starts with an underscore (with
   ANY value, e.g. a complete definition that re-uses an id) or objects marked ignored (as list
   elements or as dict values) changes neither the cleaned document nor the outcome of the load. *)
Theorem C13_comments_inert : forall (schema : schema_t) recheck fuel j j',
  deco j j' -> rc j' = rc j /\ load schema recheck fuel j' = load schema recheck fuel j.
Proof. intros. split; [apply deco_rc_l | apply comments_inert_l]; assumption. Qed.
Print Assumptions C13_comments_inert.

(* remove_comments leaves nothing to remove and is idempotent. *)
Theorem C13_remove_comments_idempotent : forall j, clean (rc j) /\ rc (rc j) = rc j.
Proof. intros. split; [apply rc_clean_l | apply rc_idempotent_l]. Qed.
Print Assumptions C13_remove_comments_idempotent.

(* Plates: a specification without plates is untouched; a plate that is an element of a list is
   replaced in place by its clones, one per index of its range (plate_of computes the clones:
   the object with ${var} / a trailing * in every id replaced by the index). *)
Theorem C13_plates_expand : forall f,
  (forall j, plate_free j -> jsize j <= f -> expand f j = inl j) /\
  (forall kv clones, plate_of kv = PlateRange clones -> Forall plate_free clones ->
                     list_sum (map jsize clones) <= f ->
                     expand (S f) (JArr [JObj kv]) = inl (JArr clones)).
Proof. intros. split; [apply expand_plate_free_l | apply expand_single_plate_l]. Qed.
Print Assumptions C13_plates_expand.

(* The loader BEFORE fix 106ad2b/fdeda98 (recheck = false: duplicate test before construction only),
   kept as documentation of the repaired defect.  It accepts everything the repaired loader
   (recheck = true, the code as it stands now) accepts, with the same registry ... *)
Theorem C13_current_code_accepts_more : forall (schema : schema_t) fuel data st,
  load schema true fuel data = Ok tt st -> load schema false fuel data = Ok tt st.
Proof. exact C13_recheck_l. Qed.
Print Assumptions C13_current_code_accepts_more.

(* ... it does reject a duplicate id as long as no definition contains another definition of
   its own id ... *)
Theorem C13_duplicate_rejected_partial : forall (schema : schema_t) fuel data ps,
  spec_of schema fuel data = Some ps -> Forall nested_free ps -> ~ NoDup (defs_all ps) ->
  exists e ch, load schema false fuel data = Err e ch.
Proof. exact C13_duplicate_current_l. Qed.
Print Assumptions C13_duplicate_rejected_partial.

(* ... but NOT otherwise: {"id":"a", TransformedParameter, "x": {"id":"a", Parameter}} is accepted
   by the OLD discipline (the inner object is registered under "a", then silently overwritten
   by the outer one) and rejected by the repaired one.  This is the defect the correspondence
   reproduced on the real code before the fix (finding C13:process_object:duplicate-id-nested-in-own-definition-accepted). *)
Definition witness : json :=
  JArr [JObj [("id", JStr "a"); ("type", JStr "TransformedParameter");
              ("transform", JStr "torch.distributions.ExpTransform");
              ("x", JObj [("id", JStr "a"); ("type", JStr param_cls); ("tensor", JArr [JFlt 500])])]].

Theorem C13_nested_duplicate_refuted :
  (exists ps, spec_of (schema_of class_aliases) 10 witness = Some ps /\ ~ NoDup (defs_all ps)) /\
  (exists st, load (schema_of class_aliases) false 10 witness = Ok tt st /\
              st_reg st = [("a", 1); ("a", 0)]) /\
  load (schema_of class_aliases) true 10 witness = Err (EDup "a") [].
Proof.
  split; [| split].
  - eexists. split; [vm_compute; reflexivity |]. intros N. inversion N as [| ? ? NI _]; subst.
    apply NI. left. reflexivity.
  - eexists. split; vm_compute; reflexivity.
  - vm_compute. reflexivity.
Qed.
Print Assumptions C13_nested_duplicate_refuted.

(* non-vacuity: a specification with sharing, a comment that re-uses an id, an ignored object and
   a plate loads; "p.1" is held by both the CatParameter and the Distribution as identity 1 *)
Example C13_example :
  let spec := JArr [
    JObj [("type", JStr "torchtree.Plate"); ("range", JStr "0:2"); ("var", JStr "i");
          ("object", JObj [("id", JStr "p.${i}"); ("type", JStr param_cls); ("tensor", JArr [JFlt 1500])])];
    JObj [("ignore", JBool true); ("id", JStr "p.0"); ("type", JStr param_cls)];
    JObj [("id", JStr "c"); ("type", JStr "CatParameter"); ("parameters", JArr [JStr "p.0"; JStr "p.1"]);
          ("_note", JObj [("id", JStr "p.0")])];
    JObj [("id", JStr "d"); ("type", JStr "Distribution"); ("distribution", JStr "torch.distributions.Normal");
          ("x", JStr "c");
          ("parameters", JObj [("scale", JStr "p.1");
                               ("loc", JObj [("id", JStr "m"); ("type", JStr ("torchtree." ++ param_cls)%string); ("tensor", JArr [JFlt 0])])])]] in
  exists st, load (schema_of class_aliases) true 30 spec = Ok tt st /\
             sees st (upd (fun _ => None) 1 7%Z) "c" "parameters.1" = Some 7%Z /\
             sees st (upd (fun _ => None) 1 7%Z) "d" "parameters.scale" = Some 7%Z /\
             sees st (upd (fun _ => None) 1 7%Z) "c" "parameters.0" = None.
Proof. eexists. repeat split; vm_compute; reflexivity. Qed.
