(* C06 — node-height parameterisations yield a valid time tree and are invertible.
   Statements only.  Models: model/M_height.v (hand-written, tied by correspondence),
   gen/G_kind.v (regenerated from ReparameterizedTimeTreeModel.cpu/cuda/to on every run). *)
From Coq Require Import QArith Reals List.
Import ListNotations.
From TT Require Import Num NumR NumQ ParamQ ParamI Tree M_height M_kind G_kind P_height P_height_param P_height_inv P_kind.
Open Scope R_scope.

(* Ratio parameterisation, EVERY topology, EVERY sampling-time vector (ties included): with the
   root height at or above the oldest tip below it and every ratio in [0,1], every tip sits at its
   sampling time and every parent is at least as old as each of its children. *)
Theorem C06_ratio_valid : forall n times x i l r,
  bound NumR times (INode i l r) <= x_of NumR n x i ->
  (forall j, In j (ipre l ++ ipre r) -> 0 <= x_of NumR n x j <= 1) ->
  let ht := ratio_fwd NumR n times x None (INode i l r) in
  wf_order ht /\ tips_at times ht /\ same_shape (INode i l r) ht /\ hh ht = x_of NumR n x i.
Proof. exact ratio_fwd_valid_l. Qed.
Print Assumptions C06_ratio_valid.

(* Mapping the heights back returns the original ratios and root height (ratios > 0, root strictly
   above its bound: exactly the inputs on which the code does not divide by zero). *)
Theorem C06_ratio_roundtrip : forall n times x i l r,
  bound NumR times (INode i l r) < x_of NumR n x i ->
  (forall j, In j (ipre l ++ ipre r) -> 0 < x_of NumR n x j) ->
  ratio_inv NumR times None (INode i l r) (ratio_fwd NumR n times x None (INode i l r))
  = map (fun j => (j, x_of NumR n x j)) (ipre (INode i l r)).
Proof. exact ratio_roundtrip_l. Qed.
Print Assumptions C06_ratio_roundtrip.

(* Increment parameterisation: non-negative increments give a valid time tree ... *)
Theorem C06_diff_valid : forall n times x t,
  (forall i, In i (iinternals t) -> 0 <= lk x (nsub i n) 0) ->
  wf_order (diff_fwd NumR n times x t) /\ tips_at times (diff_fwd NumR n times x t)
  /\ same_shape t (diff_fwd NumR n times x t).
Proof. exact diff_fwd_valid_l. Qed.
Print Assumptions C06_diff_valid.

(* ... and the inverse returns the increments, unconditionally. *)
Theorem C06_diff_roundtrip : forall n times x t,
  diff_inv NumR (diff_fwd NumR n times x t) = map (fun i => (i, lk x (nsub i n) 0)) (iinternals t).
Proof. exact diff_roundtrip_l. Qed.
Print Assumptions C06_diff_roundtrip.

(* THE OTHER DIRECTION: forward after inverse.  For a tree of heights of the right shape whose tips sit at their
   sampling times and on which the inverse does not divide by zero ([ratio_defined]: parent height <> bound at every
   non-root internal node; implied by [strictly_above]: every internal node strictly above the oldest tip below
   it), re-applying the forward map to ANY vector that agrees with the pairs (node, value) returned by the inverse
   gives the tree back.  No assumption on how the vector is laid out. *)
Theorem C06_ratio_forward_after_inverse : forall n times x t ht,
  same_shape t ht -> tips_at times ht -> ratio_defined times None t ht ->
  (forall j v, In (j, v) (ratio_inv NumR times None t ht) -> x_of NumR n x j = v) ->
  ratio_fwd NumR n times x None t = ht.
Proof. exact ratio_fwd_inv. Qed.
Print Assumptions C06_ratio_forward_after_inverse.
(* ... in particular with the numbering setup_indexes produces (n taxa, internal nodes n .. 2n-2) and the vector
   of the n-1 parameters assembled from the inverse *)
Theorem C06_ratio_forward_after_inverse_indexed : forall times tr ht,
  let t := index_tree tr in let n := leaves tr in
  same_shape t ht -> tips_at times ht -> ratio_defined times None t ht ->
  ratio_fwd NumR n times (assemble n (n - 1) (ratio_inv NumR times None t ht)) None t = ht.
Proof. exact ratio_fwd_inv_indexed. Qed.
Print Assumptions C06_ratio_forward_after_inverse_indexed.
(* the inverse maps valid trees strictly above their bounds INTO the parameter domain (root above its bound,
   ratios in (0,1]) and the forward map sends that domain to such trees: mutually inverse bijections *)
Theorem C06_ratio_inverse_lands_in_domain : forall times i l r ht,
  same_shape (INode i l r) ht -> wf_order ht -> strictly_above times (INode i l r) ht ->
  exists rest, ratio_inv NumR times None (INode i l r) ht = (i, hh ht) :: rest
    /\ bound NumR times (INode i l r) < hh ht /\ Forall (fun p => 0 < snd p <= 1) rest.
Proof. exact ratio_inv_domain. Qed.
Print Assumptions C06_ratio_inverse_lands_in_domain.
Theorem C06_ratio_forward_lands_strictly_above : forall n times x i l r,
  bound NumR times (INode i l r) < x_of NumR n x i -> (forall j, In j (ipre l ++ ipre r) -> 0 < x_of NumR n x j) ->
  strictly_above times (INode i l r) (ratio_fwd NumR n times x None (INode i l r)).
Proof. exact ratio_fwd_strict. Qed.
Print Assumptions C06_ratio_forward_lands_strictly_above.
(* increments: no side condition at all; valid trees <-> non-negative increments *)
Theorem C06_diff_forward_after_inverse : forall n times x t ht,
  same_shape t ht -> tips_at times ht ->
  (forall j v, In (j, v) (diff_inv NumR ht) -> lk x (nsub j n) 0 = v) ->
  diff_fwd NumR n times x t = ht.
Proof. exact diff_fwd_inv. Qed.
Print Assumptions C06_diff_forward_after_inverse.
Theorem C06_diff_inverse_domain : forall ht,
  wf_order ht <-> Forall (fun p => 0 <= snd p) (diff_inv NumR ht).
Proof. exact diff_inv_domain. Qed.
Print Assumptions C06_diff_inverse_domain.

(* Branch lengths are parent height minus child height (by child index) and are non-negative on a
   valid time tree. *)
Theorem C06_branch_is_difference : forall ht,
  hbranches NumR ht = map (fun e => (fst (fst e), snd (fst e) - snd e)) (edges ht).
Proof. exact hbranches_are_differences. Qed.
Print Assumptions C06_branch_is_difference.
Theorem C06_branch_nonneg : forall ht, wf_order ht -> Forall (fun p => 0 <= snd p) (hbranches NumR ht).
Proof. exact hbranches_nonneg. Qed.
Print Assumptions C06_branch_nonneg.

(* Any sequence of cpu()/cuda()/to() leaves the parameterisation in force unchanged
   (effects regenerated from the source). *)
Theorem C06_kind_preserved : forall ops k, fold_left dev_step ops k = k.
Proof. exact kind_preserved_l. Qed.
Print Assumptions C06_kind_preserved.

(* The exact rational run used by the correspondence IS the real-valued model (free theorem). *)
Theorem C06_run_is_model : forall n times Times x X t,
  list_R R qo relq times Times -> list_R R qo relq x X ->
  list_R R qo relq (node_heights (ratio_fwd NumR n times x None t))
                   (node_heights (ratio_fwd NumQ n Times X None t)).
Proof. exact ratio_heights_exact. Qed.
Print Assumptions C06_run_is_model.

(* non-vacuity: ((0,1),2) with times 0, 1/2, 0 ; ratio 1/2, root height 2 *)
Example C06_example :
  let t := index_tree (Node (Node (Leaf 0) (Leaf 1)) (Leaf 2)) in
  map show_q (node_heights (ratio_fwd NumQ 3 [sq 0; sq (1#2); sq 0] [sq (1#2); sq (2#1)] None t))
  = map show_q [sq 0; sq (1#2); sq 0; sq (5#4); sq (2#1)].
Proof. vm_compute. reflexivity. Qed.
(* ... and the valid tree of heights 5/4, 2 over these tips is mapped to ratio 1/2, root height 2 and back *)
Example C06_example_inverse := height_inv_example.
