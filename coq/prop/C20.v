(* C20 — smoothing / integrated priors and sufficient statistics match their densities.
   Statements only; proofs in proof/P_gmrf.v, proof/P_suffstat.v (identities over R) and
   proof/P_gmrf_param.v, proof/P_suffstat_param.v (free theorems: the interval runs used by the
   correspondence enclose the real-valued model).

   Models: model/M_gmrf.v (GMRF._call, GMRF.precision_matrix, GMRFGammaIntegrated, the closed form
   of ConstantCoalescentIntegrated), model/M_suffstat.v (sufficient_statistics of the skyride and
   skygrid distributions, on the interval machinery of model/M_coalescent.v). *)
From Coquelicot Require Import Coquelicot.
From Coq Require Import QArith Reals List Lia Lra.
Import ListNotations.
Local Open Scope list_scope.
From TT Require Import Num NumR NumI ParamI Tree M_coalescent M_gmrf M_suffstat
                       P_gmrf P_suffstat P_gmrf_param P_suffstat_param.
Open Scope R_scope.

(* ------------------------------------------------------------------ GMRF = quadratic form *)

(* sum_i (x_i - x_{i+1})^2 * tau  =  x' Q x  for the tridiagonal Q that precision_matrix() builds
   (diagonal tau, 2 tau, ..., 2 tau, tau; off-diagonals -tau), for every field of length >= 2. *)
Theorem C20_gmrf_is_quadratic_form : forall (x : list R) (tau : R),
  (2 <= length x)%nat ->
  nsum NumR (sqdiffs NumR x) * tau = quad NumR (precision_matrix_plain NumR tau (length x)) x.
Proof. exact plain_sum_is_quadratic_form_l. Qed.
Print Assumptions C20_gmrf_is_quadratic_form.

(* The same for the weighted and the time-aware variants (weights w_i; mean durations of the
   sorted internal node heights, optionally rescaled by the root height), with
   Q_w = tau D' W^-1 D: diagonal tau (m_{i-1} + m_i), off-diagonal -tau m_i, m_i the inverse
   weight the density applies to the i-th squared difference.  variant_ok = the weight vector
   / the tree has enough entries for the field. *)
Theorem C20_weighted_is_quadratic_form : forall (v : @variant R) (x : list R) (tau : R),
  (1 <= length x)%nat -> variant_ok v x ->
  nsum NumR (wsqdiffs NumR v x) * tau =
  quad NumR (precision_matrix_w NumR tau (inv_weights NumR v (fdim NumR x))) x.
Proof. exact sum_is_quadratic_form. Qed.
Print Assumptions C20_weighted_is_quadratic_form.

(* GMRF() = (d/2) ln tau - 1/2 x'Qx - (d/2) ln 2pi with the matrix the MODEL publishes (for the
   plain variant the matrix exactly as the code computes it; for the weighted / time-aware
   variants Q_w), for every variant, every length >= 2, every precision, and whatever value is
   used for the constant ln 2pi. *)
Theorem C20_gmrf_is_gaussian_form : forall (ln2pi : R) (v : @variant R) (x : list R) (tau : R),
  (2 <= length x)%nat -> variant_ok v x ->
  gmrf NumR ln2pi v x tau =
  gauss_form NumR ln2pi (fdim NumR x) (precision_matrix NumR v tau (length x)) x tau.
Proof. exact gmrf_is_gaussian_form_l. Qed.
Print Assumptions C20_gmrf_is_gaussian_form.

(* The plain matrix the code builds IS the weighted one with unit weights. *)
Theorem C20_plain_is_unit_weighted : forall (tau : R) (n : nat),
  (2 <= n)%nat ->
  precision_matrix_plain NumR tau n = precision_matrix_w NumR tau (repeat 1 (Nat.pred n)).
Proof. exact precision_matrix_plain_is_unit_weighted. Qed.
Print Assumptions C20_plain_is_unit_weighted.

(* What precision_matrix() actually returns for the weighted / time-aware variants is the plain
   matrix.  Its quadratic form misses the one of the density by tau * (sum of plain squared
   differences - sum of weighted squared differences) ... *)
Theorem C20_plain_matrix_error : forall (v : @variant R) (x : list R) (tau : R),
  (2 <= length x)%nat -> variant_ok v x ->
  quad NumR (precision_matrix_plain NumR tau (length x)) x - nsum NumR (wsqdiffs NumR v x) * tau =
  tau * (nsum NumR (sqdiffs NumR x) - nsum NumR (wsqdiffs NumR v x)).
Proof. exact plain_matrix_error_l. Qed.
Print Assumptions C20_plain_matrix_error.
(* ... which is not zero: the property was FALSE of the code before fix a1e0fb1 for weighted fields (finding
   C20:GMRF.precision_matrix:weights-ignored / :tree_model-ignored; the full statement
   "precision_matrix() of the code gives the quadratic form of GMRF() for all three variants"
   therefore holds of the model's matrix above, not of the code's). *)
Theorem C20_weighted_precision_refuted :
  exists (w x : list R) (tau : R),
    (2 <= length x)%nat /\ variant_ok (Weighted w) x /\
    quad NumR (precision_matrix_plain NumR tau (length x)) x <>
    nsum NumR (wsqdiffs NumR (Weighted w) x) * tau.
Proof. exact weighted_precision_refuted_l. Qed.
Print Assumptions C20_weighted_precision_refuted.

(* ------------------------------------------------------------------ sufficient statistics *)

(* For ANY list of intervals (lineage count, end points, emptiness flag, end-event kind), any
   grouping key with values below the number of thetas:  the log density
   - sum_iv C(k,2) dt / theta_{key iv} - sum_{iv ending in a coalescence} ln theta_{key iv}
   equals  - sum_j ss_j / theta_j - sum_j c_j ln theta_j  with the per-group sums ss_j and
   coalescent counts c_j. *)
Theorem C20_suffstats_any_intervals :
  forall (key : ival R -> nat) (ivs : list (ival R)) (thetas : list R),
  Forall (fun iv => (key iv < length thetas)%nat) ivs ->
  lp NumR (fun iv => div NumR (dur NumR iv) (lk thetas (key iv) 0))
          (fun iv => nln NumR (lk thetas (key iv) 0)) ivs =
  reconstruct NumR (map (group_sum NumR key ivs) (seq 0 (length thetas)))
                   (map (group_count key ivs) (seq 0 (length thetas))) thetas.
Proof. exact suffstats_any_intervals. Qed.
Print Assumptions C20_suffstats_any_intervals.

(* skygrid (PiecewiseConstantCoalescentGrid): for every set of sampling / coalescent / grid
   events, in any order, with ties, and one theta per grid piece. *)
Theorem C20_skygrid_suffstats_reproduce_logprob : forall (thetas : list R) (evs : list (event R)),
  length thetas = S (count_kind isgrid evs) ->
  skygrid_lp NumR thetas evs = reconstruct NumR (skygrid_ss NumR evs) (skygrid_counts evs) thetas.
Proof. exact skygrid_suffstats_l. Qed.
Print Assumptions C20_skygrid_suffstats_reproduce_logprob.

(* skyride (PiecewiseConstantCoalescent): one theta per coalescent event, every count 1; the
   oldest event is a coalescence (the root). *)
Theorem C20_skyride_suffstats_reproduce_logprob : forall (thetas : list R) (evs : list (event R)),
  length thetas = count_kind iscoal evs -> root_last NumR evs ->
  skyride_lp NumR thetas evs = reconstruct NumR (skyride_ss NumR evs) (skyride_counts evs) thetas.
Proof. exact skyride_suffstats_l. Qed.
Print Assumptions C20_skyride_suffstats_reproduce_logprob.

(* the constant coalescent depends on the tree only through S = sum C(k,2) dt and the number of
   coalescent events *)
Theorem C20_constant_through_statistic : forall (theta : R) (evs : list (event R)),
  constant_lp NumR theta evs = const_value NumR (count_kind iscoal evs) (const_stat NumR evs) theta.
Proof. exact constant_lp_stat_l. Qed.
Print Assumptions C20_constant_through_statistic.

(* ------------------------------------------------------------------ integrated forms *)

(* Pointwise: Gamma(tau; alpha, beta) * GMRF(x | tau) = K(x) tau^(a'-1) e^(-b' tau) with
   a' = alpha + d/2, b' = beta + S/2, and the reported value is ln K(x) + lgamma(a') - a' ln b'
   (lg_a, lg_a' = whatever the lgamma oracle returned). *)
Theorem C20_integrated_pointwise : forall ln2pi alpha beta lg_a lg_a' (d : nat) S tau,
  exp (gamma_logpdf NumR alpha beta lg_a tau) * exp (gmrf_value NumR ln2pi d S tau) =
  exp (lnK_gmrf ln2pi alpha beta lg_a d) *
  (Rpower tau (alpha + INR d / 2 - 1) * exp (- ((beta + S / 2) * tau))) /\
  gmrf_integrated_value NumR ln2pi alpha beta lg_a lg_a' d S =
  lnK_gmrf ln2pi alpha beta lg_a d + lg_a' - (alpha + INR d / 2) * ln (beta + S / 2).
Proof. intros; split; [apply gmrf_integrand_product_l | apply gmrf_integrated_value_l]. Qed.
Print Assumptions C20_integrated_pointwise.

(* Hence, GIVEN that the lgamma oracle Lg normalises the Gamma kernel
   (int_0^oo t^(a-1) e^(-b t) dt = exp(Lg a) / b^a for all a, b > 0 — trusted base: Coq's
   libraries have no Gamma function), exp(GMRFGammaIntegrated()) is the (improper Riemann)
   integral over the precision of the product of the two densities. *)
Theorem C20_gmrf_integrated_is_integral : forall (Lg : R -> R),
  gamma_kernel_normalised Lg ->
  forall ln2pi alpha beta (d : nat) S,
  0 < alpha -> 0 < beta -> 0 <= S ->
  is_RInt_gen (fun tau => exp (gamma_logpdf NumR alpha beta (Lg alpha) tau) *
                          exp (gmrf_value NumR ln2pi d S tau))
    (at_right 0) (Rbar_locally p_infty)
    (exp (gmrf_integrated_value NumR ln2pi alpha beta (Lg alpha) (Lg (alpha + INR d / 2)) d S)).
Proof. exact gmrf_integrated_is_integral_l. Qed.
Print Assumptions C20_gmrf_integrated_is_integral.

(* Same for the size-integrated constant coalescent with an inverse-gamma prior:
   InvGamma(theta; alpha, beta) * ConstantCoalescent(T | theta)
   = K theta^(-(alpha+m)-1) e^(-(beta+S)/theta), reported value ln K + lgamma(alpha+m)
   - (alpha+m) ln(beta+S). *)
Theorem C20_const_integrated_pointwise : forall alpha beta lg_a lg_am (m : nat) S theta,
  exp (invgamma_logpdf NumR alpha beta lg_a theta) * exp (const_value NumR m S theta) =
  exp (lnK_const alpha beta lg_a) *
  (Rpower theta (- (alpha + INR m) - 1) * exp (- ((beta + S) / theta))) /\
  const_integrated_value NumR alpha beta lg_a lg_am m S =
  lnK_const alpha beta lg_a + lg_am - (alpha + INR m) * ln (beta + S).
Proof. intros; split; [apply const_integrand_product_l | apply const_integrated_value_l]. Qed.
Print Assumptions C20_const_integrated_pointwise.

Theorem C20_const_integrated_is_integral : forall (Lg : R -> R),
  invgamma_kernel_normalised Lg ->
  forall alpha beta (m : nat) S,
  0 < alpha -> 0 < beta -> 0 <= S ->
  is_RInt_gen (fun theta => exp (invgamma_logpdf NumR alpha beta (Lg alpha) theta) *
                            exp (const_value NumR m S theta))
    (at_right 0) (Rbar_locally p_infty)
    (exp (const_integrated_value NumR alpha beta (Lg alpha) (Lg (alpha + INR m)) m S)).
Proof. exact const_integrated_is_integral_l. Qed.
Print Assumptions C20_const_integrated_is_integral.

(* ------------------------------------------------------------------ the runs enclose the model *)

Theorem C20_run_encloses_gmrf : forall v x tau,
  rel (gmrf_q NumR (ln (2 * PI)) v x tau) (gmrf_q NumI ln2pi_I v x tau).
Proof. intros v x tau. exact (gmrf_enclosed _ _ v x tau ln2pi_enclosed). Qed.
Print Assumptions C20_run_encloses_gmrf.

Theorem C20_run_encloses_precision_matrix : forall v tau n,
  list_R R I.type rel (precision_matrix_q NumR v tau n) (precision_matrix_q NumI v tau n).
Proof. exact precision_matrix_enclosed. Qed.

Theorem C20_run_encloses_gmrf_integrated : forall alpha beta ga Ga ga' Ga' v x,
  rel ga Ga -> rel ga' Ga' ->
  rel (gmrf_integrated_q NumR (ln (2 * PI)) alpha beta ga ga' v x)
      (gmrf_integrated_q NumI ln2pi_I alpha beta Ga Ga' v x).
Proof. intros alpha beta ga Ga ga' Ga' v x Ha Ha'. exact (gmrf_integrated_enclosed _ _ alpha beta ga Ga ga' Ga' v x ln2pi_enclosed Ha Ha'). Qed.

Theorem C20_run_encloses_const_integrated : forall alpha beta ga Ga gm Gm tips coals,
  rel ga Ga -> rel gm Gm ->
  rel (const_integrated_q NumR alpha beta ga gm tips coals)
      (const_integrated_q NumI alpha beta Ga Gm tips coals).
Proof. exact const_integrated_enclosed. Qed.

Theorem C20_run_encloses_suffstats : forall grid tips coals,
  (list_R R I.type rel (skyride_ss_q NumR tips coals) (skyride_ss_q NumI tips coals) *
   list_R R I.type rel (skygrid_ss_q NumR grid tips coals) (skygrid_ss_q NumI grid tips coals) *
   (skygrid_counts_q NumR grid tips coals = skygrid_counts_q NumI grid tips coals))%type.
Proof.
  intros grid tips coals.
  exact (skyride_ss_enclosed tips coals, skygrid_ss_enclosed grid tips coals,
         skygrid_counts_same grid tips coals).
Qed.
Print Assumptions C20_run_encloses_suffstats.

(* ------------------------------------------------------------------ non-vacuity *)
(* a weighted field of length 3 meets the hypotheses of the quadratic-form theorems, and both
   sides are the non-trivial number 1/2 * 1 + 1/4 * 4 = 3/2 (times tau = 2) *)
Example C20_example_weighted :
  let v := Weighted [2; 4] in let x := [0; 1; 3] in
  (2 <= length x)%nat /\ variant_ok v x /\ nsum NumR (wsqdiffs NumR v x) * 2 = 3.
Proof.
  cbv zeta. split; [simpl; lia|]. split; [simpl; lia|].
  cbn [wsqdiffs sqdiffs sqdiffs_from zipw nsum]. unfold sq. cbn [add sub mul div zero NumR]. lra.
Qed.
(* two tips at 0 and one coalescence at 1: the root is last, one theta *)
Example C20_example_skyride :
  let evs := mk_events NumR [0%Q; 0%Q] [1%Q] [] in
  length [5] = count_kind iscoal evs /\ root_last NumR evs.
Proof. cbv zeta. split; reflexivity. Qed.
