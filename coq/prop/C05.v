(* C05 — among-site rate models keep the mean substitution rate at one.
   Statements only; proofs in proof/P_site.v (identities over R) and proof/P_site_param.v
   (free theorems: the interval run used by the correspondence encloses the real value). *)
From Coq Require Import QArith Reals List Lia Lra.
From TT Require Import Num NumR NumI ParamI M_site P_site P_site_param.
Open Scope R_scope.

(* Weibull(K) [+ invariant category] [* relative rate mu], every K >= 1, every shape (the raw
   quantile rates exp(ln(-ln(1-u))/shape) are positive for every real shape), every invariant
   proportion in [0,1): probabilities sum to one and are non-negative, rates are non-negative,
   the probability-weighted mean rate is mu (1 without mu), the invariant category has rate exactly
   0 and probability p. *)
Theorem C05_weibull : forall shape K inv mu,
  (0 < K)%nat -> (forall p, inv = Some p -> 0 <= p < 1) -> 0 <= mu_val mu ->
  let rates := weibull_rates NumR shape K inv mu in
  let probs := disc_probs NumR K inv in
  rsum probs = 1 /\ Forall (fun x => 0 <= x) probs /\ Forall (fun x => 0 <= x) rates /\
  rdot rates probs = mu_val mu /\
  (forall p, inv = Some p -> hd 1 rates = 0 /\ hd 0 probs = p).
Proof. exact C05_weibull_l. Qed.
Print Assumptions C05_weibull.

(* The normalisation step alone, for ANY raw category rates and ANY probabilities (whatever the
   discretised distribution): mean rate = mu. *)
Theorem C05_normalise_any : forall raw probs mu,
  rdot raw probs <> 0 -> rdot (normalise NumR raw probs mu) probs = mu_val mu.
Proof. exact mean_rate_normalise. Qed.
Print Assumptions C05_normalise_any.

Theorem C05_invariant : forall p mu,
  0 <= p < 1 -> 0 <= mu_val mu ->
  let rates := invariant_rates NumR p mu in
  let probs := invariant_probs NumR p in
  rsum probs = 1 /\ Forall (fun x => 0 <= x) probs /\ Forall (fun x => 0 <= x) rates /\
  rdot rates probs = mu_val mu /\ hd 1 rates = 0 /\ hd 0 probs = p.
Proof. exact C05_invariant_l. Qed.
Print Assumptions C05_invariant.

Theorem C05_constant : forall mu,
  0 <= mu_val mu ->
  rsum (constant_probs NumR) = 1 /\ rdot (constant_rates NumR mu) (constant_probs NumR) = mu_val mu
  /\ Forall (fun x => 0 <= x) (constant_rates NumR mu).
Proof. exact C05_constant_l. Qed.
Print Assumptions C05_constant.

(* The interval run evaluated by the correspondence check encloses the real-valued model. *)
Theorem C05_run_encloses_model : forall shape Shape K inv Inv mu Mu,
  rel shape Shape -> option_R R I.type rel inv Inv -> option_R R I.type rel mu Mu ->
  list_R R I.type rel (weibull_rates NumR shape K inv mu) (weibull_rates NumI Shape K Inv Mu).
Proof. exact weibull_rates_enclosed. Qed.
Print Assumptions C05_run_encloses_model.

(* non-vacuity: K = 4, invariant proportion 1/4, mu = 3 meets the hypotheses *)
Example C05_example :
  (0 < 4)%nat /\ (forall p, Some (1/4) = Some p -> 0 <= p < 1) /\ 0 <= mu_val (Some 3).
Proof.
  split; [lia|]. split; [|simpl; lra]. intros p H. injection H as <-. lra.
Qed.
