(* C14 — variational objectives are exact at the true posterior.
   Statements only; proofs in proof/P_vi.v (identities over R, list induction over the sample
   count) and proof/P_vi_param.v (free theorems: the interval run used by the correspondence
   encloses the real-valued model).  Model: model/M_vi.v.

   Reading guide.  lp, lq are the per-sample log densities returned by p() and q() on one draw
   (shape [S] = list, shape [S,K] = list of rows).  `tight c lp lq` says lp_s - lq_s = c for every
   sample index s; `tight2` the same for every entry of a [S,K] table with non-empty rows.
   By the bayes_constant_* theorems this is what "q is the exact posterior" gives, with
   c = log marginal likelihood, whatever the draw.                                           *)
From Coq Require Import QArith Reals List Lra Lia Qreals.
Import ListNotations.
From TT Require Import Num NumR NumI ParamI M_vi P_vi P_vi_param P_vi_mvn.
Open Scope R_scope.

(* ---------------------------------------------------------------- tightness of each objective *)

(* ELBO, any sample count S >= 1: the mean of lp - lq is c. *)
Theorem tight_elbo : forall c lp lq, lp <> [] -> tight c lp lq -> elbo NumR lp lq = c.
Proof. exact tight_elbo_l. Qed.
Print Assumptions tight_elbo.

(* multi-sample (importance-weighted) ELBO, any S >= 1 and any K >= 1 per row:
   mean_s (logsumexp_k (lp - lq) - ln K) = c   (ln (K e^c) - ln K = c). *)
Theorem tight_elbo_multi : forall c lpp lqq,
  lpp <> [] -> tight2 c lpp lqq -> elbo_multi NumR lpp lqq = c.
Proof. exact tight_elbo_multi_l. Qed.
Print Assumptions tight_elbo_multi.

(* Renyi bound, every order alpha <> 1, any S >= 1. *)
Theorem tight_vr : forall alpha c lp lq,
  Q2R alpha <> 1 -> lp <> [] -> tight c lp lq -> vr NumR alpha lp lq = c.
Proof. exact tight_vr_l. Qed.
Print Assumptions tight_vr.

(* Renyi bound on [S,K] (mean over the S rows of the K-sample bound). *)
Theorem tight_vr_multi : forall alpha c lpp lqq,
  Q2R alpha <> 1 -> lpp <> [] -> tight2 c lpp lqq -> vr_multi NumR alpha lpp lqq = c.
Proof. exact tight_vr_multi_l. Qed.
Print Assumptions tight_vr_multi.

(* chi upper bound, every order n <> 0 (in particular every n > 0), any S >= 1. *)
Theorem tight_cubo : forall n c lp lq,
  Q2R n <> 0 -> lp <> [] -> tight c lp lq -> cubo NumR n lp lq = c.
Proof. exact tight_cubo_l. Qed.
Print Assumptions tight_cubo.

(* chi upper bound on [S,K] (max / mean over all S*K entries, as the code does). *)
Theorem tight_cubo_multi : forall n c lpp lqq,
  Q2R n <> 0 -> lpp <> [] -> tight2 c lpp lqq -> cubo_multi NumR n lpp lqq = c.
Proof. exact tight_cubo_multi_l. Qed.
Print Assumptions tight_cubo_multi.

(* self-normalised inclusive-KL estimate sum_s w_s (lp_s - lq_s), w = softmax(lp - lq). *)
Theorem tight_klpq : forall c lp lq, lp <> [] -> tight c lp lq -> klpq NumR lp lq = c.
Proof. exact tight_klpq_l. Qed.
Print Assumptions tight_klpq.

Theorem tight_klpq_multi : forall c lpp lqq,
  lpp <> [] -> tight2 c lpp lqq -> klpq_multi NumR lpp lqq = c.
Proof. exact tight_klpq_multi_l. Qed.
Print Assumptions tight_klpq_multi.

(* Analytic-entropy ELBO  mean_s lp_s + H.  It canNOT equal c for every draw (no implementation
   can make it so): the honest identity is  c + (mean_s lq_s + H), the bracket being the
   Monte-Carlo error of the entropy estimate -mean lq against the analytic entropy H; and it
   equals c exactly when that error vanishes.  The check tests exactly this identity.        *)
Theorem elbo_entropy_identity : forall c lp lq h,
  lp <> [] -> tight c lp lq -> elbo_entropy NumR lp h = c + (nmean NumR lq + h).
Proof. exact elbo_entropy_identity_l. Qed.
Print Assumptions elbo_entropy_identity.

Theorem elbo_entropy_tight_iff : forall c lp lq h,
  lp <> [] -> tight c lp lq -> (elbo_entropy NumR lp h = c <-> nmean NumR lq = - h).
Proof. exact elbo_entropy_tight_iff_l. Qed.
Print Assumptions elbo_entropy_tight_iff.

(* The max-shifted logsumexp of the model is ln (sum exp) on every non-empty list. *)
Theorem logsumexp_spec : forall l, l <> [] -> lse NumR l = ln (sumexp l).
Proof. exact lse_spec. Qed.
Print Assumptions logsumexp_spec.

(* Why the plain ELBO hides the [S] - [S,1] -> [S,S] broadcast (q a bare Distribution): the mean
   over the whole S x S table lp_i - lq_j IS the correctly paired ELBO, for any lp, lq (tight or
   not).  No such identity holds for vr / cubo / klpq: there the check reports the defect.   *)
Theorem elbo_cross_hidden : forall lp lq,
  lp <> [] -> length lp = length lq -> elbo_cross NumR lp lq = elbo NumR lp lq.
Proof. exact elbo_cross_hidden_l. Qed.
Print Assumptions elbo_cross_hidden.

(* ---------------------------------------------------------------- Bayes constants:
   ln p(x|z) + ln p(z) - ln post(z) is the closed-form log marginal, for EVERY z (no positivity
   needed: identities in z, ln z, and the opaque lgamma / ln sqrt(2 pi) / ln C(n,k) values).   *)

(* gamma(a,b) prior on the rate of exponential data xs (any number of observations);
   posterior gamma(a + n, b + sum xs); lga = lgamma a, lgan = lgamma (a + n). *)
Theorem bayes_constant_gamma_exponential : forall a b lga lgan xs z,
  ge_lp NumR a b lga xs z - ge_lq NumR a b lgan xs z = ge_logml NumR a b lga lgan xs.
Proof. exact bayes_constant_ge_l. Qed.
Print Assumptions bayes_constant_gamma_exponential.

(* gamma(a,b) prior on the rate of Poisson counts ks; posterior gamma(a + sum ks, b + n);
   lgs = [lgamma (k_i + 1)], lgas = lgamma (a + sum ks). *)
Theorem bayes_constant_gamma_poisson : forall a b lga lgas ks lgs z,
  length ks = length lgs ->
  gp_lp NumR a b lga ks lgs z - gp_lq NumR a b lgas ks z = gp_logml NumR a b lga lgas ks lgs.
Proof. exact bayes_constant_gp_l. Qed.
Print Assumptions bayes_constant_gamma_poisson.

(* normal(m0,s0) prior on the mean of normal(., sigma) data xs; posterior normal(m1,s1) with
   s1^2 = s0^2 sigma^2 / (sigma^2 + n s0^2), m1 = (m0 sigma^2 + s0^2 sum xs)/(sigma^2 + n s0^2);
   k = ln sqrt(2 pi) (opaque). *)
Theorem bayes_constant_normal_normal : forall k m0 s0 sigma m1 s1 xs z,
  sigma <> 0 -> s0 <> 0 -> nn_post m0 s0 sigma m1 s1 xs ->
  nn_lp NumR k m0 s0 sigma xs z - nn_lq NumR k m1 s1 z = nn_logml NumR k m0 s0 sigma m1 s1 xs.
Proof. exact bayes_constant_nn_l. Qed.
Print Assumptions bayes_constant_normal_normal.

(* beta(a,b) prior on the success probability of a binomial(n) count k; posterior
   beta(a + k, b + n - k); lB, lBpost = log beta functions, lC = ln C(n,k). *)
Theorem bayes_constant_beta_binomial : forall a b lB lBpost n k lC z,
  bb_lp NumR a b lB n k lC z - bb_lq NumR a b lBpost n k z = bb_logml NumR lB lBpost lC.
Proof. exact bayes_constant_bb_l. Qed.
Print Assumptions bayes_constant_beta_binomial.

(* --- through constraining transforms, Jacobian term log|dz/du| in the joint *)

(* z = exp u (ExpTransform), densities of u: joint + u, posterior gamma(z) + u. *)
Theorem bayes_constant_gamma_exponential_exp : forall a b lga lgan xs u,
  ge_exp_lp NumR a b lga xs u - ge_exp_lq NumR a b lgan xs u = ge_logml NumR a b lga lgan xs.
Proof. exact bayes_constant_ge_exp_l. Qed.
Print Assumptions bayes_constant_gamma_exponential_exp.

(* z = sigmoid u (SigmoidTransform), Jacobian ln z + ln (1 - z). *)
Theorem bayes_constant_beta_binomial_sigmoid : forall a b lB lBpost n k lC u,
  bb_sig_lp NumR a b lB n k lC u - bb_sig_lq NumR a b lBpost n k u = bb_logml NumR lB lBpost lC.
Proof. exact bayes_constant_bb_sig_l. Qed.
Print Assumptions bayes_constant_beta_binomial_sigmoid.

(* z = loc + scale u (AffineTransform), Jacobian ln|scale| only in the joint; q is the plain
   normal N((m1 - loc)/scale, s1/|scale|) on u  (ascale = |scale|). *)
Theorem bayes_constant_normal_normal_affine : forall k m0 s0 sigma m1 s1 loc scale ascale xs u,
  sigma <> 0 -> s0 <> 0 -> nn_post m0 s0 sigma m1 s1 xs ->
  scale <> 0 -> 0 < s1 -> 0 < ascale -> ascale * ascale = scale * scale ->
  nn_aff_lp NumR k m0 s0 sigma loc scale (ln ascale) xs u
  - nn_aff_lq NumR k m1 s1 loc scale ascale u
  = nn_logml NumR k m0 s0 sigma m1 s1 xs.
Proof. exact bayes_constant_nn_aff_l. Qed.
Print Assumptions bayes_constant_normal_normal_affine.

(* log-normal(m0,s0) prior on z = exp u, data normal(ln z, sigma), Jacobian u only in the joint;
   q is the plain normal N(m1,s1) on the unconstrained u (the shape torchtree-cli emits). *)
Theorem bayes_constant_lognormal_normal_exp : forall k m0 s0 sigma m1 s1 xs u,
  sigma <> 0 -> s0 <> 0 -> nn_post m0 s0 sigma m1 s1 xs ->
  lnn_lp NumR k m0 s0 sigma xs u - nn_lq NumR k m1 s1 u = nn_logml NumR k m0 s0 sigma m1 s1 xs.
Proof. exact bayes_constant_lnn_l. Qed.
Print Assumptions bayes_constant_lognormal_normal_exp.

(* ---------------------------------------------------------------- multivariate pairs (proof/P_vi_mvn.v; 2 x 2
   symmetric matrices [Sym2 a b d], determinant / inverse / quadratic form written out; [spd2]: a > 0, det > 0).
   Bivariate normal prior N(m0, S0) on the mean, one observation x ~ N(mu, S), S FULL symmetric positive definite:
   with the closed-form posterior N(post_mean, post_cov), ln p(x|mu) + ln p(mu) - ln post(mu) is the log marginal
   N(x; m0, S0 + S) for every mu. *)
Theorem bayes_constant_bivariate_normal : forall (m0 : vec2) (S0 S : sym2) (x : vec2),
  spd2 S0 -> spd2 S ->
  forall mu1 mu2 : R,
    lmvn (mu1, mu2) S x + lmvn m0 S0 (mu1, mu2)
    - lmvn (post_mean m0 S0 S x) (post_cov S0 S) (mu1, mu2)
    = lmvn m0 (add2 S0 S) x.
Proof. exact bayes_constant_mvn2. Qed.
Print Assumptions bayes_constant_bivariate_normal.
(* ... with independent Normal(mu_j, sg_j) likelihood terms (the form the harness's "mvn" pair uses) *)
Theorem bayes_constant_bivariate_normal_independent_noise : forall (m0 : vec2) (S0 : sym2) (sg1 sg2 x1 x2 : R),
  spd2 S0 -> 0 < sg1 -> 0 < sg2 ->
  forall mu1 mu2 : R,
    lnorm mu1 sg1 x1 + lnorm mu2 sg2 x2 + lmvn m0 S0 (mu1, mu2)
    - lmvn (post_mean m0 S0 (diag2 sg1 sg2) (x1, x2)) (post_cov S0 (diag2 sg1 sg2)) (mu1, mu2)
    = lmvn m0 (add2 S0 (diag2 sg1 sg2)) (x1, x2).
Proof. exact bayes_constant_mvn2_diag. Qed.
Print Assumptions bayes_constant_bivariate_normal_independent_noise.
(* the posterior covariance is a covariance, and its log-determinant is the one the log marginal needs *)
Theorem bivariate_normal_posterior_is_spd : forall S0 S, spd2 S0 -> spd2 S -> spd2 (post_cov S0 S).
Proof. exact mvn2_posterior_is_spd. Qed.
Print Assumptions bivariate_normal_posterior_is_spd.

(* theta = exp(cumsum z) (the shipped CumSumExpTransform, d = 2), independent LogNormal(m_i, sp_i) priors on theta_i,
   the transform's log-Jacobian c1 + c2 in the joint, Normal(z_j, sg_j) observations y_j: the prior terms plus the
   Jacobian are Gaussian in (c1, c2) ... *)
Theorem cumsumexp_prior_with_jacobian_is_gaussian : forall m1 sp1 m2 sp2 c1 c2 : R,
  llognorm m1 sp1 (exp c1) + llognorm m2 sp2 (exp c2) + (c1 + c2)
  = lnorm m1 sp1 c1 + lnorm m2 sp2 c2.
Proof. exact cse_prior_gaussian. Qed.
Print Assumptions cumsumexp_prior_with_jacobian_is_gaussian.
(* ... and with q the bivariate normal of precision L^T diag(1/sp^2) L + diag(1/sg^2) the difference
   ln p(y, z) - ln q(z) is the same number for every z *)
Theorem bayes_constant_cumsumexp : forall m1 m2 sp1 sp2 sg1 sg2 y1 y2 : R,
  0 < sp1 -> 0 < sp2 -> 0 < sg1 -> 0 < sg2 ->
  forall z1 z2 : R,
    (lnorm z1 sg1 y1 + lnorm z2 sg2 y2
     + (llognorm m1 sp1 (exp z1) + llognorm m2 sp2 (exp (z1 + z2)) + (z1 + (z1 + z2))))
    - lmvn (cse_mean m1 m2 sp1 sp2 sg1 sg2 y1 y2) (cse_cov sp1 sp2 sg1 sg2) (z1, z2)
    = cse_logml m1 m2 sp1 sp2 sg1 sg2 y1 y2.
Proof. exact bayes_constant_cse_joint. Qed.
Print Assumptions bayes_constant_cumsumexp.
(* hence every objective returns the log marginal on every list / table of draws *)
Theorem exact_bivariate_normal : forall (m0 : vec2) (S0 S : sym2) (x : vec2),
  spd2 S0 -> spd2 S ->
  (forall zs : list vec2, zs <> [] ->
     all_exact (mvn_logml m0 S0 S x) (map (mvn_lp m0 S0 S x) zs) (map (mvn_lq m0 S0 S x) zs)) /\
  (forall zss : list (list vec2), zss <> [] -> Forall (fun r => r <> []) zss ->
     all_exact2 (mvn_logml m0 S0 S x)
                (map (map (mvn_lp m0 S0 S x)) zss) (map (map (mvn_lq m0 S0 S x)) zss)).
Proof. exact exact_mvn2. Qed.
Print Assumptions exact_bivariate_normal.
Example C14_example_bivariate := mvn2_example_post_cov.
Example C14_example_cumsumexp := cse_example_prec.

(* ---------------------------------------------------------------- objective o density:
   for ANY latent type and ANY pair of log densities with constant difference c, every objective
   returns c on every non-empty list of draws ([S]) and every table of draws with non-empty rows
   ([S,K]).  Instantiated below for the gamma-exponential pair: whatever the S draws zs, all of
   ELBO / VR(alpha <> 1) / CUBO(n <> 0) / KLpq return the closed-form log marginal.           *)
Theorem exact_at_posterior : forall (A : Type) (lp lq : A -> R) c,
  (forall z, lp z - lq z = c) ->
  (forall zs, zs <> [] -> all_exact c (map lp zs) (map lq zs)) /\
  (forall zss, zss <> [] -> Forall (fun r => r <> []) zss ->
               all_exact2 c (map (map lp) zss) (map (map lq) zss)).
Proof. exact @exact_at_posterior_l. Qed.
Print Assumptions exact_at_posterior.

Theorem exact_gamma_exponential : forall a b lga lgan xs zs,
  zs <> [] ->
  all_exact (ge_logml NumR a b lga lgan xs)
            (map (ge_lp NumR a b lga xs) zs) (map (ge_lq NumR a b lgan xs) zs).
Proof. exact exact_gamma_exponential_l. Qed.
Print Assumptions exact_gamma_exponential.

(* ---------------------------------------------------------------- the interval runs evaluated
   by the correspondence check enclose the real-valued model (one per objective shape). *)
Theorem C14_run_encloses_vr : forall a lp LP lq LQ,
  list_R R I.type rel lp LP -> list_R R I.type rel lq LQ ->
  rel (vr NumR a lp lq) (vr NumI a LP LQ).
Proof. exact vr_enclosed. Qed.
Print Assumptions C14_run_encloses_vr.

Theorem C14_run_encloses_klpq_multi : forall lp LP lq LQ,
  list_R _ _ (list_R R I.type rel) lp LP -> list_R _ _ (list_R R I.type rel) lq LQ ->
  rel (klpq_multi NumR lp lq) (klpq_multi NumI LP LQ).
Proof. exact klpq_multi_enclosed. Qed.
Print Assumptions C14_run_encloses_klpq_multi.

(* ---------------------------------------------------------------- non-vacuity *)

(* three draws with lp - lq = -2 at every draw although lp and lq both vary *)
Example C14_example_tight : tight (-2) [1; -3; 5/2] [3; -1; 9/2] /\ [1; -3; 5/2] <> [].
Proof. split; [repeat constructor; lra | discriminate]. Qed.

(* a 2 x 2 table *)
Example C14_example_tight2 : tight2 (-2) [[1; -3]; [0; 4]] [[3; -1]; [2; 6]].
Proof. repeat constructor; try discriminate; lra. Qed.

(* the normal-normal posterior relation is satisfiable: n = 2, s0 = sigma = 1 gives s1^2 = 1/3 *)
Example C14_example_nn_post :
  nn_post 0 1 1 ((0 * (1 * 1) + 1 * 1 * (1 + (2 + 0))) / (1 * 1 + INR 2 * (1 * 1))) (sqrt (1 / 3)) [1; 2].
Proof.
  split; [|reflexivity]. rewrite sqrt_sqrt by lra. simpl. field.
Qed.
