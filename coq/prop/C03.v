(* C03 — no silent underflow: rescaled = unrescaled, sticky switch.
   Statements only.  What a theorem can carry here is the exact-arithmetic part: every code path
   (plain, rescaled, "safe" partial rescaling, tip states) computes the same real number, so the
   exact/interval run of the plain model is a legitimate extended-range reference.  The clause
   about doubles (finite => accurate to 1e-8 even when site likelihoods are subnormal) is a
   statement about IEEE arithmetic and is decided by the sweep in harness/props/c03.py only. *)
From Coq Require Import QArith Reals List Bool.
Import ListNotations.
From TT Require Import Num NumR Tree M_like M_rescale P_like P_rescale.
From TT Require Import M_prune_loop G_prune P_prune_loop P_rescale_loop.
Open Scope R_scope.

(* For ANY positive scalers (the code's per-node maxima over categories x states, or 1 for the nodes
   the _safe variant does not rescale), any tree, any number of states and categories:
   ln(freqs . mix(rescaled root partials)) + sum of ln scalers = ln(site likelihood). *)
Theorem C03_rescaled_eq_plain : forall S sc tip freqs Ps props t,
  (forall P, In P Ps -> forall j, wf_mat S (P j)) -> (forall i, length (tip i) = S) ->
  scalers_pos sc tip Ps t ->
  0 < site_lik NumR S freqs Ps props tip t ->
  site_loglik_rs NumR S sc freqs Ps props tip t = ln (site_lik NumR S freqs Ps props tip t).
Proof. exact rescaled_eq_plain_l. Qed.
Print Assumptions C03_rescaled_eq_plain.

(* THE RESCALED LOOPS OF THE CODE, regenerated on every run from calculate_treelikelihood_discrete_rescaled
   and calculate_treelikelihood_discrete_safe (translator T8, which also pins that the scaler is the maximum
   over categories x states per site, that it is recorded, that the node stores partial / scaler, and — for
   the safe variant — the condition under which a node is rescaled):
   the quantity divided by the scaler is the SAME update as in the plain loop (C01_array_loop_is_pruning),
   and what is returned is  sum over sites of weight * ( ln(freqs . mixture of the rescaled root) + sum of the
   ln scalers ): the pattern weight multiplies both terms, as site_loglik_rs / loglik do in the model. *)
Theorem C03_rescaled_loops_use_the_plain_update : forall (T : Type) (N : Num T) mats partials node lf rt,
  g_update_rescaled_num N mats partials node lf rt = g_update N mats partials node lf rt /\
  g_update_safe_num N mats partials node lf rt = g_update N mats partials node lf rt.
Proof. intros. split; reflexivity. Qed.
Print Assumptions C03_rescaled_loops_use_the_plain_update.
Theorem C03_rescaled_returned_expression :
  g_return_rescaled = expected_return_rescaled /\ g_return_safe = expected_return_rescaled.
Proof. split; reflexivity. Qed.
Print Assumptions C03_rescaled_returned_expression.

(* The rescaled recursion over TIP STATES (calculate_treelikelihood_tip_states_discrete_rescaled, regenerated
   as well): the quantity divided by the scaler is the update of the plain tip-state loop — which
   C01_tip_state_loop_is_tip_partial_loop proves equal to the tip-partial update on indicator partials — and
   the returned expression is the same weighted sum of both terms. *)
Theorem C03_rescaled_tip_state_loop_uses_the_plain_update :
  forall (T : Type) (N : Num T) S tc mats states partials node lf rt,
  g_update_states_rescaled_num N S tc mats states partials node lf rt
    = g_update_states N S tc mats states partials node lf rt /\
  g_return_states_rescaled = expected_return_rescaled.
Proof. intros. split; reflexivity. Qed.
Print Assumptions C03_rescaled_tip_state_loop_uses_the_plain_update.

(* ... and the rescaled ARRAY LOOP built around that regenerated numerator ([rs_update]: the K numerators of a
   node, divided by the node's scaler; ln scaler added to the running sum) leaves at the root exactly the
   model's rescaled recursion [prune_rs] — whose value C03_rescaled_eq_plain proves equal to the plain
   log-likelihood.  Any number type, any scaler function, any soundly numbered tree, any categories. *)
Theorem C03_rescaled_array_loop_is_model : forall (T : Type) (N : Num T) sc Ps tip t (a : nat -> list vec * T),
  wfi t -> (forall i, In i (ileaves t) -> a i = (map (fun _ => tip i) Ps, zero N)) ->
  loop (rs_update N sc Ps) (postorder t) a (iidx t) = prune_rs N sc Ps tip t.
Proof. exact @rescaled_loop_is_prune_rs. Qed.
Print Assumptions C03_rescaled_array_loop_is_model.

(* Once rescaling has been switched on it stays on, whatever later evaluations report. *)
Theorem C03_flag_sticky : forall history, flag_after history true = true.
Proof. exact flag_sticky_l. Qed.
Print Assumptions C03_flag_sticky.
Theorem C03_flag_monotone : forall h1 h2 flag0,
  flag_after h1 flag0 = true -> flag_after (h1 ++ h2) flag0 = true.
Proof. exact flag_monotone_l. Qed.
Print Assumptions C03_flag_monotone.

(* non-vacuity: a history in which the third evaluation underflows *)
Example C03_example : flag_after [false; false; true; false] false = true /\ flag_after [false; false] false = false.
Proof. split; reflexivity. Qed.
