(* C18 — a crash while writing a checkpoint never loses the last good checkpoint.
   The write program [save_prog] is regenerated from save_parameters on every run (gen/G_save.v).
   This file holds only the property statements; proofs are in proof/P_fs.v. *)
From Coq Require Import List Arith.
Import ListNotations.
From TT Require Import Fs G_save P_fs.

(* One write of version v over an existing complete checkpoint c, crashing after ANY number k of
   primitive file-system steps: a complete image >= c survives under name / name.old / name.new
   and the name itself is not a truncated file. *)
Theorem C18_single_write_safe : forall c v k, c <= v ->
  good c (run_write save_prog default_flags (mkDir (Some (Complete c)) None None) v k) = true.
Proof. exact C18_single_write_safe_l. Qed.
Print Assumptions C18_single_write_safe.

(* ANY number of consecutive interrupted writes (crash points ks, arbitrary leftovers o, w). *)
Theorem C18_history_safe : forall ks c o w,
  good c (run_history save_prog default_flags (mkDir (Some (Complete c)) o w) c ks) = true.
Proof. exact C18_history_safe_l. Qed.
Print Assumptions C18_history_safe.

(* Not vacuous the other way round: after any such history an uninterrupted write installs the
   new version under the checkpoint name (the protocol does not get stuck in a degraded state). *)
Theorem C18_completed_write_installs : forall ks c o w k,
  let d := run_history save_prog default_flags (mkDir (Some (Complete c)) o w) c ks in
  16 <= k ->
  dname (run_write save_prog default_flags d (S (c + length ks)) k) = Some (Complete (S (c + length ks))).
Proof. exact C18_completed_write_installs_l. Qed.
Print Assumptions C18_completed_write_installs.

(* non-vacuity: a concrete three-crash history, crash points strictly inside the protocol *)
Example C18_example :
  show_dir (run_history save_prog default_flags (mkDir (Some (Complete 7)) None None) 7 [3; 1; 2])
  <> [] /\ good 7 (run_history save_prog default_flags (mkDir (Some (Complete 7)) None None) 7 [3; 1; 2]) = true.
Proof. split; [discriminate | vm_compute; reflexivity]. Qed.
