(* C07 — every change of variables reports its true log-Jacobian and inverse.
   Statements only.  The model (model/M_transform.v, model/M_height.v) defines for each transform
   the forward map, the inverse and the log|det J| it must report = sum of ln of the diagonal of its
   (triangular) Jacobian.  Proved here: inverses; the diagonal entries (derivatives, Coquelicot);
   the triangular structure (which inputs an output depends on); and — proof/P_det_def.v, P_tridet.v,
   P_tridet_mc.v, P_transform_det.v, P_height_det.v — that the reported value IS ln |det J| of the full Jacobian
   matrix of partial derivatives, the determinant being the Laplace expansion [ldet] (equal to mathcomp's \det on
   every commutative ring: ldet_is_det in proof/P_tridet_mc.v, closed under the global context). *)
From Coq Require Import QArith Reals List.
From Coquelicot Require Import Coquelicot.
Import ListNotations.
From TT Require Import Num NumR Tree M_transform M_height P_transform P_height P_height_jac P_height_inv P_det_def P_tridet P_transform_det P_height_det P_det_perm G_transforms P_transform_gen.
Open Scope R_scope.

(* ---- inverse after forward returns the input ---- *)
Theorem C07_cumsum_inverse : forall x, cumsum_inv NumR (cumsum_fwd NumR x) = x.
Proof. exact cumsum_inverse_l. Qed.
Print Assumptions C07_cumsum_inverse.
Theorem C07_cumsumexp_inverse : forall x, cumsumexp_inv NumR (cumsumexp_fwd NumR x) = x.
Proof. exact cumsumexp_inverse_l. Qed.
Print Assumptions C07_cumsumexp_inverse.
Theorem C07_softplus_inverse : forall x, softplus_inv_l NumR (softplus_fwd NumR x) = x.
Proof. exact softplus_inverse_l. Qed.
Print Assumptions C07_softplus_inverse.
Theorem C07_cumsumsoftplus_inverse : forall x, cumsumsoftplus_inv NumR (cumsumsoftplus_fwd NumR x) = x.
Proof. exact cumsumsoftplus_inverse_l. Qed.
Print Assumptions C07_cumsumsoftplus_inverse.
Theorem C07_log_inverse : forall x, List.Forall (fun v => 0 < v) x -> log_inv NumR (log_fwd NumR x) = x.
Proof. exact log_inverse_l. Qed.
Print Assumptions C07_log_inverse.
Theorem C07_exp_inverse : forall x, exp_inv NumR (exp_fwd NumR x) = x.
Proof. exact exp_inverse_l. Qed.
Print Assumptions C07_exp_inverse.
Theorem C07_sigmoid_inverse : forall x, sigmoid_inv NumR (sigmoid_fwd NumR x) = x.
Proof. exact sigmoid_inverse_l. Qed.
Print Assumptions C07_sigmoid_inverse.
Theorem C07_affine_inverse : forall loc scale x, scale <> 0 ->
  affine_inv NumR loc scale (affine_fwd NumR loc scale x) = x.
Proof. exact affine_inverse_l. Qed.
Print Assumptions C07_affine_inverse.

(* ---- diagonal entries of the Jacobians: true derivatives, and the reports are their logarithms ---- *)
Theorem C07_softplus_derivative : forall x, is_derive (softplus NumR) x (sigmoid NumR x).
Proof. exact softplus_derive. Qed.
Print Assumptions C07_softplus_derivative.
Theorem C07_softplus_report : forall x, log_sigmoid NumR x = ln (sigmoid NumR x).
Proof. exact log_sigmoid_is_ln_sigmoid. Qed.
Print Assumptions C07_softplus_report.
Theorem C07_exp_derivative : forall x, is_derive (nexp NumR) x (nexp NumR x).
Proof. exact exp_derive. Qed.
Print Assumptions C07_exp_derivative.
Theorem C07_log_derivative : forall x, 0 < x -> is_derive (nln NumR) x (/ x).
Proof. exact ln_derive. Qed.
Print Assumptions C07_log_derivative.
Theorem C07_sigmoid_derivative : forall x,
  is_derive (sigmoid NumR) x (sigmoid NumR x * (1 - sigmoid NumR x)).
Proof. exact sigmoid_derive. Qed.
Print Assumptions C07_sigmoid_derivative.
Theorem C07_sigmoid_report : forall x,
  sub NumR (log_sigmoid NumR x) (softplus NumR x) = ln (sigmoid NumR x * (1 - sigmoid NumR x)).
Proof. exact sigmoid_logdet_is_ln_derivative. Qed.
Print Assumptions C07_sigmoid_report.
(* cumulative maps y_i = g(x_0 + ... + x_i): diagonal entry d y_i / d x_i = g'(c_i) *)
Theorem C07_cumulative_diagonal : forall (g g' : R -> R) a x,
  (forall z, is_derive g z (g' z)) -> is_derive (fun t => g (a + t)) x (g' (a + x)).
Proof. exact cumulative_diagonal. Qed.
Print Assumptions C07_cumulative_diagonal.
(* ... and entries above the diagonal vanish: the first k outputs depend on the first k inputs only *)
Theorem C07_cumulative_triangular : forall (g : R -> R) l1 l2 l2',
  firstn (length l1) (map g (cumsum NumR (l1 ++ l2))) = firstn (length l1) (map g (cumsum NumR (l1 ++ l2'))).
Proof. exact map_cumsum_prefix. Qed.
Print Assumptions C07_cumulative_triangular.

(* ---- ratio node-height transform on EVERY topology ---- *)
(* parameters of nodes outside a subtree do not enter its heights (zero Jacobian entries) *)
Theorem C07_ratio_triangular : forall n times t hp x x',
  (forall i, In i (ipre t) -> x_of NumR n x i = x_of NumR n x' i) ->
  ratio_fwd NumR n times x hp t = ratio_fwd NumR n times x' hp t.
Proof. exact ratio_fwd_local. Qed.
Print Assumptions C07_ratio_triangular.
(* the height of a non-root internal node is affine in its own ratio, slope = parent height - bound *)
Theorem C07_ratio_diagonal : forall n times i l r hp x,
  hh (ratio_fwd NumR n times x (Some hp) (INode i l r))
  = bound NumR times (INode i l r) + x_of NumR n x i * (hp - bound NumR times (INode i l r)).
Proof. exact ratio_fwd_diagonal. Qed.
Print Assumptions C07_ratio_diagonal.
(* the reported value is the sum of ln of exactly those diagonal entries *)
Theorem C07_ratio_report : forall times t hp ht,
  ratio_logdet NumR times hp t ht = rsumR (map ln (diag_entries times hp t ht)).
Proof. exact ratio_logdet_is_sum_ln_diag. Qed.
Print Assumptions C07_ratio_report.
(* increment transform: inverse (C06_diff_roundtrip) and unit diagonal: h_i = max(children) + x_i *)

(* ---- the reports ARE log |det| of the full Jacobian matrix ---- *)
(* determinant of a triangular matrix (list of rows, Laplace expansion along the first row) *)
Theorem C07_det_lower_triangular : forall n m,
  (forall i j, (i < j < n)%nat -> entry NumR m i j = 0) -> ldet NumR n m = rprod (diagonal n m).
Proof. exact ldet_lower_triangular. Qed.
Print Assumptions C07_det_lower_triangular.
Theorem C07_det_upper_triangular : forall n m,
  (forall i j, (j < i < n)%nat -> entry NumR m i j = 0) -> ldet NumR n m = rprod (diagonal n m).
Proof. exact ldet_upper_triangular. Qed.
Print Assumptions C07_det_upper_triangular.
(* every partial derivative of a cumulative map y_i = g(x_0 + .. + x_i): g'(c_i) on and below the diagonal, 0 above *)
Theorem C07_cumulative_partials : forall (g g' : R -> R), (forall z, is_derive g z (g' z)) ->
  forall x i j, (i < length x)%nat -> (j < length x)%nat ->
  is_derive (fun t => nth i (cumF g (upd x j t)) 0) (nth j x 0)
            (if (j <=? i)%nat then g' (nth i (cumsum NumR x) 0) else 0).
Proof. exact cumulative_partial. Qed.
Print Assumptions C07_cumulative_partials.
(* CumSumTransform, CumSumExpTransform, CumSumSoftPlusTransform: report = ln |det (matrix of partials)| *)
Theorem C07_cumsum_report_is_logabsdet : forall x,
  cumsum_logdet NumR x = ln (Rabs (ldet NumR (length x) (jacobian (cumsum_fwd NumR) x))).
Proof. exact cumsum_logdet_is_logabsdet. Qed.
Print Assumptions C07_cumsum_report_is_logabsdet.
Theorem C07_cumsumexp_report_is_logabsdet : forall x,
  cumsumexp_logdet NumR x = ln (Rabs (ldet NumR (length x) (jacobian (cumsumexp_fwd NumR) x))).
Proof. exact cumsumexp_logdet_is_logabsdet. Qed.
Print Assumptions C07_cumsumexp_report_is_logabsdet.
Theorem C07_cumsumsoftplus_report_is_logabsdet : forall x,
  cumsumsoftplus_logdet NumR x = ln (Rabs (ldet NumR (length x) (jacobian (cumsumsoftplus_fwd NumR) x))).
Proof. exact cumsumsoftplus_logdet_is_logabsdet. Qed.
Print Assumptions C07_cumsumsoftplus_report_is_logabsdet.
(* ratio node-height transform, EVERY topology, on the parameter domain (root above its bound, positive ratios):
   the value the code reports is ln |det| of the matrix of partial derivatives of the internal heights with respect
   to the parameters (rows and columns in pre-order; a simultaneous reordering of both does not change |det|) *)
Theorem C07_ratio_report_is_logabsdet : forall n times x i l r,
  let t := INode i l r in
  NoDup (ipre t) -> (forall k, In k (ipre t) -> (n <= k < n + length x)%nat) ->
  bound NumR times t < x_of NumR n x i -> (forall j, In j (ipre l ++ ipre r) -> 0 < x_of NumR n x j) ->
  ratio_logdet NumR times None t (ratio_fwd NumR n times x None t)
  = ln (Rabs (ldet NumR (length (ipre t)) (ratio_jacobian n times x t))).
Proof. exact ratio_logdet_is_logabsdet. Qed.
Print Assumptions C07_ratio_report_is_logabsdet.
(* ... with the numbering setup_indexes produces *)
Theorem C07_ratio_report_is_logabsdet_indexed : forall times tr x i l r,
  index_tree tr = INode i l r -> length x = (leaves tr - 1)%nat ->
  bound NumR times (INode i l r) < x_of NumR (leaves tr) x i ->
  (forall j, In j (ipre l ++ ipre r) -> 0 < x_of NumR (leaves tr) x j) ->
  ratio_logdet NumR times None (INode i l r) (ratio_fwd NumR (leaves tr) times x None (INode i l r))
  = ln (Rabs (ldet NumR (length (ipre (INode i l r))) (ratio_jacobian (leaves tr) times x (INode i l r)))).
Proof. exact ratio_logdet_is_logabsdet_indexed. Qed.
Print Assumptions C07_ratio_report_is_logabsdet_indexed.
(* The SOURCE is the model: the bodies of _call / _inverse / log_abs_det_jacobian of CumSumTransform,
   CumSumExpTransform, SoftPlusTransform, CumSumSoftPlusTransform and LogTransform, regenerated from
   torchtree/distributions/transforms.py on every run (translator T10 -> gen/G_transforms.v), are the model's
   forward / inverse / report, so that every theorem above about these five transforms is a theorem about what
   the source says now.  (LogTransform writes its report in terms of y: stated at y = forward x.) *)
Theorem C07_transform_source_is_model :
  (forall x, g_CumSumTransform_call NumR x = cumsum_fwd NumR x) /\
  (forall y, g_CumSumTransform_inverse NumR y = cumsum_inv NumR y) /\
  (forall x y, g_CumSumTransform_ldj NumR x y = cumsum_logdet NumR x) /\
  (forall x, g_CumSumExpTransform_call NumR x = cumsumexp_fwd NumR x) /\
  (forall y, g_CumSumExpTransform_inverse NumR y = cumsumexp_inv NumR y) /\
  (forall x y, g_CumSumExpTransform_ldj NumR x y = cumsumexp_logdet NumR x) /\
  (forall x, g_SoftPlusTransform_call NumR x = softplus_fwd NumR x) /\
  (forall y, g_SoftPlusTransform_inverse NumR y = softplus_inv_l NumR y) /\
  (forall x y, g_SoftPlusTransform_ldj NumR x y = softplus_logdet NumR x) /\
  (forall x, g_CumSumSoftPlusTransform_call NumR x = cumsumsoftplus_fwd NumR x) /\
  (forall y, g_CumSumSoftPlusTransform_inverse NumR y = cumsumsoftplus_inv NumR y) /\
  (forall x y, g_CumSumSoftPlusTransform_ldj NumR x y = cumsumsoftplus_logdet NumR x) /\
  (forall x, g_LogTransform_call NumR x = log_fwd NumR x) /\
  (forall y, g_LogTransform_inverse NumR y = log_inv NumR y) /\
  (forall x, g_LogTransform_ldj NumR x (g_LogTransform_call NumR x) = log_logdet NumR x).
Proof. exact transforms_source_is_model. Qed.
Print Assumptions C07_transform_source_is_model.
Example C07_ratio_det_example := ratio_det_example.

(* The implementation (autograd) lays the Jacobian out with rows and columns ordered by NODE INDEX, the theorems above
   by pre-order.  The determinant does not see the difference: for ANY square real matrix and ANY injective
   re-indexing of rows and columns by the same map ... *)
Theorem C07_det_simultaneous_permutation : forall (n : nat) (m : list (list R)) (s : nat -> nat),
  (forall i, (i < n)%nat -> (s i < n)%nat) ->
  (forall i j, (i < n)%nat -> (j < n)%nat -> s i = s j -> i = j) ->
  ldet NumR n (tabulate n (fun i j => entryR m (s i) (s j))) = ldet NumR n m.
Proof. exact ldet_simultaneous_permutation. Qed.
Print Assumptions C07_det_simultaneous_permutation.
(* ... hence the report of the ratio transform is ln |det| of the Jacobian in node-index order too (row r / column c =
   height of node n+r / parameter of node n+c), with the numbering setup_indexes produces ... *)
Theorem C07_ratio_report_is_logabsdet_node_order : forall times tr x i l r,
  index_tree tr = INode i l r -> length x = (leaves tr - 1)%nat ->
  bound NumR times (INode i l r) < x_of NumR (leaves tr) x i ->
  (forall j, In j (ipre l ++ ipre r) -> 0 < x_of NumR (leaves tr) x j) ->
  ratio_logdet NumR times None (INode i l r) (ratio_fwd NumR (leaves tr) times x None (INode i l r))
  = ln (Rabs (ldet NumR (length x) (ratio_jacobian_node_order (leaves tr) times x (INode i l r)))).
Proof. exact ratio_logdet_is_logabsdet_node_order_indexed. Qed.
Print Assumptions C07_ratio_report_is_logabsdet_node_order.
(* ... where every entry of that matrix IS the partial derivative of the height of node n+r with respect to x[c] *)
Theorem C07_node_order_entries_are_partial_derivatives : forall n times x t r c,
  NoDup (ipre t) -> (forall k, In k (ipre t) -> (n <= k < n + length x)%nat) ->
  length (ipre t) = length x -> (r < length x)%nat -> (c < length x)%nat ->
  entryR (ratio_jacobian_node_order n times x t) r c
  = Derive (fun s => node_height (n + r) (ratio_fwd NumR n times (upd x c s) None t)) (nth c x 0).
Proof. exact ratio_jacobian_node_order_entry. Qed.
Example C07_ratio_node_order_example := ratio_node_order_example.


(* non-vacuity *)
Example C07_example : cumsum_inv NumR (cumsum_fwd NumR [1; 2; 3]) = [1; 2; 3].
Proof. apply cumsum_inverse_l. Qed.
