(* C04 - transition probabilities are exp(Qt) of a properly normalised rate matrix.
   Statements only; proofs in proof/P_subst.v (generic state count: sums over list matrices),
   proof/P_subst_gen.v (about the fragments regenerated from the source into gen/G_subst.v on
   every run) and proof/P_subst_param.v (Paramcoq free theorems).
   Matrices are lists of rows; [mget NumR M i j] is entry (i,j); [mmul NumR n] the product of
   n x n matrices; [mident NumR n] the identity; [Sumn n f] = f 0 + ... + f (n-1).

   "P(t) IS the matrix exponential" is a theorem (proof/P_matexp.v): exp(Qt) is the entrywise power
   series sum_k t^k/k! (Q^k)_ij (Coquelicot's [is_series]; [mpow n Q k] the k-fold product), and the
   spectral formula used by SymmetricSubstitutionModel / EmpiricalSubstitutionModel and by every model
   that goes through eigen() sums to it; entries are non-negative for t >= 0 and rows sum to one.
   torch.matrix_exp (non-reversible models) and torch.linalg.eigh are oracles: their
   outputs are checked numerically on every run against an independent scaling-and-squaring
   Taylor evaluation of exp(Qt) of the MODEL's Q (harness/props/c04.py). *)
From Coq Require Import QArith Reals List Arith Lia Lra.
Set Warnings "-ambiguous-paths".
From Coquelicot Require Import Coquelicot.
Set Warnings "ambiguous-paths".
Import ListNotations.
From TT Require Import Num NumR NumI ParamI Tree M_subst G_subst M_subst_gen P_subst P_subst_gen P_subst_param P_matexp.
Open Scope R_scope.

(* ---------------------------------------------------------------- rate-matrix builders, any n *)

(* Q = R diag(pi) with the diagonal set to minus the row sum (the construction shared by the
   general symmetric / non-symmetric / empirical / MG94 builders), for ANY exchangeability
   function r and ANY frequency vector: rows sum to zero; off-diagonals are non-negative when
   r and pi are. *)
Theorem C04_builder_rate_matrix : forall n r pi,
  (forall i j, 0 <= r i j) -> List.Forall (fun x => 0 <= x) pi ->
  List.Forall (fun row => nsum NumR row = 0) (q_of_R NumR n r pi) /\
  (forall i j, (i < n)%nat -> (j < n)%nat -> i <> j -> 0 <= mget NumR (q_of_R NumR n r pi) i j).
Proof. exact builder_rate_matrix. Qed.
Print Assumptions C04_builder_rate_matrix.

(* symmetric exchangeabilities: detailed balance pi_i q_ij = pi_j q_ji and pi Q = 0 *)
Theorem C04_builder_reversible : forall n r pi,
  (forall i j, r i j = r j i) ->
  (forall i j, (i < n)%nat -> (j < n)%nat ->
     vget NumR pi i * mget NumR (q_of_R NumR n r pi) i j = vget NumR pi j * mget NumR (q_of_R NumR n r pi) j i) /\
  (forall j, (j < n)%nat -> Sumn n (fun i => vget NumR pi i * mget NumR (q_of_R NumR n r pi) i j) = 0).
Proof. exact builder_reversible. Qed.
Print Assumptions C04_builder_reversible.

(* AbstractSubstitutionModel.norm: for ANY matrix and ANY frequencies, Q / norm has
   -sum_i pi_i (Q/norm)_ii = 1, as soon as norm <> 0 *)
Theorem C04_normalised : forall n Q pi,
  M_subst.norm NumR n Q pi <> 0 -> M_subst.norm NumR n (normalised NumR n Q pi) pi = 1.
Proof. exact normalised_unit. Qed.
Print Assumptions C04_normalised.

(* on the open parameter domain the normalising constant is positive (so the guard above holds
   and dividing by it keeps signs) *)
Theorem C04_norm_positive : forall n r pi,
  (2 <= n)%nat -> (forall i j, (i < n)%nat -> (j < n)%nat -> i <> j -> 0 < r i j) ->
  (forall i, (i < n)%nat -> 0 < vget NumR pi i) -> 0 < M_subst.norm NumR n (q_of_R NumR n r pi) pi.
Proof. exact builder_norm_pos. Qed.
Print Assumptions C04_norm_positive.

(* [proper_reversible n Q pi] bundles: Q and Q/norm are rate matrices (rows sum to zero,
   off-diagonals >= 0), norm > 0, -sum pi_i (Q/norm)_ii = 1, and both satisfy detailed balance
   and stationarity of pi. *)

(* HKY: the 16 entry expressions regenerated from HKY.q *)
Theorem C04_hky : forall kappa pi,
  0 < kappa -> all_pos pi -> length pi = 4%nat -> proper_reversible 4 (hky_Q NumR kappa pi) pi.
Proof. exact hky_proper. Qed.
Print Assumptions C04_hky.
(* ... and they ARE the documented HKY matrix: the general symmetric builder with rates [1; kappa]
   and mapping [0;1;0;0;1;0] (kappa on the transitions A<->G, C<->T) *)
Theorem C04_hky_is_documented_matrix : forall k p0 p1 p2 p3,
  hky_q NumR k p0 p1 p2 p3 = q_sym NumR 4 [1; k] [0;1;0;0;1;0]%nat [p0;p1;p2;p3].
Proof. exact hky_is_sym. Qed.
Print Assumptions C04_hky_is_documented_matrix.

(* GTR: the 16 entry expressions regenerated from GTR.q *)
Theorem C04_gtr : forall r pi,
  all_pos r -> length r = 6%nat -> all_pos pi -> length pi = 4%nat -> proper_reversible 4 (gtr_Q NumR r pi) pi.
Proof. exact gtr_proper. Qed.
Print Assumptions C04_gtr.
Theorem C04_gtr_is_documented_matrix : forall r0 r1 r2 r3 r4 r5 p0 p1 p2 p3,
  gtr_q NumR r0 r1 r2 r3 r4 r5 p0 p1 p2 p3 = q_sym NumR 4 [r0;r1;r2;r3;r4;r5] [0;1;2;3;4;5]%nat [p0;p1;p2;p3].
Proof. exact gtr_is_sym. Qed.
Print Assumptions C04_gtr_is_documented_matrix.

(* general symmetric model, ANY state count, ANY mapping (even out of range), rates/frequencies >= 0 *)
Theorem C04_general_symmetric : forall n rates mapping pi,
  List.Forall (fun x => 0 <= x) rates -> List.Forall (fun x => 0 <= x) pi ->
  rate_matrix n (q_sym NumR n rates mapping pi) /\ reversible n (q_sym NumR n rates mapping pi) pi.
Proof. exact general_sym_rate_matrix. Qed.
Print Assumptions C04_general_symmetric.

(* general non-symmetric model (no reversibility claimed) *)
Theorem C04_general_nonsymmetric : forall n rates mapping pi,
  List.Forall (fun x => 0 <= x) rates -> List.Forall (fun x => 0 <= x) pi ->
  rate_matrix n (q_nonsym NumR n rates mapping pi).
Proof. exact general_nonsym_rate_matrix. Qed.
Print Assumptions C04_general_nonsymmetric.

(* EmpiricalSubstitutionModel.create_rate_matrix (LG, WAG with the regenerated tables) *)
Theorem C04_empirical : forall n rates pi,
  List.Forall (fun x => 0 <= x) rates -> List.Forall (fun x => 0 <= x) pi ->
  rate_matrix n (q_emp NumR n rates pi) /\ reversible n (q_emp NumR n rates pi) pi.
Proof. exact empirical_rate_matrix. Qed.
Print Assumptions C04_empirical.

(* MG94 for EVERY genetic code of datatype.py (tables regenerated on every run) *)
Theorem C04_mg94 : forall c kappa alpha beta pi,
  (c < length genetic_code_tables)%nat ->
  0 < kappa -> 0 < alpha -> 0 < beta -> all_pos pi -> length pi = mg94_states (code_table c) ->
  proper_reversible (mg94_states (code_table c)) (mg94_Q NumR c kappa alpha beta pi) pi.
Proof. exact mg94_proper. Qed.
Print Assumptions C04_mg94.

(* ---------------------------------------------------------------- spectral form, any n *)

(* P(t) = A diag(exp(lambda_k t)) B with A B = B A = I:  P(0) = I,  P(s) P(t) = P(s+t) *)
Theorem C04_spectral_semigroup : forall n A B lam,
  wf n A -> wf n B -> length lam = n ->
  mmul NumR n A B = mident NumR n -> mmul NumR n B A = mident NumR n ->
  p_spectral NumR n A lam B 0 = mident NumR n /\
  forall s t, mmul NumR n (p_spectral NumR n A lam B s) (p_spectral NumR n A lam B t)
              = p_spectral NumR n A lam B (s + t).
Proof.
  intros n A B lam HA HB Hl HAB HBA. split.
  - exact (spectral_P0 n A B lam HA HB Hl HAB).
  - exact (spectral_semigroup n A B lam HA HB Hl HBA).
Qed.
Print Assumptions C04_spectral_semigroup.

(* ... its generator is A diag(lambda) B (entrywise derivative at 0), and it is continuous *)
Theorem C04_spectral_generator : forall n A B lam Q,
  wf n A -> wf n B -> length lam = n ->
  mmul NumR n (map (fun row => vmul NumR row lam) A) B = Q ->
  forall i j, (i < n)%nat -> (j < n)%nat ->
  is_derive (fun t => mget NumR (p_spectral NumR n A lam B t) i j) 0 (mget NumR Q i j) /\
  forall t, continuous (fun t => mget NumR (p_spectral NumR n A lam B t) i j) t.
Proof.
  intros n A B lam Q HA HB Hl HQ i j Hi Hj. split.
  - exact (spectral_generator n A B lam HA HB Hl Q HQ i j Hi Hj).
  - intros t. exact (spectral_continuous n A B lam HA HB Hl i j t Hi Hj).
Qed.
Print Assumptions C04_spectral_generator.

(* sqrt(pi) Q sqrt(pi)^-1 is symmetric exactly when detailed balance holds (why eigh applies) *)
Theorem C04_symmetrisation : forall n Q pi,
  (forall i, (i < n)%nat -> 0 < vget NumR pi i) ->
  (forall i j, (i < n)%nat -> (j < n)%nat ->
     mget NumR (symmetrised NumR n Q pi) i j = mget NumR (symmetrised NumR n Q pi) j i) <->
  (forall i j, (i < n)%nat -> (j < n)%nat -> vget NumR pi i * mget NumR Q i j = vget NumR pi j * mget NumR Q j i).
Proof. exact symmetrised_symmetric_iff. Qed.
Print Assumptions C04_symmetrisation.

(* the code's formula: for ANY exact eigendecomposition V diag(lam) V^-1 of the symmetrised matrix,
   (sqrt_pi_inv V) diag(exp(lam t)) (V^-1 sqrt_pi) satisfies P(0) = I, the semigroup law, has
   generator Q, is continuous, and has rows summing to one when the rows of Q sum to zero ... *)
Theorem C04_symmetric_p_t : forall n Q pi V W lam,
  (forall i, (i < n)%nat -> 0 < vget NumR pi i) -> wf n Q -> wf n V -> wf n W -> length lam = n ->
  mmul NumR n V W = mident NumR n -> mmul NumR n W V = mident NumR n ->
  mmul NumR n (map (fun row => vmul NumR row lam) V) W = symmetrised NumR n Q pi ->
  let P := p_spectral NumR n (spectral_A NumR n V pi) lam (spectral_B NumR n W pi) in
  P 0 = mident NumR n /\
  (forall s t, mmul NumR n (P s) (P t) = P (s + t)) /\
  (forall i j, (i < n)%nat -> (j < n)%nat -> is_derive (fun t => mget NumR (P t) i j) 0 (mget NumR Q i j)) /\
  (forall i j t, (i < n)%nat -> (j < n)%nat -> continuous (fun t => mget NumR (P t) i j) t) /\
  (List.Forall (fun row => nsum NumR row = 0) Q ->
   forall t i, (i < n)%nat -> Sumn n (fun j => mget NumR (P t) i j) = 1).
Proof. exact symmetric_p_t. Qed.
Print Assumptions C04_symmetric_p_t.

(* ... and it IS the matrix exponential: for every t (negative ones included) and every entry, the power
   series  sum_k t^k / k! (Q^k)_ij  converges to P(t)_ij.  Same hypotheses, nothing else. *)
Theorem C04_p_t_is_matrix_exponential : forall n Q pi V W lam,
  (forall i, (i < n)%nat -> 0 < vget NumR pi i) -> wf n Q -> wf n V -> wf n W -> length lam = n ->
  mmul NumR n V W = mident NumR n -> mmul NumR n W V = mident NumR n ->
  mmul NumR n (map (fun row => vmul NumR row lam) V) W = symmetrised NumR n Q pi ->
  let P := p_spectral NumR n (spectral_A NumR n V pi) lam (spectral_B NumR n W pi) in
  forall t i j, (i < n)%nat -> (j < n)%nat ->
    is_series (fun k => t ^ k / INR (fact k) * mget NumR (mpow n Q k) i j) (mget NumR (P t) i j).
Proof. exact spectral_is_exp_series. Qed.
Print Assumptions C04_p_t_is_matrix_exponential.

(* Every row of P(t), t >= 0, is a probability vector when Q is a rate matrix (off-diagonal entries >= 0,
   rows summing to zero): entries in [0,1] — and the sum of the exponential series is non-negative. *)
Theorem C04_p_t_rows_are_probability_vectors : forall n Q pi V W lam,
  (forall i, (i < n)%nat -> 0 < vget NumR pi i) -> wf n Q -> wf n V -> wf n W -> length lam = n ->
  mmul NumR n V W = mident NumR n -> mmul NumR n W V = mident NumR n ->
  mmul NumR n (map (fun row => vmul NumR row lam) V) W = symmetrised NumR n Q pi ->
  (forall i j, (i < n)%nat -> (j < n)%nat -> i <> j -> 0 <= mget NumR Q i j) ->
  let P := p_spectral NumR n (spectral_A NumR n V pi) lam (spectral_B NumR n W pi) in
  forall t i j, 0 <= t -> (i < n)%nat -> (j < n)%nat ->
    0 <= mget NumR (P t) i j /\
    (forall s, is_series (fun k => t ^ k / INR (fact k) * mget NumR (mpow n Q k) i j) s -> 0 <= s) /\
    (List.Forall (fun row => nsum NumR row = 0) Q -> mget NumR (P t) i j <= 1).
Proof. exact exp_series_nonneg. Qed.
Print Assumptions C04_p_t_rows_are_probability_vectors.

(* The same two facts for ANY diagonalisation Q = A diag(lam) A^-1 with real eigenvalues (no reversibility, no
   frequencies): what a model that computes P(t) through its own eigen() relies on. *)
Theorem C04_any_real_diagonalisation_is_matrix_exponential : forall n A B Q lam,
  wf n A -> wf n B -> length lam = n ->
  mmul NumR n A B = mident NumR n -> mmul NumR n B A = mident NumR n ->
  mmul NumR n (map (fun row => vmul NumR row lam) A) B = Q ->
  forall t i j, (i < n)%nat -> (j < n)%nat ->
  is_series (fun k => t ^ k / INR (fact k) * mget NumR (mpow n Q k) i j)
            (mget NumR (p_spectral NumR n A lam B t) i j).
Proof. exact spectral_exp_series. Qed.
Print Assumptions C04_any_real_diagonalisation_is_matrix_exponential.
Theorem C04_any_real_diagonalisation_nonneg : forall n A B Q lam,
  wf n A -> wf n B -> length lam = n ->
  mmul NumR n A B = mident NumR n -> mmul NumR n B A = mident NumR n ->
  mmul NumR n (map (fun row => vmul NumR row lam) A) B = Q ->
  (forall i j, (i < n)%nat -> (j < n)%nat -> i <> j -> 0 <= mget NumR Q i j) ->
  forall t i j, 0 <= t -> (i < n)%nat -> (j < n)%nat ->
  0 <= mget NumR (p_spectral NumR n A lam B t) i j.
Proof. exact spectral_nonneg. Qed.
Print Assumptions C04_any_real_diagonalisation_nonneg.

(* ---------------------------------------------------------------- Jukes-Cantor closed forms *)

(* GeneralJC69.p_t (coefficients regenerated from the source), every state count n >= 2:
   P(0) = I, rows sum to one, entries in [0,1] for t >= 0, semigroup, generator = GeneralJC69.q,
   continuity *)
Theorem C04_general_jc69 : forall n, (2 <= n)%nat ->
  gjc_P NumR n 0 = mident NumR n /\
  (forall t, List.Forall (fun row => nsum NumR row = 1) (gjc_P NumR n t)) /\
  (forall t, 0 <= t -> List.Forall (List.Forall (fun x => 0 <= x <= 1)) (gjc_P NumR n t)) /\
  (forall s t, mmul NumR n (gjc_P NumR n s) (gjc_P NumR n t) = gjc_P NumR n (s + t)) /\
  (forall i j, (i < n)%nat -> (j < n)%nat ->
     is_derive (fun t => mget NumR (gjc_P NumR n t) i j) 0 (mget NumR (gjc_Q NumR n) i j) /\
     forall t, continuous (fun t => mget NumR (gjc_P NumR n t) i j) t).
Proof.
  intros n Hn. split; [exact (gjc_P0 n Hn)|]. split; [exact (gjc_rows_sum_one n Hn)|].
  split; [exact (gjc_entries_prob n Hn)|]. split; [exact (gjc_semigroup n Hn)|].
  intros i j Hi Hj. split; [exact (gjc_generator n Hn i j Hi Hj)|].
  intros t. exact (gjc_continuous n i j t Hi Hj).
Qed.
Print Assumptions C04_general_jc69.

(* GeneralJC69.q is a rate matrix normalised under the uniform frequencies, symmetric (hence
   reversible w.r.t. the uniform distribution) *)
Theorem C04_general_jc69_q : forall n, (2 <= n)%nat ->
  List.Forall (fun row => nsum NumR row = 0) (gjc_Q NumR n) /\
  (forall i j, (i < n)%nat -> (j < n)%nat -> i <> j -> 0 < mget NumR (gjc_Q NumR n) i j) /\
  (forall i j, (i < n)%nat -> (j < n)%nat -> mget NumR (gjc_Q NumR n) i j = mget NumR (gjc_Q NumR n) j i) /\
  M_subst.norm NumR n (gjc_Q NumR n) (gjc_freq NumR n) = 1.
Proof.
  intros n Hn. split; [exact (gjc_Q_rows_sum_zero n Hn)|]. split; [exact (gjc_Q_offdiag_pos n Hn)|].
  split; [exact (gjc_Q_symmetric n)|exact (gjc_Q_normalised n Hn)].
Qed.
Print Assumptions C04_general_jc69_q.

(* JC69 (4 states): the regenerated closed form, rate matrix and frequencies are GeneralJC69's
   with n = 4, so everything above applies *)
Theorem C04_jc69 : forall d,
  jc69_p NumR d = gjc_P NumR 4 d /\ jc69_q NumR = gjc_Q NumR 4 /\ jc69_freq NumR = gjc_freq NumR 4.
Proof. intros d. split; [apply jc69_p_is_gjc|]. split; [apply jc69_q_is_gjc|apply jc69_freq_is_gjc]. Qed.
Print Assumptions C04_jc69.

(* ---------------------------------------------------------------- the run encloses the model *)

(* what the correspondence evaluates (interval instance) encloses the real-valued model term:
   the rate matrices ... *)
Theorem C04_run_encloses_Q : forall n rates Rates mapping pi Pi,
  list_R R I.type rel rates Rates -> list_R R I.type rel pi Pi ->
  (list_R _ _ (list_R R I.type rel) (q_sym NumR n rates mapping pi) (q_sym NumI n Rates mapping Pi) *
   list_R _ _ (list_R R I.type rel) (q_nonsym NumR n rates mapping pi) (q_nonsym NumI n Rates mapping Pi) *
   list_R _ _ (list_R R I.type rel) (q_emp NumR n rates pi) (q_emp NumI n Rates Pi))%type.
Proof.
  intros. split; [split|]; [apply q_sym_enclosed|apply q_nonsym_enclosed|apply q_emp_enclosed]; assumption.
Qed.
Print Assumptions C04_run_encloses_Q.

(* ... and the scaling-and-squaring Taylor POLYNOMIAL of the normalised matrix (the truncation
   error of the polynomial itself is the classical bound, not formalised) *)
Theorem C04_run_encloses_taylor : forall n Q Qi pi Pi t Ti s K,
  list_R _ _ (list_R R I.type rel) Q Qi -> list_R R I.type rel pi Pi -> rel t Ti ->
  list_R _ _ (list_R R I.type rel) (expQt NumR n Q pi t s K) (expQt NumI n Qi Pi Ti s K).
Proof. exact expQt_enclosed. Qed.
Print Assumptions C04_run_encloses_taylor.

(* ---------------------------------------------------------------- non-vacuity *)
(* HKY with kappa = 2, pi = (0.1, 0.2, 0.3, 0.4) meets the hypotheses of C04_hky *)
Example C04_example_hky : 0 < 2 /\ all_pos [1/10; 2/10; 3/10; 4/10] /\ length [1/10; 2/10; 3/10; 4/10] = 4%nat.
Proof. split; [lra|]. split; [|reflexivity]. repeat constructor; lra. Qed.

(* the two-state Jukes-Cantor eigendecomposition A = [[1,1],[1,-1]], B = A/2, lambda = (0,-2)
   meets the hypotheses of C04_spectral_semigroup *)
Example C04_example_spectral :
  let A := [[1; 1]; [1; -1]] in let B := [[1/2; 1/2]; [1/2; -1/2]] in
  wf 2 A /\ wf 2 B /\ length [0; -2] = 2%nat /\
  mmul NumR 2 A B = mident NumR 2 /\ mmul NumR 2 B A = mident NumR 2.
Proof.
  cbv zeta. split; [split; [reflexivity|repeat constructor]|]. split; [split; [reflexivity|repeat constructor]|].
  split; [reflexivity|].
  split; unfold mmul, mident, mk_mat; cbn; repeat (f_equal; try lra).
Qed.
