(* C10 — a sample dimension never mixes samples.
   Statements only; the model is model/M_tensor.v (shaped tensors with torch's shape semantics,
   JointDistributionModel.log_prob's case analysis, the sample_shape inference rules), the proofs are
   in proof/P_tensor.v.  The model is tied to the implementation on every run by the correspondence
   checks of harness/props/c10.py (tensor operations vs torch, the joint model vs
   JointDistributionModel on the component tensors of real models, the inference rules vs the
   sample_shape properties of real objects); the property itself ("model() with batched vs sliced
   parameters") is evaluated directly on the implementation for every catalogued class. *)
From Coq Require Import List Arith Bool ZArith Reals Lia.
Import ListNotations.
From TT Require Import M_tensor P_tensor.

(* An elementwise broadcast operation between an operand whose first axis is the sample axis
   (shape S :: sa, any sa) and an operand without that axis (rank <= rank sa) acts row by row: the
   result is the stack of the results for the individual rows, and it is an error iff it is an error
   for a row.  This is the lemma that lifts every model that is evaluated by broadcasting to its
   batched version; for a sample shape [S,K] apply it twice. *)
Theorem C10_broadcast_rowwise : forall (T : Type) (f : T -> T -> T) (A B : tensor T) S sa,
  tshape A = S :: sa -> length (tshape B) <= length sa -> length (tdata B) = numel (tshape B) ->
  forall R, binop f A B = Some R ->
  exists sh rows, broadcast_shapes sa (tshape B) = Some sh /\ binop_rows f A B = Some rows /\
                  length rows = S /\ R = stack sh rows /\
                  (forall s, s < S -> binop f (row s A) B = nth_error rows s).
Proof. exact @broadcast_rowwise_l. Qed.
Print Assumptions C10_broadcast_rowwise.

(* ... hence entry s of the result depends only on row s of the batched operand. *)
Theorem C10_broadcast_row_dependency : forall (T : Type) (f : T -> T -> T) (A A' B : tensor T) S sa s R R',
  tshape A = S :: sa -> tshape A' = S :: sa -> length (tshape B) <= length sa ->
  length (tdata B) = numel (tshape B) -> s < S -> row s A = row s A' ->
  binop f A B = Some R -> binop f A' B = Some R' ->
  exists sh rows rows', R = stack sh rows /\ R' = stack sh rows' /\ nth_error rows s = nth_error rows' s.
Proof. exact @broadcast_row_dependency_l. Qed.
Print Assumptions C10_broadcast_row_dependency.

(* JointDistributionModel.log_prob: for EVERY list of components whose log-probability tensors have
   shape (sample ++ event) with sample in {[], [S]} (any event shape, any data), whose reported
   sample shapes are [] or [S], and which are not in the ambiguous class, the result is an error or
   a tensor of shape [S] (or [] = the same value for every sample) whose entry s is the sum over
   the components of the entries belonging to sample s (all entries of an unbatched component).
   Any element type with a right-neutral zero (R, Z, Q, floating point addition with 0.0, ...).

   Full statement attempted for all shapes: it is FALSE on the class `ambiguous` (next two
   theorems); `ambiguous` is decidable on shapes:
     - the component carries a sample axis that its sample_shape does not report, or
     - it reports [S] but returns an unbatched value whose event shape is [S] itself or has rank >= 2. *)
Theorem C10_joint_no_mixing : forall (T : Type) (zero : T) (add : T -> T -> T),
  (forall x, add x zero = x) ->
  forall S (cs : list (tcomp T)) (dflt : T),
  0 < S -> Forall (wf_tc S) cs -> forallb (rep_ok S) cs = true -> ambiguous S cs = false ->
  joint_log_prob zero add (joint_J cs) (map (tc_comp S) cs) = None \/
  exists R, joint_log_prob zero add (joint_J cs) (map (tc_comp S) cs) = Some R /\
            (tshape R = [S] \/ tshape R = []) /\
            forall s, s < S -> value_at dflt R s = joint_spec zero add S s cs.
Proof. exact @joint_no_mixing_l. Qed.
Print Assumptions C10_joint_no_mixing.

(* the same over the reals *)
Theorem C10_joint_no_mixing_R : forall S (cs : list (tcomp R)),
  0 < S -> Forall (wf_tc S) cs -> forallb (rep_ok S) cs = true -> ambiguous S cs = false ->
  joint_log_prob 0%R Rplus (joint_J cs) (map (tc_comp S) cs) = None \/
  exists Res, joint_log_prob 0%R Rplus (joint_J cs) (map (tc_comp S) cs) = Some Res /\
            (tshape Res = [S] \/ tshape Res = []) /\
            forall s, s < S -> value_at 0%R Res s = joint_spec 0%R Rplus S s cs.
Proof. intros. apply (@joint_no_mixing_l R 0%R Rplus Rplus_0_r); assumption. Qed.
Print Assumptions C10_joint_no_mixing_R.

(* Member 1 of the ambiguous class (reproduced on the real JointDistributionModel by the check:
   Distribution(Normal) with x [2,3] and loc [2,1] both batched reports sample_shape []): the sample
   axis is summed like an event axis, the result is ONE number, the total over both samples. *)
Theorem C10_joint_mixing_refuted :
  let c := mkTC true [3] [] [1; 2; 3; 10; 20; 30]%Z in
  wf_tc 2 c /\ rep_ok 2 c = true /\ ambiguous 2 [c] = true /\
  joint_log_prob 0%Z Z.add (joint_J [c]) (map (tc_comp 2) [c]) = Some (mkT [] [66%Z]) /\
  joint_spec 0%Z Z.add 2 0 [c] = 6%Z /\ joint_spec 0%Z Z.add 2 1 [c] = 60%Z.
Proof. vm_compute. repeat split; reflexivity. Qed.
Print Assumptions C10_joint_mixing_refuted.

(* Member 2 (reproduced on the real code: a TransformedParameter with a batched AffineTransform
   location, S = 3 = length of the parameter): an unbatched log-Jacobian of shape [3] is taken for
   per-sample values because 3 is also the number of samples: sample s gets entry s instead of the sum. *)
Theorem C10_joint_event_axis_refuted :
  let c := mkTC false [3] [3] [1; 2; 4]%Z in
  wf_tc 3 c /\ rep_ok 3 c = true /\ ambiguous 3 [c] = true /\
  joint_log_prob 0%Z Z.add (joint_J [c]) (map (tc_comp 3) [c]) = Some (mkT [3] [1; 2; 4]%Z) /\
  joint_spec 0%Z Z.add 3 0 [c] = 7%Z.
Proof. vm_compute. repeat split; reflexivity. Qed.
Print Assumptions C10_joint_event_axis_refuted.

(* sample_shape inference, "longest leading shape" (Container._sample_shape, substitution and site
   models, TreeLikelihoodModel): right whenever every contributor reports [] or the common
   sample shape ss (of any rank >= 1). *)
Theorem C10_longest_sample_shape : forall ss l, ss <> [] -> l <> [] ->
  Forall (fun s => s = [] \/ s = ss) l ->
  longest l = Some (if existsb nonempty l then ss else []).
Proof. exact longest_common. Qed.
Print Assumptions C10_longest_sample_shape.

(* Distribution._sample_shape in torchtree's layout (x = sample ++ [N], parameters = sample ++ [m],
   univariate torch distribution, any sample shape ss of rank >= 1): right unless BOTH x and a
   parameter are batched; then it answers [] — this is how member 1 above arises. *)
Theorem C10_dist_sample_shape_standard : forall ss N m xb pb, ss <> [] ->
  dist_sample_shape (sig ss xb ++ [N]) (sig ss pb ++ [m]) = if xb && pb then [] else sig ss (xb || pb).
Proof. exact dist_sample_shape_standard_l. Qed.
Print Assumptions C10_dist_sample_shape_standard.

(* 0-dimensional parameters (JSON numbers): right *)
Theorem C10_dist_sample_shape_scalar : forall ss N xb,
  dist_sample_shape (sig ss xb ++ [N]) [] = sig ss xb.
Proof. exact dist_sample_shape_scalar_l. Qed.
Print Assumptions C10_dist_sample_shape_scalar.

(* event rank 1 (Dirichlet, ...): batch_shape is the parameters' sample shape; the answer ignores a
   batched parameter when x is not batched *)
Theorem C10_dist_sample_shape_event1 : forall S N xb pb,
  dist_sample_shape (sig [S] xb ++ [N]) (sig [S] pb) = sig [S] xb.
Proof. exact dist_sample_shape_event1_l. Qed.
Print Assumptions C10_dist_sample_shape_event1.

(* TreeLikelihoodModel._call with a clock model, clock rates batched [S,B], branch lengths fixed [B]:
   `rates * branch_lengths.expand(sample_shape + (1, -1))` broadcasts [S,B] against [S,1,B] into
   [S,S,B] (the hypothesis of C10_broadcast_rowwise fails: both operands carry S, on different axes);
   after reshape(sample_shape + (-1, 1)) branch b of sample 1 is the entry built from the clock
   rate of sample 0.  Entries are symbolic: the list of the codes of the inputs multiplied into them
   (rates[s,b] has code 4 s + b, branch length b has code 100 + b).  With the operand expanded to
   sample_shape + (-1,) the same entry is built from the rate of sample 1. *)
Definition clock_rates : tensor sym := sym_tensor 0 [2; 4].
Definition clock_bl : tensor sym := sym_tensor 100 [4].
Definition clock_code (expand_sizes : list Z) : option (list Z) :=
  match expand expand_sizes clock_bl with
  | Some e => match binop (@app Z) clock_rates e with
              | Some p => match reshape [2; -1; 1]%Z p with
                          | Some r => nth_error (tdata r) (1 * (numel (tl (tshape r))) + 0)  (* sample 1, branch 0 *)
                          | None => None end
              | None => None end
  | None => None
  end.
Theorem C10_clock_expand_refuted :
  clock_code [2; 1; -1]%Z = Some [0; 100]%Z /\ clock_code [2; -1]%Z = Some [4; 100]%Z.
Proof. vm_compute. split; reflexivity. Qed.
Print Assumptions C10_clock_expand_refuted.

(* non-vacuity: S = 2, three unambiguous components — a batched vector-valued log-density [2,3]
   (a Distribution over a sampled parameter), a batched [2,1] term (a coalescent prior) and an
   unbatched value of shape [1] whose owner reports sample shape [2] (broadcast to both samples) —
   meet the hypotheses, and the model adds up per sample. *)
Example C10_example :
  let cs := [mkTC true [3] [2] [1; 2; 3; 10; 20; 30]%Z; mkTC true [1] [2] [100; 200]%Z;
             mkTC false [1] [2] [5]%Z] in
  Forall (wf_tc 2) cs /\ forallb (rep_ok 2) cs = true /\ ambiguous 2 cs = false /\
  joint_log_prob 0%Z Z.add (joint_J cs) (map (tc_comp 2) cs) = Some (mkT [2] [111; 265]%Z).
Proof. split; [repeat constructor|]. vm_compute. repeat split; reflexivity. Qed.
