(* C17 — a checkpoint restores the whole run state; resuming continues the same run.
   Statements only.  Model: model/M_ckpt.v (Python values and their JSON round trip, generic
   state_dict / load_state_dict built from key tables, torch.optim state layout as data, run loops as
   "iteration counter + deterministic step function", update_parameters).  The key tables, the
   mutated-attribute tables, the run-loop shapes and the keys handled by update_parameters /
   ParameterEncoder are regenerated from the sources on every run (gen/G_state.v, translator T5).
   Proofs: proof/P_ckpt.v.

   Part 1 holds for EVERY table / state / step function.  Part 2 (end of file) are the finite
   obligations on the regenerated tables, decided by computation; they are last because they are
   exactly the statements that stop checking when the code loses state (the harness then
   reproduces the loss on the real code). *)
From Coq Require Import List String ZArith Bool.
Import ListNotations.
From TT Require Import M_ckpt P_ckpt G_state.
Open Scope string_scope.
Open Scope list_scope.

(* ============================== Part 1: for all values, tables, states ============================== *)

(* json.load(json.dump(v, cls=ParameterEncoder), cls=TensorDecoder) returns v with tuples turned into
   lists and nothing else changed, for every value built from None/bool/int/float/str, lists, tuples,
   string-keyed dictionaries and tensors (dtype and nn flag included). *)
Theorem C17_json_roundtrip : forall v, plainb v = true -> json_rt v = Some (norm v).
Proof. exact json_rt_plain_l. Qed.
Print Assumptions C17_json_roundtrip.

(* ... and exactly v when it holds no tuple. *)
Theorem C17_json_exact : forall v, plainb v = true -> no_tupleb v = true -> json_rt v = Some v.
Proof. exact json_rt_safe_l. Qed.
Print Assumptions C17_json_exact.

(* The loss in translation: an INTEGER key never survives — it comes back as its decimal string
   (the only escape being a dictionary TensorDecoder takes for an encoded tensor). *)
Theorem C17_json_int_keys_become_strings : forall z v, plainb v = true ->
  json_rt (PDict [(KInt z, v)]) = Some (PDict [(KStr (zstr z), norm v)])
  \/ is_tensor_marker (Some v) = true /\ zstr z = "type".
Proof. exact json_rt_int_key_l. Qed.
Print Assumptions C17_json_int_keys_become_strings.

(* torch.optim state ({"state": {0: {...}}, "param_groups": [...]}) and MultiStepLR's milestones:
   after the JSON round trip, re-keying exactly the integer-keyed entries with int(...) gives the
   state back (tuples such as betas as lists). *)
Theorem C17_torch_state_rekey : forall paths fixes v,
  (forall k, mem k fixes = mem k paths) -> ext_okb paths v = true ->
  exists v', json_rt v = Some v' /\ rekey fixes v' = Some (norm v).
Proof. exact rekey_roundtrip_l. Qed.
Print Assumptions C17_torch_state_rekey.

(* ONE OBJECT.  For any class table t that passes the key check (keys read are written, from the
   attribute they go back to, with the inverse decoding and the same guard; written keys are read),
   any attribute values s of the saved object and s0 of the object the restart constructs from the
   same specification: state_dict() succeeds, survives JSON, load_state_dict() succeeds (no
   KeyError) and leaves the attributes equal to s (tuples as lists).  Child objects enter through
   their own round trip (child_rt), see C17_roundtrip_tree. *)
Theorem C17_roundtrip_object : forall csave crestore t s0 s,
  deleg t = None -> keys_ok t = true ->
  map fst s = map wfield (writes t) -> map fst s0 = map fst s ->
  (forall w, In w (writes t) -> guard_holds (wguard w) s0 = guard_holds (wguard w) s) ->
  (forall w r v, In w (writes t) -> In r (reads t) -> rkey r = wkey w ->
     guard_holds (rguard r) s0 = true -> lookup (wfield w) s = Some v ->
     value_ok (child_rt csave crestore) (child_rt_id csave crestore) s0 w r v) ->
  (forall w v, In w (writes t) -> lookup (wfield w) s = Some v ->
     (forall r, In r (reads t) -> rkey r = wkey w -> guard_holds (rguard r) s0 = false) ->
     lookup (wfield w) s0 = Some (norm v)
     /\ (guard_holds (wguard w) s = true ->
         exists e e', wenc csave (wm w) v = Some e /\ json_rt e = Some e')) ->
  exists d d', state_dict csave t s = Some d /\ json_rt d = Some d'
    /\ load_state_dict crestore t s0 d' = Some (map (fun p => (fst p, norm (snd p))) s)
    /\ (forall i, In (mkW "id" "id" WId None) (writes t) -> lookup "id" s = Some (PStr i) ->
                  dict_id d' = Some i).
Proof. exact flat_roundtrip. Qed.
Print Assumptions C17_roundtrip_object.

(* WHOLE ALGORITHM OBJECTS (Optimizer with its torch optimiser and scheduler; MCMC with its operators,
   their integrator and adaptors), any nesting depth n: if every table passes the key check then
   what main() does on a restart — save, write, read, load into the freshly built object o0 —
   returns the saved object o. *)
Theorem C17_roundtrip_tree : forall T, (forall t, In t T -> keys_ok t = true) ->
  forall n o0 o, WF n T o0 o ->
  exists d d', save n T o = Some d /\ json_rt d = Some d' /\ restore n T o0 d' = Some (norm o)
               /\ (idcond T o0 o -> dict_id d' = obj_id o0).
Proof. exact tree_roundtrip. Qed.
Print Assumptions C17_roundtrip_tree.

(* RESUME.  For ANY deterministic step function on ANY state space: if the checkpoint round trip is
   the identity and the restart sets the counter to N+1, the run resumed from the checkpoint written
   at the end of iteration N visits exactly the states the uninterrupted run visits after N — same
   labels, same states, same number (total − N). *)
Theorem C17_resume_same_trajectory : forall (St : Type) (step : St -> St) (save_restore : St -> option St)
  total N s0 epoch restored,
  (forall s, save_restore s = Some s) -> N <= total ->
  save_restore (iter St step N s0) = Some restored -> epoch = S N ->
  resumed_run St step total epoch restored = skipn N (full_run St step total s0)
  /\ List.length (resumed_run St step total epoch restored) = total - N.
Proof. exact resume_same_trajectory_l. Qed.
Print Assumptions C17_resume_same_trajectory.

(* a loop that passes loop_ok restarts with counter N+1 after a checkpoint at the end of iteration N;
   one that restarts with N executes one iteration more than the uninterrupted run has left *)
Theorem C17_resume_epoch : forall L N, loop_ok L = true -> resume_epoch L N = (N + 1)%Z.
Proof. exact resume_epoch_ok. Qed.
Print Assumptions C17_resume_epoch.
Theorem C17_resume_off_by_one : forall (St : Type) (step : St -> St) total N s, N <= total -> 1 <= N ->
  List.length (resumed_run St step total N s) = S (total - N).
Proof. exact resume_off_by_one_l. Qed.
Print Assumptions C17_resume_off_by_one.

(* PARAMETERS.  When update_parameters copies "dtype" (and "nn") from the checkpoint entry, a
   parameter comes back with the dtype (and nn.Parameter flag) it was saved with, whatever the
   specification says; without the copy it does only when the specification states the dtype or
   torch.tensor infers it from the values. *)
Theorem C17_param_dtype : forall kept copied spec inferred saved,
  mem "dtype" copied = true -> restored_dtype kept copied spec inferred saved = saved.
Proof. exact restored_dtype_ok. Qed.
Print Assumptions C17_param_dtype.
Theorem C17_param_nn : forall kept copied spec saved,
  mem "nn" copied = true -> restored_nn kept copied spec saved = saved.
Proof. exact restored_nn_ok. Qed.
Print Assumptions C17_param_nn.
Theorem C17_param_dtype_partial : forall kept copied spec inferred saved,
  mem "dtype" kept = true -> (spec = Some saved \/ (spec = None /\ inferred = saved)) ->
  restored_dtype kept copied spec inferred saved = saved.
Proof. exact restored_dtype_weak. Qed.
Print Assumptions C17_param_dtype_partial.

(* ------------------------------ non-vacuity ------------------------------ *)
(* A three-level object tree (sampler > operator > integrator + adaptors matched by id) with a tensor,
   a Parameter object, a deque, a guarded entry: the executable model saves, goes through JSON and
   restores it exactly. *)
Definition ex_tables : list ctable :=
  [ mkTable "Sampler" [mkW "iteration" "_epoch" WDirect None; mkW "operators" "_operators" WChildren None]
      [mkR "operators" "_operators" RChildren (Some "_operators") []; mkR "iteration" "_epoch" RDirect None []]
      ["_epoch"] [] None;
    mkTable "Op" [mkW "id" "id" WId None; mkW "accept_window" "_w" WSeq None; mkW "mass_matrix" "_m" WDirect None;
                  mkW "integrator" "_i" WChild (Some "_i"); mkW "adaptors" "_a" WChildren (Some "_a")]
      [mkR "accept_window" "_w" RDeque None []; mkR "mass_matrix" "_m" RParam None [];
       mkR "integrator" "_i" RChild (Some "_i") []; mkR "adaptors" "_a" RChildren (Some "_a") []]
      ["_w"] [] None;
    mkTable "Int" [mkW "id" "id" WId None; mkW "step_size" "step_size" WDirect None]
      [mkR "step_size" "step_size" RDirect None []] [] [] None;
    mkTable "Ad" [mkW "id" "id" WId None; mkW "mean" "est._mean" WTolist None; mkW "n" "est.n" WDirect None]
      [mkR "n" "est.n" RDirect None []; mkR "mean" "est._mean" (RTensor "est._mean") None []]
      ["est._mean"; "est.n"] [] None;
    mkTable "Opt" [mkW "iteration" "_epoch" WDirect None; mkW "optimizer" "optimizer" (WExternal "torch_optimizer") None]
      [mkR "iteration" "_epoch" RDirect None []; mkR "optimizer" "optimizer" (RExternal "torch_optimizer") None ["state"]]
      ["_epoch"; "optimizer"] [] None;
    mkTable "OptRaw" [mkW "iteration" "_epoch" WDirect None; mkW "optimizer" "optimizer" (WExternal "torch_optimizer") None]
      [mkR "iteration" "_epoch" RDirect None []; mkR "optimizer" "optimizer" (RExternal "torch_optimizer") None []]
      ["_epoch"; "optimizer"] [] None ].

Definition ex_obj (epoch n : Z) (step mean : Z) (win : list pv) : pv :=
  PObj "Sampler" [("_epoch", PInt epoch);
    ("_operators", PList [PObj "Op" [("id", PStr "hmc"); ("_w", PList win);
        ("_m", PParam "mm" "torch.float64" false (PList [PFloat 7; PFloat 9]));
        ("_i", PObj "Int" [("id", PStr "lf"); ("step_size", PFloat step)]);
        ("_a", PList [PObj "Ad" [("id", PStr "a1"); ("est._mean", PTensor "torch.float32" false (PList [PFloat mean])); ("est.n", PInt n)];
                      PObj "Ad" [("id", PStr "a2"); ("est._mean", PTensor "torch.float32" false (PList [PFloat 0])); ("est.n", PInt 0)]])]])].

Example C17_example_tree :
  forallb keys_ok (firstn 5 ex_tables) = true
  /\ checkpoint_roundtrip 4 ex_tables (ex_obj 12 5 33 44 [PInt 1; PInt 0]) (ex_obj 1 0 10 0 [])
     = Some (ex_obj 12 5 33 44 [PInt 1; PInt 0]).
Proof. split; vm_compute; reflexivity. Qed.

(* torch.optim state with integer keys and a tuple: restored by the re-keying read, lost by the raw one *)
Definition ex_torch (m : Z) : pv :=
  PDict [(KStr "state", PDict [(KInt 0, PDict [(KStr "step", PTensor "torch.float32" false (PFloat 3));
                                              (KStr "exp_avg", PTensor "torch.float64" false (PList [PFloat m]))])]);
         (KStr "param_groups", PList [PDict [(KStr "lr", PFloat 5); (KStr "betas", PTuple [PFloat 1; PFloat 2]);
                                             (KStr "params", PList [PInt 0])]])].
Example C17_example_optimizer :
  checkpoint_roundtrip 2 ex_tables (PObj "Opt" [("_epoch", PInt 9); ("optimizer", ex_torch 8)])
                                   (PObj "Opt" [("_epoch", PInt 1); ("optimizer", ex_torch 0)])
  = Some (norm (PObj "Opt" [("_epoch", PInt 9); ("optimizer", ex_torch 8)]))
  /\ keys_ok (nth 5 ex_tables (mkTable "" [] [] [] [] None)) = false
  /\ checkpoint_roundtrip 2 ex_tables (PObj "OptRaw" [("_epoch", PInt 9); ("optimizer", ex_torch 8)])
                                      (PObj "OptRaw" [("_epoch", PInt 1); ("optimizer", ex_torch 0)])
     <> Some (norm (PObj "OptRaw" [("_epoch", PInt 9); ("optimizer", ex_torch 8)])).
Proof. split; [vm_compute; reflexivity|]. split; [vm_compute; reflexivity|]. vm_compute. discriminate. Qed.

(* the resumed run: step = successor on nat, 7 iterations, checkpoint after 3 *)
Example C17_example_resume :
  resumed_run nat S 7 4 (iter nat S 3 100) = skipn 3 (full_run nat S 7 100)
  /\ resumed_run nat S 7 4 (iter nat S 3 100) = [(4, 104); (5, 105); (6, 106); (7, 107)]
  /\ List.length (resumed_run nat S 7 3 (iter nat S 3 100)) = 5.
Proof. repeat split; vm_compute; reflexivity. Qed.

(* ============================== Part 2: the regenerated tables ============================== *)
(* Finite statements over gen/G_state.v, decided by computation (hence proved here, by vm_compute,
   and not by reference to a lemma: the proof IS the evaluation of the checker on today's tables). *)

(* PER CLASS, for every class with state_dict / load_state_dict in the anchored files: every key
   load_state_dict reads is written by state_dict, from the attribute it goes back to, with the
   inverse decoding (for torch objects: with the integer keys restored) and under the same guard;
   every key written (other than the id) is read back; no key or attribute is used twice. *)
Theorem C17_keys_read_written_restored : forall t, In t all_tables -> keys_ok t = true.
Proof. apply forallb_forall. vm_compute. reflexivity. Qed.
Print Assumptions C17_keys_read_written_restored.

(* PER CLASS: every attribute the class assigns or mutates while running (outside construction and
   (de)serialisation) is restored by its load_state_dict, or belongs to an object that is
   checkpointed by its owner (listed, with the reason, in gen/G_state.v). *)
Theorem C17_mutated_fields_restored : forall t, In t all_tables -> fields_ok t = true.
Proof. apply forallb_forall. vm_compute. reflexivity. Qed.
Print Assumptions C17_mutated_fields_restored.

(* EVERY RUN LOOP (Optimizer._run, Optimizer._run_closure, MCMC.run): a checkpoint written at the end
   of iteration N makes the restarted loop begin at N+1, and the checkpoint block fires when N is a
   multiple of the frequency. *)
Theorem C17_loops_resume_at_next_iteration : forall L, In L all_loops -> loop_ok L = true /\ cond_ok L = true.
Proof.
  assert (H : forallb (fun L => loop_ok L && cond_ok L) all_loops = true) by (vm_compute; reflexivity).
  intros L HL. rewrite forallb_forall in H. specialize (H L HL). now apply andb_true_iff in H.
Qed.
Print Assumptions C17_loops_resume_at_next_iteration.

(* update_parameters injects the saved tensor together with its dtype and nn flag; ParameterEncoder
   writes them. *)
Theorem C17_parameters_keep_dtype : params_ok upd_kept upd_copied penc_keys = true.
Proof. vm_compute. reflexivity. Qed.
Print Assumptions C17_parameters_keep_dtype.
