From Coq Require Import String List ZArith Bool.
Import ListNotations.
From TT Require Import M_config G_cliclasses P_config.
Theorem C19_placeholder : True. Proof. exact placeholder. Qed.
Print Assumptions C19_placeholder.
