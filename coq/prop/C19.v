(* C19 — every configuration the CLI emits is runnable and targets the right density.

   What is proved here is the correctness of the two CHECKERS that the harness then runs (by
   vm_compute) on every configuration emitted by the real torchtree-cli over the option space:

     wf_config registered j      ids unique at any depth, every class registered and known to the
                                 schema, every reference resolves to a definition completed EARLIER
                                 in the loader's processing order, no identified object in a
                                 position the loader ignores;
     check_jacobians j           the Jacobian terms listed in the density handed to the sampler /
                                 optimiser are: every transformed parameter (or ratio-parameterised
                                 tree) that lies between a moved parameter and a prior's random
                                 variable, each once; possibly (at most once) transforms of
                                 parameters on which no prior at all is placed; nothing else.

   The model (which keys each class processes and in which order; which key holds the random
   variable of each density class) is in model/M_config.v; it is tied to the implementation on
   every run by comparing [config_events] with the registry operations of the real loader and
   target() - joint() with independently computed log-determinants.  That the emitted objects
   construct, and that density and gradient are finite, is observed per configuration (an
   execution fact, not a theorem).  Proofs: proof/P_config.v. *)
From Coq Require Import String List ZArith Bool Permutation Reals.
Import ListNotations.
From TT Require Import M_config G_cliclasses P_config.
Open Scope string_scope.

(* The recursive loader (process_object / process_objects with its registry of completed ids) is
   the left-to-right run of the flattened list of registry operations — the list the harness
   compares with the real loader's. *)
Theorem C19_loader_is_run_of_events : forall s reg, load s reg = run (events s) reg.
Proof. exact load_events. Qed.
Print Assumptions C19_loader_is_run_of_events.

(* wf_config_sound: a configuration accepted by the checker is accepted by the abstract loader:
   no dangling reference, no duplicate id, no unknown class, whatever the nesting. *)
Theorem C19_wf_config_sound : forall registered j,
  wf_config registered j = true -> exists reg, load (sk_of registered j) [] = Ok reg.
Proof. exact wf_config_sound_l. Qed.
Print Assumptions C19_wf_config_sound.

(* ... and then all identified objects of the configuration, loggers and samplers included, have
   been constructed and registered, every id exactly once. *)
Theorem C19_wf_config_constructs_all : forall registered j,
  wf_config registered j = true ->
  exists reg, load (sk_of registered j) [] = Ok reg /\
              NoDup (all_ids j) /\ forall i, In i (all_ids j) -> In i reg.
Proof. exact wf_config_constructs_l. Qed.
Print Assumptions C19_wf_config_constructs_all.

(* The loader does fail on what the checker looks for. *)
Theorem C19_loader_rejects_dangling : forall r reg, ~ In r reg -> load (SRef r) reg = Err (Dangling r).
Proof. exact load_dangling. Qed.
Print Assumptions C19_loader_rejects_dangling.

Theorem C19_loader_rejects_duplicate : forall id body reg,
  In id reg -> load (SDef id body) reg = Err (Duplicate id).
Proof. exact load_duplicate. Qed.
Print Assumptions C19_loader_rejects_duplicate.

(* jacobian_exactly_once: logdet t = log|det J_t| at the current point (abstract), joint = value of
   the constrained joint density.  If the checker accepts, the density handed to the sampler /
   optimiser (joint + the listed terms) equals joint + the log-determinant of EVERY transform that
   needs one, each counted exactly once, + those of a duplicate-free set of transforms that all
   belong to [optional_jacobian j] (parameters without any prior: scale left to convention);
   no listed term occurs twice; every listed term is needed or optional. *)
Theorem C19_jacobian_exactly_once : forall (logdet : string -> R) (joint : R) j ts,
  targets j <> [] ->
  jacobian_terms j = Some ts ->
  check_jacobians j = true ->
  let needs := needs_jacobian j in
  let extra := extras ts needs in
  (handed logdet joint ts = joint + rsum (map logdet needs) + rsum (map logdet extra))%R
  /\ (forall t, In t needs -> count_occ string_dec ts t = 1%nat)
  /\ (forall t, (count_occ string_dec ts t <= 1)%nat)
  /\ (forall t, In t ts -> In t needs \/ In t (optional_jacobian j))
  /\ NoDup needs /\ NoDup extra /\ incl extra (optional_jacobian j)
  /\ (forall t, In t extra -> ~ In t needs).
Proof. exact jacobian_exactly_once_l. Qed.
Print Assumptions C19_jacobian_exactly_once.

(* Full strength, as the property states it: when every moved transformed parameter carries a prior
   the handed density is exactly joint + sum over the constraining transforms with a prior. *)
Theorem C19_jacobian_exact : forall (logdet : string -> R) (joint : R) j ts,
  targets j <> [] ->
  jacobian_terms j = Some ts ->
  check_jacobians j = true ->
  optional_jacobian j = [] ->
  (handed logdet joint ts = joint + rsum (map logdet (needs_jacobian j)))%R /\
  Permutation ts (needs_jacobian j).
Proof. exact jacobian_exact_l. Qed.
Print Assumptions C19_jacobian_exact.

(* The checker rejects a missing term, a repeated term, a term that is neither needed nor optional. *)
Theorem C19_checker_rejects_missing : forall terms needs optional t,
  In t needs -> ~ In t terms -> check_terms terms needs optional = false.
Proof. exact check_terms_missing. Qed.
Print Assumptions C19_checker_rejects_missing.

Theorem C19_checker_rejects_repeated : forall terms needs optional,
  ~ NoDup terms -> check_terms terms needs optional = false.
Proof. exact check_terms_repeated. Qed.
Print Assumptions C19_checker_rejects_repeated.

Theorem C19_checker_rejects_foreign : forall terms needs optional t,
  In t terms -> ~ In t needs -> ~ In t optional -> check_terms terms needs optional = false.
Proof. exact check_terms_foreign. Qed.
Print Assumptions C19_checker_rejects_foreign.

(* ---------------------------------------------------------------- non-vacuity *)

Definition ex_obj (id ty : string) (rest : list (string * json)) : json :=
  JObj (("id", JStr id) :: ("type", JStr ty) :: rest).

(* a positive rate (Exp of an unconstrained parameter) with an exponential prior, an unconstrained
   location with a normal prior, sampled by MCMC on the unconstrained parameters *)
Definition ex_config (listed : list json) (first : json) : json :=
  JArr [
    first;
    ex_obj "joint" "JointDistributionModel" [("distributions", JArr [
      ex_obj "rate.prior" "Distribution" [
        ("distribution", JStr "torch.distributions.Exponential");
        ("x", ex_obj "rate" "TransformedParameter" [
           ("transform", JStr "torch.distributions.ExpTransform");
           ("x", ex_obj "rate.unres" "Parameter" [("tensor", JArr [JNum None])])]);
        ("parameters", JObj [("rate", JNum (Some 1%Z))])];
      ex_obj "loc.prior" "Distribution" [
        ("distribution", JStr "torch.distributions.Normal");
        ("x", JStr "loc");
        ("parameters", JObj [("loc", JNum (Some 0%Z)); ("scale", JNum (Some 1%Z))])]])];
    ex_obj "joint.jacobian" "JointDistributionModel" [("distributions", JArr (JStr "joint" :: listed))];
    ex_obj "mcmc" "MCMC" [
      ("joint", JStr "joint.jacobian"); ("iterations", JNum (Some 10%Z));
      ("operators", JArr [
         ex_obj "op1" "SlidingWindowOperator" [("parameters", JStr "rate.unres")];
         ex_obj "op2" "SlidingWindowOperator" [("parameters", JStr "loc")]]);
      ("loggers", JArr [ex_obj "logger" "Logger" [("parameters", JArr [JStr "joint"; JStr "rate"])]])]
  ].

Definition ex_loc : json := ex_obj "loc" "Parameter" [("tensor", JArr [JNum (Some 0%Z)])].

Example C19_example_good :
  wf_config registered_classes (ex_config [JStr "rate"] ex_loc) = true /\
  check_jacobians (ex_config [JStr "rate"] ex_loc) = true /\
  needs_jacobian (ex_config [JStr "rate"] ex_loc) = ["rate"] /\
  optional_jacobian (ex_config [JStr "rate"] ex_loc) = [] /\
  moved (ex_config [JStr "rate"] ex_loc) = ["rate.unres"; "loc"] /\
  List.length (config_events registered_classes (ex_config [JStr "rate"] ex_loc)) = 30%nat.
Proof. vm_compute. repeat split; reflexivity. Qed.

(* dropping the Jacobian term, listing it twice, listing something that has no business there *)
Example C19_example_bad_jacobians :
  check_jacobians (ex_config [] ex_loc) = false /\
  check_jacobians (ex_config [JStr "rate"; JStr "rate"] ex_loc) = false /\
  check_jacobians (ex_config [JStr "rate"; JStr "loc"] ex_loc) = false.
Proof. vm_compute. repeat split; reflexivity. Qed.

(* `loc' referenced by its prior but defined nowhere; defined twice; the logger placed before joint *)
Example C19_example_bad_references :
  wf_config registered_classes (ex_config [JStr "rate"] JNull) = false /\
  load (sk_of registered_classes (ex_config [JStr "rate"] JNull)) [] = Err (Dangling "loc") /\
  wf_config registered_classes (ex_config [JStr "rate"] (JArr [ex_loc; ex_loc])) = false /\
  load (sk_of registered_classes (ex_config [JStr "rate"] (JArr [ex_loc; ex_loc]))) [] = Err (Duplicate "loc") /\
  wf_config registered_classes
    (ex_config [JStr "rate"] (JArr [ex_loc; ex_obj "early" "Logger" [("parameters", JArr [JStr "joint"])]])) = false.
Proof. vm_compute. repeat split; reflexivity. Qed.
