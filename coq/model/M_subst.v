(* Substitution models (torchtree/evolution/substitution_model/*.py): rate-matrix builders,
   normalisation, spectral and closed-form transition matrices, and an independent
   scaling-and-squaring Taylor evaluation of exp(Qt).  One polymorphic term per component,
   theorems at NumR (proof/P_subst.v), runs at NumI (harness/props/c04.py).
   Matrices are lists of rows.  Executable definitions only - no proofs here. *)
From Coq Require Import QArith List Arith.
Import ListNotations.
From TT Require Import Num Tree.

Section Subst.
Context {T : Type} (N : Num T).

Definition mk_mat (n : nat) (f : nat -> nat -> T) : list (list T) :=
  map (fun i => map (f i) (seq 0%nat n)) (seq 0%nat n).
Definition vget (v : list T) (i : nat) : T := lk v i (zero N).
Definition mget (A : list (list T)) (i j : nat) : T := lk (lk A i []) j (zero N).
Definition sum_n (n : nat) (f : nat -> T) : T := nsum N (map f (seq 0%nat n)).

(* ---- rate matrices from exchangeabilities r(i,j) and frequencies:
        Q = R @ diag(pi);  Q[i,i] = -sum_j Q[i,j]   (R has a zero diagonal)  *)
Definition q_entry (n : nat) (r : nat -> nat -> T) (pi : list T) (i j : nat) : T :=
  if Nat.eqb i j
  then opp N (sum_n n (fun k => if Nat.eqb k i then zero N else mul N (r i k) (vget pi k)))
  else mul N (r i j) (vget pi j).
Definition q_of_R (n : nat) (r : nat -> nat -> T) (pi : list T) : list (list T) :=
  mk_mat n (q_entry n r pi).

(* position of (i,j), i<j, in torch.triu_indices(n, n, 1): row-major upper triangle *)
Fixpoint triu_off (n i : nat) : nat :=
  match i with O => O | S i' => (triu_off n i' + nsub n (S i'))%nat end.
Definition triu_idx (n i j : nat) : nat := (triu_off n i + nsub j (S i))%nat.

(* GeneralSymmetricSubstitutionModel.q: R[i,j] = R[j,i] = rates[mapping[p(i,j)]] *)
Definition r_sym (n : nat) (rates : list T) (mapping : list nat) (i j : nat) : T :=
  if Nat.ltb i j then vget rates (lk mapping (triu_idx n i j) O)
  else if Nat.ltb j i then vget rates (lk mapping (triu_idx n j i) O)
  else zero N.
Definition q_sym n rates mapping pi := q_of_R n (r_sym n rates mapping) pi.

(* GeneralNonSymmetricSubstitutionModel.q: first half of the mapping fills the upper triangle,
   second half the lower triangle *)
Definition r_nonsym (n : nat) (rates : list T) (mapping : list nat) (i j : nat) : T :=
  let dim := Nat.div2 (length mapping) in
  if Nat.ltb i j then vget rates (lk mapping (triu_idx n i j) O)
  else if Nat.ltb j i then vget rates (lk mapping (dim + triu_idx n j i)%nat O)
  else zero N.
Definition q_nonsym n rates mapping pi := q_of_R n (r_nonsym n rates mapping) pi.

(* EmpiricalSubstitutionModel.create_rate_matrix (LG, WAG): rates listed along the upper triangle *)
Definition r_emp (n : nat) (rates : list T) (i j : nat) : T :=
  if Nat.ltb i j then vget rates (triu_idx n i j)
  else if Nat.ltb j i then vget rates (triu_idx n j i)
  else zero N.
Definition q_emp n rates pi := q_of_R n (r_emp n rates) pi.

(* ---- MG94 (codon.py).  [table]: the genetic code (character codes of the 64 amino-acid /
   stop symbols), [triplets]: the 64 codons (three character codes each), both regenerated from
   datatype.py.  Codon pairs differing at exactly one position are classified transition /
   synonymous / non-synonymous; every other pair keeps the factor one (as the code does). *)
Definition stop_code : nat := 42%nat.   (* '*' *)
Fixpoint coding {A} (table : list nat) (xs : list A) : list A :=
  match table, xs with
  | a :: table', x :: xs' => if Nat.eqb a stop_code then coding table' xs' else x :: coding table' xs'
  | _, _ => []
  end.
Fixpoint ndiff (c1 c2 : list nat) : nat :=
  match c1, c2 with
  | a :: r1, b :: r2 => ((if Nat.eqb a b then 0 else 1) + ndiff r1 r2)%nat
  | _, _ => 0%nat
  end.
(* the first differing pair of characters *)
Fixpoint first_diff (c1 c2 : list nat) : nat * nat :=
  match c1, c2 with
  | a :: r1, b :: r2 => if Nat.eqb a b then first_diff r1 r2 else (a, b)
  | _, _ => (0%nat, 0%nat)
  end.
Definition is_transition (ab : nat * nat) : bool :=
  match ab with
  | (a, b) => (Nat.eqb a 65%nat && Nat.eqb b 71%nat) || (Nat.eqb a 71%nat && Nat.eqb b 65%nat) ||
              (Nat.eqb a 67%nat && Nat.eqb b 84%nat) || (Nat.eqb a 84%nat && Nat.eqb b 67%nat)
  end%bool.
(* factor of the pair (i,j) of coding codons *)
Definition mg94_factor (trip : list (list nat)) (aa : list nat) (kappa alpha beta : T) (i j : nat) : T :=
  let c1 := lk trip i [] in
  let c2 := lk trip j [] in
  if Nat.eqb (ndiff c1 c2) 1%nat then
    mul N (mul N (if is_transition (first_diff c1 c2) then kappa else one N)
                 (if Nat.eqb (lk aa i O) (lk aa j O) then alpha else one N))
          (if Nat.eqb (lk aa i O) (lk aa j O) then one N else beta)
  else mul N (mul N (one N) (one N)) (one N).
Definition r_mg94 (table : list nat) (triplets : list (list nat)) (kappa alpha beta : T) (i j : nat) : T :=
  let trip := coding table triplets in
  let aa := coding table table in
  if Nat.ltb i j then mg94_factor trip aa kappa alpha beta i j
  else if Nat.ltb j i then mg94_factor trip aa kappa alpha beta j i
  else zero N.
Definition mg94_states (table : list nat) : nat := length (coding table table).
Definition q_mg94 table triplets kappa alpha beta pi :=
  q_of_R (mg94_states table) (r_mg94 table triplets kappa alpha beta) pi.

(* ---- normalisation: AbstractSubstitutionModel.norm and Q / norm *)
Definition norm (n : nat) (Q : list (list T)) (pi : list T) : T :=
  opp N (sum_n n (fun i => mul N (mget Q i i) (vget pi i))).
Definition mdiv (Q : list (list T)) (c : T) : list (list T) := map (map (fun x => div N x c)) Q.
Definition normalised n Q pi := mdiv Q (norm n Q pi).

(* ---- matrix algebra *)
Fixpoint vadd (a b : list T) : list T :=
  match a, b with x :: a', y :: b' => add N x y :: vadd a' b' | _, _ => [] end.
Fixpoint vmul (a b : list T) : list T :=
  match a, b with x :: a', y :: b' => mul N x y :: vmul a' b' | _, _ => [] end.
Definition vscale (c : T) (v : list T) : list T := map (mul N c) v.
(* row vector times matrix = linear combination of the rows of B *)
Fixpoint vec_mat (n : nat) (row : list T) (B : list (list T)) : list T :=
  match row, B with
  | a :: row', b :: B' => vadd (vscale a b) (vec_mat n row' B')
  | _, _ => repeat (zero N) n
  end.
Definition mmul (n : nat) (A B : list (list T)) : list (list T) := map (fun row => vec_mat n row B) A.
Definition mident (n : nat) : list (list T) := mk_mat n (fun i j => if Nat.eqb i j then one N else zero N).
Fixpoint madd (A B : list (list T)) : list (list T) :=
  match A, B with a :: A', b :: B' => vadd a b :: madd A' B' | _, _ => [] end.

(* ---- spectral form  P(t) = A . diag(exp(lambda_k t)) . B   (SymmetricSubstitutionModel.p_t with
   A = sqrt_pi_inv @ v, B = v.inverse() @ sqrt_pi; EmpiricalSubstitutionModel.p_t) *)
Definition p_spectral (n : nat) (A : list (list T)) (lam : list T) (B : list (list T)) (t : T) :=
  mmul n (map (fun row => vmul row (map (fun l => nexp N (mul N l t)) lam)) A) B.
(* the symmetrised matrix S = sqrt(pi) Q sqrt(pi)^-1 and the factors built from its eigenvectors *)
Definition symmetrised (n : nat) (Q : list (list T)) (pi : list T) : list (list T) :=
  mk_mat n (fun i j => div N (mul N (nsqrt N (vget pi i)) (mget Q i j)) (nsqrt N (vget pi j))).
Definition spectral_A (n : nat) (V : list (list T)) (pi : list T) : list (list T) :=
  mk_mat n (fun i k => div N (mget V i k) (nsqrt N (vget pi i))).
Definition spectral_B (n : nat) (W : list (list T)) (pi : list T) : list (list T) :=
  mk_mat n (fun k j => mul N (mget W k j) (nsqrt N (vget pi j))).

(* ---- independent evaluation of exp(Q t): scaling and squaring of the Taylor polynomial.
   exp(Qt) = (sum_{k<=K} (Qt/2^s)^k / k!)^(2^s), Horner form. *)
Fixpoint halve (s : nat) (x : T) : T :=
  match s with O => x | S s' => halve s' (mul N x (ofQ N (1 # 2))) end.
Fixpoint horner (n : nat) (A : list (list T)) (m k : nat) : list (list T) :=
  match m with
  | O => mident n
  | S m' => madd (mident n) (mdiv (mmul n A (horner n A m' (S k))) (ofNat N k))
  end.
Fixpoint square_iter (n s : nat) (M : list (list T)) : list (list T) :=
  match s with O => M | S s' => square_iter n s' (mmul n M M) end.
Definition p_taylor (n : nat) (Q : list (list T)) (t : T) (s K : nat) : list (list T) :=
  let ts := halve s t in
  square_iter n s (horner n (map (map (fun x => mul N x ts)) Q) K 1%nat).

(* ---- generic Jukes-Cantor shape: one value on the diagonal, one off it *)
Definition diag_off (n : nat) (a b : T) : list (list T) :=
  mk_mat n (fun i j => if Nat.eqb i j then a else b).

End Subst.
