(* Among-site rate models (site_model.py): Constant, Invariant, Weibull(K) [+ invariant] [* mu].
   One polymorphic term, run at NumI, theorems at NumR. *)
From Coq Require Import QArith List.
Import ListNotations.
From TT Require Import Num.

Section Site.
Context {T : Type} (N : Num T).

Definition scale_opt (mu : option T) (l : list T) : list T :=
  match mu with None => l | Some m => map (fun r => mul N r m) l end.

(* ConstantSiteModel *)
Definition constant_rates (mu : option T) : list T :=
  match mu with None => [one N] | Some m => [m] end.
Definition constant_probs : list T := [one N].

(* InvariantSiteModel.update_rates_probs *)
Definition invariant_probs (p : T) : list T := [p; sub N (one N) p].
Definition invariant_rates (p : T) (mu : option T) : list T :=
  scale_opt mu [zero N; div N (one N) (sub N (one N) p)].

(* quantile points (2k+1)/(2K), k = 0..K-1 *)
Fixpoint quantiles_from (K : nat) (k n : nat) : list Q :=
  match n with
  | O => []
  | S n' => ((2 * Z.of_nat k + 1) # Pos.of_nat (2 * K)) :: quantiles_from K (S k) n'
  end.
Definition quantiles (K : nat) : list Q := quantiles_from K 0 K.

(* WeibullSiteModel.inverse_cdf on one quantile:  (-ln(1-u))^(1/shape) = exp(ln(-ln(1-u)) / shape) *)
Definition weibull_q (shape : T) (u : Q) : T :=
  nexp N (mul N (div N (one N) shape) (nln N (opp N (nln N (sub N (one N) (ofQ N u)))))).

Definition weibull_raw (shape : T) (K : nat) (inv : option T) : list T :=
  let r := map (weibull_q shape) (quantiles K) in
  match inv with None => r | Some _ => zero N :: r end.

(* probabilities: full(1/K), or cat(inv, (1-inv)/K expanded) *)
Definition disc_probs (K : nat) (inv : option T) : list T :=
  match inv with
  | None => repeat (div N (one N) (ofNat N K)) K
  | Some p => p :: repeat (div N (sub N (one N) p) (ofNat N K)) K
  end.

(* UnivariateDiscretizedSiteModel.update_rates: rates / sum(rates*probs) [* mu] *)
Definition normalise (raw probs : list T) (mu : option T) : list T :=
  let m := ndot N raw probs in
  scale_opt mu (map (fun r => div N r m) raw).

Definition weibull_rates (shape : T) (K : nat) (inv mu : option T) : list T :=
  normalise (weibull_raw shape K inv) (disc_probs K inv) mu.

End Site.
