(* Gaussian Markov random field priors (torchtree/distributions/gmrf.py: GMRF._call,
   GMRF.precision_matrix; gmrf_integrated.py: GMRFGammaIntegrated) and the integrated constant
   coalescent closed form (coalescent.py: ConstantCoalescentIntegrated.log_prob, given the
   statistic S = sum C(k,2) dt and the number of coalescent events).
   One polymorphic term per quantity; control flow only on exact data (nat, bool, Q keys).
   Executable definitions only, no proofs.

   Constants that are not Num operations enter as arguments:
     ln2pi           the value used for ln(2 pi)   (the code: literal 1.8378770664093453 in gmrf.py,
                     math.log(2.0 * math.pi) in gmrf_integrated.py)
     lg_a, lg_a'     the values math.lgamma returns at alpha and at alpha + d/2 (alpha + m) *)
From Coq Require Import QArith ZArith List Arith.
Import ListNotations.
From TT Require Import Num Tree.
Local Close Scope Q_scope.
Local Open Scope nat_scope.

(* exact sort of the node heights (torch.argsort on the time-aware path); keys are exact *)
Fixpoint insert_q (q : Q) (l : list Q) : list Q :=
  match l with
  | [] => [q]
  | x :: r => if Qle_bool q x then q :: x :: r else x :: insert_q q r
  end.
Fixpoint sort_q (l : list Q) : list Q :=
  match l with [] => [] | q :: r => insert_q q (sort_q r) end.

Section Gmrf.
Context {T : Type} (N : Num T).

Definition two : T := ofQ N (2#1).
Definition sq (a : T) : T := mul N a a.                       (* torch.pow(., 2.0) *)

(* field[..., :-1] - field[..., 1:], squared *)
Fixpoint sqdiffs_from (a : T) (r : list T) : list T :=
  match r with [] => [] | b :: s => sq (sub N a b) :: sqdiffs_from b s end.
Definition sqdiffs (x : list T) : list T :=
  match x with [] => [] | a :: r => sqdiffs_from a r end.

Fixpoint zipw (f : T -> T -> T) (a b : list T) : list T :=
  match a, b with x :: r, y :: s => f x y :: zipw f r s | _, _ => [] end.

(* consecutive differences h[1:] - h[:-1] and means (d[:-1] + d[1:]) / 2 *)
Fixpoint diffs_from (a : T) (r : list T) : list T :=
  match r with [] => [] | b :: s => sub N b a :: diffs_from b s end.
Definition diffs (h : list T) : list T := match h with [] => [] | a :: r => diffs_from a r end.
Fixpoint means_from (a : T) (r : list T) : list T :=
  match r with [] => [] | b :: s => div N (add N a b) two :: means_from b s end.
Definition means (d : list T) : list T := match d with [] => [] | a :: r => means_from a r end.
Fixpoint last_or (l : list T) (d : T) : T :=
  match l with [] => d | x :: r => last_or r x end.

(* the three variants of the smoothing prior *)
Inductive variant :=
| Plain
| Weighted (w : list T)                          (* diff_square /= weights *)
| TimeAware (heights : list Q) (rescale : bool). (* internal node heights of the tree model *)

(* heights_sorted of cat(0, internal heights) *)
Definition heights_sorted (heights : list Q) : list T := map (ofQ N) (sort_q (0%Q :: heights)).
Definition ta_weights (heights : list Q) : list T := means (diffs (heights_sorted heights)).
Definition ta_root (heights : list Q) : T := last_or (heights_sorted heights) (zero N).

(* the weighted squared differences exactly in the order of operations of GMRF._call *)
Definition wsqdiffs (v : variant) (x : list T) : list T :=
  match v with
  | Plain => sqdiffs x
  | Weighted w => zipw (div N) (sqdiffs x) w
  | TimeAware h rescale =>
      let ds := zipw (div N) (sqdiffs x) (ta_weights h) in
      if rescale then map (fun v => mul N v (ta_root h)) ds else ds
  end.

Definition fdim (x : list T) : nat := length (sqdiffs x).     (* field.shape[-1] - 1 *)

(* precision.log() * dim / 2 - sum(diff_square) * precision / 2 - dim / 2 * ln2pi *)
Definition gmrf_value (ln2pi : T) (d : nat) (S tau : T) : T :=
  sub N (sub N (div N (mul N (nln N tau) (ofNat N d)) two) (div N (mul N S tau) two))
        (mul N (div N (ofNat N d) two) ln2pi).
Definition gmrf (ln2pi : T) (v : variant) (x : list T) (tau : T) : T :=
  gmrf_value ln2pi (fdim x) (nsum N (wsqdiffs v x)) tau.

(* ---- matrices as lists of rows; quadratic forms ---- *)
Definition matvec (M : list (list T)) (x : list T) : list T := map (fun row => ndot N row x) M.
Definition quad (M : list (list T)) (x : list T) : T := ndot N x (matvec M x).

Fixpoint zipcons (c : list T) (M : list (list T)) : list (list T) :=
  match c, M with a :: r, row :: s => (a :: row) :: zipcons r s | _, _ => [] end.
Definition unitrow (o : T) (n : nat) : list T :=
  match n with O => [] | S k => o :: repeat (zero N) k end.
(* dense symmetric tridiagonal matrix with the given diagonal and off-diagonal *)
Fixpoint tri_dense (diag off : list T) {struct diag} : list (list T) :=
  match diag with
  | [] => []
  | d :: ds =>
      match off with
      | [] => [[d]]
      | o :: os => let c := unitrow o (length ds) in (d :: c) :: zipcons c (tri_dense ds os)
      end
  end.

(* what precision_matrix() computes: diagonal tau, 2 tau, ..., 2 tau, tau; off-diagonal -tau *)
Definition pm_plain_diag (tau : T) (n : nat) : list T :=
  match n with
  | O => []
  | S O => [tau]
  | S (S k) => tau :: repeat (mul N two tau) k ++ [tau]
  end.
Definition pm_plain_off (tau : T) (n : nat) : list T :=
  match n with O => [] | S k => repeat (opp N tau) k end.
Definition precision_matrix_plain (tau : T) (n : nat) : list (list T) :=
  tri_dense (pm_plain_diag tau n) (pm_plain_off tau n).

(* the precision matrix of the density the variant defines: tau * D^T W^-1 D, with the inverse
   weights m_i (1 / w_i; time-aware: 1 / mean duration [* root height]) *)
Definition inv_weights (v : variant) (d : nat) : list T :=
  match v with
  | Plain => repeat (one N) d
  | Weighted w => map (fun wi => div N (one N) wi) (firstn d w)
  | TimeAware h rescale =>
      let ms := map (fun wi => div N (one N) wi) (firstn d (ta_weights h)) in
      if rescale then map (fun m => mul N m (ta_root h)) ms else ms
  end.
Fixpoint wdiag_from (tau prev : T) (iw : list T) : list T :=
  match iw with
  | [] => [mul N tau prev]
  | m :: r => mul N tau (add N prev m) :: wdiag_from tau m r
  end.
Definition woff (tau : T) (iw : list T) : list T := map (fun m => opp N (mul N tau m)) iw.
Definition precision_matrix_w (tau : T) (iw : list T) : list (list T) :=
  tri_dense (wdiag_from tau (zero N) iw) (woff tau iw).

(* the matrix the model publishes for a field of length n: as the code computes it for the plain
   variant, tau D^T W^-1 D for the weighted and time-aware ones (the code returns the plain matrix
   there: known finding) *)
Definition precision_matrix (v : variant) (tau : T) (n : nat) : list (list T) :=
  match v with
  | Plain => precision_matrix_plain tau n
  | _ => precision_matrix_w tau (inv_weights v (Nat.pred n))
  end.

(* Gaussian form with a precision matrix Q (tau included): -1/2 x'Qx + d/2 ln tau - d/2 ln 2pi *)
Definition gauss_form (ln2pi : T) (d : nat) (Q : list (list T)) (x : list T) (tau : T) : T :=
  sub N (sub N (div N (mul N (nln N tau) (ofNat N d)) two) (div N (quad Q x) two))
        (mul N (div N (ofNat N d) two) ln2pi).

(* ---- GMRFGammaIntegrated:
   constant_term = -dim/2 ln2pi + shape ln(rate) - lgamma(shape) + lgamma(shape + dim/2)
   value = constant_term - (shape + dim/2) ln(sum/2 + rate) ---- *)
Definition half_dim (d : nat) : T := div N (ofNat N d) two.
Definition gmrf_integrated_value (ln2pi alpha beta lg_a lg_a' : T) (d : nat) (S : T) : T :=
  let ct := add N (sub N (add N (mul N (opp N (half_dim d)) ln2pi) (mul N alpha (nln N beta))) lg_a) lg_a' in
  sub N ct (mul N (add N alpha (half_dim d)) (nln N (add N (div N S two) beta))).
Definition gmrf_integrated (ln2pi alpha beta lg_a lg_a' : T) (v : variant) (x : list T) : T :=
  gmrf_integrated_value ln2pi alpha beta lg_a lg_a' (fdim x) (nsum N (wsqdiffs v x)).

(* Gamma(shape alpha, rate beta) log density at tau:
   alpha ln beta - lgamma(alpha) + (alpha - 1) ln tau - beta tau *)
Definition gamma_logpdf (alpha beta lg_a tau : T) : T :=
  sub N (add N (sub N (mul N alpha (nln N beta)) lg_a) (mul N (sub N alpha (one N)) (nln N tau)))
        (mul N beta tau).

(* ---- ConstantCoalescentIntegrated.log_prob given S = sum C(k,2) dt and m coalescent events:
   alpha ln beta - lgamma(alpha) + lgamma(alpha + m) - (alpha + m) ln(beta + S) ---- *)
Definition const_integrated_value (alpha beta lg_a lg_am : T) (m : nat) (S : T) : T :=
  sub N (add N (sub N (mul N alpha (nln N beta)) lg_a) lg_am)
        (mul N (add N alpha (ofNat N m)) (nln N (add N beta S))).
(* InverseGamma(shape alpha, rate beta) log density at theta:
   alpha ln beta - lgamma(alpha) - (alpha + 1) ln theta - beta / theta *)
Definition invgamma_logpdf (alpha beta lg_a theta : T) : T :=
  sub N (sub N (sub N (mul N alpha (nln N beta)) lg_a) (mul N (add N alpha (one N)) (nln N theta)))
        (div N beta theta).
(* ConstantCoalescent.log_prob given S and m: -S/theta - m ln theta *)
Definition const_value (m : nat) (S theta : T) : T :=
  sub N (opp N (div N S theta)) (mul N (ofNat N m) (nln N theta)).

(* ln(2 pi) from a value of pi (the interval run uses Interval's enclosure of pi) *)
Definition ln2pi_of (pi : T) : T := nln N (mul N two pi).

(* ---- entry points on exact inputs (what the correspondence runs) ---- *)
Inductive qvariant := QPlain | QWeighted (w : list Q) | QTimeAware (heights : list Q) (rescale : bool).
Definition variant_q (v : qvariant) : variant :=
  match v with
  | QPlain => Plain
  | QWeighted w => Weighted (map (ofQ N) w)
  | QTimeAware h r => TimeAware h r
  end.
Definition gmrf_q (ln2pi : T) (v : qvariant) (x : list Q) (tau : Q) : T :=
  gmrf ln2pi (variant_q v) (map (ofQ N) x) (ofQ N tau).
Definition precision_matrix_q (v : qvariant) (tau : Q) (n : nat) : list T :=
  concat (precision_matrix (variant_q v) (ofQ N tau) n).
Definition gmrf_integrated_q (ln2pi : T) (alpha beta : Q) (lg_a lg_a' : T) (v : qvariant) (x : list Q) : T :=
  gmrf_integrated ln2pi (ofQ N alpha) (ofQ N beta) lg_a lg_a' (variant_q v) (map (ofQ N) x).
(* -2 (GMRF - d/2 ln tau + d/2 ln2pi) and x'Qx with the published matrix, side by side *)
Definition quad_published_q (v : qvariant) (x : list Q) (tau : Q) : T :=
  quad (precision_matrix (variant_q v) (ofQ N tau) (length x)) (map (ofQ N) x).

End Gmrf.
