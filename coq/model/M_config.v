(* C19 — model of a torchtree JSON configuration as emitted by torchtree-cli.

   Executable definitions only (no proofs): JSON terms, the abstract loader (process_objects with
   its registry of ids), the static well-formedness checker [wf_config], and the Jacobian
   bookkeeping ([jacobian_terms], [needs_jacobian], [optional_jacobian], [check_jacobians]).

   The per-class schema (which keys of an object of a given "type" hold sub-objects / references,
   in the order the class' from_json processes them) is validated on every run against the real
   loader: the harness records every registry operation of torchtree.core.utils.process_object(s)
   on the emitted JSON and compares it with [events] below.  The set of registered class names is
   regenerated from the source tree (gen/G_cliclasses.v). *)
From Coq Require Import String List ZArith Bool Ascii Arith.
Import ListNotations.
Open Scope string_scope.
Open Scope list_scope.

(* ------------------------------------------------------------------ JSON terms *)

Inductive json : Type :=
| JNull
| JBool (b : bool)
| JNum (n : option Z)          (* numbers abstracted: Some n for integral values, None otherwise *)
| JStr (s : string)
| JArr (l : list json)
| JObj (kv : list (string * json)).

Definition kvs := list (string * json).

Fixpoint jget (k : string) (kv : kvs) : option json :=
  match kv with
  | [] => None
  | (k', v) :: r => if String.eqb k k' then Some v else jget k r
  end.

Definition jstr (o : option json) : option string :=
  match o with Some (JStr s) => Some s | _ => None end.

Definition obj_id (kv : kvs) : option string := jstr (jget "id" kv).
Definition obj_type (kv : kvs) : option string := jstr (jget "type" kv).

Fixpoint mem (s : string) (l : list string) : bool :=
  match l with [] => false | x :: r => if String.eqb s x then true else mem s r end.

Fixpoint nodupb (l : list string) : bool :=
  match l with [] => true | x :: r => negb (mem x r) && nodupb r end.

Definition subset (a b : list string) : bool := forallb (fun x => mem x b) a.

Fixpoint dedup (l : list string) : list string :=
  match l with [] => [] | x :: r => if mem x r then dedup r else x :: dedup r end.

(* ------------------------------------------------------------------ schema *)

(* A path names an object-valued position of an object: key, or key.subkey of an anonymous dict. *)
Definition path := list string.

Definition transform_params (t : string) : option (list string) :=
  if String.eqb t "torch.distributions.AffineTransform" then Some ["loc"; "scale"]
  else if String.eqb t "RescaledRateTransform" then Some ["rate"; "tree_model"]
  else if String.eqb t "LogDifferenceRateTransform" then Some ["tree_model"]
  else if String.eqb t "torchtree.evolution.tree_height_transform.DifferenceNodeHeightTransform"
       then Some ["tree_model"]
  else if String.eqb t "ConvexCombinationTransform" then Some ["weights"]
  else if mem t ["torch.distributions.ExpTransform"; "torch.distributions.SigmoidTransform";
                 "torch.distributions.StickBreakingTransform"; "CumSumExpTransform"; "LogTransform";
                 "TrilExpDiagonalTransform"] then Some []
  else None.

Definition distribution_params (d : string) : option (list string) :=
  if mem d ["torch.distributions.Normal"; "torch.distributions.LogNormal"; "torch.distributions.Cauchy";
            "torch.distributions.Laplace"; "torchtree.distributions.Normal"] then Some ["loc"; "scale"]
  else if String.eqb d "LogNormal" then Some ["mean"; "stdev"]
  else if String.eqb d "torch.distributions.Gamma" then Some ["concentration"; "rate"]
  else if String.eqb d "torch.distributions.Weibull" then Some ["scale"; "concentration"]
  else if String.eqb d "torch.distributions.Exponential" then Some ["rate"]
  else if String.eqb d "torch.distributions.Dirichlet" then Some ["concentration"]
  else if String.eqb d "torch.distributions.Beta" then Some ["concentration1"; "concentration0"]
  else if String.eqb d "OneOnX" then Some []
  else None.

Definition simple_schema : list (string * list path) :=
  [ ("Taxon", []); ("Taxa", [["taxa"]]); ("Alignment", [["taxa"]; ["datatype"]]);
    ("NucleotideDataType", []); ("AminoAcidDataType", []); ("CodonDataType", []); ("GeneralDataType", []);
    ("SitePattern", [["alignment"]]); ("AttributePattern", [["taxa"]; ["data_type"]]);
    ("JointDistributionModel", [["distributions"]]);
    ("TreeLikelihoodModel", [["tree_model"]; ["site_model"]; ["substitution_model"]; ["site_pattern"];
                             ["branch_model"]]);
    ("PoissonTreeLikelihood", [["tree_model"]; ["branch_model"]]);
    ("ReparameterizedTimeTreeModel", [["taxa"]; ["shifts"]; ["root_height"]; ["ratios"]]);
    ("UnRootedTreeModel", [["taxa"]; ["branch_lengths"]]);
    ("Parameter", [["full_like"]; ["zeros_like"]; ["ones_like"]; ["eye_like"]]);
    ("ViewParameter", [["parameter"]]);
    ("StrictClockModel", [["tree_model"]; ["rate"]]); ("SimpleClockModel", [["tree_model"]; ["rate"]]);
    ("JC69", []); ("LG", []); ("WAG", []);
    ("HKY", [["kappa"]; ["frequencies"]]); ("GTR", [["rates"]; ["frequencies"]]);
    ("MG94", [["data_type"]; ["kappa"]; ["alpha"]; ["beta"]; ["frequencies"]]);
    ("GeneralNonSymmetricSubstitutionModel", [["data_type"]; ["rates"]; ["frequencies"]]);
    ("ConstantSiteModel", [["mu"]]); ("InvariantSiteModel", [["invariant"]; ["mu"]]);
    ("WeibullSiteModel", [["shape"]; ["invariant"]; ["mu"]]);
    ("CTMCScale", [["x"]; ["tree_model"]]);
    ("ScaleMixtureNormal", [["x"]; ["loc"]; ["global_scale"]; ["local_scale"]]);
    ("CompoundGammaDirichletPrior", [["tree_model"]]);
    ("GMRF", [["tree_model"]; ["x"]; ["precision"]]); ("GMRFGammaIntegrated", [["tree_model"]; ["x"]]);
    ("ConstantCoalescentModel", [["theta"]; ["tree_model"]]);
    ("ExponentialCoalescentModel", [["theta"]; ["growth"]; ["tree_model"]]);
    ("PiecewiseConstantCoalescentGridModel", [["theta"]; ["tree_model"]]);
    ("PiecewiseConstantCoalescentModel", [["theta"]; ["tree_model"]]);
    ("PiecewiseExponentialCoalescentGridModel", [["theta"]; ["growth"]; ["tree_model"]]);
    ("PiecewiseLinearCoalescentGridModel", [["theta"]; ["tree_model"]]);
    ("BirthDeathModel", [["tree_model"]; ["lambda"]; ["mu"]; ["psi"]; ["rho"]; ["origin"]]);
    ("BDSKModel", [["tree_model"]; ["R"]; ["delta"]; ["s"]; ["rho"]; ["origin"]]);
    ("MultivariateNormal", [["x"]; ["parameters"; "loc"]; ["parameters"; "scale_tril"]]);
    ("RealNVP", [["x"]; ["base"]]);
    ("ELBO", [["variational"]; ["joint"]]); ("KLpq", [["variational"]; ["joint"]]);
    ("KLpqImportance", [["variational"]; ["joint"]]);
    ("Optimizer", [["loss"]; ["parameters"]; ["convergence"; "loss"]]);
    ("Sampler", [["model"]; ["loggers"]]);
    ("Logger", [["parameters"]]); ("TreeLogger", [["tree_model"]]);
    ("MCMC", [["loggers"]; ["joint"]; ["operators"]]);
    ("HMCOperator", [["joint"]; ["parameters"]; ["integrator"]; ["mass_matrix"]; ["adaptors"]]);
    ("LeapfrogIntegrator", []);
    ("MassMatrixAdaptor", [["parameters"]; ["mass_matrix"]]);
    ("DualAveragingStepSize", [["integrator"]]); ("AdaptiveStepSize", [["integrator"]]);
    ("SlidingWindowOperator", [["parameters"]]); ("ScalerOperator", [["parameters"]]);
    ("GMRFPiecewiseCoalescentBlockUpdatingOperator", [["coalescent"]; ["gmrf"]]) ].

Fixpoint assoc {A} (k : string) (l : list (string * A)) : option A :=
  match l with [] => None | (k', v) :: r => if String.eqb k k' then Some v else assoc k r end.

(* Ordered object-valued positions of an object of type [ty]; None = class unknown to the model. *)
Definition schema (ty : string) (kv : kvs) : option (list path) :=
  if String.eqb ty "TransformedParameter" then
    match jstr (jget "transform" kv) with
    | Some t => match transform_params t with
                | Some ps => Some (map (fun p => ["parameters"; p]) ps ++ [["x"]])
                | None => None
                end
    | None => None
    end
  else if String.eqb ty "Distribution" then
    match jstr (jget "distribution" kv) with
    | Some d => match distribution_params d with
                | Some ps => Some (["x"] :: map (fun p => ["parameters"; p]) ps)
                | None => None
                end
    | None => None
    end
  else assoc ty simple_schema.

(* ------------------------------------------------------------------ skeleton *)

(* What the loader sees: references, definitions with their ordered children, sequences. *)
Inductive sk : Type :=
| SRef (s : string)
| SNone                                   (* a literal (number / bool / null) *)
| SSeq (l : list sk)
| SDict (kv : list (string * sk))         (* dict without id: only legal where a schema path enters it *)
| SDef (id : string) (body : list sk)
| SBad (why : string).                    (* object whose class / schema the model does not know *)

Definition sget (k : string) (kv : list (string * sk)) : option sk := assoc k kv.

Definition select_path (p : path) (kv : list (string * sk)) : list sk :=
  match p with
  | [k] => match sget k kv with Some s => [s] | None => [] end
  | [k; k2] => match sget k kv with
               | Some (SDict kv2) => match sget k2 kv2 with Some s => [s] | None => [] end
               | _ => []
               end
  | _ => []
  end.

Fixpoint sk_of (registered : list string) (j : json) : sk :=
  match j with
  | JNull | JBool _ | JNum _ => SNone
  | JStr s => SRef s
  | JArr l => SSeq (map (sk_of registered) l)
  | JObj kv =>
      let kv' := (fix conv (l : kvs) : list (string * sk) :=
                    match l with [] => [] | (k, v) :: r => (k, sk_of registered v) :: conv r end) kv in
      match obj_id kv with
      | None => SDict kv'
      | Some id =>
          match obj_type kv with
          | None => SBad id
          | Some ty =>
              if mem ty registered then
                match schema ty kv with
                | Some ps => SDef id (flat_map (fun p => select_path p kv') ps)
                | None => SBad id
                end
              else SBad id
          end
      end
  end.

(* ------------------------------------------------------------------ abstract loader *)

Inductive err : Type :=
| Dangling (s : string) | Duplicate (s : string) | MissingId | Unknown (s : string).

Inductive result : Type := Ok (reg : list string) | Err (e : err).

(* process_object(s): registry = ids of the objects whose construction has completed. *)
Fixpoint load (s : sk) (reg : list string) : result :=
  match s with
  | SRef r => if mem r reg then Ok reg else Err (Dangling r)
  | SNone => Ok reg
  | SSeq l =>
      (fix go (l : list sk) (reg : list string) : result :=
         match l with
         | [] => Ok reg
         | x :: t => match load x reg with Ok reg' => go t reg' | e => e end
         end) l reg
  | SDict _ => Err MissingId
  | SDef id body =>
      if mem id reg then Err (Duplicate id)
      else match (fix go (l : list sk) (reg : list string) : result :=
                    match l with
                    | [] => Ok reg
                    | x :: t => match load x reg with Ok reg' => go t reg' | e => e end
                    end) body reg with
           | Ok reg' => if mem id reg' then Err (Duplicate id) else Ok (id :: reg')
           | e => e
           end
  | SBad id => if mem id reg then Err (Duplicate id) else Err (Unknown id)
  end.

(* The same traversal, flattened: the sequence of registry operations. *)
Inductive ev : Type :=
| EChk (id : string)      (* `id in dic`  at the start of a definition *)
| ERef (r : string)       (* dic[r] *)
| ESet (id : string)      (* `id in dic` once more (the id may have been registered while the object
                             was being built), then dic[id] = obj, at the end of a definition *)
| EFail (e : err).        (* the loader stops here whatever the registry *)

Fixpoint events (s : sk) : list ev :=
  match s with
  | SRef r => [ERef r]
  | SNone => []
  | SSeq l => flat_map events l
  | SDict _ => [EFail MissingId]
  | SDef id body => EChk id :: flat_map events body ++ [ESet id]
  | SBad id => [EChk id; EFail (Unknown id)]
  end.

Fixpoint run (evs : list ev) (reg : list string) : result :=
  match evs with
  | [] => Ok reg
  | EChk id :: r => if mem id reg then Err (Duplicate id) else run r reg
  | ERef x :: r => if mem x reg then run r reg else Err (Dangling x)
  | ESet id :: r => if mem id reg then Err (Duplicate id) else run r (id :: reg)
  | EFail e :: _ => Err e
  end.

(* ------------------------------------------------------------------ static checker *)

Definition chk_ids (evs : list ev) : list string :=
  flat_map (fun e => match e with EChk i => [i] | _ => [] end) evs.
Definition set_ids (evs : list ev) : list string :=
  flat_map (fun e => match e with ESet i => [i] | _ => [] end) evs.
Definition no_fail (evs : list ev) : bool :=
  forallb (fun e => match e with EFail _ => false | _ => true end) evs.

(* every reference is preceded by the END of the definition it names, and every END by its START
   ([seen] = completed definitions, [chk] = started definitions) *)
Fixpoint refs_resolve (evs : list ev) (seen chk : list string) : bool :=
  match evs with
  | [] => true
  | ERef x :: r => mem x seen && refs_resolve r seen chk
  | ESet i :: r => mem i chk && refs_resolve r (i :: seen) chk
  | EChk i :: r => refs_resolve r seen (i :: chk)
  | EFail _ :: r => refs_resolve r seen chk
  end.

Definition wf_events (evs : list ev) : bool :=
  no_fail evs && nodupb (chk_ids evs) && nodupb (set_ids evs) && refs_resolve evs [] [].

(* all identified objects anywhere in the term *)
Fixpoint all_ids (j : json) : list string :=
  match j with
  | JArr l => flat_map all_ids l
  | JObj kv =>
      let rest := (fix go (l : kvs) : list string :=
                     match l with [] => [] | (_, v) :: r => all_ids v ++ go r end) kv in
      match obj_id kv with Some id => id :: rest | None => rest end
  | _ => []
  end.

Definition config_events (registered : list string) (j : json) : list ev := events (sk_of registered j).

(* ids unique at any depth; every class registered and known; every reference resolves to an object
   whose construction completed earlier; no identified object sits in a position the loader ignores *)
Definition wf_config (registered : list string) (j : json) : bool :=
  let evs := config_events registered j in
  wf_events evs && nodupb (all_ids j) && subset (all_ids j) (chk_ids evs).

Definition dead_objects (registered : list string) (j : json) : list string :=
  filter (fun i => negb (mem i (chk_ids (config_events registered j)))) (all_ids j).

(* ------------------------------------------------------------------ Jacobian bookkeeping *)

Definition env := list (string * kvs).

Fixpoint collect (j : json) : env :=
  match j with
  | JArr l => flat_map collect l
  | JObj kv =>
      let rest := (fix go (l : kvs) : env :=
                     match l with [] => [] | (_, v) :: r => collect v ++ go r end) kv in
      match obj_id kv with Some id => (id, kv) :: rest | None => rest end
  | _ => []
  end.

Definition resolve (e : env) (v : json) : option kvs :=
  match v with
  | JStr s => assoc s e
  | JObj kv => match obj_id kv with Some _ => Some kv | None => None end
  | _ => None
  end.

Definition as_list (v : json) : list json :=
  match v with JArr l => l | _ => [v] end.

Definition is_type (ty : string) (kv : kvs) : bool :=
  match obj_type kv with Some t => String.eqb t ty | None => false end.

(* a transform whose log|det J| is identically 0 by construction: translation x + loc *)
Definition unit_affine (kv : kvs) : bool :=
  match jstr (jget "transform" kv), jget "parameters" kv with
  | Some t, Some (JObj ps) =>
      String.eqb t "torch.distributions.AffineTransform" &&
      match jget "scale" ps with Some (JNum (Some 1%Z)) => true | _ => false end
  | _, _ => false
  end.

(* children of a node along the random-variable chain (what it is a function of) *)
Definition chain_children (e : env) (kv : kvs) : list json :=
  if is_type "TransformedParameter" kv then
    match jget "x" kv with Some x => as_list x | None => [] end
  else if is_type "ViewParameter" kv then
    match jget "parameter" kv with Some p => [p] | None => [] end
  else [].

(* the tree model as a transform: (children, has non-trivial Jacobian) *)
Definition tree_children (kv : kvs) : option (list json * bool) :=
  if is_type "ReparameterizedTimeTreeModel" kv then
    match jget "shifts" kv with
    | Some s => Some ([s], false)
    | None => match jget "ratios" kv, jget "root_height" kv with
              | Some r, Some h => Some ([r; h], true)
              | _, _ => None
              end
    end
  else if is_type "UnRootedTreeModel" kv then
    match jget "branch_lengths" kv with Some b => Some ([b], false) | None => None end
  else None.

Definition node_id (kv : kvs) : string := match obj_id kv with Some i => i | None => "" end.

(* plain parameters at the bottom of the chain under v *)
Fixpoint leaves (fuel : nat) (e : env) (v : json) : list string :=
  match fuel with
  | O => []
  | S f =>
      match resolve e v with
      | None => []
      | Some kv =>
          match chain_children e kv with
          | [] => [node_id kv]
          | ch => flat_map (leaves f e) ch
          end
      end
  end.

Definition any_mem (a b : list string) : bool := existsb (fun x => mem x b) a.

(* walk down the chain from a random variable: (ids needing a Jacobian, leaves covered by a prior) *)
Fixpoint walk (fuel : nat) (e : env) (moved : list string) (v : json) : list string * list string :=
  match fuel with
  | O => ([], [])
  | S f =>
      match resolve e v with
      | None => ([], [])
      | Some kv =>
          let lv := leaves fuel e v in
          let here := if is_type "TransformedParameter" kv && any_mem lv moved && negb (unit_affine kv)
                      then [node_id kv] else [] in
          fold_left (fun acc c => let r := walk f e moved c in (fst acc ++ fst r, snd acc ++ snd r))
                    (chain_children e kv) (here, lv)
      end
  end.

(* which key of a density class holds its random variable *)
Inductive rvkind := RVx | RVheights | RVblens | RVnone | RVjoint.

Definition rv_table : list (string * rvkind) :=
  [ ("Distribution", RVx); ("CTMCScale", RVx); ("GMRF", RVx); ("GMRFGammaIntegrated", RVx);
    ("ScaleMixtureNormal", RVx);
    ("ConstantCoalescentModel", RVheights); ("ExponentialCoalescentModel", RVheights);
    ("PiecewiseConstantCoalescentGridModel", RVheights); ("PiecewiseConstantCoalescentModel", RVheights);
    ("PiecewiseExponentialCoalescentGridModel", RVheights); ("PiecewiseLinearCoalescentGridModel", RVheights);
    ("BirthDeathModel", RVheights); ("BDSKModel", RVheights);
    ("CompoundGammaDirichletPrior", RVblens);
    ("TreeLikelihoodModel", RVnone); ("PoissonTreeLikelihood", RVnone);
    ("JointDistributionModel", RVjoint) ].

Definition merge (a b : list string * list string) := (fst a ++ fst b, snd a ++ snd b).

(* (needs, covered, ok): ok = false when a density class is unknown to the model (fail closed) *)
Fixpoint density (fuel : nat) (e : env) (moved : list string) (d : json)
  : (list string * list string) * bool :=
  match fuel with
  | O => (([], []), false)
  | S f =>
      match resolve e d with
      | None => (([], []), false)
      | Some kv =>
          match obj_type kv with
          | None => (([], []), false)
          | Some ty =>
              match assoc ty rv_table with
              | None => (([], []), false)
              | Some RVnone => (([], []), true)
              | Some RVjoint =>
                  match jget "distributions" kv with
                  | Some ds => fold_left (fun acc c => let r := density f e moved c in
                                                       (merge (fst acc) (fst r), snd acc && snd r))
                                         (as_list ds) (([], []), true)
                  | None => (([], []), false)
                  end
              | Some RVx =>
                  match jget "x" kv with
                  | Some x => (fold_left (fun acc c => merge acc (walk fuel e moved c)) (as_list x) ([], []), true)
                  | None => (([], []), false)
                  end
              | Some _ =>
                  match jget "tree_model" kv with
                  | Some t =>
                      match resolve e t with
                      | Some tkv =>
                          match tree_children tkv with
                          | Some (ch, nontrivial) =>
                              let lv := flat_map (leaves fuel e) ch in
                              let here := if nontrivial && any_mem lv moved then [node_id tkv] else [] in
                              (fold_left (fun acc c => merge acc (walk fuel e moved c)) ch (here, lv), true)
                          | None => (([], []), false)
                          end
                      | None => (([], []), false)
                      end
                  | None => (([], []), false)
                  end
              end
          end
      end
  end.

(* ---- what the sampler / optimiser moves, and which density it is handed *)

Definition strs (v : json) : list string :=
  flat_map (fun x => match x with JStr s => [s] | JObj kv => [node_id kv] | _ => [] end) (as_list v).

Definition get_strs (k : string) (kv : kvs) : list string :=
  match jget k kv with Some v => strs v | None => [] end.

Fixpoint var_x (fuel : nat) (e : env) (d : json) : list string :=
  match fuel with
  | O => []
  | S f =>
      match resolve e d with
      | None => []
      | Some kv =>
          if is_type "JointDistributionModel" kv then
            match jget "distributions" kv with Some ds => flat_map (var_x f e) (as_list ds) | None => [] end
          else get_strs "x" kv
      end
  end.

Definition moved_of_obj (fuel : nat) (e : env) (kv : kvs) : list string :=
  if is_type "HMCOperator" kv || is_type "SlidingWindowOperator" kv || is_type "ScalerOperator" kv
  then get_strs "parameters" kv
  else if is_type "GMRFPiecewiseCoalescentBlockUpdatingOperator" kv then
    match jget "gmrf" kv with
    | Some g => match resolve e g with Some gkv => get_strs "x" gkv | None => [] end
    | None => []
    end
  else if is_type "Optimizer" kv then
    match jget "loss" kv with
    | Some (JStr _) => get_strs "parameters" kv                  (* direct optimisation of a density *)
    | Some (JObj l) => match jget "variational" l with           (* variational objective *)
                       | Some v => var_x fuel e v
                       | None => []
                       end
    | _ => []
    end
  else [].

Definition moved (j : json) : list string :=
  let e := collect j in
  dedup (flat_map (fun p => moved_of_obj (S (length e)) e (snd p)) e).

(* the density handed to the sampler / optimiser (None: nothing is sampled or optimised) *)
Definition target_of_obj (kv : kvs) : list string :=
  if is_type "MCMC" kv then get_strs "joint" kv
  else if is_type "Optimizer" kv then
    match jget "loss" kv with
    | Some (JStr s) => [s]
    | Some (JObj l) => get_strs "joint" l
    | _ => []
    end
  else [].

Definition targets (j : json) : list string :=
  dedup (flat_map (fun p => target_of_obj (snd p)) (collect j)).

(* Jacobian terms of a target: the target is `joint` itself, or a JointDistributionModel
   listing "joint" first and then ids; anything else is outside the model (None). *)
Definition terms_of_target (e : env) (t : string) : option (list string) :=
  if String.eqb t "joint" then Some []
  else match assoc t e with
       | Some kv =>
           if is_type "JointDistributionModel" kv then
             match jget "distributions" kv with
             | Some (JArr (JStr j0 :: rest)) =>
                 if String.eqb j0 "joint" && forallb (fun x => match x with JStr _ => true | _ => false end) rest
                 then Some (strs (JArr rest)) else None
             | _ => None
             end
           else None
       | None => None
       end.

Definition jacobian_terms (j : json) : option (list string) :=
  match targets j with
  | [t] => terms_of_target (collect j) t
  | _ => None
  end.

Definition analysis (j : json) : (list string * list string) * bool :=
  let e := collect j in
  density (S (S (length e))) e (moved j) (JStr "joint").

Definition needs_jacobian (j : json) : list string := dedup (fst (fst (analysis j))).
Definition covered (j : json) : list string := dedup (snd (fst (analysis j))).

(* candidates: transformed parameters with a non-trivial Jacobian, and ratio-parameterised trees *)
Definition candidate_leaves (e : env) (kv : kvs) : option (list string) :=
  let fuel := S (S (length e)) in
  if is_type "TransformedParameter" kv then
    if unit_affine kv then None else Some (leaves fuel e (JObj kv))
  else match tree_children kv with
       | Some (ch, true) => Some (flat_map (leaves fuel e) ch)
       | _ => None
       end.

(* no prior reaches any parameter under t: the density on t's scale is left implicit (flat);
   the property does not say on which scale, a Jacobian for t may be listed (at most once) *)
Definition optional_jacobian (j : json) : list string :=
  let e := collect j in
  let mv := moved j in
  let cov := covered j in
  let nd := needs_jacobian j in
  dedup (flat_map (fun p => match candidate_leaves e (snd p) with
                            | Some lv => if any_mem lv mv && negb (any_mem lv cov) && negb (mem (fst p) nd)
                                         then [fst p] else []
                            | None => []
                            end) e).

Definition check_terms (terms needs optional : list string) : bool :=
  nodupb terms && subset needs terms && subset terms (needs ++ optional).

(* Applicable when something is sampled/optimised; a configuration that only draws from a stored
   variational distribution hands no density to anything. *)
Definition check_jacobians (j : json) : bool :=
  match targets j with
  | [] => true
  | _ => match jacobian_terms j with
         | Some ts => snd (analysis j) && check_terms ts (needs_jacobian j) (optional_jacobian j)
         | None => false
         end
  end.

(* ------------------------------------------------------------------ output encoding for the harness *)

(* Strings are reported as indices into a table of all strings of the term supplied by the harness
   (-1 = not in the table: the harness treats that as a failure). *)
Open Scope Z_scope.
Fixpoint index_of (s : string) (tbl : list string) (i : Z) : Z :=
  match tbl with [] => -1 | x :: r => if String.eqb s x then i else index_of s r (i + 1) end.
Definition enc_str (tbl : list string) (s : string) : Z := index_of s tbl 0.
Definition enc_strs (tbl : list string) (l : list string) : list Z :=
  Z.of_nat (List.length l) :: map (enc_str tbl) l.
Definition enc_err (tbl : list string) (e : err) : list Z :=
  match e with
  | Dangling s => [1; enc_str tbl s] | Duplicate s => [2; enc_str tbl s]
  | MissingId => [3; 0] | Unknown s => [4; enc_str tbl s]
  end.
Definition enc_ev (tbl : list string) (e : ev) : list Z :=
  match e with
  | EChk i => [0; enc_str tbl i] | ERef r => [1; enc_str tbl r] | ESet i => [2; enc_str tbl i]
  | EFail x => 3 :: enc_err tbl x
  end.
Definition enc_result (tbl : list string) (r : result) : list Z :=
  match r with Ok _ => [0] | Err e => enc_err tbl e end.
Definition b2z (b : bool) : Z := if b then 1 else 0.

(* everything the harness compares, for one configuration *)
Definition report (registered tbl : list string) (j : json) : list Z :=
  let evs := config_events registered j in
  [b2z (wf_config registered j); b2z (check_jacobians j); b2z (snd (analysis j))]
  ++ enc_result tbl (load (sk_of registered j) [])
  ++ (Z.of_nat (List.length evs) :: flat_map (enc_ev tbl) evs)
  ++ enc_strs tbl (dead_objects registered j)
  ++ enc_strs tbl (moved j)
  ++ enc_strs tbl (targets j)
  ++ (match jacobian_terms j with Some ts => 1 :: enc_strs tbl ts | None => [0] end)
  ++ enc_strs tbl (needs_jacobian j)
  ++ enc_strs tbl (optional_jacobian j)
  ++ enc_strs tbl (covered j).
