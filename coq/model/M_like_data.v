(* From a specification as the JSON gives it (taxa order, named sequences in their own order, a
   tree with taxon names at the leaves) to the inputs of the pruning model. *)
From Coq Require Import QArith List Arith Bool.
Import ListNotations.
From TT Require Import Num Tree M_like M_data.

(* leaf name -> position of the taxon in the Taxa list (setup_indexes: taxa_dict[label]) *)
Fixpoint pos_of (x : nat) (l : list nat) : nat :=
  match l with [] => 0%nat | y :: r => if Nat.eqb x y then 0%nat else Datatypes.S (pos_of x r) end.
Fixpoint rename (taxa : list nat) (t : tree) : tree :=
  match t with Leaf x => Leaf (pos_of x taxa) | Node l r => Node (rename taxa l) (rename taxa r) end.

(* Alignment.__init__: sequences sorted into Taxa order = looked up by taxon name *)
Fixpoint assoc (x : nat) (l : list (nat * list nat)) : list nat :=
  match l with [] => [] | (y, v) :: r => if Nat.eqb x y then v else assoc x r end.
Definition rows_in_taxa_order (taxa : list nat) (seqs : list (nat * list nat)) : list (list nat) :=
  map (fun x => assoc x seqs) taxa.

(* columns of the alignment *)
Definition column (rows : list (list nat)) (k : nat) : list nat := map (fun r => lk r k 0%nat) rows.
Definition columns (rows : list (list nat)) : list (list nat) :=
  map (column rows) (seq 0 (length (hd [] rows))).

Fixpoint list_eqb (a b : list nat) : bool :=
  match a, b with
  | [], [] => true
  | x :: r, y :: s => Nat.eqb x y && list_eqb r s
  | _, _ => false
  end.

Section Assemble.
Context {T : Type} (N : Num T).

Definition vec_of_nats (l : list nat) : list T := map (ofNat N) l.

Inductive tipmode := TipPartials (use_ambiguities : bool) | TipStates.

Definition nuc_tip_vector (m : tipmode) (c : nat) : list T :=
  match m with
  | TipPartials ua => vec_of_nats (nuc_partial ua c)
  | TipStates => let s := nuc_tip_state c in
                 if (s <? 4)%nat then vec_of_nats (indicator_of 4 [s]) else vec_of_nats [1; 1; 1; 1]%nat
  end.

Definition nuc_patterns (m : tipmode) (rows : list (list nat)) : list (T * (nat -> list T)) :=
  map (fun cw => (ofNat N (snd cw), fun i => nuc_tip_vector m (lk (fst cw) i 0%nat)))
      (compress list_eqb (columns rows)).

(* matrices: one table per rate category, indexed by node *)
Definition table (ms : list (list (list T))) : nat -> list (list T) := fun j => lk ms j [].

Definition loglik_nuc (m : tipmode) (taxa : list nat) (seqs : list (nat * list nat)) (t : tree)
           (freqs : list T) (mats : list (list (list (list T)))) (props : list T) : T :=
  loglik N 4%nat freqs (map table mats) props (index_tree (rename taxa t))
         (nuc_patterns m (rows_in_taxa_order taxa seqs)).
End Assemble.

(* amino-acid alignments (20 states): same assembly over the amino-acid tables *)
Section AssembleAA.
Context {T : Type} (N : Num T).
Definition aa_tip_vector (m : tipmode) (c : nat) : list T :=
  match m with
  | TipPartials ua => vec_of_nats N (aa_partial ua c)
  | TipStates => let s := aa_tip_state c in
                 if (s <? 20)%nat then vec_of_nats N (indicator_of 20 [s]) else vec_of_nats N (repeat 1%nat 20)
  end.
Definition aa_patterns (m : tipmode) (rows : list (list nat)) : list (T * (nat -> list T)) :=
  map (fun cw => (ofNat N (snd cw), fun i => aa_tip_vector m (lk (fst cw) i 0%nat)))
      (compress list_eqb (columns rows)).
Definition loglik_aa (m : tipmode) (taxa : list nat) (seqs : list (nat * list nat)) (t : tree)
           (freqs : list T) (mats : list (list (list (list T)))) (props : list T) : T :=
  loglik N 20%nat freqs (map table mats) props (index_tree (rename taxa t))
         (aa_patterns m (rows_in_taxa_order taxa seqs)).
End AssembleAA.
