(* Leapfrog integrator and HMC operator (torchtree/inference/hmc/integrator.py, operator.py,
   hamiltonian.py).  Executable model only; one polymorphic term, run at NumQ (exact), theorems
   at NumR.  Vectors are lists; the inverse mass matrix is a vector (diagonal) or a list of rows
   (dense), exactly the two cases [inverse_mass_matrix.dim() == 1] / otherwise of the code.
   [grad] is the gradient of the POTENTIAL energy, i.e. the code's
       dU = -torch.cat([parameter.grad ...])     after   U = model(); U.backward()
   as a function of the position written into the parameters by set_tensor. *)
From Coq Require Import QArith List.
Import ListNotations.
From TT Require Import Num.

Inductive mass (T : Type) := Diag (d : list T) | Dense (m : list (list T)).
Arguments Diag {T} _. Arguments Dense {T} _.

Fixpoint iter {A : Type} (n : nat) (f : A -> A) (x : A) : A :=
  match n with O => x | S k => iter k f (f x) end.

Section Leapfrog.
Context {T : Type} (N : Num T).

(* elementwise tensor operations on equal shapes *)
Fixpoint vzip (f : T -> T -> T) (a b : list T) : list T :=
  match a, b with
  | x :: r, y :: s => f x y :: vzip f r s
  | _, _ => []
  end.
Definition vadd := vzip (add N).
Definition vsub := vzip (sub N).
Definition vmul := vzip (mul N).
Definition vscale (c : T) (v : list T) : list T := map (mul N c) v.
Definition vopp (v : list T) : list T := map (opp N) v.
Definition matvec (m : list (list T)) (v : list T) : list T := map (fun row => ndot N row v) m.

Definition half (eps : T) : T := div N eps (ofQ N 2).          (* self.step_size / 2.0 *)

(* inverse_mass_matrix * momentum   |   inverse_mass_matrix @ momentum *)
Definition minv_apply (Minv : mass T) (p : list T) : list T :=
  match Minv with Diag d => vmul d p | Dense m => matvec m p end.

(* self.step_size * inverse_mass_matrix * momentum  (python: (eps*Minv)*p)
   self.step_size * (inverse_mass_matrix @ momentum) *)
Definition drift_vec (eps : T) (Minv : mass T) (p : list T) : list T :=
  match Minv with
  | Diag d => vmul (vscale eps d) p
  | Dense m => vscale eps (matvec m p)
  end.

Section Run.
Variable eps : T.
Variable Minv : mass T.
Variable grad : list T -> list T.

(* the for-loop of LeapfrogIntegrator.__call__; state = (params, momentum, dU) *)
Fixpoint lf_loop (L : nat) (q p dU : list T) : list T * list T * list T :=
  match L with
  | O => (q, p, dU)
  | S k =>
      let q' := vadd q (drift_vec eps Minv p) in          (* params = params + eps * Minv p *)
      let dU' := grad q' in                                (* set_tensor; U = model(); U.backward() *)
      lf_loop k q' (vsub p (vscale eps dU')) dU'           (* momentum -= eps * dU *)
  end.

(* LeapfrogIntegrator.__call__: half step, L x (position, full momentum step), half step BACK
   with the last gradient.  Result = (positions left in the parameters, returned momentum). *)
Definition leapfrog (L : nat) (qp : list T * list T) : list T * list T :=
  let dU0 := grad (fst qp) in
  let p0 := vsub (snd qp) (vscale (half eps) dU0) in       (* momentum - eps/2 * dU *)
  match lf_loop L (fst qp) p0 dU0 with
  | (q, p, dU) => (q, vadd p (vscale (half eps) dU))       (* momentum += eps/2 * dU *)
  end.

(* every position written into the parameters (= every point where the gradient is taken) *)
Fixpoint lf_trace (L : nat) (q p : list T) : list (list T) :=
  match L with
  | O => []
  | S k =>
      let q' := vadd q (drift_vec eps Minv p) in
      q' :: lf_trace k q' (vsub p (vscale eps (grad q')))
  end.
Definition leapfrog_trace (L : nat) (qp : list T * list T) : list (list T) :=
  fst qp :: lf_trace L (fst qp) (vsub (snd qp) (vscale (half eps) (grad (fst qp)))).

(* ---- specification-level vocabulary: shears, the textbook step ---- *)
Definition kick (c : T) (qp : list T * list T) : list T * list T :=
  (fst qp, vsub (snd qp) (vscale c (grad (fst qp)))).                  (* (q,p) -> (q, p - c grad q) *)
Definition drift (c : T) (qp : list T * list T) : list T * list T :=
  (vadd (fst qp) (vscale c (minv_apply Minv (snd qp))), snd qp).       (* (q,p) -> (q + c Minv p, p) *)
Definition kdk (qp : list T * list T) : list T * list T :=
  kick (half eps) (drift eps (kick (half eps) qp)).                    (* kick-drift-kick *)
End Run.

Definition flip (qp : list T * list T) : list T * list T := (fst qp, vopp (snd qp)).

(* Hamiltonian.kinetic_energy: dot(p, Minv p) * 0.5 *)
Definition kinetic (Minv : mass T) (p : list T) : T :=
  mul N (ndot N p (minv_apply Minv p)) (ofQ N (1#2)).

(* HMCOperator._step return value: kinetic_energy0 - kinetic_energy *)
Definition hmc_hastings (Minv : mass T) (p0 p1 : list T) : T :=
  sub N (kinetic Minv p0) (kinetic Minv p1).

(* HMCOperator._step on its success path, the momentum draw p0 being given:
   (positions left in the parameters, returned Hastings term) *)
Definition hmc_step (eps : T) (L : nat) (Minv : mass T) (grad : list T -> list T)
           (q0 p0 : list T) : list T * T :=
  match leapfrog eps Minv grad L (q0, p0) with
  | (q1, p1) => (q1, hmc_hastings Minv p0 p1)
  end.

(* MCMC.run: log_alpha = (log_joint_proposed - log_joint) + hastings_ratio *)
Definition log_alpha (logp0 logp1 hastings : T) : T := add N (sub N logp1 logp0) hastings.

(* Gaussian target with precision matrix A and mean mu: potential 1/2 (q-mu)' A (q-mu),
   gradient A (q - mu) *)
Definition gauss_grad (A : list (list T)) (mu : list T) (q : list T) : list T :=
  matvec A (vsub q mu).
Definition gauss_potential (A : list (list T)) (mu : list T) (q : list T) : T :=
  mul N (ndot N (vsub q mu) (matvec A (vsub q mu))) (ofQ N (1#2)).

Definition gauss_leapfrog (eps : T) (L : nat) (Minv : mass T) (A : list (list T)) (mu q p : list T) :=
  leapfrog eps Minv (gauss_grad A mu) L (q, p).
Definition gauss_trace (eps : T) (L : nat) (Minv : mass T) (A : list (list T)) (mu q p : list T) :=
  leapfrog_trace eps Minv (gauss_grad A mu) L (q, p).
Definition gauss_step (eps : T) (L : nat) (Minv : mass T) (A : list (list T)) (mu q p : list T) :=
  hmc_step eps L Minv (gauss_grad A mu) q p.

End Leapfrog.
