(* C15 — executable model of one iteration of MCMC.run (inference/mcmc/mcmc.py) and of the
   operators' proposals / Hastings terms / tuning (inference/mcmc/operator.py,
   gmrf_block_updating.py, hmc/operator.py, hmc/adaptation.py).

   One polymorphic term, used at NumR (theorems) and NumI (interval replay of recorded
   transitions).  Control flow only on exact data; the single decision taken on a computed
   value -- the Metropolis-Hastings test -- goes through the parameter [dec] (the real comparison
   in the theorems, the recorded decision in the replay, which the harness checks against the
   enclosures of both sides).

   Oracles (never axioms): the target density, the logger's evaluation of it, the internal draws
   of the operators, the proposals of the Dirichlet / HMC / block-updating operators and the terms
   of their Hastings ratios are fields of the [draws] record of each iteration.

   The tuning arithmetic (adaptable_parameter getters / setters, MCMCOperator.tune, the HMC
   step-size adaptors) is NOT written here: it is regenerated from the sources into gen/G_tuning.v
   on every run.  Exception: the Dirichlet operator, whose shipped re-parameterisation violates the
   property (DESIGN §7); the model uses the correct one ([dirichlet_get_spec],
   [dirichlet_set_spec]) so that the defect shows as a finding. No proofs in this file. *)
From Coq Require Import QArith List Bool Arith.
Import ListNotations.
From TT Require Import Num Tree G_tuning.

Section Mcmc.
Context {T : Type} (N : Num T).

(* value returned by the implementation: a finite number, or inf / nan *)
Inductive ext := Fin (x : T) | NonFin.

Inductive kind := KScaler | KSliding | KDirichlet | KBlock | KHmc.

(* how operator.tune changes the operator *)
Inductive tuner :=
| TOff                                  (* disable_adaptation *)
| TBase                                 (* MCMCOperator.tune *)
| TAdaptive (target : T)                (* HMC + AdaptiveStepSize (default window, acceptance_prob) *)
| TDual (delta t0 mu gamma : T).        (* HMC + DualAveragingStepSize (default window) *)

Record opcfg := mkCfg {
  k_kind : kind;
  k_target : T;                  (* target_acceptance_probability *)
  k_tuner : tuner;
  k_slots : list (list nat)      (* positions, in the flat state, of the entries of each operator parameter *)
}.

Record opstate := mkOp {
  o_field : T;     (* _scaler / _width / _integrator.step_size *)
  o_aux : T;       (* dual averaging: s_bar *)
  o_count : nat;   (* _adapt_count (TBase) / adaptor call counter *)
  o_acc : nat; o_rej : nat }.

Record chain := mkChain {
  c_x : list T;            (* values of all leaf parameters, flattened *)
  c_lj : T;                (* log_joint carried by MCMC.run *)
  c_ops : list opstate }.

Record draws := mkDraws {
  d_op : nat;              (* operator drawn from Categorical(weights) *)
  d_u : T;                 (* torch.rand(1) inside the scaler / sliding-window proposal *)
  d_i : nat; d_j : nat;    (* torch.randint: parameter index, entry index *)
  d_prop : list T;         (* oracle proposal (Dirichlet / block / HMC): new values of the operator's slots *)
  d_h1 : T; d_h2 : T;      (* oracle Hastings terms: (b, f) Dirichlet; (log q backward, log q forward) block; (K0, K1) HMC *)
  d_hfin : bool;           (* false: the operator gave up and returned an infinite ratio *)
  d_eval : list T -> ext;  (* the evaluation of the target performed by MCMC.run at the proposed state *)
  d_uacc : T;              (* torch.rand(1) of the accept test *)
  d_evlog : list T -> ext  (* the evaluation performed by the logger after the move *)
}.

(* ---------------------------------------------------------------- list helpers (Paramcoq-friendly) *)
Fixpoint upd (l : list T) (k : nat) (f : T -> T) : list T :=
  match l with
  | [] => []
  | x :: r => match k with O => f x :: r | S k' => x :: upd r k' f end
  end.

Fixpoint write (x : list T) (ps : list nat) (vs : list T) : list T :=
  match ps with
  | [] => x
  | p :: ps' => match vs with [] => x | v :: vs' => write (upd x p (fun _ => v)) ps' vs' end
  end.

Fixpoint setk {A} (l : list A) (k : nat) (a : A) : list A :=
  match l with
  | [] => []
  | x :: r => match k with O => a :: r | S k' => x :: setk r k' a end
  end.

Definition slot_pos (slots : list (list nat)) (i j : nat) : nat := lk (lk slots i []) j O.

Definition nmin (a b : T) : T := opp N (nmax N (opp N a) (opp N b)).

(* ---------------------------------------------------------------- proposals *)
(* ScalerOperator._step:  s = scaler + rand * (1/scaler - scaler);  p[index2] *= s;  return -log s *)
Definition scaler_s (a u : T) : T := add N a (mul N u (sub N (div N (one N) a) a)).
(* SlidingWindowOperator._step:  shift = width * (rand - 0.5);  p[index2] += shift;  return 0 *)
Definition sliding_shift (w u : T) : T := mul N w (sub N u (ofQ N (1#2))).

Definition propose (cfg : opcfg) (os : opstate) (x : list T) (d : draws) : list T * ext :=
  match k_kind cfg with
  | KScaler =>
      let s := scaler_s (o_field os) (d_u d) in
      (upd x (slot_pos (k_slots cfg) (d_i d) (d_j d)) (fun v => mul N v s), Fin (opp N (nln N s)))
  | KSliding =>
      let sh := sliding_shift (o_field os) (d_u d) in
      (upd x (slot_pos (k_slots cfg) (d_i d) (d_j d)) (fun v => add N v sh), Fin (zero N))
  | KDirichlet | KBlock | KHmc =>
      (write x (concat (k_slots cfg)) (d_prop d),
       if d_hfin d then Fin (sub N (d_h1 d) (d_h2 d)) else NonFin)
  end.

(* ---------------------------------------------------------------- accept test of MCMC.run *)
(* returns (acceptance_prob, accepted, carried log_joint) *)
Definition mh (dec : T -> T -> bool) (lj : T) (h dens : ext) (u : T) : T * bool * T :=
  match h with
  | NonFin => (zero N, false, lj)
  | Fin hv =>
      match dens with
      | NonFin => (zero N, false, lj)
      | Fin p' =>
          let la := add N (sub N p' lj) hv in
          let ap := nexp N (nmin (zero N) la) in
          let a := dec u ap in
          (ap, a, if a then p' else lj)
      end
  end.

(* ---------------------------------------------------------------- tuning *)
Definition dirichlet_get_spec (s : T) : T := opp N (nln N s).
Definition dirichlet_set_spec (v : T) : T := nexp N (opp N v).

Definition getf (k : kind) : T -> T :=
  match k with
  | KScaler => ScalerOperator_get N
  | KSliding => SlidingWindowOperator_get N
  | KDirichlet => dirichlet_get_spec
  | KBlock => GMRFPiecewiseCoalescentBlockUpdatingOperator_get N
  | KHmc => HMCOperator_get N
  end.
Definition setf (k : kind) : T -> T :=
  match k with
  | KScaler => ScalerOperator_set N
  | KSliding => SlidingWindowOperator_set N
  | KDirichlet => dirichlet_set_spec
  | KBlock => GMRFPiecewiseCoalescentBlockUpdatingOperator_set N
  | KHmc => HMCOperator_set N
  end.

Definition tune (cfg : opcfg) (os : opstate) (ap : T) : opstate :=
  match k_tuner cfg with
  | TOff => os
  | TBase =>
      let v := MCMCOperator_tune N (getf (k_kind cfg) (o_field os)) ap (k_target cfg) (o_count os) in
      mkOp (setf (k_kind cfg) v) (o_aux os) (o_count os + MCMCOperator_count_incr) (o_acc os) (o_rej os)
  | TAdaptive tgt =>
      let c := S (o_count os) in
      mkOp (AdaptiveStepSize_new N (o_field os) ap tgt c) (o_aux os) c (o_acc os) (o_rej os)
  | TDual delta t0 mu gamma =>
      let c := S (o_count os) in
      let st := DualAveragingStepSize_statistic N delta ap in
      mkOp (DualAveragingStepSize_step N (DualAveraging_x N (o_aux os) st t0 mu gamma c))
           (DualAveraging_s_bar N (o_aux os) st t0 c) c (o_acc os) (o_rej os)
  end.

(* ---------------------------------------------------------------- one iteration *)
Record rec := mkRec {
  r_op : nat;
  r_before : list T; r_lj_before : T;
  r_prop : list T;         (* proposed state *)
  r_hast : ext;            (* Hastings term returned by operator.step *)
  r_dens : ext;            (* density used for the proposed state *)
  r_u : T;                 (* uniform draw of the accept test *)
  r_ap : T;                (* acceptance_prob handed to tune *)
  r_acc : bool;
  r_after : list T; r_lj_after : T;
  r_logx : list T; r_logp : ext;   (* logger row written after the move *)
  r_op_after : opstate }.

Definition default_cfg : opcfg := mkCfg KSliding (zero N) TOff [].
Definition default_op : opstate := mkOp (one N) (zero N) O O O.

Definition step (dec : T -> T -> bool) (cfgs : list opcfg) (st : chain) (d : draws) : chain * rec :=
  let k := d_op d in
  let cfg := lk cfgs k default_cfg in
  let os := lk (c_ops st) k default_op in
  let saved := c_x st in                                   (* operator.step: saved_tensors *)
  match propose cfg os (c_x st) d with
  | (x', h) =>
      let dens := match h with Fin _ => d_eval d x' | NonFin => NonFin end in
      match mh dec (c_lj st) h dens (d_uacc d) with
      | (ap, a, lj') =>
          let x2 := if a then x' else saved in             (* operator.reject restores saved_tensors *)
          let os1 := if a then mkOp (o_field os) (o_aux os) (o_count os) (S (o_acc os)) (o_rej os)
                     else mkOp (o_field os) (o_aux os) (o_count os) (o_acc os) (S (o_rej os)) in
          let os2 := tune cfg os1 ap in
          (mkChain x2 lj' (setk (c_ops st) k os2),
           mkRec k (c_x st) (c_lj st) x' h dens (d_uacc d) ap a x2 lj' x2 (d_evlog d x2) os2)
      end
  end.

Fixpoint run (dec : T -> T -> bool) (cfgs : list opcfg) (st : chain) (ds : list draws) : chain * list rec :=
  match ds with
  | [] => (st, [])
  | d :: r =>
      match step dec cfgs st d with
      | (st1, rc) => match run dec cfgs st1 r with (st2, t) => (st2, rc :: t) end
      end
  end.

(* ---------------------------------------------------------------- proposal of the block operator's precision *)
(* propose_precision: multiplier of the precision, mixture of U(1/s, s) and s^(2u-1) *)
Definition prec_mult_uniform (s u : T) : T := add N (div N (one N) s) (mul N (sub N s (div N (one N) s)) u).
Definition prec_mult_loguniform (s u : T) : T :=
  nexp N (mul N (sub N (mul N (ofQ N 2) u) (one N)) (nln N s)).

End Mcmc.

Arguments ext : clear implicits. Arguments tuner : clear implicits. Arguments opcfg : clear implicits.
Arguments opstate : clear implicits. Arguments chain : clear implicits. Arguments draws : clear implicits.
Arguments rec : clear implicits.
Arguments Fin {T} _. Arguments NonFin {T}.
Arguments TOff {T}. Arguments TBase {T}. Arguments TAdaptive {T} _. Arguments TDual {T} _ _ _ _.
