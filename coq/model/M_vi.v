(* Variational objectives (torchtree/variational/kl.py, renyi.py, chi.py) as functions of the
   per-sample log densities returned by p() and q() on ONE draw, and the conjugate families used
   to state "q is the exact posterior".  One polymorphic term per objective: theorems at NumR,
   verified interval run at NumI (correspondence with the implementation on recorded tensors).

   Shapes: sample shape [S] = list T; sample shape [S,K] = list (list T) (S rows of K entries).
   The model is the CORRECT pairing: entry s of lp is combined with entry s of lq only (the
   implementation's p() - q(); when q() comes back as [S,1] the code broadcasts to [S,S] -- that
   is the defect reported by the check, not part of the model).                              *)
From Coq Require Import QArith List.
Import ListNotations.
From TT Require Import Num.

Section ZipWith.
Context {A B C : Type} (f : A -> B -> C).
Fixpoint zipwith (a : list A) (b : list B) : list C :=
  match a, b with
  | x :: r, y :: s => f x y :: zipwith r s
  | _, _ => []
  end.
End ZipWith.

Section VI.
Context {T : Type} (N : Num T).

(* p() - q(), elementwise on the same draw *)
Definition logw (lp lq : list T) : list T := zipwith (sub N) lp lq.

(* Tensor.mean() *)
Definition nmean (l : list T) : T := div N (nsum N l) (ofNat N (length l)).

(* torch.max over a non-empty list *)
Definition maxl (l : list T) : T :=
  match l with [] => zero N | x :: r => fold_left (nmax N) r x end.

(* torch.logsumexp(l, -1): m + ln (sum_i exp (l_i - m)), m = max l *)
Definition lse (l : list T) : T :=
  let m := maxl l in
  add N m (nln N (nsum N (map (fun x => nexp N (sub N x m)) l))).

(* x ** n for x > 0 *)
Definition npow (x : T) (n : Q) : T := nexp N (mul N (ofQ N n) (nln N x)).

(* ---- ELBO._call, len(samples) <= 1, entropy = False:  (p() - q()).mean() *)
Definition elbo (lp lq : list T) : T := nmean (logw lp lq).

(* ---- ELBO._call, len(samples) == 2:
        (logsumexp(log_p - log_q, -1) - log(float(log_p.shape[-1]))).mean()            *)
Definition iw_row (lp lq : list T) : T :=
  sub N (lse (logw lp lq)) (nln N (ofNat N (length lp))).
Definition elbo_multi (lpp lqq : list (list T)) : T := nmean (zipwith iw_row lpp lqq).

(* ---- ELBO._call, entropy = True:  p().mean() + q.entropy().sum()   (h = summed entropy) *)
Definition elbo_entropy (lp : list T) (h : T) : T := add N (nmean lp) h.

(* ---- VR._call on [S]:
        log_w = (1 - alpha) * (p() - q());
        (logsumexp(log_w, -1) - log(log_w.shape[-1])) / (1 - alpha)                     *)
Definition vr (alpha : Q) (lp lq : list T) : T :=
  let oma := sub N (one N) (ofQ N alpha) in
  let lw := map (fun x => mul N oma x) (logw lp lq) in
  div N (sub N (lse lw) (nln N (ofNat N (length lw)))) oma.
(* [S,K]: one K-sample bound per row, averaged over the S rows (as the multi-sample ELBO does).
   The implementation SUMS the rows (log_w_mean.sum(-1)): reported as a finding.            *)
Definition vr_multi (alpha : Q) (lpp lqq : list (list T)) : T :=
  nmean (zipwith (vr alpha) lpp lqq).

(* ---- CUBO._call:
        log_w = p() - q(); log_max = max(log_w);
        log(mean(exp(log_w - log_max) ** n)) / n + log_max        (mean/max over ALL entries) *)
Definition cubo (n : Q) (lp lq : list T) : T :=
  let lw := logw lp lq in
  let m := maxl lw in
  add N (div N (nln N (nmean (map (fun x => npow (nexp N (sub N x m)) n) lw))) (ofQ N n)) m.
Definition cubo_multi (n : Q) (lpp lqq : list (list T)) : T :=
  cubo n (concat lpp) (concat lqq).

(* ---- KLpq._call on [S]:
        log_w = p() - q(); log_w_norm = log_w - logsumexp(log_w, -1);
        sum(exp(log_w_norm) * log_w)                                                       *)
Definition klpq (lp lq : list T) : T :=
  let lw := logw lp lq in
  let z := lse lw in
  nsum N (map (fun x => mul N (nexp N (sub N x z)) x) lw).
(* [S,K]: self-normalised over the K draws of a row, averaged over rows.  The implementation
   subtracts a [S] tensor from a [S,K] one (raises, or mixes rows when S = K or K = 1) and sums
   over everything: reported as a finding.                                                 *)
Definition klpq_multi (lpp lqq : list (list T)) : T := nmean (zipwith klpq lpp lqq).

(* ---- what the [S] - [S,1] broadcast of the implementation computes instead of logw:
        the S x S table lp_i - lq_j (row i).  Used only to state why the plain ELBO hides it. *)
Definition cross_logw (lp lq : list T) : list (list T) :=
  map (fun p => map (fun q => sub N p q) lq) lp.
Definition elbo_cross (lp lq : list T) : T := nmean (concat (cross_logw lp lq)).

(* ====================== log densities, as torch.distributions computes them ============ *)
(* lgamma values, ln sqrt(2 pi) and log binomial coefficients are inputs (oracle values). *)

Definition nsq (x : T) : T := mul N x x.
Definition ntwo : T := add N (one N) (one N).

(* Exponential(rate).log_prob(x) = rate.log() - rate * x *)
Definition exp_lpdf (rate x : T) : T := sub N (nln N rate) (mul N rate x).
(* Gamma(a, b).log_prob(x) = xlogy(a, b) + xlogy(a - 1, x) - b * x - lgamma(a) *)
Definition gamma_lpdf (a b lga x : T) : T :=
  sub N (sub N (add N (mul N a (nln N b)) (mul N (sub N a (one N)) (nln N x))) (mul N b x)) lga.
(* Poisson(rate).log_prob(k) = xlogy(k, rate) - rate - lgamma(k + 1) *)
Definition poisson_lpmf (rate k lgk1 : T) : T :=
  sub N (sub N (mul N k (nln N rate)) rate) lgk1.
(* Normal(mu, sigma).log_prob(x) = -(x - mu)^2 / (2 sigma^2) - ln sigma - ln sqrt(2 pi) *)
Definition normal_lpdf (hl2pi mu sigma x : T) : T :=
  sub N (sub N (opp N (div N (nsq (sub N x mu)) (mul N ntwo (nsq sigma)))) (nln N sigma)) hl2pi.
(* Beta(a, b).log_prob(x) = (a-1) ln x + (b-1) ln (1-x) - lB,  lB = lgamma a + lgamma b - lgamma (a+b) *)
Definition beta_lpdf (a b lB x : T) : T :=
  sub N (add N (mul N (sub N a (one N)) (nln N x))
               (mul N (sub N b (one N)) (nln N (sub N (one N) x)))) lB.
(* Binomial(n, probs = p).log_prob(k) = lC + k ln p + (n - k) ln (1 - p), lC = ln C(n,k) *)
Definition binom_lpmf (n k lC p : T) : T :=
  add N (add N lC (mul N k (nln N p))) (mul N (sub N n k) (nln N (sub N (one N) p))).
(* LogNormal(m, s).log_prob(z) = Normal(m, s).log_prob(ln z) - ln z *)
Definition lognormal_lpdf (hl2pi m s z : T) : T :=
  sub N (normal_lpdf hl2pi m s (nln N z)) (nln N z).

(* log |dz/du| of the constraining transforms: ExpTransform, SigmoidTransform, AffineTransform *)
Definition exp_ladj (u : T) : T := u.
Definition sigmoid_of (u : T) : T := div N (one N) (add N (one N) (nexp N (opp N u))).
Definition sigmoid_ladj (u : T) : T :=
  let z := sigmoid_of u in add N (nln N z) (nln N (sub N (one N) z)).

(* ====================== conjugate pairs: joint, posterior, log marginal ================== *)

Definition nlen (xs : list T) : T := ofNat N (length xs).

(* gamma prior (a, b) on the rate z of exponential observations xs *)
Definition ge_lp (a b lga : T) (xs : list T) (z : T) : T :=
  add N (nsum N (map (exp_lpdf z) xs)) (gamma_lpdf a b lga z).
Definition ge_lq (a b lgan : T) (xs : list T) (z : T) : T :=
  gamma_lpdf (add N a (nlen xs)) (add N b (nsum N xs)) lgan z.
Definition ge_logml (a b lga lgan : T) (xs : list T) : T :=
  sub N (add N (sub N (mul N a (nln N b)) lga) lgan)
        (mul N (add N a (nlen xs)) (nln N (add N b (nsum N xs)))).

(* gamma prior (a, b) on the rate z of Poisson counts ks; lgs = [lgamma (k+1)] *)
Definition gp_lp (a b lga : T) (ks lgs : list T) (z : T) : T :=
  add N (nsum N (zipwith (poisson_lpmf z) ks lgs)) (gamma_lpdf a b lga z).
Definition gp_lq (a b lgas : T) (ks : list T) (z : T) : T :=
  gamma_lpdf (add N a (nsum N ks)) (add N b (nlen ks)) lgas z.
Definition gp_logml (a b lga lgas : T) (ks lgs : list T) : T :=
  sub N (sub N (add N (sub N (mul N a (nln N b)) lga) lgas)
               (mul N (add N a (nsum N ks)) (nln N (add N b (nlen ks)))))
        (nsum N lgs).

(* normal prior (m0, s0) on the mean z of normal observations xs with known sigma;
   posterior N(m1, s1) with 1/s1^2 = 1/s0^2 + n/sigma^2, m1 = s1^2 (m0/s0^2 + sum xs/sigma^2) *)
Definition nn_lp (hl2pi m0 s0 sigma : T) (xs : list T) (z : T) : T :=
  add N (nsum N (map (normal_lpdf hl2pi z sigma) xs)) (normal_lpdf hl2pi m0 s0 z).
Definition nn_lq (hl2pi m1 s1 : T) (z : T) : T := normal_lpdf hl2pi m1 s1 z.
Definition nn_logml (hl2pi m0 s0 sigma m1 s1 : T) (xs : list T) : T :=
  sub N (add N (sub N (opp N (mul N (nlen xs) (add N (nln N sigma) hl2pi))) (nln N s0)) (nln N s1))
        (div N (sub N (add N (div N (nsum N (map nsq xs)) (nsq sigma)) (div N (nsq m0) (nsq s0)))
                      (div N (nsq m1) (nsq s1))) ntwo).

(* beta prior (a, b) on the success probability z of one binomial observation k out of n *)
Definition bb_lp (a b lB n k lC : T) (z : T) : T :=
  add N (binom_lpmf n k lC z) (beta_lpdf a b lB z).
Definition bb_lq (a b lBpost n k : T) (z : T) : T :=
  beta_lpdf (add N a k) (add N b (sub N n k)) lBpost z.
Definition bb_logml (lB lBpost lC : T) : T := sub N (add N lC lBpost) lB.

(* the same families with the latent expressed through a constraining transform z = g(u);
   the Jacobian term log|dz/du| is added to the joint AND belongs to the density of u under q *)
Definition ge_exp_lp (a b lga : T) (xs : list T) (u : T) : T :=
  add N (ge_lp a b lga xs (nexp N u)) (exp_ladj u).
Definition ge_exp_lq (a b lgan : T) (xs : list T) (u : T) : T :=
  add N (ge_lq a b lgan xs (nexp N u)) (exp_ladj u).
Definition bb_sig_lp (a b lB n k lC : T) (u : T) : T :=
  add N (bb_lp a b lB n k lC (sigmoid_of u)) (sigmoid_ladj u).
Definition bb_sig_lq (a b lBpost n k : T) (u : T) : T :=
  add N (bb_lq a b lBpost n k (sigmoid_of u)) (sigmoid_ladj u).

(* normal-normal with z = loc + scale * u (AffineTransform, log|dz/du| = ln|scale|, given as
   lns); q is a plain normal on u: N((m1 - loc)/scale, s1/|scale|), |scale| given as ascale *)
Definition nn_aff_lp (hl2pi m0 s0 sigma loc scale lns : T) (xs : list T) (u : T) : T :=
  add N (nn_lp hl2pi m0 s0 sigma xs (add N loc (mul N scale u))) lns.
Definition nn_aff_lq (hl2pi m1 s1 loc scale ascale : T) (u : T) : T :=
  normal_lpdf hl2pi (div N (sub N m1 loc) scale) (div N s1 ascale) u.

(* log-normal prior (m0, s0) on z = exp u, observations xs ~ Normal(ln z, sigma), Jacobian u;
   q is a plain normal N(m1, s1) on the unconstrained u (the shape the CLI emits)           *)
Definition lnn_lp (hl2pi m0 s0 sigma : T) (xs : list T) (u : T) : T :=
  let z := nexp N u in
  add N (add N (nsum N (map (normal_lpdf hl2pi (nln N z) sigma) xs)) (lognormal_lpdf hl2pi m0 s0 z))
        (exp_ladj u).

End VI.
