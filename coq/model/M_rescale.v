(* Rescaled pruning (calculate_treelikelihood_discrete_rescaled / _safe / tip-states variant) and
   the rescale flag of TreeLikelihoodModel.  [sc] is the scaler chosen at a node from the K
   category partial vectors: the code takes the maximum over categories x states (rescaled), or
   leaves the node alone = scaler 1 (the _safe variant for nodes above the threshold). *)
From Coq Require Import QArith List Arith.
Import ListNotations.
From TT Require Import Num Tree M_like.

Section Rescale.
Context {T : Type} (N : Num T).
Variable S : nat.
Variable sc : list (list T) -> T.

Fixpoint zip3 (Ps : list (nat -> list (list T))) (a b : list (list T)) (il ir : nat) : list (list T) :=
  match Ps, a, b with
  | P :: Pr, x :: ar, y :: br => vmul N (matvec N (P il) x) (matvec N (P ir) y) :: zip3 Pr ar br il ir
  | _, _, _ => []
  end.

(* returns (rescaled partials per category, sum of ln scalers) *)
Fixpoint prune_rs (Ps : list (nat -> list (list T))) (tip : nat -> list T) (t : itree) : list (list T) * T :=
  match t with
  | ILeaf i => (map (fun _ => tip i) Ps, zero N)
  | INode _ l r =>
      match prune_rs Ps tip l, prune_rs Ps tip r with
      | (pl, sl), (pr, sr) =>
          let partial := zip3 Ps pl pr (iidx l) (iidx r) in
          let c := sc partial in
          (map (vscale N (div N (one N) c)) partial, add N (nln N c) (add N sl sr))
      end
  end.

Fixpoint mixv (ws : list T) (vs : list (list T)) : list T :=
  match ws, vs with
  | w :: wr, v :: vr => vadd N (vscale N w v) (mixv wr vr)
  | _, _ => repeat (zero N) S
  end.

(* log(freqs @ sum_k props_k partial_root,k) + sum of log scalers *)
Definition site_loglik_rs (freqs : list T) Ps (props : list T) tip t : T :=
  match prune_rs Ps tip t with
  | (ps, s) => add N (nln N (ndot N freqs (mixv props ps))) s
  end.
End Rescale.

(* The rescale flag across a history of evaluations: it is switched on when the plain result is
   infinite (the implementation's decision on doubles is an input) and never switched off. *)
Definition flag_step (flag : bool) (plain_result_infinite : bool) : bool := orb flag plain_result_infinite.
Definition flag_after (history : list bool) (flag0 : bool) : bool := fold_left flag_step history flag0.
