(* Birth-death skyline density (torchtree/evolution/bdsk.py: PiecewiseConstantBirthDeath,
   epidemiology_to_birth_death, BDSKModel._call) and the constant-rate birth-death-sampling
   density (torchtree/evolution/birth_death.py: BirthDeath, BirthDeathModel._call).

   One term, polymorphic in [Num T].  Control flow (epoch lookup = searchsorted, lineage counts,
   "is this tip a rho-sample", "is rho > 0") is decided on the exact rational images of the
   doubles only: event times, epoch boundaries and rho are [Q]; rates are [T].

   Time runs forward as in the code: times[0] = 0 is the origin, times[m] = T the present, epoch i
   is [t_i, t_{i+1}) and rho_i is the sampling probability at its END t_{i+1}.  x = T - height of
   an internal node, y = T - height of a tip.

   The model is the code's computation, except where the code violates C09; there it is the
   correct density (each item is reproduced against the code by harness/props/c09.py):
     - a tip lying exactly on an internal boundary t_i belongs to the epoch that ENDS there
       (searchsorted side 'left'; the code takes the epoch that starts there, but does not count
       the lineage as crossing the boundary) and the rho that decides whether it is a rho-sample
       is the rho of that boundary;
     - rho-sampled tips at several boundaries: sum of N_j ln rho_j (the code raises);
     - removal probability with m > 1: psi-tip term with the rates of the tip's epoch, and
       N_j ln (r_{j+1} + (1 - r_{j+1}) p_{j+1}(t_{j+1})) for rho-tips at internal boundaries
       (the code raises on every such input);
     - relative times are scaled by the origin BEFORE the origin is appended (harness side);
     - BirthDeath (constant model): rho-sampled tips contribute rho, not psi / nothing. *)
From Coq Require Import QArith List Bool Arith ZArith.
Import ListNotations.
From TT Require Import Num Tree.

Record epoch (T : Type) := mkEp { elam : T; emu : T; epsi : T; erho : Q; et0 : Q; et1 : Q }.
Record sol (T : Type) := mkSol { sA : T; sB : T; sp : T }.   (* sp = p_i at the START of the epoch *)
Arguments mkEp {T} _ _ _ _ _ _. Arguments elam {T} _. Arguments emu {T} _. Arguments epsi {T} _.
Arguments erho {T} _. Arguments et0 {T} _. Arguments et1 {T} _.
Arguments mkSol {T} _ _ _. Arguments sA {T} _. Arguments sB {T} _. Arguments sp {T} _.

Definition Qlt_bool (a b : Q) : bool := negb (Qle_bool b a).
Definition Qpos_bool (a : Q) : bool := Qlt_bool 0 a.

Fixpoint count_if (f : Q -> bool) (l : list Q) : nat :=
  match l with [] => O | x :: r => if f x then S (count_if f r) else count_if f r end.

Definition clampi (i m : nat) : nat := if Nat.ltb i m then i else nsub m 1.
(* torch.searchsorted(times, x, right=True) - 1, clamped into 0..m-1 *)
Definition idx_right (times : list Q) (x : Q) (m : nat) : nat :=
  clampi (nsub (count_if (fun t => Qle_bool t x) times) 1) m.
(* torch.searchsorted(times, y, right=False) - 1, clamped into 0..m-1 *)
Definition idx_left (times : list Q) (y : Q) (m : nat) : nat :=
  clampi (nsub (count_if (fun t => Qlt_bool t y) times) 1) m.

Fixpoint lastq (l : list Q) (d : Q) : Q :=
  match l with [] => d | x :: r => lastq r x end.

Section BDSK.
Context {T : Type} (N : Num T).
Local Notation "a +! b" := (add N a b) (at level 50, left associativity).
Local Notation "a -! b" := (sub N a b) (at level 50, left associativity).
Local Notation "a *! b" := (mul N a b) (at level 40, left associativity).
Local Notation "a /! b" := (div N a b) (at level 40, left associativity).

Definition c1 : T := one N.
Definition c2 : T := ofQ N 2.
Definition c4 : T := ofQ N 4.
Definition sqr (x : T) : T := x *! x.

(* epidemiology_to_birth_death *)
Definition epi_to_bd (R delta s : T) (r : option T) : T * T * T :=
  match r with
  | None => (R *! delta, delta -! s *! delta, s *! delta)
  | Some r =>
      let psi := (s *! delta) /! (c1 +! (r -! c1) *! s) in
      (R *! delta, delta -! psi *! r, psi)
  end.

(* ---- closed forms of one epoch; E = exp (A * tau), tau = time left to the END of the epoch ---- *)
Definition Aof (lam mu psi : T) : T := nsqrt N (sqr (lam -! mu -! psi) +! c4 *! lam *! psi).
Definition Bof (lam mu psi A rho pnext : T) : T :=
  ((c1 -! c2 *! (c1 -! rho) *! pnext) *! lam +! mu +! psi) /! A.
Definition uform (B E : T) : T :=
  (E *! (c1 +! B) -! (c1 -! B)) /! (E *! (c1 +! B) +! (c1 -! B)).
(* p0: probability that a lineage alive tau before the end of the epoch leaves no sample *)
Definition p0form (lam mu psi A B E : T) : T :=
  ((lam +! mu +! psi) -! A *! uform B E) /! (c2 *! lam).
(* exp(log_q): density factor of a lineage between tau before the end of the epoch and its end *)
Definition qform (B E : T) : T := (c4 *! E) /! sqr (E *! (c1 +! B) +! (c1 -! B)).

Definition tauT (t1 t : Q) : T := ofQ N t1 -! ofQ N t.
Definition Eat (A : T) (t1 t : Q) : T := nexp N (A *! tauT t1 t).
Definition log_q (e : epoch T) (s : sol T) (t : Q) : T :=
  nln N (qform (sB s) (Eat (sA s) (et1 e) t)).
Definition p_at (e : epoch T) (s : sol T) (t : Q) : T :=
  p0form (elam e) (emu e) (epsi e) (sA s) (sB s) (Eat (sA s) (et1 e) t).

(* log_p: backward recursion over the epochs (last epoch first); returns the solved epochs and p
   at the start of the first epoch of the list; p beyond the present is 1 *)
Definition solve_epoch (e : epoch T) (pnext : T) : sol T :=
  let A := Aof (elam e) (emu e) (epsi e) in
  let B := Bof (elam e) (emu e) (epsi e) A (ofQ N (erho e)) pnext in
  mkSol A B (p0form (elam e) (emu e) (epsi e) A B (Eat A (et1 e) (et0 e))).

Fixpoint back (eps : list (epoch T)) : list (sol T) * T :=
  match eps with
  | [] => ([], c1)
  | e :: r =>
      match back r with
      | (l, pn) => let s := solve_epoch e pn in (s :: l, sp s)
      end
  end.

Definition e_dflt : epoch T := mkEp (zero N) (zero N) (zero N) 0%Q 0%Q 0%Q.
Definition s_dflt : sol T := mkSol (zero N) (zero N) (zero N).

Definition times_of (eps : list (epoch T)) : list Q :=
  match eps with [] => [] | e :: r => et0 e :: et1 e :: map (fun e => et1 e) r end.

(* --- the terms of log_prob --- *)
Definition birth_term (times : list Q) (m : nat) (es : list (epoch T * sol T)) (x : Q) : T :=
  match lk es (idx_right times x m) (e_dflt, s_dflt) with
  | (e, s) => nln N (elam e) +! log_q e s x
  end.

(* a tip is a rho-sample iff it lies on the end of an epoch with rho > 0 *)
Definition is_rho_tip (eps : list (epoch T)) (y : Q) : bool :=
  existsb (fun e => Qeq_bool (et1 e) y && Qpos_bool (erho e)) eps.

Definition tip_term (times : list Q) (m : nat) (eps : list (epoch T)) (es : list (epoch T * sol T))
           (r : option (list T)) (y : Q) : T :=
  if is_rho_tip eps y then zero N
  else
    let i := idx_left times y m in
    match lk es i (e_dflt, s_dflt) with
    | (e, s) =>
        match r with
        | None => nln N (epsi e) -! log_q e s y
        | Some rl =>
            let ri := lk rl i (zero N) in
            nln N (epsi e *! (ri +! (c1 -! ri) *! p_at e s y)) -! log_q e s y
        end
    end.

(* boundaries t_i, i = 1..m-1: walks consecutive pairs (epoch i-1, epoch i) *)
Fixpoint boundary_terms (xs ys : list Q) (prev : epoch T) (es : list (epoch T * sol T)) : T :=
  match es with
  | [] => zero N
  | (e, s) :: rest =>
      let ni := (Z.of_nat (count_if (fun x => Qlt_bool x (et0 e)) xs) + 1
                 - Z.of_nat (count_if (fun y => Qle_bool y (et0 e)) ys))%Z in
      ofZ N ni *! (log_q e s (et0 e) +! nln N (c1 -! ofQ N (erho prev)))
      +! boundary_terms xs ys e rest
  end.

(* N_j ln rho_j over the ends of all epochs *)
Fixpoint rho_terms (ys : list Q) (eps : list (epoch T)) : T :=
  match eps with
  | [] => zero N
  | e :: rest =>
      let Nj := count_if (fun y => Qeq_bool (et1 e) y) ys in
      (if Nat.ltb 0 Nj && Qpos_bool (erho e) then ofNat N Nj *! nln N (ofQ N (erho e)) else zero N)
      +! rho_terms ys rest
  end.

(* rho-tips at internal boundaries that are not removed must leave no further sample *)
Fixpoint removal_terms (ys : list Q) (prev : epoch T) (es : list (epoch T * sol T)) (rl : list T) : T :=
  match es with
  | [] => zero N
  | (e, s) :: rest =>
      match rl with
      | [] => zero N
      | ri :: rl' =>
          let Nj := count_if (fun y => Qeq_bool (et1 prev) y) ys in
          (if Nat.ltb 0 Nj && Qpos_bool (erho prev)
           then ofNat N Nj *! nln N (ri +! (c1 -! ri) *! sp s) else zero N)
          +! removal_terms ys e rest rl'
      end
  end.

(* first term q_0(0) (the code writes the literal 0 for the origin), survival conditioning *)
Definition first_term (e0 : epoch T) (s0 : sol T) : T :=
  nln N (qform (sB s0) (nexp N (sA s0 *! (ofQ N (et1 e0) -! zero N)))).
Definition surv_term (survival : bool) (e0 : epoch T) (s0 : sol T) : T :=
  if survival then first_term e0 s0 -! nln N (c1 -! sp s0) else first_term e0 s0.
Definition births_sum (times : list Q) (m : nat) (es : list (epoch T * sol T)) (xs : list Q) : T :=
  nsum N (map (birth_term times m es) xs).
Definition tips_sum (serial : bool) (times : list Q) (m : nat) (eps : list (epoch T))
           (es : list (epoch T * sol T)) (r : option (list T)) (ys : list Q) : T :=
  if serial then nsum N (map (tip_term times m eps es r) ys) else zero N.
Definition removal_part (r : option (list T)) (ys : list Q) (e0 : epoch T)
           (es' : list (epoch T * sol T)) (ntips : nat) : T :=
  match r with
  | None => zero N
  | Some rl =>
      (match rl with [] => zero N | _ :: rl' => removal_terms ys e0 es' rl' end)
      +! nln N c2 *! ofNat N (nsub ntips 1)
  end.

Definition log_prob (survival : bool) (r : option (list T)) (eps : list (epoch T))
           (tips ints : list Q) : T :=
  let m := length eps in
  let times := times_of eps in
  let Tq := lastq times 0%Q in
  let xs := map (fun h => (Tq - h)%Q) ints in
  let ys := map (fun h => (Tq - h)%Q) tips in
  let es := combine eps (fst (back eps)) in
  let serial := existsb Qpos_bool tips in
  match es with
  | [] => zero N
  | (e0, s0) :: es' =>
      surv_term survival e0 s0 +! births_sum times m es xs +! tips_sum serial times m eps es r ys
      +! boundary_terms xs ys e0 es' +! rho_terms ys eps +! removal_part r ys e0 es' (length tips)
  end.

(* ---- building the epochs from the tensors of the code ---- *)
Fixpoint mk_epochs (lam mu psi : list T) (rho times : list Q) {struct lam} : list (epoch T) :=
  match lam, mu, psi, rho, times with
  | l :: lam', u :: mu', p :: psi', r :: rho', t0 :: t1 :: tr =>
      mkEp l u p r t0 t1 :: mk_epochs lam' mu' psi' rho' (t1 :: tr)
  | _, _, _, _, _ => []
  end.

(* rho shorter than m: zeros are added in front ("rho.shape[-1] < m" / default zeros(1)) *)
Definition pad_rho (m : nat) (rho : list Q) : list Q := repeat 0%Q (nsub m (length rho)) ++ rho.

Definition pw_log_prob (survival : bool) (r : option (list T)) (lam mu psi : list T)
           (rho times tips ints : list Q) : T :=
  log_prob survival r (mk_epochs lam mu psi (pad_rho (length lam) rho) times) tips ints.

(* BDSKModel._call: epidemiological parameters, per epoch *)
Fixpoint epi_lists (R delta s : list T) (r : option (list T)) : list T * list T * list T :=
  match R, delta, s with
  | a :: R', d :: delta', b :: s' =>
      let ri := match r with None => None | Some [] => None | Some (x :: _) => Some x end in
      let r' := match r with None => None | Some [] => Some [] | Some (_ :: t) => Some t end in
      match epi_to_bd a d b ri, epi_lists R' delta' s' r' with
      | (l, u, p), (ll, ul, pl) => (l :: ll, u :: ul, p :: pl)
      end
  | _, _, _ => ([], [], [])
  end.

Definition bdsk_model_log_prob (survival : bool) (r : option (list T)) (R delta s : list T)
           (rho times tips ints : list Q) : T :=
  match epi_lists R delta s r with
  | (lam, mu, psi) => pw_log_prob survival r lam mu psi rho times tips ints
  end.

(* ---- BirthDeath.log_prob: constant rates, written independently in the code ---- *)
Definition bd_log_q (A B : T) (origin t : Q) : T := nln N (qform B (Eat A origin t)).

Definition bd_A (lam mu psi : T) : T := Aof lam mu psi.
Definition bd_B (lam mu psi : T) (rho : Q) : T :=
  ((c1 -! c2 *! (c1 -! ofQ N rho)) *! lam +! mu +! psi) /! bd_A lam mu psi.
Definition bd_p (lam mu psi : T) (rho origin : Q) : T :=
  let A := bd_A lam mu psi in let B := bd_B lam mu psi rho in
  let term := nexp N (A *! ofQ N origin) *! (c1 +! B) in
  ((lam +! mu +! psi) -! A *! (term -! (c1 -! B)) /! (term +! (c1 -! B))) /! (c2 *! lam).
Definition bd_q0 (lam mu psi : T) (rho origin : Q) : T :=
  let A := bd_A lam mu psi in let B := bd_B lam mu psi rho in
  let e := nexp N (opp N A *! ofQ N origin) in
  (c4 *! e) /! sqr (e *! (c1 -! B) +! (c1 +! B)).
Definition bd_surv (survival : bool) (lam mu psi : T) (rho origin : Q) : T :=
  if survival then nln N (bd_q0 lam mu psi rho origin) -! nln N (c1 -! bd_p lam mu psi rho origin)
  else nln N (bd_q0 lam mu psi rho origin).
Definition bd_births (lam mu psi : T) (rho origin : Q) (xs : list Q) : T :=
  nsum N (map (fun x => nln N lam +! bd_log_q (bd_A lam mu psi) (bd_B lam mu psi rho) origin x) xs).
Definition bd_tips (serial : bool) (lam mu psi : T) (rho origin : Q) (ys : list Q) : T :=
  if serial
  then nsum N (map (fun y => if Qeq_bool origin y && Qpos_bool rho then zero N
                             else nln N psi -! bd_log_q (bd_A lam mu psi) (bd_B lam mu psi rho) origin y) ys)
  else zero N.
Definition bd_rho (rho origin : Q) (ys : list Q) : T :=
  let Nr := count_if (fun y => Qeq_bool origin y) ys in
  if Nat.ltb 0 Nr && Qpos_bool rho then ofNat N Nr *! nln N (ofQ N rho) else zero N.

Definition bd_log_prob (survival : bool) (lam mu psi : T) (rho origin : Q) (tips ints : list Q) : T :=
  let xs := map (fun h => (origin - h)%Q) ints in
  let ys := map (fun h => (origin - h)%Q) tips in
  let serial := existsb Qpos_bool tips in
  bd_surv survival lam mu psi rho origin +! bd_births lam mu psi rho origin xs
  +! bd_tips serial lam mu psi rho origin ys +! bd_rho rho origin ys.

End BDSK.
