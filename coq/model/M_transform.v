(* Changes of variables shipped with torchtree (distributions/transforms.py, rate_transform.py) and
   the torch transforms the CLI emits: forward map, inverse, and the log |det Jacobian| each must
   report (sum of ln of the diagonal of the triangular Jacobian).  Polymorphic in Num. *)
From Coq Require Import QArith List Arith.
Import ListNotations.
From TT Require Import Num Tree.

Section Transform.
Context {T : Type} (N : Num T).

Fixpoint cumsum_from (acc : T) (l : list T) : list T :=
  match l with [] => [] | x :: r => add N acc x :: cumsum_from (add N acc x) r end.
Definition cumsum (l : list T) : list T := cumsum_from (zero N) l.
Fixpoint diffs (prev : T) (l : list T) : list T :=
  match l with [] => [] | y :: r => sub N y prev :: diffs y r end.

(* scalar building blocks *)
Definition softplus (x : T) : T := nln N (add N (one N) (nexp N x)).
Definition softplus_inv (y : T) : T := nln N (sub N (nexp N y) (one N)).          (* log(expm1 y) *)
Definition log_sigmoid (x : T) : T := opp N (softplus (opp N x)).                 (* -softplus(-x) *)
Definition sigmoid (x : T) : T := div N (one N) (add N (one N) (nexp N (opp N x))).

(* CumSumTransform *)
Definition cumsum_fwd := cumsum.
Definition cumsum_inv (y : list T) : list T := diffs (zero N) y.
Definition cumsum_logdet (x : list T) : T := zero N.

(* CumSumExpTransform: y_i = exp(c_i); d y_i / d x_i = exp(c_i) *)
Definition cumsumexp_fwd (x : list T) : list T := map (nexp N) (cumsum x).
Definition cumsumexp_inv (y : list T) : list T := diffs (zero N) (map (nln N) y).
Definition cumsumexp_logdet (x : list T) : T := nsum N (cumsum x).

(* SoftPlusTransform (elementwise; the report is per element) *)
Definition softplus_fwd (x : list T) : list T := map softplus x.
Definition softplus_inv_l (y : list T) : list T := map softplus_inv y.
Definition softplus_logdet (x : list T) : list T := map log_sigmoid x.

(* CumSumSoftPlusTransform: y_i = softplus(c_i); d y_i / d x_i = sigmoid(c_i) *)
Definition cumsumsoftplus_fwd (x : list T) : list T := map softplus (cumsum x).
Definition cumsumsoftplus_inv (y : list T) : list T := diffs (zero N) (map softplus_inv y).
Definition cumsumsoftplus_logdet (x : list T) : T := nsum N (map log_sigmoid (cumsum x)).

(* LogTransform (elementwise): y = ln x, d y/d x = 1/x, report -y *)
Definition log_fwd (x : list T) : list T := map (nln N) x.
Definition log_inv (y : list T) : list T := map (nexp N) y.
Definition log_logdet (x : list T) : list T := map (fun v => opp N (nln N v)) x.

(* torch ExpTransform / SigmoidTransform / AffineTransform (elementwise) *)
Definition exp_fwd (x : list T) : list T := map (nexp N) x.
Definition exp_inv (y : list T) : list T := map (nln N) y.
Definition exp_logdet (x : list T) : list T := x.
Definition sigmoid_fwd (x : list T) : list T := map sigmoid x.
Definition sigmoid_inv (y : list T) : list T := map (fun v => sub N (nln N v) (nln N (sub N (one N) v))) y.
Definition sigmoid_logdet (x : list T) : list T := map (fun v => sub N (log_sigmoid v) (softplus v)) x.
Definition affine_fwd (loc scale : T) (x : list T) : list T := map (fun v => add N loc (mul N scale v)) x.
Definition affine_inv (loc scale : T) (y : list T) : list T := map (fun v => div N (sub N v loc) scale) y.

(* LogDifferenceRateTransform on a tree: x = rates of the non-root nodes by node index, root rate 1;
   y_j = ln r_child - ln r_parent over the pre-order (parent, child) pairs;
   the Jacobian is triangular in pre-order with diagonal 1/x_child: log|det| = - sum ln x *)
Definition rate_of (x : list T) (root : nat) (i : nat) : T := if Nat.eqb i root then one N else lk x i (one N).
Definition logdiff_fwd (x : list T) (t : itree) : list T :=
  map (fun pc => sub N (nln N (rate_of x (iidx t) (snd pc))) (nln N (rate_of x (iidx t) (fst pc)))) (preorder t).
Definition logdiff_logdet (x : list T) : T := opp N (nsum N (map (nln N) x)).
End Transform.
