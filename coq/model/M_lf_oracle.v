(* Gradient oracle for targets whose gradient is not a rational function (gamma via transforms,
   phylogenetic posteriors): a table (position, dU) recorded per call from the implementation and
   validated against autograd on a freshly built model.  [table_grad tab] is a FUNCTION of the
   position (as the theorems about [leapfrog] require): it returns the recorded gradient of the
   nearest recorded position (exact rational comparison of squared distances).
   Executable adaptor for the NumQ run only; no proofs. *)
From Coq Require Import QArith List.
From Bignums Require Import BigQ.
Import ListNotations.
From TT Require Import Num NumQ M_leapfrog.

Definition dist2 (a b : list qo) : qo :=
  nsum NumQ (map (fun d => mul NumQ d d) (vsub NumQ a b)).

Definition qlt (a b : qo) : bool :=
  match a, b with
  | Some x, Some y => match BigQ.compare x y with Lt => true | _ => false end
  | _, _ => false
  end.

Fixpoint nearest (q : list qo) (tab : list (list qo * list qo)) (best : qo * list qo) : qo * list qo :=
  match tab with
  | [] => best
  | kg :: r =>
      let d := dist2 (fst kg) q in
      nearest q r (if qlt d (fst best) then (d, snd kg) else best)
  end.

Definition table_grad (tab : list (list qo * list qo)) (q : list qo) : list qo :=
  match tab with
  | [] => []
  | kg :: r => snd (nearest q r (dist2 (fst kg) q, snd kg))
  end.
