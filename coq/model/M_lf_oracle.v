(* Exact dyadic instance of [Num] for the leapfrog runs, and the gradient-oracle adaptor: a value is m * 2^e with m a big integer
   (Bignums) and e : Z, [None] = undefined.  Every double is such a number, sums and products of
   such numbers are computed exactly WITHOUT any gcd normalisation (the rational instance NumQ
   spends its time in gcds: 30 leapfrog steps produce 5000-bit numerators).  Division is defined
   only by +-2^k (the model divides by 2 only); exp/ln/sqrt/max have no dyadic value.
   Executable definitions only; the relation to the real-valued model is proved in
   proof/P_leapfrog_param.v. *)
From Coq Require Import QArith ZArith List.
From Bignums Require Import BigZ.
Import ListNotations.
From TT Require Import Num M_leapfrog.

Definition dy := option (bigZ * Z).

(* p = 2^k ? *)
Fixpoint pos_log2_exact (p : positive) : option Z :=
  match p with
  | xH => Some 0%Z
  | xO r => match pos_log2_exact r with Some k => Some (Z.succ k) | None => None end
  | xI _ => None
  end.

Definition dshift (m : bigZ) (k : Z) : bigZ := BigZ.shiftl m (BigZ.of_Z k).

Definition d2 (f : bigZ -> bigZ -> bigZ) (a b : dy) : dy :=
  match a, b with
  | Some (m1, e1), Some (m2, e2) =>
      if (e1 <=? e2)%Z then Some (f m1 (dshift m2 (e2 - e1)), e1)
      else Some (f (dshift m1 (e1 - e2)) m2, e2)
  | _, _ => None
  end.
Definition dmul (a b : dy) : dy :=
  match a, b with
  | Some (m1, e1), Some (m2, e2) => Some (BigZ.mul m1 m2, (e1 + e2)%Z)
  | _, _ => None
  end.
Definition dopp (a : dy) : dy :=
  match a with Some (m, e) => Some (BigZ.opp m, e) | None => None end.
Definition ddiv (a b : dy) : dy :=
  match a, b with
  | Some (m1, e1), Some (m2, e2) =>
      match BigZ.to_Z m2 with
      | Zpos p => match pos_log2_exact p with Some k => Some (m1, (e1 - e2 - k)%Z) | None => None end
      | Zneg p => match pos_log2_exact p with Some k => Some (BigZ.opp m1, (e1 - e2 - k)%Z) | None => None end
      | Z0 => None
      end
  | _, _ => None
  end.
Definition dofQ (q : Q) : dy :=
  match pos_log2_exact (Qden q) with
  | Some k => Some (BigZ.of_Z (Qnum q), (- k)%Z)
  | None => None
  end.

Definition NumDy : Num dy :=
  mkNum dy (Some (BigZ.zero, 0%Z)) (Some (BigZ.one, 0%Z)) (d2 BigZ.add) (d2 BigZ.sub) dmul ddiv dopp dofQ
        (fun _ => None) (fun _ => None) (fun _ => None) (fun _ _ => None).

Definition sd (q : Q) : dy := dofQ q.

(* harness output: [tag; mantissa; exponent], tag 0 = undefined *)
Definition show_d (a : dy) : list bigZ :=
  match a with
  | Some (m, e) => [BigZ.one; m; BigZ.of_Z e]
  | None => [BigZ.zero; BigZ.zero; BigZ.zero]
  end.

(* ---- gradient oracle: a table (position, dU) recorded per call from the implementation and
   validated against autograd on a freshly built model.  [table_grad tab] is a FUNCTION of the
   position (as the theorems about [leapfrog] require): the recorded gradient of the nearest
   recorded position (exact comparison of squared distances). *)
Definition dlt (a b : dy) : bool :=
  match d2 BigZ.sub a b with
  | Some (m, _) => match BigZ.compare m BigZ.zero with Lt => true | _ => false end
  | None => false
  end.

Definition ddist2 (a b : list dy) : dy :=
  nsum NumDy (map (fun d => dmul d d) (vsub NumDy a b)).

Fixpoint dnearest (q : list dy) (tab : list (list dy * list dy)) (best : dy * list dy) : dy * list dy :=
  match tab with
  | [] => best
  | kg :: r =>
      let d := ddist2 (fst kg) q in
      dnearest q r (if dlt d (fst best) then (d, snd kg) else best)
  end.

Definition table_grad_d (tab : list (list dy * list dy)) (q : list dy) : list dy :=
  match tab with
  | [] => []
  | kg :: r => snd (dnearest q r (ddist2 (fst kg) q, snd kg))
  end.
