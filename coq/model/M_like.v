(* Felsenstein pruning as tree_likelihood.py computes it, and the brute-force marginalisation
   it must equal.  Polymorphic in Num; vectors/matrices are lists; transition matrices are given
   per (node index, rate category) — which matrix goes with which node is part of the model. *)
From Coq Require Import QArith List Arith.
Import ListNotations.
From TT Require Import Num Tree.

Section Like.
Context {T : Type} (N : Num T).
Variable S : nat.                          (* number of states *)

Definition vec := list T.
Definition mat := list (list T).

Definition matvec (M : mat) (v : vec) : vec := map (fun row => ndot N row v) M.
Fixpoint vmul (a b : vec) : vec :=
  match a, b with x :: r, y :: s => mul N x y :: vmul r s | _, _ => [] end.
Fixpoint vadd (a b : vec) : vec :=
  match a, b with x :: r, y :: s => add N x y :: vadd r s | _, _ => [] end.
Definition vscale (c : T) (a : vec) : vec := map (mul N c) a.

(* calculate_treelikelihood_discrete: partials[node] = (M[left] @ p[left]) * (M[right] @ p[right]),
   for one rate category and one site pattern.  P j = matrix on the branch above node j. *)
Fixpoint prune (P : nat -> mat) (tip : nat -> vec) (t : itree) : vec :=
  match t with
  | ILeaf i => tip i
  | INode _ l r => vmul (matvec (P (iidx l)) (prune P tip l)) (matvec (P (iidx r)) (prune P tip r))
  end.

(* freqs @ sum_k props_k * partial_root,k *)
Fixpoint mix (Ps : list (nat -> mat)) (props : list T) (tip : nat -> vec) (t : itree) : vec :=
  match Ps, props with
  | P :: Pr, w :: wr => vadd (vscale w (prune P tip t)) (mix Pr wr tip t)
  | _, _ => repeat (zero N) S
  end.
Definition site_lik (freqs : vec) (Ps : list (nat -> mat)) (props : list T) (tip : nat -> vec) (t : itree) : T :=
  ndot N freqs (mix Ps props tip t).

(* sum over patterns of weight * ln(site likelihood) *)
Fixpoint loglik (freqs : vec) (Ps : list (nat -> mat)) (props : list T) (t : itree)
         (patterns : list (T * (nat -> vec))) : T :=
  match patterns with
  | [] => zero N
  | (w, tip) :: r => add N (mul N w (nln N (site_lik freqs Ps props tip t))) (loglik freqs Ps props t r)
  end.

(* ---- tip-state representation: column s of the matrix, or ones for the unknown state S ---- *)
Definition col (M : mat) (s : nat) : vec := map (fun row => lk row s (zero N)) M.
Definition tip_message_state (M : mat) (s : nat) : vec :=
  if s <? S then col M s else map (fun _ => one N) M.

(* ---- the specification: explicit marginalisation over all state assignments ---- *)
Inductive atree := ALeaf (i s : nat) | ANode (i s : nat) (l r : atree).
Definition astate (a : atree) : nat := match a with ALeaf _ s => s | ANode _ s _ _ => s end.
Definition aidx (a : atree) : nat := match a with ALeaf i _ => i | ANode i _ _ _ => i end.

(* every labelling of every node of t (tips included) with a state in 0..S-1, root state s *)
Fixpoint enum_at (t : itree) (s : nat) : list atree :=
  match t with
  | ILeaf i => [ALeaf i s]
  | INode i l r =>
      flat_map (fun al => map (fun ar => ANode i s al ar) (flat_map (enum_at r) (seq 0 S)))
               (flat_map (enum_at l) (seq 0 S))
  end.
Definition enum (t : itree) : list atree := flat_map (enum_at t) (seq 0 S).

Definition entry (M : mat) (a b : nat) : T := lk (lk M a []) b (zero N).

(* product over branches of P[child](parent state, child state) times tip compatibilities *)
Fixpoint weight (P : nat -> mat) (tip : nat -> vec) (a : atree) : T :=
  match a with
  | ALeaf i s => lk (tip i) s (zero N)
  | ANode _ s l r =>
      mul N (mul N (entry (P (aidx l)) s (astate l)) (weight P tip l))
            (mul N (entry (P (aidx r)) s (astate r)) (weight P tip r))
  end.

(* sum over every assignment and every category of root frequency * branch probabilities * tips *)
Fixpoint marginal_cats (freqs : vec) (Ps : list (nat -> mat)) (props : list T) (tip : nat -> vec) (t : itree) : T :=
  match Ps, props with
  | P :: Pr, w :: wr =>
      add N (mul N w (nsum N (map (fun a => mul N (lk freqs (astate a) (zero N)) (weight P tip a)) (enum t))))
            (marginal_cats freqs Pr wr tip t)
  | _, _ => zero N
  end.

End Like.

(* ---- pattern compression (site_pattern.compress): Counter over columns ---- *)
Section Compress.
Context {C : Type} (ceq : C -> C -> bool).
Fixpoint count_insert (c : C) (acc : list (C * nat)) : list (C * nat) :=
  match acc with
  | [] => [(c, 1%nat)]
  | (c', k) :: r => if ceq c c' then (c', Datatypes.S k) :: r else (c', k) :: count_insert c r
  end.
Definition compress (cols : list C) : list (C * nat) := fold_left (fun acc c => count_insert c acc) cols [].
End Compress.
