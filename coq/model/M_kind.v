(* Which node-height parameterisation a ReparameterizedTimeTreeModel has in force, and the
   device/dtype operations that may (not) change it. *)
From Coq Require Import List.
Inductive kind := Ratio | Shift.
Inductive devop := OpCpu | OpCuda | OpTo.
Definition kind_code (k : kind) : nat := match k with Ratio => 0 | Shift => 1 end.
