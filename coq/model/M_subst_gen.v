(* Composites of the hand-written builders (M_subst.v) with the fragments regenerated from the
   source (gen/G_subst.v): what the harness evaluates and what the theorems speak about. *)
From Coq Require Import QArith List Arith.
Import ListNotations.
From TT Require Import Num Tree M_subst G_subst.

Section SubstGen.
Context {T : Type} (N : Num T).

(* HKY.q / GTR.q on parameter vectors *)
Definition hky_Q (kappa : T) (pi : list T) : list (list T) :=
  hky_q N kappa (vget N pi 0%nat) (vget N pi 1%nat) (vget N pi 2%nat) (vget N pi 3%nat).
Definition gtr_Q (r pi : list T) : list (list T) :=
  gtr_q N (vget N r 0%nat) (vget N r 1%nat) (vget N r 2%nat) (vget N r 3%nat) (vget N r 4%nat) (vget N r 5%nat)
        (vget N pi 0%nat) (vget N pi 1%nat) (vget N pi 2%nat) (vget N pi 3%nat).

(* GeneralJC69 with n states *)
Definition gjc_P (n : nat) (d : T) : list (list T) :=
  diag_off n (gjc_p_entry N (ofNat N n) d true) (gjc_p_entry N (ofNat N n) d false).
Definition gjc_Q (n : nat) : list (list T) :=
  diag_off n (gjc_q_entry N (ofNat N n) true) (gjc_q_entry N (ofNat N n) false).
Definition gjc_freq (n : nat) : list T := repeat (gjc_freq_entry N (ofNat N n)) n.

(* LG / WAG *)
Definition lg_pi : list T := map (ofQ N) lg_freqs.
Definition lg_Q : list (list T) := q_emp N 20%nat (map (ofQ N) lg_rates) lg_pi.
Definition wag_pi : list T := map (ofQ N) wag_freqs.
Definition wag_Q : list (list T) := q_emp N 20%nat (map (ofQ N) wag_rates) wag_pi.

(* MG94 for the c-th genetic code of datatype.py *)
Definition code_table (c : nat) : list nat := lk genetic_code_tables c [].
Definition mg94_Q (c : nat) (kappa alpha beta : T) (pi : list T) : list (list T) :=
  q_mg94 N (code_table c) codon_triplets kappa alpha beta pi.

(* transition matrices of the models whose implementation goes through Q/norm *)
Definition expQt (n : nat) (Q : list (list T)) (pi : list T) (t : T) (s K : nat) : list (list T) :=
  p_taylor N n (normalised N n Q pi) t s K.
End SubstGen.
