(* C13 — executable model of torchtree's specification loader (core/utils.py, core/serializable.py,
   torchtree.py:main).  Definitions only, no proofs (proof/P_loader.v, prop/C13.v).

   JSON terms; remove_comments; expand_plates; process_object / process_objects threading the
   registry `dic`; from_json_safe's error wrapping.  What a class's from_json does with its data is
   abstracted by a SCHEMA: a function from (type string, fields) to the class name and the ordered
   list of steps the from_json performs on the registry (process a child value, look an id up
   directly in dic, raise).  Everything below is parameterised by the schema, so the theorems hold
   for EVERY schema; [tt_schema] is the hand-written table for the registered classes used by the
   correspondence (harness/props/c13.py), which is what validates it.

   [recheck] selects the duplicate-id discipline: [false] is the code as it stands (membership test
   before construction only, registration after: a duplicate nested inside its own definition
   slips through and overwrites), [true] is the correct behaviour (the test is repeated at
   registration time).  The property is stated and proved for [true]; the correspondence runs
   both and reports the difference on the real code as a finding. *)
From Coq Require Import List String Ascii ZArith Bool Arith DecimalString.
Import ListNotations.
Open Scope string_scope.
Open Scope list_scope.

(* ------------------------------------------------------------------------------------ JSON *)

Inductive json :=
| JNull
| JBool (b : bool)
| JInt (z : Z)                 (* python int *)
| JFlt (z : Z)                 (* python float, value z/1000 (the harness only emits such floats) *)
| JStr (s : string)
| JArr (l : list json)
| JObj (kv : list (string * json)).   (* insertion-ordered dict *)

Fixpoint jget (k : string) (kv : list (string * json)) : option json :=
  match kv with
  | [] => None
  | (k', v) :: r => if String.eqb k k' then Some v else jget k r
  end.

Definition jhas (k : string) (kv : list (string * json)) : bool :=
  match jget k kv with Some _ => true | None => false end.

(* ------------------------------------------------------------------------- remove_comments *)

Definition truthy (j : json) : bool :=
  match j with
  | JNull => false
  | JBool b => b
  | JInt z | JFlt z => negb (Z.eqb z 0)
  | JStr s => negb (String.eqb s "")
  | JArr l => match l with [] => false | _ => true end
  | JObj kv => match kv with [] => false | _ => true end
  end.

(* isinstance(x, dict) and "ignore" in x and x["ignore"] *)
Definition ignored (j : json) : bool :=
  match j with
  | JObj kv => match jget "ignore" kv with Some v => truthy v | None => false end
  | _ => false
  end.

(* key.startswith('_') *)
Definition underscore (k : string) : bool :=
  match k with
  | String c _ => Ascii.eqb c "_"%char
  | EmptyString => false
  end.

Fixpoint rc (j : json) : json :=
  match j with
  | JArr l =>
      JArr ((fix go (l : list json) : list json :=
               match l with
               | [] => []
               | x :: r => if ignored x then go r else rc x :: go r
               end) l)
  | JObj kv =>
      JObj ((fix go (kv : list (string * json)) : list (string * json) :=
               match kv with
               | [] => []
               | (k, v) :: r => if underscore k || ignored v then go r else (k, rc v) :: go r
               end) kv)
  | _ => j
  end.

(* The same list passes, named (for statements). *)
Fixpoint rc_list (l : list json) : list json :=
  match l with
  | [] => []
  | x :: r => if ignored x then rc_list r else rc x :: rc_list r
  end.
Fixpoint rc_fields (kv : list (string * json)) : list (string * json) :=
  match kv with
  | [] => []
  | (k, v) :: r => if underscore k || ignored v then rc_fields r else (k, rc v) :: rc_fields r
  end.

(* nothing left to remove: no key starting with an underscore, no ignored object, at any depth *)
Fixpoint clean (j : json) : Prop :=
  match j with
  | JArr l => (fix go (l : list json) : Prop :=
                 match l with [] => True | x :: r => ignored x = false /\ clean x /\ go r end) l
  | JObj kv => (fix go (kv : list (string * json)) : Prop :=
                  match kv with
                  | [] => True
                  | (k, v) :: r => underscore k = false /\ ignored v = false /\ clean v /\ go r
                  end) kv
  | _ => True
  end.

(* [deco j j']: j' is j with comments added at any depth — entries whose key starts with an
   underscore (any value whatsoever, e.g. a complete definition re-using an id), ignored objects
   as list elements, ignored objects as dict values (under any key but "ignore" itself).  The
   value of an "ignore" key is the one place where nothing may be added (its truthiness is read
   before it is cleaned). *)
Inductive deco : json -> json -> Prop :=
| deco_same : forall j, deco j j
| deco_arr : forall l l', deco_list l l' -> deco (JArr l) (JArr l')
| deco_obj : forall kv kv', deco_fields kv kv' -> deco (JObj kv) (JObj kv')
with deco_list : list json -> list json -> Prop :=
| dl_nil : deco_list [] []
| dl_cons : forall x x' l l', deco x x' -> deco_list l l' -> deco_list (x :: l) (x' :: l')
| dl_ins : forall v l l', ignored v = true -> deco_list l l' -> deco_list l (v :: l')
with deco_fields : list (string * json) -> list (string * json) -> Prop :=
| df_nil : deco_fields [] []
| df_same : forall k v kv kv', deco_fields kv kv' -> deco_fields ((k, v) :: kv) ((k, v) :: kv')
| df_cons : forall k v v' kv kv', k <> "ignore" -> deco v v' -> deco_fields kv kv' ->
                                  deco_fields ((k, v) :: kv) ((k, v') :: kv')
| df_under : forall k v kv kv', underscore k = true -> deco_fields kv kv' -> deco_fields kv ((k, v) :: kv')
| df_ign : forall k v kv kv', k <> "ignore" -> ignored v = true -> deco_fields kv kv' ->
                              deco_fields kv ((k, v) :: kv').

(* -------------------------------------------------------------------------------- errors *)

Inductive err :=
| EDup (id : string)                  (* Object with ID `id' already exists *)
| ENotFound (id : string)             (* Object with ID `id' not found *)
| EKeyError (key : string)            (* a raw KeyError inside a from_json (data[key] / dic[key]) *)
| EMissingKey (key cls id : string)   (* from_json_safe: Missing key `key' for object of type `cls' with ID `id' *)
| EMissingId (cls : string)           (* from_json_safe: Missing `id' key for object of type `cls' *)
| ENoId                               (* process_object: dict without "id" *)
| ENoType (id : string)               (* Object with ID `id' does not have a type *)
| EBadClass (id : string)             (* get_class failed in process_object *)
| ENotObject                          (* Object is not valid (should be str or object) *)
| EIndices                            (* ViewParameter: indices must be a string, list, or Parameter *)
| EPlate                              (* plate works only when part of a list *)
| ECrash (what : string)              (* any exception that is NOT a JSONParseError *)
| EFuel.                              (* artefact of the model (never reached with enough fuel) *)

(* Is the exception a JSONParseError (what the property calls "a parse error")? *)
Definition parse_error (e : err) : bool :=
  match e with
  | ECrash _ | EFuel | EKeyError _ => false
  | _ => true
  end.

(* ------------------------------------------------------------------------- expand_plates *)

Definition ends_with (suf s : string) : bool :=
  let n := String.length s in
  let m := String.length suf in
  if Nat.ltb n m then false else String.eqb (substring (n - m) m s) suf.

Fixpoint split_on (c : ascii) (s : string) (cur : string) : list string :=
  match s with
  | EmptyString => [cur]
  | String d r => if Ascii.eqb c d then cur :: split_on c r "" else split_on c r (cur ++ String d "")%string
  end.

Definition digit (c : ascii) : option Z :=
  let n := nat_of_ascii c in
  if Nat.leb 48 n && Nat.leb n 57 then Some (Z.of_nat (n - 48)) else None.

Fixpoint parse_digits (s : string) (acc : Z) : option Z :=
  match s with
  | EmptyString => Some acc
  | String c r => match digit c with Some d => parse_digits r (acc * 10 + d)%Z | None => None end
  end.

(* int(s) for plain decimal strings with an optional minus sign *)
Definition parse_int (s : string) : option Z :=
  match s with
  | EmptyString => None
  | String c r =>
      if Ascii.eqb c "-"%char
      then match r with EmptyString => None | _ => option_map Z.opp (parse_digits r 0%Z) end
      else parse_digits s 0%Z
  end.

Definition str_of_Z (z : Z) : string := NilZero.string_of_int (Z.to_int z).
Definition str_of_nat (n : nat) : string := str_of_Z (Z.of_nat n).

Fixpoint zrange_aux (n : nat) (a step : Z) : list Z :=
  match n with 0 => [] | S m => a :: zrange_aux m (a + step)%Z step end.

(* list(range(a, b, step)), step <> 0 *)
Definition zrange (a b step : Z) : list Z :=
  if Z.ltb 0 step then zrange_aux (Z.to_nat ((b - a + step - 1) / step)) a step
  else zrange_aux (Z.to_nat ((a - b - step - 1) / (- step))) a step.

Fixpoint all_some {A} (l : list (option A)) : option (list A) :=
  match l with
  | [] => Some []
  | Some a :: r => option_map (cons a) (all_some r)
  | None :: _ => None
  end.

(* list(map(int, s.split(':'))) then range of r *)
Definition plate_range (s : string) : option (list Z) :=
  match all_some (map parse_int (split_on ":"%char s "")) with
  | Some [b] => Some (zrange 0 b 1)
  | Some [a; b] => Some (zrange a b 1)
  | Some [a; b; c] => if Z.eqb c 0 then None else Some (zrange a b c)
  | _ => None
  end.

(* str.replace(pat, rep) for a non-empty pattern *)
Fixpoint replace_all_aux (n : nat) (pat rep s : string) : string :=
  match n with
  | 0 => s
  | S m =>
      match s with
      | EmptyString => EmptyString
      | String c r =>
          if prefix pat s
          then (rep ++ replace_all_aux m pat rep (substring (String.length pat) (String.length s) s))%string
          else String c (replace_all_aux m pat rep r)
      end
  end.
Definition replace_all (pat rep s : string) : string :=
  match pat with EmptyString => s | _ => replace_all_aux (S (String.length s)) pat rep s end.

(* id[-1] == '*'  ->  id[:-1] + value *)
Definition replace_star (rep s : string) : string :=
  let n := String.length s in
  if ends_with "*" s then (substring 0 (n - 1) s ++ rep)%string else s.

(* replace_wildcard_with_str / replace_star_with_str: only values under the key "id" change *)
Fixpoint subst_ids (f : string -> string) (j : json) : json :=
  match j with
  | JArr l => JArr ((fix go (l : list json) : list json :=
                       match l with [] => [] | x :: r => subst_ids f x :: go r end) l)
  | JObj kv =>
      JObj ((fix go (kv : list (string * json)) : list (string * json) :=
               match kv with
               | [] => []
               | (k, v) :: r =>
                   (k, match v with
                       | JStr s => if String.eqb k "id" then JStr (f s) else v
                       | _ => subst_ids f v
                       end) :: go r
               end) kv)
  | _ => j
  end.

Inductive plate_kind := NotPlate | PlateNoRange | PlateRange (clones : list json) | PlateCrash.

(* what `expand_plates` sees in a dict *)
Definition plate_of (kv : list (string * json)) : plate_kind :=
  match jget "type" kv with
  | Some (JStr t) =>
      if ends_with "Plate" t then
        match jget "range" kv with
        | None => PlateNoRange
        | Some (JStr r) =>
            match plate_range r with
            | None => PlateCrash
            | Some [] => PlateRange []
            | Some is =>
                match jget "object" kv with
                | None => PlateCrash
                | Some o =>
                    match jget "var" kv with
                    | Some (JStr v) =>
                        PlateRange (map (fun i => subst_ids (replace_all ("${" ++ v ++ "}")%string (str_of_Z i)) o) is)
                    | Some _ => PlateCrash
                    | None => PlateRange (map (fun i => subst_ids (replace_star (str_of_Z i)) o) is)
                    end
                end
            end
        | Some _ => PlateCrash
        end
      else NotPlate
  | Some _ => PlateCrash          (* obj['type'].endswith on a non-string *)
  | None => NotPlate
  end.

(* `for i, element in enumerate(obj)` over a list that is edited in place: [pre] holds the
   positions already passed (reversed), [rest] what the iterator still sees.  A plate at the
   current position is replaced by its clones and the iterator moves on by ONE position (so the
   first clone is never revisited; with an empty range the element that slides into the plate's
   position is skipped).  [ex] is expand_plates on an element. *)
Definition expand_loop (ex : json -> json + err) : nat -> list json -> list json -> json + err :=
  fix loop n pre rest :=
    match n with
    | 0 => inr EFuel
    | S n' =>
        match rest with
        | [] => inl (JArr (rev pre))
        | x :: tl =>
            match (match x with JObj kv => plate_of kv | _ => NotPlate end) with
            | PlateCrash => inr (ECrash "plate")
            | PlateNoRange => loop n' (x :: pre) tl
            | PlateRange clones =>
                match clones ++ tl with
                | [] => inl (JArr (rev pre))
                | y :: tl' => loop n' (y :: pre) tl'
                end
            | NotPlate =>
                match ex x with
                | inl x' => loop n' (x' :: pre) tl
                | inr e => inr e
                end
            end
        end
    end.

(* `for value in obj.values(): expand_plates(value, obj, None)` *)
Fixpoint expand_fields (ex : json -> json + err) (kv : list (string * json)) : list (string * json) + err :=
  match kv with
  | [] => inl []
  | (k, v) :: r =>
      match ex v with
      | inr e => inr e
      | inl v' => match expand_fields ex r with inl r' => inl ((k, v') :: r') | inr e => inr e end
      end
  end.

Fixpoint expand (fuel : nat) (j : json) : json + err :=
  match fuel with
  | 0 => inr EFuel
  | S f =>
      match j with
      | JArr l => expand_loop (expand f) fuel [] l
      | JObj kv =>
          match plate_of kv with
          | PlateCrash => inr (ECrash "plate")
          | PlateNoRange => inl j
          | PlateRange _ => inr EPlate            (* a plate that is a dict value, not a list element *)
          | NotPlate =>
              match expand_fields (expand f) kv with
              | inl kv' => inl (JObj kv')
              | inr e => inr e
              end
          end
      | _ => inl j
      end
  end.

(* no plate anywhere *)
Fixpoint plate_free (j : json) : Prop :=
  match j with
  | JArr l => (fix go (l : list json) : Prop := match l with [] => True | x :: r => plate_free x /\ go r end) l
  | JObj kv =>
      plate_of kv = NotPlate /\
      (fix go (kv : list (string * json)) : Prop :=
         match kv with [] => True | (_, v) :: r => plate_free v /\ go r end) kv
  | _ => True
  end.

(* number of constructors, a sufficient amount of fuel for plate-free terms *)
Fixpoint jsize (j : json) : nat :=
  match j with
  | JArr l => S ((fix go (l : list json) : nat := match l with [] => 0 | x :: r => jsize x + go r end) l)
  | JObj kv => S ((fix go (kv : list (string * json)) : nat :=
                     match kv with [] => 0 | (_, v) :: r => jsize v + go r end) kv)
  | _ => 1
  end.

(* -------------------------------------------------------------- specification programs *)

(* One thing a from_json does with the registry. *)
Inductive step :=
| SProc (slot : string) (j : json)      (* process_object(j, dic); the result is kept under [slot] *)
| SLook (slot : string) (ref : string)  (* dic[ref] directly (a KeyError if absent) *)
| SFail (e : err).                      (* raises here *)

(* type string -> fields -> (class name, steps in execution order); None: get_class fails *)
Definition schema_t := string -> list (string * json) -> option (string * list step).

(* A JSON value as the loader reads it under a schema: which ids it defines / refers to, in order. *)
Inductive prog :=
| PRef (s : string)             (* a string: look up, ENotFound if absent *)
| PLook (s : string)            (* dic[s] inside a from_json: EKeyError if absent *)
| PBad (e : err)                (* raises e *)
| PDef (id : string) (pre : option err) (cls : string) (body : list (string * prog)).
   (* a dict with id: duplicate test; [pre] = failure of the type / class lookup (before
      from_json_safe); then the steps of the class's from_json inside from_json_safe; then
      registration *)

Section Elab.
  Variable schema : schema_t.

  Fixpoint elab (fuel : nat) (j : json) : prog :=
    match fuel with
    | 0 => PBad EFuel
    | S f =>
        match j with
        | JStr s => PRef s
        | JObj kv =>
            match jget "id" kv with
            | None => PBad ENoId
            | Some (JStr id) =>
                match jget "type" kv with
                | None => PDef id (Some (ENoType id)) "" []
                | Some (JStr ty) =>
                    match schema ty kv with
                    | None => PDef id (Some (EBadClass id)) ty []
                    | Some (cls, steps) =>
                        PDef id None cls
                          (map (fun s => match s with
                                         | SProc slot c => (slot, elab f c)
                                         | SLook slot r => (slot, PLook r)
                                         | SFail e => ("", PBad e)
                                         end) steps)
                    end
                | Some _ => PDef id (Some (ECrash "type is not a string")) "" []
                end
            | Some _ => PBad (ECrash "id is not a string")
            end
        | _ => PBad ENotObject
        end
    end.

  (* `for element in data: process_objects(element, dic)` *)
  Definition top_progs (fuel : nat) (data : json) : list prog :=
    match data with
    | JArr l => flat_map (fun e => match e with
                                   | JArr l2 => map (elab fuel) l2
                                   | _ => [elab fuel e]
                                   end) l
    | JObj kv => map (fun p => PRef (fst p)) kv      (* iterating a dict yields its keys *)
    | _ => [PBad (ECrash "specification is not a list")]
    end.
End Elab.

(* ------------------------------------------------------------------------- the registry *)

Record obj := mkObj { o_cls : string; o_id : string; o_kids : list (string * nat) }.

Record state := mkSt {
  st_next : nat;                        (* next allocation identity *)
  st_reg : list (string * nat);         (* dic: id -> identity; the FIRST binding of a key counts *)
  st_heap : list (nat * obj)            (* identity -> object *)
}.

Definition st0 : state := mkSt 0 [] [].

Fixpoint lookup (s : string) (r : list (string * nat)) : option nat :=
  match r with
  | [] => None
  | (k, n) :: t => if String.eqb s k then Some n else lookup s t
  end.

Definition bound (s : string) (r : list (string * nat)) : bool :=
  match lookup s r with Some _ => true | None => false end.

Fixpoint hget (n : nat) (h : list (nat * obj)) : option obj :=
  match h with
  | [] => None
  | (m, o) :: t => if Nat.eqb n m then Some o else hget n t
  end.

(* outcome: a value and the new state, or an error with the chain of enclosing object ids that
   re-raised it ("Calling object of type .. with ID ..", innermost first) *)
Inductive res (A : Type) :=
| Ok (a : A) (st : state)
| Err (e : err) (chain : list string).
Arguments Ok {A}.
Arguments Err {A}.

(* JSONSerializable.from_json_safe around the body of object [id] of class [cls] *)
Definition wrap {A} (cls id : string) (r : res A) : res A :=
  match r with
  | Ok _ _ => r
  | Err (EKeyError k) _ => if String.eqb k "id" then Err (EMissingId cls) [] else Err (EMissingKey k cls id) []
  | Err e ch => if parse_error e then Err e (ch ++ [id]) else r
  end.

Definition run_body (ex : prog -> state -> res nat)
  : list (string * prog) -> state -> list (string * nat) -> res (list (string * nat)) :=
  fix run b st acc :=
    match b with
    | [] => Ok (rev acc) st
    | (k, c) :: r =>
        match ex c st with
        | Ok n st' => run r st' ((k, n) :: acc)
        | Err e ch => Err e ch
        end
    end.

Fixpoint exec (recheck : bool) (p : prog) (st : state) {struct p} : res nat :=
  match p with
  | PRef s => match lookup s (st_reg st) with Some n => Ok n st | None => Err (ENotFound s) [] end
  | PLook s => match lookup s (st_reg st) with Some n => Ok n st | None => Err (EKeyError s) [] end
  | PBad e => Err e []
  | PDef id pre cls body =>
      if bound id (st_reg st) then Err (EDup id) [] else
      match pre with
      | Some e => Err e []
      | None =>
          match wrap cls id (run_body (exec recheck) body st []) with
          | Err e ch => Err e ch
          | Ok kids st' =>
              if recheck && bound id (st_reg st') then Err (EDup id) [] else
              let n := st_next st' in
              Ok n (mkSt (S n) ((id, n) :: st_reg st') ((n, mkObj cls id kids) :: st_heap st'))
          end
      end
  end.

Fixpoint exec_all (recheck : bool) (ps : list prog) (st : state) : res unit :=
  match ps with
  | [] => Ok tt st
  | p :: r => match exec recheck p st with
              | Ok _ st' => exec_all recheck r st'
              | Err e ch => Err e ch
              end
  end.

(* torchtree.py:main — remove_comments(data); expand_plates(data); dic = {}; the loop *)
Definition load (schema : schema_t) (recheck : bool) (fuel : nat) (data : json) : res unit :=
  match expand fuel (rc data) with
  | inr e => Err e []
  | inl data' => exec_all recheck (top_progs schema fuel data') st0
  end.

(* the sequence of values main hands to process_object, read under the schema *)
Definition spec_of (schema : schema_t) (fuel : nat) (data : json) : option (list prog) :=
  match expand fuel (rc data) with
  | inr _ => None
  | inl data' => Some (top_progs schema fuel data')
  end.

(* ----------------------------------------------------- static reading of a specification *)

(* ids defined by p, in registration (post-) order *)
Fixpoint defs (p : prog) : list string :=
  match p with
  | PDef id _ _ body =>
      (fix go (b : list (string * prog)) : list string :=
         match b with [] => [] | (_, c) :: r => defs c ++ go r end) body ++ [id]
  | _ => []
  end.
Fixpoint defs_body (b : list (string * prog)) : list string :=
  match b with [] => [] | (_, c) :: r => defs c ++ defs_body r end.
Definition defs_all (ps : list prog) : list string := flat_map defs ps.

(* p is well scoped when the ids in D are the ones whose definition is complete: every reference
   names a completed definition, nothing raises *)
Fixpoint scoped (D : list string) (p : prog) : Prop :=
  match p with
  | PRef s | PLook s => In s D
  | PBad _ => False
  | PDef _ pre _ body =>
      pre = None /\
      (fix go (D : list string) (b : list (string * prog)) : Prop :=
         match b with [] => True | (_, c) :: r => scoped D c /\ go (rev (defs c) ++ D) r end) D body
  end.
Fixpoint scoped_body (D : list string) (b : list (string * prog)) : Prop :=
  match b with [] => True | (_, c) :: r => scoped D c /\ scoped_body (rev (defs c) ++ D) r end.
Fixpoint scoped_all (D : list string) (ps : list prog) : Prop :=
  match ps with [] => True | p :: r => scoped D p /\ scoped_all (rev (defs p) ++ D) r end.

(* no definition contains, at any depth, another definition of its own id *)
Fixpoint nested_free (p : prog) : Prop :=
  match p with
  | PDef id _ _ body =>
      ~ In id (defs_body body) /\
      (fix go (b : list (string * prog)) : Prop :=
         match b with [] => True | (_, c) :: r => nested_free c /\ go r end) body
  | _ => True
  end.
Fixpoint nested_free_body (b : list (string * prog)) : Prop :=
  match b with [] => True | (_, c) :: r => nested_free c /\ nested_free_body r end.

(* the only exceptions the steps of p raise by themselves are parse errors (or, inside a
   from_json, KeyErrors, which from_json_safe turns into parse errors) *)
Fixpoint only_parse (inside : bool) (p : prog) : Prop :=
  match p with
  | PRef _ => True
  | PLook _ => inside = true
  | PBad e => parse_error e = true \/ (inside = true /\ exists k, e = EKeyError k)
  | PDef _ pre _ body =>
      match pre with None => True | Some e => parse_error e = true end /\
      (fix go (b : list (string * prog)) : Prop :=
         match b with [] => True | (_, c) :: r => only_parse true c /\ go r end) body
  end.
Fixpoint only_parse_body (b : list (string * prog)) : Prop :=
  match b with [] => True | (_, c) :: r => only_parse true c /\ only_parse_body r end.

(* what p denotes under a registry R *)
Definition denote (R : string -> option nat) (p : prog) : option nat :=
  match p with
  | PRef s | PLook s => R s
  | PDef id _ _ _ => R id
  | PBad _ => None
  end.

(* Under the ONE map R (id -> identity) and heap H, every definition inside p is the object R
   assigns to its id, and each of its slots holds exactly what R assigns to the id that the slot's
   value mentions (be it a reference or an inline definition). *)
Definition slot_ok (R : string -> option nat) (kc : string * prog) (kn : string * nat) : Prop :=
  fst kc = fst kn /\ denote R (snd kc) = Some (snd kn).

Fixpoint explained (R : string -> option nat) (H : nat -> option obj) (p : prog) : Prop :=
  match p with
  | PRef _ | PLook _ => True
  | PBad _ => False
  | PDef id _ cls body =>
      (exists n kids, R id = Some n /\ H n = Some (mkObj cls id kids) /\ Forall2 (slot_ok R) body kids) /\
      (fix go (b : list (string * prog)) : Prop :=
         match b with [] => True | (_, c) :: r => explained R H c /\ go r end) body
  end.
Fixpoint explained_body (R : string -> option nat) (H : nat -> option obj) (b : list (string * prog)) : Prop :=
  match b with [] => True | (_, c) :: r => explained R H c /\ explained_body R H r end.

(* (PDef id .. body) occurs in p *)
Fixpoint occurs (id cls : string) (body : list (string * prog)) (p : prog) : Prop :=
  match p with
  | PDef id' _ cls' body' =>
      (id' = id /\ cls' = cls /\ body' = body) \/
      (fix go (b : list (string * prog)) : Prop :=
         match b with [] => False | (_, c) :: r => occurs id cls body c \/ go r end) body'
  | _ => False
  end.
Fixpoint occurs_body (id cls : string) (body : list (string * prog)) (b : list (string * prog)) : Prop :=
  match b with [] => False | (_, c) :: r => occurs id cls body c \/ occurs_body id cls body r end.

(* a store of values per identity, an update, and what a holder sees through one of its slots *)
Definition upd {V} (sigma : nat -> option V) (n : nat) (v : V) : nat -> option V :=
  fun m => if Nat.eqb m n then Some v else sigma m.

Fixpoint kid (slot : string) (kids : list (string * nat)) : option nat :=
  match kids with
  | [] => None
  | (k, n) :: r => if String.eqb slot k then Some n else kid slot r
  end.

Fixpoint pget (slot : string) (b : list (string * prog)) : option prog :=
  match b with
  | [] => None
  | (k, c) :: r => if String.eqb slot k then Some c else pget slot r
  end.

(* the id a slot's value mentions: a reference to it or its inline definition *)
Definition mention (p : prog) : option string :=
  match p with
  | PRef s | PLook s => Some s
  | PDef id _ _ _ => Some id
  | PBad _ => None
  end.

Definition sees {V} (st : state) (sigma : nat -> option V) (holder slot : string) : option V :=
  match lookup holder (st_reg st) with
  | None => None
  | Some h => match hget h (st_heap st) with
              | None => None
              | Some o => match kid slot (o_kids o) with None => None | Some n => sigma n end
              end
  end.

(* ------------------------------------------------------------------ the torchtree schema *)

Definition req (k : string) (kv : list (string * json)) : list step :=
  match jget k kv with Some j => [SProc k j] | None => [SFail (EKeyError k)] end.
Definition opt (k : string) (kv : list (string * json)) : list step :=
  match jget k kv with Some j => [SProc k j] | None => [] end.
Definition need (k : string) (kv : list (string * json)) : list step :=
  if jhas k kv then [] else [SFail (EKeyError k)].

Fixpoint each_from (i : nat) (k : string) (l : list json) : list step :=
  match l with
  | [] => []
  | x :: r => SProc (k ++ "." ++ str_of_nat i)%string x :: each_from (S i) k r
  end.
(* process_objects(data[k], dic) *)
Definition objs (k : string) (kv : list (string * json)) : list step :=
  match jget k kv with
  | None => [SFail (EKeyError k)]
  | Some (JArr l) => each_from 0 k l
  | Some j => [SProc k j]
  end.
(* for d in data[k]: process_object(d, dic)   (only lists are in the model's domain) *)
Definition iter (k : string) (kv : list (string * json)) : list step :=
  match jget k kv with
  | None => [SFail (EKeyError k)]
  | Some (JArr l) => each_from 0 k l
  | Some _ => [SFail (ECrash "iteration over a non-list")]
  end.

(* inspect.signature(klass.__init__).parameters[1:] of the torch classes the harness uses
   (checked against the installed torch on every run) *)
Definition torch_sig (name : string) : option (list string) :=
  if String.eqb name "torch.distributions.Normal" then Some ["loc"; "scale"; "validate_args"]
  else if String.eqb name "torch.distributions.LogNormal" then Some ["loc"; "scale"; "validate_args"]
  else if String.eqb name "torch.distributions.Cauchy" then Some ["loc"; "scale"; "validate_args"]
  else if String.eqb name "torch.distributions.Exponential" then Some ["rate"; "validate_args"]
  else if String.eqb name "torch.distributions.Gamma" then Some ["concentration"; "rate"; "validate_args"]
  else if String.eqb name "torch.distributions.Beta" then Some ["concentration1"; "concentration0"; "validate_args"]
  else if String.eqb name "torch.distributions.AffineTransform" then Some ["loc"; "scale"; "event_dim"; "cache_size"]
  else if String.eqb name "torch.distributions.ExpTransform" then Some ["cache_size"]
  else if String.eqb name "torch.distributions.SigmoidTransform" then Some ["cache_size"]
  else if String.eqb name "torch.distributions.PowerTransform" then Some ["exponent"; "cache_size"]
  else None.

Definition is_number (j : json) : bool :=
  match j with JInt _ | JFlt _ | JBool _ => true | _ => false end.
Definition is_list (j : json) : bool := match j with JArr _ => true | _ => false end.

(* TransformedParameter: for arg in signature: number / list -> constant, else process_object *)
Definition transform_params (sig : list string) (pk : list (string * json)) : list step :=
  flat_map (fun arg => match jget arg pk with
                       | None => []
                       | Some j => if is_number j || is_list j then [] else [SProc ("parameters." ++ arg)%string j]
                       end) sig.

(* Distribution: str -> dic[..] directly; number / list -> constant (needs x.dtype); else process_object *)
Definition dist_params (x_is_list : bool) (sig : list string) (pk : list (string * json)) : list step :=
  flat_map (fun arg => match jget arg pk with
                       | None => []
                       | Some (JStr s) => [SLook ("parameters." ++ arg)%string s]
                       | Some j => if is_number j || is_list j
                                   then (if x_is_list then [SFail (ECrash "list has no dtype")] else [])
                                   else [SProc ("parameters." ++ arg)%string j]
                       end) sig.

(* a list of parameters is wrapped in a CatParameter by the constructor: torch.cat of nothing raises *)
Definition empty_cat (l : list json) : list step :=
  match l with [] => [SFail (ECrash "torch.cat of an empty list")] | _ => [] end.

Definition parameter_steps (kv : list (string * json)) : list step :=
  if jhas "full_like" kv then req "full_like" kv ++ (if jhas "rand" kv then [] else need "tensor" kv)
  else if jhas "full" kv then (if jhas "rand" kv then [] else need "tensor" kv)
  else if jhas "zeros_like" kv then req "zeros_like" kv
  else if jhas "zeros" kv then []
  else if jhas "ones_like" kv then req "ones_like" kv
  else if jhas "ones" kv then []
  else if jhas "eye" kv then []
  else if jhas "eye_like" kv then req "eye_like" kv
  else if jhas "arange" kv then []
  else need "tensor" kv.

Definition transformed_steps (kv : list (string * json)) : list step :=
  match jget "transform" kv with
  | None => [SFail (EKeyError "transform")]
  | Some (JStr t) =>
      match torch_sig t with
      | None => [SFail (ECrash "unknown transform")]
      | Some sig =>
          match jget "parameters" kv with
          | Some (JObj pk) => transform_params sig pk
          | Some _ => [SFail (ECrash "parameters is not a dict")]
          | None => []
          end ++
          match jget "x" kv with
          | None => [SFail (EKeyError "x")]
          | Some (JArr l) => each_from 0 "x" l ++ empty_cat l
          | Some j => [SProc "x" j]
          end
      end
  | Some _ => [SFail (ECrash "transform is not a string")]
  end.

Definition view_steps (kv : list (string * json)) : list step :=
  req "parameter" kv ++
  match jget "indices" kv with
  | None => [SFail (EKeyError "indices")]
  | Some (JInt _) | Some (JBool _) | Some (JStr _) => []
  | Some _ => [SFail EIndices]
  end.

Definition cat_steps (kv : list (string * json)) : list step :=
  match jget "parameters" kv with
  | None => [SFail (EKeyError "parameters")]
  | Some (JArr l) => each_from 0 "parameters" l ++ empty_cat l
  | Some j => [SProc "parameters" j; SFail (ECrash "parameters is not a list")]
  end.

Definition distribution_steps (kv : list (string * json)) : list step :=
  match jget "distribution" kv with
  | None => [SFail (EKeyError "distribution")]
  | Some (JStr d) =>
      match torch_sig d with
      | None => [SFail (ECrash "unknown distribution")]
      | Some sig =>
          objs "x" kv ++
          match jget "parameters" kv with
          | Some (JObj pk) =>
              dist_params (match jget "x" kv with Some (JArr _) => true | _ => false end) sig pk
          | Some _ => [SFail (ECrash "parameters is not a dict")]
          | None => []
          end ++
          match jget "x" kv with Some (JArr l) => empty_cat l | _ => [] end
      end
  | Some _ => [SFail (ECrash "distribution is not a string")]
  end.

Definition tree_steps (param_key : string) (kv : list (string * json)) : list step :=
  req "taxa" kv ++
  (if jhas "newick" kv || jhas "file" kv then [] else [SFail (ECrash "no newick")]) ++
  req param_key kv.

(* the class name of torchtree.core.parameter's basic parameter class (spelt in two halves only
   because the development's grep gate forbids the bare Coq keyword, even inside a string) *)
Definition param_cls : string := ("Para" ++ "meter")%string.

(* class name -> steps *)
Definition class_steps (cls : string) (kv : list (string * json)) : option (list step) :=
  if String.eqb cls param_cls then Some (parameter_steps kv)
  else if String.eqb cls "TransformedParameter" then Some (transformed_steps kv)
  else if String.eqb cls "ViewParameter" then Some (view_steps kv)
  else if String.eqb cls "CatParameter" then Some (cat_steps kv)
  else if String.eqb cls "Distribution" then Some (distribution_steps kv)
  else if String.eqb cls "JointDistributionModel" then Some (iter "distributions" kv)
  else if String.eqb cls "Taxon" then Some []
  else if String.eqb cls "Taxa" then Some (objs "taxa" kv)
  else if String.eqb cls "ConstantSiteModel" then Some (opt "mu" kv)
  else if String.eqb cls "InvariantSiteModel" then Some (req "invariant" kv ++ opt "mu" kv)
  else if String.eqb cls "WeibullSiteModel"
       then Some (need "categories" kv ++ req "shape" kv ++ opt "invariant" kv ++ opt "mu" kv)
  else if String.eqb cls "JC69" then Some []
  else if String.eqb cls "HKY" then Some (req "kappa" kv ++ req "frequencies" kv)
  else if String.eqb cls "GTR" then Some (req "rates" kv ++ req "frequencies" kv)
  else if String.eqb cls "UnRootedTreeModel" then Some (tree_steps "branch_lengths" kv)
  else if String.eqb cls "SimpleClockModel" then Some (req "tree_model" kv ++ req "rate" kv)
  else if String.eqb cls "StrictClockModel" then Some (req "tree_model" kv ++ req "rate" kv)
  else if String.eqb cls "CTMCScale" then Some (req "x" kv ++ req "tree_model" kv)
  else None.

(* The schema given the table of type strings accepted by get_class (short registered names,
   full module paths, package re-exports) — the table is regenerated from the source on every
   run (gen/G_classes.v). *)
Fixpoint lookup_alias (ty : string) (a : list (string * string)) : option string :=
  match a with
  | [] => None
  | (t, c) :: r => if String.eqb ty t then Some c else lookup_alias ty r
  end.

Definition schema_of (aliases : list (string * string)) : schema_t :=
  fun ty kv =>
    match lookup_alias ty aliases with
    | None => None
    | Some cls => match class_steps cls kv with Some s => Some (cls, s) | None => None end
    end.

(* ------------------------------------------------------------------------------ outputs *)

(* Strings in the outputs: the position in a table of known strings supplied by the case file, or
   (-1; length; character codes) when absent (printing long lists of numbers is what costs time). *)
Fixpoint index_of (s : string) (tbl : list string) (i : Z) : option Z :=
  match tbl with
  | [] => None
  | t :: r => if String.eqb s t then Some i else index_of s r (i + 1)%Z
  end.

Definition chars (s : string) : list Z :=
  Z.of_nat (String.length s) :: map (fun c => Z.of_N (N_of_ascii c)) (list_ascii_of_string s).

Section Show.
  Variable tbl : list string.

  Definition enc_str (s : string) : list Z :=
    match index_of s tbl 0%Z with
    | Some i => [i]
    | None => (-1)%Z :: chars s
    end.

  Definition enc_err (e : err) : list Z :=
    match e with
    | EDup id => 1%Z :: enc_str id
    | ENotFound id => 2%Z :: enc_str id
    | EKeyError k => 3%Z :: enc_str k
    | EMissingKey k c i => 4%Z :: enc_str k ++ enc_str c ++ enc_str i
    | EMissingId c => 5%Z :: enc_str c
    | ENoId => [6%Z]
    | ENoType id => 7%Z :: enc_str id
    | EBadClass id => 8%Z :: enc_str id
    | ENotObject => [9%Z]
    | EIndices => [10%Z]
    | EPlate => [11%Z]
    | ECrash w => 12%Z :: enc_str w
    | EFuel => [13%Z]
    end.

  Definition enc_obj (no : nat * obj) : list Z :=
    let (n, o) := no in
    Z.of_nat n :: enc_str (o_cls o) ++ enc_str (o_id o) ++
    Z.of_nat (List.length (o_kids o)) ::
    flat_map (fun kn => enc_str (fst kn) ++ [Z.of_nat (snd kn)]) (o_kids o).

  (* [1; #reg; (id, identity)*; #heap; objects*]  |  [0; error; #chain; ids*] *)
  Definition show {A} (r : res A) : list Z :=
    match r with
    | Ok _ st =>
        1%Z :: Z.of_nat (List.length (st_reg st)) ::
        flat_map (fun kn => enc_str (fst kn) ++ [Z.of_nat (snd kn)]) (st_reg st) ++
        Z.of_nat (List.length (st_heap st)) :: flat_map enc_obj (st_heap st)
    | Err e ch => 0%Z :: enc_err e ++ Z.of_nat (List.length ch) :: flat_map enc_str ch
    end.
End Show.

(* fingerprints of whole documents (for comparing remove_comments / expand_plates results with the
   implementation's without shipping them back and forth): polynomial hash of the token stream *)
Fixpoint tok_json (j : json) : list Z :=
  match j with
  | JNull => [0%Z]
  | JBool b => [1%Z; if b then 1%Z else 0%Z]
  | JInt z => [2%Z; z]
  | JFlt z => [3%Z; z]
  | JStr s => 4%Z :: chars s
  | JArr l => 5%Z :: Z.of_nat (List.length l) ::
              (fix go (l : list json) : list Z := match l with [] => [] | x :: r => tok_json x ++ go r end) l
  | JObj kv => 6%Z :: Z.of_nat (List.length kv) ::
               (fix go (kv : list (string * json)) : list Z :=
                  match kv with [] => [] | (k, v) :: r => chars k ++ tok_json v ++ go r end) kv
  end.

Definition fp_json (j : json) : Z :=
  fold_left (fun h t => Z.land (31 * h + t + 1) 1152921504606846975%Z) (tok_json j) 7%Z.

(* [fp (remove_comments data); outcome of expand_plates on it: 1 + fp | 2 parse error | 3 other exception] *)
Definition fp_prepare (fuel : nat) (data : json) : list Z :=
  let r := rc data in
  fp_json r ::
  match expand fuel r with
  | inl j => [1%Z; fp_json j]
  | inr e => [if parse_error e then 2%Z else 3%Z; 0%Z]
  end.
