(* The pruning loop as the code runs it: a mutable list of partials indexed by node number,
   updated while iterating over the post-order triples (node, left, right).

   The update expression and the returned expression are REGENERATED from
   torchtree/evolution/tree_likelihood.py by harness/translate/t8_prune.py (gen/G_prune.v); this file
   only gives the loop around them and the vocabulary of the returned expression. *)
From Coq Require Import List Arith.
Import ListNotations.
From TT Require Import Num Tree M_like.

(* the python list `partials`, read as a function of the node index; assignment = functional update *)
Definition upd {A} (a : nat -> A) (i : nat) (v : A) : nat -> A :=
  fun j => if Nat.eqb j i then v else a j.

(* for node, left, right in post_indexing: partials[node] = update(partials, node, left, right) *)
Definition loop {A} (update : (nat -> A) -> nat -> nat -> nat -> A)
           (post : list (nat * nat * nat)) (a0 : nat -> A) : nat -> A :=
  fold_left (fun a t => match t with (nd, lf, rt) => upd a nd (update a nd lf rt) end) post a0.

(* post_indexing[-1][0] *)
Definition root_of_last (post : list (nat * nat * nat)) : nat :=
  match last post (0, 0, 0) with (node, _, _) => node end.

(* vocabulary of the returned expression (what the translator recognises) *)
Inductive rshape :=
| RSumSites (e : rshape)          (* torch.sum(., -1) over site patterns *)
| RSumCats (e : rshape)           (* torch.sum(., -3) over rate categories *)
| RMul (a b : rshape)
| RAdd (a b : rshape)
| RSumLogScalers                  (* torch.cat(scalers, -2).log().sum(-2): sum over the rescaled nodes of ln scaler *)
| RLog (e : rshape)
| RDot (a b : rshape)             (* freqs @ . *)
| RFreqs | RProps | RWeights
| RPartials (i : rshape)          (* partials[.] *)
| RRootOfLastTriple.              (* post_indexing[-1][0] *)

(* sum over sites of  weight * ln( freqs . sum over categories of props * partials[root] ):
   what M_like.loglik / site_lik / mix compute *)
Definition expected_return : rshape :=
  RSumSites (RMul (RLog (RDot RFreqs (RSumCats (RMul RProps (RPartials RRootOfLastTriple))))) RWeights).

(* the rescaled recursions: sum over sites of weight * ( ln(freqs . mixture of the RESCALED root partial)
   + sum of the ln scalers ) — the weight multiplies BOTH terms (M_rescale.site_loglik_rs, then M_like.loglik) *)
Definition expected_return_rescaled : rshape :=
  RSumSites (RMul (RAdd (RLog (RDot RFreqs (RSumCats (RMul RProps (RPartials RRootOfLastTriple))))) RSumLogScalers)
                  RWeights).
