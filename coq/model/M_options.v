(* JSON option plumbing (BDSKModel.from_json, BirthDeathModel.from_json): the executable test
   applied to the (constructor argument, JSON key) table that translator T6 regenerates from the
   source (gen/G_options.v). *)
From Coq Require Import String Ascii List Bool.
Import ListNotations.
Open Scope string_scope.

(* Python spells an argument that collides with a keyword / builtin with ONE trailing underscore
   (id_, lambda_); the JSON key is the name without it. *)
Fixpoint norm_arg (s : string) : string :=
  match s with
  | EmptyString => EmptyString
  | String c r => match r with
                  | EmptyString => if Ascii.eqb c "_"%char then EmptyString else String c EmptyString
                  | String _ _ => String c (norm_arg r)
                  end
  end.

Definition option_ok (p : string * string) : bool := String.eqb (norm_arg (fst p)) (snd p).
Definition options_ok (l : list (string * string)) : bool := forallb option_ok l.

Definition default_ok (t : string * string * string) : bool :=
  match t with (_, json_default, ctor_default) => String.eqb json_default ctor_default end.
Definition defaults_ok (l : list (string * string * string)) : bool := forallb default_ok l.

(* every parameter of the constructor can be set from the specification *)
Definition covered (params : list string) (opts : list (string * string)) : bool :=
  forallb (fun p => existsb (fun o => String.eqb p (fst o)) opts) params.
