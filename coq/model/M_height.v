(* Node-height parameterisations (tree_height_transform.py, tree_model.py):
   ratio transform (GeneralNodeHeightTransform), increment transform
   (DifferenceNodeHeightTransform), sampling dates -> leaf heights, branch lengths. *)
From Coq Require Import QArith List Arith.
Import ListNotations.
From TT Require Import Num Tree.

Inductive htree (T : Type) := HLeaf (i : nat) (h : T) | HNode (i : nat) (h : T) (l r : htree T).
Arguments HLeaf {T} _ _. Arguments HNode {T} _ _ _ _.

Section Height.
Context {T : Type} (N : Num T).
Variable n : nat.                 (* taxa count *)
Variable times : list T.          (* sampling_times, by leaf index *)

Definition time_of (i : nat) : T := lk times i (zero N).
Definition hh (t : htree T) : T := match t with HLeaf _ h => h | HNode _ h _ _ => h end.

(* update_bounds: post-order maximum of the sampling times below each node *)
Fixpoint bound (t : itree) : T :=
  match t with
  | ILeaf i => time_of i
  | INode _ l r => nmax N (bound l) (bound r)
  end.

(* ---- GeneralNodeHeightTransform ---- *)
Section Ratio.
Variable x : list T.              (* ratios ++ [root height], by internal index - n *)
Definition x_of (i : nat) : T := lk x (nsub i n) (zero N).

(* _call, pre-order: h_i = b_i + x_i (h_parent - b_i); the root takes x as its height *)
Fixpoint ratio_fwd (hpar : option T) (t : itree) : htree T :=
  match t with
  | ILeaf i => HLeaf i (time_of i)
  | INode i l r =>
      let b := nmax N (bound l) (bound r) in
      let h := match hpar with
               | None => x_of i
               | Some hp => add N b (mul N (x_of i) (sub N hp b))
               end in
      HNode i h (ratio_fwd (Some h) l) (ratio_fwd (Some h) r)
  end.
End Ratio.

(* _inverse: (h_i - b_i) / (h_parent - b_i) for non-root internal nodes, the root height itself.
   [shape] supplies the bounds; result keyed by node index. *)
Fixpoint ratio_inv (hpar : option T) (t : itree) (ht : htree T) : list (nat * T) :=
  match t, ht with
  | INode _ l r, HNode i h hl hr =>
      let b := nmax N (bound l) (bound r) in
      let v := match hpar with
               | None => h
               | Some hp => div N (sub N h b) (sub N hp b)
               end in
      (i, v) :: ratio_inv (Some h) l hl ++ ratio_inv (Some h) r hr
  | _, _ => []
  end.

(* log_abs_det_jacobian: sum over non-root internal nodes of ln (h_parent - b_i) *)
Fixpoint ratio_logdet (hpar : option T) (t : itree) (ht : htree T) : T :=
  match t, ht with
  | INode _ l r, HNode i h hl hr =>
      let b := nmax N (bound l) (bound r) in
      let d := match hpar with
               | None => zero N
               | Some hp => nln N (sub N hp b)
               end in
      add N d (add N (ratio_logdet (Some h) l hl) (ratio_logdet (Some h) r hr))
  | _, _ => zero N
  end.

(* ---- DifferenceNodeHeightTransform (k = 0) ---- *)
Section Diff.
Variable x : list T.              (* increments by internal index - n *)
Fixpoint diff_fwd (t : itree) : htree T :=
  match t with
  | ILeaf i => HLeaf i (time_of i)
  | INode i l r =>
      let hl := diff_fwd l in let hr := diff_fwd r in
      HNode i (add N (nmax N (hh hl) (hh hr)) (lk x (nsub i n) (zero N))) hl hr
  end.
End Diff.

Fixpoint diff_inv (ht : htree T) : list (nat * T) :=
  match ht with
  | HLeaf _ _ => []
  | HNode i h l r => diff_inv l ++ diff_inv r ++ [(i, sub N h (nmax N (hh l) (hh r)))]
  end.

(* a vector of internal heights (by internal index - n) laid onto the tree: the argument of _inverse *)
Fixpoint hfill (y : list T) (t : itree) : htree T :=
  match t with
  | ILeaf i => HLeaf i (time_of i)
  | INode i l r => HNode i (lk y (nsub i n) (zero N)) (hfill y l) (hfill y r)
  end.

(* ---- flattening / branch lengths ---- *)
Fixpoint hflat (ht : htree T) : list (nat * T) :=
  match ht with
  | HLeaf i h => [(i, h)]
  | HNode i h l r => (i, h) :: hflat l ++ hflat r
  end.
(* node_heights: all heights by node index *)
Definition node_heights (ht : htree T) : list T := map snd (sort_by_key (hflat ht)).
Definition internal_by_index (l : list (nat * T)) : list T := map snd (sort_by_key l).

(* branch_lengths(): heights[parent] - heights[child] laid out by child index *)
Fixpoint hbranches (ht : htree T) : list (nat * T) :=
  match ht with
  | HLeaf _ _ => []
  | HNode _ h l r =>
      (match l with HLeaf i hl => (i, sub N h hl) | HNode i hl _ _ => (i, sub N h hl) end)
      :: hbranches l ++
      (match r with HLeaf i hr => (i, sub N h hr) | HNode i hr _ _ => (i, sub N h hr) end)
      :: hbranches r
  end.
Definition branch_lengths (ht : htree T) : list T := map snd (sort_by_key (hbranches ht)).

End Height.

(* update_leaf_heights: dates -> leaf heights (exact data, so it is computed on Q) *)
Definition qmin_list (l : list Q) : Q := fold_right (fun a b => if Qle_bool a b then a else b) (hd 0%Q l) l.
Definition qmax_list (l : list Q) : Q := fold_right (fun a b => if Qle_bool a b then b else a) (hd 0%Q l) l.
Definition leaf_heights (dates : list Q) : list Q :=
  if Qeq_bool (qmin_list dates) 0 then dates
  else map (fun d => Qred (qmax_list dates - d)) dates.
