(* Sufficient statistics of the piecewise-constant coalescents
   (coalescent.py: PiecewiseConstantCoalescent.sufficient_statistics — skyride, groups between
   coalescent marks, every count 1; PiecewiseConstantCoalescentGrid.sufficient_statistics —
   skygrid, groups between grid marks, number of coalescent events per group) and the integrated
   constant coalescent (ConstantCoalescentIntegrated.log_prob) on top of the event / interval
   machinery of M_coalescent.v (events, exact sort, one interval per sorted event with the running
   lineage / grid / coalescent counts).  Executable definitions only, no proofs. *)
From Coq Require Import QArith ZArith List Arith.
Import ListNotations.
From TT Require Import Num Tree M_coalescent M_gmrf.
Local Close Scope Q_scope.
Local Open Scope nat_scope.

Section Suff.
Context {T : Type} (N : Num T).

(* lchoose2 * durations of one interval (an interval between two equal exact keys is empty) *)
Definition ss_term (iv : ival T) : T :=
  if i_zero iv then zero N else mul N (choose2 N (i_k iv)) (dur N iv).

(* torch.tensor_split(lchoose2 * durations, marks) summed per group: group j collects the intervals
   whose running mark count (coalescent marks: skyride, grid marks: skygrid) is j *)
Definition group_sum (key : ival T -> nat) (ivs : list (ival T)) (j : nat) : T :=
  nsum N (map (fun iv => if Nat.eqb (key iv) j then ss_term iv else zero N) ivs).
(* number of coalescent events whose interval lies in group j *)
Definition ends_coal (iv : ival T) : bool := match i_end iv with Coal => true | _ => false end.
Definition group_count (key : ival T -> nat) (ivs : list (ival T)) (j : nat) : nat :=
  length (filter (fun iv => if ends_coal iv then Nat.eqb (key iv) j else false) ivs).

Definition skyride_ss (evs : list (event T)) : list T :=
  map (group_sum i_c (intervals (sort_ev evs))) (seq 0 (count_kind iscoal evs)).
Definition skyride_counts (evs : list (event T)) : list nat := repeat 1 (count_kind iscoal evs).

Definition skygrid_ss (evs : list (event T)) : list T :=
  map (group_sum i_g (intervals (sort_ev evs))) (seq 0 (S (count_kind isgrid evs))).
Definition skygrid_counts (evs : list (event T)) : list nat :=
  map (group_count i_g (intervals (sort_ev evs))) (seq 0 (S (count_kind isgrid evs))).

(* what the block-update sampler assumes:  log p = - sum_j ss_j / theta_j - sum_j c_j ln theta_j *)
Fixpoint count_terms (cs : list nat) (thetas : list T) : list T :=
  match cs, thetas with
  | c :: r, th :: s => mul N (ofNat N c) (nln N th) :: count_terms r s
  | _, _ => []
  end.
Definition reconstruct (ss : list T) (cs : list nat) (thetas : list T) : T :=
  sub N (opp N (nsum N (zipw (div N) ss thetas))) (nsum N (count_terms cs thetas)).

(* ---- the statistic of the constant coalescent and its integrated form ---- *)
Definition const_stat (evs : list (event T)) : T := ksum N (dur N) (intervals (sort_ev evs)).
Definition const_integrated (alpha beta lg_a lg_am : T) (evs : list (event T)) : T :=
  const_integrated_value N alpha beta lg_a lg_am (count_kind iscoal evs) (const_stat evs).

(* ---- entry points on exact inputs ---- *)
Definition skyride_ss_q (tips coals : list Q) : list T := skyride_ss (mk_events N tips coals []).
Definition skygrid_ss_q (grid tips coals : list Q) : list T := skygrid_ss (mk_events N tips coals grid).
Definition skygrid_counts_q (grid tips coals : list Q) : list nat :=
  skygrid_counts (mk_events N tips coals grid).
Definition skyride_rec_q (thetas tips coals : list Q) : T :=
  let evs := mk_events N tips coals [] in
  reconstruct (skyride_ss evs) (skyride_counts evs) (map (ofQ N) thetas).
Definition skygrid_rec_q (thetas grid tips coals : list Q) : T :=
  let evs := mk_events N tips coals grid in
  reconstruct (skygrid_ss evs) (skygrid_counts evs) (map (ofQ N) thetas).
Definition const_integrated_q (alpha beta : Q) (lg_a lg_am : T) (tips coals : list Q) : T :=
  const_integrated (ofQ N alpha) (ofQ N beta) lg_a lg_am (mk_events N tips coals []).

End Suff.
