(* Tip data: symbols -> tip vectors / tip states, over the tables regenerated from datatype.py
   (gen/G_datatype.v).  Symbols are ASCII codes. *)
From Coq Require Import List Arith Bool.
Import ListNotations.
From TT Require Import Tree G_datatype.

Definition mem_nat (x : nat) (l : list nat) : bool := existsb (Nat.eqb x) l.

(* ord of 'ACGTUacgtu' *)
Definition nuc_unambiguous : list nat := [65; 67; 71; 84; 85; 97; 99; 103; 116; 117].
(* NucleotideDataType.encoding *)
Definition nuc_encoding (c : nat) : nat := lk nuc_states c 17.
(* NucleotideDataType.partial *)
Definition nuc_partial (use_ambiguities : bool) (c : nat) : list nat :=
  if negb use_ambiguities && negb (mem_nat c nuc_unambiguous) then [1; 1; 1; 1]
  else lk nuc_ambig (nuc_encoding c) [].
(* compress_alignment_states: clamp(encoding, max = state_count) *)
Definition nuc_tip_state (c : nat) : nat := Nat.min (nuc_encoding c) 4.

(* ord of 'ACDEFGHIKLMNPQRSTVWYacdefghiklmnpqrstvwy' *)
Definition aa_unambiguous : list nat :=
  [65; 67; 68; 69; 70; 71; 72; 73; 75; 76; 77; 78; 80; 81; 82; 83; 84; 86; 87; 89;
   97; 99; 100; 101; 102; 103; 104; 105; 107; 108; 109; 110; 112; 113; 114; 115; 116; 118; 119; 121].
Definition aa_encoding (c : nat) : nat := lk aa_states c 25.
Definition aa_partial (use_ambiguities : bool) (c : nat) : list nat :=
  if negb use_ambiguities && negb (mem_nat c aa_unambiguous) then last aa_ambig []
  else lk aa_ambig (aa_encoding c) [].
Definition aa_tip_state (c : nat) : nat := Nat.min (aa_encoding c) 20.

(* ---- what the symbols MEAN (IUPAC): the set of states a symbol may stand for ---- *)
Definition upper (c : nat) : nat := if (97 <=? c) && (c <=? 122) then c - 32 else c.
Definition iupac_set (c : nat) : list nat :=
  match upper c with
  | 65 => [0] | 67 => [1] | 71 => [2] | 84 => [3] | 85 => [3]          (* A C G T U *)
  | 82 => [0; 2] | 89 => [1; 3] | 77 => [0; 1] | 87 => [0; 3]          (* R Y M W *)
  | 83 => [1; 2] | 75 => [2; 3]                                        (* S K *)
  | 66 => [1; 2; 3] | 68 => [0; 2; 3] | 72 => [0; 1; 3] | 86 => [0; 1; 2]   (* B D H V *)
  | _ => [0; 1; 2; 3]                                                  (* N ? - and anything else: missing *)
  end.
Definition indicator_of (S : nat) (set : list nat) : list nat :=
  map (fun s => if mem_nat s set then 1 else 0) (seq 0 S).

(* amino acids: 20 states in the order ACDEFGHIKLMNPQRSTVWY; B = {D,N}, Z = {E,Q}; X * ? - missing *)
Definition aa_order : list nat := [65; 67; 68; 69; 70; 71; 72; 73; 75; 76; 77; 78; 80; 81; 82; 83; 84; 86; 87; 89].
Fixpoint pos_in (x : nat) (l : list nat) (k : nat) : option nat :=
  match l with [] => None | y :: r => if Nat.eqb x y then Some k else pos_in x r (Datatypes.S k) end.
Definition aa_set (c : nat) : list nat :=
  match pos_in (upper c) aa_order 0 with
  | Some k => [k]
  | None => match upper c with
            | 66 => [2; 11]        (* B = D or N *)
            | 90 => [3; 13]        (* Z = E or Q *)
            | _ => seq 0 20
            end
  end.
