(* Coalescent priors (torchtree/evolution/coalescent.py): ConstantCoalescent, ExponentialCoalescent,
   PiecewiseConstantCoalescent (skyride), PiecewiseConstantCoalescentGrid (skygrid),
   PiecewiseLinearCoalescentGrid, PiecewiseExponentialCoalescentGrid.
   One polymorphic term per model; control flow (sorting, tie tests, flat-piece tests, indexing) only
   on exact data (Q keys, nat, Z, bool).  Executable definitions only, no proofs.

   Part 1 (Section Events) is the event / interval machinery shared by every model (and reusable
   for sufficient statistics / the integrated constant model): events, stable insertion sort on
   the exact keys, the walk producing one interval per sorted event with the running lineage count
   and the running numbers of grid / coalescent marks. *)
From Coq Require Import QArith ZArith List Arith.
Import ListNotations.
From TT Require Import Num Tree.
Local Close Scope Q_scope.
Local Open Scope nat_scope.

(* sampling event (+1 lineage), coalescent event (-1), grid point (0) *)
Inductive kind := Tip | Coal | Grid.

Record event (T : Type) := mkEv { ekey : Q; etime : T; ekind : kind }.
Arguments mkEv {T} _ _ _. Arguments ekey {T} _. Arguments etime {T} _. Arguments ekind {T} _.

(* The interval ENDING at a sorted event: [i_a, i_b], i_zero = "the two exact keys are equal",
   i_k lineages during the interval, i_g / i_c grid / coalescent marks sorted before its end event
   (= at or before its start event), i_end the kind of its end event. *)
Record ival (T : Type) := mkIv { i_a : T; i_b : T; i_zero : bool; i_k : Z; i_g : nat; i_c : nat;
                                 i_end : kind }.
Arguments mkIv {T} _ _ _ _ _ _ _.
Arguments i_a {T} _. Arguments i_b {T} _. Arguments i_zero {T} _. Arguments i_k {T} _.
Arguments i_g {T} _. Arguments i_c {T} _. Arguments i_end {T} _.

Definition delta (k : kind) : Z := match k with Tip => 1 | Coal => -1 | Grid => 0 end.
Definition isgrid (k : kind) : nat := match k with Grid => 1 | _ => 0 end.
Definition iscoal (k : kind) : nat := match k with Coal => 1 | _ => 0 end.

Section Events.
Context {T : Type}.

(* argsort: stable insertion sort on the exact key *)
Fixpoint insert_ev (e : event T) (l : list (event T)) : list (event T) :=
  match l with
  | [] => [e]
  | x :: r => if Qle_bool (ekey e) (ekey x) then e :: x :: r else x :: insert_ev e r
  end.
Fixpoint sort_ev (l : list (event T)) : list (event T) :=
  match l with [] => [] | e :: r => insert_ev e (sort_ev r) end.

(* cumsum of the marks along the sorted events; one interval per event *)
Fixpoint walk (pk : Q) (pt : T) (k : Z) (g c : nat) (l : list (event T)) : list (ival T) :=
  match l with
  | [] => []
  | e :: r =>
      mkIv pt (etime e) (Qeq_bool pk (ekey e)) k g c (ekind e)
      :: walk (ekey e) (etime e) (k + delta (ekind e))%Z (g + isgrid (ekind e)) (c + iscoal (ekind e)) r
  end.

(* the first interval is the empty one [t0,t0] ending at the first event, with no lineage *)
Definition intervals (s : list (event T)) : list (ival T) :=
  match s with [] => [] | e :: r => walk (ekey e) (etime e) 0%Z 0 0 (e :: r) end.

Definition count_kind (f : kind -> nat) (l : list (event T)) : nat :=
  fold_right (fun e a => f (ekind e) + a) 0 l.
End Events.

Section Coalescent.
Context {T : Type} (N : Num T).

(* node_heights = tips ++ internal heights (in any order), grid appended by the grid models *)
Definition mk_events (tips coals grid : list Q) : list (event T) :=
  map (fun q => mkEv q (ofQ N q) Tip) tips ++ map (fun q => mkEv q (ofQ N q) Coal) coals
  ++ map (fun q => mkEv q (ofQ N q) Grid) grid.

(* lineage_count * (lineage_count - 1) / 2 *)
Definition choose2 (k : Z) : T := ofQ N (Qmake (k * (k - 1)) 2).
Definition dur (iv : ival T) : T := sub N (i_b iv) (i_a iv).

(* sum over intervals of C(k,2) * (integral of 1/N over the interval); empty intervals give 0 *)
Definition ksum (piece : ival T -> T) (ivs : list (ival T)) : T :=
  nsum N (map (fun iv => if i_zero iv then zero N else mul N (choose2 (i_k iv)) (piece iv)) ivs).
(* sum of ln N at the coalescent events *)
Definition csum (lnN : ival T -> T) (ivs : list (ival T)) : T :=
  nsum N (map (fun iv => match i_end iv with Coal => lnN iv | _ => zero N end) ivs).
Definition lp (piece lnN : ival T -> T) (ivs : list (ival T)) : T :=
  sub N (opp N (ksum piece ivs)) (csum lnN ivs).

(* ---- ConstantCoalescent.log_prob:  sum(-lchoose2*durations/theta) - (n-1) log theta ---- *)
Definition constant_lp (theta : T) (evs : list (event T)) : T :=
  let ivs := intervals (sort_ev evs) in
  sub N (opp N (ksum (fun iv => div N (dur iv) theta) ivs))
        (mul N (ofNat N (count_kind iscoal evs)) (nln N theta)).

(* ---- ExponentialCoalescent.log_prob: N(t) = theta exp(-growth t).
   growth = 0 (decided on the exact value gq) is the constant model: the flat limit of the closed
   form (the code divides 0 by 0 there). ---- *)
Definition exponential_lp (theta : T) (gq : Q) (g : T) (evs : list (event T)) : T :=
  let ivs := intervals (sort_ev evs) in
  if Qeq_bool gq 0%Q then lp (fun iv => div N (dur iv) theta) (fun _ => nln N theta) ivs
  else lp (fun iv => div N (sub N (nexp N (mul N (i_b iv) g)) (nexp N (mul N (i_a iv) g)))
                           (mul N theta g))
          (fun iv => nln N (mul N theta (nexp N (mul N (opp N (i_b iv)) g)))) ivs.

(* ---- PiecewiseConstantCoalescent (skyride): theta index = coalescent marks so far ---- *)
Definition skyride_lp (thetas : list T) (evs : list (event T)) : T :=
  let ivs := intervals (sort_ev evs) in
  sub N (opp N (ksum (fun iv => div N (dur iv) (lk thetas (i_c iv) (zero N))) ivs))
        (nsum N (map (nln N) thetas)).

(* ---- PiecewiseConstantCoalescentGrid (skygrid): theta index = grid marks so far ---- *)
Definition skygrid_lp (thetas : list T) (evs : list (event T)) : T :=
  let ivs := intervals (sort_ev evs) in
  lp (fun iv => div N (dur iv) (lk thetas (i_g iv) (zero N)))
     (fun iv => nln N (lk thetas (i_g iv) (zero N))) ivs.

(* grid with the point t = 0 prepended: piece j is [g0 j, g0 (j+1)], the last piece is unbounded *)
Definition g0 (gridT : list T) (j : nat) : T := lk (zero N :: gridT) j (zero N).

(* ---- PiecewiseLinearCoalescentGrid: N interpolates thetas linearly between grid points and is
   constant (last theta) beyond the last one.  thq = exact values of the thetas (flat-piece test).
   On a flat piece the integral is duration / N (the code uses the LAST theta there). ---- *)
Definition lin_N (th gridT : list T) (j : nat) (t : T) : T :=
  let thj := lk th j (zero N) in
  if length gridT <=? j then thj
  else add N thj (div N (mul N (sub N (lk th (S j) (zero N)) thj) (sub N t (g0 gridT j)))
                        (sub N (g0 gridT (S j)) (g0 gridT j))).
Definition lin_flat (thq : list Q) (m j : nat) : bool :=
  if m <=? j then true else Qeq_bool (lk thq j 0%Q) (lk thq (S j) 0%Q).
Definition lin_piece (thq : list Q) (th gridT : list T) (iv : ival T) : T :=
  let j := i_g iv in
  if lin_flat thq (length gridT) j then div N (dur iv) (lk th j (zero N))
  else let na := lin_N th gridT j (i_a iv) in
       let nb := lin_N th gridT j (i_b iv) in
       div N (mul N (dur iv) (sub N (nln N nb) (nln N na))) (sub N nb na).
Definition linear_lp (thq : list Q) (th gridT : list T) (evs : list (event T)) : T :=
  let ivs := intervals (sort_ev evs) in
  lp (lin_piece thq th gridT) (fun iv => nln N (lin_N th gridT (i_g iv) (i_b iv))) ivs.

(* ---- PiecewiseExponentialCoalescentGrid: N(0) = theta, growth rate growth_j on piece j, N
   continuous:  ln N(t) = ln N(g_j) - growth_j (t - g_j).  (The code computes this only for a
   single piece.)  gq = exact growth rates (flat-piece test). ---- *)
Fixpoint pe_lnNg (lnth : T) (growth gridT : list T) (j : nat) : T :=
  match j with
  | O => lnth
  | S i => sub N (pe_lnNg lnth growth gridT i)
                 (mul N (lk growth i (zero N)) (sub N (g0 gridT (S i)) (g0 gridT i)))
  end.
Definition pe_lnN (lnth : T) (growth gridT : list T) (j : nat) (t : T) : T :=
  sub N (pe_lnNg lnth growth gridT j) (mul N (lk growth j (zero N)) (sub N t (g0 gridT j))).
Definition pe_piece (lnth : T) (gq : list Q) (growth gridT : list T) (iv : ival T) : T :=
  let j := i_g iv in
  let gj := lk growth j (zero N) in
  let ng := nexp N (pe_lnNg lnth growth gridT j) in
  if Qeq_bool (lk gq j 0%Q) 0%Q then div N (dur iv) ng
  else div N (sub N (nexp N (mul N gj (sub N (i_b iv) (g0 gridT j))))
                    (nexp N (mul N gj (sub N (i_a iv) (g0 gridT j)))))
             (mul N ng gj).
Definition pwexp_lp (theta : T) (gq : list Q) (growth gridT : list T) (evs : list (event T)) : T :=
  let ivs := intervals (sort_ev evs) in
  let lnth := nln N theta in
  lp (pe_piece lnth gq growth gridT) (fun iv => pe_lnN lnth growth gridT (i_g iv) (i_b iv)) ivs.

(* ---- entry points on exact inputs (what the correspondence runs) ---- *)
Definition constant_q (theta : Q) (tips coals : list Q) : T :=
  constant_lp (ofQ N theta) (mk_events tips coals []).
Definition exponential_q (theta g : Q) (tips coals : list Q) : T :=
  exponential_lp (ofQ N theta) g (ofQ N g) (mk_events tips coals []).
Definition skyride_q (thetas : list Q) (tips coals : list Q) : T :=
  skyride_lp (map (ofQ N) thetas) (mk_events tips coals []).
Definition skygrid_q (thetas grid : list Q) (tips coals : list Q) : T :=
  skygrid_lp (map (ofQ N) thetas) (mk_events tips coals grid).
Definition linear_q (thetas grid : list Q) (tips coals : list Q) : T :=
  linear_lp thetas (map (ofQ N) thetas) (map (ofQ N) grid) (mk_events tips coals grid).
Definition pwexp_q (theta : Q) (growth grid : list Q) (tips coals : list Q) : T :=
  pwexp_lp (ofQ N theta) growth (map (ofQ N) growth) (map (ofQ N) grid) (mk_events tips coals grid).

End Coalescent.
