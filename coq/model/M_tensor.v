(* M_tensor — shaped tensors with torch's shape semantics, and the shape-dispatch logic of torchtree
   that decides which axis is the sample axis (C10).

   tensor      : shape (list nat) + flat row-major data over an ARBITRARY element type T.
   operations  : elementwise binary op with torch's broadcasting rule, unsqueeze, squeeze, expand,
                 reshape / view (with one -1), sum along an axis (keepdim or not), mean, cat.  Each
                 returns None exactly when torch raises (strides are not modelled: data is always in
                 logical row-major order, so view = reshape; the legacy "skip a 1-D empty tensor"
                 rule of torch.cat is not modelled).
   joint       : JointDistributionModel.log_prob's seven-way case analysis on the shapes of the
                 component log-probabilities and their reported sample shapes, followed by
                 cat(-1).sum(-1).
   inference   : Model.sample_shape rules: "longest leading shape" (Container._sample_shape,
                 substitution / site models, TreeLikelihoodModel), Distribution._sample_shape,
                 MultivariateNormal._sample_shape, the coalescent rule.
   Only definitions here; the proofs are in proof/P_tensor.v. *)
From Coq Require Import List Arith Bool PeanoNat ZArith Lia.
Import ListNotations.

(* ---------------------------------------------------------------- generic helpers *)
Definition numel (s : list nat) : nat := fold_right Nat.mul 1 s.

Fixpoint list_eqb {A} (eqb : A -> A -> bool) (a b : list A) : bool :=
  match a, b with
  | [], [] => true
  | x :: r, y :: s => eqb x y && list_eqb eqb r s
  | _, _ => false
  end.
Definition shape_eqb := list_eqb Nat.eqb.

Definition obind {A B} (o : option A) (f : A -> option B) : option B :=
  match o with Some a => f a | None => None end.
Notation "x <- o ;; k" := (obind o (fun x => k)) (at level 61, o at next level, right associativity).

Fixpoint mapM {A B} (f : A -> option B) (l : list A) : option (list B) :=
  match l with
  | [] => Some []
  | x :: r => y <- f x ;; ys <- mapM f r ;; Some (y :: ys)
  end.

(* i-th block of k consecutive entries *)
Definition chunk {A} (k i : nat) (d : list A) : list A := firstn k (skipn (i * k) d).

(* the first n blocks of k entries *)
Fixpoint split_rows {A} (n k : nat) (d : list A) : list (list A) :=
  match n with
  | 0 => []
  | S n' => firstn k d :: split_rows n' k (skipn k d)
  end.

Fixpoint map2 {A} (f : A -> A -> A) (a b : list A) : list A :=
  match a, b with
  | x :: r, y :: s => f x y :: map2 f r s
  | _, _ => []
  end.

(* Python's negative indices: dimension d of a rank-r object; torch accepts -r <= d < r
   (and -1 <= d <= 0 when r = 0) *)
Definition norm_dim (r : nat) (d : Z) : option nat :=
  let r' := Z.of_nat (Nat.max r 1) in
  if ((- r' <=? d) && (d <? r'))%Z then Some (Z.to_nat (if (d <? 0)%Z then d + r' else d))
  else None.

(* python slice s[:-1] *)
Definition but_last {A} (s : list A) : list A := removelast s.

Section Tensor.
Context {T : Type}.

Record tensor := mkT { tshape : list nat; tdata : list T }.

Definition wfb (t : tensor) : bool := length (tdata t) =? numel (tshape t).

(* ---------------------------------------------------------------- broadcasting *)
Definition pad (r : nat) (s : list nat) : list nat := repeat 1 (r - length s) ++ s.

(* shapes of equal rank *)
Fixpoint bshape (s1 s2 : list nat) : option (list nat) :=
  match s1, s2 with
  | [], [] => Some []
  | a :: r1, b :: r2 =>
      r <- bshape r1 r2 ;;
      if a =? b then Some (a :: r) else if a =? 1 then Some (b :: r) else if b =? 1 then Some (a :: r) else None
  | _, _ => None
  end.

Definition broadcast_shapes (s1 s2 : list nat) : option (list nat) :=
  let r := Nat.max (length s1) (length s2) in bshape (pad r s1) (pad r s2).

(* data of the broadcast op for operands of shapes s1 s2 (equal rank, compatible) *)
Fixpoint bdata (f : T -> T -> T) (s1 s2 : list nat) (d1 d2 : list T) : list T :=
  match s1, s2 with
  | a :: r1, b :: r2 =>
      flat_map (fun i => bdata f r1 r2 (chunk (numel r1) (if a =? 1 then 0 else i) d1)
                                        (chunk (numel r2) (if b =? 1 then 0 else i) d2))
               (seq 0 (if a =? 1 then b else a))
  | _, _ => match d1, d2 with x :: _, y :: _ => [f x y] | _, _ => [] end
  end.

Definition binop (f : T -> T -> T) (t1 t2 : tensor) : option tensor :=
  let r := Nat.max (length (tshape t1)) (length (tshape t2)) in
  let s1 := pad r (tshape t1) in
  let s2 := pad r (tshape t2) in
  s <- bshape s1 s2 ;; Some (mkT s (bdata f s1 s2 (tdata t1) (tdata t2))).

(* row s of a tensor whose first axis is the sample axis *)
Definition row (s : nat) (t : tensor) : tensor :=
  mkT (tl (tshape t)) (chunk (numel (tl (tshape t))) s (tdata t)).

(* stacking equally shaped tensors along a new first axis *)
Definition stack (sh : list nat) (ts : list tensor) : tensor :=
  mkT (length ts :: sh) (flat_map tdata ts).

(* ---------------------------------------------------------------- unsqueeze / squeeze *)
Definition unsqueeze (dim : Z) (t : tensor) : option tensor :=
  let r := length (tshape t) in
  let r' := Z.of_nat (S r) in
  if ((- r' <=? dim) && (dim <? r'))%Z then
    let k := Z.to_nat (if (dim <? 0)%Z then dim + r' else dim) in
    Some (mkT (firstn k (tshape t) ++ 1 :: skipn k (tshape t)) (tdata t))
  else None.

Definition squeeze (dim : Z) (t : tensor) : option tensor :=
  k <- norm_dim (length (tshape t)) dim ;;
  match nth_error (tshape t) k with
  | Some 1 => Some (mkT (firstn k (tshape t) ++ skipn (S k) (tshape t)) (tdata t))
  | _ => Some t
  end.

(* ---------------------------------------------------------------- expand *)
(* target sizes, -1 = keep; sizes are aligned to the right *)
Fixpoint expand_shape (s : list nat) (sizes : list Z) : option (list nat) :=   (* equal lengths *)
  match s, sizes with
  | [], [] => Some []
  | a :: r, z :: rz =>
      rest <- expand_shape r rz ;;
      if (z =? -1)%Z then Some (a :: rest)
      else if (z <? 0)%Z then None
      else if (Z.of_nat a =? z)%Z then Some (a :: rest)
      else if a =? 1 then Some (Z.to_nat z :: rest)
      else None
  | _, _ => None
  end.

Fixpoint edata (s tgt : list nat) (d : list T) : list T :=
  match s, tgt with
  | a :: r, b :: rt => flat_map (fun i => edata r rt (chunk (numel r) (if a =? 1 then 0 else i) d)) (seq 0 b)
  | _, _ => d
  end.

Definition expand (sizes : list Z) (t : tensor) : option tensor :=
  let r := length (tshape t) in
  let n := length sizes in
  if n <? r then None
  else if existsb (fun z => (z <? 0)%Z) (firstn (n - r) sizes) then None    (* -1 not allowed for a new leading dimension *)
  else
    let s := pad n (tshape t) in
    tgt <- expand_shape s sizes ;; Some (mkT tgt (edata s tgt (tdata t))).

(* ---------------------------------------------------------------- reshape / view *)
Definition count_neg (sizes : list Z) : nat := length (filter (fun z => (z =? -1)%Z) sizes).
Definition known_prod (sizes : list Z) : Z :=
  fold_right (fun z acc => if (z =? -1)%Z then acc else (z * acc)%Z) 1%Z sizes.

Definition reshape (sizes : list Z) (t : tensor) : option tensor :=
  let n := Z.of_nat (numel (tshape t)) in
  if existsb (fun z => (z <? -1)%Z) sizes then None
  else match count_neg sizes with
       | 0 => if (known_prod sizes =? n)%Z then Some (mkT (map Z.to_nat sizes) (tdata t)) else None
       | 1 => let p := known_prod sizes in
              if (p =? 0)%Z then None                                   (* -1 is ambiguous or impossible *)
              else if (n mod p =? 0)%Z then
                Some (mkT (map (fun z => if (z =? -1)%Z then Z.to_nat (n / p) else Z.to_nat z) sizes) (tdata t))
              else None
       | _ => None
       end.
Definition view := reshape.

(* ---------------------------------------------------------------- sum / mean along an axis *)
Variable zero : T.
Variable add : T -> T -> T.

Definition tsum (l : list T) : T := fold_right add zero l.

(* one block of shape [n; inner]: add the n rows of length inner *)
Definition sum_block (n inner : nat) (blk : list T) : list T :=
  fold_right (map2 add) (repeat zero inner) (split_rows n inner blk).

Definition sum_dim (dim : Z) (keepdim : bool) (t : tensor) : option tensor :=
  let s := tshape t in
  match s with
  | [] => k <- norm_dim 0 dim ;; Some t
  | _ =>
    k <- norm_dim (length s) dim ;;
    let outer := numel (firstn k s) in
    let n := nth k s 1 in
    let inner := numel (skipn (S k) s) in
    let d := flat_map (fun o => sum_block n inner (chunk (n * inner) o (tdata t))) (seq 0 outer) in
    Some (mkT (firstn k s ++ (if keepdim then [1] else []) ++ skipn (S k) s) d)
  end.

Variable divn : T -> nat -> T.        (* x / n, for mean *)
Definition mean_dim (dim : Z) (keepdim : bool) (t : tensor) : option tensor :=
  k <- norm_dim (length (tshape t)) dim ;;
  r <- sum_dim dim keepdim t ;;
  Some (mkT (tshape r) (map (fun x => divn x (nth k (tshape t) 1)) (tdata r))).

(* ---------------------------------------------------------------- cat *)
Definition same_except (k : nat) (s1 s2 : list nat) : bool :=
  shape_eqb (firstn k s1) (firstn k s2) && shape_eqb (skipn (S k) s1) (skipn (S k) s2)
  && (length s1 =? length s2).

Definition cat (dim : Z) (ts : list tensor) : option tensor :=
  match ts with
  | [] => None
  | t0 :: _ =>
    let s0 := tshape t0 in
    match s0 with
    | [] => None                                   (* zero-dimensional tensors cannot be concatenated *)
    | _ =>
      k <- norm_dim (length s0) dim ;;
      if forallb (fun t => same_except k s0 (tshape t)) ts then
        let outer := numel (firstn k s0) in
        let inner := numel (skipn (S k) s0) in
        let d := flat_map (fun o => flat_map (fun t => chunk (nth k (tshape t) 0 * inner) o (tdata t)) ts)
                          (seq 0 outer) in
        Some (mkT (firstn k s0 ++ fold_right (fun t acc => nth k (tshape t) 0 + acc) 0 ts :: skipn (S k) s0) d)
      else None
    end
  end.

(* ---------------------------------------------------------------- JointDistributionModel.log_prob *)
(* a component: the tensor returned by distr() and the sample shape distr.sample_shape reports *)
Record comp := mkComp { c_lp : tensor; c_ss : list nat }.

(* the seven-way case analysis, in source order; J = self.sample_shape of the joint model *)
Definition joint_term (J : list nat) (c : comp) : option tensor :=
  let lp := c_lp c in
  let L := tshape lp in
  let ss := c_ss c in
  if shape_eqb L ss then unsqueeze (-1) lp                                  (* [...] -> [...,1] *)
  else if shape_eqb L [] then unsqueeze 0 lp                                (* [] -> [1] *)
  else if length ss <? length L then                                        (* [..., x, y] -> [..., x*y].sum(-1) *)
    v <- view (map Z.of_nat (firstn (length ss) L) ++ [(-1)%Z]) lp ;; sum_dim (-1) true v
  else if negb (last L 0 =? 1) then sum_dim (-1) true lp
  else if length L =? 1 then expand (map Z.of_nat J ++ [1%Z]) lp
  else if (1 <? length L) && (length J =? 0) then squeeze 0 lp
  else Some lp.

Definition joint_log_prob (J : list nat) (cs : list comp) : option tensor :=
  ts <- mapM (joint_term J) cs ;; c <- cat (-1) ts ;; sum_dim (-1) false c.

End Tensor.

Arguments tensor T : clear implicits.
Arguments comp T : clear implicits.

(* ---------------------------------------------------------------- sample_shape inference *)
(* python max(l, key=len): the FIRST element of maximal length *)
Fixpoint longest_from (best : list nat) (l : list (list nat)) : list nat :=
  match l with
  | [] => best
  | s :: r => if length best <? length s then longest_from s r else longest_from best r
  end.
Definition longest (l : list (list nat)) : option (list nat) :=
  match l with [] => None | s :: r => Some (longest_from s r) end.       (* max() of an empty list raises *)

(* Container._sample_shape: parameters contribute shape[:-1], models their sample_shape;
   max(sample_models, sample_parameters, key=len) keeps the models' shape on ties *)
Definition container_sample_shape (param_shapes model_ss : list (list nat)) : list nat :=
  let sp := match longest (map but_last param_shapes) with Some s => s | None => [] end in
  let sm := match longest model_ss with Some s => s | None => [] end in
  if length sm <? length sp then sp else sm.

(* substitution models, discretised site models: longest parameter.shape[:-1] *)
Definition params_sample_shape (param_shapes : list (list nat)) : option (list nat) :=
  longest (map but_last param_shapes).

(* TreeLikelihoodModel._sample_shape / PoissonTreeLikelihood: longest sub-model sample shape *)
Definition models_sample_shape (model_ss : list (list nat)) : option (list nat) := longest model_ss.

(* AbstractCoalescentModel._sample_shape: max(tree.sample_shape, theta.shape[:-1], key=len) *)
Definition coalescent_sample_shape (tree_ss theta_shape : list nat) : list nat :=
  longest_from tree_ss [but_last theta_shape].

(* Distribution._sample_shape(x.shape, distribution.batch_shape) *)
Definition dist_sample_shape (xs bs : list nat) : list nat :=
  if length bs <? length xs then
    firstn (length xs - (if length bs =? 0 then 1 else length bs)) xs       (* x_shape[:-offset] *)
  else if length xs =? 0 then []                                            (* batch_shape[:-0] is empty *)
  else firstn (length bs - length xs) bs.                                   (* batch_shape[:-len(x_shape)] *)

(* MultivariateNormal._sample_shape / DeterministicNormal._sample_shape: x.shape[:-offset] *)
Definition offset_sample_shape (xs batch : list nat) : list nat :=
  firstn (length xs - (if length batch =? 0 then 1 else length batch)) xs.

(* the layout torchtree uses: a tensor is sample_shape ++ base_shape *)
Definition sigma (S : nat) (batched : bool) : list nat := if batched then [S] else [].

(* ---------------------------------------------------------------- typed components and `ambiguous` *)
(* What a component really is: its log-probability tensor has shape sigma ++ event where the leading
   axis (if any) indexes samples; `rep` is the sample shape its sample_shape property reports.
   The code sees only the two shapes. *)
Record tcomp (T : Type) := mkTC { tc_batched : bool; tc_event : list nat; tc_rep : list nat; tc_data : list T }.
Arguments tc_batched {T}. Arguments tc_event {T}. Arguments tc_rep {T}. Arguments tc_data {T}.
Arguments mkTC {T}.

Definition tc_shape {T} (S : nat) (c : tcomp T) : list nat := sigma S (tc_batched c) ++ tc_event c.
Definition tc_comp {T} (S : nat) (c : tcomp T) : comp T := mkComp (mkT (tc_shape S c) (tc_data c)) (tc_rep c).

(* The shape tests of log_prob cannot tell which axis is the sample axis when
   - the component carries a sample axis that its sample_shape does not report (the axis is then
     summed like an event axis), or
   - the component reports a sample shape [S] but returns an unbatched value whose event shape is [S]
     itself (taken for per-sample values), or has rank >= 2 (its first event axis is taken for the
     sample axis). *)
Definition ambiguous1 {T} (S : nat) (c : tcomp T) : bool :=
  match tc_batched c, tc_rep c with
  | true, [] => true
  | false, _ :: _ => shape_eqb (tc_event c) [S] || (1 <? length (tc_event c))
  | _, _ => false
  end.
Definition ambiguous {T} (S : nat) (cs : list (tcomp T)) : bool := existsb (ambiguous1 S) cs.

(* reported sample shapes are [] or [S] *)
Definition rep_ok {T} (S : nat) (c : tcomp T) : bool := shape_eqb (tc_rep c) [] || shape_eqb (tc_rep c) [S].

(* J as Container._sample_shape computes it from the components of a joint distribution
   (models report sample_shape, callable parameters shape[:-1] = their sample_shape) *)
Definition joint_J {T} (cs : list (tcomp T)) : list nat :=
  match longest (map tc_rep cs) with Some s => s | None => [] end.

(* what the joint density of sample s must be: every component's entries belonging to sample s
   (all entries of an unbatched component) added up *)
Definition comp_sum {T} (zero : T) (add : T -> T -> T) (S s : nat) (c : tcomp T) : T :=
  tsum zero add (if tc_batched c then chunk (numel (tc_event c)) s (tc_data c) else tc_data c).
Definition joint_spec {T} (zero : T) (add : T -> T -> T) (S s : nat) (cs : list (tcomp T)) : T :=
  tsum zero add (map (comp_sum zero add S s) cs).

(* value of sample s in a result of shape [S] (or of shape []: the same value for every sample) *)
Definition value_at {T} (d : T) (t : tensor T) (s : nat) : T :=
  match tshape t with [] => nth 0 (tdata t) d | _ => nth s (tdata t) d end.

(* ---------------------------------------------------------------- runs (used by the correspondence check) *)
Open Scope Z_scope.
Definition tz := tensor Z.
Definition show_t (o : option tz) : list Z :=
  match o with
  | None => [0]
  | Some t => 1 :: Z.of_nat (length (tshape t)) :: map Z.of_nat (tshape t) ++ tdata t
  end.
Definition zsum_dim := @sum_dim Z 0 Z.add.
Definition zmean_dim := @mean_dim Z 0 Z.add (fun x _ => x).     (* reports the sums; the harness divides *)
Definition zcat := @cat Z.
Definition zbinop := @binop Z.

(* symbolic entries: an entry is the list of (component, flat index) codes that were added into it *)
Definition sym := list Z.
Definition sym_tensor (code0 : Z) (shape : list nat) : tensor sym :=
  mkT shape (map (fun i => [code0 + Z.of_nat i]) (seq 0 (numel shape))).
Definition show_sym (o : option (tensor sym)) : list Z :=
  match o with
  | None => [0]
  | Some t => 1 :: Z.of_nat (length (tshape t)) :: map Z.of_nat (tshape t)
              ++ flat_map (fun e => Z.of_nat (length e) :: e) (tdata t)
  end.
Definition sym_joint (J : list nat) (cs : list (list nat * list nat)) : option (tensor sym) :=
  joint_log_prob (T:=sym) [] (@app Z) J
    (map (fun '(i, (sh, ss)) => mkComp (sym_tensor (Z.of_nat i * 1000000) sh) ss) (combine (seq 0 (length cs)) cs)).
Definition show_shape (s : list nat) : list Z := map Z.of_nat s.
Definition show_oshape (o : option (list nat)) : list Z :=
  match o with None => [0] | Some s => 1 :: map Z.of_nat s end.
Close Scope Z_scope.
