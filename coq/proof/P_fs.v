(* Proofs about the checkpoint-write program regenerated from save_parameters (gen/G_save.v). *)
From Coq Require Import List Arith Bool Lia.
Import ListNotations.
From TT Require Import Fs G_save.

(* inductive invariant: the checkpoint name is a complete image at least as recent as the last
   good checkpoint c, or it is absent and name.old is such an image *)
Definition inv (c : nat) (d : dir) : bool :=
  is_complete_ge c (dname d)
  || (match dname d with None => true | Some _ => false end && is_complete_ge c (dold d)).

Lemma inv_good c d : inv c d = true -> good c d = true.
Proof.
  unfold inv, good. destruct d as [[[n|n]|] [[o|o]|] [[w|w]|]]; cbn;
    repeat match goal with |- context [?a <=? ?b] => destruct (a <=? b) end; cbn;
    intros H; try discriminate; reflexivity.
Qed.

Ltac leb_solve :=
  repeat match goal with
         | H : (_ <=? _) = true |- _ => apply Nat.leb_le in H
         | |- (_ <=? _) = true => apply Nat.leb_le
         end; try lia.

Ltac crash_points :=
  let rec go n :=
    lazymatch n with
    | O => idtac
    | S ?m => match goal with
              | k : nat |- _ => destruct k as [|k]; [ vm_compute; try reflexivity | go m ]
              end
    end in go 16.

Lemma step_inv c d v k :
  inv c d = true -> c <= v -> inv c (run_write save_prog default_flags d v k) = true.
Proof.
  intros Hi Hv. apply Nat.leb_le in Hv.
  destruct d as [[[n|n]|] [[o|o]|] [[w|w]|]]; unfold inv in Hi; cbn in Hi;
    try discriminate; rewrite ?orb_false_r in Hi;
    unfold inv, run_write;
    do 16 (destruct k as [|k]; [ cbn; rewrite ?Hi, ?Hv; reflexivity | ]);
    cbn; rewrite ?Hi, ?Hv; reflexivity.
Qed.

Lemma inv_mono c c' d : c <= c' -> inv c' d = true -> inv c d = true.
Proof.
  unfold inv. intros Hc.
  destruct d as [[[n|n]|] [[o|o]|] w]; cbn; intros H; rewrite ?orb_false_r in *;
    try discriminate; leb_solve.
Qed.

Lemma history_inv ks : forall c d v,
  inv c d = true -> c <= v -> inv c (run_history save_prog default_flags d v ks) = true.
Proof.
  induction ks as [|k ks IH]; intros c d v Hi Hv; cbn [run_history]; [exact Hi|].
  apply IH; [apply step_inv; [exact Hi|lia] | lia].
Qed.

Lemma history_good ks c d v :
  inv c d = true -> c <= v -> good c (run_history save_prog default_flags d v ks) = true.
Proof. intros. apply inv_good, history_inv; assumption. Qed.

(* starting point of the property: an existing, complete checkpoint c under the name, with
   arbitrary leftovers under the sibling names *)
Lemma existing_inv c o w : inv c (mkDir (Some (Complete c)) o w) = true.
Proof. unfold inv; cbn. rewrite Nat.leb_refl. reflexivity. Qed.

(* a completed (uninterrupted) write installs the new version under the name *)
Lemma completed_write_installs c d v :
  inv c d = true -> c <= v ->
  dname (run_write save_prog default_flags d v 16) = Some (Complete v).
Proof.
  intros Hi Hv.
  destruct d as [[[n|n]|] [[o|o]|] [[w|w]|]]; unfold inv in Hi; cbn in Hi;
    try discriminate; reflexivity.
Qed.

(* ---- statements exported to prop/C18.v ---- *)
Lemma C18_single_write_safe_l c v k :
  c <= v -> good c (run_write save_prog default_flags (mkDir (Some (Complete c)) None None) v k) = true.
Proof. intros. apply inv_good, step_inv; [apply existing_inv | assumption]. Qed.

Lemma C18_history_safe_l ks c o w :
  good c (run_history save_prog default_flags (mkDir (Some (Complete c)) o w) c ks) = true.
Proof. apply history_good; [apply existing_inv | lia]. Qed.

Lemma C18_completed_write_installs_l ks c o w k :
  let d := run_history save_prog default_flags (mkDir (Some (Complete c)) o w) c ks in
  16 <= k ->
  dname (run_write save_prog default_flags d (S (c + length ks)) k) = Some (Complete (S (c + length ks))).
Proof.
  intros d Hk.
  assert (Hi : inv c d = true) by (apply history_inv; [apply existing_inv | lia]).
  assert (Hv : c <= S (c + length ks)) by lia.
  pose proof (completed_write_installs c d _ Hi Hv) as H.
  (* more budget than the program has primitives changes nothing *)
  replace k with (16 + (k - 16)) by lia. generalize (k - 16) as j. intros j.
  revert H. generalize (S (c + length ks)) as v. intros v H.
  destruct d as [[[n|n]|] [[o'|o']|] [[w'|w']|]]; unfold inv in Hi; cbn in Hi;
    try discriminate; reflexivity.
Qed.
