(* C14, the two MULTIVARIATE conjugate pairs exercised by the check (harness pairs "mvn",
   "mvn_full" and "cse"): the log ratio  ln p(x, z) - ln q(z)  is the same constant for every
   latent z in R^2 when q is the closed-form posterior, so (exact_at_posterior_l of P_vi.v) every
   objective returns that constant.  Everything over R, 2 x 2 symmetric matrices written out.

   (A) bivariate normal prior N(m0, S0) on the mean of one bivariate normal observation
       x ~ N(mu, S)  (S diagonal = two independent Normal terms, or full);
       posterior N(m1, S1), S1 = (S0^-1 + S^-1)^-1, m1 = S1 (S0^-1 m0 + S^-1 x);
       constant = ln N(x; m0, S0 + S).
   (B) theta = exp(cumsum z) (CumSumExpTransform), independent LogNormal priors on theta with the
       transform's log-Jacobian c1 + c2 in the joint, one Normal observation of each z_j;
       posterior N(P^-1 h, P^-1), P = L^T diag(1/sp^2) L + diag(1/sigma^2).                  *)
From Coq Require Import QArith Reals List Lra Lia Qreals Psatz.
Import ListNotations.
From TT Require Import Num NumR M_vi P_vi.
Open Scope R_scope.

(* ------------------------------------------------------------------ 2 x 2 symmetric algebra *)

(* the symmetric matrix [[s11, s12], [s12, s22]] *)
Record sym2 : Type := Sym2 { s11 : R; s12 : R; s22 : R }.
Definition vec2 : Type := (R * R)%type.

Definition det2 (M : sym2) : R := s11 M * s22 M - s12 M * s12 M.
Definition inv2 (M : sym2) : sym2 :=
  Sym2 (s22 M / det2 M) (- s12 M / det2 M) (s11 M / det2 M).
Definition add2 (M N : sym2) : sym2 := Sym2 (s11 M + s11 N) (s12 M + s12 N) (s22 M + s22 N).
Definition mv2 (M : sym2) (v : vec2) : vec2 :=
  (s11 M * fst v + s12 M * snd v, s12 M * fst v + s22 M * snd v).
Definition vadd (u v : vec2) : vec2 := (fst u + fst v, snd u + snd v).
Definition vsub (u v : vec2) : vec2 := (fst u - fst v, snd u - snd v).
(* v^T M v *)
Definition quad2 (M : sym2) (v : vec2) : R := fst v * fst (mv2 M v) + snd v * snd (mv2 M v).
(* symmetric positive definite (Sylvester) *)
Definition spd2 (M : sym2) : Prop := 0 < s11 M /\ 0 < det2 M.

(* MultivariateNormal(m, Sigma).log_prob(y), dimension 2:
   -1/2 (y-m)^T Sigma^-1 (y-m) - 1/2 ln det Sigma - ln (2 pi) *)
Definition lmvn (m : vec2) (Sg : sym2) (y : vec2) : R :=
  - / 2 * quad2 (inv2 Sg) (vsub y m) - / 2 * ln (det2 Sg) - ln (2 * PI).

(* Normal(m, s).log_prob(y) and LogNormal(m, s).log_prob(theta) *)
Definition lnorm (m s y : R) : R := - ((y - m) * (y - m)) / (2 * (s * s)) - ln s - / 2 * ln (2 * PI).
Definition llognorm (m s theta : R) : R := lnorm m s (ln theta) - ln theta.

Ltac mv_unfold :=
  unfold lmvn, quad2, mv2, vadd, vsub, inv2, add2, det2 in *;
  cbn [s11 s12 s22 fst snd] in *.

Lemma spd2_det_neq M : spd2 M -> det2 M <> 0.
Proof. intros [_ H]. lra. Qed.

Lemma spd2_s22_pos M : spd2 M -> 0 < s22 M.
Proof. destruct M as [a b d]. unfold spd2, det2; cbn [s11 s12 s22]. intros [Ha Hd].
  destruct (Rle_or_lt d 0) as [Hle|]; [|assumption]. exfalso.
  assert (a * d <= 0) by nra. assert (0 <= b * b) by nra. lra.
Qed.

Lemma inv2_involutive M : det2 M <> 0 -> inv2 (inv2 M) = M.
Proof.
  destruct M as [a b d]. intros H. mv_unfold. f_equal; field; auto.
Qed.

Lemma det2_inv2 M : det2 M <> 0 -> det2 (inv2 M) = / det2 M.
Proof. destruct M as [a b d]. intros H. mv_unfold. field. exact H. Qed.

(* the sum of two SPD matrices is SPD *)
Lemma spd2_add M N : spd2 M -> spd2 N -> spd2 (add2 M N).
Proof.
  destruct M as [a b d], N as [s r t]. unfold spd2, add2, det2; cbn [s11 s12 s22].
  intros [Ha HM] [Hs HN]. split; [lra|].
  (* a s (a t + s d - 2 b r) = a^2 det N + s^2 det M + (a r - s b)^2 *)
  assert (Hc : 0 < a * s * (a * t + s * d - 2 * b * r)).
  { replace (a * s * (a * t + s * d - 2 * b * r))
      with (a * a * (s * t - r * r) + s * s * (a * d - b * b) + (a * r - s * b) * (a * r - s * b))
      by ring.
    assert (0 < a * a * (s * t - r * r)) by (apply Rmult_lt_0_compat; nra).
    assert (0 < s * s * (a * d - b * b)) by (apply Rmult_lt_0_compat; nra).
    pose proof (Rle_0_sqr (a * r - s * b)) as Hsq. unfold Rsqr in Hsq. lra. }
  assert (Has : 0 < a * s) by nra.
  assert (Hx : 0 < a * t + s * d - 2 * b * r).
  { destruct (Rle_or_lt (a * t + s * d - 2 * b * r) 0) as [Hle|]; [|assumption].
    exfalso. assert (a * s * (a * t + s * d - 2 * b * r) <= 0) by nra. lra. }
  replace ((a + s) * (d + t) - (b + r) * (b + r))
    with ((a * d - b * b) + (s * t - r * r) + (a * t + s * d - 2 * b * r)) by ring.
  lra.
Qed.

Lemma spd2_inv2 M : spd2 M -> spd2 (inv2 M).
Proof.
  intros H. pose proof (spd2_s22_pos M H) as H22. pose proof (spd2_det_neq M H) as Hn.
  destruct H as [H11 Hd]. split.
  - unfold inv2; cbn [s11]. apply Rdiv_lt_0_compat; assumption.
  - rewrite det2_inv2 by exact Hn. apply Rinv_0_lt_compat; exact Hd.
Qed.

(* ------------------------------------------------------------------ (A) normal - normal, d = 2 *)

Definition post_prec (S0 S : sym2) : sym2 := add2 (inv2 S0) (inv2 S).
Definition post_cov (S0 S : sym2) : sym2 := inv2 (post_prec S0 S).
Definition post_mean (m0 : vec2) (S0 S : sym2) (x : vec2) : vec2 :=
  mv2 (post_cov S0 S) (vadd (mv2 (inv2 S0) m0) (mv2 (inv2 S) x)).

(* det (S0^-1 + S^-1) = det (S0 + S) / (det S0 det S) *)
Lemma det2_post_prec S0 S :
  det2 S0 <> 0 -> det2 S <> 0 ->
  det2 (post_prec S0 S) = det2 (add2 S0 S) / (det2 S0 * det2 S).
Proof.
  destruct S0 as [a b d], S as [s r t]. unfold post_prec. mv_unfold. intros H0 H1.
  field. split; assumption.
Qed.

Lemma spd2_post_prec S0 S : spd2 S0 -> spd2 S -> spd2 (post_prec S0 S).
Proof. intros H0 H1. apply spd2_add; apply spd2_inv2; assumption. Qed.

(* det S1 = det S0 det S / det (S0 + S) *)
Lemma det2_post_cov S0 S :
  spd2 S0 -> spd2 S -> det2 (post_cov S0 S) = det2 S0 * det2 S / det2 (add2 S0 S).
Proof.
  intros H0 H1. unfold post_cov.
  pose proof (spd2_det_neq _ H0). pose proof (spd2_det_neq _ H1).
  pose proof (spd2_det_neq _ (spd2_add _ _ H0 H1)).
  rewrite det2_inv2 by (apply spd2_det_neq, spd2_post_prec; assumption).
  rewrite det2_post_prec by assumption. field. repeat split; assumption.
Qed.

(* the closed form S1 = (det S . S0 + det S0 . S) / det (S0 + S)   (= S0 (S0 + S)^-1 S) *)
Lemma post_cov_closed S0 S :
  spd2 S0 -> spd2 S ->
  post_cov S0 S =
  Sym2 ((det2 S * s11 S0 + det2 S0 * s11 S) / det2 (add2 S0 S))
       ((det2 S * s12 S0 + det2 S0 * s12 S) / det2 (add2 S0 S))
       ((det2 S * s22 S0 + det2 S0 * s22 S) / det2 (add2 S0 S)).
Proof.
  intros H0 H1.
  pose proof (spd2_det_neq _ H0) as N0. pose proof (spd2_det_neq _ H1) as N1.
  pose proof (spd2_det_neq _ (spd2_add _ _ H0 H1)) as NT.
  unfold post_cov. unfold inv2 at 1. rewrite det2_post_prec by assumption.
  set (D0 := det2 S0) in *. set (D1 := det2 S) in *. set (DT := det2 (add2 S0 S)) in *.
  unfold post_prec, add2, inv2; cbn [s11 s12 s22]. fold D0 D1.
  f_equal; field; repeat split; assumption.
Qed.

(* log-determinant part *)
Lemma ln_det2_post_cov S0 S :
  spd2 S0 -> spd2 S ->
  ln (det2 (post_cov S0 S)) = ln (det2 S0) + ln (det2 S) - ln (det2 (add2 S0 S)).
Proof.
  intros H0 H1. rewrite det2_post_cov by assumption.
  assert (PT : 0 < det2 (add2 S0 S)) by (apply (spd2_add _ _ H0 H1)).
  destruct H0 as [_ P0], H1 as [_ P1].
  unfold Rdiv. rewrite ln_mult; [| apply Rmult_lt_0_compat; assumption | apply Rinv_0_lt_compat; assumption].
  rewrite ln_mult by assumption. rewrite ln_Rinv by assumption. lra.
Qed.

(* quadratic-form part: completing the square in mu *)
Lemma quad_post S0 S m0 x mu :
  spd2 S0 -> spd2 S ->
  quad2 (inv2 S) (vsub x mu) + quad2 (inv2 S0) (vsub mu m0)
  - quad2 (post_prec S0 S) (vsub mu (post_mean m0 S0 S x))
  = quad2 (inv2 (add2 S0 S)) (vsub x m0).
Proof.
  intros H0 H1.
  pose proof (spd2_det_neq _ H0) as N0. pose proof (spd2_det_neq _ H1) as N1.
  pose proof (spd2_det_neq _ (spd2_add _ _ H0 H1)) as NT.
  unfold post_mean. rewrite post_cov_closed by assumption. clear H0 H1.
  destruct S0 as [a b d], S as [s r t], m0 as [p q], x as [x1 x2], mu as [u v].
  unfold post_prec. mv_unfold.
  field. repeat split; assumption.
Qed.

Lemma inv2_post_cov S0 S : spd2 S0 -> spd2 S -> inv2 (post_cov S0 S) = post_prec S0 S.
Proof.
  intros H0 H1. unfold post_cov. apply inv2_involutive, spd2_det_neq, spd2_post_prec; assumption.
Qed.

Lemma spd2_post_cov S0 S : spd2 S0 -> spd2 S -> spd2 (post_cov S0 S).
Proof. intros H0 H1. apply spd2_inv2, spd2_post_prec; assumption. Qed.

(* the joint of (A), the exact posterior, the closed-form log marginal *)
Definition mvn_lp (m0 : vec2) (S0 S : sym2) (x : vec2) (mu : vec2) : R :=
  lmvn mu S x + lmvn m0 S0 mu.
Definition mvn_lq (m0 : vec2) (S0 S : sym2) (x : vec2) (mu : vec2) : R :=
  lmvn (post_mean m0 S0 S x) (post_cov S0 S) mu.
Definition mvn_logml (m0 : vec2) (S0 S : sym2) (x : vec2) : R := lmvn m0 (add2 S0 S) x.

Lemma bayes_constant_mvn2_l m0 S0 S x :
  spd2 S0 -> spd2 S ->
  forall mu1 mu2,
    lmvn (mu1, mu2) S x + lmvn m0 S0 (mu1, mu2)
    - lmvn (post_mean m0 S0 S x) (post_cov S0 S) (mu1, mu2)
    = lmvn m0 (add2 S0 S) x.
Proof.
  intros H0 H1 mu1 mu2. unfold lmvn.
  rewrite inv2_post_cov, ln_det2_post_cov by assumption.
  pose proof (quad_post S0 S m0 x (mu1, mu2) H0 H1) as Hq.
  lra.
Qed.

Lemma bayes_constant_mvn2_fun m0 S0 S x :
  spd2 S0 -> spd2 S ->
  forall mu, mvn_lp m0 S0 S x mu - mvn_lq m0 S0 S x mu = mvn_logml m0 S0 S x.
Proof.
  intros H0 H1 [mu1 mu2]. unfold mvn_lp, mvn_lq, mvn_logml.
  apply bayes_constant_mvn2_l; assumption.
Qed.

(* diagonal covariance = independent Normal terms (the harness pair "mvn": likelihood
   Normal(loc = mu, scale = (sg1, sg2)) on the two components) *)
Definition diag2 (sg1 sg2 : R) : sym2 := Sym2 (sg1 * sg1) 0 (sg2 * sg2).

Lemma spd2_diag2 sg1 sg2 : 0 < sg1 -> 0 < sg2 -> spd2 (diag2 sg1 sg2).
Proof.
  intros H1 H2. unfold spd2, diag2, det2; cbn [s11 s12 s22].
  assert (0 < sg1 * sg1) by nra. assert (0 < sg2 * sg2) by nra. split; [assumption|].
  assert (0 < sg1 * sg1 * (sg2 * sg2)) by (apply Rmult_lt_0_compat; assumption). lra.
Qed.

Lemma lmvn_diag m1 m2 sg1 sg2 y1 y2 :
  0 < sg1 -> 0 < sg2 ->
  lmvn (m1, m2) (diag2 sg1 sg2) (y1, y2) = lnorm m1 sg1 y1 + lnorm m2 sg2 y2.
Proof.
  intros H1 H2. unfold lnorm, diag2. mv_unfold.
  replace (sg1 * sg1 * (sg2 * sg2) - 0 * 0) with ((sg1 * sg1) * (sg2 * sg2)) by ring.
  assert (P1 : 0 < sg1 * sg1) by nra. assert (P2 : 0 < sg2 * sg2) by nra.
  rewrite (ln_mult (sg1 * sg1) (sg2 * sg2)) by assumption.
  rewrite !ln_mult by assumption.
  field. split; lra.
Qed.

(* (A) with independent noise, written with the two Normal likelihood terms *)
Lemma bayes_constant_mvn2_diag_l m0 S0 sg1 sg2 x1 x2 :
  spd2 S0 -> 0 < sg1 -> 0 < sg2 ->
  forall mu1 mu2,
    lnorm mu1 sg1 x1 + lnorm mu2 sg2 x2 + lmvn m0 S0 (mu1, mu2)
    - lmvn (post_mean m0 S0 (diag2 sg1 sg2) (x1, x2)) (post_cov S0 (diag2 sg1 sg2)) (mu1, mu2)
    = lmvn m0 (add2 S0 (diag2 sg1 sg2)) (x1, x2).
Proof.
  intros H0 H1 H2 mu1 mu2. rewrite <- lmvn_diag by assumption.
  apply bayes_constant_mvn2_l; [assumption | apply spd2_diag2; assumption].
Qed.

(* ------------------------------------------------------------------ (B) cumulative-sum-exp *)

(* LogNormal priors on theta_i = exp c_i plus the log-Jacobian c1 + c2 of z |-> theta
   (c1 = z1, c2 = z1 + z2): Gaussian in c, exactly *)
Lemma cse_prior_is_gaussian m1 sp1 m2 sp2 c1 c2 :
  llognorm m1 sp1 (exp c1) + llognorm m2 sp2 (exp c2) + (c1 + c2)
  = lnorm m1 sp1 c1 + lnorm m2 sp2 c2.
Proof. unfold llognorm. rewrite !ln_exp. ring. Qed.

(* -(y-m)^2 / (2 s^2) with the weight w = 1/s^2 *)
Lemma lnorm_weight m s y :
  s <> 0 -> lnorm m s y = - (/ (s * s)) * ((y - m) * (y - m)) / 2 - ln s - / 2 * ln (2 * PI).
Proof. intros H. unfold lnorm. field. exact H. Qed.

Section CSE.
Variables m1 m2 sp1 sp2 sg1 sg2 y1 y2 : R.

(* the joint as the implementation evaluates it: Normal likelihood terms on z, LogNormal prior
   terms on theta = exp (cumsum z), log-Jacobian = sum of the cumulative sums *)
Definition cse_lp (z : vec2) : R :=
  let c1 := fst z in
  let c2 := fst z + snd z in
  lnorm (fst z) sg1 y1 + lnorm (snd z) sg2 y2
  + (llognorm m1 sp1 (exp c1) + llognorm m2 sp2 (exp c2) + (c1 + c2)).

(* the same with the prior simplified (what the check evaluates as the closed form) *)
Definition cse_lp_gauss (z : vec2) : R :=
  lnorm (fst z) sg1 y1 + lnorm (snd z) sg2 y2
  + lnorm m1 sp1 (fst z) + lnorm m2 sp2 (fst z + snd z).

(* posterior precision P = L^T diag(w) L + diag(1/sigma^2), L = [[1,0],[1,1]], w_i = 1/sp_i^2,
   and h = L^T diag(w) m + diag(1/sigma^2) y *)
Definition cse_prec : sym2 :=
  Sym2 (/ (sp1 * sp1) + / (sp2 * sp2) + / (sg1 * sg1))
       (/ (sp2 * sp2))
       (/ (sp2 * sp2) + / (sg2 * sg2)).
Definition cse_h : vec2 :=
  (/ (sp1 * sp1) * m1 + / (sp2 * sp2) * m2 + / (sg1 * sg1) * y1,
   / (sp2 * sp2) * m2 + / (sg2 * sg2) * y2).
Definition cse_cov : sym2 := inv2 cse_prec.
Definition cse_mean : vec2 := mv2 cse_cov cse_h.
Definition cse_lq (z : vec2) : R := lmvn cse_mean cse_cov z.

Lemma cse_lp_eq z : cse_lp z = cse_lp_gauss z.
Proof. unfold cse_lp, cse_lp_gauss. cbv zeta. rewrite cse_prior_is_gaussian. ring. Qed.

Hypothesis Hsp1 : 0 < sp1.
Hypothesis Hsp2 : 0 < sp2.
Hypothesis Hsg1 : 0 < sg1.
Hypothesis Hsg2 : 0 < sg2.

Lemma inv_sq_pos s : 0 < s -> 0 < / (s * s).
Proof. intros H. apply Rinv_0_lt_compat. nra. Qed.

Lemma spd2_cse_prec : spd2 cse_prec.
Proof.
  pose proof (inv_sq_pos _ Hsp1) as W1. pose proof (inv_sq_pos _ Hsp2) as W2.
  pose proof (inv_sq_pos _ Hsg1) as T1. pose proof (inv_sq_pos _ Hsg2) as T2.
  unfold spd2, cse_prec, det2; cbn [s11 s12 s22].
  set (w1 := / (sp1 * sp1)) in *. set (w2 := / (sp2 * sp2)) in *.
  set (t1 := / (sg1 * sg1)) in *. set (t2 := / (sg2 * sg2)) in *.
  split; [lra|].
  replace ((w1 + w2 + t1) * (w2 + t2) - w2 * w2)
    with (w1 * w2 + w1 * t2 + w2 * t2 + t1 * w2 + t1 * t2) by ring.
  assert (0 < w1 * w2) by (apply Rmult_lt_0_compat; assumption).
  assert (0 < w1 * t2) by (apply Rmult_lt_0_compat; assumption).
  assert (0 < w2 * t2) by (apply Rmult_lt_0_compat; assumption).
  assert (0 < t1 * w2) by (apply Rmult_lt_0_compat; assumption).
  assert (0 < t1 * t2) by (apply Rmult_lt_0_compat; assumption).
  lra.
Qed.

Lemma spd2_cse_cov : spd2 cse_cov.
Proof. apply spd2_inv2, spd2_cse_prec. Qed.

Lemma bayes_constant_cse_gauss z1 z2 :
  cse_lp_gauss (z1, z2) - cse_lq (z1, z2) = cse_lp_gauss (0, 0) - cse_lq (0, 0).
Proof.
  pose proof (spd2_det_neq _ spd2_cse_prec) as ND.
  unfold cse_lq, lmvn, cse_mean, cse_cov.
  rewrite (inv2_involutive cse_prec ND).
  unfold cse_lp_gauss. cbn [fst snd].
  rewrite !(lnorm_weight _ sg1), !(lnorm_weight _ sg2), !(lnorm_weight _ sp1),
          !(lnorm_weight _ sp2) by lra.
  revert ND. unfold cse_prec, cse_h.
  generalize (/ (sp1 * sp1)) (/ (sp2 * sp2)) (/ (sg1 * sg1)) (/ (sg2 * sg2)).
  intros w1 w2 t1 t2 ND. mv_unfold.
  field. exact ND.
Qed.

Lemma bayes_constant_cse_l z1 z2 :
  cse_lp (z1, z2) - cse_lq (z1, z2) = cse_lp (0, 0) - cse_lq (0, 0).
Proof. rewrite !cse_lp_eq. apply bayes_constant_cse_gauss. Qed.

End CSE.

(* the log marginal of (B) as the check computes it: log ratio at z = (0, 0) *)
Definition cse_logml (m1 m2 sp1 sp2 sg1 sg2 y1 y2 : R) : R :=
  cse_lp m1 m2 sp1 sp2 sg1 sg2 y1 y2 (0, 0) - cse_lq m1 m2 sp1 sp2 sg1 sg2 y1 y2 (0, 0).

Lemma bayes_constant_cse_fun m1 m2 sp1 sp2 sg1 sg2 y1 y2 :
  0 < sp1 -> 0 < sp2 -> 0 < sg1 -> 0 < sg2 ->
  forall z, cse_lp m1 m2 sp1 sp2 sg1 sg2 y1 y2 z - cse_lq m1 m2 sp1 sp2 sg1 sg2 y1 y2 z
            = cse_logml m1 m2 sp1 sp2 sg1 sg2 y1 y2.
Proof. intros H1 H2 H3 H4 [z1 z2]. unfold cse_logml. apply bayes_constant_cse_l; assumption. Qed.

(* ================================================================== statements *)

(* (A) bivariate normal prior N(m0, S0) on the mean mu of one observation x ~ N(mu, S), S0 and S
   symmetric positive definite (S full or diagonal); q = N(m1, S1) with
   S1 = (S0^-1 + S^-1)^-1, m1 = S1 (S0^-1 m0 + S^-1 x).  For EVERY mu the log ratio is the
   closed-form log marginal ln N(x; m0, S0 + S). *)
Theorem bayes_constant_mvn2 : forall (m0 : vec2) (S0 S : sym2) (x : vec2),
  spd2 S0 -> spd2 S ->
  forall mu1 mu2 : R,
    lmvn (mu1, mu2) S x + lmvn m0 S0 (mu1, mu2)
    - lmvn (post_mean m0 S0 S x) (post_cov S0 S) (mu1, mu2)
    = lmvn m0 (add2 S0 S) x.
Proof. exact bayes_constant_mvn2_l. Qed.
Print Assumptions bayes_constant_mvn2.

(* the same written out on the entries: S0 = [[a,b],[b,d]], S = [[s1,r],[r,s2]] *)
Theorem bayes_constant_mvn2_entries : forall m01 m02 a b d s1 r s2 x1 x2 : R,
  0 < a -> 0 < a * d - b * b -> 0 < s1 -> 0 < s1 * s2 - r * r ->
  forall mu1 mu2 : R,
    lmvn (mu1, mu2) (Sym2 s1 r s2) (x1, x2) + lmvn (m01, m02) (Sym2 a b d) (mu1, mu2)
    - lmvn (post_mean (m01, m02) (Sym2 a b d) (Sym2 s1 r s2) (x1, x2))
           (post_cov (Sym2 a b d) (Sym2 s1 r s2)) (mu1, mu2)
    = lmvn (m01, m02) (Sym2 (a + s1) (b + r) (d + s2)) (x1, x2).
Proof.
  intros m01 m02 a b d s1 r s2 x1 x2 Ha Hd Hs HD mu1 mu2.
  apply (bayes_constant_mvn2 (m01, m02) (Sym2 a b d) (Sym2 s1 r s2) (x1, x2)); split; assumption.
Qed.
Print Assumptions bayes_constant_mvn2_entries.

(* (A), independent noise: likelihood = Normal(mu1, sg1) at x1 + Normal(mu2, sg2) at x2 *)
Theorem bayes_constant_mvn2_diag : forall (m0 : vec2) (S0 : sym2) (sg1 sg2 x1 x2 : R),
  spd2 S0 -> 0 < sg1 -> 0 < sg2 ->
  forall mu1 mu2 : R,
    lnorm mu1 sg1 x1 + lnorm mu2 sg2 x2 + lmvn m0 S0 (mu1, mu2)
    - lmvn (post_mean m0 S0 (diag2 sg1 sg2) (x1, x2)) (post_cov S0 (diag2 sg1 sg2)) (mu1, mu2)
    = lmvn m0 (add2 S0 (diag2 sg1 sg2)) (x1, x2).
Proof. exact bayes_constant_mvn2_diag_l. Qed.
Print Assumptions bayes_constant_mvn2_diag.

(* the pieces, for the record *)
Theorem mvn2_det_sum_pos : forall S0 S, spd2 S0 -> spd2 S -> 0 < det2 (add2 S0 S).
Proof. intros S0 S H0 H1. apply (spd2_add S0 S H0 H1). Qed.
Theorem mvn2_det_precision : forall S0 S, det2 S0 <> 0 -> det2 S <> 0 ->
  det2 (add2 (inv2 S0) (inv2 S)) = det2 (add2 S0 S) / (det2 S0 * det2 S).
Proof. exact det2_post_prec. Qed.
Theorem mvn2_logdet_posterior : forall S0 S, spd2 S0 -> spd2 S ->
  ln (det2 (post_cov S0 S)) = ln (det2 S0) + ln (det2 S) - ln (det2 (add2 S0 S)).
Proof. exact ln_det2_post_cov. Qed.
Theorem mvn2_posterior_is_spd : forall S0 S, spd2 S0 -> spd2 S -> spd2 (post_cov S0 S).
Proof. exact spd2_post_cov. Qed.

(* (B) prior simplification: LogNormal terms on theta = exp c plus the log-Jacobian c1 + c2 *)
Theorem cse_prior_gaussian : forall m1 sp1 m2 sp2 c1 c2 : R,
  llognorm m1 sp1 (exp c1) + llognorm m2 sp2 (exp c2) + (c1 + c2)
  = lnorm m1 sp1 c1 + lnorm m2 sp2 c2.
Proof. exact cse_prior_is_gaussian. Qed.
Print Assumptions cse_prior_gaussian.

(* (B) the log ratio joint - N(P^-1 h, P^-1) does not depend on z: its value at (z1, z2) is its
   value at (0, 0)  (which is how the check computes the log marginal). *)
Theorem bayes_constant_cse : forall m1 m2 sp1 sp2 sg1 sg2 y1 y2 : R,
  0 < sp1 -> 0 < sp2 -> 0 < sg1 -> 0 < sg2 ->
  forall z1 z2 : R,
    (lnorm z1 sg1 y1 + lnorm z2 sg2 y2 + lnorm m1 sp1 z1 + lnorm m2 sp2 (z1 + z2))
    - lmvn (cse_mean m1 m2 sp1 sp2 sg1 sg2 y1 y2) (cse_cov sp1 sp2 sg1 sg2) (z1, z2)
    = (lnorm 0 sg1 y1 + lnorm 0 sg2 y2 + lnorm m1 sp1 0 + lnorm m2 sp2 (0 + 0))
      - lmvn (cse_mean m1 m2 sp1 sp2 sg1 sg2 y1 y2) (cse_cov sp1 sp2 sg1 sg2) (0, 0).
Proof.
  intros m1 m2 sp1 sp2 sg1 sg2 y1 y2 H1 H2 H3 H4 z1 z2.
  exact (bayes_constant_cse_gauss m1 m2 sp1 sp2 sg1 sg2 y1 y2 H1 H2 H3 H4 z1 z2).
Qed.
Print Assumptions bayes_constant_cse.

(* (B) on the joint as the implementation evaluates it (LogNormal on exp (cumsum z) + Jacobian) *)
Theorem bayes_constant_cse_joint : forall m1 m2 sp1 sp2 sg1 sg2 y1 y2 : R,
  0 < sp1 -> 0 < sp2 -> 0 < sg1 -> 0 < sg2 ->
  forall z1 z2 : R,
    (lnorm z1 sg1 y1 + lnorm z2 sg2 y2
     + (llognorm m1 sp1 (exp z1) + llognorm m2 sp2 (exp (z1 + z2)) + (z1 + (z1 + z2))))
    - lmvn (cse_mean m1 m2 sp1 sp2 sg1 sg2 y1 y2) (cse_cov sp1 sp2 sg1 sg2) (z1, z2)
    = cse_logml m1 m2 sp1 sp2 sg1 sg2 y1 y2.
Proof.
  intros m1 m2 sp1 sp2 sg1 sg2 y1 y2 H1 H2 H3 H4 z1 z2.
  exact (bayes_constant_cse_fun m1 m2 sp1 sp2 sg1 sg2 y1 y2 H1 H2 H3 H4 (z1, z2)).
Qed.
Print Assumptions bayes_constant_cse_joint.

Theorem cse_posterior_is_spd : forall sp1 sp2 sg1 sg2 : R,
  0 < sp1 -> 0 < sp2 -> 0 < sg1 -> 0 < sg2 ->
  spd2 (cse_prec sp1 sp2 sg1 sg2) /\ spd2 (cse_cov sp1 sp2 sg1 sg2).
Proof. intros. split; [apply spd2_cse_prec | apply spd2_cse_cov]; assumption. Qed.

(* ------------------------------------------------------------------ objective o density:
   with exact_at_posterior_l of P_vi.v, whatever the draws (latent type R^2), every objective
   -- ELBO, VR(alpha <> 1), CUBO(n <> 0), KLpq, on [S] and on [S,K] -- returns the constant *)
Theorem exact_mvn2 : forall (m0 : vec2) (S0 S : sym2) (x : vec2),
  spd2 S0 -> spd2 S ->
  (forall zs : list vec2, zs <> [] ->
     all_exact (mvn_logml m0 S0 S x) (map (mvn_lp m0 S0 S x) zs) (map (mvn_lq m0 S0 S x) zs)) /\
  (forall zss : list (list vec2), zss <> [] -> Forall (fun r => r <> []) zss ->
     all_exact2 (mvn_logml m0 S0 S x)
                (map (map (mvn_lp m0 S0 S x)) zss) (map (map (mvn_lq m0 S0 S x)) zss)).
Proof.
  intros m0 S0 S x H0 H1.
  exact (exact_at_posterior_l _ _ _ (bayes_constant_mvn2_fun m0 S0 S x H0 H1)).
Qed.
Print Assumptions exact_mvn2.

Theorem exact_cse : forall m1 m2 sp1 sp2 sg1 sg2 y1 y2 : R,
  0 < sp1 -> 0 < sp2 -> 0 < sg1 -> 0 < sg2 ->
  (forall zs : list vec2, zs <> [] ->
     all_exact (cse_logml m1 m2 sp1 sp2 sg1 sg2 y1 y2)
               (map (cse_lp m1 m2 sp1 sp2 sg1 sg2 y1 y2) zs)
               (map (cse_lq m1 m2 sp1 sp2 sg1 sg2 y1 y2) zs)) /\
  (forall zss : list (list vec2), zss <> [] -> Forall (fun r => r <> []) zss ->
     all_exact2 (cse_logml m1 m2 sp1 sp2 sg1 sg2 y1 y2)
                (map (map (cse_lp m1 m2 sp1 sp2 sg1 sg2 y1 y2)) zss)
                (map (map (cse_lq m1 m2 sp1 sp2 sg1 sg2 y1 y2)) zss)).
Proof.
  intros m1 m2 sp1 sp2 sg1 sg2 y1 y2 H1 H2 H3 H4.
  exact (exact_at_posterior_l _ _ _ (bayes_constant_cse_fun m1 m2 sp1 sp2 sg1 sg2 y1 y2 H1 H2 H3 H4)).
Qed.
Print Assumptions exact_cse.

(* ------------------------------------------------------------------ non-vacuity *)

(* two correlated SPD matrices satisfy the hypotheses of (A); their posterior covariance is
   [[2/3, 1/3], [1/3, 2/3]] and the marginal covariance [[3, 3/2], [3/2, 3]] *)
Example mvn2_example_spd : spd2 (Sym2 2 1 2) /\ spd2 (Sym2 1 (1 / 2) 1).
Proof. unfold spd2, det2; cbn [s11 s12 s22]. repeat split; lra. Qed.

Example mvn2_example_post_cov :
  post_cov (Sym2 2 1 2) (Sym2 1 (1 / 2) 1) = Sym2 (2 / 3) (1 / 3) (2 / 3).
Proof. unfold post_cov, post_prec. mv_unfold. f_equal; field. Qed.

Example mvn2_example_post_mean :
  post_mean (0, 0) (Sym2 2 1 2) (Sym2 1 (1 / 2) 1) (3, 0) = (2, 0).
Proof.
  unfold post_mean. rewrite mvn2_example_post_cov. mv_unfold. f_equal; field.
Qed.

(* the diagonal likelihood of the harness pair "mvn" *)
Example mvn2_example_diag : spd2 (diag2 (1 / 2) 3) /\ diag2 (1 / 2) 3 = Sym2 (1 / 4) 0 9.
Proof. split; [apply spd2_diag2; lra | unfold diag2; f_equal; field]. Qed.

(* (B) with all scales 1: P = [[3, 1], [1, 2]], SPD *)
Example cse_example_prec : cse_prec 1 1 1 1 = Sym2 3 1 2 /\ spd2 (cse_prec 1 1 1 1).
Proof.
  split; [unfold cse_prec; f_equal; field | apply spd2_cse_prec; lra].
Qed.
