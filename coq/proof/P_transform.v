From Coq Require Import QArith Reals List Lra Lia Arith.
From Coquelicot Require Import Coquelicot.
Import ListNotations.
From TT Require Import Num NumR Tree M_transform.
Open Scope R_scope.

(* ---- inverses ---- *)
Lemma diffs_cumsum_from acc l : diffs NumR acc (cumsum_from NumR acc l) = l.
Proof.
  revert acc; induction l as [|x l IH]; intros acc; cbn [cumsum_from diffs]; [reflexivity|].
  rewrite IH. f_equal. cbn. lra.
Qed.
Lemma cumsum_inverse_l x : cumsum_inv NumR (cumsum_fwd NumR x) = x.
Proof. apply diffs_cumsum_from. Qed.

Lemma cumsumexp_inverse_l x : cumsumexp_inv NumR (cumsumexp_fwd NumR x) = x.
Proof.
  unfold cumsumexp_inv, cumsumexp_fwd. rewrite map_map.
  rewrite (map_ext _ (fun v => v)) by (intros; cbn; apply ln_exp). rewrite map_id.
  apply diffs_cumsum_from.
Qed.

Lemma softplus_inv_softplus c : softplus_inv NumR (softplus NumR c) = c.
Proof.
  unfold softplus_inv, softplus. cbn [nln nexp add sub one NumR].
  rewrite exp_ln by (pose proof (exp_pos c); lra).
  replace (1 + exp c - 1) with (exp c) by lra. apply ln_exp.
Qed.
Lemma cumsumsoftplus_inverse_l x : cumsumsoftplus_inv NumR (cumsumsoftplus_fwd NumR x) = x.
Proof.
  unfold cumsumsoftplus_inv, cumsumsoftplus_fwd. rewrite map_map.
  rewrite (map_ext _ (fun v => v)) by (intros; apply softplus_inv_softplus). rewrite map_id.
  apply diffs_cumsum_from.
Qed.
Lemma softplus_inverse_l x : softplus_inv_l NumR (softplus_fwd NumR x) = x.
Proof.
  unfold softplus_inv_l, softplus_fwd. rewrite map_map.
  rewrite (map_ext _ (fun v => v)) by (intros; apply softplus_inv_softplus). apply map_id.
Qed.
Lemma log_inverse_l x : List.Forall (fun v => 0 < v) x -> log_inv NumR (log_fwd NumR x) = x.
Proof.
  intros H. unfold log_inv, log_fwd. rewrite map_map. rewrite <- (map_id x) at 2.
  apply map_ext_in. intros v Hv. cbn. apply exp_ln. rewrite List.Forall_forall in H. auto.
Qed.
Lemma exp_inverse_l x : exp_inv NumR (exp_fwd NumR x) = x.
Proof.
  unfold exp_inv, exp_fwd. rewrite map_map. rewrite <- (map_id x) at 2. apply map_ext. intros; cbn; apply ln_exp.
Qed.
Lemma sigmoid_inverse_l x : sigmoid_inv NumR (sigmoid_fwd NumR x) = x.
Proof.
  unfold sigmoid_inv, sigmoid_fwd. rewrite map_map. rewrite <- (map_id x) at 2. apply map_ext. intros v.
  unfold sigmoid. cbn [nln nexp add sub div opp one NumR].
  pose proof (exp_pos (- v)) as He.
  replace (1 - 1 / (1 + exp (- v))) with (exp (- v) / (1 + exp (- v))) by (field; lra).
  unfold Rdiv. rewrite Rmult_1_l.
  rewrite ln_mult; [|lra|apply Rinv_0_lt_compat; lra]. rewrite ln_exp. lra.
Qed.
Lemma affine_inverse_l loc scale x : scale <> 0 -> affine_inv NumR loc scale (affine_fwd NumR loc scale x) = x.
Proof.
  intros Hs. unfold affine_inv, affine_fwd. rewrite map_map. rewrite <- (map_id x) at 2.
  apply map_ext. intros v. cbn. field. exact Hs.
Qed.

(* ---- diagonal entries: derivatives of the scalar building blocks (Coquelicot) ---- *)
Lemma softplus_derive x : is_derive (softplus NumR) x (sigmoid NumR x).
Proof.
  unfold softplus, sigmoid. cbn [nln nexp add div opp one NumR].
  pose proof (exp_pos x). pose proof (exp_pos (- x)).
  auto_derive; [lra|].
  rewrite exp_Ropp. field. split; lra.
Qed.
Lemma exp_derive x : is_derive (nexp NumR) x (nexp NumR x).
Proof. cbn [nexp NumR]. auto_derive; [exact I|]. ring. Qed.
Lemma ln_derive x : 0 < x -> is_derive (nln NumR) x (/ x).
Proof. intros Hx. cbn [nln NumR]. auto_derive; [exact Hx|]. field. lra. Qed.
Lemma sigmoid_derive x : is_derive (sigmoid NumR) x (sigmoid NumR x * (1 - sigmoid NumR x)).
Proof.
  unfold sigmoid. cbn [nexp add div opp one NumR]. pose proof (exp_pos (- x)).
  auto_derive; [lra|]. field. lra.
Qed.

(* the reported values are ln of those diagonal entries *)
Lemma log_sigmoid_is_ln_sigmoid x : log_sigmoid NumR x = ln (sigmoid NumR x).
Proof.
  unfold log_sigmoid, softplus, sigmoid. cbn [nln nexp add div opp one NumR].
  pose proof (exp_pos (- x)). unfold Rdiv. rewrite Rmult_1_l. rewrite ln_Rinv by lra. reflexivity.
Qed.
Lemma sigmoid_logdet_is_ln_derivative x :
  sub NumR (log_sigmoid NumR x) (softplus NumR x) = ln (sigmoid NumR x * (1 - sigmoid NumR x)).
Proof.
  pose proof (exp_pos (- x)) as He. pose proof (exp_pos x) as He'.
  assert (Hs : 0 < sigmoid NumR x).
  { unfold sigmoid; cbn. apply Rdiv_lt_0_compat; lra. }
  assert (H1 : 1 - sigmoid NumR x = exp (- x) * sigmoid NumR x).
  { unfold sigmoid; cbn. field. lra. }
  rewrite ln_mult; [|exact Hs|rewrite H1; apply Rmult_lt_0_compat; assumption].
  rewrite H1. rewrite ln_mult by assumption. rewrite ln_exp.
  rewrite <- !log_sigmoid_is_ln_sigmoid. cbn [sub NumR].
  (* softplus x = x + softplus(-x) *)
  unfold log_sigmoid, softplus. cbn [nln nexp add opp one NumR].
  replace (1 + exp x) with (exp x * (1 + exp (- x))).
  - rewrite ln_mult by lra. rewrite ln_exp. lra.
  - rewrite Rmult_plus_distr_l, <- exp_plus. replace (x + - x) with 0 by lra. rewrite exp_0. lra.
Qed.

(* chain rule for a cumulative map: output i is g(c_{i-1} + x_i), its derivative in x_i is g'(c_i) *)
Lemma cumulative_diagonal (g : R -> R) (g' : R -> R) a x :
  (forall z, is_derive g z (g' z)) -> is_derive (fun t => g (a + t)) x (g' (a + x)).
Proof.
  intros Hg. evar_last.
  - apply (is_derive_comp g (fun t => a + t)); [apply Hg|].
    apply (is_derive_plus (V:=R_NormedModule)); [apply is_derive_const | apply is_derive_id].
  - cbn. unfold plus, zero, one, scal, mult; cbn. unfold mult; cbn. ring.
Qed.

(* ---- triangular structure of the cumulative maps: the first k outputs depend on the first k
        inputs only (entries above the diagonal of the Jacobian are zero) ---- *)
Lemma cumsum_from_app acc l1 l2 :
  cumsum_from NumR acc (l1 ++ l2)
  = cumsum_from NumR acc l1 ++ cumsum_from NumR (fold_left Rplus l1 acc) l2.
Proof.
  revert acc; induction l1 as [|x l1 IH]; intros acc; cbn [app cumsum_from fold_left]; [reflexivity|].
  rewrite IH. reflexivity.
Qed.
Lemma cumsum_prefix l1 l2 l2' :
  firstn (length l1) (cumsum NumR (l1 ++ l2)) = firstn (length l1) (cumsum NumR (l1 ++ l2')).
Proof.
  unfold cumsum. rewrite !cumsum_from_app.
  assert (H : forall acc, length (cumsum_from NumR acc l1) = length l1).
  { induction l1 as [|x l IH]; intros acc; cbn; [reflexivity|]. rewrite IH; reflexivity. }
  assert (F : forall (A B : list R), length A = length l1 -> firstn (length l1) (A ++ B) = A).
  { intros A B HA. rewrite <- HA, firstn_app, Nat.sub_diag, firstn_all. cbn. apply app_nil_r. }
  rewrite !F by apply H. reflexivity.
Qed.
Lemma map_cumsum_prefix (g : R -> R) l1 l2 l2' :
  firstn (length l1) (map g (cumsum NumR (l1 ++ l2))) = firstn (length l1) (map g (cumsum NumR (l1 ++ l2'))).
Proof. rewrite !firstn_map. f_equal. apply cumsum_prefix. Qed.
