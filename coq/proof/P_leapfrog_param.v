(* Free theorems (Paramcoq): the exact rational run of the leapfrog model used by the
   correspondence, wherever it is defined, IS the value of the real-valued model of the theorems. *)
From Coq Require Import QArith Reals List.
From Param Require Import Param.
From TT Require Import Num NumR NumQ ParamI ParamQ M_leapfrog.

Parametricity Recursive mass qualified.
Parametricity Recursive prod qualified.
Parametricity Recursive leapfrog qualified.
Parametricity Recursive hmc_step qualified.
Parametricity Recursive gauss_grad qualified.
Parametricity Recursive gauss_leapfrog qualified.
Parametricity Recursive gauss_step qualified.

Notation mass_R := TT_o_M_leapfrog_o_mass_R.
Notation prod_R := Coq_o_Init_o_Datatypes_o_prod_R.
Notation vrel := (list_R R qo relq).

(* any target: related gradient functions give related results *)
Lemma leapfrog_exact eps Eps L Minv MINV grad GRAD q Q p P :
  relq eps Eps -> mass_R R qo relq Minv MINV ->
  (forall x X, vrel x X -> vrel (grad x) (GRAD X)) ->
  vrel q Q -> vrel p P ->
  prod_R _ _ vrel _ _ vrel (leapfrog NumR eps Minv grad L (q, p)) (leapfrog NumQ Eps MINV GRAD L (Q, P)).
Proof.
  intros He Hm Hg Hq Hp.
  apply (TT_o_M_leapfrog_o_leapfrog_R R qo relq NumR NumQ NumRQ_R eps Eps He Minv MINV Hm grad GRAD Hg
           L L (nat_R_refl L)).
  constructor; assumption.
Qed.

(* Gaussian targets: the whole run, gradient included, is one polymorphic term *)
Lemma gauss_leapfrog_exact eps Eps L Minv MINV A AA mu MU q Q p P :
  relq eps Eps -> mass_R R qo relq Minv MINV ->
  list_R _ _ vrel A AA -> vrel mu MU -> vrel q Q -> vrel p P ->
  prod_R _ _ vrel _ _ vrel (gauss_leapfrog NumR eps L Minv A mu q p) (gauss_leapfrog NumQ Eps L MINV AA MU Q P).
Proof.
  intros He Hm HA Hmu Hq Hp.
  exact (TT_o_M_leapfrog_o_gauss_leapfrog_R R qo relq NumR NumQ NumRQ_R eps Eps He L L (nat_R_refl L)
           Minv MINV Hm A AA HA mu MU Hmu q Q Hq p P Hp).
Qed.

Lemma gauss_step_exact eps Eps L Minv MINV A AA mu MU q Q p P :
  relq eps Eps -> mass_R R qo relq Minv MINV ->
  list_R _ _ vrel A AA -> vrel mu MU -> vrel q Q -> vrel p P ->
  prod_R _ _ vrel _ _ relq (gauss_step NumR eps L Minv A mu q p) (gauss_step NumQ Eps L MINV AA MU Q P).
Proof.
  intros He Hm HA Hmu Hq Hp.
  exact (TT_o_M_leapfrog_o_gauss_step_R R qo relq NumR NumQ NumRQ_R eps Eps He L L (nat_R_refl L)
           Minv MINV Hm A AA HA mu MU Hmu q Q Hq p P Hp).
Qed.
Print Assumptions gauss_step_exact.
