(* Free theorems (Paramcoq): the exact run of the leapfrog model used by the correspondence,
   wherever it is defined, IS the value of the real-valued model of the theorems.
   The run uses the gcd-free dyadic instance NumDy of model/M_lf_oracle.v (value m * 2^e): its
   relation to NumR is proved here; the rational instance NumQ (base/ParamQ.v) is related too. *)
From Coq Require Import QArith ZArith Reals Qreals List Lra Lia.
From Bignums Require Import BigZ.
From Param Require Import Param.
From TT Require Import Num NumR NumQ ParamI ParamQ M_leapfrog M_lf_oracle.

Definition reld (r : R) (a : dy) : Type :=
  match a with Some (m, e) => r = (IZR (BigZ.to_Z m) * powerRZ 2 e)%R | None => True end.

Local Open Scope R_scope.
Lemma two_neq0 : 2 <> 0. Proof. lra. Qed.
Lemma IZR_pow2 k : (0 <= k)%Z -> IZR (2 ^ k) = powerRZ 2 k.
Proof.
  intros Hk. destruct k as [|p|p]; simpl; try lia.
  - reflexivity.
  - rewrite Zpower_pos_powerRZ. reflexivity.
Qed.
Lemma dshift_spec m k : (0 <= k)%Z -> BigZ.to_Z (dshift m k) = (BigZ.to_Z m * 2 ^ k)%Z.
Proof.
  intros Hk. unfold dshift. rewrite BigZ.spec_shiftl, BigZ.spec_of_Z. apply Z.shiftl_mul_pow2; auto.
Qed.
Lemma align m k e : (0 <= k)%Z -> IZR (BigZ.to_Z (dshift m k)) * powerRZ 2 e = IZR (BigZ.to_Z m) * powerRZ 2 (k + e).
Proof.
  intros Hk. rewrite dshift_spec by auto. rewrite mult_IZR, IZR_pow2 by auto.
  rewrite powerRZ_add by apply two_neq0. ring.
Qed.
Lemma pos_log2_exact_spec p k : pos_log2_exact p = Some k -> (0 <= k)%Z /\ Zpos p = (2 ^ k)%Z.
Proof.
  revert k; induction p; simpl; intros k H; try discriminate.
  - destruct (pos_log2_exact p) as [j|]; try discriminate. injection H as <-.
    destruct (IHp j eq_refl) as [Hj E]. split; [lia|].
    rewrite Z.pow_succ_r by auto. rewrite <- E. reflexivity.
  - injection H as <-. split; [lia | reflexivity].
Qed.
Lemma powerRZ_sub3 a b c : powerRZ 2 (a - b - c) = powerRZ 2 a / (powerRZ 2 c * powerRZ 2 b).
Proof.
  assert (H : powerRZ 2 (a - b - c) * (powerRZ 2 c * powerRZ 2 b) = powerRZ 2 a).
  { rewrite <- !powerRZ_add by apply two_neq0. f_equal. lia. }
  rewrite <- H. field. split; apply powerRZ_NOR, two_neq0.
Qed.

Lemma NumRDy_R : Num_R R dy reld NumR NumDy.
Proof.
  constructor.
  - unfold reld; cbn [zero NumDy]. rewrite BigZ.spec_0. simpl. ring.
  - unfold reld; cbn [one NumDy]. rewrite BigZ.spec_1. simpl. ring.
  - intros a [[m1 e1]|] Ha b [[m2 e2]|] Hb; unfold reld in *; cbn [add NumR NumDy d2] in *; auto.
    destruct (e1 <=? e2)%Z eqn:E; [apply Z.leb_le in E | apply Z.leb_gt in E]; subst a b.
    + rewrite BigZ.spec_add, plus_IZR, Rmult_plus_distr_r, align by lia.
      replace (e2 - e1 + e1)%Z with e2 by lia. reflexivity.
    + rewrite BigZ.spec_add, plus_IZR, Rmult_plus_distr_r, align by lia.
      replace (e1 - e2 + e2)%Z with e1 by lia. reflexivity.
  - intros a [[m1 e1]|] Ha b [[m2 e2]|] Hb; unfold reld in *; cbn [sub NumR NumDy d2] in *; auto.
    destruct (e1 <=? e2)%Z eqn:E; [apply Z.leb_le in E | apply Z.leb_gt in E]; subst a b.
    + rewrite BigZ.spec_sub, minus_IZR. unfold Rminus. rewrite Rmult_plus_distr_r, <- Ropp_mult_distr_l, align by lia.
      replace (e2 - e1 + e1)%Z with e2 by lia. reflexivity.
    + rewrite BigZ.spec_sub, minus_IZR. unfold Rminus. rewrite Rmult_plus_distr_r, <- Ropp_mult_distr_l, align by lia.
      replace (e1 - e2 + e2)%Z with e1 by lia. reflexivity.
  - intros a [[m1 e1]|] Ha b [[m2 e2]|] Hb; unfold reld in *; cbn [mul NumR NumDy dmul] in *; auto.
    subst a b. rewrite BigZ.spec_mul, mult_IZR, powerRZ_add by apply two_neq0. ring.
  - intros a [[m1 e1]|] Ha b [[m2 e2]|] Hb; unfold reld in *; cbn [div NumR NumDy ddiv] in *; auto.
    destruct (BigZ.to_Z m2) as [|p|p] eqn:E2; auto.
    + destruct (pos_log2_exact p) as [k|] eqn:Ek; auto.
      destruct (pos_log2_exact_spec _ _ Ek) as [Hk Ep]. subst a b. rewrite Ep, IZR_pow2 by auto.
      rewrite powerRZ_sub3. field. split; apply powerRZ_NOR, two_neq0.
    + destruct (pos_log2_exact p) as [k|] eqn:Ek; auto.
      destruct (pos_log2_exact_spec _ _ Ek) as [Hk Ep]. subst a b.
      rewrite BigZ.spec_opp, opp_IZR.
      change (Z.neg p) with (- Z.pos p)%Z. rewrite opp_IZR, Ep, IZR_pow2 by auto.
      rewrite powerRZ_sub3. field. split; apply powerRZ_NOR, two_neq0.
  - intros a [[m e]|] Ha; unfold reld in *; cbn [opp NumR NumDy dopp] in *; auto.
    subst a. rewrite BigZ.spec_opp, opp_IZR. ring.
  - intros p q Hq. apply Q_R_eq in Hq. subst. unfold reld; cbn [ofQ NumR NumDy]. unfold dofQ.
    destruct (pos_log2_exact (Qden q)) as [k|] eqn:Ek; auto.
    destruct (pos_log2_exact_spec _ _ Ek) as [Hk Ep].
    rewrite BigZ.spec_of_Z. unfold Q2R. rewrite Ep, IZR_pow2 by auto.
    replace (- k)%Z with (0 - 0 - k)%Z by lia. rewrite powerRZ_sub3. simpl. field.
    apply powerRZ_NOR, two_neq0.
  - intros a x Ha. exact I.
  - intros a x Ha. exact I.
  - intros a x Ha. exact I.
  - intros a x Ha b y Hb. exact I.
Qed.
Local Close Scope R_scope.

Parametricity Recursive mass qualified.
Parametricity Recursive prod qualified.
Parametricity Recursive leapfrog qualified.
Parametricity Recursive leapfrog_trace qualified.
Parametricity Recursive hmc_step qualified.
Parametricity Recursive gauss_grad qualified.
Parametricity Recursive gauss_leapfrog qualified.
Parametricity Recursive gauss_trace qualified.
Parametricity Recursive gauss_step qualified.

Notation mass_R := TT_o_M_leapfrog_o_mass_R.
Notation prod_R := Coq_o_Init_o_Datatypes_o_prod_R.

Section Tie.
(* any instance related to NumR: used at (qo, relq, NumQ) and (dy, reld, NumDy) *)
Variables (T : Type) (rel : R -> T -> Type) (N : Num T) (HN : Num_R R T rel NumR N).
Notation vrel := (list_R R T rel).

(* any target: related gradient functions give related results *)
Lemma leapfrog_tie eps Eps L Minv MINV grad GRAD q Q p P :
  rel eps Eps -> mass_R R T rel Minv MINV ->
  (forall x X, vrel x X -> vrel (grad x) (GRAD X)) ->
  vrel q Q -> vrel p P ->
  prod_R _ _ vrel _ _ vrel (leapfrog NumR eps Minv grad L (q, p)) (leapfrog N Eps MINV GRAD L (Q, P)).
Proof.
  intros He Hm Hg Hq Hp.
  apply (TT_o_M_leapfrog_o_leapfrog_R R T rel NumR N HN eps Eps He Minv MINV Hm grad GRAD Hg
           L L (nat_R_refl L)).
  constructor; assumption.
Qed.

Lemma hmc_step_tie eps Eps L Minv MINV grad GRAD q Q p P :
  rel eps Eps -> mass_R R T rel Minv MINV ->
  (forall x X, vrel x X -> vrel (grad x) (GRAD X)) ->
  vrel q Q -> vrel p P ->
  prod_R _ _ vrel _ _ rel (hmc_step NumR eps L Minv grad q p) (hmc_step N Eps L MINV GRAD Q P).
Proof.
  intros He Hm Hg Hq Hp.
  exact (TT_o_M_leapfrog_o_hmc_step_R R T rel NumR N HN eps Eps He L L (nat_R_refl L) Minv MINV Hm
           grad GRAD Hg q Q Hq p P Hp).
Qed.

Lemma leapfrog_trace_tie eps Eps L Minv MINV grad GRAD q Q p P :
  rel eps Eps -> mass_R R T rel Minv MINV ->
  (forall x X, vrel x X -> vrel (grad x) (GRAD X)) ->
  vrel q Q -> vrel p P ->
  list_R _ _ vrel (leapfrog_trace NumR eps Minv grad L (q, p)) (leapfrog_trace N Eps MINV GRAD L (Q, P)).
Proof.
  intros He Hm Hg Hq Hp.
  apply (TT_o_M_leapfrog_o_leapfrog_trace_R R T rel NumR N HN eps Eps He Minv MINV Hm grad GRAD Hg
           L L (nat_R_refl L)).
  constructor; assumption.
Qed.

(* Gaussian targets: the whole run, gradient included, is one polymorphic term *)
Lemma gauss_step_tie eps Eps L Minv MINV A AA mu MU q Q p P :
  rel eps Eps -> mass_R R T rel Minv MINV ->
  list_R _ _ vrel A AA -> vrel mu MU -> vrel q Q -> vrel p P ->
  prod_R _ _ vrel _ _ rel (gauss_step NumR eps L Minv A mu q p) (gauss_step N Eps L MINV AA MU Q P).
Proof.
  intros He Hm HA Hmu Hq Hp.
  exact (TT_o_M_leapfrog_o_gauss_step_R R T rel NumR N HN eps Eps He L L (nat_R_refl L)
           Minv MINV Hm A AA HA mu MU Hmu q Q Hq p P Hp).
Qed.
Lemma gauss_leapfrog_tie eps Eps L Minv MINV A AA mu MU q Q p P :
  rel eps Eps -> mass_R R T rel Minv MINV ->
  list_R _ _ vrel A AA -> vrel mu MU -> vrel q Q -> vrel p P ->
  prod_R _ _ vrel _ _ vrel (gauss_leapfrog NumR eps L Minv A mu q p) (gauss_leapfrog N Eps L MINV AA MU Q P).
Proof.
  intros He Hm HA Hmu Hq Hp.
  exact (TT_o_M_leapfrog_o_gauss_leapfrog_R R T rel NumR N HN eps Eps He L L (nat_R_refl L)
           Minv MINV Hm A AA HA mu MU Hmu q Q Hq p P Hp).
Qed.
End Tie.

Definition gauss_step_dyadic := gauss_step_tie dy reld NumDy NumRDy_R.
Definition gauss_leapfrog_dyadic := gauss_leapfrog_tie dy reld NumDy NumRDy_R.
Definition leapfrog_dyadic := leapfrog_tie dy reld NumDy NumRDy_R.
Definition hmc_step_dyadic := hmc_step_tie dy reld NumDy NumRDy_R.
Definition leapfrog_trace_dyadic := leapfrog_trace_tie dy reld NumDy NumRDy_R.
Definition leapfrog_rational := leapfrog_tie qo relq NumQ NumRQ_R.
Print Assumptions gauss_step_dyadic.
