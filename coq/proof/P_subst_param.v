(* Free theorems (Paramcoq): the interval run of every substitution-model term used by the
   correspondence check encloses the real value of the same term. *)
From Coq Require Import QArith Reals List.
From Param Require Import Param.
From TT Require Import Num NumR NumI ParamI Tree M_subst G_subst M_subst_gen.

Parametricity Recursive q_sym qualified.
Parametricity Recursive q_nonsym qualified.
Parametricity Recursive q_emp qualified.
Parametricity Recursive q_mg94 qualified.
Parametricity Recursive normalised qualified.
Parametricity Recursive p_taylor qualified.
Parametricity Recursive p_spectral qualified.
Parametricity Recursive hky_Q qualified.
Parametricity Recursive gtr_Q qualified.
Parametricity Recursive gjc_P qualified.
Parametricity Recursive gjc_Q qualified.
Parametricity Recursive jc69_p qualified.
Parametricity Recursive expQt qualified.

Notation vecR := (list_R R I.type rel).
Notation matR := (list_R (list R) (list I.type) (list_R R I.type rel)).

Lemma natlist_refl (l : list nat) : list_R nat nat nat_R l l.
Proof. apply list_R_refl. apply nat_R_refl. Qed.
Lemma natlistlist_refl (l : list (list nat)) : list_R (list nat) (list nat) (list_R nat nat nat_R) l l.
Proof. apply list_R_refl. apply natlist_refl. Qed.
Lemma ofQ_list_enclosed (l : list Q) : vecR (map (ofQ NumR) l) (map (ofQ NumI) l).
Proof. induction l; simpl; constructor; [apply rel_ofQ|assumption]. Qed.

Lemma q_sym_enclosed n rates Rates mapping pi Pi :
  vecR rates Rates -> vecR pi Pi -> matR (q_sym NumR n rates mapping pi) (q_sym NumI n Rates mapping Pi).
Proof.
  intros Hr Hp.
  exact (TT_o_M_subst_o_q_sym_R R I.type rel NumR NumI NumRI_R n n (nat_R_refl n) rates Rates Hr
           mapping mapping (natlist_refl mapping) pi Pi Hp).
Qed.
Lemma q_nonsym_enclosed n rates Rates mapping pi Pi :
  vecR rates Rates -> vecR pi Pi -> matR (q_nonsym NumR n rates mapping pi) (q_nonsym NumI n Rates mapping Pi).
Proof.
  intros Hr Hp.
  exact (TT_o_M_subst_o_q_nonsym_R R I.type rel NumR NumI NumRI_R n n (nat_R_refl n) rates Rates Hr
           mapping mapping (natlist_refl mapping) pi Pi Hp).
Qed.
Lemma q_emp_enclosed n rates Rates pi Pi :
  vecR rates Rates -> vecR pi Pi -> matR (q_emp NumR n rates pi) (q_emp NumI n Rates Pi).
Proof.
  intros Hr Hp.
  exact (TT_o_M_subst_o_q_emp_R R I.type rel NumR NumI NumRI_R n n (nat_R_refl n) rates Rates Hr pi Pi Hp).
Qed.
Lemma lg_Q_enclosed : matR (lg_Q NumR) (lg_Q NumI).
Proof. apply q_emp_enclosed; apply ofQ_list_enclosed. Qed.
Lemma wag_Q_enclosed : matR (wag_Q NumR) (wag_Q NumI).
Proof. apply q_emp_enclosed; apply ofQ_list_enclosed. Qed.
Lemma mg94_Q_enclosed c k K a A b B pi Pi :
  rel k K -> rel a A -> rel b B -> vecR pi Pi -> matR (mg94_Q NumR c k a b pi) (mg94_Q NumI c K A B Pi).
Proof.
  intros Hk Ha Hb Hp. unfold mg94_Q.
  exact (TT_o_M_subst_o_q_mg94_R R I.type rel NumR NumI NumRI_R _ _ (natlist_refl _) _ _ (natlistlist_refl _)
           k K Hk a A Ha b B Hb pi Pi Hp).
Qed.
Lemma hky_Q_enclosed k K pi Pi : rel k K -> vecR pi Pi -> matR (hky_Q NumR k pi) (hky_Q NumI K Pi).
Proof. intros Hk Hp. exact (TT_o_M_subst_gen_o_hky_Q_R R I.type rel NumR NumI NumRI_R k K Hk pi Pi Hp). Qed.
Lemma gtr_Q_enclosed r Rr pi Pi : vecR r Rr -> vecR pi Pi -> matR (gtr_Q NumR r pi) (gtr_Q NumI Rr Pi).
Proof. intros Hr Hp. exact (TT_o_M_subst_gen_o_gtr_Q_R R I.type rel NumR NumI NumRI_R r Rr Hr pi Pi Hp). Qed.
Lemma gjc_P_enclosed n d D : rel d D -> matR (gjc_P NumR n d) (gjc_P NumI n D).
Proof. intros Hd. exact (TT_o_M_subst_gen_o_gjc_P_R R I.type rel NumR NumI NumRI_R n n (nat_R_refl n) d D Hd). Qed.
Lemma jc69_p_enclosed d D : rel d D -> matR (jc69_p NumR d) (jc69_p NumI D).
Proof. intros Hd. exact (TT_o_G_subst_o_jc69_p_R R I.type rel NumR NumI NumRI_R d D Hd). Qed.
(* the scaling-and-squaring Taylor polynomial of the normalised matrix *)
Lemma expQt_enclosed n Q Qi pi Pi t Ti s K :
  matR Q Qi -> vecR pi Pi -> rel t Ti -> matR (expQt NumR n Q pi t s K) (expQt NumI n Qi Pi Ti s K).
Proof.
  intros HQ Hp Ht.
  exact (TT_o_M_subst_gen_o_expQt_R R I.type rel NumR NumI NumRI_R n n (nat_R_refl n) Q Qi HQ pi Pi Hp t Ti Ht
           s s (nat_R_refl s) K K (nat_R_refl K)).
Qed.
Lemma p_spectral_enclosed n A Ai lam Lam B Bi t Ti :
  matR A Ai -> vecR lam Lam -> matR B Bi -> rel t Ti ->
  matR (p_spectral NumR n A lam B t) (p_spectral NumI n Ai Lam Bi Ti).
Proof.
  intros HA Hl HB Ht.
  exact (TT_o_M_subst_o_p_spectral_R R I.type rel NumR NumI NumRI_R n n (nat_R_refl n) A Ai HA lam Lam Hl B Bi HB t Ti Ht).
Qed.
