(* C02: the likelihood does not depend on where the root of an unrooted tree is placed — ANY
   placement, reached by any number of moves of the root along a branch and across nodes.

   Trees carry their tip partial vectors and branch "times" (reals); [P t] is the transition matrix
   of a branch of length t.  Hypotheses on the family P (they hold for exp(Qt) of a reversible Q,
   see C04): matrices are S x S, detailed balance pi_s P(t)[s][x] = pi_x P(t)[x][s], semigroup
   P(a+b) = P(a) P(b) for a, b >= 0.  No stochasticity, no P(0) = I needed. *)
From Coq Require Import QArith Reals List Lra Lia Arith Bool Relations.
Import ListNotations.
From TT Require Import Num NumR Tree M_like M_data M_like_data P_like P_invariance.
Open Scope R_scope.

Section Reroot.
Variable S : nat.
Variable pi : list R.
Variable P : R -> list (list R).
Notation lkR l k := (lk l k 0).
Notation sumS f := (rsum (map f (seq 0 S))).

Hypothesis Hpi : length pi = S.
Hypothesis Hwf : forall t, wf_mat S (P t).
Hypothesis Hrev : forall t s x, (s < S)%nat -> (x < S)%nat ->
  lkR pi s * entry NumR (P t) s x = lkR pi x * entry NumR (P t) x s.
Hypothesis Hsemi : forall a b, 0 <= a -> 0 <= b -> forall x y, (x < S)%nat -> (y < S)%nat ->
  entry NumR (P (a + b)) x y = sumS (fun s => entry NumR (P a) x s * entry NumR (P b) s y).

(* a rooted binary tree with its data: tip partial vectors, and for every internal node the lengths
   of the branches to its two children *)
Inductive wtree := WL (v : list R) | WN (l r : wtree) (a b : R).

Fixpoint part (t : wtree) : list R :=
  match t with
  | WL v => v
  | WN l r a b => vmul NumR (matvec NumR (P a) (part l)) (matvec NumR (P b) (part r))
  end.
(* site likelihood of the tree rooted where it is written *)
Definition lik (t : wtree) : R := ndot NumR pi (part t).

Fixpoint wfw (t : wtree) : Prop :=
  match t with
  | WL v => length v = S
  | WN l r a b => wfw l /\ wfw r /\ 0 <= a /\ 0 <= b
  end.

Lemma matvec_length t v : length (matvec NumR (P t) v) = S.
Proof. unfold matvec. rewrite map_length. apply Hwf. Qed.

Lemma part_length t : wfw t -> length (part t) = S.
Proof.
  destruct t as [v|l r a b]; cbn [part wfw]; intro H; [exact H|].
  rewrite vmul_length; rewrite !matvec_length; reflexivity.
Qed.

(* P(t) is self-adjoint for the pi-weighted inner product *)
Lemma adjoint t u w : length u = S -> length w = S ->
  ndot NumR pi (vmul NumR (matvec NumR (P t) u) w) = ndot NumR pi (vmul NumR u (matvec NumR (P t) w)).
Proof.
  intros Hu Hw.
  rewrite !(ndot_vmul_sum S) by (try assumption; apply matvec_length).
  transitivity (sumS (fun s => sumS (fun x => lkR pi s * entry NumR (P t) s x * lkR u x * lkR w s))).
  { apply rsum_map_ext. intros s Hs. apply in_seq in Hs.
    rewrite (lk_matvec S (P t) u s) by (auto; lia).
    rewrite <- rsum_map_scale_r, <- rsum_map_scale. apply rsum_map_ext. intros x _. lra. }
  rewrite rsum_swap. apply rsum_map_ext. intros x Hx. apply in_seq in Hx.
  rewrite (lk_matvec S (P t) w x) by (auto; lia).
  rewrite <- !rsum_map_scale. apply rsum_map_ext. intros s Hs. apply in_seq in Hs.
  rewrite Hrev by lia. lra.
Qed.

(* the pulley principle: only the SUM of the two root branch lengths matters *)
Lemma canon u v a b : length u = S -> length v = S -> 0 <= a -> 0 <= b ->
  ndot NumR pi (vmul NumR (matvec NumR (P a) u) (matvec NumR (P b) v))
  = ndot NumR pi (vmul NumR u (matvec NumR (P (a + b)) v)).
Proof.
  intros Hu Hv Ha Hb.
  apply (pulley_l S pi u v (P a) (P b) (P (a + b))); auto;
    try (intros x y Hx Hy; apply Hsemi; assumption).
Qed.

Lemma ndot_vmul_assoc a b c : length a = S -> length b = S -> length c = S ->
  ndot NumR pi (vmul NumR (vmul NumR a b) c) = ndot NumR pi (vmul NumR a (vmul NumR b c)).
Proof.
  intros Ha Hb Hc.
  rewrite !(ndot_vmul_sum S) by (try assumption; rewrite vmul_length; lia).
  apply rsum_map_ext. intros s _. rewrite !lk_vmul. lra.
Qed.

(* ---- the three moves ---- *)
Inductive step : wtree -> wtree -> Prop :=
| St_swap l r a b : wfw (WN l r a b) -> step (WN l r a b) (WN r l b a)
| St_slide l r a b a' b' : wfw (WN l r a b) -> 0 <= a' -> 0 <= b' -> a + b = a' + b' ->
    step (WN l r a b) (WN l r a' b')
| St_cross x y r c d a b c1 c2 : wfw (WN (WN x y c d) r a b) -> 0 <= c1 -> 0 <= c2 -> c1 + c2 = c ->
    step (WN (WN x y c d) r a b) (WN x (WN y r d (a + b)) c1 c2)
| St_cross_r x y r c d a b d1 d2 : wfw (WN (WN x y c d) r a b) -> 0 <= d1 -> 0 <= d2 -> d1 + d2 = d ->
    step (WN (WN x y c d) r a b) (WN y (WN x r c (a + b)) d1 d2).

Lemma step_lik t t' : step t t' -> lik t = lik t'.
Proof.
  intros H. destruct H as [l r a b Hw | l r a b a' b' Hw Ha' Hb' Hs | x y r c d a b c1 c2 Hw Hc1 Hc2 Hc
                         | x y r c d a b d1 d2 Hw Hd1 Hd2 Hdd].
  - unfold lik. cbn [part]. rewrite vmul_comm. reflexivity.
  - destruct Hw as [Hl [Hr [Ha Hb]]]. unfold lik. cbn [part].
    rewrite !canon by (auto using part_length). rewrite Hs. reflexivity.
  - destruct Hw as [[Hx [Hy [Hc' Hd]]] [Hr [Ha Hb]]].
    unfold lik. cbn [part].
    pose proof (part_length x Hx) as Lx. pose proof (part_length y Hy) as Ly.
    pose proof (part_length r Hr) as Lr.
    (* left: root to the top of its left child, regroup, push P(c) across *)
    rewrite (canon _ _ a b) by (try assumption; rewrite vmul_length; rewrite !matvec_length; reflexivity).
    rewrite ndot_vmul_assoc by apply matvec_length.
    rewrite adjoint by (try assumption; rewrite vmul_length; rewrite !matvec_length; reflexivity).
    (* right: root to the top of x *)
    rewrite (canon _ _ c1 c2) by (try assumption; rewrite vmul_length; rewrite !matvec_length; reflexivity).
    rewrite Hc. reflexivity.
  - destruct Hw as [[Hx [Hy [Hc' Hd]]] [Hr [Ha Hb]]].
    unfold lik. cbn [part].
    pose proof (part_length x Hx) as Lx. pose proof (part_length y Hy) as Ly.
    pose proof (part_length r Hr) as Lr.
    rewrite (canon _ _ a b) by (try assumption; rewrite vmul_length; rewrite !matvec_length; reflexivity).
    rewrite (vmul_comm (matvec NumR (P c) (part x)) (matvec NumR (P d) (part y))).
    rewrite ndot_vmul_assoc by apply matvec_length.
    rewrite adjoint by (try assumption; rewrite vmul_length; rewrite !matvec_length; reflexivity).
    rewrite (canon _ _ d1 d2) by (try assumption; rewrite vmul_length; rewrite !matvec_length; reflexivity).
    rewrite Hdd. reflexivity.
Qed.

Lemma step_wfw t t' : step t t' -> wfw t /\ wfw t'.
Proof.
  intros H. destruct H as [l r a b Hw | l r a b a' b' Hw Ha' Hb' Hs | x y r c d a b c1 c2 Hw Hc1 Hc2 Hc
                         | x y r c d a b d1 d2 Hw Hd1 Hd2 Hdd].
  - split; [exact Hw|]. cbn in *. tauto.
  - split; [exact Hw|]. cbn in *. tauto.
  - split; [exact Hw|]. cbn in *. destruct Hw as [[Hx [Hy [Hc' Hd]]] [Hr [Ha Hb]]].
    repeat split; auto. lra.
  - split; [exact Hw|]. cbn in *. destruct Hw as [[Hx [Hy [Hc' Hd]]] [Hr [Ha Hb]]].
    repeat split; auto. lra.
Qed.

(* every root placement reachable by any number of moves, in either direction *)
Definition reroot : wtree -> wtree -> Prop := clos_refl_sym_trans wtree step.

Theorem reroot_lik t t' : reroot t t' -> lik t = lik t'.
Proof.
  induction 1 as [t t' H | t | t t' _ IH | t t1 t2 _ IH1 _ IH2].
  - apply step_lik. exact H.
  - reflexivity.
  - symmetry. exact IH.
  - rewrite IH1. exact IH2.
Qed.

(* Moving the root down a path: at each internal node choose the left or the right child; the root
   ends up at the top of the branch above the chosen node (any other point of that branch is one
   [St_slide] away).  Paths into the right subtree start with a [St_swap]. *)
Fixpoint descend (path : list bool) (t : wtree) : option wtree :=
  match path, t with
  | [], _ => Some t
  | go_left :: rest, WN (WN x y c d) r a b =>
      if go_left then descend rest (WN x (WN y r d (a + b)) c 0)
      else descend rest (WN y (WN x r c (a + b)) d 0)
  | _ :: _, _ => None
  end.

Lemma descend_reroot path : forall t t', wfw t -> descend path t = Some t' -> reroot t t'.
Proof.
  induction path as [|g rest IH]; intros t t' Hw H.
  - cbn in H. destruct t; inversion H; subst; apply rst_refl.
  - destruct t as [v|l r a b]; [discriminate|]. destruct l as [v|x y c d]; [discriminate|].
    cbn [descend] in H.
    assert (Hc : 0 <= c) by (cbn in Hw; tauto). assert (Hd : 0 <= d) by (cbn in Hw; tauto).
    destruct g.
    + assert (S1 : step (WN (WN x y c d) r a b) (WN x (WN y r d (a + b)) c 0))
        by (apply St_cross; [exact Hw| exact Hc | lra | lra]).
      apply rst_trans with (WN x (WN y r d (a + b)) c 0); [apply rst_step; exact S1|].
      apply IH; [exact (proj2 (step_wfw _ _ S1)) | exact H].
    + assert (S1 : step (WN (WN x y c d) r a b) (WN y (WN x r c (a + b)) d 0))
        by (apply St_cross_r; [exact Hw| exact Hd | lra | lra]).
      apply rst_trans with (WN y (WN x r c (a + b)) d 0); [apply rst_step; exact S1|].
      apply IH; [exact (proj2 (step_wfw _ _ S1)) | exact H].
Qed.

Theorem descend_lik path t t' : wfw t -> descend path t = Some t' -> lik t = lik t'.
Proof. intros Hw H. apply reroot_lik. exact (descend_reroot path t t' Hw H). Qed.

End Reroot.
