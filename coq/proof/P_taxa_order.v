(* C02: the ORDER OF THE TAXA LIST does not matter.

   A leaf's node index is the position of its taxon in the taxa list, the alignment rows are laid
   out in taxa order, and the per-node tables (transition matrices of the branch above a node) are
   indexed by node index.  When the branch data are keyed by what they belong to -- the matrix of a
   leaf branch by the taxon NAME, the matrix of an internal branch by the internal node number
   (which index_tree assigns from the tree shape only) -- every taxa order gives the same
   log-likelihood.  Route: a taxa-list-free reference [loglik_by_name]; each side equals it.

   Part 1 (trees, pruning, one column) is generic in the numeric interface.
   Part 2 (the weighted sum over compressed site patterns) is over the reals: merging equal
   columns into weighted patterns needs (k+1) x = k x + x. *)
From Coq Require Import QArith Reals List Lra Lia Arith Bool Permutation.
Import ListNotations.
From TT Require Import Num NumR Tree M_like M_data M_like_data P_like P_invariance.

(* ---------------- names, positions ---------------- *)
Fixpoint leaf_names (t : tree) : list nat :=
  match t with Leaf x => [x] | Node l r => leaf_names l ++ leaf_names r end.

Lemma leaf_names_length t : length (leaf_names t) = leaves t.
Proof. induction t as [x|l IHl r IHr]; cbn; [reflexivity|]. rewrite app_length; congruence. Qed.

Lemma pos_of_lt x taxa : In x taxa -> (pos_of x taxa < length taxa)%nat.
Proof.
  induction taxa as [|y r IH]; cbn; [tauto|]. intros H.
  destruct (Nat.eqb_spec x y); [lia|]. destruct H as [H|H]; [congruence|]. apply IH in H. lia.
Qed.
Lemma nth_pos_of x taxa d : In x taxa -> nth (pos_of x taxa) taxa d = x.
Proof.
  induction taxa as [|y r IH]; cbn; [tauto|]. intros H.
  destruct (Nat.eqb_spec x y); [congruence|]. destruct H as [H|H]; [congruence|]. apply IH, H.
Qed.
Lemma lk_map_pos_of {A} (h : nat -> A) x taxa d : In x taxa -> lk (map h taxa) (pos_of x taxa) d = h x.
Proof.
  induction taxa as [|y r IH]; cbn; [tauto|]. intros H.
  destruct (Nat.eqb_spec x y); [congruence|]. destruct H as [H|H]; [congruence|]. apply IH, H.
Qed.

(* ---------------- renaming the leaves commutes with indexing ---------------- *)
Fixpoint imap (f : nat -> nat) (t : itree) : itree :=
  match t with ILeaf x => ILeaf (f x) | INode i l r => INode i (imap f l) (imap f r) end.

Lemma index_from_rename taxa t : forall next,
  index_from (rename taxa t) next
  = (imap (fun x => pos_of x taxa) (fst (index_from t next)), snd (index_from t next)).
Proof.
  induction t as [x|l IHl r IHr]; intros next; cbn [rename index_from]; [reflexivity|].
  rewrite IHl. destruct (index_from l next) as [il n1]. cbn [fst snd].
  rewrite IHr. destruct (index_from r n1) as [ir n2]. reflexivity.
Qed.
Lemma leaves_rename taxa t : leaves (rename taxa t) = leaves t.
Proof. induction t as [x|l IHl r IHr]; cbn; congruence. Qed.
(* internal nodes get the same numbers whatever the taxa order: only the leaves move *)
Lemma index_tree_rename taxa t :
  index_tree (rename taxa t) = imap (fun x => pos_of x taxa) (index_tree t).
Proof. unfold index_tree. rewrite leaves_rename, index_from_rename. reflexivity. Qed.

(* a property of every leaf label / every internal number of an indexed tree *)
Fixpoint it_all (A B : nat -> Prop) (t : itree) : Prop :=
  match t with ILeaf x => A x | INode i l r => B i /\ it_all A B l /\ it_all A B r end.
Lemma it_all_mono (A A' B B' : nat -> Prop) t :
  (forall x, A x -> A' x) -> (forall i, B i -> B' i) -> it_all A B t -> it_all A' B' t.
Proof. intros HA HB. induction t as [x|i l IHl r IHr]; cbn; [apply HA|]. intros (H1 & H2 & H3). auto. Qed.

Lemma index_from_all (A : nat -> Prop) t : forall next,
  (forall x, In x (leaf_names t) -> A x) ->
  it_all A (fun i => next <= i < snd (index_from t next))%nat (fst (index_from t next))
  /\ (snd (index_from t next) + 1 = next + leaves t)%nat.
Proof.
  induction t as [x|l IHl r IHr]; intros next HA; cbn [index_from leaves leaf_names] in *.
  - cbn. split; [apply HA; left; reflexivity | reflexivity].
  - destruct (IHl next) as [Hl El]; [intros x Hx; apply HA, in_or_app; left; exact Hx|].
    destruct (index_from l next) as [il n1]. cbn [fst snd] in *.
    destruct (IHr n1) as [Hr Er]; [intros x Hx; apply HA, in_or_app; right; exact Hx|].
    destruct (index_from r n1) as [ir n2]. cbn [fst snd] in *.
    assert (1 <= leaves l)%nat by (clear; induction l; cbn; lia).
    assert (1 <= leaves r)%nat by (clear; induction r; cbn; lia).
    split; [|lia]. cbn [it_all]. split; [lia|]. split.
    + eapply it_all_mono; [| |exact Hl]; cbn; [auto|intros; lia].
    + eapply it_all_mono; [| |exact Hr]; cbn; [auto|intros; lia].
Qed.
Lemma index_tree_all (A : nat -> Prop) t :
  (forall x, In x (leaf_names t) -> A x) ->
  it_all A (fun i => leaves t <= i < 2 * leaves t - 1)%nat (index_tree t).
Proof.
  intros HA. unfold index_tree. destruct (index_from_all A t (leaves t) HA) as [H E].
  eapply it_all_mono; [| |exact H]; cbn; [auto|intros; lia].
Qed.

(* ================= Part 1: one column, any numeric interface ================= *)
Section ByName.
Context {T : Type} (N : Num T).
Variable ns : nat.                                   (* number of states *)
(* the branch data, keyed by what they belong to *)
Variable leafmat : nat (*category*) -> nat (*taxon NAME*) -> list (list T).
Variable intmat  : nat (*category*) -> nat (*internal node number*) -> list (list T).

(* the node-indexed table that the pruning model expects, for one taxa order *)
Definition table_for (taxa : list nat) (k : nat) : nat -> list (list T) :=
  fun i => if (i <? length taxa)%nat then leafmat k (nth i taxa 0%nat) else intmat k i.
Definition tables_for (taxa : list nat) (K : nat) : list (nat -> list (list T)) :=
  map (table_for taxa) (seq 0 K).
(* the same as concrete lists (what loglik_nuc takes): K categories, nn nodes *)
Definition mats_for (taxa : list nat) (K nn : nat) : list (list (list (list T))) :=
  map (fun k => map (table_for taxa k) (seq 0 nn)) (seq 0 K).

(* the taxa-list-free reference: the tree as written (taxon names at the leaves, internal nodes
   numbered as index_tree does); a leaf named x uses tipn x and leafmat k x *)
Definition bmat (k : nat) (c : itree) : list (list T) :=
  match c with ILeaf x => leafmat k x | INode i _ _ => intmat k i end.
Fixpoint prune_by_name (k : nat) (tipn : nat -> list T) (t : itree) : list T :=
  match t with
  | ILeaf x => tipn x
  | INode _ l r => vmul N (matvec N (bmat k l) (prune_by_name k tipn l))
                          (matvec N (bmat k r) (prune_by_name k tipn r))
  end.
Fixpoint mix_by_name (ks : list nat) (props : list T) (tipn : nat -> list T) (t : itree) : list T :=
  match ks, props with
  | k :: kr, w :: wr => vadd N (vscale N w (prune_by_name k tipn t)) (mix_by_name kr wr tipn t)
  | _, _ => repeat (zero N) ns
  end.
Definition site_lik_by_name (freqs : list T) (K : nat) (props : list T) (tipn : nat -> list T) (t : itree) : T :=
  ndot N freqs (mix_by_name (seq 0 K) props tipn t).

(* pruning over the renamed tree = pruning by name, as soon as the node-indexed inputs agree with
   the name-keyed ones on the nodes of the tree *)
Lemma prune_imap (P : nat -> list (list T)) (tip : nat -> list T) k tipn f it :
  it_all (fun x => P (f x) = leafmat k x /\ tip (f x) = tipn x) (fun i => P i = intmat k i) it ->
  prune N P tip (imap f it) = prune_by_name k tipn it.
Proof.
  induction it as [x|i l IHl r IHr]; cbn [it_all imap prune prune_by_name].
  - intros [_ H]; exact H.
  - intros (_ & Hl & Hr). rewrite (IHl Hl), (IHr Hr).
    assert (El : P (iidx (imap f l)) = bmat k l) by (destruct l; cbn in *; tauto).
    assert (Er : P (iidx (imap f r)) = bmat k r) by (destruct r; cbn in *; tauto).
    rewrite El, Er. reflexivity.
Qed.

(* a node-indexed table P serves category k for this taxa order on node numbers lo..hi-1 *)
Definition agrees (taxa : list nat) (lo hi : nat) (P : nat -> list (list T)) (k : nat) : Prop :=
  (forall x, In x taxa -> P (pos_of x taxa) = leafmat k x) /\
  (forall i, (lo <= i < hi)%nat -> P i = intmat k i).

Lemma prune_taxa_by_name taxa t P k tip tipn :
  (forall x, In x (leaf_names t) -> In x taxa) ->
  agrees taxa (leaves t) (2 * leaves t - 1) P k ->
  (forall x, In x taxa -> tip (pos_of x taxa) = tipn x) ->
  prune N P tip (index_tree (rename taxa t)) = prune_by_name k tipn (index_tree t).
Proof.
  intros Hin [HPl HPi] Htip. rewrite index_tree_rename. apply prune_imap.
  eapply it_all_mono; [| |apply (index_tree_all (fun x => In x taxa) t Hin)]; cbn.
  - intros x Hx. split; [apply HPl, Hx | apply Htip, Hx].
  - exact HPi.
Qed.

Lemma mix_taxa_by_name taxa t tip tipn :
  (forall x, In x (leaf_names t) -> In x taxa) ->
  (forall x, In x taxa -> tip (pos_of x taxa) = tipn x) ->
  forall Ps ks, Forall2 (agrees taxa (leaves t) (2 * leaves t - 1)) Ps ks ->
  forall props,
  mix N ns Ps props tip (index_tree (rename taxa t)) = mix_by_name ks props tipn (index_tree t).
Proof.
  intros Hin Htip Ps ks HF. induction HF as [|P k Ps ks HP HF IH]; intros props; cbn [mix mix_by_name].
  - reflexivity.
  - destruct props as [|w wr]; [reflexivity|].
    rewrite IH, (prune_taxa_by_name taxa t P k tip tipn Hin HP Htip). reflexivity.
Qed.

(* the tables built from the name-keyed data do serve their taxa order *)
Lemma Forall2_map_self {A B} (R : A -> B -> Prop) (f : B -> A) l :
  (forall k, In k l -> R (f k) k) -> Forall2 R (map f l) l.
Proof. induction l as [|k l IH]; intros H; cbn; constructor; [apply H; left; reflexivity|]. apply IH. intros; apply H; right; assumption. Qed.

Lemma table_for_agrees taxa lo hi k : (length taxa <= lo)%nat -> agrees taxa lo hi (table_for taxa k) k.
Proof.
  intros Hl. split.
  - intros x Hx. unfold table_for.
    destruct (Nat.ltb_spec (pos_of x taxa) (length taxa)) as [_|H]; [|pose proof (pos_of_lt x taxa Hx); lia].
    rewrite nth_pos_of by assumption. reflexivity.
  - intros i Hi. unfold table_for. destruct (Nat.ltb_spec i (length taxa)); [lia|reflexivity].
Qed.
Lemma tables_for_agree taxa lo hi K : (length taxa <= lo)%nat ->
  Forall2 (agrees taxa lo hi) (tables_for taxa K) (seq 0 K).
Proof. intros Hl. apply Forall2_map_self. intros k _. apply table_for_agrees, Hl. Qed.

Lemma lk_map_seq {A} (g : nat -> A) d n j : (j < n)%nat -> lk (map g (seq 0 n)) j d = g j.
Proof. intros H. rewrite lk_nth. rewrite (nth_indep _ d (g 0%nat)) by (rewrite map_length, seq_length; exact H). rewrite map_nth, seq_nth by exact H. reflexivity. Qed.

Lemma mats_for_agree taxa lo hi K nn : (length taxa <= lo)%nat -> (hi <= nn)%nat -> (lo <= hi)%nat ->
  Forall2 (agrees taxa lo hi) (map (@table T) (mats_for taxa K nn)) (seq 0 K).
Proof.
  intros Hl Hn Hlh. unfold mats_for. rewrite map_map. apply Forall2_map_self. intros k _.
  destruct (table_for_agrees taxa lo hi k Hl) as [H1 H2]. split.
  - intros x Hx. unfold table. rewrite lk_map_seq; [apply H1, Hx|]. pose proof (pos_of_lt x taxa Hx). lia.
  - intros i Hi. unfold table. rewrite lk_map_seq by lia. apply H2, Hi.
Qed.

(* ---- the tips: character of taxon x in column j, found by name ---- *)
Variable tipvec : nat (*character*) -> list T.
Definition tip_of_column (c : list nat) : nat -> list T := fun i => tipvec (lk c i 0%nat).
Definition tip_by_name (seqs : list (nat * list nat)) (j : nat) : nat -> list T :=
  fun x => tipvec (lk (assoc x seqs) j 0%nat).

Lemma tip_of_column_by_name taxa seqs j x : In x taxa ->
  tip_of_column (column (rows_in_taxa_order taxa seqs) j) (pos_of x taxa) = tip_by_name seqs j x.
Proof.
  intros Hx. unfold tip_of_column, tip_by_name, column, rows_in_taxa_order. rewrite map_map.
  rewrite (lk_map_pos_of (fun x => lk (assoc x seqs) j 0%nat)) by assumption. reflexivity.
Qed.

(* THE SITE LIKELIHOOD OF ONE COLUMN does not see the taxa order *)
Lemma site_lik_taxa_by_name taxa seqs t freqs Ps K props j :
  (forall x, In x (leaf_names t) -> In x taxa) ->
  Forall2 (agrees taxa (leaves t) (2 * leaves t - 1)) Ps (seq 0 K) ->
  site_lik N ns freqs Ps props (tip_of_column (column (rows_in_taxa_order taxa seqs) j))
           (index_tree (rename taxa t))
  = site_lik_by_name freqs K props (tip_by_name seqs j) (index_tree t).
Proof.
  intros Hin HF. unfold site_lik, site_lik_by_name. f_equal.
  apply mix_taxa_by_name; [exact Hin| |exact HF].
  intros x Hx. apply tip_of_column_by_name, Hx.
Qed.

Definition patterns_of (rows : list (list nat)) : list (T * (nat -> list T)) :=
  map (fun cw => (ofNat N (snd cw), tip_of_column (fst cw))) (compress list_eqb (columns rows)).
End ByName.

Lemma nuc_patterns_of {T} (N : Num T) m rows : nuc_patterns N m rows = patterns_of N (nuc_tip_vector N m) rows.
Proof. reflexivity. Qed.
Lemma aa_patterns_of {T} (N : Num T) m rows : aa_patterns N m rows = patterns_of N (aa_tip_vector N m) rows.
Proof. reflexivity. Qed.

(* ================= Part 2: the whole alignment, over the reals ================= *)
Open Scope R_scope.

Lemma ofNat_INR_c02 n : ofNat NumR n = INR n.
Proof. unfold ofNat; simpl. unfold Q2R; simpl. rewrite <- INR_IZR_INZ. lra. Qed.

Lemma list_eqb_eq a : forall b, list_eqb a b = true -> a = b.
Proof.
  induction a as [|x a IH]; intros [|y b]; cbn; try discriminate; [reflexivity|].
  intros H. apply andb_prop in H. destruct H as [H1 H2]. apply Nat.eqb_eq in H1. f_equal; [exact H1|apply IH, H2].
Qed.

(* the weighted sum over compressed patterns = the plain sum over the columns *)
Lemma loglik_weighted {C} ns freqs Ps props it (F : C -> nat -> list R) (l : list (C * nat)) :
  loglik NumR ns freqs Ps props it (map (fun cw => (ofNat NumR (snd cw), F (fst cw))) l)
  = wsum (fun c => ln (site_lik NumR ns freqs Ps props (F c) it)) l.
Proof.
  unfold wsum. induction l as [|[c n] l IH]; cbn [map loglik rsum fst snd]; [reflexivity|].
  rewrite IH, ofNat_INR_c02. reflexivity.
Qed.

Lemma loglik_patterns_columns ns freqs Ps props it tipvec rows :
  loglik NumR ns freqs Ps props it (patterns_of NumR tipvec rows)
  = rsum (map (fun c => ln (site_lik NumR ns freqs Ps props (tip_of_column tipvec c) it)) (columns rows)).
Proof.
  unfold patterns_of.
  rewrite (loglik_weighted ns freqs Ps props it (tip_of_column tipvec)).
  apply compress_sum. intros a b; apply list_eqb_eq.
Qed.

Section TaxaOrderR.
Variable ns : nat.
Variable leafmat : nat -> nat -> list (list R).
Variable intmat  : nat -> nat -> list (list R).
Variable tipvec : nat -> list R.

(* the reference: sum over the L alignment columns of ln(site likelihood by name) *)
Definition loglik_by_name (freqs : list R) (K : nat) (props : list R)
           (seqs : list (nat * list nat)) (L : nat) (t : tree) : R :=
  rsum (map (fun j => ln (site_lik_by_name NumR ns leafmat intmat freqs K props
                                            (tip_by_name tipvec seqs j) (index_tree t)))
            (seq 0 L)).

Lemma leaf_names_hd t : In (hd 0%nat (leaf_names t)) (leaf_names t).
Proof. induction t as [x|l IHl r IHr]; cbn; [left; reflexivity|]. destruct (leaf_names l) eqn:E; [destruct IHl|]. cbn. left; reflexivity. Qed.

(* one taxa order against the reference; L = length of the sequence of the first taxon *)
Theorem loglik_taxa_by_name taxa seqs t freqs Ps K props :
  (forall x, In x (leaf_names t) -> In x taxa) ->
  Forall2 (agrees leafmat intmat taxa (leaves t) (2 * leaves t - 1)) Ps (seq 0 K) ->
  loglik NumR ns freqs Ps props (index_tree (rename taxa t))
         (patterns_of NumR tipvec (rows_in_taxa_order taxa seqs))
  = loglik_by_name freqs K props seqs (length (assoc (hd 0%nat taxa) seqs)) t.
Proof.
  intros Hin HF. rewrite loglik_patterns_columns. unfold loglik_by_name, columns. rewrite map_map.
  assert (EL : length (hd [] (rows_in_taxa_order taxa seqs)) = length (assoc (hd 0%nat taxa) seqs)).
  { destruct taxa as [|x0 r]; [|reflexivity]. destruct (Hin _ (leaf_names_hd t)). }
  rewrite EL. apply rsum_map_ext. intros j _. f_equal.
  apply (site_lik_taxa_by_name NumR ns leafmat intmat tipvec taxa seqs t freqs Ps K props j Hin HF).
Qed.

(* two taxa orders, any tables that serve them *)
Theorem taxa_order_invariance_tables taxa taxa' seqs t freqs Ps Ps' K props :
  Permutation taxa taxa' ->
  (forall x, In x (leaf_names t) -> In x taxa) ->
  (forall x y, In x taxa -> In y taxa -> length (assoc x seqs) = length (assoc y seqs)) ->
  Forall2 (agrees leafmat intmat taxa  (leaves t) (2 * leaves t - 1)) Ps  (seq 0 K) ->
  Forall2 (agrees leafmat intmat taxa' (leaves t) (2 * leaves t - 1)) Ps' (seq 0 K) ->
  loglik NumR ns freqs Ps' props (index_tree (rename taxa' t))
         (patterns_of NumR tipvec (rows_in_taxa_order taxa' seqs))
  = loglik NumR ns freqs Ps props (index_tree (rename taxa t))
         (patterns_of NumR tipvec (rows_in_taxa_order taxa seqs)).
Proof.
  intros Hp Hin Hlen HF HF'.
  assert (Hin' : forall x, In x (leaf_names t) -> In x taxa')
    by (intros x Hx; eapply Permutation_in; [exact Hp|apply Hin, Hx]).
  rewrite (loglik_taxa_by_name taxa' seqs t freqs Ps' K props Hin' HF').
  rewrite (loglik_taxa_by_name taxa seqs t freqs Ps K props Hin HF).
  f_equal. pose proof (Hin _ (leaf_names_hd t)) as H0. pose proof (Hin' _ (leaf_names_hd t)) as H0'.
  destruct taxa as [|a r]; [destruct H0|]. destruct taxa' as [|a' r']; [destruct H0'|]. cbn [hd].
  apply Hlen; [|left; reflexivity]. eapply Permutation_in; [apply Permutation_sym, Hp|left; reflexivity].
Qed.

(* MAIN THEOREM (general form): the tables are [tables_for] of the respective order.  No
   distinctness of the taxa is needed (pos_of takes the first occurrence); the taxa list must not
   be longer than the number of leaves, else the first internal node numbers (leaves t, ...) would
   fall inside the leaf part of the table. *)
Theorem taxa_order_invariance_gen taxa taxa' seqs t freqs K props :
  Permutation taxa taxa' ->
  (forall x, In x (leaf_names t) -> In x taxa) ->
  (length taxa <= leaves t)%nat ->
  (forall x y, In x taxa -> In y taxa -> length (assoc x seqs) = length (assoc y seqs)) ->
  loglik NumR ns freqs (tables_for leafmat intmat taxa' K) props (index_tree (rename taxa' t))
         (patterns_of NumR tipvec (rows_in_taxa_order taxa' seqs))
  = loglik NumR ns freqs (tables_for leafmat intmat taxa K) props (index_tree (rename taxa t))
         (patterns_of NumR tipvec (rows_in_taxa_order taxa seqs)).
Proof.
  intros Hp Hin Hl Hlen. apply (taxa_order_invariance_tables taxa taxa' seqs t freqs _ _ K props); try assumption.
  - apply tables_for_agree, Hl.
  - apply tables_for_agree. rewrite <- (Permutation_length Hp). exact Hl.
Qed.

(* MAIN THEOREM as torchtree has it: distinct taxa, as many as the tree has leaves *)
Theorem taxa_order_invariance taxa taxa' seqs t freqs K props :
  NoDup taxa -> Permutation taxa taxa' ->
  (forall x, In x (leaf_names t) -> In x taxa) ->
  length taxa = leaves t ->
  (forall x y, In x taxa -> In y taxa -> length (assoc x seqs) = length (assoc y seqs)) ->
  loglik NumR ns freqs (tables_for leafmat intmat taxa' K) props (index_tree (rename taxa' t))
         (patterns_of NumR tipvec (rows_in_taxa_order taxa' seqs))
  = loglik NumR ns freqs (tables_for leafmat intmat taxa K) props (index_tree (rename taxa t))
         (patterns_of NumR tipvec (rows_in_taxa_order taxa seqs)).
Proof. intros _ Hp Hin Hl Hlen. apply taxa_order_invariance_gen; try assumption. lia. Qed.
End TaxaOrderR.

Print Assumptions taxa_order_invariance.

(* ---- the same on the assembled nucleotide / amino-acid likelihoods, the matrices given as the
   concrete per-category, per-node lists that loglik_nuc takes (2 leaves - 1 nodes) ---- *)
Theorem taxa_order_invariance_nuc leafmat intmat m taxa taxa' seqs t freqs K props :
  NoDup taxa -> Permutation taxa taxa' ->
  (forall x, In x (leaf_names t) -> In x taxa) ->
  length taxa = leaves t ->
  (forall x y, In x taxa -> In y taxa -> length (assoc x seqs) = length (assoc y seqs)) ->
  loglik_nuc NumR m taxa' seqs t freqs (mats_for leafmat intmat taxa' K (2 * leaves t - 1)) props
  = loglik_nuc NumR m taxa seqs t freqs (mats_for leafmat intmat taxa K (2 * leaves t - 1)) props.
Proof.
  intros _ Hp Hin Hl Hlen. unfold loglik_nuc. rewrite !nuc_patterns_of.
  assert (1 <= leaves t)%nat by (clear; induction t; cbn; lia).
  apply (taxa_order_invariance_tables 4 leafmat intmat _ taxa taxa' seqs t freqs _ _ K props); try assumption.
  - apply mats_for_agree; lia.
  - apply mats_for_agree; try lia. rewrite <- (Permutation_length Hp). lia.
Qed.
Print Assumptions taxa_order_invariance_nuc.

Theorem taxa_order_invariance_aa leafmat intmat m taxa taxa' seqs t freqs K props :
  NoDup taxa -> Permutation taxa taxa' ->
  (forall x, In x (leaf_names t) -> In x taxa) ->
  length taxa = leaves t ->
  (forall x y, In x taxa -> In y taxa -> length (assoc x seqs) = length (assoc y seqs)) ->
  loglik_aa NumR m taxa' seqs t freqs (mats_for leafmat intmat taxa' K (2 * leaves t - 1)) props
  = loglik_aa NumR m taxa seqs t freqs (mats_for leafmat intmat taxa K (2 * leaves t - 1)) props.
Proof.
  intros _ Hp Hin Hl Hlen. unfold loglik_aa. rewrite !aa_patterns_of.
  assert (1 <= leaves t)%nat by (clear; induction t; cbn; lia).
  apply (taxa_order_invariance_tables 20 leafmat intmat _ taxa taxa' seqs t freqs _ _ K props); try assumption.
  - apply mats_for_agree; lia.
  - apply mats_for_agree; try lia. rewrite <- (Permutation_length Hp). lia.
Qed.

(* ---------------- non-vacuity ---------------- *)
(* ((2,0),1) with taxa [0;1;2] against [2;0;1]: the hypotheses hold, the two orders really give
   different indexed trees, different rows and different pattern lists -- and the same value. *)
Definition ex_tree : tree := Node (Node (Leaf 2) (Leaf 0)) (Leaf 1).
Definition ex_seqs : list (nat * list nat) := [(1, [65; 65; 71]); (2, [67; 67; 84]); (0, [65; 65; 84])]%nat.

Example taxa_order_example_hyps :
  NoDup [0; 1; 2]%nat /\ Permutation [0; 1; 2]%nat [2; 0; 1]%nat /\
  (forall x, In x (leaf_names ex_tree) -> In x [0; 1; 2]%nat) /\
  length [0; 1; 2]%nat = leaves ex_tree /\
  (forall x y, In x [0; 1; 2]%nat -> In y [0; 1; 2]%nat -> length (assoc x ex_seqs) = length (assoc y ex_seqs)).
Proof.
  split; [|split; [|split; [|split]]].
  - repeat constructor; cbn; intuition discriminate.
  - apply Permutation_sym. change [2; 0; 1]%nat with ([2] ++ [0; 1])%nat. change [0; 1; 2]%nat with ([0; 1] ++ [2])%nat.
    apply Permutation_app_comm.
  - cbn. intuition.
  - reflexivity.
  - intros x y Hx Hy. cbn in Hx, Hy.
    destruct Hx as [<-|[<-|[<-|[]]]]; destruct Hy as [<-|[<-|[<-|[]]]]; reflexivity.
Qed.

Example taxa_order_example_differs :
  index_tree (rename [0; 1; 2]%nat ex_tree) = INode 4 (INode 3 (ILeaf 2) (ILeaf 0)) (ILeaf 1) /\
  index_tree (rename [2; 0; 1]%nat ex_tree) = INode 4 (INode 3 (ILeaf 0) (ILeaf 1)) (ILeaf 2) /\
  rows_in_taxa_order [0; 1; 2]%nat ex_seqs = [[65; 65; 84]; [65; 65; 71]; [67; 67; 84]]%nat /\
  rows_in_taxa_order [2; 0; 1]%nat ex_seqs = [[67; 67; 84]; [65; 65; 84]; [65; 65; 71]]%nat /\
  compress list_eqb (columns (rows_in_taxa_order [0; 1; 2]%nat ex_seqs)) = [([65; 65; 67], 2); ([84; 71; 84], 1)]%nat /\
  compress list_eqb (columns (rows_in_taxa_order [2; 0; 1]%nat ex_seqs)) = [([67; 65; 65], 2); ([84; 84; 71], 1)]%nat.
Proof. repeat split; reflexivity. Qed.

Example taxa_order_example leafmat intmat m freqs K props :
  loglik_nuc NumR m [2; 0; 1]%nat ex_seqs ex_tree freqs (mats_for leafmat intmat [2; 0; 1]%nat K 5) props
  = loglik_nuc NumR m [0; 1; 2]%nat ex_seqs ex_tree freqs (mats_for leafmat intmat [0; 1; 2]%nat K 5) props.
Proof.
  destruct taxa_order_example_hyps as (H1 & H2 & H3 & H4 & H5).
  exact (taxa_order_invariance_nuc leafmat intmat m _ _ ex_seqs ex_tree freqs K props H1 H2 H3 H4 H5).
Qed.
