(* The Jacobian determinant of the implemented leapfrog map, every dimension, the GENUINE determinant.

   proof/P_leapfrog_ndim.v shows that the leapfrog map on Un n * Un n (Un n = R^(n+1)) is Frechet
   differentiable and that every functional on maps Un n * Un n -> Un n * Un n satisfying five
   determinant-like hypotheses gives the differential the value one.  Here the five hypotheses are
   discharged by the real thing: [detU n f] is mathcomp's [\det] (Leibniz formula) of the
   2(n+1) x 2(n+1) real matrix whose (i,j) entry is the i-th coordinate of f applied to the j-th
   standard basis vector.  The reals are a mathcomp commutative ring by proof/P_Rring.v. *)
From Coq Require Import Reals List Lra.
Set Warnings "-notation-overridden,-ambiguous-paths".
From Coquelicot Require Import Coquelicot.
From mathcomp Require Import ssreflect ssrfun ssrbool eqtype ssrnat seq choice fintype bigop ssralg zmodp matrix.
Set Warnings "notation-overridden,ambiguous-paths".
From TT Require Import M_leapfrog P_leapfrog P_leapfrog_ndim P_Rring.
Import GRing.Theory.

(* ------------------------------------------------------------------ coordinates as row vectors *)
Section Coordinates.
Local Open Scope ring_scope.

(* the coordinates of a vector of Un n as a mathcomp row vector, and back *)
Fixpoint rvU (n : nat) : Un n -> 'rV[R]_n.+1 :=
  match n return Un n -> 'rV[R]_n.+1 with
  | O => fun u => (u : R)%:M
  | S k => fun u => (row_mx ((fst u : R)%:M : 'rV[R]_1) (rvU k (snd u)) : 'rV[R]_(1 + k.+1))
  end.
Fixpoint unrvU (n : nat) : 'rV[R]_n.+1 -> Un n :=
  match n return 'rV[R]_n.+1 -> Un n with
  | O => fun v => v ord0 ord0
  | S k => fun v => (lsubmx (v : 'rV[R]_(1 + k.+1)) ord0 ord0, unrvU k (rsubmx (v : 'rV[R]_(1 + k.+1))))
  end.

Lemma rvUK n u : unrvU n (rvU n u) = u.
Proof.
  elim: n u => [|k IH] u /=.
  - by rewrite mxE eqxx mulr1n.
  - case: u => a v /=. rewrite row_mxKl row_mxKr IH mxE eqxx mulr1n. by [].
Qed.
Lemma unrvUK n v : rvU n (unrvU n v) = v.
Proof.
  elim: n v => [|k IH] v /=.
  - by rewrite -mx11_scalar.
  - by rewrite IH -mx11_scalar hsubmxK.
Qed.

Lemma rvU_plus n (a b : Un n) : rvU n (plus a b) = rvU n a + rvU n b.
Proof.
  elim: n a b => [|k IH] a b.
  - exact: (raddfD (scalar_mx_additive R_ringType 1) a b).
  - case: a => a1 a2; case: b => b1 b2.
    change (row_mx ((a1 + b1 : R)%:M : 'rV[R]_1) (rvU k (plus a2 b2))
            = (row_mx (a1%:M : 'rV[R]_1) (rvU k a2) : 'rV[R]_(1 + k.+1)) + row_mx (b1%:M : 'rV[R]_1) (rvU k b2)).
    by rewrite IH add_row_mx (raddfD (scalar_mx_additive R_ringType 1) a1 b1).
Qed.
Lemma rvU_scal n c (a : Un n) : rvU n (scal c a) = c *: rvU n a.
Proof.
  elim: n a => [|k IH] a.
  - by rewrite /= scale_scalar_mx.
  - case: a => a1 a2.
    change (row_mx ((c * a1 : R)%:M : 'rV[R]_1) (rvU k (scal c a2))
            = c *: (row_mx (a1%:M : 'rV[R]_1) (rvU k a2) : 'rV[R]_(1 + k.+1))).
    by rewrite IH scale_row_mx scale_scalar_mx.
Qed.

(* phase space Un n * Un n: positions then momenta *)
Definition rv2 (n : nat) (x : Un n * Un n) : 'rV[R]_(n.+1 + n.+1) := row_mx (rvU n (fst x)) (rvU n (snd x)).
Definition unrv2 (n : nat) (v : 'rV[R]_(n.+1 + n.+1)) : Un n * Un n := (unrvU n (lsubmx v), unrvU n (rsubmx v)).

Lemma rv2K n x : unrv2 n (rv2 n x) = x.
Proof. by case: x => q p; rewrite /unrv2 /rv2 row_mxKl row_mxKr !rvUK. Qed.
Lemma unrv2K n v : rv2 n (unrv2 n v) = v.
Proof. by rewrite /unrv2 /rv2 /= !unrvUK hsubmxK. Qed.
Lemma rv2_plus n (a b : Un n * Un n) : rv2 n (plus a b) = rv2 n a + rv2 n b.
Proof. by case: a => a1 a2; case: b => b1 b2; rewrite /rv2 /= !rvU_plus add_row_mx. Qed.
Lemma rv2_scal n c (a : Un n * Un n) : rv2 n (scal c a) = c *: rv2 n a.
Proof. by case: a => a1 a2; rewrite /rv2 /= !rvU_scal scale_row_mx. Qed.

End Coordinates.

(* ------------------------------------------------------------------ matrices of linear maps *)
(* A real normed module with linear coordinates rv : V -> 'rV_m (bijective, additive, homogeneous):
   a Coquelicot-linear endomorphism acts on coordinates as a matrix, composition is the product. *)
Section MatrixOfLinear.
Local Open Scope ring_scope.
Variables (V : NormedModule R_AbsRing) (m : nat) (rv : V -> 'rV[R]_m) (ur : 'rV[R]_m -> V).
Hypothesis rvK : forall x, ur (rv x) = x.
Hypothesis urK : forall v, rv (ur v) = v.
Hypothesis rv_plus : forall a b, rv (plus a b) = rv a + rv b.
Hypothesis rv_scal : forall c a, rv (scal c a) = c *: rv a.

(* row i = coordinates of the image of the i-th basis vector *)
Definition mxof (f : V -> V) : 'M[R]_m := \matrix_(i, j) rv (f (ur (delta_mx 0 i))) 0 j.

Lemma ur_lin c u v : ur (c *: u + v) = plus (scal c (ur u)) (ur v).
Proof. by rewrite -[RHS]rvK rv_plus rv_scal !urK. Qed.

Lemma conj_linear (f : V -> V) : is_linear f -> linear (fun u => rv (f (ur u))).
Proof.
  move=> Hf c u v.
  by rewrite ur_lin (linear_plus f Hf) (linear_scal f Hf) rv_plus rv_scal.
Qed.

Lemma mxofE (f : V -> V) : is_linear f -> forall x, rv (f x) = rv x *m mxof f.
Proof.
  move=> Hf x.
  have -> : mxof f = lin1_mx (Linear (conj_linear f Hf)).
  { by apply/matrixP => i j; rewrite !mxE. }
  by rewrite mul_rV_lin1 /= rvK.
Qed.

Lemma mx_ext (A B : 'M[R]_m) : (forall u : 'rV[R]_m, u *m A = u *m B) -> A = B.
Proof. by move=> E; apply/row_matrixP => i; rewrite !rowE. Qed.

Lemma mxof_comp (f h : V -> V) : is_linear f -> is_linear h ->
  mxof (fun d => h (f d)) = mxof f *m mxof h.
Proof.
  move=> Hf Hh. apply/matrixP => i j.
  by rewrite mxE (mxofE h Hh) (mxofE f Hf) urK -mulmxA -rowE mxE.
Qed.

Lemma mxof_id : mxof (fun d => d) = 1%:M.
Proof. by apply/matrixP => i j; rewrite mxE urK !mxE eqxx /= eq_sym. Qed.

Lemma mxof_ext (f h : V -> V) : (forall d, f d = h d) -> mxof f = mxof h.
Proof. by move=> E; apply/matrixP => i j; rewrite !mxE E. Qed.

(* a linear map is determined by its matrix: f d = sum_j d_j * f e_j, read in coordinates *)
Lemma mxof_row (f : V -> V) i : row i (mxof f) = rv (f (ur (delta_mx 0 i))).
Proof. by apply/rowP => j; rewrite !mxE. Qed.

End MatrixOfLinear.

(* ------------------------------------------------------------------ the determinant on Un n * Un n *)
Section DetU.
Local Open Scope ring_scope.
Variable n : nat.
Let V2 : NormedModule R_AbsRing := prod_NormedModule R_AbsRing (Un n) (Un n).

(* the j-th standard basis vector of Un n * Un n, the i-th coordinate of a point *)
Definition basis2 (j : 'I_(n.+1 + n.+1)) : Un n * Un n := unrv2 n (delta_mx 0 j).
Definition coord2 (x : Un n * Un n) (i : 'I_(n.+1 + n.+1)) : R := rv2 n x 0 i.

(* the matrix of a map: entry (i,j) = i-th coordinate of the image of the j-th basis vector;
   its determinant (mathcomp's \det: the Leibniz sum over permutations) *)
Definition jacU (f : Un n * Un n -> Un n * Un n) : 'M[R]_(n.+1 + n.+1) :=
  \matrix_(i, j) coord2 (f (basis2 j)) i.
Definition detU (f : Un n * Un n -> Un n * Un n) : R := \det (jacU f).

Let M2 (f : V2 -> V2) : 'M[R]_(n.+1 + n.+1) := mxof V2 _ (rv2 n) (unrv2 n) f.
Let MU (A : Un n -> Un n) : 'M[R]_(n.+1) := mxof (Un n) _ (rvU n) (unrvU n) A.

Lemma jacU_mxof f : jacU f = (M2 f)^T.
Proof. by apply/matrixP => i j; rewrite /M2 /mxof [LHS]mxE 2![RHS]mxE. Qed.
Lemma detU_mxof f : detU f = \det (M2 f).
Proof. by rewrite /detU jacU_mxof det_tr. Qed.

Let M2E := mxofE V2 _ (rv2 n) (unrv2 n) (rv2K n) (unrv2K n) (rv2_plus n) (rv2_scal n).
Let MUE := mxofE (Un n) _ (rvU n) (unrvU n) (rvUK n) (unrvUK n) (rvU_plus n) (rvU_scal n).

(* a linear map is determined by its matrix (f d = sum_j d_j * f e_j, in coordinates) *)
Lemma linear_by_matrix (f : Un n * Un n -> Un n * Un n) : is_linear f ->
  forall d, rv2 n (f d) = rv2 n d *m (jacU f)^T.
Proof. by move=> Hf d; rewrite jacU_mxof trmxK; exact: (M2E f Hf d). Qed.

Lemma detU_comp (f h : Un n * Un n -> Un n * Un n) :
  is_linear f -> is_linear h -> detU (fun d => h (f d)) = Rmult (detU h) (detU f).
Proof.
  move=> Hf Hh. rewrite !detU_mxof /M2.
  rewrite (mxof_comp V2 _ (rv2 n) (unrv2 n) (rv2K n) (unrv2K n) (rv2_plus n) (rv2_scal n) f h Hf Hh).
  rewrite det_mulmx. exact: mulrC.
Qed.

Lemma detU_ext (f h : Un n * Un n -> Un n * Un n) : (forall d, f d = h d) -> detU f = detU h.
Proof. by move=> E; rewrite !detU_mxof /M2 (mxof_ext V2 _ (rv2 n) (unrv2 n) f h E). Qed.

Lemma detU_id : detU (fun d => d) = R1.
Proof. by rewrite detU_mxof /M2 (mxof_id V2 _ (rv2 n) (unrv2 n) (unrv2K n)) det1. Qed.

(* the two block shears *)
Lemma lower_lin (A : Un n -> Un n) : is_linear A ->
  is_linear (fun d : V2 => ((fst d, plus (snd d) (A (fst d))) : V2)).
Proof.
  move=> HA.
  apply (is_linear_prod (fun d : V2 => fst d) (fun d : V2 => plus (snd d) (A (fst d)))); [apply is_linear_fst|].
  apply (is_linear_comp (fun d : V2 => (snd d, A (fst d))) (fun z : Un n * Un n => plus (fst z) (snd z)));
    [|apply is_linear_plus].
  apply (is_linear_prod (fun d : V2 => snd d) (fun d : V2 => A (fst d))); [apply is_linear_snd|].
  apply (is_linear_comp (fun d : V2 => fst d) A); [apply is_linear_fst | exact HA].
Qed.
Lemma upper_lin (B : Un n -> Un n) : is_linear B ->
  is_linear (fun d : V2 => ((plus (fst d) (B (snd d)), snd d) : V2)).
Proof.
  move=> HB.
  apply (is_linear_prod (fun d : V2 => plus (fst d) (B (snd d))) (fun d : V2 => snd d)); [|apply is_linear_snd].
  apply (is_linear_comp (fun d : V2 => (fst d, B (snd d))) (fun z : Un n * Un n => plus (fst z) (snd z)));
    [|apply is_linear_plus].
  apply (is_linear_prod (fun d : V2 => fst d) (fun d : V2 => B (snd d))); [apply is_linear_fst|].
  apply (is_linear_comp (fun d : V2 => snd d) B); [apply is_linear_snd | exact HB].
Qed.

Lemma mxof_lower (A : Un n -> Un n) : is_linear A ->
  M2 (fun d => (fst d, plus (snd d) (A (fst d)))) = block_mx 1%:M (MU A) 0 1%:M.
Proof.
  move=> HA. apply: mx_ext => u.
  rewrite -[u]hsubmxK; move: (lsubmx u) (rsubmx u) => q p.
  rewrite -{1}(unrv2K n (row_mx q p)) -(M2E _ (lower_lin A HA)).
  rewrite /unrv2 row_mxKl row_mxKr /rv2 /= rvU_plus !unrvUK (MUE A HA) unrvUK.
  by rewrite mul_row_block !mulmx1 mulmx0 addr0 addrC.
Qed.
Lemma mxof_upper (B : Un n -> Un n) : is_linear B ->
  M2 (fun d => (plus (fst d) (B (snd d)), snd d)) = block_mx 1%:M 0 (MU B) 1%:M.
Proof.
  move=> HB. apply: mx_ext => u.
  rewrite -[u]hsubmxK; move: (lsubmx u) (rsubmx u) => q p.
  rewrite -{1}(unrv2K n (row_mx q p)) -(M2E _ (upper_lin B HB)).
  rewrite /unrv2 row_mxKl row_mxKr /rv2 /= rvU_plus !unrvUK (MUE B HB) unrvUK.
  by rewrite mul_row_block !mulmx1 mulmx0 add0r.
Qed.

Lemma detU_lower (A : Un n -> Un n) : is_linear A ->
  detU (fun d => (fst d, plus (snd d) (A (fst d)))) = R1.
Proof. by move=> HA; rewrite detU_mxof (mxof_lower A HA) det_ublock !det1 mulr1. Qed.
Lemma detU_upper (B : Un n -> Un n) : is_linear B ->
  detU (fun d => (plus (fst d) (B (snd d)), snd d)) = R1.
Proof. by move=> HB; rewrite detU_mxof (mxof_upper B HB) det_lblock !det1 mulr1. Qed.

End DetU.

(* ------------------------------------------------------------------ what the coordinates are *)
(* the row-vector coordinates are the list coordinates [emb] of proof/P_leapfrog_ndim.v, and the
   basis vectors have coordinates 1 at their own index, 0 elsewhere *)
Section CoordinatesAreEmb.
Local Open Scope ring_scope.

Lemma size_emb n u : size (emb n u) = n.+1.
Proof. by elim: n u => [|k IH] u //=; rewrite IH. Qed.

Lemma rvU_emb n u (i : 'I_n.+1) : rvU n u 0 i = nth R0 (emb n u) i.
Proof.
  elim: n u i => [|k IH] u i.
  - by rewrite /= (ord1 i) mxE eqxx mulr1n.
  - case: u => a v.
    suff Hi : forall i' : 'I_(1 + k.+1), rvU k.+1 (a, v) 0 i' = nth R0 (emb k.+1 (a, v)) i' by exact: Hi.
    move=> {}i. rewrite -[i]splitK.
    case: (split i) => j.
    + change ((row_mx (a%:M : 'rV[R]_1) (rvU k v) : 'rV[R]_(1 + k.+1)) 0 (lshift k.+1 j)
              = nth R0 (a :: emb k v) (lshift k.+1 j)).
      by rewrite row_mxEl (ord1 j) mxE eqxx mulr1n.
    + change ((row_mx (a%:M : 'rV[R]_1) (rvU k v) : 'rV[R]_(1 + k.+1)) 0 (rshift 1 j)
              = nth R0 (a :: emb k v) (rshift 1 j)).
      by rewrite row_mxEr IH.
Qed.

Lemma coord2_emb n (x : Un n * Un n) (i : 'I_(n.+1 + n.+1)) :
  coord2 n x i = nth R0 (emb n (fst x) ++ emb n (snd x)) i.
Proof.
  rewrite /coord2 /rv2 -[i]splitK nth_cat size_emb.
  case: (split i) => j /=.
  - by rewrite row_mxEl rvU_emb ltn_ord.
  - by rewrite row_mxEr rvU_emb ltnNge leq_addr /= addKn.
Qed.

Lemma coord2_basis2 n (i j : 'I_(n.+1 + n.+1)) :
  coord2 n (basis2 n j) i = if i == j then R1 else R0.
Proof. by rewrite /coord2 /basis2 unrv2K mxE eqxx /=; case: (i == j). Qed.

(* a point is the combination of the basis vectors with its coordinates as coefficients *)
Lemma rv2_sum_basis n (x : Un n * Un n) :
  rv2 n x = \sum_j coord2 n x j *: rv2 n (basis2 n j).
Proof.
  rewrite {1}[rv2 n x]row_sum_delta. apply: eq_bigr => j _.
  by rewrite /basis2 unrv2K.
Qed.

End CoordinatesAreEmb.

(* ------------------------------------------------------------------ sanity: it is the determinant *)
(* (a) in dimension one (n = 0) detU is the 2x2 determinant det2 of proof/P_leapfrog_ndim.v, for EVERY
   map; (b) the homothety of ratio c has determinant c^(2(n+1)): detU is not the constant one. *)
Section Sanity.
Local Open Scope ring_scope.

Lemma det_mx22 (K : comRingType) (A : 'M[K]_2) : \det A = A 0 0 * A 1 1 - A 0 1 * A 1 0.
Proof.
  rewrite (expand_det_row A 0) !big_ord_recl big_ord0 addr0 /cofactor !det_mx11 !mxE.
  have E3 : lift (1 : 'I_2) (0 : 'I_1) = 0 by apply: val_inj.
  have E4 : lift (ord0 : 'I_2) (ord0 : 'I_1) = 1 by apply: val_inj.
  by rewrite !E4 E3 /= expr0 expr1 mul1r mulN1r mulrN.
Qed.

Lemma basis2_00 : basis2 0 0 = (R1, R0).
Proof. by rewrite /basis2 /unrv2 /= !mxE /=. Qed.
Lemma basis2_01 : basis2 0 1 = (R0, R1).
Proof. by rewrite /basis2 /unrv2 /= !mxE /=. Qed.

Lemma detU0_is_det2 (f : R * R -> R * R) : detU 0 f = det2 f.
Proof.
  rewrite /detU (det_mx22 R_comRingType (jacU 0 f)) /jacU !mxE /coord2 /rv2 /= basis2_00 basis2_01.
  have -> : (0 : 'I_(1 + 1)) = lshift 1 0 by apply: val_inj.
  have -> : (1 : 'I_(1 + 1)) = rshift 1 0 by apply: val_inj.
  by rewrite !row_mxEl !row_mxEr !mxE !eqxx !mulr1n.
Qed.

Lemma exprn_pow (c : R) k : c ^+ k = pow c k.
Proof. by elim: k => [|k IH] //; rewrite exprS IH. Qed.

Lemma detU_homothety n (c : R) : detU n (fun d => scal c d) = pow c (n.+1 + n.+1).
Proof.
  rewrite detU_mxof -exprn_pow -det_scalar. congr (\det _).
  apply: mx_ext => u.
  have Hl : is_linear (fun d : prod_NormedModule R_AbsRing (Un n) (Un n) => scal c d).
  { apply (is_linear_scal_r (K := R_AbsRing) c). exact Rmult_comm. }
  rewrite -{1}(unrv2K n u).
  rewrite -(mxofE _ _ (rv2 n) (unrv2 n) (rv2K n) (unrv2K n) (rv2_plus n) (rv2_scal n) _ Hl).
  by rewrite rv2_scal unrv2K mul_mx_scalar.
Qed.

End Sanity.

(* ------------------------------------------------------------------ the entries are partial derivatives *)
Section PartialDerivatives.
Local Open Scope R_scope.

(* the i-th coordinate is a (bounded) linear functional *)
Lemma rvU_coord_lin n : forall i : 'I_n.+1, is_linear (fun u : Un n => (rvU n u ord0 i : R_NormedModule)).
Proof.
  elim: n => [|k IH] i.
  - apply (is_linear_ext (fun u : R_NormedModule => u)); [|apply is_linear_id].
    by move=> u; rewrite rvU_emb (ord1 i).
  - suff Hi : forall i' : 'I_(1 + k.+1),
        is_linear (fun u : Un k.+1 => (rvU k.+1 u ord0 i' : R_NormedModule)) by exact: Hi.
    move=> {}i. rewrite -[i]splitK. case: (split i) => j.
    + apply (is_linear_ext (fun u : Un k.+1 => fst u)); [|apply is_linear_fst].
      move=> [a v]. rewrite rvU_emb. by rewrite (ord1 j).
    + apply (is_linear_ext (fun u : Un k.+1 => (rvU k (snd u) ord0 j : R_NormedModule))).
      * move=> [a v]. by rewrite !rvU_emb.
      * apply (is_linear_comp (fun u : Un k.+1 => snd u) (fun v : Un k => (rvU k v ord0 j : R_NormedModule)));
          [apply is_linear_snd | apply IH].
Qed.

Lemma coord2_lin n (i : 'I_(n.+1 + n.+1)) :
  is_linear (fun x : prod_NormedModule R_AbsRing (Un n) (Un n) => (coord2 n x i : R_NormedModule)).
Proof.
  rewrite -[i]splitK. case: (split i) => j.
  - apply (is_linear_ext (fun x : prod_NormedModule R_AbsRing (Un n) (Un n) => (rvU n (fst x) ord0 j : R_NormedModule))).
    + move=> x. by rewrite /coord2 /rv2 row_mxEl.
    + apply (is_linear_comp (fun x : prod_NormedModule R_AbsRing (Un n) (Un n) => fst x)
                            (fun u : Un n => (rvU n u ord0 j : R_NormedModule))); [apply is_linear_fst | apply rvU_coord_lin].
  - apply (is_linear_ext (fun x : prod_NormedModule R_AbsRing (Un n) (Un n) => (rvU n (snd x) ord0 j : R_NormedModule))).
    + move=> x. by rewrite /coord2 /rv2 row_mxEr.
    + apply (is_linear_comp (fun x : prod_NormedModule R_AbsRing (Un n) (Un n) => snd x)
                            (fun u : Un n => (rvU n u ord0 j : R_NormedModule))); [apply is_linear_snd | apply rvU_coord_lin].
Qed.

(* a Frechet differential applied to a direction is the derivative along the line in that direction *)
Lemma filterdiff_directional {V W : NormedModule R_AbsRing} (F : V -> W) (x e : V) (Df : V -> W) :
  filterdiff F (locally x) Df ->
  is_derive (fun t : R => F (plus x (scal t e))) 0 (Df e).
Proof.
  move=> HF. rewrite /is_derive.
  apply (filterdiff_ext_lin (fun t : R => F (plus x (scal t e))) (fun t : R => Df (plus zero (scal t e)))).
  - apply (filterdiff_comp' (fun t : R => plus x (scal t e)) F 0 (fun t : R => plus zero (scal t e)) Df).
    + apply (filterdiff_plus_fct (F := locally 0) (fun _ : R => x) (fun t : R => scal t e) (fun _ : R => zero) (fun t : R => scal t e)).
      * apply filterdiff_const.
      * apply filterdiff_linear. apply (is_linear_scal_l (K := R_AbsRing) e).
    + have -> : plus x (scal 0 e) = x by rewrite scal_zero_l plus_zero_r.
      exact HF.
  - move=> t. rewrite plus_zero_l. apply (linear_scal Df (proj1 HF)).
Qed.

(* entry (i,j) of the matrix of the differential = derivative at 0 of t |-> (i-th coordinate of
   F (x + t e_j)): the partial derivative of the i-th component with respect to the j-th variable.
   So [detU n Df] is the Jacobian determinant of F at x. *)
Theorem jacU_entries_are_partial_derivatives n (F : Un n * Un n -> Un n * Un n) x Df :
  filterdiff F (locally x) Df ->
  forall i j, is_derive (fun t : R => coord2 n (F (plus x (scal t (basis2 n j)))) i) 0 (jacU n Df i j).
Proof.
  move=> HF i j.
  have -> : jacU n Df i j = coord2 n (Df (basis2 n j)) i by rewrite /jacU mxE.
  pose proof (filterdiff_directional F x (basis2 n j) Df HF) as Hd.
  rewrite /is_derive in Hd *.
  apply (filterdiff_ext_lin _ (fun t : R => coord2 n (scal t (Df (basis2 n j))) i)).
  - apply (filterdiff_comp' (fun t : R => F (plus x (scal t (basis2 n j))))
             (fun y : prod_NormedModule R_AbsRing (Un n) (Un n) => (coord2 n y i : R_NormedModule)) 0
             (fun t : R => scal t (Df (basis2 n j)))
             (fun y : prod_NormedModule R_AbsRing (Un n) (Un n) => (coord2 n y i : R_NormedModule))).
    + exact Hd.
    + apply filterdiff_linear. apply coord2_lin.
  - move=> t. apply (linear_scal _ (coord2_lin n i)).
Qed.

End PartialDerivatives.

(* ------------------------------------------------------------------ the theorem *)
Local Open Scope R_scope.

(* the five determinant-like hypotheses of gleap_volume_preserving / leapfrog_list_model_ndim hold
   for the genuine determinant, in every dimension *)
Theorem detU_is_determinant_like (n : nat) :
  (forall f h : Un n * Un n -> Un n * Un n, is_linear f -> is_linear h ->
      detU n (fun d => h (f d)) = detU n h * detU n f) /\
  (forall f h : Un n * Un n -> Un n * Un n, (forall d, f d = h d) -> detU n f = detU n h) /\
  detU n (fun d => d) = 1 /\
  (forall A : Un n -> Un n, is_linear A -> detU n (fun d => (fst d, plus (snd d) (A (fst d)))) = 1) /\
  (forall B : Un n -> Un n, is_linear B -> detU n (fun d => (plus (fst d) (B (snd d)), snd d)) = 1).
Proof.
  split; [exact (detU_comp n)|]. split; [exact (detU_ext n)|]. split; [exact (detU_id n)|].
  split; [exact (detU_lower n) | exact (detU_upper n)].
Qed.

(* The implemented leapfrog map (list model of model/M_leapfrog.v read in coordinates, any
   length-preserving Frechet-differentiable gradient, any well-formed diagonal or dense inverse mass
   matrix, any step size, any number of steps) has, at every point, a Frechet differential whose
   2(n+1) x 2(n+1) Jacobian matrix has determinant exactly one. *)
Theorem leapfrog_jacobian_determinant_one :
  forall (n : nat) (grad : list R -> list R) (Minv : mass R),
    wf_grad (S n) grad -> wf_minv (S n) Minv ->
    let g := gU n grad in let Mi := MiU n Minv in
    forall Dg, (forall q, filterdiff g (locally q) (Dg q)) ->
    forall eps L x, exists Df, filterdiff (gleap g Mi eps L) (locally x) Df /\ detU n Df = 1.
Proof.
  intros n grad Minv Hgrad Hm g Mi Dg HDg eps L x.
  exact (gleap_volume_preserving g Dg HDg Mi (MiU_lin n Minv Hm) (detU n)
           (detU_comp n) (detU_ext n) (detU_id n) (detU_lower n) (detU_upper n) eps L x).
Qed.

(* the same with the matrix spelled out: the differential's matrix of partial derivatives *)
Corollary leapfrog_jacobian_matrix_determinant_one :
  forall (n : nat) (grad : list R -> list R) (Minv : mass R),
    wf_grad (S n) grad -> wf_minv (S n) Minv ->
    let g := gU n grad in let Mi := MiU n Minv in
    forall Dg, (forall q, filterdiff g (locally q) (Dg q)) ->
    forall eps L x, exists J : 'M[R]_(n.+1 + n.+1),
      (forall i j, is_derive (fun t : R => coord2 n (gleap g Mi eps L (plus x (scal t (basis2 n j)))) i) 0 (J i j)) /\
      determinant J = 1.
Proof.
  intros n grad Minv Hgrad Hm g Mi Dg HDg eps L x.
  destruct (leapfrog_jacobian_determinant_one n grad Minv Hgrad Hm Dg HDg eps L x) as [Df [HD Hdet]].
  exists (jacU n Df). split; [|exact Hdet].
  exact (jacU_entries_are_partial_derivatives n _ x Df HD).
Qed.

Print Assumptions leapfrog_jacobian_determinant_one.
Print Assumptions leapfrog_jacobian_matrix_determinant_one.
