(* Free theorem: the interval run of the likelihood model encloses its real value. *)
From Coq Require Import QArith Reals List.
From Param Require Import Param.
From TT Require Import Num NumR NumI ParamI Tree M_like.
Parametricity Recursive itree qualified.
Parametricity Recursive prod qualified.
Parametricity Recursive loglik qualified.
Notation itree_R := TT_o_Tree_o_itree_R.
Lemma itree_R_refl' t : itree_R t t.
Proof. induction t; constructor; auto using nat_R_refl. Qed.
Lemma loglik_enclosed S freqs Freqs Ps PS props Props t pats Pats :
  list_R R I.type rel freqs Freqs ->
  list_R _ _ (fun P P' => forall j j', nat_R j j' -> list_R _ _ (list_R R I.type rel) (P j) (P' j')) Ps PS ->
  list_R R I.type rel props Props ->
  list_R _ _ (Coq_o_Init_o_Datatypes_o_prod_R _ _ rel _ _
                (fun tp tp' => forall i i', nat_R i i' -> list_R R I.type rel (tp i) (tp' i'))) pats Pats ->
  rel (loglik NumR S freqs Ps props t pats) (loglik NumI S Freqs PS Props t Pats).
Proof.
  intros Hf HP Hp Hpat.
  exact (TT_o_M_like_o_loglik_R R I.type rel NumR NumI NumRI_R S S (nat_R_refl S) freqs Freqs Hf
           Ps PS HP props Props Hp t t (itree_R_refl' t) pats Pats Hpat).
Qed.
