From Coq Require Import QArith Reals List Lra Lia Arith Bool.
Import ListNotations.
From TT Require Import Num NumR Tree M_like M_rescale P_like.
Open Scope R_scope.

Lemma vscale_vscale c d (v : list R) : vscale NumR c (vscale NumR d v) = vscale NumR (c * d) v.
Proof. unfold vscale. rewrite map_map. apply map_ext. intros; cbn; lra. Qed.
Lemma vscale_one (v : list R) : vscale NumR 1 v = v.
Proof. unfold vscale. rewrite <- (map_id v) at 2. apply map_ext. intros; cbn; lra. Qed.
Lemma matvec_vscale M c (v : list R) : matvec NumR M (vscale NumR c v) = vscale NumR c (matvec NumR M v).
Proof. unfold matvec. unfold vscale at 2. rewrite map_map. apply map_ext. intros row. apply ndot_vscale. Qed.
Lemma vmul_vscale a b (x y : list R) :
  vmul NumR (vscale NumR a x) (vscale NumR b y) = vscale NumR (a * b) (vmul NumR x y).
Proof.
  unfold vscale. revert y; induction x as [|u x IH]; intros [|v y]; cbn [map vmul]; try reflexivity.
  rewrite IH. f_equal. cbn. lra.
Qed.

Lemma map_repeat' {A B} (f : A -> B) x n : map f (repeat x n) = repeat (f x) n.
Proof. induction n; cbn; congruence. Qed.

Section RescaleR.
Variable S : nat.
Variable sc : list (list R) -> R.
Variable tip : nat -> list R.

Definition plain (Ps : list (nat -> list (list R))) (t : itree) : list (list R) :=
  map (fun P => prune NumR P tip t) Ps.

Lemma zip3_scaled Ps : forall xs ys a b il ir,
  zip3 NumR Ps (map (vscale NumR a) xs) (map (vscale NumR b) ys) il ir
  = map (vscale NumR (a * b)) (zip3 NumR Ps xs ys il ir).
Proof.
  induction Ps as [|P Ps IH]; intros [|x xs] [|y ys] a b il ir; cbn [zip3 map]; try reflexivity.
  rewrite IH, !matvec_vscale, vmul_vscale. reflexivity.
Qed.

Lemma zip3_plain Ps i l r :
  zip3 NumR Ps (plain Ps l) (plain Ps r) (iidx l) (iidx r) = plain Ps (INode i l r).
Proof.
  unfold plain. induction Ps as [|P Ps IH]; cbn [zip3 map]; [reflexivity|]. rewrite IH. reflexivity.
Qed.

(* every scaler met while pruning t is positive *)
Fixpoint scalers_pos (Ps : list (nat -> list (list R))) (t : itree) : Prop :=
  match t with
  | ILeaf _ => True
  | INode _ l r =>
      scalers_pos Ps l /\ scalers_pos Ps r /\
      0 < sc (zip3 NumR Ps (fst (prune_rs NumR sc Ps tip l)) (fst (prune_rs NumR sc Ps tip r)) (iidx l) (iidx r))
  end.

Lemma prune_rs_invariant Ps t :
  scalers_pos Ps t ->
  exists C, 0 < C /\ fst (prune_rs NumR sc Ps tip t) = map (vscale NumR (/ C)) (plain Ps t)
            /\ snd (prune_rs NumR sc Ps tip t) = ln C.
Proof.
  induction t as [i|i l IHl r IHr]; intros Hpos.
  - exists 1. split; [lra|]. cbn [prune_rs fst snd zero NumR]. rewrite Rinv_1, ln_1. split; [|reflexivity].
    unfold plain. rewrite map_map. cbn [prune]. apply map_ext. intros _. rewrite vscale_one. reflexivity.
  - destruct Hpos as (Hl & Hr & Hc).
    destruct (IHl Hl) as (Cl & HCl & El & Sl). destruct (IHr Hr) as (Cr & HCr & Er & Sr).
    cbn [prune_rs].
    destruct (prune_rs NumR sc Ps tip l) as [pl sl]. destruct (prune_rs NumR sc Ps tip r) as [pr sr].
    cbn [fst snd] in *. subst pl pr sl sr.
    cbv zeta.
    rewrite zip3_scaled, (zip3_plain Ps i l r) in Hc.
    rewrite zip3_scaled, (zip3_plain Ps i l r).
    remember (sc (map (vscale NumR (/ Cl * / Cr)) (plain Ps (INode i l r)))) as c eqn:Hce.
    exists (c * (Cl * Cr)). split; [apply Rmult_lt_0_compat; [exact Hc | apply Rmult_lt_0_compat; assumption]|].
    cbn [fst snd add div one nln NumR]. split.
    + rewrite map_map. apply map_ext. intros v. rewrite vscale_vscale. f_equal.
      field. repeat split; apply Rgt_not_eq; assumption.
    + rewrite !ln_mult; try assumption; try lra. apply Rmult_lt_0_compat; assumption.
Qed.

Lemma mixv_scaled ws : forall vs a,
  (forall v, In v vs -> length v = S) ->
  mixv NumR S ws (map (vscale NumR a) vs) = vscale NumR a (mixv NumR S ws vs).
Proof.
  induction ws as [|w ws IH]; intros [|v vs] a Hlen; cbn [mixv map].
  - unfold vscale. rewrite map_repeat'. cbn. rewrite Rmult_0_r. reflexivity.
  - unfold vscale. rewrite map_repeat'. cbn. rewrite Rmult_0_r. reflexivity.
  - unfold vscale. rewrite map_repeat'. cbn. rewrite Rmult_0_r. reflexivity.
  - rewrite IH by (intros u Hu; apply Hlen; right; exact Hu).
    rewrite !vscale_vscale.
    (* vscale distributes over vadd *)
    assert (D : forall (x y : list R), vscale NumR a (vadd NumR x y) = vadd NumR (vscale NumR a x) (vscale NumR a y)).
    { unfold vscale. induction x as [|p x IHx]; intros [|q y]; cbn [vadd map]; try reflexivity.
      rewrite IHx. f_equal. cbn. lra. }
    rewrite D, vscale_vscale. f_equal. f_equal. lra.
Qed.

Lemma mixv_plain Ps : forall props t, mixv NumR S props (plain Ps t) = mix NumR S Ps props tip t.
Proof.
  unfold plain. induction Ps as [|P Ps IH]; intros [|w props] t; cbn [mixv mix map]; try reflexivity.
  rewrite IH. reflexivity.
Qed.

(* Rescaled evaluation = plain evaluation, for ANY positive scalers (the code's maxima, or 1 for
   the nodes the _safe variant leaves alone), any tree, any categories. *)
Lemma rescaled_eq_plain_l freqs Ps props t :
  (forall P, In P Ps -> forall j, wf_mat S (P j)) -> (forall i, length (tip i) = S) ->
  scalers_pos Ps t ->
  0 < site_lik NumR S freqs Ps props tip t ->
  site_loglik_rs NumR S sc freqs Ps props tip t = ln (site_lik NumR S freqs Ps props tip t).
Proof.
  intros HP Htip Hpos Hlik. unfold site_loglik_rs.
  destruct (prune_rs_invariant Ps t Hpos) as (C & HC & E & Sc).
  destruct (prune_rs NumR sc Ps tip t) as [ps s]. cbn [fst snd] in *. subst ps s.
  rewrite mixv_scaled.
  2:{ intros v Hv. unfold plain in Hv. apply in_map_iff in Hv. destruct Hv as [P [<- HPin]].
      apply (prune_length S P tip (HP P HPin) Htip). }
  rewrite mixv_plain, ndot_vscale. cbn [add nln NumR]. unfold site_lik in *.
  assert (0 < / C) by (apply Rinv_0_lt_compat; exact HC).
  rewrite ln_mult by assumption. rewrite ln_Rinv by exact HC. lra.
Qed.

End RescaleR.

(* ---- the rescale flag ---- *)
Lemma flag_sticky_l history : flag_after history true = true.
Proof. induction history as [|h history IH]; cbn; [reflexivity|exact IH]. Qed.
Lemma flag_monotone_l h1 h2 flag0 : flag_after h1 flag0 = true -> flag_after (h1 ++ h2) flag0 = true.
Proof. unfold flag_after. rewrite fold_left_app. intros ->. apply flag_sticky_l. Qed.
