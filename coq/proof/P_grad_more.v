(* C12, continued: free theorems of the coalescent, birth-death skyline and GMRF models at the
   dual-number instance.  As in P_grad_param.v: every real input is a function of one real variable,
   the NumD run of the SAME model term encloses value and derivative of its pointwise reading.
   Control flow (sorting of event times, epoch lookup) is driven by exact keys (Q), which both
   sides share: the derivative is claimed where the order of events is locally constant, which is
   the property's own side condition ("away from ties"). *)
From Coq Require Import QArith Reals List.
From Coquelicot Require Import Coquelicot.
From Param Require Import Param.
From TT Require Import Num NumR NumI ParamI NumD ParamD Tree
  M_coalescent P_coalescent_param M_bdsk P_bdsk_param M_gmrf P_gmrf_param.

Notation evR x0 := (TT_o_M_coalescent_o_event_R (R -> R) dual (relD x0)).

(* ---- coalescent: population sizes AND event times may depend on the variable ---- *)
Lemma constant_lp_derivative_enclosed x0 theta Theta evs Evs :
  relD x0 theta Theta -> list_R _ _ (evR x0) evs Evs ->
  relD x0 (constant_lp NumF theta evs) (constant_lp NumD Theta Evs).
Proof.
  intros Ht He.
  exact (TT_o_M_coalescent_o_constant_lp_R (R -> R) dual (relD x0) NumF NumD (NumFD_R x0) theta Theta Ht evs Evs He).
Qed.

Lemma exponential_lp_derivative_enclosed x0 theta Theta gq g G evs Evs :
  relD x0 theta Theta -> relD x0 g G -> list_R _ _ (evR x0) evs Evs ->
  relD x0 (exponential_lp NumF theta gq g evs) (exponential_lp NumD Theta gq G Evs).
Proof.
  intros Ht Hg He.
  exact (TT_o_M_coalescent_o_exponential_lp_R (R -> R) dual (relD x0) NumF NumD (NumFD_R x0) theta Theta Ht
           gq gq (Q_R_refl gq) g G Hg evs Evs He).
Qed.

Lemma skyride_lp_derivative_enclosed x0 thetas Thetas evs Evs :
  list_R _ _ (relD x0) thetas Thetas -> list_R _ _ (evR x0) evs Evs ->
  relD x0 (skyride_lp NumF thetas evs) (skyride_lp NumD Thetas Evs).
Proof.
  intros Ht He.
  exact (TT_o_M_coalescent_o_skyride_lp_R (R -> R) dual (relD x0) NumF NumD (NumFD_R x0) thetas Thetas Ht evs Evs He).
Qed.

Lemma skygrid_lp_derivative_enclosed x0 thetas Thetas evs Evs :
  list_R _ _ (relD x0) thetas Thetas -> list_R _ _ (evR x0) evs Evs ->
  relD x0 (skygrid_lp NumF thetas evs) (skygrid_lp NumD Thetas Evs).
Proof.
  intros Ht He.
  exact (TT_o_M_coalescent_o_skygrid_lp_R (R -> R) dual (relD x0) NumF NumD (NumFD_R x0) thetas Thetas Ht evs Evs He).
Qed.

(* ---- birth-death skyline: the per-epoch rates depend on the variable; node heights, epoch
        boundaries and rho are exact data ---- *)
Lemma bdsk_derivative_enclosed x0 survival r Rr Rn RN delta Delta s S rho times tips ints :
  option_R _ _ (list_R _ _ (relD x0)) r Rr ->
  list_R _ _ (relD x0) Rn RN -> list_R _ _ (relD x0) delta Delta -> list_R _ _ (relD x0) s S ->
  relD x0 (bdsk_model_log_prob NumF survival r Rn delta s rho times tips ints)
          (bdsk_model_log_prob NumD survival Rr RN Delta S rho times tips ints).
Proof.
  intros Hr Hl Hm Hp.
  exact (TT_o_M_bdsk_o_bdsk_model_log_prob_R (R -> R) dual (relD x0) NumF NumD (NumFD_R x0)
           survival survival (bool_R_refl survival) r Rr Hr Rn RN Hl delta Delta Hm s S Hp
           rho rho (listQ_R_refl rho) times times (listQ_R_refl times)
           tips tips (listQ_R_refl tips) ints ints (listQ_R_refl ints)).
Qed.

Lemma pw_derivative_enclosed x0 survival r Rr lam Lam mu Mu psi Psi rho times tips ints :
  option_R _ _ (list_R _ _ (relD x0)) r Rr ->
  list_R _ _ (relD x0) lam Lam -> list_R _ _ (relD x0) mu Mu -> list_R _ _ (relD x0) psi Psi ->
  relD x0 (pw_log_prob NumF survival r lam mu psi rho times tips ints)
          (pw_log_prob NumD survival Rr Lam Mu Psi rho times tips ints).
Proof.
  intros Hr Hl Hm Hp.
  exact (TT_o_M_bdsk_o_pw_log_prob_R (R -> R) dual (relD x0) NumF NumD (NumFD_R x0)
           survival survival (bool_R_refl survival) r Rr Hr lam Lam Hl mu Mu Hm psi Psi Hp
           rho rho (listQ_R_refl rho) times times (listQ_R_refl times)
           tips tips (listQ_R_refl tips) ints ints (listQ_R_refl ints)).
Qed.

Lemma bd_derivative_enclosed x0 survival lam Lam mu Mu psi Psi rho origin tips ints :
  relD x0 lam Lam -> relD x0 mu Mu -> relD x0 psi Psi ->
  relD x0 (bd_log_prob NumF survival lam mu psi rho origin tips ints)
          (bd_log_prob NumD survival Lam Mu Psi rho origin tips ints).
Proof.
  intros Hl Hm Hp.
  exact (TT_o_M_bdsk_o_bd_log_prob_R (R -> R) dual (relD x0) NumF NumD (NumFD_R x0)
           survival survival (bool_R_refl survival) lam Lam Hl mu Mu Hm psi Psi Hp
           rho rho (Q_R_refl rho) origin origin (Q_R_refl origin)
           tips tips (listQ_R_refl tips) ints ints (listQ_R_refl ints)).
Qed.

(* ---- GMRF (plain / weighted / time-aware): field, precision and weights depend on the variable ---- *)
Lemma gmrf_derivative_enclosed x0 l L v V x X tau Tau :
  relD x0 l L -> TT_o_M_gmrf_o_variant_R (R -> R) dual (relD x0) v V ->
  list_R _ _ (relD x0) x X -> relD x0 tau Tau ->
  relD x0 (gmrf NumF l v x tau) (gmrf NumD L V X Tau).
Proof.
  intros Hl Hv Hx Ht.
  exact (TT_o_M_gmrf_o_gmrf_R (R -> R) dual (relD x0) NumF NumD (NumFD_R x0) l L Hl v V Hv x X Hx tau Tau Ht).
Qed.
Print Assumptions gmrf_derivative_enclosed.
