From Coq Require Import List Arith Bool.
Import ListNotations.
From TT Require Import Tree G_datatype M_data.

(* every 7-bit symbol: the tip vector is the indicator of the IUPAC set the symbol stands for *)
Lemma nuc_partial_is_union_l :
  forall c, In c (seq 0 128) -> nuc_partial true c = indicator_of 4 (iupac_set c).
Proof.
  apply Forall_forall.
  apply (Forall_forall (fun c => nuc_partial true c = indicator_of 4 (iupac_set c))).
  intros c Hc. revert c Hc. apply Forall_forall.
  repeat (constructor; [vm_compute; reflexivity|]). constructor.
Qed.

(* without ambiguities: unambiguous symbols are indicators, everything else is missing (all ones) *)
Lemma nuc_partial_noamb_l :
  forall c, In c (seq 0 128) ->
  nuc_partial false c = if mem_nat c nuc_unambiguous then indicator_of 4 (iupac_set c) else [1; 1; 1; 1].
Proof.
  apply Forall_forall. repeat (constructor; [vm_compute; reflexivity|]). constructor.
Qed.

(* tip states: the state of an unambiguous symbol, the unknown state 4 otherwise *)
Lemma nuc_tip_state_l :
  forall c, In c (seq 0 128) ->
  nuc_tip_state c = match iupac_set c with [s] => s | _ => 4 end.
Proof.
  apply Forall_forall. repeat (constructor; [vm_compute; reflexivity|]). constructor.
Qed.

Lemma aa_partial_is_union_l :
  forall c, In c (seq 0 128) -> aa_partial true c = indicator_of 20 (aa_set c).
Proof.
  apply Forall_forall. repeat (constructor; [vm_compute; reflexivity|]). constructor.
Qed.
