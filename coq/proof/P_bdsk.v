(* Proofs for C09 over the reals (NumR instance of model/M_bdsk.v):
   the closed forms p0 / q solve the birth-death master equations, boundary wiring of B_i,
   range of p, flow property (epoch refinement), single epoch = constant model. *)
From Coq Require Import QArith Reals Qreals List Bool Arith Lra Lia Psatz.
From Coquelicot Require Import Coquelicot.
From TT Require Import Num NumR Tree M_bdsk.
Import ListNotations.
Open Scope R_scope.

Lemma Q2R_2 : Q2R 2 = 2. Proof. unfold Q2R; simpl; lra. Qed.
Lemma Q2R_4 : Q2R 4 = 4. Proof. unfold Q2R; simpl; lra. Qed.
Lemma Q2R_0 : Q2R 0 = 0. Proof. unfold Q2R; simpl; lra. Qed.

(* ---- the closed forms as real functions of tau = time left to the end of the epoch ---- *)
Definition Df (B E : R) : R := E * (1 + B) + (1 - B).
Definition Pf (lam mu psi A B tau : R) : R :=
  ((lam + mu + psi) - A * ((exp (A * tau) * (1 + B) - (1 - B)) / Df B (exp (A * tau)))) / (2 * lam).
Definition Qf (A B tau : R) : R := 4 * exp (A * tau) / (Df B (exp (A * tau)) * Df B (exp (A * tau))).
Definition rad (lam mu psi : R) : R := (lam - mu - psi) * (lam - mu - psi) + 4 * lam * psi.
Definition Bf (lam mu psi A rho pnext : R) : R := ((1 - 2 * (1 - rho) * pnext) * lam + mu + psi) / A.

Lemma p0form_R lam mu psi A B tau :
  p0form NumR lam mu psi A B (exp (A * tau)) = Pf lam mu psi A B tau.
Proof. unfold p0form, uform, Pf, Df, c1, c2. cbn [add sub mul div one ofQ NumR]. rewrite Q2R_2. reflexivity. Qed.

Lemma qform_R A B tau : qform NumR B (exp (A * tau)) = Qf A B tau.
Proof. unfold qform, sqr, Qf, Df, c1, c4. cbn [add sub mul div one ofQ NumR]. rewrite Q2R_4. reflexivity. Qed.

Lemma Pf_derive lam mu psi A B tau :
  lam <> 0 -> A * A = (lam - mu - psi) * (lam - mu - psi) + 4 * lam * psi ->
  Df B (exp (A * tau)) <> 0 ->
  is_derive (fun t => Pf lam mu psi A B t) tau
            (mu - (lam + mu + psi) * Pf lam mu psi A B tau + lam * (Pf lam mu psi A B tau * Pf lam mu psi A B tau)).
Proof.
  intros Hl HA HD. unfold Pf, Df in *.
  auto_derive.
  - exact HD.
  - set (E := exp (A * tau)) in *. 
    field_simplify_eq; [|split; auto]. 
    assert (HA2 : A ^ 2 = (lam - mu - psi) * (lam - mu - psi) + 4 * lam * psi) by (rewrite <- HA; ring).
    rewrite HA2. ring.
Qed.

Lemma Qf_derive lam mu psi A B tau :
  lam <> 0 -> Df B (exp (A * tau)) <> 0 ->
  is_derive (fun t => Qf A B t) tau
            ((- (lam + mu + psi) + 2 * lam * Pf lam mu psi A B tau) * Qf A B tau).
Proof.
  intros Hl HD. unfold Qf, Pf, Df in *.
  auto_derive.
  - repeat split; auto.
  - set (E := exp (A * tau)) in *. field. split; auto.
Qed.

Lemma rad_pos lam mu psi : 0 < lam -> 0 < psi -> 0 < rad lam mu psi.
Proof.
  intros. unfold rad. pose proof (Rle_0_sqr (lam - mu - psi)) as H1. unfold Rsqr in H1.
  assert (0 < lam * psi) by (apply Rmult_lt_0_compat; auto). lra.
Qed.

Lemma A_facts lam mu psi :
  0 < lam -> 0 < mu -> 0 < psi ->
  let A := sqrt (rad lam mu psi) in
  0 < A /\ A * A = rad lam mu psi /\ - A <= lam - mu - psi <= A /\ A < lam + mu + psi.
Proof.
  intros Hl Hm Hp A. pose proof (rad_pos lam mu psi Hl Hp) as Hr.
  assert (HA : 0 < A) by (apply sqrt_lt_R0; exact Hr).
  assert (HAA : A * A = rad lam mu psi) by (apply sqrt_sqrt; lra).
  assert (Hlp : 0 < lam * psi) by (apply Rmult_lt_0_compat; auto).
  assert (Hlm : 0 < lam * mu) by (apply Rmult_lt_0_compat; auto).
  assert (H1 : (lam - mu - psi) * (lam - mu - psi) < A * A) by (rewrite HAA; unfold rad; lra).
  assert (H2 : A * A < (lam + mu + psi) * (lam + mu + psi)) by (rewrite HAA; unfold rad; nra).
  repeat split; auto.
  - destruct (Rle_dec (- A) (lam - mu - psi)); auto. exfalso. nra.
  - destruct (Rle_dec (lam - mu - psi) A); auto. exfalso. nra.
  - destruct (Rlt_dec A (lam + mu + psi)); auto. exfalso. nra.
Qed.

Lemma B_ge lam mu psi A c :
  0 < lam -> 0 < A -> lam - mu - psi <= A -> 0 <= c <= 1 ->
  -1 <= ((1 - 2 * c) * lam + mu + psi) / A.
Proof.
  intros Hl HA Hd Hc. apply Rmult_le_reg_r with A; auto.
  unfold Rdiv. rewrite Rmult_assoc, Rinv_l by lra.
  assert (c * lam <= 1 * lam) by (apply Rmult_le_compat_r; lra). lra.
Qed.

Lemma Df_ge2 B E : -1 <= B -> 1 <= E -> 2 <= Df B E.
Proof. intros. unfold Df. nra. Qed.

Lemma exp_ge1 x : 0 <= x -> 1 <= exp x.
Proof. intros H. destruct H as [H|<-]. assert (x <> 0) as Hx by lra; pose proof (exp_ineq1 x Hx); lra. rewrite exp_0; lra. Qed.

Lemma Pf_0 lam mu psi A rho pnext :
  lam <> 0 -> A <> 0 ->
  Pf lam mu psi A (Bf lam mu psi A rho pnext) 0 = (1 - rho) * pnext.
Proof.
  intros Hl HA. unfold Pf, Df, Bf. rewrite Rmult_0_r, exp_0. field.
  repeat split; auto. intro H0. apply HA. lra.
Qed.

Lemma Qf_0 A B : Qf A B 0 = 1.
Proof. unfold Qf, Df. rewrite Rmult_0_r, exp_0. replace (1 * (1 + B) + (1 - B)) with 2 by ring. field. Qed.

Lemma Qf_pos A B tau : Df B (exp (A * tau)) <> 0 -> 0 < Qf A B tau.
Proof.
  intros HD. unfold Qf. apply Rdiv_lt_0_compat. pose proof (exp_pos (A * tau)); lra.
  nra.
Qed.

(* range of p: with c = (1-rho) pnext in [0,1] *)
Lemma Pf_range lam mu psi A c E :
  0 < lam -> 0 < mu -> 0 < psi -> 0 < A -> A * A = rad lam mu psi ->
  0 <= c <= 1 -> 1 <= E ->
  let B := ((1 - 2 * c) * lam + mu + psi) / A in
  0 <= ((lam + mu + psi) - A * ((E * (1 + B) - (1 - B)) / Df B E)) / (2 * lam) <= 1.
Proof.
  intros Hl Hm Hp HA HAA Hc HE B.
  assert (HAB : A * B = (1 - 2 * c) * lam + mu + psi) by (unfold B; field; lra).
  assert (Hlp : 0 < lam * psi) by (apply Rmult_lt_0_compat; auto).
  assert (Hlm : 0 < lam * mu) by (apply Rmult_lt_0_compat; auto).
  assert (H1 : (lam - mu - psi) * (lam - mu - psi) < A * A) by (rewrite HAA; unfold rad; lra).
  assert (H2 : A * A < (lam + mu + psi) * (lam + mu + psi)) by (rewrite HAA; unfold rad; nra).
  assert (Hd : - A <= lam - mu - psi <= A).
  { split. destruct (Rle_dec (- A) (lam - mu - psi)); auto. exfalso. nra.
    destruct (Rle_dec (lam - mu - psi) A); auto. exfalso. nra. }
  assert (Hs : A < lam + mu + psi).
  { destruct (Rlt_dec A (lam + mu + psi)); auto. exfalso. nra. }
  assert (HB : -1 <= B) by (apply B_ge; auto; lra).
  assert (HD : 2 <= Df B E) by (apply Df_ge2; auto).
  set (sg := lam + mu + psi) in *.
  assert (Hcl : 0 <= c * lam <= lam).
  { split. apply Rmult_le_pos; lra. assert (c * lam <= 1 * lam) by (apply Rmult_le_compat_r; lra). lra. }
  assert (Hnum0 : 0 <= sg * Df B E - A * (E * (1 + B) - (1 - B))).
  { assert (Heq : sg * Df B E - A * (E * (1 + B) - (1 - B))
                  = (E - 1) * ((1 + B) * (sg - A)) + 2 * sg - 2 * (A * B)) by (unfold Df; ring).
    rewrite Heq, HAB.
    assert (0 <= (E - 1) * ((1 + B) * (sg - A))) by (apply Rmult_le_pos; [lra| apply Rmult_le_pos; lra]).
    unfold sg in *. lra. }
  assert (Hnum1 : sg * Df B E - A * (E * (1 + B) - (1 - B)) <= 2 * lam * Df B E).
  { assert (Heq : 2 * lam * Df B E - (sg * Df B E - A * (E * (1 + B) - (1 - B)))
                  = (E - 1) * ((1 + B) * (A + (lam - mu - psi))) + 2 * (A * B) + 2 * (lam - mu - psi))
      by (unfold Df, sg; ring).
    assert (0 <= (E - 1) * ((1 + B) * (A + (lam - mu - psi)))) by (apply Rmult_le_pos; [lra| apply Rmult_le_pos; lra]).
    rewrite HAB in Heq. unfold sg in *. lra. }
  assert (HlD : 0 < 2 * lam * Df B E) by (apply Rmult_lt_0_compat; lra).
  replace ((sg - A * ((E * (1 + B) - (1 - B)) / Df B E)) / (2 * lam))
    with ((sg * Df B E - A * (E * (1 + B) - (1 - B))) / (2 * lam * Df B E)) by (field; lra).
  split.
  - apply Rmult_le_pos; [lra|]. left. apply Rinv_0_lt_compat. exact HlD.
  - apply Rmult_le_reg_r with (2 * lam * Df B E); [exact HlD|].
    unfold Rdiv. rewrite Rmult_assoc, Rinv_l by lra. lra.
Qed.

(* flow property of the Riccati solution: an epoch cut delta before its end, rho = 0 at the cut *)
Lemma flow lam mu psi A B tau delta :
  lam <> 0 -> A <> 0 ->
  Df B (exp (A * delta)) <> 0 -> Df B (exp (A * (tau + delta))) <> 0 ->
  let B' := Bf lam mu psi A 0 (Pf lam mu psi A B delta) in
  Pf lam mu psi A B' tau = Pf lam mu psi A B (tau + delta) /\
  Qf A B' tau * Qf A B delta = Qf A B (tau + delta) /\
  Df B' (exp (A * tau)) * Df B (exp (A * delta)) = 2 * Df B (exp (A * (tau + delta))).
Proof.
  intros Hl HA HD1 HD2 B'.
  assert (Hexp : exp (A * (tau + delta)) = exp (A * tau) * exp (A * delta))
    by (rewrite Rmult_plus_distr_l; apply exp_plus).
  rewrite Hexp in *.
  assert (HB' : B' = (exp (A * delta) * (1 + B) - (1 - B)) / Df B (exp (A * delta))).
  { unfold B', Bf, Pf. field. repeat split; auto. }
  clearbody B'. subst B'.
  set (Et := exp (A * tau)) in *. set (Ed := exp (A * delta)) in *.
  assert (HD3 : Df ((Ed * (1 + B) - (1 - B)) / Df B Ed) Et * Df B Ed = 2 * Df B (Et * Ed)).
  { unfold Df in *. field. exact HD1. }
  assert (HD4 : Df ((Ed * (1 + B) - (1 - B)) / Df B Ed) Et <> 0).
  { intro E0. rewrite E0 in HD3. lra. }
  split; [|split; auto].
  - unfold Pf. fold Et Ed. rewrite Hexp. fold Et Ed. f_equal. f_equal. f_equal.
    unfold Df in *. field. repeat split; auto.
    intro E0. apply HD2. lra.
  - unfold Qf. fold Et Ed. rewrite Hexp. fold Et Ed.
    unfold Df in *. field. repeat split; auto.
    intro E0. apply HD2. lra.
Qed.
(* ---- the model terms at NumR ---- *)
Lemma Aof_R lam mu psi : Aof NumR lam mu psi = sqrt (rad lam mu psi).
Proof. unfold Aof, sqr, rad, c4. cbn [add sub mul nsqrt ofQ NumR]. rewrite Q2R_4. reflexivity. Qed.

Lemma Bof_R lam mu psi A rho pn : Bof NumR lam mu psi A rho pn = Bf lam mu psi A rho pn.
Proof. unfold Bof, Bf, c1, c2. cbn [add sub mul div one ofQ NumR]. rewrite Q2R_2. reflexivity. Qed.

Lemma Eat_R A t1 t : Eat NumR A t1 t = exp (A * (Q2R t1 - Q2R t)).
Proof. reflexivity. Qed.

Definition dur (e : epoch R) : R := Q2R (et1 e) - Q2R (et0 e).
Definition eA (e : epoch R) : R := sqrt (rad (elam e) (emu e) (epsi e)).
Definition eB (e : epoch R) (pn : R) : R := Bf (elam e) (emu e) (epsi e) (eA e) (Q2R (erho e)) pn.

Lemma solve_epoch_R e pn :
  solve_epoch NumR e pn =
  mkSol (eA e) (eB e pn) (Pf (elam e) (emu e) (epsi e) (eA e) (eB e pn) (dur e)).
Proof.
  unfold solve_epoch. rewrite Aof_R, Bof_R, Eat_R, p0form_R. reflexivity.
Qed.

Lemma p_at_R e s t :
  p_at NumR e s t = Pf (elam e) (emu e) (epsi e) (sA s) (sB s) (Q2R (et1 e) - Q2R t).
Proof. unfold p_at. rewrite Eat_R, p0form_R. reflexivity. Qed.

Lemma log_q_R e s t : log_q NumR e s t = ln (Qf (sA s) (sB s) (Q2R (et1 e) - Q2R t)).
Proof. unfold log_q. rewrite Eat_R, qform_R. reflexivity. Qed.

(* ---- admissible epochs: positive rates, rho in [0,1], non-negative duration ---- *)
Definition wf_ep (e : epoch R) : Prop :=
  0 < elam e /\ 0 < emu e /\ 0 < epsi e /\ 0 <= Q2R (erho e) <= 1 /\ Q2R (et0 e) <= Q2R (et1 e).

Lemma c_range rho pn : 0 <= rho <= 1 -> 0 <= pn <= 1 -> 0 <= (1 - rho) * pn <= 1.
Proof.
  intros Hr Hp. split. apply Rmult_le_pos; lra.
  assert ((1 - rho) * pn <= 1 * 1) by (apply Rmult_le_compat; lra). lra.
Qed.

Lemma Bf_c lam mu psi A rho pn :
  Bf lam mu psi A rho pn = ((1 - 2 * ((1 - rho) * pn)) * lam + mu + psi) / A.
Proof. unfold Bf. f_equal. ring. Qed.

(* everything one needs to know about a solved admissible epoch, tau >= 0 before its end *)
Lemma epoch_facts e pn tau :
  wf_ep e -> 0 <= pn <= 1 -> 0 <= tau ->
  let A := eA e in let B := eB e pn in
  0 < A /\ A * A = rad (elam e) (emu e) (epsi e) /\ -1 <= B /\ 2 <= Df B (exp (A * tau)) /\
  0 <= Pf (elam e) (emu e) (epsi e) A B tau <= 1 /\ 0 < Qf A B tau.
Proof.
  intros (Hl & Hm & Hp & Hr & Ht) Hpn Htau A B.
  destruct (A_facts _ _ _ Hl Hm Hp) as (HA & HAA & Hd & Hs).
  change (sqrt (rad (elam e) (emu e) (epsi e))) with A in HA, HAA, Hd, Hs.
  pose proof (c_range _ _ Hr Hpn) as Hc.
  assert (HE : 1 <= exp (A * tau)) by (apply exp_ge1; apply Rmult_le_pos; lra).
  assert (HBc : B = ((1 - 2 * ((1 - Q2R (erho e)) * pn)) * elam e + emu e + epsi e) / A)
    by (unfold B, eB; apply Bf_c).
  assert (HB : -1 <= B).
  { rewrite HBc. apply B_ge; auto; lra. }
  assert (HD : 2 <= Df B (exp (A * tau))) by (apply Df_ge2; auto).
  assert (HP : 0 <= Pf (elam e) (emu e) (epsi e) A B tau <= 1).
  { rewrite HBc. unfold Pf. apply Pf_range; auto. }
  repeat split; auto; try apply HP.
  apply Qf_pos. lra.
Qed.

Lemma dur_nonneg e : wf_ep e -> 0 <= dur e.
Proof. intros (_ & _ & _ & _ & Ht). unfold dur. lra. Qed.

(* p stays a probability through the whole backward recursion *)
Lemma back_range eps : List.Forall wf_ep eps -> 0 <= snd (back NumR eps) <= 1.
Proof.
  induction 1 as [|e r He Hr IH]; cbn [back].
  - unfold c1. cbn [one NumR snd]. lra.
  - destruct (back NumR r) as [l pn] eqn:Eb. cbn [snd] in *.
    rewrite solve_epoch_R. cbn [sp].
    apply (epoch_facts e pn (dur e) He IH (dur_nonneg e He)).
Qed.

(* the master equations hold inside every epoch of the recursion *)
Lemma p0_master_l e pn tau :
  wf_ep e -> 0 <= pn <= 1 -> 0 <= tau ->
  let A := eA e in let B := eB e pn in
  let p := fun t => p0form NumR (elam e) (emu e) (epsi e) A B (exp (A * t)) in
  is_derive p tau (emu e - (elam e + emu e + epsi e) * p tau + elam e * (p tau * p tau))
  /\ p 0 = (1 - Q2R (erho e)) * pn /\ 0 <= p tau <= 1.
Proof.
  intros He Hpn Htau A B p.
  destruct (epoch_facts e pn tau He Hpn Htau) as (HA & HAA & HB & HD & HP & HQ).
  fold A B in HA, HAA, HB, HD, HP, HQ.
  assert (Hp : forall t, p t = Pf (elam e) (emu e) (epsi e) A B t) by (intro; apply p0form_R).
  destruct He as (Hl & _).
  split; [|split].
  - apply is_derive_ext with (f := fun t => Pf (elam e) (emu e) (epsi e) A B t).
    intros t; symmetry; apply Hp.
    rewrite Hp. apply Pf_derive; [apply Rgt_not_eq; exact Hl | exact HAA | apply Rgt_not_eq; lra].
  - rewrite Hp. unfold B, eB. apply Pf_0; apply Rgt_not_eq; [exact Hl | exact HA].
  - rewrite Hp. exact HP.
Qed.

Lemma q_master_l e pn tau :
  wf_ep e -> 0 <= pn <= 1 -> 0 <= tau ->
  let A := eA e in let B := eB e pn in
  let p := fun t => p0form NumR (elam e) (emu e) (epsi e) A B (exp (A * t)) in
  let q := fun t => qform NumR B (exp (A * t)) in
  is_derive q tau ((- (elam e + emu e + epsi e) + 2 * elam e * p tau) * q tau)
  /\ q 0 = 1 /\ 0 < q tau.
Proof.
  intros He Hpn Htau A B p q.
  destruct (epoch_facts e pn tau He Hpn Htau) as (HA & HAA & HB & HD & HP & HQ).
  fold A B in HA, HAA, HB, HD, HP, HQ.
  assert (Hp : forall t, p t = Pf (elam e) (emu e) (epsi e) A B t) by (intro; apply p0form_R).
  assert (Hq : forall t, q t = Qf A B t) by (intro; apply qform_R).
  destruct He as (Hl & _).
  split; [|split].
  - apply is_derive_ext with (f := fun t => Qf A B t).
    intros t; symmetry; apply Hq.
    rewrite Hp, Hq. apply Qf_derive; apply Rgt_not_eq; [exact Hl | lra].
  - rewrite Hq. apply Qf_0.
  - rewrite Hq. exact HQ.
Qed.

(* boundary wiring inside the recursion: at the END of epoch e, p_e = (1 - rho_e) * p of the
   next epoch at its start (1 beyond the present) *)
Lemma boundary_wiring_l e r :
  List.Forall wf_ep (e :: r) ->
  match back NumR (e :: r) with
  | (s :: _, _) => p_at NumR e s (et1 e) = (1 - Q2R (erho e)) * snd (back NumR r)
                   /\ sp s = p_at NumR e s (et0 e)
  | _ => False
  end.
Proof.
  intros H. inversion H as [|? ? He Hr]; subst.
  pose proof (back_range r Hr) as Hpn.
  cbn [back]. destruct (back NumR r) as [l pn] eqn:Eb. cbn [snd] in *.
  rewrite p_at_R, p_at_R, solve_epoch_R. cbn [sA sB sp].
  destruct (epoch_facts e pn 0 He Hpn (Rle_refl 0)) as (HA & _).
  destruct He as (Hl & _).
  split.
  - replace (Q2R (et1 e) - Q2R (et1 e)) with 0 by ring. unfold eB. apply Pf_0; apply Rgt_not_eq; [exact Hl | exact HA].
  - reflexivity.
Qed.
(* ---- refinement: an epoch [t0,t2] cut at t1, identical rates, rho = 0 at the cut ---- *)
Section Split.
Variables (l u p : R) (rho t0 t1 t2 : Q).
Let e  := mkEp l u p rho t0 t2.
Let e1 := mkEp l u p 0%Q t0 t1.
Let e2 := mkEp l u p rho t1 t2.

(* (s1, s2) solve the two halves, s the whole: same A, the later half has the B of the whole,
   p at the start agrees, p and q of the earlier half continue those of the whole *)
Definition refines (s1 s2 s : sol R) : Prop :=
  sp s1 = sp s /\ sA s1 = sA s /\ sA s2 = sA s /\ sB s2 = sB s /\
  (forall tau, 0 <= tau ->
     Pf l u p (sA s1) (sB s1) tau = Pf l u p (sA s) (sB s) (tau + (Q2R t2 - Q2R t1)) /\
     Qf (sA s1) (sB s1) tau * Qf (sA s) (sB s) (Q2R t2 - Q2R t1)
       = Qf (sA s) (sB s) (tau + (Q2R t2 - Q2R t1))).

Lemma split_solve pn :
  wf_ep e1 -> wf_ep e2 -> 0 <= pn <= 1 ->
  let s := solve_epoch NumR e pn in
  let s2 := solve_epoch NumR e2 pn in
  let s1 := solve_epoch NumR e1 (sp s2) in
  refines s1 s2 s.
Proof.
  intros H1 H2 Hpn s s2 s1. unfold s1, s2, s. rewrite !solve_epoch_R. cbn [sp sA sB].
  assert (HeA1 : eA e1 = eA e) by reflexivity. assert (HeA2 : eA e2 = eA e) by reflexivity.
  assert (HeB2 : eB e2 pn = eB e pn) by reflexivity.
  rewrite HeA1, HeA2, HeB2.
  change (elam e2) with l. change (emu e2) with u. change (epsi e2) with p.
  change (elam e1) with l. change (emu e1) with u. change (epsi e1) with p.
  change (elam e) with l. change (emu e) with u. change (epsi e) with p.
  set (A := eA e). set (B := eB e pn).
  assert (Hd1 : 0 <= dur e1) by (apply dur_nonneg; exact H1).
  assert (Hd2 : 0 <= dur e2) by (apply dur_nonneg; exact H2).
  assert (Hdur : dur e = dur e1 + dur e2) by (unfold dur; cbn [et0 et1 e e1 e2]; ring).
  assert (Hdd : dur e2 = Q2R t2 - Q2R t1) by reflexivity.
  assert (Hwf : wf_ep e).
  { destruct H1 as (? & ? & ? & ? & ?), H2 as (? & ? & ? & ? & ?). unfold wf_ep. cbn [elam emu epsi erho et0 et1 e e1 e2] in *.
    repeat split; auto; lra. }
  assert (HB1 : eB e1 (Pf l u p A B (dur e2)) = Bf l u p A 0 (Pf l u p A B (dur e2))).
  { unfold eB. cbn [elam emu epsi erho e1]. rewrite Q2R_0. reflexivity. }
  rewrite HB1.
  assert (Hflow : forall tau, 0 <= tau ->
            Pf l u p A (Bf l u p A 0 (Pf l u p A B (dur e2))) tau = Pf l u p A B (tau + dur e2) /\
            Qf A (Bf l u p A 0 (Pf l u p A B (dur e2))) tau * Qf A B (dur e2) = Qf A B (tau + dur e2)).
  { intros tau Htau.
    destruct (epoch_facts e pn (dur e2) Hwf Hpn Hd2) as (HA & _ & _ & HD1 & _).
    assert (Htd : 0 <= tau + dur e2) by lra.
    destruct (epoch_facts e pn (tau + dur e2) Hwf Hpn Htd) as (_ & _ & _ & HD2 & _).
    fold A B in HA, HD1, HD2.
    destruct (flow l u p A B tau (dur e2)) as (F1 & F2 & _).
    - apply Rgt_not_eq. apply Hwf.
    - apply Rgt_not_eq. exact HA.
    - apply Rgt_not_eq. lra.
    - apply Rgt_not_eq. lra.
    - split; assumption. }
  unfold refines. cbn [sp sA sB]. rewrite <- Hdd.
  repeat split; auto.
  - rewrite Hdur. apply (Hflow (dur e1) Hd1).
  - apply (Hflow tau H).
  - apply (Hflow tau H).
Qed.

(* the same inside a skyline with any number of epochs before and after the cut epoch *)
Lemma back_split pre r :
  List.Forall wf_ep (pre ++ e1 :: e2 :: r) ->
  exists lpre s1 s2 s lr,
    fst (back NumR (pre ++ e1 :: e2 :: r)) = lpre ++ s1 :: s2 :: lr /\
    fst (back NumR (pre ++ e :: r)) = lpre ++ s :: lr /\
    length lpre = length pre /\
    snd (back NumR (pre ++ e1 :: e2 :: r)) = snd (back NumR (pre ++ e :: r)) /\
    refines s1 s2 s.
Proof.
  induction pre as [|a pre IH]; intros Hwf.
  - cbn [app] in *. inversion Hwf as [|? ? Hw1 Hw']; subst. inversion Hw' as [|? ? Hw2 Hwr]; subst.
    pose proof (back_range r Hwr) as Hpn.
    cbn [back]. destruct (back NumR r) as [lr pn] eqn:Eb. cbn [snd fst] in *.
    exists [], (solve_epoch NumR e1 (sp (solve_epoch NumR e2 pn))), (solve_epoch NumR e2 pn),
      (solve_epoch NumR e pn), lr.
    pose proof (split_solve pn Hw1 Hw2 Hpn) as Hs. cbv zeta in Hs.
    split; [reflexivity|]. split; [reflexivity|]. split; [reflexivity|]. split; [apply Hs | exact Hs].
  - cbn [app] in *. inversion Hwf as [|? ? Hwa Hwp]; subst.
    destruct (IH Hwp) as (lpre & s1 & s2 & s & lr & E1 & E2 & Hlen & Hp & Hs).
    cbn [back].
    destruct (back NumR (pre ++ e1 :: e2 :: r)) as [la pa] eqn:Ea.
    destruct (back NumR (pre ++ e :: r)) as [lb pb] eqn:Ebb.
    cbn [fst snd] in *. subst pb la lb.
    exists (solve_epoch NumR a pa :: lpre), s1, s2, s, lr.
    cbn [fst snd app length].
    split; [reflexivity|]. split; [reflexivity|]. split; [congruence|]. split; [reflexivity | exact Hs].
Qed.
End Split.
(* ---- single epoch = the independently written constant model ---- *)
Lemma clampi_1 i : clampi i 1 = O.
Proof. unfold clampi. destruct i; reflexivity. Qed.

Section Single.
Variables (lam mu psi : R) (rho T : Q).
Hypotheses (Hl : 0 < lam) (Hm : 0 < mu) (Hp : 0 < psi) (Hr : 0 <= Q2R rho <= 1) (HT : 0 <= Q2R T).
Let e := mkEp lam mu psi rho 0%Q T.
Let s := solve_epoch NumR e (c1 NumR).

Lemma e_wf : wf_ep e.
Proof. unfold wf_ep, e; cbn [elam emu epsi erho et0 et1]. rewrite Q2R_0. repeat split; auto; lra. Qed.

Lemma s_A : sA s = bd_A NumR lam mu psi. Proof. reflexivity. Qed.
Lemma s_B : sB s = bd_B NumR lam mu psi rho.
Proof.
  unfold s, solve_epoch, bd_B, Bof, bd_A, c1, c2. cbn [sB elam emu epsi erho e add sub mul div one ofQ NumR].
  f_equal. ring.
Qed.

Lemma s_p : sp s = bd_p NumR lam mu psi rho T.
Proof.
  unfold s. rewrite solve_epoch_R. cbn [sp].
  unfold bd_p. cbv zeta. fold s. rewrite <- s_B. 
  unfold Pf, Df, c1, c2, bd_A. rewrite Aof_R. cbn [add sub mul div one ofQ NumR nexp].
  rewrite Q2R_2. unfold s. rewrite solve_epoch_R. cbn [sB].
  unfold dur. cbn [et0 et1 e]. rewrite Q2R_0, Rminus_0_r. 
  change (c1 NumR) with 1. change (elam e) with lam. change (emu e) with mu. change (epsi e) with psi. change (eA e) with (sqrt (rad lam mu psi)). unfold Rdiv. ring.
Qed.

Lemma first_q0 : first_term NumR e s = ln (bd_q0 NumR lam mu psi rho T).
Proof.
  unfold first_term. rewrite s_B. cbn [et1 e]. unfold bd_q0. cbv zeta.
  change (nln NumR) with ln. f_equal.
  rewrite s_A. set (A := bd_A NumR lam mu psi). set (B := bd_B NumR lam mu psi rho).
  unfold qform, sqr, c1, c4. cbn [add sub mul div one zero opp ofQ nexp NumR].
  rewrite Rminus_0_r. replace (- A * Q2R T) with (- (A * Q2R T)) by ring. rewrite exp_Ropp.
  pose proof (exp_pos (A * Q2R T)) as HE.
  destruct (epoch_facts e 1 (Q2R T) e_wf ltac:(lra) HT) as (_ & _ & _ & HD & _).
  assert (HB : eB e 1 = B).
  { unfold B. rewrite <- s_B. unfold s. rewrite solve_epoch_R. reflexivity. }
  rewrite HB in HD. assert (HAe : eA e = A) by (unfold A, bd_A; rewrite Aof_R; reflexivity). rewrite HAe in HD. unfold Df in HD.
  field. split; apply Rgt_not_eq; lra.
Qed.

Lemma births_eq xs :
  births_sum NumR [0%Q; T] 1 [(e, s)] xs = bd_births NumR lam mu psi rho T xs.
Proof.
  unfold births_sum, bd_births. f_equal. apply map_ext. intros x.
  unfold birth_term, idx_right. rewrite clampi_1. cbn [lk elam e].
  unfold log_q, bd_log_q. rewrite s_A, s_B. reflexivity.
Qed.

Lemma tips_eq serial ys :
  tips_sum NumR serial [0%Q; T] 1 [e] [(e, s)] None ys = bd_tips NumR serial lam mu psi rho T ys.
Proof.
  unfold tips_sum, bd_tips. destruct serial; [|reflexivity]. f_equal. apply map_ext. intros y.
  unfold tip_term, is_rho_tip. cbn [existsb et1 erho e]. rewrite orb_false_r.
  destruct (Qeq_bool T y && Qpos_bool rho); [reflexivity|].
  unfold idx_left. rewrite clampi_1. cbn [lk epsi e].
  unfold log_q, bd_log_q. rewrite s_A, s_B. reflexivity.
Qed.

Lemma single_epoch_is_constant_l survival tips ints :
  log_prob NumR survival None [e] tips ints = bd_log_prob NumR survival lam mu psi rho T tips ints.
Proof.
  unfold log_prob, bd_log_prob.
  cbn [length times_of lastq map back combine fst et0 et1 e].
  fold e. fold s.
  rewrite births_eq, tips_eq.
  cbn [boundary_terms rho_terms removal_part et1 erho e].
  assert (Hs : surv_term NumR survival e s = bd_surv NumR survival lam mu psi rho T).
  { unfold surv_term, bd_surv. rewrite first_q0, s_p. reflexivity. }
  rewrite Hs. unfold bd_rho. cbv zeta. cbn [add zero NumR]. ring.
Qed.
End Single.

(* ---- refinement of the whole density: one epoch cut in two, any tree ---- *)
Lemma Qle_bool_true a b : Qle_bool a b = true -> Q2R a <= Q2R b.
Proof. intros H. apply Qle_Rle, Qle_bool_iff, H. Qed.
Lemma Qle_bool_false a b : Qle_bool a b = false -> Q2R b < Q2R a.
Proof.
  intros H. apply Qlt_Rlt, Qnot_le_lt. intro H1. apply Qle_bool_iff in H1. congruence.
Qed.
Lemma Qle_bool_of_R a b : Q2R a <= Q2R b -> Qle_bool a b = true.
Proof. intros H. apply Qle_bool_iff, Rle_Qle, H. Qed.
Lemma Qle_bool_of_R_false a b : Q2R b < Q2R a -> Qle_bool a b = false.
Proof.
  intros H. destruct (Qle_bool a b) eqn:E; auto. apply Qle_bool_true in E. lra.
Qed.
Lemma Qpos_bool_0 : Qpos_bool 0 = false.
Proof. reflexivity. Qed.
Lemma ofZ_R z : ofZ NumR z = IZR z.
Proof. unfold ofZ. cbn [ofQ NumR]. unfold Q2R. cbn. field. Qed.

Section Refine2.
Variables (l u p : R) (rho c T : Q).
Hypotheses (Hl : 0 < l) (Hu : 0 < u) (Hp : 0 < p) (Hr : 0 <= Q2R rho <= 1).
Hypotheses (Hc0 : 0 < Q2R c) (HcT : Q2R c < Q2R T).
Let e  := mkEp l u p rho 0%Q T.
Let e1 := mkEp l u p 0%Q 0%Q c.
Let e2 := mkEp l u p rho c T.
Let s  := solve_epoch NumR e (c1 NumR).
Let s2 := solve_epoch NumR e2 (c1 NumR).
Let s1 := solve_epoch NumR e1 (sp s2).
Let A := sA s.
Let B := sB s.
Let B1 := sB s1.
Let delta := Q2R T - Q2R c.
Let K := ln (Qf A B delta).

Lemma wf1 : wf_ep e1.
Proof. unfold wf_ep, e1; cbn [elam emu epsi erho et0 et1]. rewrite Q2R_0. repeat split; auto; lra. Qed.
Lemma wf2 : wf_ep e2.
Proof. unfold wf_ep, e2; cbn [elam emu epsi erho et0 et1]. repeat split; auto; lra. Qed.
Lemma wf0 : wf_ep e.
Proof. unfold wf_ep, e; cbn [elam emu epsi erho et0 et1]. rewrite Q2R_0. repeat split; auto; lra. Qed.
Lemma one01 : 0 <= c1 NumR <= 1.
Proof. unfold c1; cbn [one NumR]; lra. Qed.

Lemma Href : refines l u p c T s1 s2 s.
Proof. exact (split_solve l u p rho 0%Q c T (c1 NumR) wf1 wf2 one01). Qed.

Lemma sA1 : sA s1 = A. Proof. apply Href. Qed.
Lemma sA2 : sA s2 = A. Proof. apply Href. Qed.
Lemma sB2 : sB s2 = B. Proof. apply Href. Qed.
Lemma sp1 : sp s1 = sp s. Proof. apply Href. Qed.

Lemma sp2_range : 0 <= sp s2 <= 1.
Proof.
  unfold s2. rewrite solve_epoch_R. cbn [sp].
  apply (epoch_facts e2 (c1 NumR) (dur e2) wf2 one01 (dur_nonneg e2 wf2)).
Qed.

Lemma Q_pos tau : 0 <= tau -> 0 < Qf A B tau.
Proof.
  intros Ht. unfold A, B, s. rewrite solve_epoch_R. cbn [sA sB].
  apply (epoch_facts e (c1 NumR) tau wf0 one01 Ht).
Qed.
Lemma Q1_pos tau : 0 <= tau -> 0 < Qf A B1 tau.
Proof.
  intros Ht. rewrite <- sA1. unfold B1, s1. rewrite solve_epoch_R. cbn [sA sB].
  apply (epoch_facts e1 (sp s2) tau wf1 sp2_range Ht).
Qed.

(* ln q of the whole epoch = ln q of the earlier half + K *)
Lemma lnq_split tau : 0 <= tau -> ln (Qf A B (tau + delta)) = ln (Qf A B1 tau) + K.
Proof.
  intros Ht. destruct Href as (_ & E1 & _ & _ & Hf). destruct (Hf tau Ht) as (_ & Hq).
  fold A B in Hq. rewrite E1 in Hq. fold A B1 delta in Hq.
  rewrite <- Hq. unfold K. apply ln_mult. apply Q1_pos; auto. apply Q_pos. unfold delta; lra.
Qed.

(* epoch lookups *)
Lemma idx_right_split x :
  idx_right [0%Q; c; T] x 2 = if Qle_bool c x then 1%nat else 0%nat.
Proof.
  unfold idx_right. cbn [count_if].
  destruct (Qle_bool c x) eqn:Ec.
  - apply Qle_bool_true in Ec.
    rewrite (Qle_bool_of_R 0 x) by (rewrite Q2R_0; lra).
    destruct (Qle_bool T x); reflexivity.
  - apply Qle_bool_false in Ec.
    rewrite (Qle_bool_of_R_false T x) by lra.
    destruct (Qle_bool 0 x); reflexivity.
Qed.

Lemma idx_left_split y :
  Q2R y <= Q2R T ->
  idx_left [0%Q; c; T] y 2 = if Qle_bool y c then 0%nat else 1%nat.
Proof.
  intros Hy. unfold idx_left, Qlt_bool. cbn [count_if].
  rewrite (Qle_bool_of_R y T) by lra. cbn [negb].
  destruct (Qle_bool y c) eqn:Ec; cbn [negb].
  - destruct (Qle_bool y 0); reflexivity.
  - apply Qle_bool_false in Ec.
    rewrite (Qle_bool_of_R_false y 0) by (rewrite Q2R_0; lra). reflexivity.
Qed.

Definition es2 := [(e1, s1); (e2, s2)].

Lemma birth_split x :
  Q2R x <= Q2R T ->
  birth_term NumR [0%Q; T] 1 [(e, s)] x =
  birth_term NumR [0%Q; c; T] 2 es2 x + (if Qlt_bool x c then K else 0).
Proof.
  intros Hx. unfold birth_term. rewrite idx_right_split. unfold idx_right. rewrite clampi_1.
  cbn [lk]. unfold Qlt_bool.
  destruct (Qle_bool c x) eqn:Ec; cbn [negb lk es2]; rewrite !log_q_R; cbn [elam e e1 e2 et1 add nln NumR].
  - rewrite sA2, sB2. fold A B. lra.
  - apply Qle_bool_false in Ec. rewrite sA1. fold A B B1.
    replace (Q2R T - Q2R x) with ((Q2R c - Q2R x) + delta) by (unfold delta; ring).
    rewrite lnq_split by lra. lra.
Qed.

Lemma rho_tip_split y : is_rho_tip [e1; e2] y = is_rho_tip [e] y.
Proof.
  unfold is_rho_tip. cbn [existsb et1 erho e e1 e2]. rewrite Qpos_bool_0, andb_false_r. reflexivity.
Qed.

Lemma tip_split y :
  Q2R y <= Q2R T ->
  tip_term NumR [0%Q; T] 1 [e] [(e, s)] None y =
  tip_term NumR [0%Q; c; T] 2 [e1; e2] es2 None y - (if Qle_bool y c then K else 0).
Proof.
  intros Hy. unfold tip_term. rewrite rho_tip_split.
  destruct (is_rho_tip [e] y) eqn:Er.
  - (* a rho-tip sits at T > c *)
    unfold is_rho_tip in Er. cbn [existsb et1 erho e] in Er. rewrite orb_false_r in Er.
    apply andb_prop in Er. destruct Er as [Er _]. apply Qeq_bool_eq in Er. apply Qeq_eqR in Er.
    rewrite (Qle_bool_of_R_false y c) by lra. cbn [zero NumR]. lra.
  - rewrite idx_left_split by auto. unfold idx_left. rewrite clampi_1. cbn [lk].
    destruct (Qle_bool y c) eqn:Ec; cbn [lk es2]; rewrite !log_q_R; cbn [epsi e e1 e2 et1 sub nln NumR].
    + apply Qle_bool_true in Ec. rewrite sA1. fold A B B1.
      replace (Q2R T - Q2R y) with ((Q2R c - Q2R y) + delta) by (unfold delta; ring).
      rewrite lnq_split by lra. lra.
    + rewrite sA2, sB2. fold A B. lra.
Qed.

Lemma births_sum_split xs :
  List.Forall (fun x => Q2R x <= Q2R T) xs ->
  births_sum NumR [0%Q; T] 1 [(e, s)] xs =
  births_sum NumR [0%Q; c; T] 2 es2 xs + INR (count_if (fun x => Qlt_bool x c) xs) * K.
Proof.
  unfold births_sum. induction 1 as [|x xs Hx Hxs IH].
  - cbn. lra.
  - cbn [map nsum count_if add NumR]. rewrite IH, (birth_split x Hx).
    destruct (Qlt_bool x c); [rewrite S_INR|]; lra.
Qed.

Lemma tips_nsum_split ys :
  List.Forall (fun y => Q2R y <= Q2R T) ys ->
  nsum NumR (map (tip_term NumR [0%Q; T] 1 [e] [(e, s)] None) ys) =
  nsum NumR (map (tip_term NumR [0%Q; c; T] 2 [e1; e2] es2 None) ys)
  - INR (count_if (fun y => Qle_bool y c) ys) * K.
Proof.
  induction 1 as [|y ys Hy Hys IH].
  - cbn. lra.
  - cbn [map nsum count_if add NumR]. rewrite IH, (tip_split y Hy).
    destruct (Qle_bool y c); [rewrite S_INR|]; lra.
Qed.

(* without serially sampled tips no tip lies at or before the cut *)
Lemma no_serial_count tips :
  List.Forall (fun h => 0 <= Q2R h) tips -> existsb Qpos_bool tips = false ->
  count_if (fun y => Qle_bool y c) (map (fun h => (T - h)%Q) tips) = O.
Proof.
  induction 1 as [|h tips Hh Ht IH]; intros Hs; [reflexivity|].
  cbn [existsb] in Hs. apply orb_false_elim in Hs. destruct Hs as [Hh0 Hs].
  cbn [map count_if]. rewrite (IH Hs).
  unfold Qpos_bool, Qlt_bool in Hh0. apply negb_false_iff in Hh0. apply Qle_bool_true in Hh0.
  rewrite Q2R_0 in Hh0.
  rewrite Qle_bool_of_R_false; [reflexivity|]. rewrite Q2R_minus. lra.
Qed.

Lemma Forall_sub_le hs :
  List.Forall (fun h => 0 <= Q2R h) hs ->
  List.Forall (fun x => Q2R x <= Q2R T) (map (fun h => (T - h)%Q) hs).
Proof.
  induction 1; cbn [map]; constructor; auto. rewrite Q2R_minus. lra.
Qed.

Lemma refine2_l survival tips ints :
  List.Forall (fun h => 0 <= Q2R h) tips -> List.Forall (fun h => 0 <= Q2R h) ints ->
  log_prob NumR survival None [e1; e2] tips ints = log_prob NumR survival None [e] tips ints.
Proof.
  intros Htips Hints.
  unfold log_prob.
  cbn [length times_of lastq map back combine fst et0 et1 e e1 e2].
  fold e e1 e2. fold s2. fold s1. fold s. fold es2.
  set (xs := map (fun h => (T - h)%Q) ints). set (ys := map (fun h => (T - h)%Q) tips).
  rewrite (births_sum_split xs (Forall_sub_le ints Hints)).
  (* survival / first term *)
  assert (Hfirst : first_term NumR e s = first_term NumR e1 s1 + K).
  { unfold first_term. cbn [et1 e e1 sub zero mul nexp nln ofQ NumR]. rewrite !qform_R, sA1. fold A B B1.
    rewrite !Rminus_0_r. replace (Q2R T) with (Q2R c + delta) by (unfold delta; ring).
    apply lnq_split. lra. }
  assert (Hsurv : surv_term NumR survival e s = surv_term NumR survival e1 s1 + K).
  { unfold surv_term. rewrite Hfirst, sp1. destruct survival; cbn [sub NumR]; lra. }
  rewrite Hsurv.
  (* tips *)
  assert (Htip : tips_sum NumR (existsb Qpos_bool tips) [0%Q; T] 1 [e] [(e, s)] None ys =
                 tips_sum NumR (existsb Qpos_bool tips) [0%Q; c; T] 2 [e1; e2] es2 None ys
                 - INR (count_if (fun y => Qle_bool y c) ys) * K).
  { unfold tips_sum. destruct (existsb Qpos_bool tips) eqn:Es.
    - apply tips_nsum_split. apply Forall_sub_le, Htips.
    - unfold ys. rewrite (no_serial_count tips Htips Es). cbn [INR zero NumR]. lra. }
  rewrite Htip.
  (* boundary, rho and removal terms *)
  cbn [boundary_terms rho_terms removal_part et0 et1 erho e e1 e2].
  rewrite Qpos_bool_0, andb_false_r. rewrite log_q_R, sA2, sB2. fold A B.
  cbn [et1 e2]. fold delta. fold K.
  rewrite ofZ_R. rewrite minus_IZR, plus_IZR, <- !INR_IZR_INZ.
  unfold c1. cbn [add sub mul zero one ofQ nln NumR]. rewrite Q2R_0, Rminus_0_r, ln_1.
  ring.
Qed.
End Refine2.

(* ---- statements in the form used by prop/C09.v ---- *)
Lemma eA_Aof e : Aof NumR (elam e) (emu e) (epsi e) = eA e.
Proof. apply Aof_R. Qed.
Lemma eB_Bof e pn : Bof NumR (elam e) (emu e) (epsi e) (eA e) (Q2R (erho e)) pn = eB e pn.
Proof. apply Bof_R. Qed.

Lemma C09_p0_master (e : epoch R) (pn tau : R) :
  wf_ep e -> 0 <= pn <= 1 -> 0 <= tau ->
  let A := Aof NumR (elam e) (emu e) (epsi e) in
  let B := Bof NumR (elam e) (emu e) (epsi e) A (Q2R (erho e)) pn in
  let p := fun t => p0form NumR (elam e) (emu e) (epsi e) A B (exp (A * t)) in
  is_derive p tau (emu e - (elam e + emu e + epsi e) * p tau + elam e * (p tau * p tau))
  /\ p 0 = (1 - Q2R (erho e)) * pn /\ 0 <= p tau <= 1.
Proof. intros. subst A B p. rewrite eA_Aof, eB_Bof. apply p0_master_l; assumption. Qed.

Lemma C09_q_master (e : epoch R) (pn tau : R) :
  wf_ep e -> 0 <= pn <= 1 -> 0 <= tau ->
  let A := Aof NumR (elam e) (emu e) (epsi e) in
  let B := Bof NumR (elam e) (emu e) (epsi e) A (Q2R (erho e)) pn in
  let p := fun t => p0form NumR (elam e) (emu e) (epsi e) A B (exp (A * t)) in
  let q := fun t => qform NumR B (exp (A * t)) in
  is_derive q tau ((- (elam e + emu e + epsi e) + 2 * elam e * p tau) * q tau)
  /\ q 0 = 1 /\ 0 < q tau.
Proof. intros. subst A B p q. rewrite eA_Aof, eB_Bof. apply q_master_l; assumption. Qed.

Lemma C09_boundary (e : epoch R) (r : list (epoch R)) :
  List.Forall wf_ep (e :: r) ->
  match back NumR (e :: r) with
  | (s :: _, p) => p_at NumR e s (et1 e) = (1 - Q2R (erho e)) * snd (back NumR r)
                   /\ sp s = p_at NumR e s (et0 e) /\ p = sp s /\ 0 <= p <= 1
  | _ => False
  end.
Proof.
  intros H. pose proof (boundary_wiring_l e r H) as Hb. pose proof (back_range _ H) as Hp.
  revert Hb Hp. cbn [back]. destruct (back NumR r) as [l pn]. cbn [snd].
  intros (H1 & H2) Hp. repeat split; auto; apply Hp.
Qed.

Lemma C09_split (l u p : R) (rho t0 t1 t2 : Q) (pre r : list (epoch R)) :
  let e  := mkEp l u p rho t0 t2 in
  let e1 := mkEp l u p 0%Q t0 t1 in
  let e2 := mkEp l u p rho t1 t2 in
  List.Forall wf_ep (pre ++ e1 :: e2 :: r) ->
  exists lpre s1 s2 s lr,
    fst (back NumR (pre ++ e1 :: e2 :: r)) = lpre ++ s1 :: s2 :: lr /\
    fst (back NumR (pre ++ e :: r)) = lpre ++ s :: lr /\
    List.length lpre = List.length pre /\
    snd (back NumR (pre ++ e1 :: e2 :: r)) = snd (back NumR (pre ++ e :: r)) /\
    sp s1 = sp s /\ sA s1 = sA s /\ sA s2 = sA s /\ sB s2 = sB s /\
    (forall tau, 0 <= tau ->
       let d := Q2R t2 - Q2R t1 in
       p0form NumR l u p (sA s1) (sB s1) (exp (sA s1 * tau))
         = p0form NumR l u p (sA s) (sB s) (exp (sA s * (tau + d))) /\
       qform NumR (sB s1) (exp (sA s1 * tau)) * qform NumR (sB s) (exp (sA s * d))
         = qform NumR (sB s) (exp (sA s * (tau + d)))).
Proof.
  intros e e1 e2 H.
  destruct (back_split l u p rho t0 t1 t2 pre r H) as (lpre & s1 & s2 & s & lr & E1 & E2 & E3 & E4 & E5).
  exists lpre, s1, s2, s, lr. repeat split; auto; try apply E5; auto.
  - rewrite !p0form_R. apply E5; auto.
  - rewrite !qform_R. apply E5; auto.
Qed.

Lemma C09_single (lam mu psi : R) (rho T : Q) survival tips ints :
  0 < lam -> 0 < mu -> 0 < psi -> 0 <= Q2R rho <= 1 -> 0 <= Q2R T ->
  log_prob NumR survival None [mkEp lam mu psi rho 0%Q T] tips ints
  = bd_log_prob NumR survival lam mu psi rho T tips ints.
Proof. intros. apply single_epoch_is_constant_l; assumption. Qed.

Lemma C09_example :
  List.Forall wf_ep [mkEp 3 (5/2) 2 0%Q 0%Q 3%Q; mkEp 2 1 (1/2) (1#5)%Q 3%Q (9#2)%Q;
                     mkEp 4 (1/2) 1 (1#100)%Q (9#2)%Q 6%Q].
Proof.
  repeat constructor; cbn [elam emu epsi erho et0 et1]; unfold Q2R; simpl; lra.
Qed.

Lemma C09_refine2 (l u p : R) (rho c T : Q) survival tips ints :
  0 < l -> 0 < u -> 0 < p -> 0 <= Q2R rho <= 1 -> 0 < Q2R c -> Q2R c < Q2R T ->
  List.Forall (fun h => 0 <= Q2R h) tips -> List.Forall (fun h => 0 <= Q2R h) ints ->
  log_prob NumR survival None [mkEp l u p 0%Q 0%Q c; mkEp l u p rho c T] tips ints
  = log_prob NumR survival None [mkEp l u p rho 0%Q T] tips ints.
Proof. intros. apply refine2_l; assumption. Qed.
