(* Proofs for C09 over the reals (NumR instance of model/M_bdsk.v):
   the closed forms p0 / q solve the birth-death master equations, boundary wiring of B_i,
   range of p, flow property (epoch refinement), single epoch = constant model. *)
From Coq Require Import QArith Reals Qreals List Bool Arith Lra Lia Psatz.
From Coquelicot Require Import Coquelicot.
From TT Require Import Num NumR Tree M_bdsk.
Import ListNotations.
Open Scope R_scope.

Lemma Q2R_2 : Q2R 2 = 2. Proof. unfold Q2R; simpl; lra. Qed.
Lemma Q2R_4 : Q2R 4 = 4. Proof. unfold Q2R; simpl; lra. Qed.
Lemma Q2R_0 : Q2R 0 = 0. Proof. unfold Q2R; simpl; lra. Qed.

(* ---- the closed forms as real functions of tau = time left to the end of the epoch ---- *)
Definition Df (B E : R) : R := E * (1 + B) + (1 - B).
Definition Pf (lam mu psi A B tau : R) : R :=
  ((lam + mu + psi) - A * ((exp (A * tau) * (1 + B) - (1 - B)) / Df B (exp (A * tau)))) / (2 * lam).
Definition Qf (A B tau : R) : R := 4 * exp (A * tau) / (Df B (exp (A * tau)) * Df B (exp (A * tau))).
Definition rad (lam mu psi : R) : R := (lam - mu - psi) * (lam - mu - psi) + 4 * lam * psi.
Definition Bf (lam mu psi A rho pnext : R) : R := ((1 - 2 * (1 - rho) * pnext) * lam + mu + psi) / A.

Lemma p0form_R lam mu psi A B tau :
  p0form NumR lam mu psi A B (exp (A * tau)) = Pf lam mu psi A B tau.
Proof. unfold p0form, uform, Pf, Df, c1, c2. cbn [add sub mul div one ofQ NumR]. rewrite Q2R_2. reflexivity. Qed.

Lemma qform_R A B tau : qform NumR B (exp (A * tau)) = Qf A B tau.
Proof. unfold qform, sqr, Qf, Df, c1, c4. cbn [add sub mul div one ofQ NumR]. rewrite Q2R_4. reflexivity. Qed.

Lemma Pf_derive lam mu psi A B tau :
  lam <> 0 -> A * A = (lam - mu - psi) * (lam - mu - psi) + 4 * lam * psi ->
  Df B (exp (A * tau)) <> 0 ->
  is_derive (fun t => Pf lam mu psi A B t) tau
            (mu - (lam + mu + psi) * Pf lam mu psi A B tau + lam * (Pf lam mu psi A B tau * Pf lam mu psi A B tau)).
Proof.
  intros Hl HA HD. unfold Pf, Df in *.
  auto_derive.
  - exact HD.
  - set (E := exp (A * tau)) in *. 
    field_simplify_eq; [|split; auto]. 
    assert (HA2 : A ^ 2 = (lam - mu - psi) * (lam - mu - psi) + 4 * lam * psi) by (rewrite <- HA; ring).
    rewrite HA2. ring.
Qed.

Lemma Qf_derive lam mu psi A B tau :
  lam <> 0 -> Df B (exp (A * tau)) <> 0 ->
  is_derive (fun t => Qf A B t) tau
            ((- (lam + mu + psi) + 2 * lam * Pf lam mu psi A B tau) * Qf A B tau).
Proof.
  intros Hl HD. unfold Qf, Pf, Df in *.
  auto_derive.
  - repeat split; auto.
  - set (E := exp (A * tau)) in *. field. split; auto.
Qed.

Lemma rad_pos lam mu psi : 0 < lam -> 0 < psi -> 0 < rad lam mu psi.
Proof.
  intros. unfold rad. pose proof (Rle_0_sqr (lam - mu - psi)) as H1. unfold Rsqr in H1.
  assert (0 < lam * psi) by (apply Rmult_lt_0_compat; auto). lra.
Qed.

Lemma A_facts lam mu psi :
  0 < lam -> 0 < mu -> 0 < psi ->
  let A := sqrt (rad lam mu psi) in
  0 < A /\ A * A = rad lam mu psi /\ - A <= lam - mu - psi <= A /\ A < lam + mu + psi.
Proof.
  intros Hl Hm Hp A. pose proof (rad_pos lam mu psi Hl Hp) as Hr.
  assert (HA : 0 < A) by (apply sqrt_lt_R0; exact Hr).
  assert (HAA : A * A = rad lam mu psi) by (apply sqrt_sqrt; lra).
  assert (Hlp : 0 < lam * psi) by (apply Rmult_lt_0_compat; auto).
  assert (Hlm : 0 < lam * mu) by (apply Rmult_lt_0_compat; auto).
  assert (H1 : (lam - mu - psi) * (lam - mu - psi) < A * A) by (rewrite HAA; unfold rad; lra).
  assert (H2 : A * A < (lam + mu + psi) * (lam + mu + psi)) by (rewrite HAA; unfold rad; nra).
  repeat split; auto.
  - destruct (Rle_dec (- A) (lam - mu - psi)); auto. exfalso. nra.
  - destruct (Rle_dec (lam - mu - psi) A); auto. exfalso. nra.
  - destruct (Rlt_dec A (lam + mu + psi)); auto. exfalso. nra.
Qed.

Lemma B_ge lam mu psi A c :
  0 < lam -> 0 < A -> lam - mu - psi <= A -> 0 <= c <= 1 ->
  -1 <= ((1 - 2 * c) * lam + mu + psi) / A.
Proof.
  intros Hl HA Hd Hc. apply Rmult_le_reg_r with A; auto.
  unfold Rdiv. rewrite Rmult_assoc, Rinv_l by lra.
  assert (c * lam <= 1 * lam) by (apply Rmult_le_compat_r; lra). lra.
Qed.

Lemma Df_ge2 B E : -1 <= B -> 1 <= E -> 2 <= Df B E.
Proof. intros. unfold Df. nra. Qed.

Lemma exp_ge1 x : 0 <= x -> 1 <= exp x.
Proof. intros H. destruct H as [H|<-]. assert (x <> 0) as Hx by lra; pose proof (exp_ineq1 x Hx); lra. rewrite exp_0; lra. Qed.

Lemma Pf_0 lam mu psi A rho pnext :
  lam <> 0 -> A <> 0 ->
  Pf lam mu psi A (Bf lam mu psi A rho pnext) 0 = (1 - rho) * pnext.
Proof.
  intros Hl HA. unfold Pf, Df, Bf. rewrite Rmult_0_r, exp_0. field.
  repeat split; auto. intro H0. apply HA. lra.
Qed.

Lemma Qf_0 A B : Qf A B 0 = 1.
Proof. unfold Qf, Df. rewrite Rmult_0_r, exp_0. replace (1 * (1 + B) + (1 - B)) with 2 by ring. field. Qed.

Lemma Qf_pos A B tau : Df B (exp (A * tau)) <> 0 -> 0 < Qf A B tau.
Proof.
  intros HD. unfold Qf. apply Rdiv_lt_0_compat. pose proof (exp_pos (A * tau)); lra.
  nra.
Qed.

(* range of p: with c = (1-rho) pnext in [0,1] *)
Lemma Pf_range lam mu psi A c E :
  0 < lam -> 0 < mu -> 0 < psi -> 0 < A -> A * A = rad lam mu psi ->
  0 <= c <= 1 -> 1 <= E ->
  let B := ((1 - 2 * c) * lam + mu + psi) / A in
  0 <= ((lam + mu + psi) - A * ((E * (1 + B) - (1 - B)) / Df B E)) / (2 * lam) <= 1.
Proof.
  intros Hl Hm Hp HA HAA Hc HE B.
  assert (HAB : A * B = (1 - 2 * c) * lam + mu + psi) by (unfold B; field; lra).
  assert (Hlp : 0 < lam * psi) by (apply Rmult_lt_0_compat; auto).
  assert (Hlm : 0 < lam * mu) by (apply Rmult_lt_0_compat; auto).
  assert (H1 : (lam - mu - psi) * (lam - mu - psi) < A * A) by (rewrite HAA; unfold rad; lra).
  assert (H2 : A * A < (lam + mu + psi) * (lam + mu + psi)) by (rewrite HAA; unfold rad; nra).
  assert (Hd : - A <= lam - mu - psi <= A).
  { split. destruct (Rle_dec (- A) (lam - mu - psi)); auto. exfalso. nra.
    destruct (Rle_dec (lam - mu - psi) A); auto. exfalso. nra. }
  assert (Hs : A < lam + mu + psi).
  { destruct (Rlt_dec A (lam + mu + psi)); auto. exfalso. nra. }
  assert (HB : -1 <= B) by (apply B_ge; auto; lra).
  assert (HD : 2 <= Df B E) by (apply Df_ge2; auto).
  set (sg := lam + mu + psi) in *.
  assert (Hcl : 0 <= c * lam <= lam).
  { split. apply Rmult_le_pos; lra. assert (c * lam <= 1 * lam) by (apply Rmult_le_compat_r; lra). lra. }
  assert (Hnum0 : 0 <= sg * Df B E - A * (E * (1 + B) - (1 - B))).
  { assert (Heq : sg * Df B E - A * (E * (1 + B) - (1 - B))
                  = (E - 1) * ((1 + B) * (sg - A)) + 2 * sg - 2 * (A * B)) by (unfold Df; ring).
    rewrite Heq, HAB.
    assert (0 <= (E - 1) * ((1 + B) * (sg - A))) by (apply Rmult_le_pos; [lra| apply Rmult_le_pos; lra]).
    unfold sg in *. lra. }
  assert (Hnum1 : sg * Df B E - A * (E * (1 + B) - (1 - B)) <= 2 * lam * Df B E).
  { assert (Heq : 2 * lam * Df B E - (sg * Df B E - A * (E * (1 + B) - (1 - B)))
                  = (E - 1) * ((1 + B) * (A + (lam - mu - psi))) + 2 * (A * B) + 2 * (lam - mu - psi))
      by (unfold Df, sg; ring).
    assert (0 <= (E - 1) * ((1 + B) * (A + (lam - mu - psi)))) by (apply Rmult_le_pos; [lra| apply Rmult_le_pos; lra]).
    rewrite HAB in Heq. unfold sg in *. lra. }
  assert (HlD : 0 < 2 * lam * Df B E) by (apply Rmult_lt_0_compat; lra).
  replace ((sg - A * ((E * (1 + B) - (1 - B)) / Df B E)) / (2 * lam))
    with ((sg * Df B E - A * (E * (1 + B) - (1 - B))) / (2 * lam * Df B E)) by (field; lra).
  split.
  - apply Rmult_le_pos; [lra|]. left. apply Rinv_0_lt_compat. exact HlD.
  - apply Rmult_le_reg_r with (2 * lam * Df B E); [exact HlD|].
    unfold Rdiv. rewrite Rmult_assoc, Rinv_l by lra. lra.
Qed.

(* flow property of the Riccati solution: an epoch cut delta before its end, rho = 0 at the cut *)
Lemma flow lam mu psi A B tau delta :
  lam <> 0 -> A <> 0 ->
  Df B (exp (A * delta)) <> 0 -> Df B (exp (A * (tau + delta))) <> 0 ->
  let B' := Bf lam mu psi A 0 (Pf lam mu psi A B delta) in
  Pf lam mu psi A B' tau = Pf lam mu psi A B (tau + delta) /\
  Qf A B' tau * Qf A B delta = Qf A B (tau + delta) /\
  Df B' (exp (A * tau)) * Df B (exp (A * delta)) = 2 * Df B (exp (A * (tau + delta))).
Proof.
  intros Hl HA HD1 HD2 B'.
  assert (Hexp : exp (A * (tau + delta)) = exp (A * tau) * exp (A * delta))
    by (rewrite Rmult_plus_distr_l; apply exp_plus).
  rewrite Hexp in *.
  assert (HB' : B' = (exp (A * delta) * (1 + B) - (1 - B)) / Df B (exp (A * delta))).
  { unfold B', Bf, Pf. field. repeat split; auto. }
  clearbody B'. subst B'.
  set (Et := exp (A * tau)) in *. set (Ed := exp (A * delta)) in *.
  assert (HD3 : Df ((Ed * (1 + B) - (1 - B)) / Df B Ed) Et * Df B Ed = 2 * Df B (Et * Ed)).
  { unfold Df in *. field. exact HD1. }
  assert (HD4 : Df ((Ed * (1 + B) - (1 - B)) / Df B Ed) Et <> 0).
  { intro E0. rewrite E0 in HD3. lra. }
  split; [|split; auto].
  - unfold Pf. fold Et Ed. rewrite Hexp. fold Et Ed. f_equal. f_equal. f_equal.
    unfold Df in *. field. repeat split; auto.
    intro E0. apply HD2. lra.
  - unfold Qf. fold Et Ed. rewrite Hexp. fold Et Ed.
    unfold Df in *. field. repeat split; auto.
    intro E0. apply HD2. lra.
Qed.
