(* C02: invariances of the likelihood to how the same tree and data are written down. *)
From Coq Require Import QArith Reals List Lra Lia Arith Bool Permutation.
Import ListNotations.
From TT Require Import Num NumR Tree M_like M_data M_like_data P_like.
Open Scope R_scope.

(* ---- finite double sums ---- *)
Lemma rsum_swap {A B} (f : A -> B -> R) la lb :
  rsum (map (fun a => rsum (map (fun b => f a b) lb)) la)
  = rsum (map (fun b => rsum (map (fun a => f a b) la)) lb).
Proof.
  induction la as [|a la IH]; cbn [map rsum].
  - induction lb as [|b lb IHb]; cbn; [reflexivity|]. rewrite <- IHb. lra.
  - rewrite IH. rewrite <- rsum_map_add. reflexivity.
Qed.
Lemma rsum_map_scale_r {A} c (f : A -> R) l : rsum (map (fun x => f x * c) l) = rsum (map f l) * c.
Proof. induction l as [|x l IH]; cbn; [lra|]. rewrite IH; lra. Qed.

Lemma vmul_length (a b : list R) : length a = length b -> length (vmul NumR a b) = length a.
Proof. revert b; induction a as [|x a IH]; intros [|y b] H; cbn in *; try lia. f_equal. apply IH. lia. Qed.

(* ---- the pulley principle (one step) ---- *)
Section Pulley.
Variable S : nat.
Notation lkR l k := (lk l k 0).
Notation sumS f := (rsum (map f (seq 0 S))).

Lemma ndot_vmul_sum (f a b : list R) :
  length f = S -> length a = S -> length b = S ->
  ndot NumR f (vmul NumR a b) = sumS (fun s => lkR f s * (lkR a s * lkR b s)).
Proof.
  intros Hf Ha Hb.
  assert (Hl : length (vmul NumR a b) = S) by (rewrite vmul_length; lia).
  rewrite (ndot_sum0 S) by assumption. apply rsum_map_ext. intros s _. rewrite lk_vmul. reflexivity.
Qed.

(* For a reversible family (pi_s Pa[s][x] = pi_x Pa[x][s]) with Pab = Pa . Pb (semigroup):
   sum_s pi_s (Pa u)_s (Pb v)_s = sum_x pi_x u_x (Pab v)_x.
   The site likelihood depends on the two root branch lengths only through their sum, and the
   root can slide along its edge down to either end. *)
Lemma pulley_l (pi u v : list R) (Pa Pb Pab : list (list R)) :
  length pi = S -> length u = S -> length v = S ->
  wf_mat S Pa -> wf_mat S Pb -> wf_mat S Pab ->
  (forall s x, (s < S)%nat -> (x < S)%nat -> lkR pi s * entry NumR Pa s x = lkR pi x * entry NumR Pa x s) ->
  (forall x y, (x < S)%nat -> (y < S)%nat ->
     entry NumR Pab x y = sumS (fun s => entry NumR Pa x s * entry NumR Pb s y)) ->
  ndot NumR pi (vmul NumR (matvec NumR Pa u) (matvec NumR Pb v))
  = ndot NumR pi (vmul NumR u (matvec NumR Pab v)).
Proof.
  intros Hpi Hu Hv HPa HPb HPab Hrev Hsemi.
  assert (La : length (matvec NumR Pa u) = S) by (unfold matvec; rewrite map_length; apply HPa).
  assert (Lb : length (matvec NumR Pb v) = S) by (unfold matvec; rewrite map_length; apply HPb).
  assert (Lab : length (matvec NumR Pab v) = S) by (unfold matvec; rewrite map_length; apply HPab).
  rewrite !ndot_vmul_sum by assumption.
  (* left: expand both matrix-vector products *)
  transitivity (sumS (fun s => sumS (fun x => sumS (fun y =>
                  lkR pi s * entry NumR Pa s x * lkR u x * (entry NumR Pb s y * lkR v y))))).
  { apply rsum_map_ext. intros s Hs. apply in_seq in Hs.
    rewrite (lk_matvec S Pa u s) by (auto; lia). rewrite (lk_matvec S Pb v s) by (auto; lia).
    rewrite <- rsum_map_scale_r, <- rsum_map_scale.
    apply rsum_map_ext. intros x _. rewrite <- rsum_map_scale. 
    rewrite <- rsum_map_scale. apply rsum_map_ext. intros y _. lra. }
  (* exchange the sums over s and x, use reversibility *)
  rewrite rsum_swap.
  apply rsum_map_ext. intros x Hx. apply in_seq in Hx.
  transitivity (sumS (fun s => sumS (fun y =>
                  lkR pi x * entry NumR Pa x s * lkR u x * (entry NumR Pb s y * lkR v y)))).
  { apply rsum_map_ext. intros s Hs. apply in_seq in Hs.
    apply rsum_map_ext. intros y _. rewrite Hrev by lia. reflexivity. }
  (* right-hand side: expand Pab v with the semigroup property *)
  rewrite (lk_matvec S Pab v x) by (auto; lia).
  rewrite rsum_swap. rewrite <- !rsum_map_scale.
  apply rsum_map_ext. intros y Hy. apply in_seq in Hy. rewrite Hsemi by lia.
  rewrite <- rsum_map_scale_r, <- !rsum_map_scale. apply rsum_map_ext. intros s _. lra.
Qed.
End Pulley.

(* ---- sequences are matched to taxa by NAME: any permutation of the sequence list ---- *)
Lemma assoc_perm x (l l' : list (nat * list nat)) :
  NoDup (map fst l) -> Permutation l l' -> assoc x l = assoc x l'.
Proof.
  intros Hnd Hp. revert Hnd. induction Hp as [| [k v] l l' Hp IH | [k1 v1] [k2 v2] l | l1 l2 l3 H1 IH1 H2 IH2]; intros Hnd.
  - reflexivity.
  - cbn. destruct (Nat.eqb x k); [reflexivity|]. apply IH. inversion Hnd; assumption.
  - cbn. destruct (Nat.eqb_spec x k1) as [E1|]; destruct (Nat.eqb_spec x k2) as [E2|]; try reflexivity.
    exfalso. subst. cbn in Hnd. inversion Hnd as [|? ? Hin _]. apply Hin. left; reflexivity.
  - rewrite IH1 by assumption. apply IH2.
    eapply Permutation_NoDup; [|exact Hnd]. apply Permutation_map. exact H1.
Qed.

Lemma rows_perm_sequences taxa seqs seqs' :
  NoDup (map fst seqs) -> Permutation seqs seqs' ->
  rows_in_taxa_order taxa seqs = rows_in_taxa_order taxa seqs'.
Proof. intros Hnd Hp. unfold rows_in_taxa_order. apply map_ext. intros x. apply assoc_perm; assumption. Qed.

(* ---- columns: any permutation (and merging of identical columns) ---- *)
Lemma columns_sum_perm {C} (f : C -> R) cols cols' :
  Permutation cols cols' -> rsum (map f cols) = rsum (map f cols').
Proof. intros H. apply rsum_perm. apply Permutation_map. exact H. Qed.
