(* Free theorems (Paramcoq): the NumI run of every objective / density term of M_vi encloses its
   NumR value, whenever the interval inputs enclose the real inputs. *)
From Coq Require Import QArith Reals List.
From Param Require Import Param.
From TT Require Import Num NumR NumI ParamI M_vi.

Parametricity Recursive elbo qualified.
Parametricity Recursive elbo_multi qualified.
Parametricity Recursive elbo_entropy qualified.
Parametricity Recursive vr qualified.
Parametricity Recursive vr_multi qualified.
Parametricity Recursive cubo qualified.
Parametricity Recursive cubo_multi qualified.
Parametricity Recursive klpq qualified.
Parametricity Recursive klpq_multi qualified.
Parametricity Recursive ge_lp qualified.
Parametricity Recursive ge_lq qualified.
Parametricity Recursive ge_logml qualified.
Parametricity Recursive gp_lp qualified.
Parametricity Recursive gp_lq qualified.
Parametricity Recursive gp_logml qualified.
Parametricity Recursive nn_lp qualified.
Parametricity Recursive nn_lq qualified.
Parametricity Recursive nn_logml qualified.
Parametricity Recursive bb_lp qualified.
Parametricity Recursive bb_lq qualified.
Parametricity Recursive bb_logml qualified.
Parametricity Recursive ge_exp_lp qualified.
Parametricity Recursive ge_exp_lq qualified.
Parametricity Recursive bb_sig_lp qualified.
Parametricity Recursive bb_sig_lq qualified.
Parametricity Recursive nn_aff_lp qualified.
Parametricity Recursive nn_aff_lq qualified.
Parametricity Recursive lnn_lp qualified.

Notation lrel := (list_R R I.type rel).
Notation llrel := (list_R (list R) (list I.type) (list_R R I.type rel)).

Lemma elbo_enclosed lp LP lq LQ : lrel lp LP -> lrel lq LQ ->
  rel (elbo NumR lp lq) (elbo NumI LP LQ).
Proof. intros Hp Hq. exact (TT_o_M_vi_o_elbo_R R I.type rel NumR NumI NumRI_R lp LP Hp lq LQ Hq). Qed.

Lemma elbo_multi_enclosed lp LP lq LQ : llrel lp LP -> llrel lq LQ ->
  rel (elbo_multi NumR lp lq) (elbo_multi NumI LP LQ).
Proof. intros Hp Hq. exact (TT_o_M_vi_o_elbo_multi_R R I.type rel NumR NumI NumRI_R lp LP Hp lq LQ Hq). Qed.

Lemma elbo_entropy_enclosed lp LP h H : lrel lp LP -> rel h H ->
  rel (elbo_entropy NumR lp h) (elbo_entropy NumI LP H).
Proof. intros Hp Hh. exact (TT_o_M_vi_o_elbo_entropy_R R I.type rel NumR NumI NumRI_R lp LP Hp h H Hh). Qed.

Lemma vr_enclosed a lp LP lq LQ : lrel lp LP -> lrel lq LQ ->
  rel (vr NumR a lp lq) (vr NumI a LP LQ).
Proof. intros Hp Hq. exact (TT_o_M_vi_o_vr_R R I.type rel NumR NumI NumRI_R a a (Q_R_refl a) lp LP Hp lq LQ Hq). Qed.

Lemma vr_multi_enclosed a lp LP lq LQ : llrel lp LP -> llrel lq LQ ->
  rel (vr_multi NumR a lp lq) (vr_multi NumI a LP LQ).
Proof. intros Hp Hq. exact (TT_o_M_vi_o_vr_multi_R R I.type rel NumR NumI NumRI_R a a (Q_R_refl a) lp LP Hp lq LQ Hq). Qed.

Lemma cubo_enclosed n lp LP lq LQ : lrel lp LP -> lrel lq LQ ->
  rel (cubo NumR n lp lq) (cubo NumI n LP LQ).
Proof. intros Hp Hq. exact (TT_o_M_vi_o_cubo_R R I.type rel NumR NumI NumRI_R n n (Q_R_refl n) lp LP Hp lq LQ Hq). Qed.

Lemma cubo_multi_enclosed n lp LP lq LQ : llrel lp LP -> llrel lq LQ ->
  rel (cubo_multi NumR n lp lq) (cubo_multi NumI n LP LQ).
Proof. intros Hp Hq. exact (TT_o_M_vi_o_cubo_multi_R R I.type rel NumR NumI NumRI_R n n (Q_R_refl n) lp LP Hp lq LQ Hq). Qed.

Lemma klpq_enclosed lp LP lq LQ : lrel lp LP -> lrel lq LQ ->
  rel (klpq NumR lp lq) (klpq NumI LP LQ).
Proof. intros Hp Hq. exact (TT_o_M_vi_o_klpq_R R I.type rel NumR NumI NumRI_R lp LP Hp lq LQ Hq). Qed.

Lemma klpq_multi_enclosed lp LP lq LQ : llrel lp LP -> llrel lq LQ ->
  rel (klpq_multi NumR lp lq) (klpq_multi NumI LP LQ).
Proof. intros Hp Hq. exact (TT_o_M_vi_o_klpq_multi_R R I.type rel NumR NumI NumRI_R lp LP Hp lq LQ Hq). Qed.

(* densities: one representative statement per pair (the others are the same free theorem) *)
Lemma ge_lp_enclosed a A b B g G xs XS z Z :
  rel a A -> rel b B -> rel g G -> lrel xs XS -> rel z Z ->
  rel (ge_lp NumR a b g xs z) (ge_lp NumI A B G XS Z).
Proof.
  intros Ha Hb Hg Hx Hz.
  exact (TT_o_M_vi_o_ge_lp_R R I.type rel NumR NumI NumRI_R a A Ha b B Hb g G Hg xs XS Hx z Z Hz).
Qed.

Lemma nn_lp_enclosed k K m0 M0 s0 S0 sg SG xs XS z Z :
  rel k K -> rel m0 M0 -> rel s0 S0 -> rel sg SG -> lrel xs XS -> rel z Z ->
  rel (nn_lp NumR k m0 s0 sg xs z) (nn_lp NumI K M0 S0 SG XS Z).
Proof.
  intros Hk Hm Hs Hg Hx Hz.
  exact (TT_o_M_vi_o_nn_lp_R R I.type rel NumR NumI NumRI_R k K Hk m0 M0 Hm s0 S0 Hs sg SG Hg xs XS Hx z Z Hz).
Qed.

Lemma bb_sig_lp_enclosed a A b B lB LB n N k K lC LC u U :
  rel a A -> rel b B -> rel lB LB -> rel n N -> rel k K -> rel lC LC -> rel u U ->
  rel (bb_sig_lp NumR a b lB n k lC u) (bb_sig_lp NumI A B LB N K LC U).
Proof.
  intros Ha Hb HB Hn Hk HC Hu.
  exact (TT_o_M_vi_o_bb_sig_lp_R R I.type rel NumR NumI NumRI_R a A Ha b B Hb lB LB HB n N Hn k K Hk lC LC HC u U Hu).
Qed.
