(* Volume preservation with real derivatives (Coquelicot), one degree of freedom, ANY differentiable
   gradient g (derivative g'): the implemented leapfrog map (q,p) -> (q',p') has partial derivatives
   a = dq'/dq, b = dq'/dp, c = dp'/dq, d = dp'/dp with a d - b c = 1 at every point, for every step
   size, inverse mass and number of steps.  The chain rule is Coquelicot's [is_derive_comp]; nothing is
   left informal in this dimension. *)
From Coq Require Import QArith Reals List Lra.
From Coquelicot Require Import Coquelicot.
Import ListNotations.
From TT Require Import Num NumR M_leapfrog P_leapfrog.
Open Scope R_scope.

Definition M2 := (R * R * R * R)%type.            (* ((a, b), (c, d)) row-wise *)
Definition ma (m : M2) := fst (fst (fst m)).
Definition mb (m : M2) := snd (fst (fst m)).
Definition mc (m : M2) := snd (fst m).
Definition md (m : M2) := snd m.
Definition mmul (m2 m1 : M2) : M2 :=
  (ma m2 * ma m1 + mb m2 * mc m1, ma m2 * mb m1 + mb m2 * md m1,
   mc m2 * ma m1 + md m2 * mc m1, mc m2 * mb m1 + md m2 * md m1).
Definition mdet (m : M2) : R := ma m * md m - mb m * mc m.
Lemma mdet_mmul m2 m1 : mdet (mmul m2 m1) = mdet m2 * mdet m1.
Proof. unfold mdet, mmul, ma, mb, mc, md; simpl. ring. Qed.

(* S has Jacobian matrix J: along every differentiable curve (Q,P) the image curve is differentiable
   with velocity J (dq, dp) *)
Definition has_jac (S : R * R -> R * R) (J : R * R -> M2) : Prop :=
  forall (Q P : R -> R) (t0 dq dp : R), is_derive Q t0 dq -> is_derive P t0 dp ->
    is_derive (fun t => fst (S (Q t, P t))) t0 (ma (J (Q t0, P t0)) * dq + mb (J (Q t0, P t0)) * dp) /\
    is_derive (fun t => snd (S (Q t, P t))) t0 (mc (J (Q t0, P t0)) * dq + md (J (Q t0, P t0)) * dp).

Definition vol (S : R * R -> R * R) : Prop :=
  exists J, has_jac S J /\ forall x, mdet (J x) = 1.

(* chain rule for maps of the plane *)
Lemma has_jac_comp S1 J1 S2 J2 :
  has_jac S1 J1 -> has_jac S2 J2 ->
  has_jac (fun x => S2 (S1 x)) (fun x => mmul (J2 (S1 x)) (J1 x)).
Proof.
  intros H1 H2 Q P t0 dq dp HQ HP.
  destruct (H1 Q P t0 dq dp HQ HP) as [D1 D2].
  destruct (H2 (fun t => fst (S1 (Q t, P t))) (fun t => snd (S1 (Q t, P t))) t0 _ _ D1 D2) as [E1 E2].
  cbn beta in E1, E2. rewrite <- surjective_pairing in E1, E2.
  split.
  - eapply is_derive_ext in E1; [|intros t; rewrite <- surjective_pairing; reflexivity].
    replace (ma (mmul (J2 (S1 (Q t0, P t0))) (J1 (Q t0, P t0))) * dq +
             mb (mmul (J2 (S1 (Q t0, P t0))) (J1 (Q t0, P t0))) * dp)
      with (ma (J2 (S1 (Q t0, P t0))) * (ma (J1 (Q t0, P t0)) * dq + mb (J1 (Q t0, P t0)) * dp) +
            mb (J2 (S1 (Q t0, P t0))) * (mc (J1 (Q t0, P t0)) * dq + md (J1 (Q t0, P t0)) * dp))
      by (unfold mmul, ma, mb, mc, md; simpl; ring).
    exact E1.
  - eapply is_derive_ext in E2; [|intros t; rewrite <- surjective_pairing; reflexivity].
    replace (mc (mmul (J2 (S1 (Q t0, P t0))) (J1 (Q t0, P t0))) * dq +
             md (mmul (J2 (S1 (Q t0, P t0))) (J1 (Q t0, P t0))) * dp)
      with (mc (J2 (S1 (Q t0, P t0))) * (ma (J1 (Q t0, P t0)) * dq + mb (J1 (Q t0, P t0)) * dp) +
            md (J2 (S1 (Q t0, P t0))) * (mc (J1 (Q t0, P t0)) * dq + md (J1 (Q t0, P t0)) * dp))
      by (unfold mmul, ma, mb, mc, md; simpl; ring).
    exact E2.
Qed.

Lemma vol_comp S1 S2 : vol S1 -> vol S2 -> vol (fun x => S2 (S1 x)).
Proof.
  intros [J1 [H1 D1]] [J2 [H2 D2]].
  exists (fun x => mmul (J2 (S1 x)) (J1 x)). split.
  - apply has_jac_comp; auto.
  - intros x. rewrite mdet_mmul, D1, D2. ring.
Qed.

Lemma vol_id : vol (fun x => x).
Proof.
  exists (fun _ => (1, 0, 0, 1)). split.
  - intros Q P t0 dq dp HQ HP. unfold ma, mb, mc, md; simpl. split.
    + replace (1 * dq + 0 * dp) with dq by ring. exact HQ.
    + replace (0 * dq + 1 * dp) with dp by ring. exact HP.
  - intros x. unfold mdet, ma, mb, mc, md; simpl. ring.
Qed.

Lemma vol_ext S S' : (forall x, S x = S' x) -> vol S -> vol S'.
Proof.
  intros E [J [H D]]. exists J. split; auto.
  intros Q P t0 dq dp HQ HP. destruct (H Q P t0 dq dp HQ HP) as [A B]. split.
  - eapply is_derive_ext; [|exact A]. intros t; cbn beta. rewrite E. reflexivity.
  - eapply is_derive_ext; [|exact B]. intros t; cbn beta. rewrite E. reflexivity.
Qed.

Lemma vol_iter S L : vol S -> vol (iter L S).
Proof.
  intros HS. induction L.
  - apply (vol_ext (fun x => x)); [reflexivity | apply vol_id].
  - apply (vol_ext (fun x => iter L S (S x))); [reflexivity|]. apply vol_comp; auto.
Qed.

Section Dim1.
Variables (mi : R) (g g' : R -> R).
Hypothesis Hg : forall x, is_derive g x (g' x).

(* the two shears on scalars *)
Definition skick (c : R) (x : R * R) : R * R := (fst x, snd x - c * g (fst x)).
Definition sdrift (c : R) (x : R * R) : R * R := (fst x + c * (mi * snd x), snd x).

Lemma vol_skick c : vol (skick c).
Proof.
  exists (fun x => (1, 0, - c * g' (fst x), 1)). split.
  - intros Q P t0 dq dp HQ HP. unfold ma, mb, mc, md, skick; cbn [fst snd]. split.
    + replace (1 * dq + 0 * dp) with dq by ring. exact HQ.
    + replace (- c * g' (Q t0) * dq + 1 * dp) with (minus dp (scal c (scal dq (g' (Q t0)))))
        by (unfold Hierarchy.minus, Hierarchy.plus, Hierarchy.opp, Hierarchy.scal; simpl; unfold Hierarchy.mult; simpl; ring).
      apply (is_derive_minus (V := R_NormedModule)); [exact HP|].
      apply (is_derive_scal (fun t => g (Q t))).
      apply (is_derive_comp g Q); [apply Hg | exact HQ].
  - intros x. unfold mdet, ma, mb, mc, md; simpl. ring.
Qed.

Lemma vol_sdrift c : vol (sdrift c).
Proof.
  exists (fun x => (1, c * mi, 0, 1)). split.
  - intros Q P t0 dq dp HQ HP. unfold ma, mb, mc, md, sdrift; cbn [fst snd]. split.
    + replace (1 * dq + c * mi * dp) with (plus dq (scal c (scal mi dp)))
        by (unfold Hierarchy.plus, Hierarchy.scal; simpl; unfold Hierarchy.mult; simpl; ring).
      apply (is_derive_plus (V := R_NormedModule)); [exact HQ|].
      apply (is_derive_scal (fun t => mi * P t)).
      apply (is_derive_scal P). exact HP.
    + replace (0 * dq + 1 * dp) with dp by ring. exact HP.
  - intros x. unfold mdet, ma, mb, mc, md; simpl. ring.
Qed.

Variable eps : R.

(* the implemented arrangement on scalars: kick(eps/2); L x [drift(eps); kick(eps)]; kick(-eps/2) *)
Definition sleap (L : nat) (x : R * R) : R * R :=
  skick (- (eps / 2)) (iter L (fun y => skick eps (sdrift eps y)) (skick (eps / 2) x)).

Lemma vol_sleap L : vol (sleap L).
Proof.
  unfold sleap.
  apply (vol_comp (fun x => iter L (fun y => skick eps (sdrift eps y)) (skick (eps / 2) x))
                  (skick (- (eps / 2)))); [|apply vol_skick].
  apply (vol_comp (skick (eps / 2)) (iter L (fun y => skick eps (sdrift eps y)))); [apply vol_skick|].
  apply vol_iter. apply (vol_comp (sdrift eps) (skick eps)); [apply vol_sdrift | apply vol_skick].
Qed.

(* the model on one-dimensional vectors is this scalar map *)
Definition lift (x : R * R) : list R * list R := ([fst x], [snd x]).
Lemma kick_lift c x : kick NumR (map g) c (lift x) = lift (skick c x).
Proof. destruct x; reflexivity. Qed.
Lemma drift_lift c x : drift NumR (Diag [mi]) c (lift x) = lift (sdrift c x).
Proof. destruct x; reflexivity. Qed.
Lemma leapfrog_lift L x :
  leapfrog NumR eps (Diag [mi]) (map g) L (lift x) = lift (sleap L x).
Proof.
  rewrite leapfrog_shears. unfold sleap. rewrite half_R, kick_lift.
  assert (H : forall k y, iter k (fun y => kick NumR (map g) eps (drift NumR (Diag [mi]) eps y)) (lift y)
                          = lift (iter k (fun y => skick eps (sdrift eps y)) y)).
  { induction k; intros; simpl; auto. rewrite drift_lift, kick_lift. apply IHk. }
  unfold kd. rewrite H, kick_lift. reflexivity.
Qed.

Definition Fq (L : nat) (q p : R) : R := nth 0 (fst (leapfrog NumR eps (Diag [mi]) (map g) L ([q], [p]))) 0.
Definition Fp (L : nat) (q p : R) : R := nth 0 (snd (leapfrog NumR eps (Diag [mi]) (map g) L ([q], [p]))) 0.

Lemma leapfrog_jacobian_det_one_dim1 L q p :
  exists a b c d,
    is_derive (fun t => Fq L t p) q a /\ is_derive (fun t => Fq L q t) p b /\
    is_derive (fun t => Fp L t p) q c /\ is_derive (fun t => Fp L q t) p d /\
    a * d - b * c = 1.
Proof.
  destruct (vol_sleap L) as [J [HJ DJ]].
  exists (ma (J (q, p))), (mb (J (q, p))), (mc (J (q, p))), (md (J (q, p))).
  assert (EFq : forall u v, Fq L u v = fst (sleap L (u, v))).
  { intros. unfold Fq. change ([u], [v]) with (lift (u, v)). rewrite leapfrog_lift. reflexivity. }
  assert (EFp : forall u v, Fp L u v = snd (sleap L (u, v))).
  { intros. unfold Fp. change ([u], [v]) with (lift (u, v)). rewrite leapfrog_lift. reflexivity. }
  (* partial derivatives in q: the curve t -> (t, p) at t = q *)
  destruct (HJ (fun t => t) (fun _ => p) q 1 0 (is_derive_id q) (is_derive_const p q)) as [A C].
  (* partial derivatives in p: the curve t -> (q, t) at t = p *)
  destruct (HJ (fun _ => q) (fun t => t) p 0 1 (is_derive_const q p) (is_derive_id p)) as [B D].
  cbn beta in A, B, C, D.
  split; [|split; [|split; [|split]]].
  - eapply is_derive_ext; [intros t; symmetry; apply EFq|].
    replace (ma (J (q, p))) with (ma (J (q, p)) * 1 + mb (J (q, p)) * 0) by ring. exact A.
  - eapply is_derive_ext; [intros t; symmetry; apply EFq|].
    replace (mb (J (q, p))) with (ma (J (q, p)) * 0 + mb (J (q, p)) * 1) by ring. exact B.
  - eapply is_derive_ext; [intros t; symmetry; apply EFp|].
    replace (mc (J (q, p))) with (mc (J (q, p)) * 1 + md (J (q, p)) * 0) by ring. exact C.
  - eapply is_derive_ext; [intros t; symmetry; apply EFp|].
    replace (md (J (q, p))) with (mc (J (q, p)) * 0 + md (J (q, p)) * 1) by ring. exact D.
  - apply (DJ (q, p)).
Qed.
End Dim1.
