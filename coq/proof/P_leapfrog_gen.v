(* C16 — the integrator of the SOURCE is the model.
   gen/G_leapfrog.v holds the four arithmetic expressions of LeapfrogIntegrator.__call__ regenerated from
   torchtree/inference/hmc/integrator.py on every run (translator T9, which also checks the order of the statements:
   new position, gradient AT the new position, momentum).  Here: the integrator assembled from these expressions in
   that order is model/M_leapfrog.v's [leapfrog], for every number type, step size, mass matrix (diagonal or dense),
   gradient function, number of steps and starting point. *)
From Coq Require Import QArith List.
Import ListNotations.
From TT Require Import Num M_leapfrog G_leapfrog.

Section GenIsModel.
Context {T : Type} (N : Num T).
Variable eps : T.
Variable Minv : mass T.
Variable grad : list T -> list T.

(* the loop and the method in the statement order T9 recognises, with the regenerated arithmetic *)
Fixpoint g_lf_loop (L : nat) (q p dU : list T) : list T * list T * list T :=
  match L with
  | O => (q, p, dU)
  | S k =>
      let q' := g_position N eps Minv q p in             (* params = ... *)
      let dU' := grad q' in                               (* set_tensor; U = model(); U.backward(); dU = -grad *)
      g_lf_loop k q' (vsub N p (g_loop N eps p dU')) dU'  (* momentum -= ... *)
  end.

Definition g_leapfrog (L : nat) (qp : list T * list T) : list T * list T :=
  let dU0 := grad (fst qp) in
  let p0 := vsub N (snd qp) (g_first N eps (snd qp) dU0) in
  match g_lf_loop L (fst qp) p0 dU0 with
  | (q, p, dU) => (q, vadd N p (g_last N eps p dU))
  end.

Lemma g_first_is_model p dU : g_first N eps p dU = vscale N (half N eps) dU.
Proof. reflexivity. Qed.
Lemma g_last_is_model p dU : g_last N eps p dU = vscale N (half N eps) dU.
Proof. reflexivity. Qed.
Lemma g_loop_is_model p dU : g_loop N eps p dU = vscale N eps dU.
Proof. reflexivity. Qed.
Lemma g_position_is_model q p : g_position N eps Minv q p = vadd N q (drift_vec N eps Minv p).
Proof. destruct Minv; reflexivity. Qed.

Lemma g_lf_loop_is_model : forall L q p dU, g_lf_loop L q p dU = lf_loop N eps Minv grad L q p dU.
Proof.
  induction L as [|k IH]; intros q p dU; cbn [g_lf_loop lf_loop]; [reflexivity|].
  rewrite g_position_is_model, g_loop_is_model. apply IH.
Qed.

Theorem g_leapfrog_is_model : forall L qp, g_leapfrog L qp = leapfrog N eps Minv grad L qp.
Proof.
  intros L qp. unfold g_leapfrog, leapfrog. rewrite g_first_is_model, g_lf_loop_is_model.
  destruct (lf_loop N eps Minv grad L (fst qp) (vsub N (snd qp) (vscale N (half N eps) (grad (fst qp)))) (grad (fst qp)))
    as [[q p] dU].
  rewrite g_last_is_model. reflexivity.
Qed.
End GenIsModel.
Print Assumptions g_leapfrog_is_model.
