(* Lemmas about the leapfrog model (model/M_leapfrog.v) over the reals.  Only ring properties of R
   are used in the algebraic part (any function [grad], any dimension, any number of steps). *)
From Coq Require Import QArith Reals List Lra Lia Psatz.
Import ListNotations.
From TT Require Import Num NumR M_leapfrog.
Open Scope R_scope.

Notation vec := (list R).
Notation state := (list R * list R)%type.

(* shapes agree, as torch requires: Minv is n (x n), grad maps n-vectors to n-vectors *)
Definition wf_minv (n : nat) (Minv : mass R) : Prop :=
  match Minv with Diag d => length d = n | Dense m => length m = n end.
Definition wf_grad (n : nat) (grad : vec -> vec) : Prop :=
  forall q, length q = n -> length (grad q) = n.
Definition wfs (n : nat) (x : state) : Prop := length (fst x) = n /\ length (snd x) = n.

(* ------------------------------------------------------------------ vectors *)
Ltac vu := unfold vadd, vsub, vmul, vscale, vopp, matvec in *.
Lemma vzip_length f (a b : vec) : length a = length b -> length (vzip f a b) = length a.
Proof. revert b; induction a; destruct b; simpl; intros; try lia. f_equal. apply IHa. lia. Qed.
Lemma vscale_length c (v : vec) : length (vscale NumR c v) = length v.
Proof. apply map_length. Qed.
Lemma vopp_length (v : vec) : length (vopp NumR v) = length v.
Proof. apply map_length. Qed.
Lemma vadd_length (a b : vec) : length a = length b -> length (vadd NumR a b) = length a.
Proof. apply vzip_length. Qed.
Lemma vsub_length (a b : vec) : length a = length b -> length (vsub NumR a b) = length a.
Proof. apply vzip_length. Qed.
Lemma minv_apply_length n Minv (p : vec) :
  wf_minv n Minv -> length p = n -> length (minv_apply NumR Minv p) = n.
Proof.
  destruct Minv; simpl; intros.
  - unfold vmul. rewrite vzip_length; lia.
  - unfold matvec. rewrite map_length. assumption.
Qed.

Lemma vsub_vsub_scale (p g : vec) a b :
  vsub NumR (vsub NumR p (vscale NumR a g)) (vscale NumR b g) = vsub NumR p (vscale NumR (a + b) g).
Proof. vu. revert g; induction p; destruct g; simpl; auto. f_equal; [ring | apply IHp]. Qed.
Lemma vsub_scale_0 (p g : vec) : length p = length g -> vsub NumR p (vscale NumR 0 g) = p.
Proof. vu. revert g; induction p; destruct g; simpl; intros; try lia; auto. f_equal; [ring | apply IHp; lia]. Qed.
Lemma vadd_as_vsub (p g : vec) c : vadd NumR p (vscale NumR c g) = vsub NumR p (vscale NumR (- c) g).
Proof. vu. revert g; induction p; destruct g; simpl; auto. f_equal; [ring | apply IHp]. Qed.
Lemma vadd_vadd_scale (q v : vec) a b :
  vadd NumR (vadd NumR q (vscale NumR a v)) (vscale NumR b v) = vadd NumR q (vscale NumR (a + b) v).
Proof. vu. revert v; induction q; destruct v; simpl; auto. f_equal; [ring | apply IHq]. Qed.
Lemma vadd_scale_0 (q v : vec) : length q = length v -> vadd NumR q (vscale NumR 0 v) = q.
Proof. vu. revert v; induction q; destruct v; simpl; intros; try lia; auto. f_equal; [ring | apply IHq; lia]. Qed.
Lemma vopp_vopp (p : vec) : vopp NumR (vopp NumR p) = p.
Proof. vu. induction p; simpl; auto. f_equal; [ring | assumption]. Qed.
Lemma vscale_vopp c (v : vec) : vscale NumR c (vopp NumR v) = vscale NumR (- c) v.
Proof. vu. induction v; simpl; auto. f_equal; [ring | assumption]. Qed.
Lemma vopp_vsub_vopp (p g : vec) c :
  vopp NumR (vsub NumR (vopp NumR p) (vscale NumR c g)) = vsub NumR p (vscale NumR (- c) g).
Proof. vu. revert g; induction p; destruct g; simpl; auto. f_equal; [ring | apply IHp]. Qed.

Lemma ndot_vopp (row p : vec) : ndot NumR row (vopp NumR p) = - ndot NumR row p.
Proof. vu. revert p; induction row; destruct p; simpl; try ring. rewrite IHrow. ring. Qed.

(* the inverse mass matrix acts linearly; in particular Minv (-p) = - Minv p *)
Lemma minv_apply_odd Minv (p : vec) : minv_apply NumR Minv (vopp NumR p) = vopp NumR (minv_apply NumR Minv p).
Proof.
  destruct Minv as [d|m]; simpl; vu.
  - revert p; induction d; destruct p; simpl; auto. f_equal; [ring | apply IHd].
  - induction m; simpl; auto. f_equal; [apply ndot_vopp | assumption].
Qed.

(* python's (eps*Minv)*p  and  eps*(Minv@p)  are both  eps * (Minv p) *)
Lemma drift_vec_eq eps Minv (p : vec) : drift_vec NumR eps Minv p = vscale NumR eps (minv_apply NumR Minv p).
Proof.
  destruct Minv as [d|m]; simpl; vu; auto.
  revert p; induction d; destruct p; simpl; auto. f_equal; [ring | apply IHd].
Qed.

Lemma half_R eps : half NumR eps = eps / 2.
Proof. unfold half; simpl; unfold Q2R; simpl. field. Qed.

(* ------------------------------------------------------------------ shears *)
Section Shears.
Variable eps : R.
Variable Minv : mass R.
Variable grad : vec -> vec.
Variable n : nat.
Hypothesis Hm : wf_minv n Minv.
Hypothesis Hg : wf_grad n grad.

Notation kickR := (kick NumR grad).
Notation driftR := (drift NumR Minv).

Lemma kick_wfs c x : wfs n x -> wfs n (kickR c x).
Proof.
  intros [Hq Hp]; split; simpl; auto.
  rewrite vsub_length; auto. rewrite vscale_length, Hg; auto.
Qed.
Lemma drift_wfs c x : wfs n x -> wfs n (driftR c x).
Proof.
  intros [Hq Hp]; split; simpl; auto.
  rewrite vadd_length; auto. rewrite vscale_length, (minv_apply_length n); auto.
Qed.
Lemma flip_wfs x : wfs n x -> wfs n (flip NumR x).
Proof. intros [Hq Hp]; split; simpl; auto. rewrite vopp_length; auto. Qed.

Lemma kick_kick a b x : kickR b (kickR a x) = kickR (a + b) x.
Proof. destruct x as [q p]; unfold kick; simpl. f_equal. apply vsub_vsub_scale. Qed.
Lemma kick_0 x : wfs n x -> kickR 0 x = x.
Proof.
  destruct x as [q p]; intros [Hq Hp]; unfold kick; simpl in *. f_equal.
  apply vsub_scale_0. rewrite Hg; auto.
Qed.
Lemma drift_drift a b x : driftR b (driftR a x) = driftR (a + b) x.
Proof. destruct x as [q p]; unfold drift; simpl. f_equal. apply vadd_vadd_scale. Qed.
Lemma drift_0 x : wfs n x -> driftR 0 x = x.
Proof.
  destruct x as [q p]; intros [Hq Hp]; unfold drift; simpl in *. f_equal.
  apply vadd_scale_0. rewrite (minv_apply_length n); auto.
Qed.
Lemma kick_inv c x : wfs n x -> kickR (- c) (kickR c x) = x.
Proof. intros. rewrite kick_kick. replace (c + - c) with 0 by ring. apply kick_0; auto. Qed.
Lemma drift_inv c x : wfs n x -> driftR (- c) (driftR c x) = x.
Proof. intros. rewrite drift_drift. replace (c + - c) with 0 by ring. apply drift_0; auto. Qed.

Lemma flip_flip x : flip NumR (flip NumR x) = x.
Proof. destruct x; unfold flip; simpl. f_equal. apply vopp_vopp. Qed.
Lemma flip_kick_flip c x : flip NumR (kickR c (flip NumR x)) = kickR (- c) x.
Proof. destruct x as [q p]; unfold flip, kick; simpl. f_equal. apply vopp_vsub_vopp. Qed.
Lemma flip_drift_flip c x : flip NumR (driftR c (flip NumR x)) = driftR (- c) x.
Proof.
  destruct x as [q p]; unfold flip, drift; simpl. f_equal.
  - f_equal. rewrite minv_apply_odd. apply vscale_vopp.
  - apply vopp_vopp.
Qed.

(* F is reversible: running F, negating the momentum and running F again undoes F *)
Definition reversible (F : state -> state) : Prop :=
  forall x, wfs n x -> wfs n (F x) /\ F (flip NumR (F x)) = flip NumR x.

Lemma kick_reversible c : reversible (kickR c).
Proof.
  intros x Hx; split; [apply kick_wfs; auto|].
  rewrite <- (flip_flip (kickR c (flip NumR (kickR c x)))).
  rewrite flip_kick_flip, kick_inv; auto.
Qed.
Lemma drift_reversible c : reversible (driftR c).
Proof.
  intros x Hx; split; [apply drift_wfs; auto|].
  rewrite <- (flip_flip (driftR c (flip NumR (driftR c x)))).
  rewrite flip_drift_flip, drift_inv; auto.
Qed.
(* palindromic compositions of reversible maps are reversible *)
Lemma palindrome_reversible F G : reversible F -> reversible G -> reversible (fun x => F (G (F x))).
Proof.
  intros HF HG x Hx.
  destruct (HF x Hx) as [W1 E1]. destruct (HG _ W1) as [W2 E2]. destruct (HF _ W2) as [W3 E3].
  split; auto. rewrite E3, E2, E1. reflexivity.
Qed.
Lemma iter_reversible F L : reversible F -> reversible (iter L F).
Proof.
  intros HF. induction L; intros x Hx; simpl.
  - split; auto.
  - destruct (HF x Hx) as [W1 E1]. destruct (IHL _ W1) as [W2 E2]. split; auto.
    (* iter L F (F (flip (iter L F (F x)))) : push the extra F to the outside *)
    assert (Hcomm : forall k y, iter k F (F y) = F (iter k F y)).
    { induction k; intros; simpl; auto. }
    rewrite Hcomm.
    assert (Hwf : forall k y, wfs n y -> wfs n (iter k F y)).
    { induction k; intros; simpl; auto. apply IHk. apply HF; auto. }
    pose proof (flip_wfs _ W2) as W3.
    (* F (iter L F (flip (iter L F (F x)))) = F (flip (F x)) = flip x *)
    rewrite E2. exact E1.
Qed.

Lemma kdk_reversible : reversible (kdk NumR eps Minv grad).
Proof.
  unfold kdk. apply (palindrome_reversible (kickR (half NumR eps)) (driftR eps)).
  - apply kick_reversible.
  - apply drift_reversible.
Qed.

(* ------------------------------------------------------------------ the code's arrangement *)
Definition kd (x : state) : state := kickR eps (driftR eps x).   (* one pass of the for-loop *)

Lemma lf_loop_shears L q p :
  lf_loop NumR eps Minv grad L q p (grad q) =
  (fst (iter L kd (q, p)), snd (iter L kd (q, p)), grad (fst (iter L kd (q, p)))).
Proof.
  revert q p; induction L; intros; simpl; auto.
  rewrite drift_vec_eq. rewrite IHL. reflexivity.
Qed.

(* leapfrog_shear_decomposition: the implemented map is a composition of 2L+2 shears *)
Lemma leapfrog_shears L x :
  leapfrog NumR eps Minv grad L x = kickR (- half NumR eps) (iter L kd (kickR (half NumR eps) x)).
Proof.
  destruct x as [q p]. unfold leapfrog. cbn [fst snd].
  rewrite lf_loop_shears. unfold kick at 1. cbn [fst snd].
  f_equal. apply vadd_as_vsub.
Qed.

Lemma iter_comm {A} (F : A -> A) k y : iter k F (F y) = F (iter k F y).
Proof. revert y; induction k; intros; simpl; auto. Qed.
Lemma iter_wfs F k y : (forall z, wfs n z -> wfs n (F z)) -> wfs n y -> wfs n (iter k F y).
Proof. intros HF; revert y; induction k; intros; simpl; auto. Qed.

Lemma kd_kick_half L x :
  iter L kd (kickR (half NumR eps) x) = kickR (half NumR eps) (iter L (kdk NumR eps Minv grad) x).
Proof.
  revert x; induction L; intros; simpl; auto.
  rewrite <- IHL. f_equal. unfold kd, kdk.
  rewrite kick_kick. f_equal. rewrite half_R. field.
Qed.

(* leapfrog_is_standard *)
Lemma leapfrog_standard L x : wfs n x ->
  leapfrog NumR eps Minv grad L x = iter L (kdk NumR eps Minv grad) x.
Proof.
  intros Hx. rewrite leapfrog_shears, kd_kick_half. apply kick_inv.
  apply iter_wfs; auto. intros z Hz. apply kdk_reversible; auto.
Qed.

Lemma leapfrog_wfs L x : wfs n x -> wfs n (leapfrog NumR eps Minv grad L x).
Proof.
  intros Hx. rewrite leapfrog_standard; auto. apply iter_wfs; auto.
  intros z Hz. apply kdk_reversible; auto.
Qed.

(* leapfrog_reversible *)
Lemma leapfrog_reversible_l L x : wfs n x ->
  leapfrog NumR eps Minv grad L (flip NumR (leapfrog NumR eps Minv grad L x)) = flip NumR x.
Proof.
  intros Hx.
  rewrite (leapfrog_standard L x Hx).
  destruct (iter_reversible _ L kdk_reversible x Hx) as [W E].
  rewrite leapfrog_standard; auto. apply flip_wfs; auto.
Qed.

(* the last position of the trace is the position left in the parameters *)
Lemma lf_trace_last L q p dU d :
  last (lf_trace NumR eps Minv grad L q p) d =
  match L with O => d | _ => fst (fst (lf_loop NumR eps Minv grad L q p dU)) end.
Proof.
  revert q p dU d; induction L; intros; simpl; auto.
  destruct L; [reflexivity|].
  erewrite IHL. reflexivity.
Qed.
Lemma leapfrog_trace_last L x :
  last (leapfrog_trace NumR eps Minv grad L x) [] = fst (leapfrog NumR eps Minv grad L x).
Proof.
  unfold leapfrog_trace, leapfrog.
  destruct (lf_loop NumR eps Minv grad L (fst x) _ (grad (fst x))) as [[q1 p1] dU1] eqn:E.
  cbn [fst]. destruct L.
  - simpl in *. congruence.
  - change (last (fst x :: ?l) []) with (last (fst x :: l) []).
    assert (H := lf_trace_last (S L) (fst x)
                  (vsub NumR (snd x) (vscale NumR (half NumR eps) (grad (fst x)))) (grad (fst x)) []).
    rewrite E in H. cbn [fst] in H.
    remember (lf_trace NumR eps Minv grad (S L) (fst x) _) as tr eqn:Etr.
    destruct tr as [|y tr]; [simpl in Etr; discriminate|].
    exact H.
Qed.
End Shears.

(* ------------------------------------------------------------------ Hastings term *)
Lemma hmc_hastings_dK eps L Minv grad (q0 p0 : vec) :
  snd (hmc_step NumR eps L Minv grad q0 p0)
  = kinetic NumR Minv p0 - kinetic NumR Minv (snd (leapfrog NumR eps Minv grad L (q0, p0)))
  /\ fst (hmc_step NumR eps L Minv grad q0 p0) = fst (leapfrog NumR eps Minv grad L (q0, p0)).
Proof.
  unfold hmc_step. destruct (leapfrog NumR eps Minv grad L (q0, p0)) as [q1 p1]. simpl. auto.
Qed.

(* acceptance is decided on the full Hamiltonian difference: with U = -log p and H = U + K,
   MCMC.run's  log_alpha = (logp1 - logp0) + (K0 - K1) = -(H1 - H0) *)
Lemma log_alpha_dH logp0 logp1 K0 K1 :
  log_alpha NumR logp0 logp1 (K0 - K1) = - ((- logp1 + K1) - (- logp0 + K0)).
Proof. unfold log_alpha; simpl. ring. Qed.

(* the kinetic energy is even in the momentum: flipping does not change H *)
Lemma ndot_vopp_l (a b : vec) : ndot NumR (vopp NumR a) (vopp NumR b) = ndot NumR a b.
Proof. vu. revert b; induction a; destruct b; simpl; auto. rewrite IHa. ring. Qed.
Lemma kinetic_even Minv (p : vec) : kinetic NumR Minv (vopp NumR p) = kinetic NumR Minv p.
Proof. unfold kinetic. rewrite minv_apply_odd, ndot_vopp_l. reflexivity. Qed.

(* ------------------------------------------------------------------ harmonic oscillator *)
(* one degree of freedom, inverse mass mi, potential k/2 (q-mu)^2 *)
Section Harmonic.
Variables eps mi k mu : R.

Definition hstep (x : R * R) : R * R :=
  let p1 := snd x - eps / 2 * (k * (fst x - mu)) in
  let q' := fst x + eps * (mi * p1) in
  (q', p1 - eps / 2 * (k * (q' - mu))).
Definition Hen (x : R * R) : R := mi * (snd x * snd x) / 2 + k * ((fst x - mu) * (fst x - mu)) / 2.
(* modified ("shadow") energy  1/2 mi p^2 + 1/2 k (q-mu)^2 (1 - eps^2 k mi / 4) *)
Definition Hmod (x : R * R) : R :=
  mi * (snd x * snd x) / 2 + k * ((fst x - mu) * (fst x - mu)) / 2 * (1 - eps * eps * (k * mi) / 4).

Lemma hstep_Hmod x : Hmod (hstep x) = Hmod x.
Proof. destruct x as [q p]. unfold Hmod, hstep. cbn [fst snd]. field. Qed.
Lemma iter_hstep_Hmod L x : Hmod (iter L hstep x) = Hmod x.
Proof. revert x; induction L; intros; simpl; auto. rewrite IHL. apply hstep_Hmod. Qed.

Definition s1 (x : R * R) : state := ([fst x], [snd x]).
Lemma kdk_hstep x :
  kdk NumR eps (Diag [mi]) (gauss_grad NumR [[k]] [mu]) (s1 x) = s1 (hstep x).
Proof.
  destruct x as [q p]. unfold kdk, kick, drift, s1, hstep, gauss_grad, half. cbn.
  f_equal; f_equal; unfold Q2R; cbn; field.
Qed.
Lemma iter_kdk_hstep L x :
  iter L (kdk NumR eps (Diag [mi]) (gauss_grad NumR [[k]] [mu])) (s1 x) = s1 (iter L hstep x).
Proof. revert x; induction L; intros; simpl; auto. rewrite kdk_hstep. apply IHL. Qed.

Lemma leapfrog_harmonic L q p :
  leapfrog NumR eps (Diag [mi]) (gauss_grad NumR [[k]] [mu]) L ([q], [p]) = s1 (iter L hstep (q, p)).
Proof.
  rewrite (leapfrog_standard eps (Diag [mi]) (gauss_grad NumR [[k]] [mu]) 1%nat).
  - apply (iter_kdk_hstep L (q, p)).
  - reflexivity.
  - intros v Hv. unfold gauss_grad, matvec. reflexivity.
  - split; reflexivity.
Qed.

(* exact energy error after ANY number of steps: eps^2 * k^2 mi / 8 * ((qL-mu)^2 - (q0-mu)^2) *)
Lemma harmonic_energy_error L x :
  Hen (iter L hstep x) - Hen x =
  eps * eps * (k * k * mi / 8) *
    ((fst (iter L hstep x) - mu) * (fst (iter L hstep x) - mu) - (fst x - mu) * (fst x - mu)).
Proof.
  pose proof (iter_hstep_Hmod L x) as H. revert H.
  generalize (iter L hstep x). intros y. destruct x as [q p], y as [q' p'].
  unfold Hmod, Hen. cbn [fst snd]. intros H. lra.
Qed.

(* hence |dH| <= C eps^2 with C independent of the number of steps, for stable step sizes *)
Lemma sq_nonneg (r : R) : 0 <= r * r.
Proof. nra. Qed.

Lemma harmonic_energy_bound L x :
  0 < mi -> 0 < k -> eps * eps * (k * mi) < 4 ->
  Rabs (Hen (iter L hstep x) - Hen x) <=
  eps * eps * ((k * mi / 4) * Hen x / (1 - eps * eps * (k * mi) / 4)).
Proof.
  intros Hmi Hk Hst.
  rewrite harmonic_energy_error.
  pose proof (iter_hstep_Hmod L x) as HM.
  remember (iter L hstep x) as y eqn:Ey. clear Ey.
  destruct x as [q0 p0], y as [q1 p1]. unfold Hmod, Hen in *. cbn [fst snd] in *.
  remember (1 - eps * eps * (k * mi) / 4) as c eqn:Ec.
  pose proof (sq_nonneg eps) as He2.
  assert (Hkm : 0 < k * mi) by nra.
  assert (Hekm : 0 <= eps * eps * (k * mi)) by nra.
  assert (Hc : 0 < c) by lra.
  assert (Hc1 : c <= 1) by lra.
  remember ((q1 - mu) * (q1 - mu)) as a eqn:Ea. remember ((q0 - mu) * (q0 - mu)) as b eqn:Eb.
  assert (Ha : 0 <= a) by (subst a; apply sq_nonneg).
  assert (Hb : 0 <= b) by (subst b; apply sq_nonneg).
  pose proof (sq_nonneg p1) as Hp1. pose proof (sq_nonneg p0) as Hp0.
  remember (p1 * p1) as P1. remember (p0 * p0) as P0.
  remember (mi * P0 / 2 + k * b / 2) as H0 eqn:EH0.
  assert (HmP1 : 0 <= mi * P1) by nra. assert (HmP0 : 0 <= mi * P0) by nra.
  assert (Hka : 0 <= k * a) by nra. assert (Hkb : 0 <= k * b) by nra.
  assert (Hkbc : k * b * c <= k * b) by nra.
  assert (HA : k * a * c <= 2 * H0) by lra.
  assert (HB : k * b * c <= 2 * H0) by lra.
  assert (HH0 : 0 <= H0) by lra.
  assert (Hic : 0 < / c) by (apply Rinv_0_lt_compat; auto).
  assert (HA' : k * a <= 2 * H0 / c).
  { apply (Rmult_le_reg_r c); auto. replace (2 * H0 / c * c) with (2 * H0) by (field; lra). lra. }
  assert (HB' : k * b <= 2 * H0 / c).
  { apply (Rmult_le_reg_r c); auto. replace (2 * H0 / c * c) with (2 * H0) by (field; lra). lra. }
  assert (Hpos : 0 <= 2 * H0 / c) by (unfold Rdiv; nra).
  assert (Habs : Rabs (k * a - k * b) <= 2 * H0 / c).
  { apply Rabs_le. split; lra. }
  replace (eps * eps * (k * k * mi / 8) * (a - b)) with (eps * eps * (k * mi / 8) * (k * a - k * b)) by field.
  rewrite Rabs_mult. rewrite (Rabs_pos_eq (eps * eps * (k * mi / 8))) by nra.
  replace (eps * eps * (k * mi / 4 * H0 / c)) with (eps * eps * (k * mi / 8) * (2 * H0 / c))
    by (field; lra).
  apply Rmult_le_compat_l; [nra | exact Habs].
Qed.
End Harmonic.
