From Coq Require Import QArith Reals List Lra Lia Arith.
Import ListNotations.
From TT Require Import Num NumR Tree M_like.
Open Scope R_scope.

Fixpoint rsum (l : list R) : R := match l with [] => 0 | x :: r => x + rsum r end.
Lemma nsum_rsum l : nsum NumR l = rsum l.
Proof. induction l as [|x l IH]; cbn; [reflexivity|]. rewrite IH; reflexivity. Qed.
Lemma rsum_app a b : rsum (a ++ b) = rsum a + rsum b.
Proof. induction a as [|x a IH]; cbn; [lra|]. rewrite IH; lra. Qed.
Lemma rsum_map_scale {A} c (f : A -> R) l : rsum (map (fun x => c * f x) l) = c * rsum (map f l).
Proof. induction l as [|x l IH]; cbn; [lra|]. rewrite IH; lra. Qed.
Lemma rsum_map_ext {A} (f g : A -> R) l : (forall x, In x l -> f x = g x) -> rsum (map f l) = rsum (map g l).
Proof.
  induction l as [|x l IH]; intros H; cbn; [reflexivity|].
  rewrite H by (left; reflexivity). rewrite IH; [reflexivity|]. intros y Hy; apply H; right; exact Hy.
Qed.
Lemma rsum_flat_map {A B} (f : B -> R) (g : A -> list B) l :
  rsum (map f (flat_map g l)) = rsum (map (fun a => rsum (map f (g a))) l).
Proof. induction l as [|a l IH]; cbn; [reflexivity|]. rewrite map_app, rsum_app, IH; reflexivity. Qed.
Lemma rsum_map_add {A} (f g : A -> R) l : rsum (map (fun x => f x + g x) l) = rsum (map f l) + rsum (map g l).
Proof. induction l as [|x l IH]; cbn; [lra|]. rewrite IH; lra. Qed.

(* product of two independent sums *)
Lemma rsum_product {A B C} (h : A -> B -> C) (f : C -> R) (u : A -> R) (v : B -> R) la lb :
  (forall a b, f (h a b) = u a * v b) ->
  rsum (map f (flat_map (fun a => map (h a) lb) la)) = rsum (map u la) * rsum (map v lb).
Proof.
  intros H. rewrite rsum_flat_map.
  rewrite (rsum_map_ext _ (fun a => u a * rsum (map v lb))).
  - induction la as [|a la IH]; cbn; [lra|]. rewrite IH; lra.
  - intros a _. rewrite map_map. rewrite (rsum_map_ext _ (fun b => u a * v b)) by (intros; apply H).
    apply rsum_map_scale.
Qed.

Lemma lk_In {A} (l : list A) d s : (s < length l)%nat -> In (lk l s d) l.
Proof.
  revert s; induction l as [|x l IH]; intros [|s] H; cbn in *; try lia; [left; reflexivity|].
  right. apply IH. lia.
Qed.

Section LikeR.
Variable S : nat.
Notation lkR l k := (lk l k 0).

Lemma lk_vmul a b s : lkR (vmul NumR a b) s = lkR a s * lkR b s.
Proof.
  revert b s; induction a as [|x a IH]; intros [|y b] [|s]; cbn; try lra; try apply IH.
  all: try (destruct s; cbn; lra).
Qed.

Lemma lk_map {A} (f : A -> R) (l : list A) d s :
  (s < length l)%nat -> lkR (map f l) s = f (lk l s d).
Proof.
  revert s; induction l as [|x l IH]; intros [|s] H; cbn in *; try lia; auto. apply IH; lia.
Qed.

Lemma lk_out {A} (l : list A) d s : (length l <= s)%nat -> lk l s d = d.
Proof. revert s; induction l as [|x l IH]; intros [|s] H; cbn in *; try lia; auto. apply IH; lia. Qed.

(* dot product as a sum over state indices *)
Lemma ndot_sum row v : forall k,
  length row = length v ->
  ndot NumR row v = rsum (map (fun x => lkR row (x - k) * lkR v (x - k)) (seq k (length row))).
Proof.
  revert v; induction row as [|a row IH]; intros [|b v] k H; cbn in *; try lia; [reflexivity|].
  rewrite Nat.sub_diag. f_equal.
  rewrite (IH v (Datatypes.S k)) by lia.
  apply rsum_map_ext. intros x Hx. apply in_seq in Hx.
  replace (x - k)%nat with (Datatypes.S (x - Datatypes.S k)) by lia. reflexivity.
Qed.

Lemma ndot_sum0 row v :
  length row = S -> length v = S ->
  ndot NumR row v = rsum (map (fun x => lkR row x * lkR v x) (seq 0 S)).
Proof.
  intros Hr Hv. rewrite (ndot_sum row v 0) by lia. rewrite Hr.
  apply rsum_map_ext. intros x _. rewrite Nat.sub_0_r. reflexivity.
Qed.

Definition wf_mat (M : mat (T:=R)) : Prop := length M = S /\ forall row, In row M -> length row = S.
Variable P : nat -> mat (T:=R).
Variable tip : nat -> vec (T:=R).
Hypothesis HP : forall j, wf_mat (P j).
Hypothesis Htip : forall i, length (tip i) = S.

Lemma prune_length t : length (prune NumR P tip t) = S.
Proof.
  destruct t as [i|i l r]; cbn; [apply Htip|].
  assert (H : forall a b : vec, length a = S -> length b = S -> length (vmul NumR a b) = S).
  { clear. intros a; revert S; induction a as [|x a IH]; intros S [|y b] Ha Hb; cbn in *; try lia.
    destruct S; [lia|]. f_equal. apply IH; lia. }
  apply H; unfold matvec; rewrite map_length; apply HP.
Qed.

Lemma lk_matvec M v s :
  wf_mat M -> length v = S -> (s < S)%nat ->
  lkR (matvec NumR M v) s = rsum (map (fun x => entry NumR M s x * lkR v x) (seq 0 S)).
Proof.
  intros [HM Hrows] Hv Hs. unfold matvec.
  rewrite (lk_map _ M [] s) by lia.
  assert (Hrow : length (lk M s []) = S).
  { apply Hrows. apply lk_In. lia. }
  rewrite ndot_sum0 by assumption. reflexivity.
Qed.

(* all labellings below root state s carry root state s *)
Lemma enum_at_state t s a : In a (enum_at S t s) -> astate a = s /\ aidx a = iidx t.
Proof.
  destruct t as [i|i l r]; cbn.
  - intros [<-|[]]; auto.
  - intros H. apply in_flat_map in H. destruct H as [al [_ H]]. apply in_map_iff in H.
    destruct H as [ar [<- _]]. auto.
Qed.

(* Felsenstein's pruning computes the sum over all labellings *)
Lemma prune_is_sum t : forall s, (s < S)%nat ->
  lkR (prune NumR P tip t) s = rsum (map (weight NumR P tip) (enum_at S t s)).
Proof.
  induction t as [i|i l IHl r IHr]; intros s Hs.
  - cbn. lra.
  - cbn [prune enum_at]. rewrite lk_vmul.
    rewrite !lk_matvec by (auto using prune_length).
    symmetry.
    rewrite (rsum_product (fun al ar => ANode i s al ar) (weight NumR P tip)
               (fun al => entry NumR (P (aidx al)) s (astate al) * weight NumR P tip al)
               (fun ar => entry NumR (P (aidx ar)) s (astate ar) * weight NumR P tip ar)).
    2:{ intros al ar. cbn [weight astate aidx mul NumR]. reflexivity. }
    f_equal.
    + rewrite rsum_flat_map. apply rsum_map_ext. intros x Hx. apply in_seq in Hx.
      rewrite IHl by lia. rewrite <- rsum_map_scale.
      apply rsum_map_ext. intros a Ha. apply enum_at_state in Ha. destruct Ha as [-> ->]. reflexivity.
    + rewrite rsum_flat_map. apply rsum_map_ext. intros x Hx. apply in_seq in Hx.
      rewrite IHr by lia. rewrite <- rsum_map_scale.
      apply rsum_map_ext. intros a Ha. apply enum_at_state in Ha. destruct Ha as [-> ->]. reflexivity.
Qed.
End LikeR.

(* ---------------- category mixture and root frequencies ---------------- *)
Section MixR.
Variable S : nat.
Notation lkR l k := (lk l k 0).

Lemma ndot_vadd f a b : length a = length b -> length f = length a ->
  ndot NumR f (vadd NumR a b) = ndot NumR f a + ndot NumR f b.
Proof.
  revert a b; induction f as [|x f IH]; intros [|y a] [|z b] H1 H2; cbn in *; try lia; try lra.
  rewrite IH by lia. lra.
Qed.
Lemma ndot_vscale f c a : ndot NumR f (vscale NumR c a) = c * ndot NumR f a.
Proof.
  unfold vscale. revert a; induction f as [|x f IH]; intros [|y a]; cbn [map ndot add mul zero NumR]; try lra.
  rewrite IH. lra.
Qed.
Lemma ndot_zero f n : ndot NumR f (repeat 0 n) = 0.
Proof. revert n; induction f as [|x f IH]; intros [|n]; cbn; try lra. rewrite IH; lra. Qed.
Lemma vadd_length (a b : vec (T:=R)) : length a = length b -> length (vadd NumR a b) = length a.
Proof. revert b; induction a as [|x a IH]; intros [|y b] H; cbn in *; try lia. f_equal; apply IH; lia. Qed.

Variable tip : nat -> vec (T:=R).
Hypothesis Htip : forall i, length (tip i) = S.
Variable freqs : vec (T:=R).
Hypothesis Hf : length freqs = S.

Lemma root_sum P t : (forall j, wf_mat S (P j)) ->
  ndot NumR freqs (prune NumR P tip t)
  = rsum (map (fun a => lkR freqs (astate a) * weight NumR P tip a) (enum S t)).
Proof.
  intros HP. rewrite (ndot_sum0 S) by (auto using prune_length).
  unfold enum. rewrite rsum_flat_map. apply rsum_map_ext. intros s Hs. apply in_seq in Hs.
  rewrite (prune_is_sum S P tip HP Htip) by lia. rewrite <- rsum_map_scale.
  apply rsum_map_ext. intros a Ha. apply enum_at_state in Ha. destruct Ha as [-> _]. reflexivity.
Qed.

Lemma mix_length Ps : forall props t, (forall P, In P Ps -> forall j, wf_mat S (P j)) ->
  length (mix NumR S Ps props tip t) = S.
Proof.
  induction Ps as [|P Ps IH]; intros [|w props] t H; cbn [mix]; try apply repeat_length.
  assert (HP : forall j, wf_mat S (P j)) by (apply H; left; reflexivity).
  assert (Hl : length (vscale NumR w (prune NumR P tip t)) = S).
  { unfold vscale. rewrite map_length. apply (prune_length S P tip HP Htip). }
  assert (Hr : length (mix NumR S Ps props tip t) = S).
  { apply IH. intros Q HQ; apply H; right; exact HQ. }
  rewrite vadd_length; congruence.
Qed.

(* the reported site likelihood is the sum over every assignment of states and every category *)
Lemma site_lik_is_marginal Ps : forall props t,
  (forall P, In P Ps -> forall j, wf_mat S (P j)) ->
  site_lik NumR S freqs Ps props tip t = marginal_cats NumR S freqs Ps props tip t.
Proof.
  unfold site_lik. induction Ps as [|P Ps IH]; intros [|w props] t H; cbn [mix marginal_cats];
    try (apply ndot_zero).
  assert (HP : forall j, wf_mat S (P j)) by (apply H; left; reflexivity).
  assert (HPs : forall Q, In Q Ps -> forall j, wf_mat S (Q j)) by (intros Q HQ; apply H; right; exact HQ).
  assert (Hl : length (vscale NumR w (prune NumR P tip t)) = S).
  { unfold vscale. rewrite map_length. apply (prune_length S P tip HP Htip). }
  pose proof (mix_length Ps props t HPs) as Hr.
  rewrite ndot_vadd by congruence.
  rewrite ndot_vscale, (root_sum P t HP), (IH props t HPs), nsum_rsum. reflexivity.
Qed.
End MixR.

(* the log-likelihood is the weighted sum over patterns of ln(marginal) *)
Fixpoint loglik_spec S (freqs : vec (T:=R)) Ps props t (patterns : list (R * (nat -> vec (T:=R)))) : R :=
  match patterns with
  | [] => 0
  | (w, tip) :: r => w * ln (marginal_cats NumR S freqs Ps props tip t) + loglik_spec S freqs Ps props t r
  end.

Lemma loglik_is_marginal S freqs Ps props t patterns :
  length freqs = S ->
  (forall P, In P Ps -> forall j, wf_mat S (P j)) ->
  (forall w tip, In (w, tip) patterns -> forall i, length (tip i) = S) ->
  loglik NumR S freqs Ps props t patterns = loglik_spec S freqs Ps props t patterns.
Proof.
  intros Hf HP. induction patterns as [|[w tip] r IH]; intros Ht; cbn [loglik loglik_spec]; [reflexivity|].
  rewrite IH by (intros w' tip' H; apply (Ht w' tip'); right; exact H).
  rewrite (site_lik_is_marginal S tip (Ht w tip (or_introl eq_refl)) freqs Hf Ps props t HP).
  reflexivity.
Qed.

(* ---------------- pattern compression ---------------- *)
Section CompressR.
Context {C : Type} (ceq : C -> C -> bool).
Hypothesis ceq_eq : forall a b, ceq a b = true -> a = b.
Variable f : C -> R.
Definition wsum (l : list (C * nat)) : R := rsum (map (fun p => INR (snd p) * f (fst p)) l).

Lemma count_insert_sum c acc : wsum (count_insert ceq c acc) = f c + wsum acc.
Proof.
  unfold wsum. induction acc as [|[c' k] r IH]; cbn [count_insert].
  - cbn. lra.
  - destruct (ceq c c') eqn:E.
    + apply ceq_eq in E; subst. cbn [map rsum fst snd]. rewrite S_INR. lra.
    + cbn [map rsum fst snd]. rewrite IH. lra.
Qed.

(* summing f over all columns = summing weight * f over the compressed patterns: repeated
   columns are handled, whatever the order of columns *)
Lemma compress_sum cols : wsum (compress ceq cols) = rsum (map f cols).
Proof.
  unfold compress.
  assert (H : forall acc, wsum (fold_left (fun acc c => count_insert ceq c acc) cols acc)
                          = rsum (map f cols) + wsum acc).
  { induction cols as [|c cols IH]; intros acc; cbn [fold_left map rsum]; [lra|].
    rewrite IH, count_insert_sum. lra. }
  rewrite H. unfold wsum; cbn. lra.
Qed.
End CompressR.

(* permuting the alignment columns does not change the sum *)
From Coq Require Import Permutation.
Lemma rsum_perm l l' : Permutation l l' -> rsum l = rsum l'.
Proof. induction 1; cbn; lra. Qed.

(* ---------------- tip states vs tip partials ---------------- *)
Section TipStates.
Variable S : nat.
Definition indicator (s : nat) : vec (T:=R) := map (fun x => if Nat.eqb x s then 1 else 0) (seq 0 S).

Lemma ndot_indicator_gen row s k :
  ndot NumR row (map (fun x => if Nat.eqb x s then 1 else 0) (seq k (length row)))
  = if (k <=? s)%nat then lk row (s - k) 0 else 0.
Proof.
  revert k; induction row as [|a row IH]; intros k; cbn [length seq map ndot].
  - destruct (k <=? s)%nat; reflexivity.
  - rewrite IH. cbn [add mul NumR].
    destruct (Nat.eqb_spec k s) as [->|Hne].
    + rewrite Nat.leb_refl, Nat.sub_diag. cbn [lk].
      replace (Datatypes.S s <=? s)%nat with false by (symmetry; apply Nat.leb_gt; lia). lra.
    + destruct (Nat.leb_spec k s) as [Hle|Hgt].
      * replace (Datatypes.S k <=? s)%nat with true by (symmetry; apply Nat.leb_le; lia).
        replace (s - k)%nat with (Datatypes.S (s - Datatypes.S k)) by lia. cbn [lk]. lra.
      * replace (Datatypes.S k <=? s)%nat with false by (symmetry; apply Nat.leb_gt; lia). lra.
Qed.

(* picking column s of the matrix = multiplying by the indicator vector of s *)
Lemma tip_state_is_indicator M s :
  wf_mat S M -> (s < S)%nat -> tip_message_state NumR S M s = matvec NumR M (indicator s).
Proof.
  intros [HM Hrows] Hs. unfold tip_message_state, col, matvec, indicator.
  replace (s <? S)%nat with true by (symmetry; apply Nat.ltb_lt; exact Hs).
  apply map_ext_in. intros row Hrow. rewrite <- (Hrows row Hrow).
  rewrite ndot_indicator_gen. cbn. rewrite Nat.sub_0_r. reflexivity.
Qed.

Lemma ndot_ones (row : list R) : ndot NumR row (repeat 1 (length row)) = rsum row.
Proof. induction row as [|a row IH]; cbn; [reflexivity|]. rewrite IH. lra. Qed.

(* the unknown state S gives ones = multiplying the all-ones vector when rows sum to one *)
Lemma tip_unknown_is_ones M :
  wf_mat S M -> (forall row, In row M -> rsum row = 1) ->
  tip_message_state NumR S M S = matvec NumR M (repeat 1 S).
Proof.
  intros [HM Hrows] Hst. unfold tip_message_state, matvec.
  rewrite Nat.ltb_irrefl. apply map_ext_in. intros row Hrow. cbn [one NumR].
  rewrite <- (Hrows row Hrow), ndot_ones. symmetry. apply Hst. exact Hrow.
Qed.
End TipStates.

(* ---------------- children order ---------------- *)
Lemma vmul_comm (a b : vec (T:=R)) : vmul NumR a b = vmul NumR b a.
Proof. revert b; induction a as [|x a IH]; intros [|y b]; cbn; auto. rewrite IH. f_equal. lra. Qed.
Lemma prune_swap_children P tip i l r :
  prune NumR P tip (INode i l r) = prune NumR P tip (INode i r l).
Proof. cbn. apply vmul_comm. Qed.
