From Coq Require Import List.
From TT Require Import M_kind G_kind.
Definition dev_step (k : kind) (o : devop) : kind :=
  match o with OpCpu => cpu_effect k | OpCuda => cuda_effect k | OpTo => to_effect k end.
Lemma dev_step_keeps k o : dev_step k o = k.
Proof. destruct k, o; reflexivity. Qed.
Lemma kind_preserved_l ops : forall k, fold_left dev_step ops k = k.
Proof. induction ops as [|o ops IH]; intros k; cbn; [reflexivity|]. rewrite dev_step_keeps. apply IH. Qed.
