(* Free theorems for the node-height models: the exact rational run (when defined) equals the
   real-valued model; the interval run encloses it. *)
From Coq Require Import QArith Reals List.
From Param Require Import Param.
From TT Require Import Num NumR NumQ NumI ParamI ParamQ Tree M_height.

Parametricity Recursive itree qualified.
Parametricity Recursive htree qualified.
Parametricity Recursive ratio_fwd qualified.
Parametricity Recursive ratio_inv qualified.
Parametricity Recursive ratio_logdet qualified.
Parametricity Recursive diff_fwd qualified.
Parametricity Recursive diff_inv qualified.
Parametricity Recursive node_heights qualified.
Parametricity Recursive branch_lengths qualified.

Notation itree_R := TT_o_Tree_o_itree_R.
Notation htree_R := TT_o_M_height_o_htree_R.
Lemma itree_R_refl t : itree_R t t.
Proof. induction t; constructor; auto using nat_R_refl. Qed.

Lemma ratio_heights_exact n times Times x X t :
  list_R R qo relq times Times -> list_R R qo relq x X ->
  list_R R qo relq (node_heights (ratio_fwd NumR n times x None t))
                   (node_heights (ratio_fwd NumQ n Times X None t)).
Proof.
  intros Ht Hx.
  apply (TT_o_M_height_o_node_heights_R R qo relq).
  apply (TT_o_M_height_o_ratio_fwd_R R qo relq NumR NumQ NumRQ_R n n (nat_R_refl n) times Times Ht x X Hx
           None None (Coq_o_Init_o_Datatypes_o_option_R_None_R _ _ _) t t (itree_R_refl t)).
Qed.

Lemma diff_heights_exact n times Times x X t :
  list_R R qo relq times Times -> list_R R qo relq x X ->
  list_R R qo relq (node_heights (diff_fwd NumR n times x t))
                   (node_heights (diff_fwd NumQ n Times X t)).
Proof.
  intros Ht Hx.
  apply (TT_o_M_height_o_node_heights_R R qo relq).
  apply (TT_o_M_height_o_diff_fwd_R R qo relq NumR NumQ NumRQ_R n n (nat_R_refl n) times Times Ht x X Hx
           t t (itree_R_refl t)).
Qed.
Print Assumptions ratio_heights_exact.
