(* C19 — lemmas about the configuration model (model/M_config.v):
   1. the abstract loader is the fold of its own event list ([load_events]);
   2. the static checker is sound for the loader ([wf_events_sound], [wf_config_sound_l]) and a
      configuration that passes has every identified object constructed ([wf_config_constructs_l]);
   3. the Jacobian checker: [check_terms] = true makes the handed density the joint density plus
      each needed log-determinant exactly once (plus optional ones at most once). *)
From Coq Require Import String List ZArith Bool Arith Permutation Reals Lra.
Import ListNotations.
From TT Require Import M_config.
Open Scope string_scope.
Open Scope list_scope.

(* ------------------------------------------------------------------ small facts on mem / nodupb *)

Lemma mem_In : forall s l, mem s l = true <-> In s l.
Proof.
  induction l as [|x r IH]; simpl.
  - split; [discriminate | tauto].
  - destruct (String.eqb s x) eqn:E.
    + apply String.eqb_eq in E. subst. tauto.
    + apply String.eqb_neq in E. rewrite IH. split; [tauto|]. intros [H|H]; [congruence | exact H].
Qed.

Lemma mem_false : forall s l, mem s l = false <-> ~ In s l.
Proof.
  intros. rewrite <- mem_In. destruct (mem s l); split; intro H.
  - discriminate.
  - exfalso; apply H; reflexivity.
  - intro; discriminate.
  - reflexivity.
Qed.

Lemma nodupb_NoDup : forall l, nodupb l = true <-> NoDup l.
Proof.
  induction l as [|x r IH]; simpl.
  - split; [constructor | reflexivity].
  - rewrite andb_true_iff, negb_true_iff, mem_false, IH. split.
    + intros [H1 H2]. constructor; assumption.
    + intro H. inversion H. tauto.
Qed.

Lemma subset_incl : forall a b, subset a b = true <-> incl a b.
Proof.
  intros a b. unfold subset. rewrite forallb_forall. unfold incl.
  split; intros H x Hx; [apply mem_In | apply mem_In]; auto.
Qed.

Lemma dedup_In : forall x l, In x (dedup l) <-> In x l.
Proof.
  induction l as [|y r IH]; simpl; [tauto|].
  destruct (mem y r) eqn:E.
  - rewrite IH. split; [tauto|]. intros [H|H]; [subst; apply mem_In; exact E | exact H].
  - simpl. rewrite IH. tauto.
Qed.

Lemma dedup_NoDup : forall l, NoDup (dedup l).
Proof.
  induction l as [|y r IH]; simpl; [constructor|].
  destruct (mem y r) eqn:E; [exact IH|].
  constructor; [|exact IH]. rewrite dedup_In. apply mem_false. exact E.
Qed.

(* ------------------------------------------------------------------ induction on skeletons *)

Section sk_induction.
  Variable P : sk -> Prop.
  Hypothesis Href : forall s, P (SRef s).
  Hypothesis Hnone : P SNone.
  Hypothesis Hseq : forall l, Forall P l -> P (SSeq l).
  Hypothesis Hdict : forall kv, P (SDict kv).
  Hypothesis Hdef : forall id body, Forall P body -> P (SDef id body).
  Hypothesis Hbad : forall w, P (SBad w).

  Fixpoint sk_ind2 (s : sk) : P s :=
    match s with
    | SRef r => Href r
    | SNone => Hnone
    | SSeq l => Hseq l ((fix go (l : list sk) : Forall P l :=
                           match l with
                           | [] => Forall_nil P
                           | x :: t => Forall_cons x (sk_ind2 x) (go t)
                           end) l)
    | SDict kv => Hdict kv
    | SDef id body => Hdef id body ((fix go (l : list sk) : Forall P l :=
                                      match l with
                                      | [] => Forall_nil P
                                      | x :: t => Forall_cons x (sk_ind2 x) (go t)
                                      end) body)
    | SBad w => Hbad w
    end.
End sk_induction.

(* ------------------------------------------------------------------ loader = fold of its events *)

Fixpoint load_list (l : list sk) (reg : list string) : result :=
  match l with
  | [] => Ok reg
  | x :: t => match load x reg with Ok reg' => load_list t reg' | e => e end
  end.

Lemma load_seq : forall l reg, load (SSeq l) reg = load_list l reg.
Proof.
  induction l as [|x t IH]; intro reg; [reflexivity|].
  simpl. destruct (load x reg); [|reflexivity]. simpl in IH. apply IH.
Qed.

Lemma load_def : forall id body reg,
  load (SDef id body) reg =
  if mem id reg then Err (Duplicate id)
  else match load_list body reg with
       | Ok reg' => if mem id reg' then Err (Duplicate id) else Ok (id :: reg')
       | e => e end.
Proof.
  intros. simpl. destruct (mem id reg); [reflexivity|].
  assert (H : forall l r,
    (fix go (l : list sk) (reg : list string) {struct l} : result :=
       match l with
       | [] => Ok reg
       | x :: t => match load x reg with Ok reg' => go t reg' | Err e => Err e end
       end) l r = load_list l r).
  { induction l as [|x t IH]; intro r; [reflexivity|]. simpl. destruct (load x r); [apply IH | reflexivity]. }
  rewrite H. reflexivity.
Qed.

Lemma run_app : forall a b reg,
  run (a ++ b) reg = match run a reg with Ok r => run b r | Err e => Err e end.
Proof.
  induction a as [|e a IH]; intros b reg; [reflexivity|].
  destruct e; simpl.
  - destruct (mem id reg); [reflexivity | apply IH].
  - destruct (mem r reg); [apply IH | reflexivity].
  - destruct (mem id reg); [reflexivity | apply IH].
  - reflexivity.
Qed.

Lemma load_list_events : forall l,
  Forall (fun s => forall reg, load s reg = run (events s) reg) l ->
  forall reg, load_list l reg = run (flat_map events l) reg.
Proof.
  induction 1 as [|x t Hx Ht IH]; intro reg; [reflexivity|].
  simpl. rewrite run_app, <- Hx. destruct (load x reg); [apply IH | reflexivity].
Qed.

(* The recursive loader and the linear run of the event list agree on every skeleton. *)
Lemma load_events : forall s reg, load s reg = run (events s) reg.
Proof.
  induction s using sk_ind2; intro reg.
  - simpl. destruct (mem s reg); reflexivity.
  - reflexivity.
  - rewrite load_seq. simpl. apply load_list_events. assumption.
  - reflexivity.
  - rewrite load_def. simpl. destruct (mem id reg); [reflexivity|].
    rewrite run_app, <- (load_list_events body H reg).
    destruct (load_list body reg) as [reg'|e]; [|reflexivity].
    simpl. destruct (mem id reg'); reflexivity.
  - simpl. destruct (mem w reg); reflexivity.
Qed.

(* ------------------------------------------------------------------ soundness of the checker *)

Lemma run_ok : forall evs reg chk,
  no_fail evs = true ->
  refs_resolve evs reg chk = true ->
  NoDup (chk_ids evs) ->
  NoDup (set_ids evs) ->
  (forall i, In i chk -> ~ In i (chk_ids evs)) ->
  (forall i, In i reg -> ~ In i (set_ids evs)) ->
  incl reg chk ->
  exists reg', run evs reg = Ok reg' /\ incl reg reg' /\ (forall i, In i (set_ids evs) -> In i reg').
Proof.
  induction evs as [|e r IH]; intros reg chk Hnf Hrr Hnd Hns Hdisj Hfresh Hincl.
  - exists reg. simpl. repeat split; [apply incl_refl | intros i []].
  - destruct e; simpl in *.
    + (* EChk *)
      inversion Hnd as [|? ? Hni Hnd']; subst.
      assert (Hm : mem id reg = false).
      { apply mem_false. intro Hin. apply (Hdisj id); [apply Hincl; exact Hin | left; reflexivity]. }
      rewrite Hm.
      destruct (IH reg (id :: chk) Hnf Hrr Hnd' Hns) as [reg' [H1 [H2 H3]]].
      * intros i [Hi|Hi] Hin; [subst; contradiction | apply (Hdisj i Hi); right; exact Hin].
      * exact Hfresh.
      * intros x Hx. right. apply Hincl. exact Hx.
      * exists reg'. auto.
    + (* ERef *)
      apply andb_true_iff in Hrr. destruct Hrr as [Hm Hrr]. rewrite Hm.
      apply (IH reg chk); assumption.
    + (* ESet: the id is checked once more, then registered *)
      apply andb_true_iff in Hrr. destruct Hrr as [Hm Hrr].
      inversion Hns as [|? ? Hni Hns']; subst.
      assert (Hm2 : mem id reg = false).
      { apply mem_false. intro Hin. apply (Hfresh id Hin). left. reflexivity. }
      rewrite Hm2.
      destruct (IH (id :: reg) chk Hnf Hrr Hnd Hns' Hdisj) as [reg' [H1 [H2 H3]]].
      * intros x [Hx|Hx] Hin; [subst; contradiction | apply (Hfresh x Hx); right; exact Hin].
      * intros x [Hx|Hx]; [subst; apply mem_In; exact Hm | apply Hincl; exact Hx].
      * exists reg'. split; [exact H1|]. split.
        -- intros x Hx. apply H2. right. exact Hx.
        -- intros i [Hi|Hi]; [subst; apply H2; left; reflexivity | apply H3; exact Hi].
    + discriminate.
Qed.

Lemma wf_events_sound : forall evs, wf_events evs = true ->
  exists reg, run evs [] = Ok reg /\ forall i, In i (set_ids evs) -> In i reg.
Proof.
  intros evs H. unfold wf_events in H.
  apply andb_true_iff in H. destruct H as [H H3].
  apply andb_true_iff in H. destruct H as [H H4].
  apply andb_true_iff in H. destruct H as [H1 H2].
  destruct (run_ok evs [] [] H1 H3) as [reg [Hr [_ Hs]]].
  - apply nodupb_NoDup. exact H2.
  - apply nodupb_NoDup. exact H4.
  - intros i [].
  - intros i [].
  - apply incl_refl.
  - exists reg. auto.
Qed.

(* wf_config j = true  ->  the abstract loader accepts j (no dangling reference, no duplicate id,
   no object without id in a processed position, no class outside the registry / schema). *)
Lemma wf_config_sound_l : forall registered j, wf_config registered j = true ->
  exists reg, load (sk_of registered j) [] = Ok reg.
Proof.
  intros registered j H. unfold wf_config in H.
  apply andb_true_iff in H. destruct H as [H _].
  apply andb_true_iff in H. destruct H as [H _].
  destruct (wf_events_sound _ H) as [reg [Hr _]].
  exists reg. rewrite load_events. exact Hr.
Qed.

(* starts and ends of definitions are the same ids in a failure-free event list of a skeleton *)
Lemma chk_ids_app : forall a b, chk_ids (a ++ b) = chk_ids a ++ chk_ids b.
Proof. intros. unfold chk_ids. apply flat_map_app. Qed.
Lemma set_ids_app : forall a b, set_ids (a ++ b) = set_ids a ++ set_ids b.
Proof. intros. unfold set_ids. apply flat_map_app. Qed.
Lemma no_fail_app : forall a b, no_fail (a ++ b) = no_fail a && no_fail b.
Proof. intros. unfold no_fail. apply forallb_app. Qed.

Lemma chk_set_list : forall l,
  Forall (fun s => no_fail (events s) = true ->
                   forall i, In i (chk_ids (events s)) -> In i (set_ids (events s))) l ->
  no_fail (flat_map events l) = true ->
  forall i, In i (chk_ids (flat_map events l)) -> In i (set_ids (flat_map events l)).
Proof.
  induction 1 as [|x t Hx Ht IH]; intros Hnf i Hi; [exact Hi|].
  simpl in *. rewrite no_fail_app in Hnf. apply andb_true_iff in Hnf. destruct Hnf as [Ha Hb].
  rewrite chk_ids_app in Hi. rewrite set_ids_app. apply in_or_app.
  apply in_app_or in Hi. destruct Hi as [Hi|Hi]; [left; apply Hx; assumption | right; apply IH; assumption].
Qed.

Lemma chk_set : forall s, no_fail (events s) = true ->
  forall i, In i (chk_ids (events s)) -> In i (set_ids (events s)).
Proof.
  induction s using sk_ind2; intros Hnf i Hi; simpl in *; try contradiction; try discriminate.
  - apply chk_set_list; assumption.
  - rewrite no_fail_app in Hnf. apply andb_true_iff in Hnf. destruct Hnf as [Ha _].
    rewrite set_ids_app. apply in_or_app. destruct Hi as [Hi|Hi].
    + right. subst. left. reflexivity.
    + rewrite chk_ids_app in Hi. apply in_app_or in Hi. destruct Hi as [Hi|Hi].
      * left. apply chk_set_list; assumption.
      * simpl in Hi. contradiction.
Qed.

(* ... and then every identified object anywhere in the configuration has been constructed and
   registered, each id once. *)
Lemma wf_config_constructs_l : forall registered j, wf_config registered j = true ->
  exists reg, load (sk_of registered j) [] = Ok reg /\
              NoDup (all_ids j) /\ forall i, In i (all_ids j) -> In i reg.
Proof.
  intros registered j H. unfold wf_config in H.
  apply andb_true_iff in H. destruct H as [H Hsub].
  apply andb_true_iff in H. destruct H as [Hwf Hnd].
  destruct (wf_events_sound _ Hwf) as [reg [Hr Hs]].
  exists reg. split; [rewrite load_events; exact Hr|]. split; [apply nodupb_NoDup; exact Hnd|].
  intros i Hi. apply Hs. unfold config_events in *.
  apply chk_set.
  - unfold wf_events in Hwf. apply andb_true_iff in Hwf. destruct Hwf as [Hwf _].
    apply andb_true_iff in Hwf. destruct Hwf as [Hwf _].
    apply andb_true_iff in Hwf. destruct Hwf as [Hwf _]. exact Hwf.
  - apply subset_incl in Hsub. apply Hsub. exact Hi.
Qed.

(* the checker really rejects: a dangling reference / a duplicate id make the loader fail *)
Lemma load_dangling : forall r reg, ~ In r reg -> load (SRef r) reg = Err (Dangling r).
Proof. intros r reg H. simpl. apply mem_false in H. rewrite H. reflexivity. Qed.

Lemma load_duplicate : forall id body reg, In id reg -> load (SDef id body) reg = Err (Duplicate id).
Proof. intros id body reg H. rewrite load_def. apply mem_In in H. rewrite H. reflexivity. Qed.

(* ------------------------------------------------------------------ Jacobians, each exactly once *)

Open Scope R_scope.

Fixpoint rsum (l : list R) : R := match l with [] => 0 | x :: r => x + rsum r end.

Lemma rsum_app : forall a b, rsum (a ++ b) = rsum a + rsum b.
Proof. induction a as [|x a IH]; intro b; simpl; [lra | rewrite IH; lra]. Qed.

Lemma rsum_perm : forall a b, Permutation a b -> rsum a = rsum b.
Proof. induction 1; simpl; lra. Qed.

Lemma NoDup_app_disj : forall (a b : list string),
  NoDup a -> NoDup b -> (forall x, In x a -> ~ In x b) -> NoDup (a ++ b).
Proof.
  induction a as [|x a IH]; intros b Ha Hb Hd; simpl; [exact Hb|].
  inversion Ha; subst. constructor.
  - rewrite in_app_iff. intros [H|H]; [contradiction | apply (Hd x); [left; reflexivity | exact H]].
  - apply IH; [assumption | assumption | intros y Hy; apply Hd; right; exact Hy].
Qed.

Section Jacobians.
  (* value of log|det J_t| at the current point, for every transformed parameter / tree id t;
     value of the constrained joint density `joint` *)
  Variable logdet : string -> R.
  Variable joint : R.

  (* The density handed to the sampler / optimiser: the emitted JointDistributionModel sums its
     members, `joint` and the listed terms; calling a listed term returns its log-determinant. *)
  Definition handed (terms : list string) : R := joint + rsum (map logdet terms).

  Definition extras (terms needs : list string) : list string :=
    filter (fun x => negb (mem x needs)) terms.

  Lemma check_terms_perm : forall terms needs optional,
    NoDup needs ->
    check_terms terms needs optional = true ->
    Permutation terms (needs ++ extras terms needs) /\
    NoDup terms /\ NoDup (extras terms needs) /\ incl needs terms /\
    incl (extras terms needs) optional /\
    (forall x, In x (extras terms needs) -> ~ In x needs).
  Proof.
    intros terms needs optional Hnn H. unfold check_terms in H.
    apply andb_true_iff in H. destruct H as [H H3].
    apply andb_true_iff in H. destruct H as [H1 H2].
    apply nodupb_NoDup in H1. apply subset_incl in H2. apply subset_incl in H3.
    assert (Hex : forall x, In x (extras terms needs) <-> In x terms /\ ~ In x needs).
    { intro x. unfold extras. rewrite filter_In, negb_true_iff, mem_false. tauto. }
    assert (Hne : NoDup (extras terms needs)) by (apply NoDup_filter; exact H1).
    split; [|split; [exact H1|split; [exact Hne|split; [exact H2|split]]]].
    - apply NoDup_Permutation; [exact H1| |].
      + apply NoDup_app_disj; [exact Hnn | exact Hne |].
        intros x Hx Hx'. apply Hex in Hx'. tauto.
      + intro x. rewrite in_app_iff, Hex. split.
        * intro Hx. destruct (in_dec string_dec x needs); [left; assumption | right; tauto].
        * intros [Hx|[Hx _]]; [apply H2; exact Hx | exact Hx].
    - intros x Hx. apply Hex in Hx. destruct Hx as [Hx Hn].
      specialize (H3 x Hx). apply in_app_or in H3. tauto.
    - intros x Hx. apply Hex in Hx. tauto.
  Qed.

  (* checker accepts  ->  handed density = joint + each needed log-det once + optional ones once *)
  Lemma check_terms_sound : forall terms needs optional,
    NoDup needs ->
    check_terms terms needs optional = true ->
    handed terms = joint + rsum (map logdet needs) + rsum (map logdet (extras terms needs)).
  Proof.
    intros terms needs optional Hnn H.
    destruct (check_terms_perm _ _ _ Hnn H) as [Hp _].
    unfold handed. rewrite (rsum_perm _ _ (Permutation_map logdet Hp)), map_app, rsum_app. lra.
  Qed.

  Lemma count_once : forall (l : list string) x, NoDup l -> In x l -> count_occ string_dec l x = 1%nat.
  Proof.
    intros l x Hn Hi. apply (proj1 (NoDup_count_occ' string_dec l) Hn x Hi).
  Qed.

  Lemma count_le_one : forall (l : list string) x, NoDup l -> (count_occ string_dec l x <= 1)%nat.
  Proof. intros l x Hn. apply (proj1 (NoDup_count_occ string_dec l) Hn x). Qed.

  (* statement on a configuration *)
  Lemma jacobian_exactly_once_l : forall j ts,
    targets j <> [] ->
    jacobian_terms j = Some ts ->
    check_jacobians j = true ->
    let needs := needs_jacobian j in
    let extra := extras ts needs in
    handed ts = joint + rsum (map logdet needs) + rsum (map logdet extra)
    /\ (forall t, In t needs -> count_occ string_dec ts t = 1%nat)
    /\ (forall t, (count_occ string_dec ts t <= 1)%nat)
    /\ (forall t, In t ts -> In t needs \/ In t (optional_jacobian j))
    /\ NoDup needs /\ NoDup extra /\ incl extra (optional_jacobian j)
    /\ (forall t, In t extra -> ~ In t needs).
  Proof.
    intros j ts Ht Hts Hc needs extra. unfold check_jacobians in Hc.
    destruct (targets j) as [|t0 tr] eqn:Et; [congruence|].
    rewrite Hts in Hc. apply andb_true_iff in Hc. destruct Hc as [_ Hc].
    assert (Hnn : NoDup needs) by apply dedup_NoDup.
    destruct (check_terms_perm _ _ _ Hnn Hc) as [Hp [Hnd [Hne [Hin [Hopt Hdis]]]]].
    split; [apply (check_terms_sound _ _ _ Hnn Hc)|].
    split; [intros t Hin'; apply count_once; [exact Hnd | apply Hin; exact Hin']|].
    split; [intro t; apply count_le_one; exact Hnd|].
    split.
    { intros t Hin'. destruct (in_dec string_dec t needs) as [Hy|Hn]; [left; exact Hy|].
      right. apply Hopt. unfold extra, extras. rewrite filter_In, negb_true_iff, mem_false. tauto. }
    repeat split; assumption.
  Qed.

  (* full-strength corollary: when every moved transformed parameter carries a prior (nothing is
     left to convention) the handed density is exactly joint + sum over the needed transforms *)
  Lemma jacobian_exact_l : forall j ts,
    targets j <> [] ->
    jacobian_terms j = Some ts ->
    check_jacobians j = true ->
    optional_jacobian j = [] ->
    handed ts = joint + rsum (map logdet (needs_jacobian j)) /\
    Permutation ts (needs_jacobian j).
  Proof.
    intros j ts Ht Hts Hc Ho.
    destruct (jacobian_exactly_once_l j ts Ht Hts Hc) as [H1 [_ [_ [_ [Hnn [_ [Hinc _]]]]]]].
    rewrite Ho in Hinc.
    assert (He : extras ts (needs_jacobian j) = []).
    { destruct (extras ts (needs_jacobian j)) as [|x r] eqn:E; [reflexivity|].
      exfalso. apply (Hinc x). left. reflexivity. }
    rewrite He in H1. simpl in H1. split; [lra|].
    unfold check_jacobians in Hc. destruct (targets j); [congruence|].
    rewrite Hts in Hc. apply andb_true_iff in Hc. destruct Hc as [_ Hc].
    destruct (check_terms_perm _ _ _ Hnn Hc) as [Hp _]. rewrite He, app_nil_r in Hp. exact Hp.
  Qed.

End Jacobians.

(* the checker rejects what it should: a missing needed term, a repeated term *)
Lemma check_terms_missing : forall terms needs optional t,
  In t needs -> ~ In t terms -> check_terms terms needs optional = false.
Proof.
  intros terms needs optional t Hn Ht. unfold check_terms.
  destruct (subset needs terms) eqn:E.
  - apply subset_incl in E. exfalso. apply Ht. apply E. exact Hn.
  - rewrite andb_false_r. reflexivity.
Qed.

Lemma check_terms_repeated : forall terms needs optional,
  ~ NoDup terms -> check_terms terms needs optional = false.
Proof.
  intros terms needs optional H. unfold check_terms.
  destruct (nodupb terms) eqn:E; [|reflexivity].
  apply nodupb_NoDup in E. contradiction.
Qed.

Lemma check_terms_foreign : forall terms needs optional t,
  In t terms -> ~ In t needs -> ~ In t optional -> check_terms terms needs optional = false.
Proof.
  intros terms needs optional t Ht Hn Ho. unfold check_terms.
  destruct (subset terms (needs ++ optional)) eqn:E.
  - apply subset_incl in E. specialize (E t Ht). apply in_app_or in E. tauto.
  - apply andb_false_r.
Qed.
