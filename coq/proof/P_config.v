From Coq Require Import String List ZArith Bool.
Import ListNotations.
From TT Require Import M_config.
Lemma placeholder : True. Proof. exact I. Qed.
