(* P_tensor — lemmas about the shaped-tensor model (C10): broadcasting acts row by row, the
   joint density adds up the entries of the same sample only, sample_shape inference rules. *)
From Coq Require Import List Arith Bool PeanoNat ZArith Lia.
Import ListNotations.
From TT Require Import M_tensor.

(* ---------------------------------------------------------------- lists *)
Lemma firstn_all_len {A} (l : list A) n : length l = n -> firstn n l = l.
Proof. intros <-. apply firstn_all. Qed.

Lemma chunk_0 {A} k (d : list A) : length d = k -> chunk k 0 d = d.
Proof. intros H. unfold chunk. simpl. now apply firstn_all_len. Qed.

Lemma chunk_S_cons {A} i (x : A) d : chunk 1 (S i) (x :: d) = chunk 1 i d.
Proof. unfold chunk. rewrite !Nat.mul_1_r. reflexivity. Qed.

Lemma length_chunk {A} k i (d : list A) : (S i) * k <= length d -> length (chunk k i d) = k.
Proof.
  intros H. unfold chunk. rewrite firstn_length, skipn_length. simpl in H. lia.
Qed.

Lemma flat_map_single {A B} (f : A -> B) l : flat_map (fun x => [f x]) l = map f l.
Proof. induction l; simpl; congruence. Qed.

Lemma flat_map_map {A B C} (g : A -> B) (f : B -> list C) l : flat_map f (map g l) = flat_map (fun x => f (g x)) l.
Proof. induction l; simpl; congruence. Qed.

Lemma flat_map_ext_in {A B} (f g : A -> list B) l : (forall x, In x l -> f x = g x) -> flat_map f l = flat_map g l.
Proof.
  induction l; simpl; intros H; [reflexivity|].
  rewrite H by now left. f_equal. apply IHl. intros; apply H; now right.
Qed.

Lemma numel_app a b : numel (a ++ b) = numel a * numel b.
Proof. induction a; simpl; [lia|]. rewrite IHa. lia. Qed.

Lemma numel_repeat1 n : numel (repeat 1 n) = 1.
Proof. induction n; simpl; lia. Qed.

Lemma numel_pad r s : numel (pad r s) = numel s.
Proof. unfold pad. rewrite numel_app, numel_repeat1. lia. Qed.

Lemma pad_self s : pad (length s) s = s.
Proof. unfold pad. now rewrite Nat.sub_diag. Qed.

Lemma pad_S r s : length s <= r -> pad (S r) s = 1 :: pad r s.
Proof. intros H. unfold pad. replace (S r - length s) with (S (r - length s)) by lia. reflexivity. Qed.

(* chunk i of a concatenation of equally long pieces *)
Lemma chunk_flat_map {A} (g : nat -> list A) m n o :
  (forall i, length (g i) = m) -> o < n -> chunk m o (flat_map g (seq 0 n)) = g o.
Proof.
  intros Hl. unfold chunk.
  assert (G : forall n b o, o < n ->
            firstn m (skipn (o * m) (flat_map g (seq b n))) = g (b + o)).
  { clear n o. induction n; intros b o Ho; [lia|].
    simpl seq. simpl flat_map. destruct o.
    - simpl. rewrite firstn_app, Hl, Nat.sub_diag. simpl. rewrite app_nil_r, Nat.add_0_r.
      now apply firstn_all_len.
    - simpl Nat.mul. rewrite skipn_app, Hl.
      replace (skipn (m + o * m) (g b)) with (@nil A) by (symmetry; apply skipn_all2; rewrite Hl; lia).
      replace (m + o * m - m) with (o * m) by lia. simpl.
      rewrite IHn by lia. f_equal. lia. }
  intros Ho. now rewrite G.
Qed.

Lemma chunk1_map {A} (v : nat -> A) n o : o < n -> chunk 1 o (map v (seq 0 n)) = [v o].
Proof.
  intros Ho. rewrite <- flat_map_single.
  now rewrite (chunk_flat_map (fun x => [v x]) 1 n o).
Qed.

(* ================================================================ broadcasting acts row by row *)
Section Rowwise.
Context {T : Type}.
Notation tensor := (tensor T).

Lemma bshape_lead S sa sb' r :
  bshape sa sb' = Some r -> bshape (S :: sa) (1 :: sb') = Some (S :: r).
Proof.
  intros H. simpl. rewrite H. simpl.
  destruct (S =? 1) eqn:E; [apply Nat.eqb_eq in E; now subst|]. reflexivity.
Qed.

Lemma bshape_lead_none S sa sb' : bshape sa sb' = None -> bshape (S :: sa) (1 :: sb') = None.
Proof. intros H. simpl. now rewrite H. Qed.

Lemma bdata_lead (f : T -> T -> T) S sa sb' dA dB :
  length dB = numel sb' ->
  bdata f (S :: sa) (1 :: sb') dA dB =
  flat_map (fun s => bdata f sa sb' (chunk (numel sa) s dA) dB) (seq 0 S).
Proof.
  intros HB. simpl bdata.
  rewrite (chunk_0 _ dB HB).
  destruct (S =? 1) eqn:E.
  - apply Nat.eqb_eq in E. subst. reflexivity.
  - reflexivity.
Qed.

(* the rows of the batched operand, each combined with the unbatched operand *)
Definition binop_rows (f : T -> T -> T) (A B : tensor) : option (list tensor) :=
  mapM (fun s => binop f (row s A) B) (seq 0 (hd 0 (tshape A))).

Lemma mapM_some {X Y} (g : X -> Y) (h : X -> option Y) l :
  (forall x, In x l -> h x = Some (g x)) -> mapM h l = Some (map g l).
Proof.
  induction l; simpl; intros H; [reflexivity|].
  rewrite H by now left. simpl. rewrite IHl by (intros; apply H; now right). reflexivity.
Qed.

Lemma binop_lead (f : T -> T -> T) (A B : tensor) S sa :
  tshape A = S :: sa -> length (tshape B) <= length sa -> length (tdata B) = numel (tshape B) ->
  binop f A B =
  match bshape sa (pad (length sa) (tshape B)) with
  | Some r => Some (mkT (S :: r)
                (flat_map (fun s => bdata f sa (pad (length sa) (tshape B)) (chunk (numel sa) s (tdata A)) (tdata B))
                          (seq 0 S)))
  | None => None
  end.
Proof.
  intros HA Hr HB. unfold binop. rewrite HA. simpl length.
  rewrite (Nat.max_l (Datatypes.S (length sa))) by lia.
  replace (pad (Datatypes.S (length sa)) (S :: sa)) with (S :: sa) by (symmetry; apply (pad_self (S :: sa))).
  rewrite (pad_S (length sa) (tshape B) Hr).
  set (sb' := pad (length sa) (tshape B)).
  destruct (bshape sa sb') as [r|] eqn:E.
  - rewrite (bshape_lead S sa sb' r E). cbn [obind].
    rewrite bdata_lead by (unfold sb'; now rewrite numel_pad). reflexivity.
  - now rewrite (bshape_lead_none S sa sb' E).
Qed.

Lemma binop_row (f : T -> T -> T) (A B : tensor) S sa s :
  tshape A = S :: sa -> length (tshape B) <= length sa ->
  binop f (row s A) B =
  match bshape sa (pad (length sa) (tshape B)) with
  | Some r => Some (mkT r (bdata f sa (pad (length sa) (tshape B)) (chunk (numel sa) s (tdata A)) (tdata B)))
  | None => None
  end.
Proof.
  intros HA Hr. unfold binop, row. rewrite HA. cbn [tl tshape tdata].
  rewrite (Nat.max_l (length sa)) by lia. rewrite pad_self.
  destruct (bshape sa (pad (length sa) (tshape B))); reflexivity.
Qed.

Lemma broadcast_rowwise_l (f : T -> T -> T) (A B : tensor) S sa :
  tshape A = S :: sa -> length (tshape B) <= length sa -> length (tdata B) = numel (tshape B) ->
  forall R, binop f A B = Some R ->
  exists sh rows, broadcast_shapes sa (tshape B) = Some sh /\ binop_rows f A B = Some rows /\
                  length rows = S /\ R = stack sh rows /\
                  (forall s, s < S -> binop f (row s A) B = nth_error rows s).
Proof.
  intros HA Hr HB R HR.
  rewrite (binop_lead f A B S sa HA Hr HB) in HR.
  assert (Hrow := fun s => binop_row f A B S sa s HA Hr).
  destruct (bshape sa (pad (length sa) (tshape B))) as [r|] eqn:E; [|discriminate].
  injection HR as <-.
  set (g := fun s => mkT r (bdata f sa (pad (length sa) (tshape B)) (chunk (numel sa) s (tdata A)) (tdata B))) in *.
  exists r, (map g (seq 0 S)). repeat split.
  - unfold broadcast_shapes. rewrite (Nat.max_l (length sa)) by lia. rewrite pad_self. exact E.
  - unfold binop_rows. rewrite HA. simpl hd. apply mapM_some. intros; apply Hrow.
  - now rewrite map_length, seq_length.
  - unfold stack. rewrite map_length, seq_length. f_equal. now rewrite flat_map_map.
  - intros s Hs. rewrite Hrow. symmetry.
    rewrite nth_error_map. rewrite (nth_error_nth' _ 0) by now rewrite seq_length.
    rewrite seq_nth by assumption. reflexivity.
Qed.

(* entry s of the result depends only on row s of the batched operand *)
Lemma broadcast_row_dependency_l (f : T -> T -> T) (A A' B : tensor) S sa s R R' :
  tshape A = S :: sa -> tshape A' = S :: sa -> length (tshape B) <= length sa ->
  length (tdata B) = numel (tshape B) -> s < S -> row s A = row s A' ->
  binop f A B = Some R -> binop f A' B = Some R' ->
  exists sh rows rows', R = stack sh rows /\ R' = stack sh rows' /\ nth_error rows s = nth_error rows' s.
Proof.
  intros HA HA' Hr HB Hs Hrow H H'.
  destruct (broadcast_rowwise_l f A B S sa HA Hr HB R H) as (sh & rows & E1 & _ & _ & -> & Hn).
  destruct (broadcast_rowwise_l f A' B S sa HA' Hr HB R' H') as (sh' & rows' & E1' & _ & _ & -> & Hn').
  rewrite E1 in E1'. injection E1' as <-.
  exists sh, rows, rows'. repeat split.
  rewrite <- (Hn s Hs), <- (Hn' s Hs). now rewrite Hrow.
Qed.

End Rowwise.

(* ================================================================ normal forms of the operations *)
Section Ops.
Context {T : Type}.
Variable zero : T.
Variable add : T -> T -> T.
Hypothesis add_0_r : forall x, add x zero = x.
Notation tensor := (tensor T).
Notation tsum := (tsum zero add).

Lemma tsum_single x : tsum [x] = x.
Proof. simpl. apply add_0_r. Qed.

Lemma norm_dim_last r : norm_dim (S r) (-1) = Some r.
Proof.
  unfold norm_dim. rewrite Nat.max_l by lia.
  replace ((- Z.of_nat (S r) <=? -1)%Z) with true by (symmetry; apply Z.leb_le; lia).
  replace ((-1 <? Z.of_nat (S r))%Z) with true by (symmetry; apply Z.ltb_lt; lia).
  cbn [andb]. change (-1 <? 0)%Z with true. cbv iota. f_equal. lia.
Qed.

Lemma unsqueeze_last (s : list nat) (d : list T) : unsqueeze (-1) (mkT s d) = Some (mkT (s ++ [1]) d).
Proof.
  unfold unsqueeze. cbn [tshape tdata].
  replace ((- Z.of_nat (S (length s)) <=? -1)%Z) with true by (symmetry; apply Z.leb_le; lia).
  replace ((-1 <? Z.of_nat (S (length s)))%Z) with true by (symmetry; apply Z.ltb_lt; lia).
  cbn [andb]. change (-1 <? 0)%Z with true. cbv iota.
  replace (Z.to_nat (-1 + Z.of_nat (S (length s)))) with (length s) by lia.
  now rewrite firstn_all, skipn_all.
Qed.

Lemma unsqueeze_0_scalar (d : list T) : unsqueeze 0 (mkT [] d) = Some (mkT [1] d).
Proof. reflexivity. Qed.

(* sum of the last axis *)
Lemma sum_block_1 m (blk : list T) : length blk = m -> sum_block zero add m 1 blk = [tsum blk].
Proof.
  unfold sum_block. revert blk. induction m; intros blk H.
  - destruct blk; [reflexivity|discriminate].
  - destruct blk as [|x blk]; [discriminate|]. simpl in H. injection H as H.
    cbn [split_rows firstn skipn fold_right]. rewrite (IHm blk H). reflexivity.
Qed.

Lemma sum_last (keep : bool) (pre : list nat) m (d : list T) :
  length d = numel pre * m ->
  sum_dim zero add (-1) keep (mkT (pre ++ [m]) d) =
  Some (mkT (pre ++ (if keep then [1] else [])) (map (fun o => tsum (chunk m o d)) (seq 0 (numel pre)))).
Proof.
  intros Hd. unfold sum_dim. cbn [tshape tdata].
  destruct (pre ++ [m]) eqn:E; [destruct pre; discriminate|]. rewrite <- E. clear E.
  rewrite app_length. simpl length. rewrite Nat.add_1_r, norm_dim_last. cbn [obind].
  rewrite firstn_app, Nat.sub_diag, firstn_all. simpl firstn. rewrite app_nil_r.
  rewrite app_nth2, Nat.sub_diag by lia. simpl nth.
  rewrite skipn_all2 by (rewrite app_length; simpl; lia).
  simpl numel. rewrite Nat.mul_1_r. rewrite app_nil_r.
  f_equal. f_equal.
  rewrite <- flat_map_single. apply flat_map_ext_in. intros o Ho. apply in_seq in Ho.
  apply sum_block_1. apply length_chunk. rewrite Hd. apply Nat.mul_le_mono_r. lia.
Qed.

(* view(prefix + (-1,)) *)
Lemma view_flat_0 (e : list nat) (d : list T) :
  view [(-1)%Z] (mkT e d) = Some (mkT [numel e] d).
Proof.
  unfold view, reshape. cbn [tshape tdata existsb count_neg filter length known_prod fold_right orb].
  change (-1 <? -1)%Z with false. change (-1 =? -1)%Z with true. cbv iota. cbn [length]. change (1 =? 0)%Z with false. cbv iota.
  rewrite Z.mod_1_r. change (0 =? 0)%Z with true. cbv iota. cbn [map]. change (-1 =? -1)%Z with true. cbv iota.
  rewrite Z.div_1_r, Nat2Z.id. reflexivity.
Qed.

Lemma view_flat_1 S (e : list nat) (d : list T) : 0 < S ->
  view (map Z.of_nat [S] ++ [(-1)%Z]) (mkT (S :: e) d) = Some (mkT [S; numel e] d).
Proof.
  intros HS. unfold view, reshape. cbn [tshape tdata map app].
  assert (E1 : (Z.of_nat S <? -1)%Z = false) by (apply Z.ltb_ge; lia).
  assert (E2 : (Z.of_nat S =? -1)%Z = false) by (apply Z.eqb_neq; lia).
  assert (C : count_neg [Z.of_nat S; (-1)%Z] = 1).
  { unfold count_neg. cbn [filter]. rewrite E2. reflexivity. }
  assert (K : known_prod [Z.of_nat S; (-1)%Z] = Z.of_nat S).
  { unfold known_prod. cbn [fold_right]. rewrite E2. change (-1 =? -1)%Z with true. cbv iota. lia. }
  cbn [existsb]. rewrite E1. change (-1 <? -1)%Z with false. cbn [orb].
  rewrite C, K.
  replace (Z.of_nat S =? 0)%Z with false by (symmetry; apply Z.eqb_neq; lia).
  cbn [numel fold_right]. rewrite Nat2Z.inj_mul, Z.mul_comm, Z_mod_mult. change (0 =? 0)%Z with true. cbv iota.
  cbn [map]. rewrite E2. change (-1 =? -1)%Z with true. cbv iota.
  rewrite Z_div_mult by lia. now rewrite !Nat2Z.id.
Qed.

(* expand of a one-element tensor to [1] / [S;1] *)
Lemma expand_1_nil (x : T) : expand [1%Z] (mkT [1] [x]) = Some (mkT [1] [x]).
Proof. reflexivity. Qed.

Lemma expand_1_S S (x : T) : S <> 1 ->
  expand (map Z.of_nat [S] ++ [1%Z]) (mkT [1] [x]) = Some (mkT [S; 1] (map (fun _ => x) (seq 0 S))).
Proof.
  intros HS. unfold expand. cbn [tshape tdata map app length].
  change (2 <? 1) with false. cbv iota. change (2 - 1) with 1. cbn [firstn existsb].
  replace (Z.of_nat S <? 0)%Z with false by (symmetry; apply Z.ltb_ge; lia). cbn [orb]. cbv iota.
  change (pad 2 [1]) with [1;1].
  assert (E : expand_shape [1;1] [Z.of_nat S; 1%Z] = Some [S;1]).
  { cbn [expand_shape]. change (1 =? -1)%Z with false. change (1 <? 0)%Z with false.
    change (Z.of_nat 1 =? 1)%Z with true. cbv iota. cbn [obind].
    replace (Z.of_nat S =? -1)%Z with false by (symmetry; apply Z.eqb_neq; lia).
    replace (Z.of_nat S <? 0)%Z with false by (symmetry; apply Z.ltb_ge; lia).
    replace (Z.of_nat 1 =? Z.of_nat S)%Z with false by (symmetry; apply Z.eqb_neq; lia).
    change (1 =? 1) with true. cbv iota. now rewrite Nat2Z.id. }
  rewrite E. cbn [obind].
  assert (D : edata [1;1] [S;1] [x] = map (fun _ => x) (seq 0 S)).
  { cbn [edata]. change (1 =? 1) with true. cbv iota.
    rewrite <- flat_map_single. apply flat_map_ext_in. intros. reflexivity. }
  now rewrite D.
Qed.

End Ops.

(* ================================================================ sample_shape inference *)
Lemma shape_eqb_eq a b : shape_eqb a b = true <-> a = b.
Proof.
  unfold shape_eqb. revert b. induction a; destruct b; simpl; try (split; [discriminate|discriminate]); [tauto|].
  rewrite andb_true_iff, Nat.eqb_eq, IHa. split; [intros [-> ->]; reflexivity|intros H; injection H; auto].
Qed.

Lemma shape_eqb_refl a : shape_eqb a a = true.
Proof. now apply shape_eqb_eq. Qed.

Lemma shape_eqb_neq a b : shape_eqb a b = false <-> a <> b.
Proof.
  split.
  - intros H E. apply shape_eqb_eq in E. congruence.
  - intros H. destruct (shape_eqb a b) eqn:E; [|reflexivity]. apply shape_eqb_eq in E. contradiction.
Qed.

Definition nonempty (s : list nat) : bool := match s with [] => false | _ => true end.

(* "longest leading shape" is right when every contributor reports [] or the common sample shape *)
Lemma longest_from_common ss best l : ss <> [] ->
  (best = [] \/ best = ss) -> Forall (fun s => s = [] \/ s = ss) l ->
  longest_from best l = if nonempty best || existsb nonempty l then ss else [].
Proof.
  intros Hss Hb Hl. revert best Hb. induction Hl as [|s l Hs Hl IH]; intros best Hb.
  - simpl. destruct Hb as [->| ->]; simpl; [reflexivity|]. destruct ss; [contradiction|reflexivity].
  - destruct ss as [|a ss']; [contradiction|].
    destruct Hb as [->| ->]; destruct Hs as [->| ->]; cbn [longest_from length Nat.ltb Nat.leb].
    + rewrite (IH []) by (now left). reflexivity.
    + rewrite (IH (a :: ss')) by (now right). reflexivity.
    + rewrite (IH (a :: ss')) by (now right). reflexivity.
    + rewrite (IH (a :: ss')) by (now right).
      destruct (match length ss' with 0 => false | S m' => length ss' <=? m' end); reflexivity.
Qed.

Lemma longest_common ss l : ss <> [] -> l <> [] -> Forall (fun s => s = [] \/ s = ss) l ->
  longest l = Some (if existsb nonempty l then ss else []).
Proof.
  intros Hss Hl H. destruct l as [|s l]; [contradiction|]. inversion H; subst.
  simpl longest. now rewrite (longest_from_common ss s l).
Qed.

(* Distribution._sample_shape in the layout torchtree uses (x = sample ++ [N], parameters
   = sample ++ [m], a univariate torch distribution): right unless BOTH x and a parameter carry the
   sample shape, where it answers [] *)
Definition sig (ss : list nat) (batched : bool) : list nat := if batched then ss else [].

Lemma firstn_app_len {A} (a b : list A) n : n = length a -> firstn n (a ++ b) = a.
Proof. intros ->. rewrite firstn_app, Nat.sub_diag, firstn_all. simpl. apply app_nil_r. Qed.

Lemma dist_sample_shape_standard_l ss N m xb pb : ss <> [] ->
  dist_sample_shape (sig ss xb ++ [N]) (sig ss pb ++ [m]) = if xb && pb then [] else sig ss (xb || pb).
Proof.
  intros Hss. assert (L : 0 < length ss) by (destruct ss; [contradiction|simpl; lia]).
  unfold dist_sample_shape. destruct xb, pb; cbn [sig app andb orb]; rewrite ?app_length; cbn [length].
  - rewrite Nat.ltb_irrefl.
    replace (length ss + 1 =? 0) with false by (symmetry; apply Nat.eqb_neq; lia).
    now rewrite Nat.sub_diag.
  - replace (1 <? length ss + 1) with true by (symmetry; apply Nat.ltb_lt; lia).
    change (1 =? 0) with false. cbv iota. apply firstn_app_len. lia.
  - replace (length ss + 1 <? 1) with false by (symmetry; apply Nat.ltb_ge; lia).
    change (1 =? 0) with false. cbv iota. apply firstn_app_len. lia.
  - reflexivity.
Qed.

(* parameters given as JSON numbers are 0-dimensional: batch_shape [] *)
Lemma dist_sample_shape_scalar_l ss N xb : dist_sample_shape (sig ss xb ++ [N]) [] = sig ss xb.
Proof.
  unfold dist_sample_shape. destruct xb; cbn [sig app]; [|reflexivity].
  rewrite app_length. cbn [length].
  replace (0 <? length ss + 1) with true by (symmetry; apply Nat.ltb_lt; lia).
  change (0 =? 0) with true. cbv iota. apply firstn_app_len. lia.
Qed.

(* event rank 1 (Dirichlet, multivariate normal through the wrapper): batch_shape = sample shape of
   the parameters; for a one-axis sample shape right exactly when x is batched *)
Lemma dist_sample_shape_event1_l S N xb pb :
  dist_sample_shape (sig [S] xb ++ [N]) (sig [S] pb) = sig [S] xb.
Proof. destruct xb, pb; reflexivity. Qed.

(* ================================================================ the joint density adds up per sample *)
Section Joint.
Context {T : Type}.
Variable zero : T.
Variable add : T -> T -> T.
Hypothesis add_0_r : forall x, add x zero = x.
Notation tsum := (tsum zero add).
Notation comp_sum := (comp_sum zero add).
Notation joint_spec := (joint_spec zero add).
Notation joint_term := (joint_term zero add).
Notation joint_log_prob := (joint_log_prob zero add).
Notation sum_dim := (sum_dim zero add).

Definition wf_tc (S : nat) (c : tcomp T) : Prop := length (tc_data c) = numel (tc_shape S c).

(* the two shapes a term can take: per-sample column, or one value for every sample *)
Definition term_S (S : nat) (c : tcomp T) : tensor T := mkT [S; 1] (map (fun s => comp_sum S s c) (seq 0 S)).
Definition term_1 (S : nat) (c : tcomp T) : tensor T := mkT [1] [comp_sum S 0 c].

Lemma map_chunk1 (d : list T) : map (fun s => tsum (chunk 1 s d)) (seq 0 (length d)) = d.
Proof.
  induction d as [|x d IH]; [reflexivity|].
  simpl length. simpl seq. simpl map. f_equal.
  - unfold chunk. simpl. apply add_0_r.
  - rewrite <- seq_shift, map_map. rewrite <- IH at 2. apply map_ext. intros s. now rewrite chunk_S_cons.
Qed.

Lemma sum_vec N (d : list T) : length d = N ->
  sum_dim (-1) true (mkT [N] d) = Some (mkT [1] [tsum d]).
Proof.
  intros H. change [N] with ([] ++ [N]).
  rewrite (sum_last zero add true [] N d) by (simpl; lia).
  simpl. now rewrite (chunk_0 N d H).
Qed.

Lemma joint_term_typed S J (c : tcomp T) :
  0 < S -> wf_tc S c -> rep_ok S c = true -> ambiguous1 S c = false -> (J = [] \/ J = [S]) ->
  joint_term J (tc_comp S c) = Some (term_S S c) \/
  (tc_batched c = false /\ joint_term J (tc_comp S c) = Some (term_1 S c)).
Proof.
  intros HS Hwf Hrep Hamb HJ. destruct c as [b e rep d].
  unfold wf_tc, tc_shape in Hwf. unfold rep_ok in Hrep. unfold ambiguous1 in Hamb.
  cbn [tc_batched tc_event tc_rep tc_data] in *.
  unfold joint_term, tc_comp, tc_shape. cbn [tc_batched tc_event tc_rep tc_data c_lp c_ss tshape].
  destruct b; cbn [sigma app] in *.
  - (* carries the sample axis: the reported shape must be [S] *)
    destruct rep as [|r rs]; [discriminate|].
    change (shape_eqb (r :: rs) []) with false in Hrep. cbn [orb] in Hrep.
    apply shape_eqb_eq in Hrep. injection Hrep as -> ->.
    left. destruct e as [|n e'].
    + rewrite shape_eqb_refl. rewrite unsqueeze_last. cbn [app]. unfold term_S. f_equal. f_equal.
      unfold M_tensor.comp_sum; cbn [tc_batched tc_event tc_data numel fold_right].
      simpl in Hwf. replace S with (length d) by lia. symmetry. apply map_chunk1.
    + replace (shape_eqb (S :: n :: e') [S]) with false
        by (unfold shape_eqb; cbn [list_eqb]; now rewrite andb_false_r).
      cbn [shape_eqb list_eqb length]. change (1 <? Datatypes.S (Datatypes.S (length e'))) with true. cbv iota.
      cbn [firstn]. rewrite (view_flat_1 S (n :: e') d HS). cbn [obind].
      change [S; numel (n :: e')] with ([S] ++ [numel (n :: e')]).
      rewrite (sum_last zero add true [S] (numel (n :: e')) d) by (simpl in Hwf |- *; lia).
      cbn [app numel fold_right]. rewrite Nat.mul_1_r. reflexivity.
  - destruct rep as [|r rs].
    + (* unbatched component reporting no sample shape *)
      right. split; [reflexivity|]. destruct e as [|n e'].
      * rewrite shape_eqb_refl. rewrite unsqueeze_last. cbn [app]. unfold term_1. f_equal. f_equal.
        unfold M_tensor.comp_sum; cbn [tc_batched tc_data tc_event].
        destruct d as [|x [|y d']]; try discriminate. now rewrite (tsum_single zero add add_0_r).
      * cbn [shape_eqb list_eqb length firstn map app]. change (0 <? Datatypes.S (length e')) with true. cbv iota.
        rewrite view_flat_0. cbn [obind]. now rewrite (sum_vec _ d Hwf).
    + (* unbatched value, reported sample shape [S] *)
      change (shape_eqb (r :: rs) []) with false in Hrep. cbn [orb] in Hrep.
      apply shape_eqb_eq in Hrep. injection Hrep as -> ->.
      apply orb_false_iff in Hamb. destruct Hamb as [Hne Hlen].
      destruct e as [|n [|n2 e']]; [| |discriminate].
      * right. split; [reflexivity|]. cbn [shape_eqb list_eqb]. rewrite unsqueeze_0_scalar. unfold term_1. f_equal. f_equal.
        unfold M_tensor.comp_sum; cbn [tc_batched tc_data tc_event].
        destruct d as [|x [|y d']]; try discriminate. now rewrite (tsum_single zero add add_0_r).
      * rewrite Hne. cbn [shape_eqb list_eqb length last]. change (1 <? 1) with false. cbv iota.
        destruct (n =? 1) eqn:En; cbn [negb]; cbv iota.
        -- apply Nat.eqb_eq in En. subst n. change (1 =? 1) with true. cbv iota.
           assert (HS1 : S <> 1).
           { intros ->. unfold shape_eqb in Hne. cbn in Hne. discriminate. }
           simpl in Hwf. destruct d as [|x [|y d']]; try discriminate.
           destruct HJ as [->| ->].
           ++ right. split; [reflexivity|]. cbn [map app]. rewrite expand_1_nil. unfold term_1.
              unfold M_tensor.comp_sum; cbn [tc_batched tc_data tc_event]. now rewrite (tsum_single zero add add_0_r).
           ++ left. rewrite (expand_1_S S x HS1). unfold term_S. f_equal. f_equal. apply map_ext. intros s.
              unfold M_tensor.comp_sum; cbn [tc_batched tc_data tc_event]. now rewrite (tsum_single zero add add_0_r).
        -- right. split; [reflexivity|]. simpl in Hwf. rewrite (sum_vec n d) by lia. reflexivity.
Qed.

End Joint.

Section JointSum.
Context {T : Type}.
Variable zero : T.
Variable add : T -> T -> T.
Hypothesis add_0_r : forall x, add x zero = x.
Notation tsum := (tsum zero add).
Notation comp_sum := (comp_sum zero add).
Notation joint_spec := (joint_spec zero add).
Notation joint_term := (joint_term zero add).
Notation joint_log_prob := (joint_log_prob zero add).
Notation sum_dim := (sum_dim zero add).
Notation tS := (term_S zero add).
Notation t1 := (term_1 zero add).

Lemma length_flat_map_const {A B} (g : A -> list B) m l : (forall x, length (g x) = m) ->
  length (flat_map g l) = length l * m.
Proof. intros H. induction l; simpl; [reflexivity|]. rewrite app_length, H, IHl. reflexivity. Qed.

Lemma count_ones (k : nat) (sh : list nat) (cs : list (tcomp T)) (f : tcomp T -> tensor T) :
  (forall c, nth k (tshape (f c)) 0 = 1) ->
  fold_right (fun t acc => nth k (tshape t) 0 + acc) 0 (map f cs) = length cs.
Proof. intros H. induction cs; simpl; [reflexivity|]. now rewrite H, IHcs. Qed.

(* all terms are per-sample columns *)
Lemma cat_sum_S S (cs : list (tcomp T)) : cs <> [] ->
  (c <- cat (-1) (map (tS S) cs) ;; sum_dim (-1) false c) =
  Some (mkT [S] (map (fun s => joint_spec S s cs) (seq 0 S))).
Proof.
  intros Hne. destruct cs as [|c0 cs']; [contradiction|]. set (cs := c0 :: cs') in *.
  unfold cat. change (map (tS S) cs) with (tS S c0 :: map (tS S) cs') at 1.
  cbv beta iota. change (tshape (tS S c0)) with [S; 1]. cbv iota.
  change (length [S; 1]) with 2. rewrite (norm_dim_last 1). cbn [obind].
  assert (F : forallb (fun t => same_except 1 [S; 1] (tshape t)) (map (tS S) cs) = true).
  { apply forallb_forall. intros t Ht. apply in_map_iff in Ht. destruct Ht as (c & <- & _).
    unfold same_except. cbn [term_S tshape firstn skipn length]. rewrite !shape_eqb_refl. reflexivity. }
  rewrite F. cbn [firstn skipn numel fold_right app].
  rewrite (count_ones 1 [] cs (tS S)) by reflexivity.
  set (m := length cs).
  set (g := fun o => map (fun c => comp_sum S o c) cs).
  assert (D : flat_map (fun o => flat_map (fun t => chunk (nth 1 (tshape t) 0 * 1) o (tdata t)) (map (tS S) cs))
                       (seq 0 (S * 1)) = flat_map g (seq 0 S)).
  { rewrite Nat.mul_1_r. apply flat_map_ext_in. intros o Ho. apply in_seq in Ho.
    rewrite flat_map_map. unfold g. rewrite <- flat_map_single. apply flat_map_ext_in. intros c _.
    cbn [term_S tshape tdata nth]. change (1 * 1) with 1. apply (chunk1_map (fun s => comp_sum S s c) S o). lia. }
  rewrite D. cbn [obind].
  assert (Lg : forall i, length (g i) = m) by (intros; unfold g; now rewrite map_length).
  change [S; m] with ([S] ++ [m]).
  rewrite (sum_last zero add false [S] m) by (rewrite (length_flat_map_const g m) by exact Lg; rewrite seq_length; simpl; lia).
  cbn [app numel fold_right]. rewrite Nat.mul_1_r. f_equal. f_equal.
  apply map_ext_in. intros s Hs. apply in_seq in Hs.
  rewrite (chunk_flat_map g m S s Lg) by lia. reflexivity.
Qed.

(* all terms are single values *)
Lemma cat_sum_1 S (cs : list (tcomp T)) : cs <> [] ->
  (c <- cat (-1) (map (t1 S) cs) ;; sum_dim (-1) false c) =
  Some (mkT [] [tsum (map (comp_sum S 0) cs)]).
Proof.
  intros Hne. destruct cs as [|c0 cs']; [contradiction|]. set (cs := c0 :: cs') in *.
  unfold cat. change (map (t1 S) cs) with (t1 S c0 :: map (t1 S) cs') at 1.
  cbv beta iota. change (tshape (t1 S c0)) with [1]. cbv iota.
  change (length [1]) with 1. rewrite (norm_dim_last 0). cbn [obind].
  assert (F : forallb (fun t => same_except 0 [1] (tshape t)) (map (t1 S) cs) = true).
  { apply forallb_forall. intros t Ht. apply in_map_iff in Ht. destruct Ht as (c & <- & _). reflexivity. }
  rewrite F. cbn [firstn skipn numel fold_right app seq flat_map].
  rewrite (count_ones 0 [] cs (t1 S)) by reflexivity.
  set (m := length cs).
  rewrite app_nil_r, flat_map_map.
  assert (D : flat_map (fun c => chunk (nth 0 (tshape (t1 S c)) 0 * 1) 0 (tdata (t1 S c))) cs
              = map (comp_sum S 0) cs).
  { rewrite <- flat_map_single. apply flat_map_ext_in. intros c _. reflexivity. }
  rewrite D. cbn [obind].
  change [m] with ([] ++ [m]).
  rewrite (sum_last zero add false [] m) by (rewrite map_length; simpl; unfold m; lia).
  cbn [app numel fold_right seq map].
  rewrite chunk_0 by (now rewrite map_length). reflexivity.
Qed.

(* a per-sample column and a single value cannot be concatenated *)
Definition is_S (S : nat) (t : tensor T) : bool := shape_eqb (tshape t) [S; 1].
Definition is_1 (t : tensor T) : bool := shape_eqb (tshape t) [1].

Lemma cat_mixed_S S t0 ts : tshape t0 = [S; 1] -> existsb is_1 ts = true -> cat (-1) (t0 :: ts) = None.
Proof.
  intros H0 Hex. unfold cat. rewrite H0. change (length [S; 1]) with 2. rewrite (norm_dim_last 1). cbn [obind].
  replace (forallb (fun t => same_except 1 [S; 1] (tshape t)) (t0 :: ts)) with false; [reflexivity|].
  symmetry. apply not_true_is_false. intros F. rewrite forallb_forall in F.
  apply existsb_exists in Hex. destruct Hex as (t & Hin & Ht). apply shape_eqb_eq in Ht.
  specialize (F t (or_intror Hin)). rewrite Ht in F. unfold same_except in F. cbn [length Nat.eqb] in F.
  rewrite andb_false_r in F. discriminate.
Qed.

Lemma cat_mixed_1 S t0 ts : tshape t0 = [1] -> existsb (is_S S) ts = true -> cat (-1) (t0 :: ts) = None.
Proof.
  intros H0 Hex. unfold cat. rewrite H0. change (length [1]) with 1. rewrite (norm_dim_last 0). cbn [obind].
  replace (forallb (fun t => same_except 0 [1] (tshape t)) (t0 :: ts)) with false; [reflexivity|].
  symmetry. apply not_true_is_false. intros F. rewrite forallb_forall in F.
  apply existsb_exists in Hex. destruct Hex as (t & Hin & Ht). apply shape_eqb_eq in Ht.
  specialize (F t (or_intror Hin)). rewrite Ht in F. unfold same_except in F. cbn [length Nat.eqb] in F.
  rewrite andb_false_r in F. discriminate.
Qed.

End JointSum.

Section JointMain.
Context {T : Type}.
Variable zero : T.
Variable add : T -> T -> T.
Hypothesis add_0_r : forall x, add x zero = x.
Notation tsum := (tsum zero add).
Notation comp_sum := (comp_sum zero add).
Notation joint_spec := (joint_spec zero add).
Notation joint_term := (joint_term zero add).
Notation joint_log_prob := (joint_log_prob zero add).
Notation tS := (term_S zero add).
Notation t1 := (term_1 zero add).

Definition term_ok (S : nat) (c : tcomp T) (t : tensor T) : Prop :=
  t = tS S c \/ (tc_batched c = false /\ t = t1 S c).

Lemma joint_J_cases S (cs : list (tcomp T)) :
  forallb (rep_ok S) cs = true -> joint_J cs = [] \/ joint_J cs = [S].
Proof.
  intros H. unfold joint_J. destruct cs as [|c cs']; [now left|].
  rewrite (longest_common [S]); [destruct (existsb nonempty _); auto|discriminate|discriminate|].
  apply Forall_forall. intros s Hs. apply in_map_iff in Hs. destruct Hs as (c' & <- & Hin).
  rewrite forallb_forall in H. specialize (H c' Hin). unfold rep_ok in H.
  apply orb_true_iff in H. destruct H as [H|H]; apply shape_eqb_eq in H; auto.
Qed.

Lemma mapM_terms S J (cs : list (tcomp T)) :
  0 < S -> Forall (wf_tc S) cs -> forallb (rep_ok S) cs = true -> ambiguous S cs = false ->
  (J = [] \/ J = [S]) ->
  exists ts, mapM (joint_term J) (map (tc_comp S) cs) = Some ts /\ Forall2 (term_ok S) cs ts.
Proof.
  intros HS Hwf Hrep Hamb HJ. induction cs as [|c cs IH].
  - exists []. split; [reflexivity|constructor].
  - inversion Hwf as [|? ? Hw Hws]; subst. cbn [forallb] in Hrep. apply andb_true_iff in Hrep. destruct Hrep as [Hr Hrs].
    unfold ambiguous in Hamb. cbn [existsb] in Hamb. apply orb_false_iff in Hamb. destruct Hamb as [Ha Has].
    destruct (IH Hws Hrs Has) as (ts & E & F).
    cbn [map mapM].
    destruct (joint_term_typed zero add add_0_r S J c HS Hw Hr Ha HJ) as [E1|[Hb E1]]; rewrite E1; cbn [obind]; rewrite E; cbn [obind].
    + exists (tS S c :: ts). split; [reflexivity|]. constructor; [now left|assumption].
    + exists (t1 S c :: ts). split; [reflexivity|]. constructor; [now right|assumption].
Qed.

Lemma classify_S S cs ts : Forall2 (term_ok S) cs ts -> ts = map (tS S) cs \/ existsb (@is_1 T) ts = true.
Proof.
  induction 1 as [|c t cs ts H _ IH]; [now left|].
  destruct H as [->|[_ ->]].
  - destruct IH as [->|IH]; [now left|right]. cbn [existsb]. rewrite IH. apply orb_true_r.
  - right. reflexivity.
Qed.

Lemma classify_1 S cs ts : Forall2 (term_ok S) cs ts ->
  (ts = map (t1 S) cs /\ Forall (fun c => tc_batched c = false) cs) \/ existsb (@is_S T S) ts = true.
Proof.
  induction 1 as [|c t cs ts H _ IH]; [left; split; [reflexivity|constructor]|].
  destruct H as [->|[Hb ->]].
  - right. cbn [existsb]. unfold is_S at 1. cbn [term_S tshape]. now rewrite shape_eqb_refl.
  - destruct IH as [[-> Hall]|IH].
    + left. split; [reflexivity|now constructor].
    + right. cbn [existsb]. rewrite IH. apply orb_true_r.
Qed.

Theorem joint_no_mixing_l S (cs : list (tcomp T)) (dflt : T) :
  0 < S -> Forall (wf_tc S) cs -> forallb (rep_ok S) cs = true -> ambiguous S cs = false ->
  joint_log_prob (joint_J cs) (map (tc_comp S) cs) = None \/
  exists R, joint_log_prob (joint_J cs) (map (tc_comp S) cs) = Some R /\
            (tshape R = [S] \/ tshape R = []) /\
            forall s, s < S -> value_at dflt R s = joint_spec S s cs.
Proof.
  intros HS Hwf Hrep Hamb.
  destruct (mapM_terms S (joint_J cs) cs HS Hwf Hrep Hamb (joint_J_cases S cs Hrep)) as (ts & E & F).
  unfold M_tensor.joint_log_prob. rewrite E. cbn [obind].
  destruct F as [|c0 t0 cs' ts' H0 F'].
  - left. reflexivity.
  - assert (F : Forall2 (term_ok S) (c0 :: cs') (t0 :: ts')) by now constructor.
    destruct H0 as [->|[Hb ->]].
    + destruct (classify_S S _ _ F) as [Ets|Hex].
      * right. rewrite Ets. rewrite (cat_sum_S zero add S (c0 :: cs')) by discriminate.
        eexists. split; [reflexivity|]. split; [now left|].
        intros s Hs. unfold value_at. cbn [tshape tdata].
        rewrite (nth_indep _ dflt (joint_spec S 0 (c0 :: cs'))) by now rewrite map_length, seq_length.
        rewrite (map_nth (fun s => joint_spec S s (c0 :: cs')) (seq 0 S) 0 s).
        now rewrite seq_nth.
      * left. cbn [existsb] in Hex. change (is_1 (tS S c0)) with (shape_eqb [S; 1] [1]) in Hex.
        replace (shape_eqb [S; 1] [1]) with false in Hex
          by (unfold shape_eqb; cbn [list_eqb]; now rewrite andb_false_r).
        cbn [orb] in Hex. now rewrite (cat_mixed_S S (tS S c0) ts' eq_refl Hex).
    + destruct (classify_1 S _ _ F) as [[Ets Hall]|Hex].
      * right. rewrite Ets. rewrite (cat_sum_1 zero add S (c0 :: cs')) by discriminate.
        eexists. split; [reflexivity|]. split; [now right|].
        intros s Hs. unfold value_at. cbn [tshape tdata nth]. unfold M_tensor.joint_spec. f_equal.
        apply map_ext_in. intros c Hc. rewrite Forall_forall in Hall. specialize (Hall c Hc).
        unfold M_tensor.comp_sum. now rewrite Hall.
      * left. cbn [existsb] in Hex. change (is_S S (t1 S c0)) with (shape_eqb [1] [S; 1]) in Hex.
        replace (shape_eqb [1] [S; 1]) with false in Hex
          by (unfold shape_eqb; cbn [list_eqb]; now rewrite andb_false_r).
        cbn [orb] in Hex. now rewrite (cat_mixed_1 S (t1 S c0) ts' eq_refl Hex).
Qed.

End JointMain.
