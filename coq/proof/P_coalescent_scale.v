(* Scaling law for the two grid models with a continuous N (PiecewiseLinearCoalescentGrid,
   PiecewiseExponentialCoalescentGrid): all times (and their keys), the grid abscissae and the
   population sizes multiplied by c > 0, growth rates divided by c:
       log p  becomes  log p - (n-1) ln c,   n-1 = sumN iscoal evs = number of coalescent events.
   (constant / exponential / skyride / skygrid: P_coalescent.v, Section Scaling.)

   Route: directly on the model, interval by interval.
   Part 1: the walk of the scaled events is the scaled walk (same lineage / grid / coalescent
           counts, same zero-length flags, end points times c), for ANY keys consistent with the
           times before and after scaling; hence a generic termwise lemma lp_scale.
   Part 2: piecewise exponential: pwexp_scaling_gen / pwexp_scaling (no hypothesis on the grid at
           all; theta > 0).
   Part 3: piecewise linear: lin_N is homogeneous of degree 1; the law holds as soon as N > 0
           where the model takes its logarithm (linear_scaling_gen).
   Part 4: that positivity from declarative hypotheses (thetas > 0, grid 0 < g_1 < g_2 < ...
           = the grid events, times >= 0): linear_scaling.
   Part 5: the positivity hypothesis cannot be dropped (ln of a non-positive number):
           linear_scaling_negative_time_refuted. *)
From Coq Require Import QArith ZArith Reals Qreals List Lia Lra Permutation Sorted Bool Arith.
Import ListNotations.
From TT Require Import Num NumR Tree M_coalescent P_coalescent P_coalescent_tie.
Local Open Scope R_scope.

(* ================================================================== Part 1: the scaled walk *)
Definition scale_iv (c : R) (iv : ival R) : ival R :=
  mkIv (c * i_a iv) (c * i_b iv) (i_zero iv) (i_k iv) (i_g iv) (i_c iv) (i_end iv).

Section Walk.
Variables (cq : Q) (c : R).
Notation sc := (scale_ev cq c).

Lemma insert_scale (e : ev) l :
  (forall x, In x l -> Qle_bool (ekey (sc e)) (ekey (sc x)) = Qle_bool (ekey e) (ekey x)) ->
  insert_ev (sc e) (map sc l) = map sc (insert_ev e l).
Proof.
  induction l as [|x r IH]; intros H; cbn [map insert_ev]; [reflexivity|].
  rewrite (H x (or_introl eq_refl)). destruct (Qle_bool (ekey e) (ekey x)); cbn [map]; [reflexivity|].
  rewrite IH by (intros; apply H; right; assumption). reflexivity.
Qed.

Lemma sort_scale (l : list ev) :
  (forall a b, In a l -> In b l -> Qle_bool (ekey (sc a)) (ekey (sc b)) = Qle_bool (ekey a) (ekey b)) ->
  sort_ev (map sc l) = map sc (sort_ev l).
Proof.
  induction l as [|e r IH]; intros H; cbn [map sort_ev]; [reflexivity|].
  rewrite IH by (intros; apply H; right; assumption).
  apply insert_scale. intros x Hx. apply H; [left; reflexivity|].
  right. eapply Permutation_in; [apply sort_perm | exact Hx].
Qed.

Lemma walk_scale (l : list ev) : forall (p : ev) k g n,
  (forall a b, In a (p :: l) -> In b (p :: l) ->
     Qeq_bool (ekey (sc a)) (ekey (sc b)) = Qeq_bool (ekey a) (ekey b)) ->
  walk (ekey (sc p)) (etime (sc p)) k g n (map sc l)
  = map (scale_iv c) (walk (ekey p) (etime p) k g n l).
Proof.
  induction l as [|e r IH]; intros p k g n H; cbn [map walk]; [reflexivity|].
  f_equal.
  - unfold scale_iv; cbn [i_a i_b i_zero i_k i_g i_c i_end].
    rewrite (H p e) by (simpl; auto). reflexivity.
  - change (ekind (sc e)) with (ekind e). apply IH. intros a b Ha Hb. apply H; right; assumption.
Qed.

Lemma intervals_scale (s : list ev) :
  (forall a b, In a s -> In b s -> Qeq_bool (ekey (sc a)) (ekey (sc b)) = Qeq_bool (ekey a) (ekey b)) ->
  intervals (map sc s) = map (scale_iv c) (intervals s).
Proof.
  destruct s as [|e r]; [reflexivity|]. intros H. cbn [map intervals].
  apply (walk_scale (e :: r) e 0%Z 0%nat 0%nat).
  intros a b Ha Hb. apply H.
  - destruct Ha as [<-|Ha]; [left; reflexivity | exact Ha].
  - destruct Hb as [<-|Hb]; [left; reflexivity | exact Hb].
Qed.

Hypothesis Hc : 0 < c.

(* keys consistent with the times before and after scaling compare alike *)
Lemma keys_scale_le (evs : list ev) : keys_ok evs -> keys_ok (map sc evs) ->
  forall a b, In a evs -> In b evs -> Qle_bool (ekey (sc a)) (ekey (sc b)) = Qle_bool (ekey a) (ekey b).
Proof.
  intros K K' a b Ha Hb. pose proof (K a b Ha Hb) as H1.
  pose proof (K' (sc a) (sc b) (in_map sc _ _ Ha) (in_map sc _ _ Hb)) as H2.
  change (etime (sc a)) with (c * etime a) in H2. change (etime (sc b)) with (c * etime b) in H2.
  destruct (Qle_bool (ekey (sc a)) (ekey (sc b))) eqn:E1; destruct (Qle_bool (ekey a) (ekey b)) eqn:E2;
    try reflexivity; exfalso.
  - assert (A : c * etime a <= c * etime b) by (apply H2; reflexivity).
    assert (B : etime a <= etime b) by nra. apply H1 in B. congruence.
  - assert (A : etime a <= etime b) by (apply H1; reflexivity).
    assert (B : c * etime a <= c * etime b) by nra. apply H2 in B. congruence.
Qed.
Lemma keys_scale_eq (evs : list ev) : keys_ok evs -> keys_ok (map sc evs) ->
  forall a b, In a evs -> In b evs -> Qeq_bool (ekey (sc a)) (ekey (sc b)) = Qeq_bool (ekey a) (ekey b).
Proof.
  intros K K' a b Ha Hb. pose proof (key_eq_time evs a b K Ha Hb) as H1.
  pose proof (key_eq_time _ (sc a) (sc b) K' (in_map sc _ _ Ha) (in_map sc _ _ Hb)) as H2.
  change (etime (sc a)) with (c * etime a) in H2. change (etime (sc b)) with (c * etime b) in H2.
  destruct (Qeq_bool (ekey (sc a)) (ekey (sc b))) eqn:E1; destruct (Qeq_bool (ekey a) (ekey b)) eqn:E2;
    try reflexivity; exfalso.
  - assert (A : c * etime a = c * etime b) by (apply H2; reflexivity).
    assert (B : etime a = etime b) by nra. apply H1 in B. congruence.
  - assert (A : etime a = etime b) by (apply H1; reflexivity).
    assert (B : c * etime a = c * etime b) by (rewrite A; reflexivity). apply H2 in B. congruence.
Qed.

(* positive rational factor on the keys, positive real factor on the times: consistency is kept *)
Lemma keys_ok_scale (evs : list ev) : (0 < cq)%Q -> keys_ok evs -> keys_ok (map sc evs).
Proof.
  intros Hq K a' b' Ha Hb. apply in_map_iff in Ha, Hb.
  destruct Ha as [a [<- Ha]], Hb as [b [<- Hb]]. cbn [scale_ev ekey etime].
  rewrite Qle_bool_iff, (Qmult_le_l _ _ _ Hq), <- Qle_bool_iff, (K a b Ha Hb). split; intros; nra.
Qed.

Variable evs : list ev.
Hypothesis K : keys_ok evs.
Hypothesis K' : keys_ok (map sc evs).

Theorem intervals_sort_scale :
  intervals (sort_ev (map sc evs)) = map (scale_iv c) (intervals (sort_ev evs)).
Proof.
  rewrite sort_scale by (apply keys_scale_le; assumption).
  apply intervals_scale. intros a b Ha Hb.
  apply (keys_scale_eq evs K K'); (eapply Permutation_in; [apply sort_perm | eassumption]).
Qed.

Lemma ksum_scale piece piece' (ivs : list (ival R)) :
  List.Forall (fun iv => i_zero iv = false -> piece' (scale_iv c iv) = piece iv) ivs ->
  ksum NumR piece' (map (scale_iv c) ivs) = ksum NumR piece ivs.
Proof.
  intros H. unfold ksum. f_equal. rewrite map_map.
  induction H as [|iv l Hiv H IH]; cbn [map]; [reflexivity|]. rewrite IH. f_equal.
  change (i_zero (scale_iv c iv)) with (i_zero iv). change (i_k (scale_iv c iv)) with (i_k iv).
  destruct (i_zero iv); [reflexivity|]. rewrite Hiv by reflexivity. reflexivity.
Qed.

Lemma csum_scale lnN lnN' (s : list ev) :
  List.Forall (fun iv => i_end iv = Coal -> lnN' (scale_iv c iv) = lnN iv + ln c) (intervals s) ->
  csum NumR lnN' (map (scale_iv c) (intervals s))
  = csum NumR lnN (intervals s) + INR (sumN iscoal s) * ln c.
Proof.
  rewrite <- (csum_const (ln c) s). unfold csum. rewrite !nsum_Rsum, map_map.
  generalize (intervals s). intros l H.
  induction H as [|iv l Hiv H IH]; cbn [map Rsum]; [lra|]. rewrite IH.
  change (i_end (scale_iv c iv)) with (i_end iv).
  destruct (i_end iv); cbn [zero NumR]; try lra. rewrite Hiv by reflexivity. lra.
Qed.

(* the generic termwise statement: pieces invariant, ln N at the coalescences shifted by ln c *)
Theorem lp_scale piece piece' lnN lnN' :
  List.Forall (fun iv => (i_zero iv = false -> piece' (scale_iv c iv) = piece iv) /\
                         (i_end iv = Coal -> lnN' (scale_iv c iv) = lnN iv + ln c))
              (intervals (sort_ev evs)) ->
  lp NumR piece' lnN' (intervals (sort_ev (map sc evs)))
  = lp NumR piece lnN (intervals (sort_ev evs)) - INR (sumN iscoal evs) * ln c.
Proof.
  intros H. rewrite intervals_sort_scale. unfold lp.
  rewrite (ksum_scale piece piece') by (eapply Forall_impl; [|exact H]; intros iv [A _]; exact A).
  rewrite (csum_scale lnN lnN') by (eapply Forall_impl; [|exact H]; intros iv [_ A]; exact A).
  rewrite (sumN_perm _ _ _ (sort_perm evs)). cbn [sub opp NumR]. lra.
Qed.

(* ---- homogeneity of the grid lookups ---- *)
Lemma g0_scale gridT j : g0 NumR (map (Rmult c) gridT) j = c * g0 NumR gridT j.
Proof.
  unfold g0. destruct j as [|j]; cbn [lk zero NumR]; [lra|]. apply lk_map_scale.
Qed.
Lemma lk_map_div (l : list R) j : lk (map (fun g => g / c) l) j 0 = lk l j 0 / c.
Proof.
  revert j. induction l as [|x l IH]; intros [|j]; cbn [map lk]; try (unfold Rdiv; ring). apply IH.
Qed.
Lemma cdiv x d : (c * x) / (c * d) = x / d.
Proof.
  unfold Rdiv. rewrite Rinv_mult. replace (c * x * (/ c * / d)) with (x * / d * (c * / c)) by ring.
  rewrite Rinv_r by lra. ring.
Qed.

(* ================================================================== Part 2: piecewise exponential *)
Section PwExp.
Variables (theta : R) (growth gridT : list R).
Hypothesis Ht : 0 < theta.
Let growth' := map (fun g => g / c) growth.
Let gridT' := map (Rmult c) gridT.

Lemma pe_step i :
  lk growth' i 0 * (g0 NumR gridT' (S i) - g0 NumR gridT' i)
  = lk growth i 0 * (g0 NumR gridT (S i) - g0 NumR gridT i).
Proof. unfold growth', gridT'. rewrite lk_map_div, !g0_scale. field. lra. Qed.

Lemma pe_lnNg_scale j :
  pe_lnNg NumR (ln (c * theta)) growth' gridT' j = pe_lnNg NumR (ln theta) growth gridT j + ln c.
Proof.
  induction j as [|i IH]; cbn [pe_lnNg].
  - rewrite ln_mult by lra. lra.
  - rewrite IH. cbn [sub mul zero NumR]. rewrite pe_step. lra.
Qed.

Lemma pe_lnN_scale j t :
  pe_lnN NumR (ln (c * theta)) growth' gridT' j (c * t) = pe_lnN NumR (ln theta) growth gridT j t + ln c.
Proof.
  unfold pe_lnN. rewrite pe_lnNg_scale. cbn [sub mul zero NumR]. unfold growth', gridT'.
  rewrite lk_map_div, g0_scale.
  replace (lk growth j 0 / c * (c * t - c * g0 NumR gridT j)) with (lk growth j 0 * (t - g0 NumR gridT j))
    by (field; lra).
  lra.
Qed.

Lemma pe_piece_scale gq gq' (iv : ival R) :
  (forall j, Qeq_bool (lk gq' j 0%Q) 0 = Qeq_bool (lk gq j 0%Q) 0) ->
  pe_piece NumR (ln (c * theta)) gq' growth' gridT' (scale_iv c iv)
  = pe_piece NumR (ln theta) gq growth gridT iv.
Proof.
  intros Hg. unfold pe_piece. change (i_g (scale_iv c iv)) with (i_g iv). rewrite Hg, pe_lnNg_scale.
  cbn [nexp NumR]. rewrite exp_plus, exp_ln by exact Hc.
  set (ng := exp (pe_lnNg NumR (ln theta) growth gridT (i_g iv))).
  unfold dur. change (i_a (scale_iv c iv)) with (c * i_a iv). change (i_b (scale_iv c iv)) with (c * i_b iv).
  cbn [sub mul div zero NumR]. unfold growth', gridT'. rewrite lk_map_div, g0_scale.
  set (gj := lk growth (i_g iv) 0). set (t0 := g0 NumR gridT (i_g iv)).
  destruct (Qeq_bool (lk gq (i_g iv) 0%Q) 0).
  - rewrite <- Rmult_minus_distr_l, (Rmult_comm ng c). apply cdiv.
  - replace (gj / c * (c * i_b iv - c * t0)) with (gj * (i_b iv - t0)) by (field; lra).
    replace (gj / c * (c * i_a iv - c * t0)) with (gj * (i_a iv - t0)) by (field; lra).
    replace (ng * c * (gj / c)) with (ng * gj) by (field; lra). reflexivity.
Qed.

Theorem pwexp_scaling_gen gq gq' :
  (forall j, Qeq_bool (lk gq' j 0%Q) 0 = Qeq_bool (lk gq j 0%Q) 0) ->
  pwexp_lp NumR (c * theta) gq' growth' gridT' (map sc evs)
  = pwexp_lp NumR theta gq growth gridT evs - INR (sumN iscoal evs) * ln c.
Proof.
  intros Hg. unfold pwexp_lp. cbn [nln NumR]. apply lp_scale.
  apply Forall_forall. intros iv _. split; intros _.
  - apply pe_piece_scale, Hg.
  - change (i_g (scale_iv c iv)) with (i_g iv). change (i_b (scale_iv c iv)) with (c * i_b iv).
    apply pe_lnN_scale.
Qed.
End PwExp.

(* ================================================================== Part 3: piecewise linear *)
Section Linear.
Variables (thq thq' : list Q) (th gridT : list R).
Let th' := map (Rmult c) th.
Let gridT' := map (Rmult c) gridT.
Hypothesis Hflat : forall j, lin_flat thq' (length gridT) j = lin_flat thq (length gridT) j.

Lemma lin_N_scale j t : lin_N NumR th' gridT' j (c * t) = c * lin_N NumR th gridT j t.
Proof.
  unfold lin_N, th', gridT'. rewrite map_length, !g0_scale. cbn [zero NumR]. rewrite !lk_map_scale.
  destruct (length gridT <=? j)%nat; [reflexivity|]. cbn [add sub mul div NumR].
  rewrite <- !Rmult_minus_distr_l.
  set (x := lk th (S j) 0 - lk th j 0). set (y := t - g0 NumR gridT j).
  set (d := g0 NumR gridT (S j) - g0 NumR gridT j).
  replace (c * x * (c * y)) with (c * (c * (x * y))) by ring. rewrite cdiv. unfold Rdiv. ring.
Qed.

(* where the model takes ln N on the interval iv: both end points of a non-empty non-flat piece,
   the end point of an interval ending in a coalescence *)
Definition lin_pos_iv (iv : ival R) : Prop :=
  (i_zero iv = false -> lin_flat thq (length gridT) (i_g iv) = false ->
   0 < lin_N NumR th gridT (i_g iv) (i_a iv) /\ 0 < lin_N NumR th gridT (i_g iv) (i_b iv)) /\
  (i_end iv = Coal -> 0 < lin_N NumR th gridT (i_g iv) (i_b iv)).

Lemma lin_piece_scale (iv : ival R) :
  (lin_flat thq (length gridT) (i_g iv) = false ->
   0 < lin_N NumR th gridT (i_g iv) (i_a iv) /\ 0 < lin_N NumR th gridT (i_g iv) (i_b iv)) ->
  lin_piece NumR thq' th' gridT' (scale_iv c iv) = lin_piece NumR thq th gridT iv.
Proof.
  intros Hp. unfold lin_piece. change (i_g (scale_iv c iv)) with (i_g iv).
  replace (length gridT') with (length gridT) by (unfold gridT'; rewrite map_length; reflexivity).
  rewrite Hflat. unfold dur.
  change (i_a (scale_iv c iv)) with (c * i_a iv). change (i_b (scale_iv c iv)) with (c * i_b iv).
  destruct (lin_flat thq (length gridT) (i_g iv)).
  - cbn [sub div zero NumR]. unfold th'. rewrite lk_map_scale. apply div_scale, Hc.
  - destruct (Hp eq_refl) as [Ha Hb]. cbv zeta. rewrite !lin_N_scale.
    set (na := lin_N NumR th gridT (i_g iv) (i_a iv)) in *.
    set (nb := lin_N NumR th gridT (i_g iv) (i_b iv)) in *.
    cbn [sub mul div nln NumR]. rewrite !ln_mult by lra.
    replace (ln c + ln nb - (ln c + ln na)) with (ln nb - ln na) by ring.
    rewrite <- !Rmult_minus_distr_l, Rmult_assoc. apply cdiv.
Qed.

Theorem linear_scaling_gen :
  List.Forall lin_pos_iv (intervals (sort_ev evs)) ->
  linear_lp NumR thq' th' gridT' (map sc evs)
  = linear_lp NumR thq th gridT evs - INR (sumN iscoal evs) * ln c.
Proof.
  intros Hp. unfold linear_lp. apply lp_scale.
  eapply Forall_impl; [|exact Hp]. intros iv [P1 P2]. split.
  - intros Z. apply lin_piece_scale. intros F. apply P1; assumption.
  - intros E. change (i_g (scale_iv c iv)) with (i_g iv). change (i_b (scale_iv c iv)) with (c * i_b iv).
    rewrite lin_N_scale. cbn [nln NumR]. rewrite ln_mult by (try lra; apply P2, E). lra.
Qed.
End Linear.
End Walk.

(* ================================================================== exact factors on the exact arguments *)
Lemma Qeq_bool_ext a b a' b' : ((a' == b')%Q <-> (a == b)%Q) -> Qeq_bool a' b' = Qeq_bool a b.
Proof.
  intros H. destruct (Qeq_bool a' b') eqn:E1; destruct (Qeq_bool a b) eqn:E2; try reflexivity; exfalso.
  - apply Qeq_bool_neq in E2. apply E2, H, Qeq_bool_iff, E1.
  - apply Qeq_bool_neq in E1. apply E1, H, Qeq_bool_iff, E2.
Qed.
Lemma lk_map_Qmult cq (l : list Q) j : (lk (map (Qmult cq) l) j 0 == cq * lk l j 0)%Q.
Proof.
  revert j. induction l as [|x l IH]; intros [|j]; cbn [map lk]; try ring. apply IH.
Qed.
Lemma lk_map_Qdiv cq (l : list Q) j : (lk (map (fun g => g / cq) l) j 0 == lk l j 0 / cq)%Q.
Proof.
  revert j. induction l as [|x l IH]; intros [|j]; cbn [map lk]; try (unfold Qdiv; ring). apply IH.
Qed.
Lemma lin_flat_Qmult cq thq m j : ~ (cq == 0)%Q -> lin_flat (map (Qmult cq) thq) m j = lin_flat thq m j.
Proof.
  intros Hq. unfold lin_flat. destruct (m <=? j)%nat; [reflexivity|].
  apply Qeq_bool_ext. rewrite !lk_map_Qmult. apply Qmult_inj_l, Hq.
Qed.
Lemma growth0_Qdiv cq gq j : ~ (cq == 0)%Q ->
  Qeq_bool (lk (map (fun g => (g / cq)%Q) gq) j 0%Q) 0 = Qeq_bool (lk gq j 0%Q) 0.
Proof.
  intros Hq. apply Qeq_bool_ext. rewrite lk_map_Qdiv. set (x := lk gq j 0%Q). split; intros H.
  - rewrite <- (Qmult_div_r x cq Hq), H. ring.
  - rewrite H. unfold Qdiv. ring.
Qed.
Lemma Qpos_nz cq : (0 < cq)%Q -> ~ (cq == 0)%Q.
Proof. intros H E. rewrite E in H. exact (Qlt_irrefl 0 H). Qed.

(* PiecewiseExponentialCoalescentGrid: theta * c, growth rates / c (exact copies / cq), grid * c,
   times * c (keys * cq).  No hypothesis on the grid: any abscissae, any grid events, ties allowed. *)
Theorem pwexp_scaling (cq : Q) (c : R) theta gq growth gridT (evs : list ev) :
  0 < c -> (0 < cq)%Q -> keys_ok evs -> 0 < theta ->
  pwexp_lp NumR (c * theta) (map (fun g => (g / cq)%Q) gq) (map (fun g => g / c) growth)
           (map (Rmult c) gridT) (map (scale_ev cq c) evs)
  = pwexp_lp NumR theta gq growth gridT evs - INR (sumN iscoal evs) * ln c.
Proof.
  intros Hc Hq K Ht.
  apply (pwexp_scaling_gen cq c Hc evs K (keys_ok_scale cq c Hc evs Hq K) theta growth gridT Ht).
  intros j. apply growth0_Qdiv, Qpos_nz, Hq.
Qed.
Print Assumptions pwexp_scaling.

(* ================================================================== Part 4: N > 0 where the linear model takes ln N *)
Lemma sorted_nle_le l t : StronglySorted Rle l -> forall i, (i < nle l t)%nat -> lk l i 0 <= t.
Proof.
  induction 1 as [|x r Hs IH F]; intros i Hi; simpl in Hi; [lia|].
  destruct (Rle_dec x t) as [Hle|Hle].
  - destruct i as [|i]; simpl; [exact Hle|]. apply IH. lia.
  - assert (F2 : List.Forall (fun y => t < y) r).
    { eapply Forall_impl; [|exact F]. intros y Hy. simpl in Hy. lra. }
    rewrite (nle_zero r t F2) in Hi. lia.
Qed.
Lemma sorted_nlt_ge l t : StronglySorted Rle l ->
  forall i, (nlt l t <= i)%nat -> (i < length l)%nat -> t <= lk l i 0.
Proof.
  induction 1 as [|x r Hs IH F]; intros i Hi Hl; simpl in Hi, Hl; [lia|].
  destruct (Rlt_dec x t) as [Hlt|Hlt].
  - destruct i as [|i]; [lia|]. simpl. apply IH; lia.
  - destruct i as [|i]; simpl; [lra|].
    assert (F1 : List.Forall (fun y => t <= y) r).
    { eapply Forall_impl; [|exact F]. intros y Hy. simpl in Hy. lra. }
    apply IH; [|lia]. rewrite (nlt_zero r t F1). lia.
Qed.

Lemma walk_times (P : R -> Prop) (l : list ev) : forall pk pt k g n,
  P pt -> (forall e, In e l -> P (etime e)) ->
  List.Forall (fun iv => P (i_a iv) /\ P (i_b iv)) (walk pk pt k g n l).
Proof.
  induction l as [|e r IH]; intros pk pt k g n Hp Hl; cbn [walk]; constructor.
  - cbn [i_a i_b]. split; [exact Hp | apply Hl; left; reflexivity].
  - apply IH; [apply Hl; left; reflexivity | intros x Hx; apply Hl; right; exact Hx].
Qed.
Lemma intervals_times (P : R -> Prop) (s : list ev) :
  (forall e, In e s -> P (etime e)) -> List.Forall (fun iv => P (i_a iv) /\ P (i_b iv)) (intervals s).
Proof.
  destruct s as [|e r]; intros H; [constructor|]. unfold intervals.
  apply walk_times; [apply H; left; reflexivity | exact H].
Qed.

Section LinPos.
Variables (thq : list Q) (th gridT : list R) (evs : list ev).
Hypothesis K : keys_ok evs.
Hypothesis SG : StronglySorted Rlt (0 :: gridT).
Hypothesis PG : Permutation gridT (grid_times evs).
Hypothesis Hth : List.Forall (fun x => 0 < x) th.
Hypothesis Hlen : length th = S (length gridT).
Hypothesis Ht0 : List.Forall (fun e => 0 <= etime e) evs.

Lemma SG' : StronglySorted Rle gridT.
Proof. apply sorted_lt_le. inversion SG; assumption. Qed.
Lemma glt_sorted t : glt (sort_ev evs) t = nlt gridT t.
Proof.
  unfold glt. rewrite (cntN_perm _ _ _ _ _ (sort_perm evs)). fold (glt evs t).
  rewrite glt_grid_times. symmetry. apply nlt_perm, PG.
Qed.
Lemma gcount_sorted t : gcount (sort_ev evs) t = nle gridT t.
Proof.
  unfold gcount. rewrite (cntN_perm _ _ _ _ _ (sort_perm evs)). fold (gcount evs t).
  rewrite gcount_grid_times. symmetry. apply nle_perm, PG.
Qed.
Lemma g0_le j t : 0 <= t -> (j <= nle gridT t)%nat -> g0 NumR gridT j <= t.
Proof.
  intros Ht Hj. destruct j as [|j]; [exact Ht|]. rewrite g0_S. apply sorted_nle_le; [apply SG' | lia].
Qed.
Lemma g0_ge j t : (nlt gridT t <= j)%nat -> (j < length gridT)%nat -> t <= g0 NumR gridT (S j).
Proof. intros Hj Hl. rewrite g0_S. apply sorted_nlt_ge; [apply SG' | exact Hj | exact Hl]. Qed.
Lemma th_pos j : (j < length th)%nat -> 0 < lk th j 0.
Proof. intros Hj. rewrite lk_nth. apply (proj1 (Forall_forall _ _) Hth), nth_In, Hj. Qed.

(* N is a convex combination of two thetas on its own piece, the last theta beyond the grid *)
Lemma lin_N_pos j t :
  (j <= length gridT)%nat -> g0 NumR gridT j <= t -> ((j < length gridT)%nat -> t <= g0 NumR gridT (S j)) ->
  0 < lin_N NumR th gridT j t.
Proof.
  intros Hj Hlo Hhi. unfold lin_N. destruct (length gridT <=? j)%nat eqn:E.
  - apply th_pos. lia.
  - apply Nat.leb_gt in E. specialize (Hhi E).
    pose proof (th_pos j ltac:(lia)) as P0. pose proof (th_pos (S j) ltac:(lia)) as P1.
    pose proof (strict_lk_lt (0 :: gridT) SG j ltac:(simpl; lia)) as Hg.
    change (lk (0 :: gridT) j 0) with (g0 NumR gridT j) in Hg.
    change (lk (0 :: gridT) (S j) 0) with (g0 NumR gridT (S j)) in Hg.
    cbn [add sub mul div zero NumR].
    set (a0 := lk th j 0) in *. set (a1 := lk th (S j) 0) in *.
    set (u := g0 NumR gridT j) in *. set (v := g0 NumR gridT (S j)) in *.
    replace (a0 + (a1 - a0) * (t - u) / (v - u)) with ((a0 * (v - t) + a1 * (t - u)) / (v - u)) by (field; lra).
    apply Rdiv_lt_0_compat; [|lra].
    destruct (Rle_lt_dec t u) as [Htu|Htu].
    + assert (t = u) by lra. subst t. replace (a0 * (v - u) + a1 * (u - u)) with (a0 * (v - u)) by ring.
      apply Rmult_lt_0_compat; lra.
    + pose proof (Rmult_le_pos a0 (v - t) ltac:(lra) ltac:(lra)).
      pose proof (Rmult_lt_0_compat a1 (t - u) P1 ltac:(lra)). lra.
Qed.

Theorem linear_positive : List.Forall (lin_pos_iv thq th gridT) (intervals (sort_ev evs)).
Proof.
  set (s := sort_ev evs).
  assert (Ks : keys_ok s) by (eapply keys_ok_perm; [symmetry; apply sort_perm | exact K]).
  pose proof (sort_sorted evs K) as S. fold s in S.
  pose proof (intervals_ok s Ks S) as OK. pose proof (intervals_tie_ok s S) as TOK.
  assert (TM : List.Forall (fun iv => 0 <= i_a iv /\ 0 <= i_b iv) (intervals s)).
  { apply intervals_times. intros e He. apply (proj1 (Forall_forall _ _) Ht0).
    eapply Permutation_in; [apply sort_perm | exact He]. }
  rewrite Forall_forall in OK, TOK, TM. apply Forall_forall. intros iv Hin.
  destruct (OK iv Hin) as [Hle [Hz [Hc _]]]. destruct (TOK iv Hin) as [_ [Hg1 Hg2]].
  destruct (TM iv Hin) as [Ha0 Hb0].
  unfold s in Hg1, Hg2, Hc. rewrite glt_sorted in Hg1. rewrite gcount_sorted in Hg2.
  set (j := i_g iv) in *.
  assert (Hj : (j <= length gridT)%nat) by (pose proof (nle_length gridT (i_b iv)); lia).
  assert (Pb : 0 < lin_N NumR th gridT j (i_b iv)).
  { apply lin_N_pos; [exact Hj | apply g0_le; assumption | intros Hl; apply g0_ge; assumption]. }
  split; [|intros _; exact Pb].
  intros Z _. split; [|exact Pb].
  assert (Hlt : i_a iv < i_b iv).
  { destruct (Rle_lt_or_eq_dec _ _ Hle) as [H|H]; [exact H|]. apply Hz in H. congruence. }
  destruct (Hc Hlt) as [_ [Eg _]]. fold j in Eg. rewrite gcount_sorted in Eg.
  apply lin_N_pos; [exact Hj | apply g0_le; [exact Ha0 | lia] |].
  intros Hl. fold j in Hl. pose proof (g0_ge j (i_b iv) Hg1 Hl). unfold j in *. lra.
Qed.
End LinPos.

(* PiecewiseLinearCoalescentGrid: thetas * c (exact copies * cq), grid * c, times * c (keys * cq).
   Hypotheses: those of linear_eq_kingman_full (grid 0 < g_1 < g_2 < ... = the grid events;
   coalescent times on grid points allowed) and N > 0: thetas > 0, one per grid point plus one,
   times >= 0. *)
Theorem linear_scaling (cq : Q) (c : R) thq th gridT (evs : list ev) :
  0 < c -> (0 < cq)%Q -> keys_ok evs ->
  StronglySorted Rlt (0 :: gridT) -> Permutation gridT (grid_times evs) ->
  List.Forall (fun x => 0 < x) th -> length th = S (length gridT) ->
  List.Forall (fun e => 0 <= etime e) evs ->
  linear_lp NumR (map (Qmult cq) thq) (map (Rmult c) th) (map (Rmult c) gridT) (map (scale_ev cq c) evs)
  = linear_lp NumR thq th gridT evs - INR (sumN iscoal evs) * ln c.
Proof.
  intros Hc Hq K SG PG Hth Hlen Ht0.
  apply (linear_scaling_gen cq c Hc evs K (keys_ok_scale cq c Hc evs Hq K)).
  - intros j. apply lin_flat_Qmult, Qpos_nz, Hq.
  - apply linear_positive; assumption.
Qed.
Print Assumptions linear_scaling.

(* ================================================================== Part 5: N > 0 cannot be dropped *)
(* ln of a non-positive number is a junk value (0 here, nan in the code): two tips at time -3, their
   coalescence at time -2, grid point 1, thetas 1 and 2: N(t) = 1 + t is negative at both times.
   Every hypothesis of linear_scaling but "times >= 0" holds. *)
Lemma ln_nonpos x : x <= 0 -> ln x = 0.
Proof. intros H. unfold ln. destruct (Rlt_dec 0 x) as [r|r]; [exfalso; lra | reflexivity]. Qed.

Definition cxn_evs : list ev :=
  [mkEv (-3 # 1) (-3) Tip; mkEv (-3 # 1) (-3) Tip; mkEv (-2 # 1) (-2) Coal; mkEv 1%Q 1 Grid].
Lemma cxn_intervals : intervals (sort_ev cxn_evs)
  = [mkIv (-3) (-3) true 0%Z 0%nat 0%nat Tip; mkIv (-3) (-3) true 1%Z 0%nat 0%nat Tip;
     mkIv (-3) (-2) false 2%Z 0%nat 0%nat Coal; mkIv (-2) 1 false 1%Z 0%nat 1%nat Grid].
Proof. reflexivity. Qed.
Lemma cxn_keys_ok : keys_ok cxn_evs.
Proof.
  intros a b [<-|[<-|[<-|[<-|[]]]]] [<-|[<-|[<-|[<-|[]]]]]; cbn [ekey etime];
    (split; [intros H; try lra; discriminate H | intros H; try reflexivity; lra]).
Qed.
Lemma cxn_N t : lin_N NumR [1; 2] [1] 0 t = 1 + t.
Proof. unfold lin_N, g0. cbn [length Nat.leb lk zero add sub mul div NumR]. field. Qed.

Lemma cxn_value thq0 th0 gridT0 a b m :
  lin_flat thq0 (length gridT0) 0 = false ->
  lin_N NumR th0 gridT0 0 a <= 0 -> lin_N NumR th0 gridT0 0 b <= 0 ->
  lp NumR (lin_piece NumR thq0 th0 gridT0) (fun iv => nln NumR (lin_N NumR th0 gridT0 (i_g iv) (i_b iv)))
     [mkIv a a true 0%Z 0%nat 0%nat Tip; mkIv a a true 1%Z 0%nat 0%nat Tip;
      mkIv a b false 2%Z 0%nat 0%nat Coal; mkIv b m false 1%Z 0%nat 1%nat Grid] = 0.
Proof.
  intros F Ha Hb. unfold lp, ksum, csum. cbn [map i_zero i_end i_k i_g i_a i_b nsum].
  unfold lin_piece at 1. cbn [i_g i_a i_b]. rewrite F. cbv zeta. cbn [nln NumR].
  rewrite (ln_nonpos _ Ha), (ln_nonpos _ Hb). rewrite (choose2_small 1) by (right; reflexivity).
  cbn [add sub mul div opp zero NumR]. unfold Rdiv. ring.
Qed.

Theorem linear_scaling_negative_time_refuted :
  exists (cq : Q) (c : R) thq th gridT (evs : list ev),
    0 < c /\ (0 < cq)%Q /\ keys_ok evs /\
    StronglySorted Rlt (0 :: gridT) /\ Permutation gridT (grid_times evs) /\
    List.Forall (fun x => 0 < x) th /\ length th = S (length gridT) /\
    linear_lp NumR (map (Qmult cq) thq) (map (Rmult c) th) (map (Rmult c) gridT) (map (scale_ev cq c) evs)
    <> linear_lp NumR thq th gridT evs - INR (sumN iscoal evs) * ln c.
Proof.
  exists 2%Q, 2, [1%Q; 2%Q], [1; 2], [1], cxn_evs.
  assert (Hc : 0 < 2) by lra. assert (Hq : (0 < 2)%Q) by reflexivity.
  split; [exact Hc|]. split; [exact Hq|]. split; [exact cxn_keys_ok|].
  split; [repeat constructor; lra|]. split; [reflexivity|]. split; [repeat constructor; lra|].
  split; [reflexivity|].
  assert (E0 : linear_lp NumR [1%Q; 2%Q] [1; 2] [1] cxn_evs = 0).
  { unfold linear_lp. rewrite cxn_intervals. apply cxn_value; [reflexivity | |]; rewrite cxn_N; lra. }
  assert (E1 : linear_lp NumR (map (Qmult 2) [1%Q; 2%Q]) (map (Rmult 2) [1; 2]) (map (Rmult 2) [1])
                 (map (scale_ev 2 2) cxn_evs) = 0).
  { unfold linear_lp. set (th' := map (Rmult 2) [1; 2]). set (g' := map (Rmult 2) [1]).
    rewrite (intervals_sort_scale 2 2 Hc cxn_evs cxn_keys_ok (keys_ok_scale 2 2 Hc cxn_evs Hq cxn_keys_ok)).
    rewrite cxn_intervals. cbn [map]. unfold scale_iv. cbn [i_a i_b i_zero i_k i_g i_c i_end].
    apply cxn_value; [reflexivity | |]; unfold th', g'; rewrite (lin_N_scale 2 Hc), cxn_N; lra. }
  rewrite E0, E1. cbn [cxn_evs sumN ekind iscoal Nat.add INR].
  pose proof (ln_increasing 1 2 ltac:(lra) ltac:(lra)) as L. rewrite ln_1 in L. lra.
Qed.
Print Assumptions linear_scaling_negative_time_refuted.

(* ================================================================== the entry points the harness runs *)
(* exact inputs: everything is multiplied by ONE positive rational c *)
Lemma mk_events_scale (c : Q) tips coals grid :
  mk_events NumR (map (Qmult c) tips) (map (Qmult c) coals) (map (Qmult c) grid)
  = map (scale_ev c (Q2R c)) (mk_events NumR tips coals grid).
Proof.
  unfold mk_events. rewrite !map_app, !map_map.
  f_equal; [|f_equal]; apply map_ext; intros q; unfold scale_ev; cbn [ekey etime ekind ofQ NumR];
    rewrite Q2R_mult; reflexivity.
Qed.
Lemma map_ofQ_mult (c : Q) l : map (ofQ NumR) (map (Qmult c) l) = map (Rmult (Q2R c)) (map (ofQ NumR) l).
Proof. rewrite !map_map. apply map_ext. intros q. cbn [ofQ NumR]. apply Q2R_mult. Qed.
Lemma map_ofQ_div (c : Q) l : ~ (c == 0)%Q ->
  map (ofQ NumR) (map (fun g => (g / c)%Q) l) = map (fun g => g / Q2R c) (map (ofQ NumR) l).
Proof. intros Hc. rewrite !map_map. apply map_ext. intros q. cbn [ofQ NumR]. apply Q2R_div, Hc. Qed.
Lemma sumN_map_kind w k (l : list Q) :
  sumN w (map (fun q => mkEv q (ofQ NumR q) k) l) = (w k * length l)%nat.
Proof. induction l as [|q l IH]; cbn [map sumN ekind length]; [lia|]. rewrite IH. lia. Qed.
Lemma mk_events_ncoal tips coals grid : sumN iscoal (mk_events NumR tips coals grid) = length coals.
Proof. unfold mk_events. rewrite !sumN_app, !sumN_map_kind. cbn [iscoal]. lia. Qed.
Lemma Q2R_pos q : (0 < q)%Q -> 0 < Q2R q.
Proof. intros H. apply Qlt_Rlt in H. rewrite RMicromega.Q2R_0 in H. exact H. Qed.
Lemma Q2R_nonneg q : (0 <= q)%Q -> 0 <= Q2R q.
Proof. intros H. apply Qle_Rle in H. rewrite RMicromega.Q2R_0 in H. exact H. Qed.

Theorem pwexp_q_scaling (c theta : Q) growth grid tips coals :
  (0 < c)%Q -> (0 < theta)%Q ->
  pwexp_q NumR (c * theta) (map (fun g => (g / c)%Q) growth) (map (Qmult c) grid)
          (map (Qmult c) tips) (map (Qmult c) coals)
  = pwexp_q NumR theta growth grid tips coals - INR (length coals) * ln (Q2R c).
Proof.
  intros Hc Ht. unfold pwexp_q.
  rewrite mk_events_scale, map_ofQ_mult, (map_ofQ_div c growth (Qpos_nz c Hc)).
  rewrite <- (mk_events_ncoal tips coals grid). cbn [ofQ NumR]. rewrite Q2R_mult.
  apply pwexp_scaling; [apply Q2R_pos, Hc | exact Hc | apply mk_events_keys_ok | apply Q2R_pos, Ht].
Qed.
Print Assumptions pwexp_q_scaling.

Theorem linear_q_scaling (c : Q) thetas grid tips coals :
  (0 < c)%Q -> StronglySorted Qlt (0%Q :: grid) ->
  List.Forall (fun x => (0 < x)%Q) thetas -> length thetas = S (length grid) ->
  List.Forall (fun q => (0 <= q)%Q) tips -> List.Forall (fun q => (0 <= q)%Q) coals ->
  linear_q NumR (map (Qmult c) thetas) (map (Qmult c) grid) (map (Qmult c) tips) (map (Qmult c) coals)
  = linear_q NumR thetas grid tips coals - INR (length coals) * ln (Q2R c).
Proof.
  intros Hc SG Hth Hlen Htips Hcoals. unfold linear_q.
  rewrite mk_events_scale, !map_ofQ_mult. rewrite <- (mk_events_ncoal tips coals grid).
  apply linear_scaling.
  - apply Q2R_pos, Hc.
  - exact Hc.
  - apply mk_events_keys_ok.
  - apply sorted_Q2R_lt in SG. cbn [map] in SG. rewrite RMicromega.Q2R_0 in SG. exact SG.
  - rewrite mk_events_grid_times. reflexivity.
  - apply Forall_forall. intros x Hx. apply in_map_iff in Hx. destruct Hx as [q [<- Hq]].
    apply Q2R_pos. exact (proj1 (Forall_forall _ _) Hth q Hq).
  - rewrite !map_length. exact Hlen.
  - apply Forall_forall. intros e He. destruct (mk_events_in _ _ _ e He) as [q [-> Hk]]. cbn [etime].
    apply Q2R_nonneg. destruct Hk as [[_ Hq]|[[_ Hq]|[_ Hq]]].
    + exact (proj1 (Forall_forall _ _) Htips q Hq).
    + exact (proj1 (Forall_forall _ _) Hcoals q Hq).
    + inversion SG as [|? ? _ F]; subst. apply Qlt_le_weak. exact (proj1 (Forall_forall _ _) F q Hq).
Qed.
Print Assumptions linear_q_scaling.
Print Assumptions pwexp_scaling_gen.
Print Assumptions linear_scaling_gen.
Print Assumptions intervals_sort_scale.
