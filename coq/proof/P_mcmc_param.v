(* C15 — free theorems (Paramcoq): the interval replay of a transition encloses the real-valued
   model, and the replay with the recorded decision IS the real model's step whenever the recorded
   decision agrees with the real comparison of the two sides of the accept test. *)
From Coq Require Import QArith Reals List Bool.
From Param Require Import Param.
From TT Require Import Num NumR NumI ParamI Tree G_tuning M_mcmc P_mcmc.

Parametricity Recursive step qualified.
Parametricity Recursive run qualified.

Notation chain_R := TT_o_M_mcmc_o_chain_R.
Notation rec_R := TT_o_M_mcmc_o_rec_R.
Notation opcfg_R := TT_o_M_mcmc_o_opcfg_R.
Notation draws_R := TT_o_M_mcmc_o_draws_R.
Notation prod_R := Coq_o_Init_o_Datatypes_o_prod_R.

Lemma step_enclosed (b : bool) cfgs Cfgs st St d D :
  list_R (opcfg R) (opcfg I.type) (opcfg_R R I.type rel) cfgs Cfgs ->
  chain_R R I.type rel st St -> draws_R R I.type rel d D ->
  prod_R (chain R) (chain I.type) (chain_R R I.type rel) (rec R) (rec I.type) (rec_R R I.type rel)
         (step NumR (fun _ _ => b) cfgs st d) (step NumI (fun _ _ => b) Cfgs St D).
Proof.
  intros Hc Hs Hd.
  exact (TT_o_M_mcmc_o_step_R R I.type rel NumR NumI NumRI_R (fun _ _ => b) (fun _ _ => b)
           (fun _ _ _ _ _ _ => bool_R_refl b) cfgs Cfgs Hc st St Hs d D Hd).
Qed.

Lemma run_enclosed (b : bool) cfgs Cfgs st St ds Ds :
  list_R (opcfg R) (opcfg I.type) (opcfg_R R I.type rel) cfgs Cfgs ->
  chain_R R I.type rel st St -> list_R (draws R) (draws I.type) (draws_R R I.type rel) ds Ds ->
  prod_R (chain R) (chain I.type) (chain_R R I.type rel) (list (rec R)) (list (rec I.type))
         (list_R (rec R) (rec I.type) (rec_R R I.type rel))
         (run NumR (fun _ _ => b) cfgs st ds) (run NumI (fun _ _ => b) Cfgs St Ds).
Proof.
  intros Hc Hs Hd.
  exact (TT_o_M_mcmc_o_run_R R I.type rel NumR NumI NumRI_R (fun _ _ => b) (fun _ _ => b)
           (fun _ _ _ _ _ _ => bool_R_refl b) cfgs Cfgs Hc st St Hs ds Ds Hd).
Qed.

(* replay with the recorded decision = the real model, provided the recorded decision is the
   real comparison u < acceptance_prob (which the harness checks from the enclosures) *)
Lemma step_const_dec (b : bool) cfgs st d :
  let sr := step NumR (fun _ _ => b) cfgs st d in
  (forall hv p', r_hast (snd sr) = Fin hv -> r_dens (snd sr) = Fin p' ->
                 b = Rltb (r_u (snd sr)) (r_ap (snd sr))) ->
  step NumR Rltb cfgs st d = sr.
Proof.
  unfold step. destruct (propose NumR _ _ (c_x st) d) as [x' h].
  unfold mh. destruct h as [hv|]; [|reflexivity].
  destruct (d_eval d x') as [p'|]; [|reflexivity].
  cbn [snd r_hast r_dens r_u r_ap]. intros H. rewrite <- (H hv p' eq_refl eq_refl). reflexivity.
Qed.
