(* Determinant of an n x n matrix given as a list of rows, by Laplace expansion along the first row.
   Polymorphic in Num, so that ONE definition is used at R (P_tridet.v, P_transform_det.v) and at any
   commutative ring of mathcomp (P_tridet_mc.v, where it is proved equal to mathcomp's \det).
   The matrix is read through [entry m i j] (missing entries read as zero), so no well-formedness
   side condition is needed anywhere. *)
From Coq Require Import List Arith Lia.
Import ListNotations.
From TT Require Import Num.

Section Det.
Context {T : Type} (N : Num T).

Definition entry (m : list (list T)) (i j : nat) : T := nth j (nth i m []) (zero N).

Fixpoint drop_col (j : nat) (row : list T) {struct row} : list T :=
  match row with
  | [] => []
  | x :: r => match j with O => r | S j' => x :: drop_col j' r end
  end.

(* the matrix without its first row and without column j *)
Definition minor0 (j : nat) (m : list (list T)) : list (list T) := map (drop_col j) (tl m).

Fixpoint sgn (j : nat) : T := match j with O => one N | S j' => opp N (sgn j') end.

Fixpoint ldet (n : nat) (m : list (list T)) : T :=
  match n with
  | O => one N
  | S n' => nsum N (map (fun j => mul N (sgn j) (mul N (entry m 0 j) (ldet n' (minor0 j m))))
                        (seq 0 (S n')))
  end.

(* index of column k of the minor in the original matrix *)
Definition bump (j k : nat) : nat := if k <? j then k else S k.

Lemma nth_drop_col j : forall row k, nth k (drop_col j row) (zero N) = nth (bump j k) row (zero N).
Proof.
  induction j as [|j IH]; intros [|x r] k; cbn [drop_col]; unfold bump.
  - destruct (k <? 0); destruct k; reflexivity.
  - reflexivity.
  - destruct (k <? S j); destruct k; reflexivity.
  - destruct k as [|k]; [reflexivity|].
    cbn [nth]. rewrite IH. unfold bump.
    destruct (Nat.ltb_spec k j); destruct (Nat.ltb_spec (S k) (S j)); try lia; reflexivity.
Qed.

Lemma entry_minor0 j m i k : entry (minor0 j m) i k = entry m (S i) (bump j k).
Proof.
  unfold entry, minor0.
  change (@nil T) with (drop_col j []) at 1. rewrite map_nth, nth_drop_col.
  destruct m as [|r0 m]; [destruct i; destruct (bump j k); reflexivity | reflexivity].
Qed.

Lemma ldet_S n m :
  ldet (S n) m = nsum N (map (fun j => mul N (sgn j) (mul N (entry m 0 j) (ldet n (minor0 j m))))
                         (seq 0 (S n))).
Proof. reflexivity. Qed.
End Det.
