(* C06, the other direction: forward after inverse.
   For the ratio/root-height and the increment node-height parameterisations, re-applying the forward
   map to the parameters returned by the inverse gives back the tree of heights.  Together with
   ratio_roundtrip_l / diff_roundtrip_l (P_height.v: inverse after forward) the two maps are mutually
   inverse bijections between the parameter domain and the valid time trees; the domain/range
   statements are proved here as well. *)
From Coq Require Import QArith Reals List Lra Lia Arith Permutation.
Import ListNotations.
From TT Require Import Num NumR Tree M_height P_height.
Open Scope R_scope.

(* ---- association lists (index, value) and the vector read by x_of ---- *)
Fixpoint assoc (al : list (nat * R)) (j : nat) : R :=
  match al with [] => 0 | (k, v) :: r => if Nat.eqb k j then v else assoc r j end.

Lemma assoc_in al : NoDup (map fst al) -> forall j v, In (j, v) al -> assoc al j = v.
Proof.
  induction al as [|[k w] al IH]; intros Hnd j v Hin; [destruct Hin|].
  cbn [map fst] in Hnd. inversion Hnd as [|? ? Hk Hnd']; subst.
  cbn [assoc]. destruct Hin as [E|Hin].
  - inversion E; subst. rewrite Nat.eqb_refl. reflexivity.
  - destruct (Nat.eqb k j) eqn:Ekj.
    + apply Nat.eqb_eq in Ekj. subst. exfalso. apply Hk.
      change j with (fst (j, v)). apply in_map. exact Hin.
    + apply IH; assumption.
Qed.

Section HeightInv.
Variable n : nat.
Variable times : list R.
Notation bound := (bound NumR times).
Notation time_of := (time_of NumR times).

(* the vector laid out by internal index - n, m entries *)
Definition assemble (m : nat) (al : list (nat * R)) : list R :=
  map (fun k => assoc al (n + k)) (seq 0 m).

Lemma lk_assemble m al k : (k < m)%nat -> lk (assemble m al) k 0 = assoc al (n + k).
Proof.
  intros Hk. rewrite lk_nth. unfold assemble.
  rewrite (nth_indep _ 0 (assoc al (n + 0))) by (rewrite map_length, seq_length; exact Hk).
  rewrite (map_nth (fun k => assoc al (n + k)%nat) (seq 0 m) 0%nat k).
  rewrite seq_nth by exact Hk. reflexivity.
Qed.

Lemma x_of_assemble m al j : (n <= j < n + m)%nat -> x_of NumR n (assemble m al) j = assoc al j.
Proof.
  intros Hj. unfold x_of. cbn [zero NumR]. rewrite nsub_sub, lk_assemble by lia.
  f_equal. lia.
Qed.

(* [x] agrees with the association list [al] *)
Definition reads (x : list R) (al : list (nat * R)) : Prop :=
  forall j v, In (j, v) al -> x_of NumR n x j = v.

Lemma reads_assemble m al :
  NoDup (map fst al) -> (forall j, In j (map fst al) -> (n <= j < n + m)%nat) -> reads (assemble m al) al.
Proof.
  intros Hnd Hr j v Hin. rewrite x_of_assemble.
  - apply assoc_in; assumption.
  - apply Hr. change j with (fst (j, v)). apply in_map. exact Hin.
Qed.

(* ================= ratio / root-height parameterisation ================= *)

(* EXACTLY the inputs on which ratio_inv does not divide by zero: at every non-root internal node the
   parent height differs from the node's bound (the maximum sampling time below it) *)
Fixpoint ratio_defined (hpar : option R) (t : itree) (ht : htree R) : Prop :=
  match t, ht with
  | INode _ l r, HNode _ h hl hr =>
      match hpar with None => True | Some hp => hp - Rmax (bound l) (bound r) <> 0 end
      /\ ratio_defined (Some h) l hl /\ ratio_defined (Some h) r hr
  | _, _ => True
  end.

(* every internal node strictly above the oldest tip below it *)
Fixpoint strictly_above (t : itree) (ht : htree R) : Prop :=
  match t, ht with
  | INode _ l r, HNode _ h hl hr =>
      Rmax (bound l) (bound r) < h /\ strictly_above l hl /\ strictly_above r hr
  | _, _ => True
  end.

Lemma strictly_above_defined t : forall hp ht,
  bound t < hp -> strictly_above t ht -> ratio_defined (Some hp) t ht.
Proof.
  induction t as [i|i l IHl r IHr]; intros hp [j h|j h hl hr] Hb Hs; cbn [ratio_defined]; auto.
  cbn [strictly_above] in Hs. destruct Hs as (Hh & Hl & Hr).
  change (bound (INode i l r)) with (Rmax (bound l) (bound r)) in Hb.
  pose proof (Rmax_l (bound l) (bound r)). pose proof (Rmax_r (bound l) (bound r)).
  repeat split; [lra | apply IHl; [lra|exact Hl] | apply IHr; [lra|exact Hr]].
Qed.

Lemma strictly_above_defined_root t ht : strictly_above t ht -> ratio_defined None t ht.
Proof.
  destruct t as [i|i l r]; destruct ht as [j h|j h hl hr]; cbn [ratio_defined strictly_above]; auto.
  intros (Hh & Hl & Hr).
  pose proof (Rmax_l (bound l) (bound r)). pose proof (Rmax_r (bound l) (bound r)).
  split; [exact I|]. split; apply strictly_above_defined; try assumption; lra.
Qed.

(* keys of ratio_inv: the internal indices in pre-order *)
Lemma ratio_inv_keys t : forall hp ht, same_shape t ht ->
  map fst (ratio_inv NumR times hp t ht) = ipre t.
Proof.
  induction t as [i|i l IHl r IHr]; intros hp [j h|j h hl hr] Hs; cbn [same_shape] in Hs; try contradiction;
    cbn [ratio_inv ipre map]; [reflexivity|].
  destruct Hs as (E & Sl & Sr). subst j. cbn [fst]. rewrite map_app, IHl, IHr by assumption. reflexivity.
Qed.

Section RatioFwdInv.
Variable x : list R.
Notation x_of := (x_of NumR n x).
Notation fwd := (ratio_fwd NumR n times x).

(* forward after inverse, any parent *)
Lemma ratio_fwd_inv_gen t : forall hp ht,
  same_shape t ht -> tips_at times ht -> ratio_defined hp t ht ->
  reads x (ratio_inv NumR times hp t ht) ->
  fwd hp t = ht.
Proof.
  induction t as [i|i l IHl r IHr]; intros hp [j h|j h hl hr] Hs Ht Hd Hx; cbn [same_shape] in Hs; try contradiction.
  - cbn [ratio_fwd]. subst j. cbn [tips_at] in Ht. rewrite Ht. reflexivity.
  - destruct Hs as (E & Sl & Sr). subst j. cbn [tips_at] in Ht. destruct Ht as [Tl Tr].
    cbn [ratio_defined] in Hd. destruct Hd as (D0 & Dl & Dr).
    cbn [ratio_inv] in Hx.
    assert (Hi : x_of i = match hp with None => h
                          | Some hp0 => div NumR (sub NumR h (nmax NumR (bound l) (bound r)))
                                                 (sub NumR hp0 (nmax NumR (bound l) (bound r))) end).
    { apply Hx. left. reflexivity. }
    assert (Hxl : reads x (ratio_inv NumR times (Some h) l hl)).
    { intros k v Hk. apply Hx. right. apply in_or_app. left. exact Hk. }
    assert (Hxr : reads x (ratio_inv NumR times (Some h) r hr)).
    { intros k v Hk. apply Hx. right. apply in_or_app. right. exact Hk. }
    cbn [ratio_fwd]. cbn zeta.
    assert (Hh : match hp with
                 | None => x_of i
                 | Some hp0 => add NumR (nmax NumR (bound l) (bound r))
                                 (mul NumR (x_of i) (sub NumR hp0 (nmax NumR (bound l) (bound r))))
                 end = h).
    { rewrite Hi. destruct hp as [hp0|]; [|reflexivity].
      cbn [add sub mul div nmax NumR]. cbn [add sub mul div nmax NumR] in D0. field. exact D0. }
    rewrite Hh. rewrite (IHl (Some h) hl), (IHr (Some h) hr) by assumption. reflexivity.
Qed.
End RatioFwdInv.

(* MAIN (ratio): forward after inverse on a tree of heights of the right shape whose tips sit at their
   sampling times and on which the inverse does not divide by zero; [x] is any vector agreeing with the
   association list returned by ratio_inv (no assumption on the vector layout) *)
Theorem ratio_fwd_inv : forall x t ht,
  same_shape t ht -> tips_at times ht -> ratio_defined None t ht ->
  (forall j v, In (j, v) (ratio_inv NumR times None t ht) -> x_of NumR n x j = v) ->
  ratio_fwd NumR n times x None t = ht.
Proof. intros x t ht Hs Ht Hd Hx. apply ratio_fwd_inv_gen; assumption. Qed.

(* the same for a VALID time tree whose internal nodes are strictly above the oldest tip below them *)
Corollary ratio_fwd_inv_valid : forall x t ht,
  same_shape t ht -> tips_at times ht -> wf_order ht -> strictly_above t ht ->
  (forall j v, In (j, v) (ratio_inv NumR times None t ht) -> x_of NumR n x j = v) ->
  ratio_fwd NumR n times x None t = ht
  /\ node_heights (ratio_fwd NumR n times x None t) = node_heights ht.
Proof.
  intros x t ht Hs Ht _ Hd Hx.
  assert (E : ratio_fwd NumR n times x None t = ht).
  { apply ratio_fwd_inv; try assumption. apply strictly_above_defined_root. exact Hd. }
  split; [exact E | rewrite E; reflexivity].
Qed.

(* with the vector assembled from the association list (distinct internal indices in n .. n+m-1) *)
Corollary ratio_fwd_inv_assembled : forall m t ht,
  NoDup (ipre t) -> (forall j, In j (ipre t) -> (n <= j < n + m)%nat) ->
  same_shape t ht -> tips_at times ht -> ratio_defined None t ht ->
  ratio_fwd NumR n times (assemble m (ratio_inv NumR times None t ht)) None t = ht.
Proof.
  intros m t ht Hnd Hr Hs Ht Hd. apply ratio_fwd_inv; try assumption.
  apply reads_assemble; rewrite ratio_inv_keys by exact Hs; assumption.
Qed.

(* ---- the inverse maps valid trees into the parameter domain ---- *)
Lemma ratio_inv_domain_below t : forall hp ht,
  same_shape t ht -> wf_order ht -> strictly_above t ht -> hh ht <= hp ->
  Forall (fun p => 0 < snd p <= 1) (ratio_inv NumR times (Some hp) t ht).
Proof.
  induction t as [i|i l IHl r IHr]; intros hp [j h|j h hl hr] Hs Hw Ha Hp; cbn [same_shape] in Hs; try contradiction;
    cbn [ratio_inv]; [constructor|].
  destruct Hs as (E & Sl & Sr). cbn [wf_order] in Hw. destruct Hw as (Ol & Or & Wl & Wr).
  cbn [strictly_above] in Ha. destruct Ha as (Hh & Al & Ar). cbn [hh] in Hp.
  constructor.
  - cbn [snd sub div nmax NumR]. set (b := Rmax (bound l) (bound r)) in *.
    assert (0 < hp - b) by lra. split.
    + apply Rdiv_lt_0_compat; lra.
    + apply (Rmult_le_reg_r (hp - b)); [lra|]. unfold Rdiv. rewrite Rmult_assoc, Rinv_l by lra. lra.
  - apply Forall_app. split; [apply IHl | apply IHr]; assumption.
Qed.

Theorem ratio_inv_domain : forall i l r ht,
  same_shape (INode i l r) ht -> wf_order ht -> strictly_above (INode i l r) ht ->
  exists rest,
    ratio_inv NumR times None (INode i l r) ht = (i, hh ht) :: rest
    /\ bound (INode i l r) < hh ht
    /\ Forall (fun p => 0 < snd p <= 1) rest.
Proof.
  intros i l r [j h|j h hl hr] Hs Hw Ha; cbn [same_shape] in Hs; [contradiction|].
  destruct Hs as (E & Sl & Sr). subst j. cbn [wf_order] in Hw. destruct Hw as (Ol & Or & Wl & Wr).
  cbn [strictly_above] in Ha. destruct Ha as (Hh & Al & Ar).
  cbn [ratio_inv hh]. eexists. split; [reflexivity|]. split; [exact Hh|].
  apply Forall_app. split; apply ratio_inv_domain_below; assumption.
Qed.

(* ---- the forward map sends that domain into the valid, strictly-above trees ---- *)
Lemma ratio_fwd_strict_below x t : forall hp,
  bound t < hp -> (forall i, In i (ipre t) -> 0 < x_of NumR n x i) ->
  strictly_above t (ratio_fwd NumR n times x (Some hp) t).
Proof.
  induction t as [i|i l IHl r IHr]; intros hp Hb Hx; [exact I|].
  cbn [ratio_fwd]. cbn zeta. cbn [strictly_above].
  change (bound (INode i l r)) with (Rmax (bound l) (bound r)) in Hb.
  cbn [add sub mul nmax NumR].
  set (b := Rmax (bound l) (bound r)) in *.
  assert (Hxi : 0 < x_of NumR n x i) by (apply Hx; cbn; auto).
  assert (Hh : b < b + x_of NumR n x i * (hp - b)) by nra.
  pose proof (Rmax_l (bound l) (bound r)). pose proof (Rmax_r (bound l) (bound r)).
  split; [exact Hh|]. split.
  - apply IHl; [fold b in H; lra|]. intros j Hj. apply Hx. cbn. right. apply in_or_app; auto.
  - apply IHr; [fold b in H0; lra|]. intros j Hj. apply Hx. cbn. right. apply in_or_app; auto.
Qed.

Theorem ratio_fwd_strict : forall x i l r,
  bound (INode i l r) < x_of NumR n x i ->
  (forall j, In j (ipre l ++ ipre r) -> 0 < x_of NumR n x j) ->
  strictly_above (INode i l r) (ratio_fwd NumR n times x None (INode i l r)).
Proof.
  intros x i l r Hb Hx. cbn [ratio_fwd]. cbn zeta. cbn [strictly_above].
  change (bound (INode i l r)) with (Rmax (bound l) (bound r)) in Hb.
  pose proof (Rmax_l (bound l) (bound r)). pose proof (Rmax_r (bound l) (bound r)).
  split; [exact Hb|]. split; apply ratio_fwd_strict_below; try lra;
    intros j Hj; apply Hx; apply in_or_app; auto.
Qed.

(* ================= increment parameterisation ================= *)

Lemma diff_inv_keys t : forall ht, same_shape t ht -> map fst (diff_inv NumR ht) = iinternals t.
Proof.
  induction t as [i|i l IHl r IHr]; intros [j h|j h hl hr] Hs; cbn [same_shape] in Hs; try contradiction;
    cbn [diff_inv iinternals map]; [reflexivity|].
  destruct Hs as (E & Sl & Sr). subst j. rewrite !map_app, IHl, IHr by assumption. reflexivity.
Qed.

(* MAIN (increments): forward after inverse; no side condition beyond shape and tips *)
Theorem diff_fwd_inv : forall x t ht,
  same_shape t ht -> tips_at times ht ->
  (forall j v, In (j, v) (diff_inv NumR ht) -> lk x (nsub j n) 0 = v) ->
  diff_fwd NumR n times x t = ht.
Proof.
  intros x. induction t as [i|i l IHl r IHr]; intros [j h|j h hl hr] Hs Ht Hx; cbn [same_shape] in Hs; try contradiction.
  - cbn [diff_fwd]. subst j. cbn [tips_at] in Ht. rewrite Ht. reflexivity.
  - destruct Hs as (E & Sl & Sr). subst j. cbn [tips_at] in Ht. destruct Ht as [Tl Tr].
    cbn [diff_inv] in Hx.
    assert (El : diff_fwd NumR n times x l = hl).
    { apply IHl; try assumption. intros k v Hk. apply Hx. apply in_or_app. left. exact Hk. }
    assert (Er : diff_fwd NumR n times x r = hr).
    { apply IHr; try assumption. intros k v Hk. apply Hx. apply in_or_app. right. apply in_or_app. left. exact Hk. }
    cbn [diff_fwd]. cbn zeta. rewrite El, Er.
    cbn [zero NumR].
    rewrite (Hx i (sub NumR h (nmax NumR (hh hl) (hh hr)))).
    + f_equal. cbn [add sub nmax NumR]. ring.
    + apply in_or_app. right. apply in_or_app. right. left. reflexivity.
Qed.

Corollary diff_fwd_inv_valid : forall x t ht,
  same_shape t ht -> tips_at times ht -> wf_order ht ->
  (forall j v, In (j, v) (diff_inv NumR ht) -> lk x (nsub j n) 0 = v) ->
  diff_fwd NumR n times x t = ht
  /\ node_heights (diff_fwd NumR n times x t) = node_heights ht.
Proof.
  intros x t ht Hs Ht _ Hx.
  assert (E : diff_fwd NumR n times x t = ht) by (apply diff_fwd_inv; assumption).
  split; [exact E | rewrite E; reflexivity].
Qed.

Corollary diff_fwd_inv_assembled : forall m t ht,
  NoDup (iinternals t) -> (forall j, In j (iinternals t) -> (n <= j < n + m)%nat) ->
  same_shape t ht -> tips_at times ht ->
  diff_fwd NumR n times (assemble m (diff_inv NumR ht)) t = ht.
Proof.
  intros m t ht Hnd Hr Hs Ht. apply diff_fwd_inv; try assumption.
  intros j v Hin.
  assert (Hj : (n <= j < n + m)%nat).
  { apply Hr. rewrite <- (diff_inv_keys t ht Hs). change j with (fst (j, v)). apply in_map. exact Hin. }
  rewrite nsub_sub, lk_assemble by lia. replace (n + (j - n))%nat with j by lia.
  apply assoc_in; [rewrite (diff_inv_keys t ht Hs); exact Hnd | exact Hin].
Qed.

(* the inverse maps valid trees to non-negative increments (and only those) *)
Theorem diff_inv_domain : forall ht,
  wf_order ht <-> Forall (fun p => 0 <= snd p) (diff_inv NumR ht).
Proof.
  induction ht as [i h|i h l IHl r IHr]; cbn [wf_order diff_inv]; [split; auto|].
  rewrite !Forall_app. rewrite <- IHl, <- IHr. cbn [sub nmax NumR].
  split.
  - intros (Hl & Hr & Wl & Wr). repeat split; try assumption.
    constructor; [|constructor]. cbn [snd]. apply Rmax_case; lra.
  - intros (Wl & Wr & Hh). inversion Hh as [|? ? H0 _]; subst. cbn [snd] in H0.
    pose proof (Rmax_l (hh l) (hh r)). pose proof (Rmax_r (hh l) (hh r)).
    repeat split; try assumption; lra.
Qed.

End HeightInv.

(* ---- the numbering produced by setup_indexes satisfies the hypotheses of the assembled versions ---- *)
Lemma ipre_perm t : Permutation (ipre t) (iinternals t).
Proof.
  induction t as [i|i l IHl r IHr]; cbn [ipre iinternals]; [constructor|].
  rewrite app_assoc. apply Permutation_cons_app. rewrite app_nil_r. apply Permutation_app; assumption.
Qed.

Lemma index_from_seq : forall t next it nx,
  index_from t next = (it, nx) ->
  (1 <= leaves t)%nat /\ nx = (next + (leaves t - 1))%nat /\ iinternals it = seq next (leaves t - 1).
Proof.
  induction t as [i|l IHl r IHr]; intros next it nx H; cbn in H.
  - inversion H; subst. cbn. repeat split; lia.
  - destruct (index_from l next) as [il n1] eqn:El. destruct (index_from r n1) as [ir n2] eqn:Er.
    inversion H; subst. clear H.
    destruct (IHl _ _ _ El) as (L0 & L1 & L2). destruct (IHr _ _ _ Er) as (R0 & R1 & R2).
    cbn [iinternals leaves]. repeat split; try lia.
    rewrite L2, R2.
    replace (leaves l + leaves r - 1)%nat with ((leaves l - 1) + ((leaves r - 1) + 1))%nat by lia.
    rewrite !seq_app. cbn [seq]. rewrite <- L1, <- R1. reflexivity.
Qed.

(* for a tree numbered by setup_indexes (n taxa, internal nodes n .. 2n-2) the vector of the n-1
   parameters assembled from the inverse is mapped back to the tree of heights *)
Theorem ratio_fwd_inv_indexed : forall times tr ht,
  let t := index_tree tr in let n := leaves tr in
  same_shape t ht -> tips_at times ht -> ratio_defined times None t ht ->
  ratio_fwd NumR n times (assemble n (n - 1) (ratio_inv NumR times None t ht)) None t = ht.
Proof.
  intros times tr ht t n Hs Ht Hd. unfold t, index_tree in *.
  destruct (index_from tr (leaves tr)) as [it nx] eqn:E. cbn [fst] in *.
  destruct (index_from_seq _ _ _ _ E) as (H1 & H2 & H3).
  apply ratio_fwd_inv_assembled; try assumption.
  - apply (Permutation_NoDup (l := iinternals it)); [symmetry; apply ipre_perm|]. rewrite H3. apply seq_NoDup.
  - intros j Hj. apply (Permutation_in _ (ipre_perm it)) in Hj. rewrite H3 in Hj. apply in_seq in Hj. exact Hj.
Qed.

Theorem diff_fwd_inv_indexed : forall times tr ht,
  let t := index_tree tr in let n := leaves tr in
  same_shape t ht -> tips_at times ht ->
  diff_fwd NumR n times (assemble n (n - 1) (diff_inv NumR ht)) t = ht.
Proof.
  intros times tr ht t n Hs Ht. unfold t, index_tree in *.
  destruct (index_from tr (leaves tr)) as [it nx] eqn:E. cbn [fst] in *.
  destruct (index_from_seq _ _ _ _ E) as (H1 & H2 & H3).
  apply diff_fwd_inv_assembled; try assumption.
  - rewrite H3. apply seq_NoDup.
  - intros j Hj. rewrite H3 in Hj. apply in_seq in Hj. exact Hj.
Qed.

Print Assumptions ratio_fwd_inv.
Print Assumptions ratio_fwd_inv_valid.
Print Assumptions ratio_fwd_inv_indexed.
Print Assumptions ratio_inv_domain.
Print Assumptions ratio_fwd_strict.
Print Assumptions diff_fwd_inv.
Print Assumptions diff_fwd_inv_valid.
Print Assumptions diff_fwd_inv_indexed.
Print Assumptions diff_inv_domain.

(* ---- non-vacuity: ((0,1),2), times 0, 1/2, 0; heights 5/4 (node 3) and 2 (root 4): a valid tree,
        strictly above its bounds; the inverse gives ratio 1/2 and root height 2 (the parameters of
        C06_example), and the forward map sends them back ---- *)
Example height_inv_example :
  let tr := Node (Node (Leaf 0) (Leaf 1)) (Leaf 2) in
  let t := index_tree tr in
  let times := [0; 1/2; 0] in
  let ht := HNode 4 2 (HNode 3 (5/4) (HLeaf 0 0) (HLeaf 1 (1/2))) (HLeaf 2 0) in
  (same_shape t ht /\ tips_at times ht /\ wf_order ht /\ strictly_above times t ht)
  /\ ratio_inv NumR times None t ht = [(4%nat, 2); (3%nat, 1/2)]
  /\ ratio_fwd NumR 3 times (assemble 3 2 (ratio_inv NumR times None t ht)) None t = ht
  /\ diff_inv NumR ht = [(3%nat, 3/4); (4%nat, 3/4)]
  /\ diff_fwd NumR 3 times (assemble 3 2 (diff_inv NumR ht)) t = ht.
Proof.
  intros tr t times ht.
  assert (M1 : Rmax 0 (1/2) = 1/2) by (apply Rmax_right; lra).
  assert (M2 : Rmax (1/2) 0 = 1/2) by (apply Rmax_left; lra).
  assert (M3 : Rmax 0 (5/4) = 5/4) by (apply Rmax_right; lra).
  assert (M4 : Rmax (5/4) 0 = 5/4) by (apply Rmax_left; lra).
  assert (V : same_shape t ht /\ tips_at times ht /\ wf_order ht /\ strictly_above times t ht).
  { cbn -[Rmax Rdiv]. rewrite ?M1, ?M2. repeat split; lra. }
  split; [exact V|]. destruct V as (V1 & V2 & V3 & V4).
  split; [|split; [|split]].
  - cbn -[Rmax Rdiv]. rewrite ?M1, ?M2. replace ((5 / 4 - 1 / 2) / (2 - 1 / 2)) with (1 / 2) by field. reflexivity.
  - apply (ratio_fwd_inv_indexed times tr ht); try assumption.
    apply strictly_above_defined_root. exact V4.
  - cbn -[Rmax Rdiv]. rewrite ?M1, ?M4. replace (5 / 4 - 1 / 2) with (3 / 4) by lra. replace (2 - 5 / 4) with (3 / 4) by lra. reflexivity.
  - apply (diff_fwd_inv_indexed times tr ht); assumption.
Qed.
