(* Free theorems (Paramcoq): the verified-interval run of the birth-death skyline model, which
   is what the correspondence check evaluates, encloses the real-valued model the theorems of
   P_bdsk.v speak about. *)
From Coq Require Import QArith Reals List.
From Param Require Import Param.
From TT Require Import Num NumR NumI ParamI Tree M_bdsk.

Parametricity Recursive pw_log_prob qualified.
Parametricity Recursive bdsk_model_log_prob qualified.
Parametricity Recursive bd_log_prob qualified.

Lemma listQ_R_refl (l : list Q) : list_R Q Q Q_R l l.
Proof. apply list_R_refl. exact Q_R_refl. Qed.

Lemma pw_log_prob_enclosed survival r Rr lam Lam mu Mu psi Psi rho times tips ints :
  option_R _ _ (list_R R I.type rel) r Rr ->
  list_R R I.type rel lam Lam -> list_R R I.type rel mu Mu -> list_R R I.type rel psi Psi ->
  rel (pw_log_prob NumR survival r lam mu psi rho times tips ints)
      (pw_log_prob NumI survival Rr Lam Mu Psi rho times tips ints).
Proof.
  intros Hr Hl Hm Hp.
  exact (TT_o_M_bdsk_o_pw_log_prob_R R I.type rel NumR NumI NumRI_R
           survival survival (bool_R_refl survival) r Rr Hr lam Lam Hl mu Mu Hm psi Psi Hp
           rho rho (listQ_R_refl rho) times times (listQ_R_refl times)
           tips tips (listQ_R_refl tips) ints ints (listQ_R_refl ints)).
Qed.

Lemma bdsk_model_log_prob_enclosed survival r Rr Rn RN delta Delta s S rho times tips ints :
  option_R _ _ (list_R R I.type rel) r Rr ->
  list_R R I.type rel Rn RN -> list_R R I.type rel delta Delta -> list_R R I.type rel s S ->
  rel (bdsk_model_log_prob NumR survival r Rn delta s rho times tips ints)
      (bdsk_model_log_prob NumI survival Rr RN Delta S rho times tips ints).
Proof.
  intros Hr Hl Hm Hp.
  exact (TT_o_M_bdsk_o_bdsk_model_log_prob_R R I.type rel NumR NumI NumRI_R
           survival survival (bool_R_refl survival) r Rr Hr Rn RN Hl delta Delta Hm s S Hp
           rho rho (listQ_R_refl rho) times times (listQ_R_refl times)
           tips tips (listQ_R_refl tips) ints ints (listQ_R_refl ints)).
Qed.

Lemma bd_log_prob_enclosed survival lam Lam mu Mu psi Psi rho origin tips ints :
  rel lam Lam -> rel mu Mu -> rel psi Psi ->
  rel (bd_log_prob NumR survival lam mu psi rho origin tips ints)
      (bd_log_prob NumI survival Lam Mu Psi rho origin tips ints).
Proof.
  intros Hl Hm Hp.
  exact (TT_o_M_bdsk_o_bd_log_prob_R R I.type rel NumR NumI NumRI_R
           survival survival (bool_R_refl survival) lam Lam Hl mu Mu Hm psi Psi Hp
           rho rho (Q_R_refl rho) origin origin (Q_R_refl origin)
           tips tips (listQ_R_refl tips) ints ints (listQ_R_refl ints)).
Qed.

(* literals of the case files: [ofQ NumI q] encloses [Q2R q] *)
Lemma lits_enclosed (l : list Q) : list_R R I.type rel (map Q2R l) (map (ofQ NumI) l).
Proof. induction l; simpl; constructor; auto. apply rel_ofQ. Qed.
Print Assumptions pw_log_prob_enclosed.
