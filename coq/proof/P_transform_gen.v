(* C07 — the transforms of the SOURCE are the model.
   gen/G_transforms.v holds the bodies of _call / _inverse / log_abs_det_jacobian of CumSumTransform,
   CumSumExpTransform, SoftPlusTransform, CumSumSoftPlusTransform and LogTransform regenerated from
   torchtree/distributions/transforms.py on every run (translator T10).  Here: each regenerated definition is
   model/M_transform.v's *_fwd / *_inv / *_logdet (over the reals where a ring identity such as y - 0 = y or
   a + 1 = 1 + a is needed, over every number type where the two terms are the same term). *)
From Coq Require Import QArith Reals List Lra.
Import ListNotations.
From TT Require Import Num NumR M_transform G_transforms.
Local Open Scope R_scope.

Lemma Q2R_one : Q2R (1 # 1) = 1.
Proof. unfold Q2R; simpl; lra. Qed.

Lemma first_then_diffs_R (a : list R) : first_then_diffs NumR a = diffs NumR 0 a.
Proof. destruct a as [|a0 r]; [reflexivity|]. cbn [first_then_diffs diffs]. f_equal. cbn. lra. Qed.

Lemma nsum_opp_R (l : list R) : - nsum NumR l = nsum NumR (map Ropp l).
Proof. induction l as [|a r IH]; cbn [nsum map]; cbn; [lra|]. change (nsum NumR (map Ropp r)) with (nsum NumR (map Ropp r)) in *. rewrite <- IH. lra. Qed.

Section Generic.
Context {T : Type} (N : Num T).
(* same term, every number type *)
Lemma g_cumsum_call x : g_CumSumTransform_call N x = cumsum_fwd N x.            Proof. reflexivity. Qed.
Lemma g_cumsum_ldj x y : g_CumSumTransform_ldj N x y = cumsum_logdet N x.        Proof. reflexivity. Qed.
Lemma g_cumsumexp_call x : g_CumSumExpTransform_call N x = cumsumexp_fwd N x.    Proof. reflexivity. Qed.
Lemma g_cumsumexp_ldj x y : g_CumSumExpTransform_ldj N x y = cumsumexp_logdet N x. Proof. reflexivity. Qed.
Lemma g_softplus_call x : g_SoftPlusTransform_call N x = softplus_fwd N x.      Proof. reflexivity. Qed.
Lemma g_softplus_inverse y : g_SoftPlusTransform_inverse N y = softplus_inv_l N y.
Proof. unfold g_SoftPlusTransform_inverse, softplus_inv_l. rewrite map_map. reflexivity. Qed.
Lemma g_softplus_ldj x y : g_SoftPlusTransform_ldj N x y = softplus_logdet N x.
Proof. unfold g_SoftPlusTransform_ldj, softplus_logdet. rewrite !map_map. reflexivity. Qed.
Lemma g_log_call x : g_LogTransform_call N x = log_fwd N x.                      Proof. reflexivity. Qed.
Lemma g_log_inverse y : g_LogTransform_inverse N y = log_inv N y.                Proof. reflexivity. Qed.
(* the report of LogTransform is written in terms of y: at y = forward x it is the model's report *)
Lemma g_log_ldj x : g_LogTransform_ldj N x (g_LogTransform_call N x) = log_logdet N x.
Proof. unfold g_LogTransform_ldj, g_LogTransform_call, log_logdet. rewrite map_map. reflexivity. Qed.
End Generic.

(* over the reals *)
Lemma g_cumsum_inverse y : g_CumSumTransform_inverse NumR y = cumsum_inv NumR y.
Proof. apply first_then_diffs_R. Qed.
Lemma g_cumsumexp_inverse y : g_CumSumExpTransform_inverse NumR y = cumsumexp_inv NumR y.
Proof. unfold g_CumSumExpTransform_inverse, cumsumexp_inv. apply first_then_diffs_R. Qed.
Lemma g_cumsumsoftplus_call x : g_CumSumSoftPlusTransform_call NumR x = cumsumsoftplus_fwd NumR x.
Proof.
  unfold g_CumSumSoftPlusTransform_call, cumsumsoftplus_fwd. rewrite !map_map. apply map_ext. intro v.
  unfold softplus. cbn. rewrite Q2R_one. f_equal. lra.
Qed.
Lemma g_cumsumsoftplus_inverse y : g_CumSumSoftPlusTransform_inverse NumR y = cumsumsoftplus_inv NumR y.
Proof.
  unfold g_CumSumSoftPlusTransform_inverse, cumsumsoftplus_inv. rewrite first_then_diffs_R, map_map. reflexivity.
Qed.
Lemma g_cumsumsoftplus_ldj x y : g_CumSumSoftPlusTransform_ldj NumR x y = cumsumsoftplus_logdet NumR x.
Proof.
  unfold g_CumSumSoftPlusTransform_ldj, cumsumsoftplus_logdet. change (opp NumR) with Ropp.
  rewrite nsum_opp_R, !map_map. reflexivity.
Qed.

Theorem transforms_source_is_model :
  (forall x, g_CumSumTransform_call NumR x = cumsum_fwd NumR x) /\
  (forall y, g_CumSumTransform_inverse NumR y = cumsum_inv NumR y) /\
  (forall x y, g_CumSumTransform_ldj NumR x y = cumsum_logdet NumR x) /\
  (forall x, g_CumSumExpTransform_call NumR x = cumsumexp_fwd NumR x) /\
  (forall y, g_CumSumExpTransform_inverse NumR y = cumsumexp_inv NumR y) /\
  (forall x y, g_CumSumExpTransform_ldj NumR x y = cumsumexp_logdet NumR x) /\
  (forall x, g_SoftPlusTransform_call NumR x = softplus_fwd NumR x) /\
  (forall y, g_SoftPlusTransform_inverse NumR y = softplus_inv_l NumR y) /\
  (forall x y, g_SoftPlusTransform_ldj NumR x y = softplus_logdet NumR x) /\
  (forall x, g_CumSumSoftPlusTransform_call NumR x = cumsumsoftplus_fwd NumR x) /\
  (forall y, g_CumSumSoftPlusTransform_inverse NumR y = cumsumsoftplus_inv NumR y) /\
  (forall x y, g_CumSumSoftPlusTransform_ldj NumR x y = cumsumsoftplus_logdet NumR x) /\
  (forall x, g_LogTransform_call NumR x = log_fwd NumR x) /\
  (forall y, g_LogTransform_inverse NumR y = log_inv NumR y) /\
  (forall x, g_LogTransform_ldj NumR x (g_LogTransform_call NumR x) = log_logdet NumR x).
Proof.
  repeat apply conj; intros.
  - apply g_cumsum_call. - apply g_cumsum_inverse. - apply g_cumsum_ldj.
  - apply g_cumsumexp_call. - apply g_cumsumexp_inverse. - apply g_cumsumexp_ldj.
  - apply g_softplus_call. - apply g_softplus_inverse. - apply g_softplus_ldj.
  - apply g_cumsumsoftplus_call. - apply g_cumsumsoftplus_inverse. - apply g_cumsumsoftplus_ldj.
  - apply g_log_call. - apply g_log_inverse. - apply g_log_ldj.
Qed.
