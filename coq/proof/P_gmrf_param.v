(* Free theorems: the NumI run of each GMRF / integrated-prior term encloses its NumR value. *)
From Coq Require Import QArith Reals List Lra.
From Param Require Import Param.
From Interval Require Import Specific_bigint Specific_ops Float_full Interval Xreal Basic Float.
From TT Require Import Num NumR NumI ParamI Tree M_gmrf.

Parametricity Recursive qvariant qualified.
Parametricity Recursive ln2pi_of qualified.
Parametricity Recursive gmrf_q qualified.
Parametricity Recursive precision_matrix_q qualified.
Parametricity Recursive gmrf_integrated_q qualified.
Parametricity Recursive quad_published_q qualified.

Notation qvariant_R := TT_o_M_gmrf_o_qvariant_R.

Lemma qlist_refl' (l : list Q) : list_R Q Q Q_R l l.
Proof. apply list_R_refl, Q_R_refl. Qed.
Lemma qvariant_refl v : qvariant_R v v.
Proof. destruct v; constructor; try apply qlist_refl'; apply bool_R_refl. Qed.

(* the value of ln(2 pi) used by the interval runs *)
Definition ln2pi_I : I.type := ln2pi_of NumI (I.pi prec).
Lemma ln2pi_enclosed : rel (ln (2 * PI)) ln2pi_I.
Proof.
  assert (H : rel (ln2pi_of NumR PI) ln2pi_I).
  { exact (TT_o_M_gmrf_o_ln2pi_of_R R I.type rel NumR NumI NumRI_R PI (I.pi prec) (I.pi_correct prec)). }
  unfold ln2pi_of in H at 1. cbn [nln mul NumR] in H. unfold two in H. cbn [ofQ NumR] in H.
  replace (Q2R (2 # 1)) with 2%R in H by (unfold Q2R; simpl; lra). exact H.
Qed.

Lemma gmrf_enclosed l L v x tau :
  rel l L -> rel (gmrf_q NumR l v x tau) (gmrf_q NumI L v x tau).
Proof.
  intros Hl.
  exact (TT_o_M_gmrf_o_gmrf_q_R R I.type rel NumR NumI NumRI_R l L Hl v v (qvariant_refl v)
           x x (qlist_refl' x) tau tau (Q_R_refl tau)).
Qed.
Lemma precision_matrix_enclosed v tau n :
  list_R R I.type rel (precision_matrix_q NumR v tau n) (precision_matrix_q NumI v tau n).
Proof.
  exact (TT_o_M_gmrf_o_precision_matrix_q_R R I.type rel NumR NumI NumRI_R v v (qvariant_refl v)
           tau tau (Q_R_refl tau) n n (nat_R_refl n)).
Qed.
Lemma quad_published_enclosed v x tau :
  rel (quad_published_q NumR v x tau) (quad_published_q NumI v x tau).
Proof.
  exact (TT_o_M_gmrf_o_quad_published_q_R R I.type rel NumR NumI NumRI_R v v (qvariant_refl v)
           x x (qlist_refl' x) tau tau (Q_R_refl tau)).
Qed.
Lemma gmrf_integrated_enclosed l L alpha beta ga Ga ga' Ga' v x :
  rel l L -> rel ga Ga -> rel ga' Ga' ->
  rel (gmrf_integrated_q NumR l alpha beta ga ga' v x) (gmrf_integrated_q NumI L alpha beta Ga Ga' v x).
Proof.
  intros Hl Ha Ha'.
  exact (TT_o_M_gmrf_o_gmrf_integrated_q_R R I.type rel NumR NumI NumRI_R l L Hl
           alpha alpha (Q_R_refl _) beta beta (Q_R_refl _) ga Ga Ha ga' Ga' Ha'
           v v (qvariant_refl v) x x (qlist_refl' x)).
Qed.
Print Assumptions gmrf_integrated_enclosed.
