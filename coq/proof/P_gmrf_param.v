(* Free theorems: the NumI run of each GMRF / integrated-prior term encloses its NumR value. *)
From Coq Require Import QArith Reals List.
From Param Require Import Param.
From TT Require Import Num NumR NumI ParamI Tree M_gmrf.

Parametricity Recursive qvariant qualified.
Parametricity Recursive gmrf_q qualified.
Parametricity Recursive precision_matrix_q qualified.
Parametricity Recursive gmrf_integrated_q qualified.
Parametricity Recursive quad_published_q qualified.
Parametricity Recursive const_integrated_value qualified.
Parametricity Recursive gamma_logpdf qualified.
Parametricity Recursive invgamma_logpdf qualified.
Parametricity Recursive const_value qualified.
Print TT_o_M_gmrf_o_qvariant_R.
Check TT_o_M_gmrf_o_gmrf_q_R.
