(* Coalescent times that coincide with grid points (the hypothesis [no_tie] of
   linear_eq_kingman_l / pwexp_eq_kingman_l in P_coalescent.v).

   Where no_tie is used: walk_ok, last component of iv_ok -- at a coalescent event e the running
   grid count i_g (grid marks SORTED before e) is identified with glt s (etime e) (grid points
   STRICTLY before its time); a grid point with the same time may be sorted before e (then
   i_g > glt) or after it (i_g = glt), depending on the order the events were supplied in (the
   sort is stable: mk_events puts coalescences before the grid, so the entry points always see
   i_g = glt; an arbitrary event list does not).

   Part 1: without no_tie the walk still guarantees   glt s t <= i_g <= gcount s t   at every
           event, hence lp = kingman as soon as the ln N lookup  L t i  does not depend on i in
           that range at the coalescent times (lp_counting_tie: the generic continuity statement).
   Part 2: the grid-piece index by counting equals the position in the grid list: if gridT is sorted
           and is the list of the grid-event times, every i with glt < i <= gcount has g0 i = t.
   Part 3: continuity of linN / peLnN at a grid point; the two theorems without no_tie.
   Part 4: the hypotheses that replace no_tie are necessary: the model takes the grid list gridT
           (used for the interpolation) and the grid EVENTS of evs (used for the piece index) as
           independent arguments, and linN divides by g0 (j+1) - g0 j; concrete witnesses.
   Part 5: the entry points linear_q / pwexp_q on exact inputs. *)
From Coq Require Import QArith ZArith Reals Qreals List Lia Lra Permutation Sorted Bool Arith.
Import ListNotations.
From TT Require Import Num NumR Tree M_coalescent P_coalescent.
Local Open Scope R_scope.

(* ================================================================== Part 1: the walk without no_tie *)

(* at the end event of every interval: it is an event of s, and the running grid count lies between
   the number of grid points strictly before / at or before its time *)
Definition iv_tie_ok (s : list ev) (iv : ival R) : Prop :=
  (exists e, In e s /\ ekind e = i_end iv /\ etime e = i_b iv) /\
  (glt s (i_b iv) <= i_g iv <= gcount s (i_b iv))%nat.

Lemma walk_tie_ok : forall l pre pk pt k g c,
  StronglySorted tle l ->
  (forall x, In x pre -> etime x <= pt) -> (forall x, In x l -> pt <= etime x) ->
  g = sumN isgrid pre ->
  Forall (iv_tie_ok (pre ++ l)) (walk pk pt k g c l).
Proof.
  induction l as [|e r IH]; intros pre pk pt k g c S Hpre Hl Hg; simpl; [constructor|].
  inversion S as [|? ? S' F]; subst. rewrite Forall_forall in F.
  assert (Hpe : pt <= etime e) by (apply Hl; left; reflexivity).
  constructor.
  - unfold iv_tie_ok; cbn [i_b i_g i_end]. split.
    + exists e. split; [apply in_or_app; right; left; reflexivity | split; reflexivity].
    + unfold glt, gcount. rewrite !cntN_app. split.
      * rewrite (cntN_none _ _ isgrid (e :: r)).
        2:{ intros x Hx _. destruct Hx as [<-|Hx]; [lra|]. specialize (F x Hx). unfold tle in F. lra. }
        pose proof (cntN_le_sum (fun x => x < etime e) (fun x => Rlt_dec x (etime e)) isgrid pre). lia.
      * rewrite (cntN_all _ _ isgrid pre).
        2:{ intros x Hx _. specialize (Hpre x Hx). lra. }
        lia.
  - replace (pre ++ e :: r) with ((pre ++ [e]) ++ r) by (rewrite <- app_assoc; reflexivity).
    apply IH.
    + exact S'.
    + intros x Hx. apply in_app_or in Hx. destruct Hx as [Hx|[<-|[]]]; [|lra].
      specialize (Hpre x Hx). lra.
    + intros x Hx. apply F; exact Hx.
    + rewrite sumN_app; simpl. lia.
Qed.

Lemma intervals_tie_ok (s : list ev) : StronglySorted tle s -> Forall (iv_tie_ok s) (intervals s).
Proof.
  intros S. destruct s as [|e r]; [constructor|]. unfold intervals.
  apply (walk_tie_ok (e :: r) [] (ekey e) (etime e) 0%Z 0%nat 0%nat); auto.
  - intros x [].
  - intros x [<-|Hx]; [lra|]. inversion S as [|? ? S' F]; subst. rewrite Forall_forall in F.
    apply F; exact Hx.
Qed.

(* [L t i] (ln N at time t looked up with piece index i) is continuous at the ties of evs: at every
   coalescent time every index between "grid points strictly before" and "grid points at or before"
   gives the same value *)
Definition tie_continuous (L : R -> nat -> R) (evs : list ev) : Prop :=
  forall c, In c evs -> ekind c = Coal ->
  forall i, (glt evs (etime c) <= i <= gcount evs (etime c))%nat ->
  L (etime c) i = L (etime c) (glt evs (etime c)).

(* without ties the range is a single index *)
Lemma no_tie_glt_gcount (evs : list ev) c :
  no_tie evs -> In c evs -> ekind c = Coal -> gcount evs (etime c) = glt evs (etime c).
Proof.
  intros NT Hc Ec. unfold gcount, glt.
  assert (G : forall l, (forall g, In g l -> ekind g = Grid -> etime c <> etime g) ->
              cntN (fun x => x <= etime c) (fun x => Rle_dec x (etime c)) isgrid l
              = cntN (fun x => x < etime c) (fun x => Rlt_dec x (etime c)) isgrid l).
  { induction l as [|e r IH]; intros H; simpl; [reflexivity|].
    rewrite IH by (intros; apply H; [right|]; assumption).
    destruct (Rle_dec (etime e) (etime c)); destruct (Rlt_dec (etime e) (etime c)); try reflexivity; try lra.
    destruct (ekind e) eqn:E; try reflexivity.
    exfalso. apply (H e (or_introl eq_refl) E). lra. }
  apply G. intros g Hg Eg. apply NT; assumption.
Qed.
Lemma no_tie_continuous L (evs : list ev) : no_tie evs -> tie_continuous L evs.
Proof.
  intros NT c Hc Ec i Hi. rewrite (no_tie_glt_gcount evs c NT Hc Ec) in Hi.
  replace i with (glt evs (etime c)) by lia. reflexivity.
Qed.

Lemma csum_counting_tie L (evs s : list ev) :
  tie_continuous L evs -> Permutation s evs -> StronglySorted tle s ->
  csum NumR (fun iv => L (i_b iv) (i_g iv)) (intervals s) = coal_sum (fun t => L t (glt evs t)) evs.
Proof.
  intros TC Pm S. unfold csum. rewrite nsum_Rsum.
  pose proof (intervals_tie_ok s S) as OK.
  rewrite (Rsum_map_ext_Forall _ (fun iv => match i_end iv with Coal => L (i_b iv) (glt evs (i_b iv)) | _ => 0 end)).
  - rewrite <- (coal_sum_perm _ _ _ Pm).
    destruct s as [|e r]; [reflexivity|]. unfold intervals.
    apply (walk_coal_sum (fun t => L t (glt evs t))).
  - eapply Forall_impl; [|exact OK]. intros iv [[e [He [Ek Et]]] Hg]. cbn [zero NumR].
    destruct (i_end iv) eqn:E; try reflexivity.
    unfold glt, gcount in Hg. rewrite !(cntN_perm _ _ _ _ _ Pm) in Hg.
    fold (glt evs (i_b iv)) in Hg. fold (gcount evs (i_b iv)) in Hg.
    rewrite <- Et in *. apply TC; [eapply Permutation_in; eassumption | exact Ek | exact Hg].
Qed.

(* lp_counting of P_coalescent.v with [no_tie evs] weakened to [tie_continuous L evs] *)
Theorem lp_counting_tie P L (evs : list ev) ts :
  keys_ok evs -> tie_continuous L evs -> StronglySorted Rle ts -> Permutation ts (map etime evs) ->
  lp NumR (fun iv => P (i_a iv) (i_b iv) (i_g iv) (i_c iv)) (fun iv => L (i_b iv) (i_g iv))
     (intervals (sort_ev evs))
  = kingman P (fun t => L t (glt evs t)) evs ts.
Proof.
  intros K TC S Pm. unfold lp, kingman. cbn [sub opp NumR].
  rewrite (ksum_counting P evs ts K S Pm).
  rewrite (csum_counting_tie L evs (sort_ev evs) TC (sort_perm evs) (sort_sorted evs K)). reflexivity.
Qed.

(* ================================================================== Part 2: counting = position in the grid *)

(* the times of the grid events, in the order supplied *)
Definition is_grid (k : kind) : bool := match k with Grid => true | _ => false end.
Definition grid_times (evs : list ev) : list R := map etime (filter (fun e => is_grid (ekind e)) evs).

Fixpoint nlt (l : list R) (t : R) : nat :=
  match l with [] => 0%nat | x :: r => ((if Rlt_dec x t then 1 else 0) + nlt r t)%nat end.
Fixpoint nle (l : list R) (t : R) : nat :=
  match l with [] => 0%nat | x :: r => ((if Rle_dec x t then 1 else 0) + nle r t)%nat end.

Lemma glt_grid_times (evs : list ev) t : glt evs t = nlt (grid_times evs) t.
Proof.
  unfold glt, grid_times. induction evs as [|e r IH]; simpl; [reflexivity|]. rewrite IH.
  destruct (ekind e); cbn [isgrid is_grid map nlt]; destruct (Rlt_dec (etime e) t); reflexivity.
Qed.
Lemma gcount_grid_times (evs : list ev) t : gcount evs t = nle (grid_times evs) t.
Proof.
  unfold gcount, grid_times. induction evs as [|e r IH]; simpl; [reflexivity|]. rewrite IH.
  destruct (ekind e); cbn [isgrid is_grid map nle]; destruct (Rle_dec (etime e) t); reflexivity.
Qed.
Lemma nlt_perm l l' t : Permutation l l' -> nlt l t = nlt l' t.
Proof. induction 1; simpl; lia. Qed.
Lemma nle_perm l l' t : Permutation l l' -> nle l t = nle l' t.
Proof. induction 1; simpl; lia. Qed.

Lemma nle_length l t : (nle l t <= length l)%nat.
Proof. induction l as [|x r IH]; simpl; [lia|]. destruct (Rle_dec x t); lia. Qed.
Lemma nlt_zero l t : Forall (fun y => t <= y) l -> nlt l t = 0%nat.
Proof. induction 1 as [|x r Hx _ IH]; simpl; [reflexivity|]. destruct (Rlt_dec x t); [lra | exact IH]. Qed.
Lemma nle_zero l t : Forall (fun y => t < y) l -> nle l t = 0%nat.
Proof. induction 1 as [|x r Hx _ IH]; simpl; [reflexivity|]. destruct (Rle_dec x t); [lra | exact IH]. Qed.

(* in a sorted list the entries at the positions nlt l t, ..., nle l t - 1 are exactly the ones equal to t *)
Lemma sorted_tie_pos l t : StronglySorted Rle l ->
  forall i, (nlt l t <= i < nle l t)%nat -> lk l i 0 = t.
Proof.
  induction 1 as [|x r Hs IH F]; intros i Hi; simpl in Hi; [lia|].
  destruct (Rlt_dec x t) as [Hlt|Hlt].
  - destruct (Rle_dec x t); [|lra]. destruct i as [|i]; [lia|]. simpl. apply IH. lia.
  - assert (F1 : Forall (fun y => t <= y) r).
    { eapply Forall_impl; [|exact F]. intros y Hy. simpl in Hy. lra. }
    rewrite (nlt_zero r t F1) in *.
    destruct (Rle_dec x t) as [Hle|Hle].
    + destruct i as [|i]; simpl; [lra|]. apply IH. lia.
    + assert (F2 : Forall (fun y => t < y) r).
      { eapply Forall_impl; [|exact F]. intros y Hy. simpl in Hy. lra. }
      rewrite (nle_zero r t F2) in Hi. lia.
Qed.

(* strictly increasing: at most one entry equals t, consecutive entries differ *)
Lemma strict_nle_nlt l t : StronglySorted Rlt l -> (nle l t <= S (nlt l t))%nat.
Proof.
  induction 1 as [|x r Hs IH F]; simpl; [lia|].
  destruct (Rlt_dec x t) as [Hlt|Hlt]; destruct (Rle_dec x t) as [Hle|Hle]; try lia; try lra.
  assert (F2 : Forall (fun y => t < y) r).
  { eapply Forall_impl; [|exact F]. intros y Hy. simpl in Hy. lra. }
  rewrite (nle_zero r t F2). lia.
Qed.
Lemma strict_lk_lt l : StronglySorted Rlt l -> forall i, (S i < length l)%nat -> lk l i 0 < lk l (S i) 0.
Proof.
  induction 1 as [|x r Hs IH F]; intros i Hi; simpl in Hi; [lia|].
  destruct i as [|i].
  - destruct r as [|y r]; simpl in *; [lia|]. inversion F; assumption.
  - change (lk r i 0 < lk r (S i) 0). apply IH. lia.
Qed.
Lemma sorted_lt_le l : StronglySorted Rlt l -> StronglySorted Rle l.
Proof.
  induction 1 as [|x r Hs IH F]; constructor; auto.
  eapply Forall_impl; [|exact F]. intros y Hy. simpl in Hy. lra.
Qed.

Lemma g0_S gridT i : g0 NumR gridT (S i) = lk gridT i 0.
Proof. reflexivity. Qed.

(* gridT is the sorted list of the grid-event times: every index of the tie range but the first one
   is a grid point equal to t *)
Lemma grid_tie_g0 gridT (evs : list ev) t :
  StronglySorted Rle gridT -> Permutation gridT (grid_times evs) ->
  forall i, (glt evs t <= i < gcount evs t)%nat -> g0 NumR gridT (S i) = t.
Proof.
  intros Sg Pm i Hi. rewrite g0_S. apply sorted_tie_pos; [exact Sg|].
  rewrite (nlt_perm _ _ t Pm), (nle_perm _ _ t Pm), <- glt_grid_times, <- gcount_grid_times. exact Hi.
Qed.

(* ================================================================== Part 3: continuity, the theorems *)

(* ---- piecewise exponential: ln N(g_(i+1)) computed on piece i+1 = computed on piece i ---- *)
Lemma peLnN_cont theta growth gridT i t :
  g0 NumR gridT (S i) = t -> peLnN theta growth gridT (S i) t = peLnN theta growth gridT i t.
Proof.
  intros H. unfold peLnN, pe_lnN. cbn [pe_lnNg]. cbn [sub mul zero NumR]. rewrite H. ring.
Qed.

Lemma peLnN_tie_continuous theta growth gridT (evs : list ev) :
  StronglySorted Rle gridT -> Permutation gridT (grid_times evs) ->
  tie_continuous (fun t g => peLnN theta growth gridT g t) evs.
Proof.
  intros Sg Pm c _ _ i [Hlo Hhi].
  replace i with (glt evs (etime c) + (i - glt evs (etime c)))%nat by lia.
  assert (Hd : (glt evs (etime c) + (i - glt evs (etime c)) <= gcount evs (etime c))%nat) by lia.
  revert Hd. generalize (i - glt evs (etime c))%nat as d. clear Hlo Hhi i.
  induction d as [|d IH]; intros Hd.
  - rewrite Nat.add_0_r. reflexivity.
  - rewrite Nat.add_succ_r. rewrite peLnN_cont.
    + apply IH. lia.
    + apply (grid_tie_g0 gridT evs (etime c) Sg Pm). lia.
Qed.

(* PiecewiseExponentialCoalescentGrid = Kingman density of exp peLnN, coalescent times on grid
   points allowed (duplicate grid points, grid points <= 0 allowed too) *)
Theorem pwexp_eq_kingman_full theta gq growth gridT (evs : list ev) ts :
  keys_ok evs -> StronglySorted Rle gridT -> Permutation gridT (grid_times evs) ->
  StronglySorted Rle ts -> Permutation ts (map etime evs) ->
  pwexp_lp NumR theta gq growth gridT evs
  = kingman (fun a b g _ => peP theta gq growth gridT a b g)
            (fun t => peLnN theta growth gridT (glt evs t) t) evs ts.
Proof.
  intros K SG PG S Pm. unfold pwexp_lp.
  apply (lp_counting_tie (fun a b g _ => peP theta gq growth gridT a b g)
           (fun t g => peLnN theta growth gridT g t) evs ts K
           (peLnN_tie_continuous theta growth gridT evs SG PG) S Pm).
Qed.
Print Assumptions pwexp_eq_kingman_full.

(* ---- piecewise linear: N(g_(j+1)) computed on piece j+1 = computed on piece j = theta_(j+1),
   provided piece j has positive length ---- *)
Lemma linN_cont th gridT j t :
  (j < length gridT)%nat -> g0 NumR gridT (S j) = t -> g0 NumR gridT j <> t ->
  linN th gridT (S j) t = linN th gridT j t.
Proof.
  intros Hj H Hne. unfold linN, lin_N.
  assert (E : (length gridT <=? j)%nat = false) by (apply Nat.leb_gt; exact Hj). rewrite E.
  cbn [add sub mul div zero NumR]. rewrite H.
  transitivity (lk th (S j) 0).
  - destruct (length gridT <=? S j)%nat; [reflexivity|].
    replace (t - t) with 0 by ring. unfold Rdiv. rewrite Rmult_0_r, Rmult_0_l. ring.
  - field. lra.
Qed.

Lemma linN_tie_continuous th gridT (evs : list ev) :
  StronglySorted Rlt (0 :: gridT) -> Permutation gridT (grid_times evs) ->
  tie_continuous (fun t g => ln (linN th gridT g t)) evs.
Proof.
  intros S0 Pm c _ _ i [Hlo Hhi]. set (t := etime c) in *. set (j := glt evs t) in *.
  assert (Sg : StronglySorted Rlt gridT) by (inversion S0; assumption).
  destruct (Nat.eq_dec i j) as [->|Hne]; [reflexivity|].
  assert (Hj : (j < gcount evs t)%nat) by lia.
  assert (Hlen : (gcount evs t <= length gridT)%nat).
  { rewrite gcount_grid_times, <- (nle_perm _ _ t Pm). apply nle_length. }
  assert (Hi : i = S j).
  { pose proof (strict_nle_nlt gridT t Sg) as B.
    rewrite (nlt_perm _ _ t Pm), (nle_perm _ _ t Pm), <- glt_grid_times, <- gcount_grid_times in B.
    fold j in B. lia. }
  subst i. f_equal. apply linN_cont.
  - lia.
  - apply (grid_tie_g0 gridT evs t (sorted_lt_le _ Sg) Pm). fold j. lia.
  - pose proof (strict_lk_lt (0 :: gridT) S0 j) as B. simpl length in B.
    assert (E : g0 NumR gridT (S j) = t).
    { apply (grid_tie_g0 gridT evs t (sorted_lt_le _ Sg) Pm). fold j. lia. }
    change (lk (0 :: gridT) j 0) with (g0 NumR gridT j) in B.
    change (lk (0 :: gridT) (S j) 0) with (g0 NumR gridT (S j)) in B.
    rewrite E in B. assert (g0 NumR gridT j < t) by (apply B; lia). lra.
Qed.

(* PiecewiseLinearCoalescentGrid = Kingman density of linN, coalescent times on grid points allowed;
   the grid is 0 < g_1 < g_2 < ... and its points are the grid events *)
Theorem linear_eq_kingman_full thq th gridT (evs : list ev) ts :
  keys_ok evs -> StronglySorted Rlt (0 :: gridT) -> Permutation gridT (grid_times evs) ->
  StronglySorted Rle ts -> Permutation ts (map etime evs) ->
  linear_lp NumR thq th gridT evs
  = kingman (fun a b g _ => linP thq th gridT a b g) (fun t => ln (linN th gridT (glt evs t) t)) evs ts.
Proof.
  intros K SG PG S Pm. unfold linear_lp.
  apply (lp_counting_tie (fun a b g _ => linP thq th gridT a b g) (fun t g => ln (linN th gridT g t)) evs ts K
           (linN_tie_continuous th gridT evs SG PG) S Pm).
Qed.
Print Assumptions linear_eq_kingman_full.

(* ================================================================== Part 4: the hypotheses are necessary *)
(* The equations WITHOUT any hypothesis relating gridT to the grid events of evs are false: the
   model takes the grid list (interpolation abscissae) and the grid events (piece index) as
   independent arguments.  For the linear model "0 < g_1 < g_2 < ..." cannot be weakened to
   "0 <= g_1 <= g_2 <= ...": lin_N divides by the piece length, so a piece of length zero that ends
   on a coalescent time makes N discontinuous there (grid point at t = 0, or a repeated grid point).
   For the exponential model sortedness of gridT cannot be dropped.
   All witnesses: a grid point and a coalescence at the same time, the grid point supplied first. *)

(* lp - kingman only involves the ln N terms *)
Lemma lp_minus_kingman P Lf lnN (evs : list ev) ts :
  keys_ok evs -> StronglySorted Rle ts -> Permutation ts (map etime evs) ->
  lp NumR (fun iv => P (i_a iv) (i_b iv) (i_g iv) (i_c iv)) Lf (intervals (sort_ev evs))
  - kingman P lnN evs ts
  = coal_sum lnN evs - csum NumR Lf (intervals (sort_ev evs)).
Proof.
  intros K S Pm. unfold lp, kingman. cbn [sub opp NumR]. rewrite (ksum_counting P evs ts K S Pm). ring.
Qed.

Definition cxa_evs : list ev := [mkEv 1%Q 1 Grid; mkEv 1%Q 1 Coal].
Lemma cxa_intervals : intervals (sort_ev cxa_evs)
  = [mkIv 1 1 true 0%Z 0%nat 0%nat Grid; mkIv 1 1 true 0%Z 1%nat 0%nat Coal].
Proof. reflexivity. Qed.
Lemma cxa_keys_ok : keys_ok cxa_evs.
Proof.
  intros a b [<-|[<-|[]]] [<-|[<-|[]]]; cbn [ekey etime]; (split; [intros _; lra | intros _; reflexivity]).
Qed.
Lemma cxa_ts : StronglySorted Rle [1; 1] /\ Permutation [1; 1] (map etime cxa_evs).
Proof.
  split; [|reflexivity]. repeat constructor; lra.
Qed.

(* (a) the statement with no hypothesis on the grid: gridT = [5] but the grid event is at time 1 *)
Theorem linear_eq_kingman_unlinked_refuted :
  exists thq th gridT (evs : list ev) ts,
    keys_ok evs /\ StronglySorted Rle ts /\ Permutation ts (map etime evs) /\
    linear_lp NumR thq th gridT evs
    <> kingman (fun a b g _ => linP thq th gridT a b g) (fun t => ln (linN th gridT (glt evs t) t)) evs ts.
Proof.
  exists [1%Q; 2%Q], [1; 2], [5], cxa_evs, [1; 1].
  split; [exact cxa_keys_ok|]. split; [apply cxa_ts|]. split; [apply cxa_ts|].
  unfold linear_lp. rewrite cxa_intervals. unfold lp, ksum, csum.
  cbn [map i_zero i_end i_g i_b nsum lin_N length Nat.leb lk zero add sub opp nln NumR].
  unfold kingman, isum, pair_sum, kterm, coal_sum, cxa_evs. cbn [map ekind etime Rsum].
  unfold glt. cbn [cntN ekind etime isgrid Nat.add].
  destruct (Rlt_dec 1 1) as [H|_]; [lra|]. cbn [Nat.add].
  unfold linN, lin_N. cbn [length Nat.leb lk g0 zero add sub mul div NumR].
  replace (1 + (2 - 1) * (1 - 0) / (5 - 0)) with (6 / 5) by field.
  intros E. assert (E' : ln 2 = ln (6 / 5)) by lra. apply ln_inv in E'; lra.
Qed.

Theorem pwexp_eq_kingman_unlinked_refuted :
  exists theta gq growth gridT (evs : list ev) ts,
    keys_ok evs /\ StronglySorted Rle ts /\ Permutation ts (map etime evs) /\
    pwexp_lp NumR theta gq growth gridT evs
    <> kingman (fun a b g _ => peP theta gq growth gridT a b g)
               (fun t => peLnN theta growth gridT (glt evs t) t) evs ts.
Proof.
  exists 1, [1%Q; 2%Q], [1; 2], [5], cxa_evs, [1; 1].
  split; [exact cxa_keys_ok|]. split; [apply cxa_ts|]. split; [apply cxa_ts|].
  unfold pwexp_lp. rewrite cxa_intervals. unfold lp, ksum, csum.
  cbn [map i_zero i_end i_g i_b nsum pe_lnN pe_lnNg lk g0 zero add sub mul opp nln NumR].
  unfold kingman, isum, pair_sum, kterm, coal_sum, cxa_evs. cbn [map ekind etime Rsum].
  unfold glt. cbn [cntN ekind etime isgrid Nat.add].
  destruct (Rlt_dec 1 1) as [H|_]; [lra|]. cbn [Nat.add].
  unfold peLnN, pe_lnN. cbn [pe_lnNg lk g0 zero add sub mul NumR]. lra.
Qed.

(* (b) linear, gridT IS the sorted list of the grid-event times, 0 <= g_1: a grid point at t = 0 *)
Definition cxb_evs : list ev := [mkEv 0%Q 0 Grid; mkEv 0%Q 0 Coal].
Lemma cxb_intervals : intervals (sort_ev cxb_evs)
  = [mkIv 0 0 true 0%Z 0%nat 0%nat Grid; mkIv 0 0 true 0%Z 1%nat 0%nat Coal].
Proof. reflexivity. Qed.
Lemma cxb_keys_ok : keys_ok cxb_evs.
Proof.
  intros a b [<-|[<-|[]]] [<-|[<-|[]]]; cbn [ekey etime]; (split; [intros _; lra | intros _; reflexivity]).
Qed.

Theorem linear_eq_kingman_grid_at_zero_refuted :
  exists thq th gridT (evs : list ev) ts,
    keys_ok evs /\ StronglySorted Rle (0 :: gridT) /\ StronglySorted Rlt gridT /\
    Permutation gridT (grid_times evs) /\
    StronglySorted Rle ts /\ Permutation ts (map etime evs) /\
    linear_lp NumR thq th gridT evs
    <> kingman (fun a b g _ => linP thq th gridT a b g) (fun t => ln (linN th gridT (glt evs t) t)) evs ts.
Proof.
  exists [1%Q; 2%Q], [1; 2], [0], cxb_evs, [0; 0].
  split; [exact cxb_keys_ok|].
  split; [repeat constructor; lra|]. split; [repeat constructor|]. split; [reflexivity|].
  split; [repeat constructor; lra|]. split; [reflexivity|].
  unfold linear_lp. rewrite cxb_intervals. unfold lp, ksum, csum.
  cbn [map i_zero i_end i_g i_b nsum lin_N length Nat.leb lk zero add sub opp nln NumR].
  unfold kingman, isum, pair_sum, kterm, coal_sum, cxb_evs. cbn [map ekind etime Rsum].
  unfold glt. cbn [cntN ekind etime isgrid Nat.add].
  destruct (Rlt_dec 0 0) as [H|_]; [lra|]. cbn [Nat.add].
  unfold linN, lin_N. cbn [length Nat.leb lk g0 zero add sub mul div NumR].
  replace (1 + (2 - 1) * (0 - 0) / (0 - 0)) with 1 by (unfold Rdiv; ring).
  rewrite ln_1. intros E. assert (E' : ln 2 = ln 1) by (rewrite ln_1; lra). apply ln_inv in E'; lra.
Qed.

(* (c) linear, gridT IS the sorted list of the grid-event times, 0 < g_1 <= g_2: a repeated grid point *)
Definition cxc_evs : list ev := [mkEv 1%Q 1 Grid; mkEv 1%Q 1 Grid; mkEv 1%Q 1 Coal].
Lemma cxc_intervals : intervals (sort_ev cxc_evs)
  = [mkIv 1 1 true 0%Z 0%nat 0%nat Grid; mkIv 1 1 true 0%Z 1%nat 0%nat Grid;
     mkIv 1 1 true 0%Z 2%nat 0%nat Coal].
Proof. reflexivity. Qed.
Lemma cxc_keys_ok : keys_ok cxc_evs.
Proof.
  intros a b [<-|[<-|[<-|[]]]] [<-|[<-|[<-|[]]]]; cbn [ekey etime]; (split; [intros _; lra | intros _; reflexivity]).
Qed.

Theorem linear_eq_kingman_repeated_grid_refuted :
  exists thq th gridT (evs : list ev) ts,
    keys_ok evs /\ StronglySorted Rle gridT /\ Forall (fun g => 0 < g) gridT /\
    Permutation gridT (grid_times evs) /\
    StronglySorted Rle ts /\ Permutation ts (map etime evs) /\
    linear_lp NumR thq th gridT evs
    <> kingman (fun a b g _ => linP thq th gridT a b g) (fun t => ln (linN th gridT (glt evs t) t)) evs ts.
Proof.
  exists [1%Q; 2%Q; 3%Q], [1; 2; 3], [1; 1], cxc_evs, [1; 1; 1].
  split; [exact cxc_keys_ok|].
  split; [repeat constructor; lra|]. split; [repeat constructor; lra|]. split; [reflexivity|].
  split; [repeat constructor; lra|]. split; [reflexivity|].
  unfold linear_lp. rewrite cxc_intervals. unfold lp, ksum, csum.
  cbn [map i_zero i_end i_g i_b nsum lin_N length Nat.leb lk zero add sub opp nln NumR].
  unfold kingman, isum, pair_sum, kterm, coal_sum, cxc_evs. cbn [map ekind etime Rsum].
  unfold glt. cbn [cntN ekind etime isgrid Nat.add].
  destruct (Rlt_dec 1 1) as [H|_]; [lra|]. cbn [Nat.add].
  unfold linN, lin_N. cbn [length Nat.leb lk g0 zero add sub mul div NumR].
  replace (1 + (2 - 1) * (1 - 0) / (1 - 0)) with 2 by field.
  intros E. assert (E' : ln 3 = ln 2) by lra. apply ln_inv in E'; lra.
Qed.

(* (d) exponential, gridT is a permutation of the grid-event times but not sorted *)
Definition cxd_evs : list ev := [mkEv 2%Q 2 Grid; mkEv 1%Q 1 Grid; mkEv 1%Q 1 Coal].
Lemma cxd_intervals : intervals (sort_ev cxd_evs)
  = [mkIv 1 1 true 0%Z 0%nat 0%nat Grid; mkIv 1 1 true 0%Z 1%nat 0%nat Coal;
     mkIv 1 2 false (-1)%Z 1%nat 1%nat Grid].
Proof. reflexivity. Qed.
Lemma cxd_keys_ok : keys_ok cxd_evs.
Proof.
  intros a b [<-|[<-|[<-|[]]]] [<-|[<-|[<-|[]]]]; cbn [ekey etime];
    (split; [intros H; try lra; discriminate H | intros H; try reflexivity; lra]).
Qed.

Theorem pwexp_eq_kingman_unsorted_grid_refuted :
  exists theta gq growth gridT (evs : list ev) ts,
    keys_ok evs /\ Permutation gridT (grid_times evs) /\
    StronglySorted Rle ts /\ Permutation ts (map etime evs) /\
    pwexp_lp NumR theta gq growth gridT evs
    <> kingman (fun a b g _ => peP theta gq growth gridT a b g)
               (fun t => peLnN theta growth gridT (glt evs t) t) evs ts.
Proof.
  exists 1, [1%Q; 2%Q; 3%Q], [1; 2; 3], [2; 1], cxd_evs, [1; 1; 2].
  split; [exact cxd_keys_ok|]. split; [reflexivity|].
  assert (S : StronglySorted Rle [1; 1; 2]) by (repeat constructor; lra).
  assert (Pm : Permutation [1; 1; 2] (map etime cxd_evs)).
  { cbn [map etime cxd_evs]. apply Permutation_sym, (Permutation_cons_app [1; 1] []). reflexivity. }
  split; [exact S|]. split; [exact Pm|].
  intros E. apply Rminus_diag_eq in E. unfold pwexp_lp in E.
  rewrite (lp_minus_kingman (fun a b g _ => peP 1 [1%Q; 2%Q; 3%Q] [1; 2; 3] [2; 1] a b g) _ _
             cxd_evs [1; 1; 2] cxd_keys_ok S Pm) in E.
  rewrite cxd_intervals in E. unfold csum in E.
  cbn [map i_zero i_end i_g i_b nsum pe_lnN pe_lnNg lk g0 zero add sub mul opp nln NumR] in E.
  unfold coal_sum, cxd_evs in E. cbn [map ekind etime Rsum] in E.
  unfold glt in E. cbn [cntN ekind etime isgrid Nat.add] in E.
  destruct (Rlt_dec 2 1) as [H|_]; [lra|]. destruct (Rlt_dec 1 1) as [H|_]; [lra|]. cbn [Nat.add] in E.
  unfold peLnN, pe_lnN in E. cbn [pe_lnNg lk g0 zero add sub mul NumR] in E. lra.
Qed.

(* ================================================================== Part 5: the entry points *)
(* linear_q / pwexp_q build gridT and the grid events from the same exact list: the hypothesis
   "gridT = grid-event times" holds by construction; what is left is the shape of the grid. *)
Lemma mk_events_grid_times tips coals grid :
  grid_times (mk_events NumR tips coals grid) = map Q2R grid.
Proof.
  unfold grid_times, mk_events. rewrite !filter_app, !map_app.
  assert (A : forall k (l : list Q), is_grid k = false ->
              filter (fun e : ev => is_grid (ekind e)) (map (fun q => mkEv q (ofQ NumR q) k) l) = []).
  { intros k l Hk. induction l as [|q l IH]; simpl; [reflexivity|]. rewrite Hk. exact IH. }
  rewrite (A Tip tips eq_refl), (A Coal coals eq_refl). simpl.
  induction grid as [|q l IH]; simpl; [reflexivity|]. rewrite IH. reflexivity.
Qed.
Lemma sorted_Q2R_le l : StronglySorted Qle l -> StronglySorted Rle (map Q2R l).
Proof.
  induction 1 as [|x r Hs IH F]; simpl; constructor; auto.
  rewrite Forall_forall in *. intros y Hy. apply in_map_iff in Hy. destruct Hy as [z [<- Hz]].
  apply Qle_Rle, F, Hz.
Qed.
Lemma sorted_Q2R_lt l : StronglySorted Qlt l -> StronglySorted Rlt (map Q2R l).
Proof.
  induction 1 as [|x r Hs IH F]; simpl; constructor; auto.
  rewrite Forall_forall in *. intros y Hy. apply in_map_iff in Hy. destruct Hy as [z [<- Hz]].
  apply Qlt_Rlt, F, Hz.
Qed.

Theorem linear_q_eq_kingman thetas grid tips coals ts :
  StronglySorted Qlt (0%Q :: grid) ->
  let evs := mk_events NumR tips coals grid in
  StronglySorted Rle ts -> Permutation ts (map etime evs) ->
  linear_q NumR thetas grid tips coals
  = kingman (fun a b g _ => linP thetas (map Q2R thetas) (map Q2R grid) a b g)
            (fun t => ln (linN (map Q2R thetas) (map Q2R grid) (glt evs t) t)) evs ts.
Proof.
  intros SG evs S Pm. unfold linear_q. cbn [ofQ NumR].
  apply linear_eq_kingman_full; auto.
  - apply mk_events_keys_ok.
  - apply sorted_Q2R_lt in SG. cbn [map] in SG. rewrite RMicromega.Q2R_0 in SG. exact SG.
  - unfold evs. rewrite mk_events_grid_times. reflexivity.
Qed.
Print Assumptions linear_q_eq_kingman.

Theorem pwexp_q_eq_kingman theta growth grid tips coals ts :
  StronglySorted Qle grid ->
  let evs := mk_events NumR tips coals grid in
  StronglySorted Rle ts -> Permutation ts (map etime evs) ->
  pwexp_q NumR theta growth grid tips coals
  = kingman (fun a b g _ => peP (Q2R theta) growth (map Q2R growth) (map Q2R grid) a b g)
            (fun t => peLnN (Q2R theta) (map Q2R growth) (map Q2R grid) (glt evs t) t) evs ts.
Proof.
  intros SG evs S Pm. unfold pwexp_q. cbn [ofQ NumR].
  apply pwexp_eq_kingman_full; auto.
  - apply mk_events_keys_ok.
  - apply sorted_Q2R_le, SG.
  - unfold evs. rewrite mk_events_grid_times. reflexivity.
Qed.
Print Assumptions pwexp_q_eq_kingman.

Print Assumptions linear_eq_kingman_unlinked_refuted.
Print Assumptions pwexp_eq_kingman_unlinked_refuted.
Print Assumptions linear_eq_kingman_grid_at_zero_refuted.
Print Assumptions linear_eq_kingman_repeated_grid_refuted.
Print Assumptions pwexp_eq_kingman_unsorted_grid_refuted.
