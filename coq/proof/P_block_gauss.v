(* C15, the Gaussian block proposal of GMRFPiecewiseCoalescentBlockUpdatingOperator._step
   (torchtree/inference/mcmc/gmrf_block_updating.py, lines 158-220): the number the operator returns,
   log_q_backward - log_q_forward, is the true log ratio of reverse to forward proposal densities.

   What the code does (n = dimension of the field gamma; the two Newton modes are GIVEN, they only
   enter through the matrices QW and the right-hand sides b):
     forward :  QW_f = Q' + diag(w exp(-m_f)),  b_f = w exp(-m_f) (m_f + 1) - counts,
                U_f  = cholesky(QW_f, upper=True)          (U_f^T U_f = QW_f, upper, positive diagonal)
                v    = solve(U_f^T, b_f);  mu_f = solve(U_f, v);  z ~ N(0, I_n);  u = solve(U_f, z)
                gamma' = mu_f + u
                log_q_forward  = sum_i ln (U_f)_ii - 1/2 z.z
     backward:  QW_b, b_b, U_b, mu_b the same with the ORIGINAL precision matrix and the mode found
                from gamma';  d = gamma - mu_b
                log_q_backward = sum_i ln (U_b)_ii - 1/2 d.(QW_b d)
     return log_q_backward - log_q_forward.

   The Gaussian density used here.  For an upper-triangular U with positive diagonal the map
   z |-> mu + U^-1 z is an affine bijection of R^n (back substitution: [back_substitution] below proves
   existence and uniqueness of the solve), with inverse y |-> U (y - mu) whose Jacobian matrix is the
   constant U.  If z is a standard normal vector (density prod_i phi(z_i), phi(t) = exp(-t^2/2)/sqrt(2 pi)),
   the change-of-variables formula gives the density of y = mu + U^-1 z:
        p(y) = prod_i phi(z_i) * |det U|,      z = U (y - mu),
   i.e.  ln p(y) = sum_i ln phi(z_i) + ln |det U| = - 1/2 |U (y - mu)|^2 + ln |det U| - n/2 ln(2 pi).
   This is [lgauss_chol] ([lgauss_chol_change_of_variables] proves the two expressions equal).  Because
   |U x|^2 = x^T (U^T U) x ([quad_gram]) it is the N(mu, (U^T U)^-1) density
        - 1/2 (y-mu)^T P (y-mu) + 1/2 ln det P - n/2 ln(2 pi),   P = U^T U  (det P = (det U)^2),
   ([lgauss_chol_precision_form] with ln |det U| in place of 1/2 ln det P; [lgauss_chol_1d] is the usual
   normal log density with variance 1/U^2 for n = 1, [lgauss_chol_2d] the textbook bivariate normal in
   precision form for n = 2).

   Matrices are lists of rows read through [entry] (P_det_def.v: missing entries read as zero), vectors
   are lists; [matvec], [quad] (M_gmrf.v), [ndot] (Num.v), [ldet] (P_det_def.v), [diagonal], [tabulate],
   [logabsdet_upper_triangular] (P_tridet.v) are reused. *)
From Coq Require Import Reals List Lra Lia Arith.
Import ListNotations.
From TT Require Import Num NumR P_det_def P_tridet M_gmrf.
Open Scope R_scope.

(* ------------------------------------------------------------------ vectors and matrices *)
Notation dot := (ndot NumR).                 (* a . b          (z @ z, diagonal1 @ diagonal3) *)
Notation mv := (matvec NumR).                (* M x            (backwardQW @ diagonal1)       *)
Definition vadd : list R -> list R -> list R := zipw Rplus.    (* mu + u       *)
Definition vsub : list R -> list R -> list R := zipw Rminus.   (* gamma - mu   *)

(* transpose and product of the leading n x n blocks *)
Definition transpose (n : nat) (M : list (list R)) : list (list R) :=
  tabulate n (fun i j => entryR M j i).

(* sum_{i < n} f i *)
Fixpoint bsum (f : nat -> R) (n : nat) : R :=
  match n with O => 0 | S k => bsum f k + f k end.

Definition mm (n : nat) (A B : list (list R)) : list (list R) :=
  tabulate n (fun i j => bsum (fun k => entryR A i k * entryR B k j) n).

(* entrywise equality of the leading n x n blocks *)
Definition mat_eq (n : nat) (A B : list (list R)) : Prop :=
  forall i j, (i < n)%nat -> (j < n)%nat -> entryR A i j = entryR B i j.

(* upper triangular with positive diagonal, n rows: what torch.linalg.cholesky(., upper=True) returns *)
Definition upper_tri (n : nat) (U : list (list R)) : Prop :=
  forall i j, (j < i < n)%nat -> entryR U i j = 0.
Definition pos_diag (n : nat) (U : list (list R)) : Prop :=
  List.Forall (fun d => 0 < d) (diagonal n U).
Definition chol_shape (n : nat) (U : list (list R)) : Prop :=
  length U = n /\ upper_tri n U /\ pos_diag n U.
(* U is the upper Cholesky factor of QW:  U^T U = QW *)
Definition chol_of (n : nat) (QW U : list (list R)) : Prop :=
  chol_shape n U /\ mat_eq n QW (mm n (transpose n U) U).

(* ------------------------------------------------------------------ finite sums *)
Lemma bsum_ext f g n : (forall i, (i < n)%nat -> f i = g i) -> bsum f n = bsum g n.
Proof.
  induction n as [|n IH]; intros H; cbn [bsum]; [reflexivity|].
  rewrite IH by (intros i Hi; apply H; lia). rewrite (H n) by lia. reflexivity.
Qed.
Lemma bsum_zero n : bsum (fun _ => 0) n = 0.
Proof. induction n as [|n IH]; cbn [bsum]; [reflexivity|]. rewrite IH. lra. Qed.
Lemma bsum_scal_l c f n : c * bsum f n = bsum (fun i => c * f i) n.
Proof. induction n as [|n IH]; cbn [bsum]; [lra|]. rewrite <- IH. lra. Qed.
Lemma bsum_scal_r c f n : bsum f n * c = bsum (fun i => f i * c) n.
Proof. induction n as [|n IH]; cbn [bsum]; [lra|]. rewrite <- IH. lra. Qed.
Lemma bsum_plus f g n : bsum (fun i => f i + g i) n = bsum f n + bsum g n.
Proof. induction n as [|n IH]; cbn [bsum]; [lra|]. rewrite IH. lra. Qed.
Lemma bsum_shift f n : bsum f (S n) = f 0%nat + bsum (fun i => f (S i)) n.
Proof.
  induction n as [|n IH]; [cbn [bsum]; lra|].
  change (bsum f (S (S n))) with (bsum f (S n) + f (S n)). rewrite IH. cbn [bsum]. lra.
Qed.
Lemma bsum_exchange (f : nat -> nat -> R) n m :
  bsum (fun i => bsum (fun j => f i j) m) n = bsum (fun j => bsum (fun i => f i j) n) m.
Proof.
  induction n as [|n IH]; cbn [bsum].
  - symmetry. apply bsum_zero.
  - rewrite IH. symmetry. apply bsum_plus.
Qed.
Lemma bsum_rsum f n : bsum f n = rsum (map f (seq 0 n)).
Proof.
  revert f. induction n as [|n IH]; intros f; [reflexivity|].
  rewrite bsum_shift. cbn [seq map rsum]. rewrite <- seq_shift, map_map. rewrite IH. reflexivity.
Qed.

(* ------------------------------------------------------------------ dot, mv as finite sums *)
Lemma dot_nil_r a : dot a [] = 0.
Proof. destruct a; reflexivity. Qed.
Lemma dot_comm : forall a b, dot a b = dot b a.
Proof.
  induction a as [|x r IH]; intros [|y s]; try reflexivity.
  cbn [ndot add mul NumR]. rewrite IH. lra.
Qed.
Lemma nth_nil_R i : nth i (@nil R) 0 = 0.
Proof. destruct i; reflexivity. Qed.

Lemma dot_bsum_l : forall a b n, (length a <= n)%nat ->
  dot a b = bsum (fun i => nth i a 0 * nth i b 0) n.
Proof.
  induction a as [|x r IH]; intros b n Hn.
  - cbn [ndot zero NumR]. transitivity (bsum (fun _ => 0) n); [symmetry; apply bsum_zero|]. apply bsum_ext. intros i _. rewrite nth_nil_R. lra.
  - destruct n as [|n]; [cbn [length] in Hn; lia|]. destruct b as [|y s].
    + cbn [ndot zero NumR]. transitivity (bsum (fun _ => 0) (S n)); [symmetry; apply bsum_zero|]. apply bsum_ext. intros i _.
      rewrite nth_nil_R. lra.
    + cbn [ndot add mul NumR]. rewrite bsum_shift. cbn [nth]. f_equal.
      apply IH. cbn [length] in Hn. lia.
Qed.
Lemma dot_bsum_r a b n : (length b <= n)%nat ->
  dot a b = bsum (fun i => nth i a 0 * nth i b 0) n.
Proof.
  intros H. rewrite dot_comm, (dot_bsum_l b a n H). apply bsum_ext. intros i _. lra.
Qed.

Lemma mv_length M x : length (mv M x) = length M.
Proof. unfold matvec. apply map_length. Qed.
Lemma nth_mv M x i : nth i (mv M x) 0 = dot (nth i M []) x.
Proof.
  unfold matvec. change 0 with ((fun row => dot row x) []) at 1.
  apply (map_nth (fun row => dot row x)).
Qed.
(* (M x)_i = sum_j M_ij x_j *)
Lemma nth_mv_bsum M x n i : (length x <= n)%nat ->
  nth i (mv M x) 0 = bsum (fun j => entryR M i j * nth j x 0) n.
Proof. intros H. rewrite nth_mv. apply dot_bsum_r. exact H. Qed.

Lemma entry_transpose n M i j : (i < n)%nat -> (j < n)%nat -> entryR (transpose n M) i j = entryR M j i.
Proof. intros Hi Hj. unfold transpose. exact (entry_tabulate n (fun i j => entryR M j i) i j Hi Hj). Qed.
Lemma tabulate_length n f : length (tabulate n f) = n.
Proof. unfold tabulate. rewrite map_length, seq_length. reflexivity. Qed.
Lemma transpose_length n M : length (transpose n M) = n.
Proof. apply tabulate_length. Qed.
Lemma entry_mm n A B i j : (i < n)%nat -> (j < n)%nat ->
  entryR (mm n A B) i j = bsum (fun k => entryR A i k * entryR B k j) n.
Proof. intros Hi Hj. unfold mm.
  exact (entry_tabulate n (fun i j => bsum (fun k => entryR A i k * entryR B k j) n) i j Hi Hj). Qed.
(* (U^T U)_ij = sum_k U_ki U_kj *)
Lemma entry_gram n U i j : (i < n)%nat -> (j < n)%nat ->
  entryR (mm n (transpose n U) U) i j = bsum (fun k => entryR U k i * entryR U k j) n.
Proof.
  intros Hi Hj. rewrite entry_mm by assumption. apply bsum_ext. intros k Hk.
  rewrite entry_transpose by assumption. reflexivity.
Qed.

(* two vectors of length n with the same components are equal *)
Lemma list_ext_nth : forall (a b : list R) n, length a = n -> length b = n ->
  (forall i, (i < n)%nat -> nth i a 0 = nth i b 0) -> a = b.
Proof.
  induction a as [|x r IH]; intros [|y s] n Ha Hb H; cbn [length] in *; try lia; [reflexivity|].
  destruct n as [|n]; [lia|]. f_equal.
  - exact (H 0%nat ltac:(lia)).
  - apply (IH s n); [lia|lia|]. intros i Hi. exact (H (S i) ltac:(lia)).
Qed.

(* ------------------------------------------------------------------ (U^T U) x = U^T (U x) *)
Lemma gram_mv_nth n QW U x i :
  length U = n -> length x = n -> mat_eq n QW (mm n (transpose n U) U) -> (i < n)%nat ->
  nth i (mv QW x) 0 = nth i (mv (transpose n U) (mv U x)) 0.
Proof.
  intros HU Hx HQ Hi.
  rewrite (nth_mv_bsum QW x n) by lia.
  rewrite (nth_mv_bsum (transpose n U) (mv U x) n) by (rewrite mv_length; lia).
  transitivity (bsum (fun j => bsum (fun k => entryR U k i * (entryR U k j * nth j x 0)) n) n).
  - apply bsum_ext. intros j Hj. rewrite (HQ i j Hi Hj), entry_gram by assumption.
    rewrite bsum_scal_r. apply bsum_ext. intros k _. lra.
  - rewrite bsum_exchange. apply bsum_ext. intros k Hk.
    rewrite entry_transpose by assumption. rewrite (nth_mv_bsum U x n) by lia.
    rewrite bsum_scal_l. reflexivity.
Qed.

(* x . (U^T y) = (U x) . y *)
Lemma transpose_adjoint n U x y :
  length U = n -> length x = n -> length y = n ->
  dot x (mv (transpose n U) y) = dot (mv U x) y.
Proof.
  intros HU Hx Hy.
  rewrite (dot_bsum_l x _ n) by lia. rewrite (dot_bsum_r (mv U x) y n) by lia.
  transitivity (bsum (fun i => bsum (fun k => entryR U k i * nth i x 0 * nth k y 0) n) n).
  - apply bsum_ext. intros i Hi. rewrite (nth_mv_bsum (transpose n U) y n) by lia.
    rewrite bsum_scal_l. apply bsum_ext. intros k Hk. rewrite entry_transpose by assumption. lra.
  - rewrite bsum_exchange. apply bsum_ext. intros k Hk.
    rewrite (nth_mv_bsum U x n) by lia. rewrite bsum_scal_r. reflexivity.
Qed.

(* (4) the mean the code computes: v = solve(U^T, b), mu = solve(U, v)  ==>  QW mu = b,
   i.e. mu = QW^-1 b, the mean of the Gaussian approximation at the mode *)
Theorem mean_solves n QW U b v mu :
  length QW = n -> length U = n -> length mu = n ->
  mat_eq n QW (mm n (transpose n U) U) ->
  mv (transpose n U) v = b -> mv U mu = v ->
  mv QW mu = b.
Proof.
  intros HQW HU Hmu HQ Hv Hm. subst b v.
  apply (list_ext_nth _ _ n).
  - rewrite mv_length. exact HQW.
  - rewrite mv_length. apply transpose_length.
  - intros i Hi. apply gram_mv_nth; assumption.
Qed.
Print Assumptions mean_solves.

(* (2a) the quadratic form of U^T U is the squared norm of U x *)
Theorem quad_gram n QW U d :
  length U = n -> length d = n -> mat_eq n QW (mm n (transpose n U) U) ->
  dot d (mv QW d) = dot (mv U d) (mv U d).
Proof.
  intros HU Hd HQ.
  rewrite <- (transpose_adjoint n U d (mv U d)) by (try rewrite mv_length; assumption).
  rewrite (dot_bsum_l d (mv QW d) n) by lia.
  rewrite (dot_bsum_l d (mv (transpose n U) (mv U d)) n) by lia.
  apply bsum_ext. intros i Hi. f_equal. apply gram_mv_nth; assumption.
Qed.
Print Assumptions quad_gram.

(* the same in the vocabulary of M_gmrf.v *)
Corollary quad_gram_quad n QW U d :
  length U = n -> length d = n -> mat_eq n QW (mm n (transpose n U) U) ->
  quad NumR QW d = dot (mv U d) (mv U d).
Proof. apply quad_gram. Qed.

(* ------------------------------------------------------------------ the Gaussian log density *)
Definition half_n_ln2pi (n : nat) : R := INR n / 2 * ln (2 * PI).

Definition lgauss_chol (n : nat) (mu : list R) (U : list (list R)) (y : list R) : R :=
  - (1 / 2) * dot (mv U (vsub y mu)) (mv U (vsub y mu)) + ln (Rabs (ldetR n U)) - half_n_ln2pi n.

(* the standard normal density and the change-of-variables reading of the definition *)
Definition phi (t : R) : R := / sqrt (2 * PI) * exp (- (t * t) / 2).

Lemma two_pi_pos : 0 < 2 * PI.
Proof. generalize PI_RGT_0. lra. Qed.
Lemma ln_sqrt_half x : 0 < x -> ln (sqrt x) = / 2 * ln x.
Proof.
  intros Hx. assert (Hs : 0 < sqrt x) by (apply sqrt_lt_R0; exact Hx).
  assert (E : ln x = ln (sqrt x) + ln (sqrt x)).
  { rewrite <- ln_mult by exact Hs. rewrite sqrt_sqrt by lra. reflexivity. }
  lra.
Qed.
Lemma ln_phi t : ln (phi t) = - (t * t) / 2 - / 2 * ln (2 * PI).
Proof.
  unfold phi. assert (Hs : 0 < sqrt (2 * PI)) by (apply sqrt_lt_R0, two_pi_pos).
  rewrite ln_mult; [|apply Rinv_0_lt_compat; exact Hs|apply exp_pos].
  rewrite ln_exp, ln_Rinv by exact Hs. rewrite ln_sqrt_half by apply two_pi_pos. lra.
Qed.
Lemma rsum_ln_phi : forall z,
  rsum (map (fun t => ln (phi t)) z) = - (1 / 2) * dot z z - half_n_ln2pi (length z).
Proof.
  unfold half_n_ln2pi. induction z as [|t z IH].
  - cbn [map rsum ndot zero NumR length INR]. lra.
  - cbn [map rsum ndot add mul NumR]. rewrite IH, ln_phi.
    change (length (t :: z)) with (S (length z)). rewrite S_INR. lra.
Qed.

(* ln p(y) = sum_i ln phi(z_i) + ln |det U|  with  z = U (y - mu)  (U has n rows) *)
Theorem lgauss_chol_change_of_variables n mu U y :
  length U = n ->
  lgauss_chol n mu U y =
  rsum (map (fun t => ln (phi t)) (mv U (vsub y mu))) + ln (Rabs (ldetR n U)).
Proof.
  intros HU. unfold lgauss_chol. rewrite rsum_ln_phi, mv_length, HU. lra.
Qed.

(* ln |det U| = sum_i ln U_ii *)
Lemma chol_logdet n U : chol_shape n U -> ln (Rabs (ldetR n U)) = rsum (map ln (diagonal n U)).
Proof. intros (_ & Hu & Hp). apply logabsdet_upper_triangular; assumption. Qed.

(* precision form: - 1/2 (y-mu)^T QW (y-mu) + ln |det U| - n/2 ln(2 pi)  when U^T U = QW *)
Theorem lgauss_chol_precision_form n QW mu U y :
  chol_of n QW U -> length (vsub y mu) = n ->
  lgauss_chol n mu U y =
  - (1 / 2) * quad NumR QW (vsub y mu) + rsum (map ln (diagonal n U)) - half_n_ln2pi n.
Proof.
  intros [Hs HQ] Hd. unfold lgauss_chol. rewrite (chol_logdet n U Hs).
  rewrite (quad_gram_quad n QW U) by (try apply Hs; assumption). reflexivity.
Qed.

(* ------------------------------------------------------------------ vector helpers *)
Lemma vsub_vadd : forall mu u, (length u <= length mu)%nat -> vsub (vadd mu u) mu = u.
Proof.
  unfold vsub, vadd. induction mu as [|m mu IH]; intros [|x u] H; cbn [length] in H; try lia;
    try reflexivity.
  cbn [zipw]. f_equal; [lra|]. apply IH. lia.
Qed.
Lemma vsub_length : forall a b, length a = length b -> length (vsub a b) = length a.
Proof.
  unfold vsub. induction a as [|x a IH]; intros [|y b] H; cbn [length] in H; try lia; [reflexivity|].
  cbn [zipw length]. f_equal. apply IH. lia.
Qed.

(* ------------------------------------------------------------------ the operator's two numbers *)
(* diagonal = cholesky[range(dim), range(dim)];  diagonal.log().sum() - 0.5 * (z @ z) *)
Definition log_q_forward (n : nat) (U : list (list R)) (z : list R) : R :=
  rsum (map ln (diagonal n U)) - (1 / 2) * dot z z.
(* diagonal.log().sum() - 0.5 * (diagonal1 @ (backwardQW @ diagonal1)),  diagonal1 = gamma - mu *)
Definition log_q_backward (n : nat) (U QW : list (list R)) (gamma mu : list R) : R :=
  rsum (map ln (diagonal n U)) - (1 / 2) * dot (vsub gamma mu) (mv QW (vsub gamma mu)).

(* (1) forward *)
Theorem forward_is_gauss n mu U u z gamma' :
  chol_shape n U -> length mu = n -> length u = n ->
  mv U u = z ->                       (* u = solve(U, z) *)
  gamma' = vadd mu u ->
  log_q_forward n U z = lgauss_chol n mu U gamma' + half_n_ln2pi n.
Proof.
  intros Hs Hmu Hu Hz Hg. unfold log_q_forward, lgauss_chol.
  rewrite (chol_logdet n U Hs). subst gamma'. rewrite vsub_vadd by lia. rewrite Hz. lra.
Qed.
Print Assumptions forward_is_gauss.

(* (2) backward *)
Theorem backward_is_gauss n QW mu U gamma :
  chol_of n QW U -> length gamma = n -> length mu = n ->
  log_q_backward n U QW gamma mu = lgauss_chol n mu U gamma + half_n_ln2pi n.
Proof.
  intros [Hs HQ] Hg Hmu. unfold log_q_backward, lgauss_chol.
  rewrite (chol_logdet n U Hs).
  rewrite (quad_gram n QW U) by (try apply Hs; try (rewrite vsub_length; lia); assumption). lra.
Qed.
Print Assumptions backward_is_gauss.

(* (3) the returned Hastings ratio is the true log ratio of the reverse proposal density
   N(mu_b, QW_b^-1) at gamma to the forward proposal density N(mu_f, QW_f^-1) at gamma' *)
Theorem hastings_gaussian_block n gamma gamma' mu_f U_f u z QW_b mu_b U_b :
  chol_shape n U_f -> length mu_f = n -> length u = n ->
  mv U_f u = z -> gamma' = vadd mu_f u ->
  chol_of n QW_b U_b -> length gamma = n -> length mu_b = n ->
  log_q_backward n U_b QW_b gamma mu_b - log_q_forward n U_f z =
  lgauss_chol n mu_b U_b gamma - lgauss_chol n mu_f U_f gamma'.
Proof.
  intros Hsf Hmf Hu Hz Hg' Hcb Hg Hmb.
  rewrite (forward_is_gauss n mu_f U_f u z gamma') by assumption.
  rewrite (backward_is_gauss n QW_b mu_b U_b gamma) by assumption. lra.
Qed.
Print Assumptions hastings_gaussian_block.

(* the whole step, with the means: both Cholesky factorisations and all six triangular solves exact.
   Then mu_f = QW_f^-1 b_f and mu_b = QW_b^-1 b_b (the means of the Gaussian approximations at the two
   modes), and the returned value is the log ratio of N(mu_b, QW_b^-1)(gamma) to N(mu_f, QW_f^-1)(gamma'),
   both written in precision form. *)
Theorem block_step_hastings n gamma gamma' z u
        QW_f b_f U_f v_f mu_f QW_b b_b U_b v_b mu_b :
  length gamma = n -> length u = n ->
  length QW_f = n -> length QW_b = n -> length mu_f = n -> length mu_b = n ->
  chol_of n QW_f U_f -> mv (transpose n U_f) v_f = b_f -> mv U_f mu_f = v_f ->
  mv U_f u = z -> gamma' = vadd mu_f u ->
  chol_of n QW_b U_b -> mv (transpose n U_b) v_b = b_b -> mv U_b mu_b = v_b ->
  mv QW_f mu_f = b_f /\ mv QW_b mu_b = b_b /\
  log_q_backward n U_b QW_b gamma mu_b - log_q_forward n U_f z =
    (- (1 / 2) * quad NumR QW_b (vsub gamma mu_b) + ln (Rabs (ldetR n U_b)) - half_n_ln2pi n) -
    (- (1 / 2) * quad NumR QW_f (vsub gamma' mu_f) + ln (Rabs (ldetR n U_f)) - half_n_ln2pi n).
Proof.
  intros Hg Hu HQf HQb Hmf Hmb [Hsf HQWf] Hvf Hmuf Hz Hg' [Hsb HQWb] Hvb Hmub.
  split; [|split].
  - apply (mean_solves n QW_f U_f b_f v_f mu_f); try assumption. apply Hsf.
  - apply (mean_solves n QW_b U_b b_b v_b mu_b); try assumption. apply Hsb.
  - rewrite (hastings_gaussian_block n gamma gamma' mu_f U_f u z QW_b mu_b U_b);
      try assumption; [|split; assumption].
    unfold lgauss_chol.
    rewrite (quad_gram_quad n QW_b U_b (vsub gamma mu_b));
      [|apply Hsb|rewrite vsub_length; lia|assumption].
    rewrite (quad_gram_quad n QW_f U_f (vsub gamma' mu_f));
      [reflexivity|apply Hsf| |assumption].
    subst gamma'. rewrite vsub_vadd by lia. exact Hu.
Qed.
Print Assumptions block_step_hastings.

(* Remark (the filter).  The code sums [diagonal[diagonal > 1e-7].log()]: entries of the Cholesky
   diagonal that do not exceed 1e-7 are dropped.  When every diagonal entry exceeds the threshold the
   filter is the identity and the sum is sum_i ln U_ii, the quantity used above; otherwise the returned
   number is NOT the Gaussian log density (a dropped entry d contributes 0 instead of ln d). *)
Definition keep_above (eps : R) (l : list R) : list R :=
  filter (fun d => if Rlt_dec eps d then true else false) l.
Lemma filter_log_sum eps l :
  List.Forall (fun d => eps < d) l -> rsum (map ln (keep_above eps l)) = rsum (map ln l).
Proof.
  intros H. unfold keep_above. f_equal. f_equal.
  induction H as [|d l Hd _ IH]; cbn [filter]; [reflexivity|].
  destruct (Rlt_dec eps d) as [_|Hn]; [rewrite IH; reflexivity|contradiction].
Qed.
Corollary filtered_diagonal_sum n U :
  List.Forall (fun d => 1 / 10000000 < d) (diagonal n U) ->
  rsum (map ln (keep_above (1 / 10000000) (diagonal n U))) = rsum (map ln (diagonal n U)) /\
  pos_diag n U.
Proof.
  intros H. split; [apply filter_log_sum; exact H|].
  unfold pos_diag. revert H. apply List.Forall_impl. intros d Hd. lra.
Qed.

(* ------------------------------------------------------------------ n = 1: the usual normal density *)
Theorem lgauss_chol_1d a m x : 0 < a ->
  let s2 := / (a * a) in                      (* variance 1 / U^2 *)
  lgauss_chol 1 [m] [[a]] [x] = - ((x - m) * (x - m)) / (2 * s2) - / 2 * ln (2 * PI * s2) /\
  lgauss_chol 1 [m] [[a]] [x] = ln (/ sqrt (2 * PI * s2) * exp (- ((x - m) * (x - m)) / (2 * s2))).
Proof.
  intros Ha s2. assert (Hs2 : 0 < s2) by (apply Rinv_0_lt_compat; nra).
  assert (H2p := two_pi_pos).
  assert (E1 : lgauss_chol 1 [m] [[a]] [x] =
               - ((x - m) * (x - m)) / (2 * s2) - / 2 * ln (2 * PI * s2)).
  { assert (D : ldetR 1 [[a]] = a) by (cbn; ring).
    assert (Q : dot (mv [[a]] (vsub [x] [m])) (mv [[a]] (vsub [x] [m])) = (a * (x - m)) * (a * (x - m)))
      by (unfold vsub; cbn; ring).
    assert (L1 : ln (2 * PI * s2) = ln (2 * PI) - 2 * ln a).
    { rewrite ln_mult by assumption. unfold s2. rewrite ln_Rinv by nra.
      rewrite (ln_mult a a) by assumption. lra. }
    unfold lgauss_chol, half_n_ln2pi. rewrite D, Q, L1. rewrite Rabs_pos_eq by lra.
    change (INR 1) with 1. unfold s2. field. lra. }
  split; [exact E1|]. rewrite E1.
  assert (Hq : 0 < 2 * PI * s2) by (apply Rmult_lt_0_compat; assumption).
  rewrite (ln_mult (/ sqrt (2 * PI * s2)));
    [|apply Rinv_0_lt_compat, sqrt_lt_R0; exact Hq|apply exp_pos].
  rewrite ln_exp, ln_Rinv by (apply sqrt_lt_R0; exact Hq). rewrite ln_sqrt_half by exact Hq. lra.
Qed.
Print Assumptions lgauss_chol_1d.

(* ------------------------------------------------------------------ the triangular solve
   z |-> U^-1 z is a bijection of R^n: for every right-hand side the system U u = z has exactly one
   solution (back substitution), so torch.linalg.solve(cholesky, .) is determined and the change of
   variables above is legitimate. *)
Lemma bsum_single g n i0 : (i0 < n)%nat -> (forall j, (j < n)%nat -> j <> i0 -> g j = 0) ->
  bsum g n = g i0.
Proof.
  induction n as [|n IH]; intros Hi H; [lia|]. cbn [bsum].
  destruct (Nat.eq_dec i0 n) as [->|Hne].
  - rewrite (bsum_ext g (fun _ => 0) n) by (intros j Hj; apply H; lia). rewrite bsum_zero. lra.
  - rewrite IH by (try lia; intros j Hj Hji; apply H; lia). rewrite (H n) by lia. lra.
Qed.
Lemma bsum_update a f c n i0 : (i0 < n)%nat ->
  bsum (fun j => a j * (if Nat.eqb j i0 then c else f j)) n =
  bsum (fun j => a j * f j) n + a i0 * (c - f i0).
Proof.
  intros Hi.
  transitivity (bsum (fun j => a j * f j + (if Nat.eqb j i0 then a j * (c - f j) else 0)) n).
  - apply bsum_ext. intros j _. destruct (Nat.eqb j i0); lra.
  - rewrite bsum_plus. f_equal.
    rewrite (bsum_single _ n i0 Hi).
    + rewrite Nat.eqb_refl. reflexivity.
    + intros j _ Hj. destruct (Nat.eqb_spec j i0); [contradiction|reflexivity].
Qed.
Lemma pos_diag_entry n U i : pos_diag n U -> (i < n)%nat -> 0 < entryR U i i.
Proof.
  unfold pos_diag, diagonal. intros H Hi. rewrite List.Forall_forall in H. apply H.
  apply in_map_iff. exists i. split; [reflexivity|]. apply in_seq. lia.
Qed.

Lemma back_subst_fun n U (z : nat -> R) :
  upper_tri n U -> (forall i, (i < n)%nat -> entryR U i i <> 0) ->
  forall k, (k <= n)%nat ->
  exists f : nat -> R, forall i, (n - k <= i < n)%nat -> bsum (fun j => entryR U i j * f j) n = z i.
Proof.
  intros Hu Hd. induction k as [|k IH]; intros Hk.
  - exists (fun _ => 0). intros i Hi. lia.
  - destruct (IH ltac:(lia)) as [f Hf]. set (i0 := (n - S k)%nat).
    set (c := f i0 + (z i0 - bsum (fun j => entryR U i0 j * f j) n) / entryR U i0 i0).
    exists (fun j => if Nat.eqb j i0 then c else f j). intros i Hi.
    rewrite (bsum_update (fun j => entryR U i j) f c n i0) by (unfold i0; lia).
    destruct (Nat.eq_dec i i0) as [->|Hne].
    + unfold c. field. apply Hd. unfold i0. lia.
    + rewrite (Hu i i0) by (unfold i0 in *; lia). rewrite Hf by (unfold i0 in *; lia). lra.
Qed.

Theorem back_substitution n U z :
  chol_shape n U -> length z = n ->
  exists u, length u = n /\ mv U u = z /\
            forall u', length u' = n -> mv U u' = z -> u' = u.
Proof.
  intros (HU & Hu & Hp) Hz.
  assert (Hd : forall i, (i < n)%nat -> entryR U i i <> 0).
  { intros i Hi. generalize (pos_diag_entry n U i Hp Hi). lra. }
  destruct (back_subst_fun n U (fun i => nth i z 0) Hu Hd n (le_n n)) as [f Hf].
  exists (map f (seq 0 n)).
  assert (Hlen : length (map f (seq 0 n)) = n) by (rewrite map_length, seq_length; reflexivity).
  assert (Hsol : mv U (map f (seq 0 n)) = z).
  { apply (list_ext_nth _ _ n); [rewrite mv_length; exact HU|exact Hz|].
    intros i Hi. rewrite (nth_mv_bsum U _ n) by lia. rewrite <- (Hf i) by lia.
    apply bsum_ext. intros j Hj. rewrite nth_map_seq0 by exact Hj. reflexivity. }
  split; [exact Hlen|]. split; [exact Hsol|].
  intros u' Hu' Hsol'. set (u := map f (seq 0 n)) in *.
  set (d := fun j => nth j u' 0 - nth j u 0).
  assert (Hrow : forall i, (i < n)%nat -> bsum (fun j => entryR U i j * d j) n = 0).
  { intros i Hi.
    assert (E : nth i (mv U u') 0 = nth i (mv U u) 0) by (rewrite Hsol, Hsol'; reflexivity).
    rewrite (nth_mv_bsum U u' n), (nth_mv_bsum U u n) in E by lia.
    assert (E2 : bsum (fun j => entryR U i j * nth j u' 0) n =
                 bsum (fun j => entryR U i j * d j) n + bsum (fun j => entryR U i j * nth j u 0) n).
    { rewrite <- bsum_plus. apply bsum_ext. intros j _. unfold d. lra. }
    lra. }
  assert (Hz0 : forall k, (k <= n)%nat -> forall i, (n - k <= i < n)%nat -> d i = 0).
  { induction k as [|k IH]; intros Hk i Hi; [lia|].
    destruct (Nat.eq_dec i (n - S k)) as [Ei|Hne]; [|apply IH; lia].
    assert (Hs : bsum (fun j => entryR U i j * d j) n = entryR U i i * d i).
    { apply (bsum_single (fun j => entryR U i j * d j) n i); [lia|].
      intros j Hj Hji. destruct (Nat.lt_ge_cases j i) as [Hlt|Hge].
      - rewrite (Hu i j) by lia. lra.
      - rewrite (IH ltac:(lia) j) by lia. lra. }
    generalize (Hrow i ltac:(lia)). rewrite Hs. intros E. destruct (Rmult_integral _ _ E) as [E0|E0]; [|exact E0].
    exfalso. exact (Hd i ltac:(lia) E0). }
  apply (list_ext_nth _ _ n); [exact Hu'|exact Hlen|].
  intros i Hi. generalize (Hz0 n (le_n n) i ltac:(lia)). unfold d. lra.
Qed.
Print Assumptions back_substitution.

(* ------------------------------------------------------------------ non-vacuity, n = 2
   forward:  U_f = [[2,1],[0,3]],  QW_f = U_f^T U_f = [[4,2],[2,10]],  mu_f = (1,2), v_f = U_f mu_f = (4,6),
             b_f = U_f^T v_f = (8,22);  z = (2,3),  u = U_f^-1 z = (1/2,1),  gamma' = (3/2,3)
   backward: U_b = [[1,1],[0,2]],  QW_b = [[1,1],[1,5]],  mu_b = (0,1), v_b = (1,2), b_b = (1,5);  gamma = (1,1) *)
Ltac vec2_eq := apply (list_ext_nth _ _ 2%nat);
  [reflexivity|reflexivity|intros [|[|i]] Hi; [cbn; lra|cbn; lra|lia]].

Example chol_of_example_f : chol_of 2 [[4; 2]; [2; 10]] [[2; 1]; [0; 3]].
Proof.
  split; [split; [reflexivity|split]|].
  - intros [|[|i]] [|[|j]] H; try lia; reflexivity.
  - unfold pos_diag, diagonal. cbn. repeat constructor; lra.
  - intros [|[|i]] [|[|j]] Hi Hj; try lia; cbn; lra.
Qed.
Example chol_of_example_b : chol_of 2 [[1; 1]; [1; 5]] [[1; 1]; [0; 2]].
Proof.
  split; [split; [reflexivity|split]|].
  - intros [|[|i]] [|[|j]] H; try lia; reflexivity.
  - unfold pos_diag, diagonal. cbn. repeat constructor; lra.
  - intros [|[|i]] [|[|j]] Hi Hj; try lia; cbn; lra.
Qed.

Example block_step_example :
  let gamma := [1; 1] in let gamma' := [3 / 2; 3] in let z := [2; 3] in
  let QW_f := [[4; 2]; [2; 10]] in let U_f := [[2; 1]; [0; 3]] in let mu_f := [1; 2] in
  let QW_b := [[1; 1]; [1; 5]] in let U_b := [[1; 1]; [0; 2]] in let mu_b := [0; 1] in
  mv QW_f mu_f = [8; 22] /\ mv QW_b mu_b = [1; 5] /\
  log_q_backward 2 U_b QW_b gamma mu_b - log_q_forward 2 U_f z =
  lgauss_chol 2 mu_b U_b gamma - lgauss_chol 2 mu_f U_f gamma'.
Proof.
  intros gamma gamma' z QW_f U_f mu_f QW_b U_b mu_b.
  destruct (block_step_hastings 2 gamma gamma' z [1 / 2; 1]
              QW_f [8; 22] U_f [4; 6] mu_f QW_b [1; 5] U_b [1; 2] mu_b) as (H1 & H2 & _);
    try reflexivity; try exact chol_of_example_f; try exact chol_of_example_b; try vec2_eq.
  split; [exact H1|]. split; [exact H2|].
  apply (hastings_gaussian_block 2 gamma gamma' mu_f U_f [1 / 2; 1] z QW_b mu_b U_b);
    try reflexivity; try exact chol_of_example_b; try apply chol_of_example_f; try vec2_eq.
Qed.

(* and the value: ln|det U_b| = ln 2, |U_b (gamma - mu_b)|^2 = 1; ln|det U_f| = ln 6, |z|^2 = 13 *)
Example block_step_example_value :
  log_q_backward 2 [[1; 1]; [0; 2]] [[1; 1]; [1; 5]] [1; 1] [0; 1] - log_q_forward 2 [[2; 1]; [0; 3]] [2; 3] =
  (ln 1 + ln 2 - 1 / 2) - (ln 2 + ln 3 - 13 / 2).
Proof. unfold log_q_backward, log_q_forward, diagonal, vsub. cbn. lra. Qed.

(* ------------------------------------------------------------------ n = 2: the textbook bivariate normal
   det (U^T U) = (det U)^2 (written out for 2 x 2; in general it is the multiplicativity of det, which is
   not needed for the Hastings ratio), so [lgauss_chol] is the N(mu, P^-1) log density in precision form
   - 1/2 (y-mu)^T P (y-mu) + 1/2 ln det P - ln(2 pi),  P = U^T U. *)
Example det_gram_2x2 a b c d :
  ldetR 2 (mm 2 (transpose 2 [[a; b]; [c; d]]) [[a; b]; [c; d]]) =
  ldetR 2 [[a; b]; [c; d]] * ldetR 2 [[a; b]; [c; d]].
Proof. cbn. ring. Qed.

Theorem lgauss_chol_2d a b d m1 m2 y1 y2 : 0 < a -> 0 < d ->
  let U := [[a; b]; [0; d]] in
  let P := [[a * a; a * b]; [a * b; b * b + d * d]] in
  chol_of 2 P U /\
  lgauss_chol 2 [m1; m2] U [y1; y2] =
  - (1 / 2) * quad NumR P (vsub [y1; y2] [m1; m2]) + / 2 * ln (ldetR 2 P) - ln (2 * PI).
Proof.
  intros Ha Hd U P. split.
  - split; [split; [reflexivity|split]|].
    + intros [|[|i]] [|[|j]] H; try lia; reflexivity.
    + unfold pos_diag, diagonal. cbn. repeat constructor; assumption.
    + intros [|[|i]] [|[|j]] Hi Hj; try lia; cbn; ring.
  - assert (D : ldetR 2 U = a * d) by (cbn; ring).
    assert (DP : ldetR 2 P = (a * d) * (a * d)) by (cbn; ring).
    assert (Q : dot (mv U (vsub [y1; y2] [m1; m2])) (mv U (vsub [y1; y2] [m1; m2])) =
                quad NumR P (vsub [y1; y2] [m1; m2])) by (unfold quad, vsub; cbn; ring).
    assert (Had : 0 < a * d) by (apply Rmult_lt_0_compat; assumption).
    unfold lgauss_chol, half_n_ln2pi. rewrite D, DP, Q, Rabs_pos_eq by lra.
    rewrite (ln_mult (a * d) (a * d)) by assumption.
    change (INR 2) with (1 + 1). lra.
Qed.
Print Assumptions lgauss_chol_2d.
