(* The list-of-rows Laplace determinant [ldet] of P_det_def.v IS mathcomp's \det, on every commutative
   ring; hence (mathcomp: det_trig) det(triangular) = product of the diagonal for [ldet] on every
   commutative ring -- an independent derivation of the statements proved directly on R in P_tridet.v.
   (R itself is not given a mathcomp ring structure: that needs a choice operator on R, i.e. an axiom
   beyond those the development uses.) *)
From mathcomp Require Import all_ssreflect all_algebra.
From TT Require Import Num P_det_def.
Set Implicit Arguments.
Unset Strict Implicit.
Unset Printing Implicit Defensive.
Import GRing.Theory.
Local Open Scope ring_scope.

Section DetList.
Variable K : comRingType.

(* the operations of K packed as a Num (the fields that [ldet] does not use are filled arbitrarily) *)
Definition NumK : Num K :=
  mkNum K 0 1 +%R (fun a b => a - b) *%R (fun a _ => a) -%R (fun _ => 0) id id id (fun a _ => a).

Notation entryK := (entry NumK).
Definition mx_of (n : nat) (m : list (list K)) : 'M[K]_n := \matrix_(i, j) entryK m i j.

Lemma nsum_big (s : seq K) : nsum NumK s = \sum_(x <- s) x.
Proof. by elim: s => [|x s IH]; rewrite ?big_nil // big_cons -IH. Qed.

Lemma seq_iota a n : List.seq a n = iota a n.
Proof. by elim: n a => [|n IH] a //=; rewrite IH. Qed.

Lemma lmap_map (A B : Type) (f : A -> B) s : List.map f s = map f s.
Proof. by elim: s => [|x s IH] //=; rewrite IH. Qed.

Lemma sgnE j : sgn NumK j = (-1) ^+ j.
Proof. by elim: j => [|j IH] //=; rewrite IH exprS mulN1r. Qed.

Lemma bump_lift n (j : 'I_n.+1) (k : 'I_n) : P_det_def.bump j k = lift j k.
Proof.
  rewrite /P_det_def.bump /lift /= /fintype.bump.
  case: (PeanoNat.Nat.ltb_spec k j) => [/ltP|/leP] H.
  - by rewrite leqNgt H.
  - by rewrite H.
Qed.

Lemma minor_mx n (m : list (list K)) (j : 'I_n.+1) :
  row' ord0 (col' j (mx_of n.+1 m)) = mx_of n (minor0 j m).
Proof.
  apply/matrixP => i k. rewrite !mxE entry_minor0 bump_lift. by [].
Qed.

Theorem ldet_is_det n (m : list (list K)) : ldet NumK n m = \det (mx_of n m).
Proof.
  elim: n m => [|n IH] m; first by rewrite det_mx00.
  rewrite (expand_det_row _ ord0) ldet_S nsum_big lmap_map big_map seq_iota -[iota 0 n.+1]/(index_iota 0 n.+1) big_mkord.
  apply: eq_bigr => j _.
  rewrite /cofactor minor_mx -IH mxE sgnE add0n /=. by rewrite mulrCA.
Qed.

(* lower triangular *)
Theorem ldet_lower_triangular_K n (m : list (list K)) :
  (forall i j, (i < j < n)%N -> entryK m i j = 0) ->
  ldet NumK n m = \prod_(i < n) entryK m i i.
Proof.
  move=> Hz. rewrite ldet_is_det det_trig; first by apply: eq_bigr => i _; rewrite mxE.
  apply/is_trig_mxP => i j lt_ij. by rewrite mxE Hz // lt_ij ltn_ord.
Qed.

(* upper triangular *)
Theorem ldet_upper_triangular_K n (m : list (list K)) :
  (forall i j, (j < i < n)%N -> entryK m i j = 0) ->
  ldet NumK n m = \prod_(i < n) entryK m i i.
Proof.
  move=> Hz. rewrite ldet_is_det -det_tr det_trig; first by apply: eq_bigr => i _; rewrite !mxE.
  apply/is_trig_mxP => i j lt_ij. by rewrite !mxE Hz // lt_ij ltn_ord.
Qed.
End DetList.

Print Assumptions ldet_is_det.
Print Assumptions ldet_lower_triangular_K.
Print Assumptions ldet_upper_triangular_K.
