(* Proofs about the coalescent models over R (instance NumR of model/M_coalescent.v).

   Part 1: the event machinery.  For ANY list s that is a permutation of the events and sorted by
   time (i.e. for any tie-breaking of the sort) the walk's running lineage count / grid count /
   coalescent count on every interval of positive length equals the COUNTING definition
   (events at or before the start of the interval); empty intervals contribute 0.
   Part 2: each model's log_prob equals the Kingman density written with counting only.
   Part 3: closed-form piece integrals (Coquelicot is_RInt).
   Part 4: consequences: order invariance, all pieces equal = constant model, scaling law. *)
From Coq Require Import QArith ZArith Reals Qreals List Lia Lra Permutation Sorted Bool Arith.
Import ListNotations.
From TT Require Import Num NumR Tree M_coalescent.
Local Open Scope R_scope.

Notation ev := (event R).
Definition tle (a b : ev) : Prop := etime a <= etime b.

(* the exact keys order the events as their real times do *)
Definition keys_ok (evs : list ev) : Prop :=
  forall a b, In a evs -> In b evs -> (Qle_bool (ekey a) (ekey b) = true <-> etime a <= etime b).

Fixpoint Rsum (l : list R) : R := match l with [] => 0 | x :: r => x + Rsum r end.
Lemma nsum_Rsum l : nsum NumR l = Rsum l.
Proof. induction l as [|x l IH]; simpl; [reflexivity|]. rewrite IH; reflexivity. Qed.
Lemma Rsum_app a b : Rsum (a ++ b) = Rsum a + Rsum b.
Proof. induction a; simpl; lra. Qed.
Lemma Rsum_map_ext_Forall {A} (f g : A -> R) l :
  Forall (fun x => f x = g x) l -> Rsum (map f l) = Rsum (map g l).
Proof. induction 1; simpl; congruence. Qed.
Lemma Rsum_perm l l' : Permutation l l' -> Rsum l = Rsum l'.
Proof. induction 1; simpl; lra. Qed.

(* ------------------------------------------------------------------ sorting *)
Lemma insert_perm (e : ev) l : Permutation (insert_ev e l) (e :: l).
Proof.
  induction l as [|x r IH]; simpl; [reflexivity|].
  destruct (Qle_bool (ekey e) (ekey x)); [reflexivity|].
  rewrite IH. apply perm_swap.
Qed.
Lemma sort_perm (l : list ev) : Permutation (sort_ev l) l.
Proof.
  induction l as [|e r IH]; simpl; [reflexivity|]. rewrite insert_perm. constructor; exact IH.
Qed.

Lemma insert_sorted (e : ev) l :
  (forall x, In x l -> (Qle_bool (ekey e) (ekey x) = true <-> tle e x) /\ (tle e x \/ tle x e)) ->
  StronglySorted tle l -> StronglySorted tle (insert_ev e l).
Proof.
  intros H S. induction S as [|x r S IH F]; simpl.
  - constructor; constructor.
  - destruct (Qle_bool (ekey e) (ekey x)) eqn:E.
    + assert (tle e x) by (apply (H x); [left; reflexivity | exact E]).
      constructor; [constructor; assumption|]. constructor; [assumption|].
      rewrite Forall_forall in *. intros y Hy. specialize (F y Hy). unfold tle in *. lra.
    + assert (tle x e).
      { destruct (H x (or_introl eq_refl)) as [H1 [H2|H2]]; [|exact H2].
        apply H1 in H2. congruence. }
      constructor.
      * apply IH. intros y Hy. apply H. right; exact Hy.
      * rewrite Forall_forall in *. intros y Hy.
        apply (Permutation_in _ (insert_perm e r)) in Hy. destruct Hy as [<-|Hy]; auto.
Qed.

Lemma sort_sorted (l : list ev) : keys_ok l -> StronglySorted tle (sort_ev l).
Proof.
  induction l as [|e r IH]; intros K; simpl; [constructor|].
  apply insert_sorted.
  - intros x Hx. apply (Permutation_in _ (sort_perm r)) in Hx. split.
    + apply K; [left; reflexivity | right; exact Hx].
    + unfold tle. lra.
  - apply IH. intros a b Ha Hb. apply K; right; assumption.
Qed.

Lemma keys_ok_perm l l' : Permutation l l' -> keys_ok l -> keys_ok l'.
Proof.
  intros P K a b Ha Hb. apply K; eapply Permutation_in; try eassumption; symmetry; assumption.
Qed.

Lemma key_eq_time evs a b : keys_ok evs -> In a evs -> In b evs ->
  (Qeq_bool (ekey a) (ekey b) = true <-> etime a = etime b).
Proof.
  intros K Ha Hb. rewrite Qeq_bool_iff. split.
  - intros E. apply Rle_antisym.
    + apply (K a b Ha Hb). apply Qle_bool_iff. rewrite E. apply Qle_refl.
    + apply (K b a Hb Ha). apply Qle_bool_iff. rewrite E. apply Qle_refl.
  - intros E. apply Qle_antisym; apply Qle_bool_iff.
    + apply (K a b Ha Hb). lra.
    + apply (K b a Hb Ha). lra.
Qed.

(* two sorted lists of reals with the same elements (with multiplicity) are equal: the sequence of
   event TIMES does not depend on how ties are broken *)
Lemma sorted_perm_eq (l1 l2 : list R) :
  StronglySorted Rle l1 -> StronglySorted Rle l2 -> Permutation l1 l2 -> l1 = l2.
Proof.
  revert l2. induction l1 as [|a l1 IH]; intros l2 S1 S2 P.
  - apply Permutation_nil in P. congruence.
  - destruct l2 as [|b l2]; [symmetry in P; apply Permutation_nil in P; discriminate|].
    inversion S1 as [|? ? S1' F1]; inversion S2 as [|? ? S2' F2]; subst.
    rewrite Forall_forall in F1, F2.
    assert (a = b).
    { assert (Hb : In b (a :: l1)) by (eapply Permutation_in; [symmetry; exact P | left; reflexivity]).
      assert (Ha : In a (b :: l2)) by (eapply Permutation_in; [exact P | left; reflexivity]).
      destruct Hb as [Hb|Hb]; [congruence|]. destruct Ha as [Ha|Ha]; [congruence|].
      apply Rle_antisym; auto. }
    subst b. f_equal. apply IH; auto. eapply Permutation_cons_inv; exact P.
Qed.

Lemma sorted_map_time (s : list ev) : StronglySorted tle s -> StronglySorted Rle (map etime s).
Proof.
  induction 1 as [|x r S IH F]; simpl; constructor; auto.
  rewrite Forall_forall in *. intros y Hy. apply in_map_iff in Hy. destruct Hy as [z [<- Hz]].
  apply F; exact Hz.
Qed.

(* ------------------------------------------------------------------ counting *)
Fixpoint sumZ (w : kind -> Z) (l : list ev) : Z :=
  match l with [] => 0%Z | e :: r => (w (ekind e) + sumZ w r)%Z end.
Fixpoint sumN (w : kind -> nat) (l : list ev) : nat :=
  match l with [] => 0%nat | e :: r => (w (ekind e) + sumN w r)%nat end.

Section Cnt.
Variable P : R -> Prop.
Variable Pdec : forall x, {P x} + {~ P x}.
Fixpoint cntZ (w : kind -> Z) (l : list ev) : Z :=
  match l with [] => 0%Z | e :: r => ((if Pdec (etime e) then w (ekind e) else 0) + cntZ w r)%Z end.
Fixpoint cntN (w : kind -> nat) (l : list ev) : nat :=
  match l with [] => 0%nat | e :: r => ((if Pdec (etime e) then w (ekind e) else 0) + cntN w r)%nat end.

Lemma cntZ_perm w l l' : Permutation l l' -> cntZ w l = cntZ w l'.
Proof. induction 1; simpl; lia. Qed.
Lemma cntN_perm w l l' : Permutation l l' -> cntN w l = cntN w l'.
Proof. induction 1; simpl; lia. Qed.
Lemma cntZ_app w a b : cntZ w (a ++ b) = (cntZ w a + cntZ w b)%Z.
Proof. induction a; simpl; lia. Qed.
Lemma cntN_app w a b : cntN w (a ++ b) = (cntN w a + cntN w b)%nat.
Proof. induction a; simpl; lia. Qed.
Lemma cntZ_all w l : (forall x, In x l -> w (ekind x) <> 0%Z -> P (etime x)) -> cntZ w l = sumZ w l.
Proof.
  induction l as [|e r IH]; intros H; simpl; [reflexivity|].
  rewrite IH by (intros; apply H; [right|]; assumption).
  destruct (Pdec (etime e)); [reflexivity|].
  destruct (Z.eq_dec (w (ekind e)) 0) as [E|E]; [lia|]. exfalso. apply n, H; [left; reflexivity | exact E].
Qed.
Lemma cntN_all w l : (forall x, In x l -> w (ekind x) <> 0%nat -> P (etime x)) -> cntN w l = sumN w l.
Proof.
  induction l as [|e r IH]; intros H; simpl; [reflexivity|].
  rewrite IH by (intros; apply H; [right|]; assumption).
  destruct (Pdec (etime e)); [reflexivity|].
  destruct (Nat.eq_dec (w (ekind e)) 0) as [E|E]; [lia|]. exfalso. apply n, H; [left; reflexivity | exact E].
Qed.
Lemma cntZ_none w l : (forall x, In x l -> w (ekind x) <> 0%Z -> ~ P (etime x)) -> cntZ w l = 0%Z.
Proof.
  induction l as [|e r IH]; intros H; simpl; [reflexivity|].
  rewrite IH by (intros; apply H; [right|]; assumption).
  destruct (Pdec (etime e)); [|reflexivity].
  destruct (Z.eq_dec (w (ekind e)) 0) as [E|E]; [lia|]. exfalso. apply (H e); [left; reflexivity | exact E | exact p].
Qed.
Lemma cntN_none w l : (forall x, In x l -> w (ekind x) <> 0%nat -> ~ P (etime x)) -> cntN w l = 0%nat.
Proof.
  induction l as [|e r IH]; intros H; simpl; [reflexivity|].
  rewrite IH by (intros; apply H; [right|]; assumption).
  destruct (Pdec (etime e)); [|reflexivity].
  destruct (Nat.eq_dec (w (ekind e)) 0) as [E|E]; [lia|]. exfalso. apply (H e); [left; reflexivity | exact E | exact p].
Qed.
Lemma cntN_le_sum w l : (cntN w l <= sumN w l)%nat.
Proof. induction l as [|e r IH]; simpl; [lia|]. destruct (Pdec (etime e)); lia. Qed.
End Cnt.

Lemma sumZ_app w a b : sumZ w (a ++ b) = (sumZ w a + sumZ w b)%Z.
Proof. induction a; simpl; lia. Qed.
Lemma sumN_app w a b : sumN w (a ++ b) = (sumN w a + sumN w b)%nat.
Proof. induction a; simpl; lia. Qed.
Lemma sumN_perm w l l' : Permutation l l' -> sumN w l = sumN w l'.
Proof. induction 1; simpl; lia. Qed.

(* THE COUNTING DEFINITIONS.  k(t): tips sampled at or before t minus coalescences at or before t;
   the number of grid points / coalescences at or before t; the number of grid points strictly
   before t. *)
Definition kcount (evs : list ev) (t : R) : Z := cntZ (fun x => x <= t) (fun x => Rle_dec x t) delta evs.
Definition gcount (evs : list ev) (t : R) : nat := cntN (fun x => x <= t) (fun x => Rle_dec x t) isgrid evs.
Definition ccount (evs : list ev) (t : R) : nat := cntN (fun x => x <= t) (fun x => Rle_dec x t) iscoal evs.
Definition glt (evs : list ev) (t : R) : nat := cntN (fun x => x < t) (fun x => Rlt_dec x t) isgrid evs.

(* no grid point lies exactly on a coalescent time (the value of a step function at its jump is a
   convention; for continuous N the hypothesis is only a proof convenience) *)
Definition no_tie (evs : list ev) : Prop :=
  forall c g, In c evs -> In g evs -> ekind c = Coal -> ekind g = Grid -> etime c <> etime g.

(* ------------------------------------------------------------------ the walk *)
Definition iv_ok (s : list ev) (iv : ival R) : Prop :=
  i_a iv <= i_b iv /\ (i_zero iv = true <-> i_a iv = i_b iv) /\
  (i_a iv < i_b iv -> i_k iv = kcount s (i_a iv) /\ i_g iv = gcount s (i_a iv) /\ i_c iv = ccount s (i_a iv)) /\
  (i_g iv <= sumN isgrid s)%nat /\
  (no_tie s -> i_end iv = Coal -> i_g iv = glt s (i_b iv)).

Lemma isgrid_nz k : isgrid k <> 0%nat -> k = Grid.
Proof. destruct k; simpl; congruence. Qed.

Lemma walk_ok : forall l pre p k g c,
  keys_ok (pre ++ l) -> In p (pre ++ l) -> StronglySorted tle l ->
  (forall x, In x pre -> etime x <= etime p) -> (forall x, In x l -> etime p <= etime x) ->
  k = sumZ delta pre -> g = sumN isgrid pre -> c = sumN iscoal pre ->
  Forall (iv_ok (pre ++ l)) (walk (ekey p) (etime p) k g c l).
Proof.
  induction l as [|e r IH]; intros pre p k g c K Hp S Hpre Hl Hk Hg Hc; simpl; [constructor|].
  inversion S as [|? ? S' F]; subst. rewrite Forall_forall in F.
  assert (Hpe : etime p <= etime e) by (apply Hl; left; reflexivity).
  assert (Hin : In e (pre ++ e :: r)) by (apply in_or_app; right; left; reflexivity).
  constructor.
  - unfold iv_ok; cbn [i_a i_b i_zero i_k i_g i_c i_end]. split; [exact Hpe|]. split.
    { apply (key_eq_time _ p e K Hp Hin). }
    split; [|split].
    + intros Hlt.
      assert (A : forall x, In x pre -> etime x <= etime p) by exact Hpre.
      assert (B : forall x, In x (e :: r) -> ~ etime x <= etime p).
      { intros x [<-|Hx]; [lra|]. specialize (F x Hx). unfold tle in F. lra. }
      unfold kcount, gcount, ccount. rewrite cntZ_app, !cntN_app.
      rewrite (cntZ_all _ _ delta pre) by (intros; apply A; assumption).
      rewrite (cntZ_none _ _ delta (e :: r)) by (intros; apply B; assumption).
      rewrite !(cntN_all _ _ _ pre) by (intros; apply A; assumption).
      rewrite !(cntN_none _ _ _ (e :: r)) by (intros; apply B; assumption).
      repeat split; lia.
    + rewrite sumN_app. lia.
    + intros NT Ec. unfold glt. rewrite cntN_app.
      rewrite (cntN_all _ _ isgrid pre).
      2:{ intros x Hx Hw. apply isgrid_nz in Hw.
          assert (etime e <> etime x).
          { apply NT; auto. apply in_or_app; left; exact Hx. }
          specialize (Hpre x Hx). lra. }
      rewrite (cntN_none _ _ isgrid (e :: r)).
      2:{ intros x Hx Hw. apply isgrid_nz in Hw. destruct Hx as [<-|Hx]; [congruence|].
          specialize (F x Hx). unfold tle in F. lra. }
      lia.
  - replace (pre ++ e :: r) with ((pre ++ [e]) ++ r) in * by (rewrite <- app_assoc; reflexivity).
    apply IH.
    + exact K.
    + exact Hin.
    + exact S'.
    + intros x Hx. apply in_app_or in Hx. destruct Hx as [Hx|[<-|[]]]; [|lra].
      specialize (Hpre x Hx). lra.
    + intros x Hx. apply F; exact Hx.
    + rewrite sumZ_app; simpl. lia.
    + rewrite sumN_app; simpl. lia.
    + rewrite sumN_app; simpl. lia.
Qed.

Lemma intervals_ok (s : list ev) : keys_ok s -> StronglySorted tle s -> Forall (iv_ok s) (intervals s).
Proof.
  intros K S. destruct s as [|e r]; [constructor|]. unfold intervals.
  apply (walk_ok (e :: r) [] e 0%Z 0%nat 0%nat); auto.
  - left; reflexivity.
  - intros x [].
  - intros x [<-|Hx]; [lra|]. inversion S as [|? ? S' F]; subst. rewrite Forall_forall in F.
    apply F; exact Hx.
Qed.

(* sums over the walk depend on the end points / end kinds only *)
Fixpoint pair_sum (F : R -> R -> R) (p : R) (ts : list R) : R :=
  match ts with [] => 0 | t :: r => F p t + pair_sum F t r end.
(* sum of F over the inter-event intervals of a time sequence *)
Definition isum (F : R -> R -> R) (ts : list R) : R :=
  match ts with [] => 0 | t :: r => pair_sum F t r end.

Lemma walk_pair_sum F pk pt k g c (l : list ev) :
  Rsum (map (fun iv => F (i_a iv) (i_b iv)) (walk pk pt k g c l)) = pair_sum F pt (map etime l).
Proof.
  revert pk pt k g c. induction l as [|e r IH]; intros; simpl; [reflexivity|]. rewrite IH. reflexivity.
Qed.

Definition coal_sum (F : R -> R) (l : list ev) : R :=
  Rsum (map (fun e => match ekind e with Coal => F (etime e) | _ => 0 end) l).
Lemma coal_sum_perm F l l' : Permutation l l' -> coal_sum F l = coal_sum F l'.
Proof. intros P. unfold coal_sum. apply Rsum_perm, Permutation_map, P. Qed.
Lemma walk_coal_sum F pk pt k g c (l : list ev) :
  Rsum (map (fun iv => match i_end iv with Coal => F (i_b iv) | _ => 0 end) (walk pk pt k g c l))
  = coal_sum F l.
Proof.
  revert pk pt k g c. induction l as [|e r IH]; intros; simpl; [reflexivity|].
  unfold coal_sum in *; simpl. rewrite IH. reflexivity.
Qed.

Definition choose2R (k : Z) : R := IZR (k * (k - 1)) / 2.
Lemma choose2_R k : choose2 NumR k = choose2R k.
Proof. unfold choose2, choose2R. cbn [ofQ NumR]. unfold Q2R; simpl. reflexivity. Qed.

(* the summand of the Kingman density on the interval (a,b), by counting *)
Definition kterm (P : R -> R -> nat -> nat -> R) (evs : list ev) (a b : R) : R :=
  if Rlt_dec a b then choose2R (kcount evs a) * P a b (gcount evs a) (ccount evs a) else 0.

(* sorted_cumsum_is_counting: for ANY sorted permutation s of the events (any tie-breaking) the
   running-count sum equals the sum over the inter-event intervals of the time sequence with the
   lineage / grid / coalescent counts DEFINED BY COUNTING; empty intervals contribute 0. *)
Theorem sorted_cumsum_is_counting_l P (evs s : list ev) :
  keys_ok evs -> Permutation s evs -> StronglySorted tle s ->
  ksum NumR (fun iv => P (i_a iv) (i_b iv) (i_g iv) (i_c iv)) (intervals s)
  = isum (kterm P evs) (map etime s).
Proof.
  intros K Pm S. unfold ksum. rewrite nsum_Rsum.
  assert (Ks : keys_ok s) by (eapply keys_ok_perm; [symmetry; exact Pm | exact K]).
  pose proof (intervals_ok s Ks S) as OK.
  rewrite (Rsum_map_ext_Forall _ (fun iv => kterm P evs (i_a iv) (i_b iv))).
  - destruct s as [|e r]; [reflexivity|]. unfold intervals. rewrite walk_pair_sum. simpl.
    unfold kterm at 1. destruct (Rlt_dec (etime e) (etime e)); lra.
  - eapply Forall_impl; [|exact OK]. intros iv [Hle [Hz [Hc _]]]. unfold kterm.
    cbn [zero mul NumR]. rewrite choose2_R.
    destruct (i_zero iv) eqn:Z.
    + destruct (Rlt_dec (i_a iv) (i_b iv)); [|reflexivity].
      assert (i_a iv = i_b iv) by (apply Hz; reflexivity). lra.
    + destruct (Rlt_dec (i_a iv) (i_b iv)) as [Hlt|Hn].
      * destruct (Hc Hlt) as [-> [-> ->]]. unfold kcount, gcount, ccount.
        rewrite (cntZ_perm _ _ _ _ _ Pm), !(cntN_perm _ _ _ _ _ Pm). reflexivity.
      * assert (H : i_a iv = i_b iv) by lra. apply Hz in H. discriminate.
Qed.

(* the ln N terms: under no_tie the grid count at a coalescent event is the number of grid points
   strictly before its time, for any tie-breaking *)
Lemma csum_counting_l L (evs s : list ev) :
  keys_ok evs -> no_tie evs -> Permutation s evs -> StronglySorted tle s ->
  csum NumR (fun iv => L (i_b iv) (i_g iv)) (intervals s) = coal_sum (fun t => L t (glt evs t)) evs.
Proof.
  intros K NT Pm S. unfold csum. rewrite nsum_Rsum.
  assert (Ks : keys_ok s) by (eapply keys_ok_perm; [symmetry; exact Pm | exact K]).
  assert (NTs : no_tie s).
  { intros c g Hc Hg. apply NT; eapply Permutation_in; eassumption. }
  pose proof (intervals_ok s Ks S) as OK.
  rewrite (Rsum_map_ext_Forall _ (fun iv => match i_end iv with Coal => L (i_b iv) (glt evs (i_b iv)) | _ => 0 end)).
  - rewrite <- (coal_sum_perm _ _ _ Pm).
    destruct s as [|e r]; [reflexivity|]. unfold intervals.
    apply (walk_coal_sum (fun t => L t (glt evs t))).
  - eapply Forall_impl; [|exact OK]. intros iv [_ [_ [_ [_ Hg]]]]. cbn [zero NumR].
    destruct (i_end iv) eqn:E; try reflexivity.
    rewrite (Hg NTs eq_refl). unfold glt. rewrite (cntN_perm _ _ _ _ _ Pm). reflexivity.
Qed.

(* ================================================================== Part 2: model = Kingman *)

(* The Kingman log density written with counting only.  [ts] is the sequence of event times in
   non-decreasing order (stated declaratively: any list that is sorted and a permutation of the
   times), [P a b g c] the integral of 1/N over the inter-event interval (a,b) lying in grid piece g
   / coalescent piece c, [lnN t] = ln N(t):
       - sum_{intervals (a,b)} C(k(a),2) * int_a^b 1/N  -  sum_{coalescent times t} ln N(t). *)
Definition kingman (P : R -> R -> nat -> nat -> R) (lnN : R -> R) (evs : list ev) (ts : list R) : R :=
  - isum (kterm P evs) ts - coal_sum lnN evs.

Lemma times_unique (evs : list ev) ts :
  keys_ok evs -> StronglySorted Rle ts -> Permutation ts (map etime evs) ->
  map etime (sort_ev evs) = ts.
Proof.
  intros K S Pm. apply sorted_perm_eq; auto.
  - apply sorted_map_time, sort_sorted, K.
  - rewrite Pm. apply Permutation_map, sort_perm.
Qed.

Lemma ksum_counting P (evs : list ev) ts :
  keys_ok evs -> StronglySorted Rle ts -> Permutation ts (map etime evs) ->
  ksum NumR (fun iv => P (i_a iv) (i_b iv) (i_g iv) (i_c iv)) (intervals (sort_ev evs))
  = isum (kterm P evs) ts.
Proof.
  intros K S Pm. rewrite (sorted_cumsum_is_counting_l P evs (sort_ev evs) K (sort_perm evs) (sort_sorted evs K)).
  rewrite (times_unique evs ts K S Pm). reflexivity.
Qed.

Lemma csum_times F (s : list ev) : csum NumR (fun iv => F (i_b iv)) (intervals s) = coal_sum F s.
Proof.
  unfold csum. rewrite nsum_Rsum. destruct s as [|e r]; [reflexivity|]. unfold intervals.
  apply (walk_coal_sum F).
Qed.

Lemma lp_counting P L (evs : list ev) ts :
  keys_ok evs -> no_tie evs -> StronglySorted Rle ts -> Permutation ts (map etime evs) ->
  lp NumR (fun iv => P (i_a iv) (i_b iv) (i_g iv) (i_c iv)) (fun iv => L (i_b iv) (i_g iv))
     (intervals (sort_ev evs))
  = kingman P (fun t => L t (glt evs t)) evs ts.
Proof.
  intros K NT S Pm. unfold lp, kingman. cbn [sub opp NumR].
  rewrite (ksum_counting P evs ts K S Pm).
  rewrite (csum_counting_l L evs (sort_ev evs) K NT (sort_perm evs) (sort_sorted evs K)). reflexivity.
Qed.

Lemma lp_counting_nogrid P F (evs : list ev) ts :
  keys_ok evs -> StronglySorted Rle ts -> Permutation ts (map etime evs) ->
  lp NumR (fun iv => P (i_a iv) (i_b iv) (i_g iv) (i_c iv)) (fun iv => F (i_b iv)) (intervals (sort_ev evs))
  = kingman P F evs ts.
Proof.
  intros K S Pm. unfold lp, kingman. cbn [sub opp NumR].
  rewrite (ksum_counting P evs ts K S Pm), csum_times, (coal_sum_perm _ _ _ (sort_perm evs)). reflexivity.
Qed.

Lemma ofNat_INR n : ofNat NumR n = INR n.
Proof. unfold ofNat; simpl. unfold Q2R; simpl. rewrite <- INR_IZR_INZ. lra. Qed.
Lemma count_kind_sumN f (l : list ev) : count_kind f l = sumN f l.
Proof. induction l; simpl; congruence. Qed.
Lemma coal_sum_const x (l : list ev) : coal_sum (fun _ => x) l = INR (sumN iscoal l) * x.
Proof.
  unfold coal_sum. induction l as [|e r IH]; simpl; [lra|]. rewrite IH.
  destruct (ekind e); cbn [iscoal]; rewrite ?plus_INR; simpl; lra.
Qed.

(* ---- constant ---- *)
Theorem constant_eq_kingman_l theta (evs : list ev) ts :
  keys_ok evs -> StronglySorted Rle ts -> Permutation ts (map etime evs) ->
  constant_lp NumR theta evs = kingman (fun a b _ _ => (b - a) / theta) (fun _ => ln theta) evs ts.
Proof.
  intros K S Pm. unfold kingman.
  rewrite <- (ksum_counting (fun a b _ _ => (b - a) / theta) evs ts K S Pm).
  rewrite coal_sum_const, <- count_kind_sumN, <- ofNat_INR. reflexivity.
Qed.

(* ---- exponential growth, growth <> 0 ---- *)
Theorem exponential_eq_kingman_l theta gq g (evs : list ev) ts :
  Qeq_bool gq 0 = false ->
  keys_ok evs -> StronglySorted Rle ts -> Permutation ts (map etime evs) ->
  exponential_lp NumR theta gq g evs
  = kingman (fun a b _ _ => (exp (b * g) - exp (a * g)) / (theta * g))
            (fun t => ln (theta * exp (- t * g))) evs ts.
Proof.
  intros G K S Pm. unfold exponential_lp. rewrite G.
  apply (lp_counting_nogrid (fun a b _ _ => (exp (b * g) - exp (a * g)) / (theta * g))
           (fun t => ln (theta * exp (- t * g))) evs ts K S Pm).
Qed.
(* growth = 0: the constant model (the flat limit) *)
Theorem exponential_flat_l theta gq g (evs : list ev) :
  Qeq_bool gq 0 = true -> exponential_lp NumR theta gq g evs = constant_lp NumR theta evs.
Proof.
  intros G. unfold exponential_lp, constant_lp, lp. rewrite G. f_equal.
  rewrite ofNat_INR, count_kind_sumN, <- (sumN_perm _ _ _ (sort_perm evs)).
  exact (eq_trans (csum_times (fun _ => ln theta) (sort_ev evs)) (coal_sum_const (ln theta) (sort_ev evs))).
Qed.

(* ---- skyride: N = thetas_c on the c-th inter-coalescent piece; the j-th coalescence sees thetas_j ---- *)
Theorem skyride_eq_kingman_l thetas (evs : list ev) ts :
  keys_ok evs -> StronglySorted Rle ts -> Permutation ts (map etime evs) ->
  skyride_lp NumR thetas evs
  = - isum (kterm (fun a b _ c => (b - a) / lk thetas c 0) evs) ts - Rsum (map ln thetas).
Proof.
  intros K S Pm.
  rewrite <- (ksum_counting (fun a b _ c => (b - a) / lk thetas c 0) evs ts K S Pm), <- nsum_Rsum.
  reflexivity.
Qed.

(* ---- skygrid: N(t) = thetas_(number of grid points before t) ---- *)
Theorem skygrid_eq_kingman_l thetas (evs : list ev) ts :
  keys_ok evs -> no_tie evs -> StronglySorted Rle ts -> Permutation ts (map etime evs) ->
  skygrid_lp NumR thetas evs
  = kingman (fun a b g _ => (b - a) / lk thetas g 0) (fun t => ln (lk thetas (glt evs t) 0)) evs ts.
Proof.
  intros K NT S Pm. unfold skygrid_lp.
  apply (lp_counting (fun a b g _ => (b - a) / lk thetas g 0) (fun t g => ln (lk thetas g 0)) evs ts K NT S Pm).
Qed.

(* ---- piecewise linear ---- *)
Definition linN (th gridT : list R) (j : nat) (t : R) : R := lin_N NumR th gridT j t.
Definition linP (thq : list Q) (th gridT : list R) (a b : R) (j : nat) : R :=
  if lin_flat thq (length gridT) j then (b - a) / lk th j 0
  else (b - a) * (ln (linN th gridT j b) - ln (linN th gridT j a)) / (linN th gridT j b - linN th gridT j a).
Theorem linear_eq_kingman_l thq th gridT (evs : list ev) ts :
  keys_ok evs -> no_tie evs -> StronglySorted Rle ts -> Permutation ts (map etime evs) ->
  linear_lp NumR thq th gridT evs
  = kingman (fun a b g _ => linP thq th gridT a b g) (fun t => ln (linN th gridT (glt evs t) t)) evs ts.
Proof.
  intros K NT S Pm. unfold linear_lp.
  apply (lp_counting (fun a b g _ => linP thq th gridT a b g) (fun t g => ln (linN th gridT g t)) evs ts K NT S Pm).
Qed.

(* ---- piecewise exponential ---- *)
Definition peLnN (theta : R) (growth gridT : list R) (j : nat) (t : R) : R :=
  pe_lnN NumR (ln theta) growth gridT j t.
Definition peP (theta : R) (gq : list Q) (growth gridT : list R) (a b : R) (j : nat) : R :=
  let ng := exp (pe_lnNg NumR (ln theta) growth gridT j) in
  if Qeq_bool (lk gq j 0%Q) 0 then (b - a) / ng
  else (exp (lk growth j 0 * (b - g0 NumR gridT j)) - exp (lk growth j 0 * (a - g0 NumR gridT j)))
       / (ng * lk growth j 0).
Theorem pwexp_eq_kingman_l theta gq growth gridT (evs : list ev) ts :
  keys_ok evs -> no_tie evs -> StronglySorted Rle ts -> Permutation ts (map etime evs) ->
  pwexp_lp NumR theta gq growth gridT evs
  = kingman (fun a b g _ => peP theta gq growth gridT a b g)
            (fun t => peLnN theta growth gridT (glt evs t) t) evs ts.
Proof.
  intros K NT S Pm. unfold pwexp_lp.
  apply (lp_counting (fun a b g _ => peP theta gq growth gridT a b g)
           (fun t g => peLnN theta growth gridT g t) evs ts K NT S Pm).
Qed.

(* ---- order invariance: any permutation of the supplied events (hence of the supplied internal
   heights, of the tips, of the grid) leaves every log_prob unchanged ---- *)
Lemma kterm_perm P (evs evs' : list ev) : Permutation evs evs' -> kterm P evs = kterm P evs'.
Proof.
  intros Pm. unfold kterm. apply FunctionalExtensionality.functional_extensionality; intros a.
  apply FunctionalExtensionality.functional_extensionality; intros b.
  unfold kcount, gcount, ccount. rewrite (cntZ_perm _ _ _ _ _ Pm), !(cntN_perm _ _ _ _ _ Pm). reflexivity.
Qed.
Lemma ksum_perm P (evs evs' : list ev) :
  keys_ok evs -> Permutation evs evs' ->
  ksum NumR (fun iv => P (i_a iv) (i_b iv) (i_g iv) (i_c iv)) (intervals (sort_ev evs))
  = ksum NumR (fun iv => P (i_a iv) (i_b iv) (i_g iv) (i_c iv)) (intervals (sort_ev evs')).
Proof.
  intros K Pm. assert (K' : keys_ok evs') by (eapply keys_ok_perm; eassumption).
  set (ts := map etime (sort_ev evs)).
  assert (S : StronglySorted Rle ts) by (apply sorted_map_time, sort_sorted, K).
  assert (P1 : Permutation ts (map etime evs)) by (apply Permutation_map, sort_perm).
  rewrite (ksum_counting P evs ts K S P1).
  rewrite (ksum_counting P evs' ts K' S).
  - rewrite (kterm_perm P evs evs' Pm). reflexivity.
  - rewrite P1. apply Permutation_map, Pm.
Qed.
Lemma csum_perm L (evs evs' : list ev) :
  keys_ok evs -> no_tie evs -> Permutation evs evs' ->
  csum NumR (fun iv => L (i_b iv) (i_g iv)) (intervals (sort_ev evs))
  = csum NumR (fun iv => L (i_b iv) (i_g iv)) (intervals (sort_ev evs')).
Proof.
  intros K NT Pm. assert (K' : keys_ok evs') by (eapply keys_ok_perm; eassumption).
  assert (NT' : no_tie evs').
  { intros c g Hc Hg. apply NT; eapply Permutation_in; try eassumption; symmetry; assumption. }
  rewrite (csum_counting_l L evs (sort_ev evs) K NT (sort_perm evs) (sort_sorted evs K)).
  rewrite (csum_counting_l L evs' (sort_ev evs') K' NT' (sort_perm evs') (sort_sorted evs' K')).
  rewrite (coal_sum_perm _ _ _ Pm). unfold coal_sum. f_equal. apply map_ext. intros e.
  unfold glt. rewrite (cntN_perm _ _ _ _ _ Pm). reflexivity.
Qed.
Lemma csum_perm_times F (evs evs' : list ev) :
  Permutation evs evs' ->
  csum NumR (fun iv => F (i_b iv)) (intervals (sort_ev evs)) = csum NumR (fun iv => F (i_b iv)) (intervals (sort_ev evs')).
Proof.
  intros Pm. rewrite !csum_times, !(coal_sum_perm _ _ _ (sort_perm _)). apply coal_sum_perm, Pm.
Qed.
Lemma lp_perm P L (evs evs' : list ev) :
  keys_ok evs -> no_tie evs -> Permutation evs evs' ->
  lp NumR (fun iv => P (i_a iv) (i_b iv) (i_g iv) (i_c iv)) (fun iv => L (i_b iv) (i_g iv)) (intervals (sort_ev evs))
  = lp NumR (fun iv => P (i_a iv) (i_b iv) (i_g iv) (i_c iv)) (fun iv => L (i_b iv) (i_g iv)) (intervals (sort_ev evs')).
Proof.
  intros K NT Pm. unfold lp. rewrite (ksum_perm P evs evs' K Pm), (csum_perm L evs evs' K NT Pm). reflexivity.
Qed.

Theorem order_invariance_l (evs evs' : list ev) :
  keys_ok evs -> Permutation evs evs' ->
  (forall theta, constant_lp NumR theta evs = constant_lp NumR theta evs') /\
  (forall theta gq g, exponential_lp NumR theta gq g evs = exponential_lp NumR theta gq g evs') /\
  (forall thetas, skyride_lp NumR thetas evs = skyride_lp NumR thetas evs') /\
  (no_tie evs ->
   (forall thetas, skygrid_lp NumR thetas evs = skygrid_lp NumR thetas evs') /\
   (forall thq th gridT, linear_lp NumR thq th gridT evs = linear_lp NumR thq th gridT evs') /\
   (forall theta gq growth gridT, pwexp_lp NumR theta gq growth gridT evs = pwexp_lp NumR theta gq growth gridT evs')).
Proof.
  intros K Pm. assert (K' : keys_ok evs') by (eapply keys_ok_perm; eassumption).
  split; [|split; [|split]].
  - intros theta. unfold constant_lp. f_equal.
    + f_equal. exact (ksum_perm (fun a b _ _ => (b - a) / theta) evs evs' K Pm).
    + f_equal. f_equal. rewrite !count_kind_sumN. apply sumN_perm, Pm.
  - intros theta gq g. unfold exponential_lp, lp.
    destruct (Qeq_bool gq 0).
    + f_equal.
      * f_equal. exact (ksum_perm (fun a b _ _ => (b - a) / theta) evs evs' K Pm).
      * apply (csum_perm_times (fun _ => ln theta) evs evs' Pm).
    + f_equal.
      * f_equal. exact (ksum_perm (fun a b _ _ => (exp (b * g) - exp (a * g)) / (theta * g)) evs evs' K Pm).
      * apply (csum_perm_times (fun t => ln (theta * exp (- t * g))) evs evs' Pm).
  - intros thetas. unfold skyride_lp. f_equal. f_equal.
    exact (ksum_perm (fun a b _ c => (b - a) / lk thetas c 0) evs evs' K Pm).
  - intros NT. split; [|split].
    + intros thetas. unfold skygrid_lp.
      apply (lp_perm (fun a b g _ => (b - a) / lk thetas g 0) (fun t g => ln (lk thetas g 0)) evs evs' K NT Pm).
    + intros thq th gridT. unfold linear_lp.
      apply (lp_perm (fun a b g _ => linP thq th gridT a b g) (fun t g => ln (linN th gridT g t)) evs evs' K NT Pm).
    + intros theta gq growth gridT. unfold pwexp_lp.
      apply (lp_perm (fun a b g _ => peP theta gq growth gridT a b g)
               (fun t g => peLnN theta growth gridT g t) evs evs' K NT Pm).
Qed.
