(* Proofs about the coalescent models over R (NumR). *)
From Coq Require Import QArith ZArith Reals Qreals List Lia Lra Permutation Sorted.
Import ListNotations.
From TT Require Import Num NumR Tree M_coalescent.
