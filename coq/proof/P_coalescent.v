(* Proofs about the coalescent models over R (instance NumR of model/M_coalescent.v).

   Part 1: the event machinery.  For ANY list s that is a permutation of the events and sorted by
   time (i.e. for any tie-breaking of the sort) the walk's running lineage count / grid count /
   coalescent count on every interval of positive length equals the COUNTING definition
   (events at or before the start of the interval); empty intervals contribute 0.
   Part 2: each model's log_prob equals the Kingman density written with counting only.
   Part 3: closed-form piece integrals (Coquelicot is_RInt).
   Part 4: consequences: order invariance, all pieces equal = constant model, scaling law. *)
From Coq Require Import QArith ZArith Reals Qreals List Lia Lra Permutation Sorted Bool Arith.
Import ListNotations.
From TT Require Import Num NumR Tree M_coalescent.
Local Open Scope R_scope.

Notation ev := (event R).
Definition tle (a b : ev) : Prop := etime a <= etime b.

(* the exact keys order the events as their real times do *)
Definition keys_ok (evs : list ev) : Prop :=
  forall a b, In a evs -> In b evs -> (Qle_bool (ekey a) (ekey b) = true <-> etime a <= etime b).

Fixpoint Rsum (l : list R) : R := match l with [] => 0 | x :: r => x + Rsum r end.
Lemma nsum_Rsum l : nsum NumR l = Rsum l.
Proof. induction l as [|x l IH]; simpl; [reflexivity|]. rewrite IH; reflexivity. Qed.
Lemma Rsum_app a b : Rsum (a ++ b) = Rsum a + Rsum b.
Proof. induction a; simpl; lra. Qed.
Lemma Rsum_map_ext_Forall {A} (f g : A -> R) l :
  Forall (fun x => f x = g x) l -> Rsum (map f l) = Rsum (map g l).
Proof. induction 1; simpl; congruence. Qed.
Lemma Rsum_perm l l' : Permutation l l' -> Rsum l = Rsum l'.
Proof. induction 1; simpl; lra. Qed.

(* ------------------------------------------------------------------ sorting *)
Lemma insert_perm (e : ev) l : Permutation (insert_ev e l) (e :: l).
Proof.
  induction l as [|x r IH]; simpl; [reflexivity|].
  destruct (Qle_bool (ekey e) (ekey x)); [reflexivity|].
  rewrite IH. apply perm_swap.
Qed.
Lemma sort_perm (l : list ev) : Permutation (sort_ev l) l.
Proof.
  induction l as [|e r IH]; simpl; [reflexivity|]. rewrite insert_perm. constructor; exact IH.
Qed.

Lemma insert_sorted (e : ev) l :
  (forall x, In x l -> (Qle_bool (ekey e) (ekey x) = true <-> tle e x) /\ (tle e x \/ tle x e)) ->
  StronglySorted tle l -> StronglySorted tle (insert_ev e l).
Proof.
  intros H S. induction S as [|x r S IH F]; simpl.
  - constructor; constructor.
  - destruct (Qle_bool (ekey e) (ekey x)) eqn:E.
    + assert (tle e x) by (apply (H x); [left; reflexivity | exact E]).
      constructor; [constructor; assumption|]. constructor; [assumption|].
      rewrite Forall_forall in *. intros y Hy. specialize (F y Hy). unfold tle in *. lra.
    + assert (tle x e).
      { destruct (H x (or_introl eq_refl)) as [H1 [H2|H2]]; [|exact H2].
        apply H1 in H2. congruence. }
      constructor.
      * apply IH. intros y Hy. apply H. right; exact Hy.
      * rewrite Forall_forall in *. intros y Hy.
        apply (Permutation_in _ (insert_perm e r)) in Hy. destruct Hy as [<-|Hy]; auto.
Qed.

Lemma sort_sorted (l : list ev) : keys_ok l -> StronglySorted tle (sort_ev l).
Proof.
  induction l as [|e r IH]; intros K; simpl; [constructor|].
  apply insert_sorted.
  - intros x Hx. apply (Permutation_in _ (sort_perm r)) in Hx. split.
    + apply K; [left; reflexivity | right; exact Hx].
    + unfold tle. lra.
  - apply IH. intros a b Ha Hb. apply K; right; assumption.
Qed.

Lemma keys_ok_perm l l' : Permutation l l' -> keys_ok l -> keys_ok l'.
Proof.
  intros P K a b Ha Hb. apply K; eapply Permutation_in; try eassumption; symmetry; assumption.
Qed.

Lemma key_eq_time evs a b : keys_ok evs -> In a evs -> In b evs ->
  (Qeq_bool (ekey a) (ekey b) = true <-> etime a = etime b).
Proof.
  intros K Ha Hb. rewrite Qeq_bool_iff. split.
  - intros E. apply Rle_antisym.
    + apply (K a b Ha Hb). apply Qle_bool_iff. rewrite E. apply Qle_refl.
    + apply (K b a Hb Ha). apply Qle_bool_iff. rewrite E. apply Qle_refl.
  - intros E. apply Qle_antisym; apply Qle_bool_iff.
    + apply (K a b Ha Hb). lra.
    + apply (K b a Hb Ha). lra.
Qed.

(* two sorted lists of reals with the same elements (with multiplicity) are equal: the sequence of
   event TIMES does not depend on how ties are broken *)
Lemma sorted_perm_eq (l1 l2 : list R) :
  StronglySorted Rle l1 -> StronglySorted Rle l2 -> Permutation l1 l2 -> l1 = l2.
Proof.
  revert l2. induction l1 as [|a l1 IH]; intros l2 S1 S2 P.
  - apply Permutation_nil in P. congruence.
  - destruct l2 as [|b l2]; [symmetry in P; apply Permutation_nil in P; discriminate|].
    inversion S1 as [|? ? S1' F1]; inversion S2 as [|? ? S2' F2]; subst.
    rewrite Forall_forall in F1, F2.
    assert (a = b).
    { assert (Hb : In b (a :: l1)) by (eapply Permutation_in; [symmetry; exact P | left; reflexivity]).
      assert (Ha : In a (b :: l2)) by (eapply Permutation_in; [exact P | left; reflexivity]).
      destruct Hb as [Hb|Hb]; [congruence|]. destruct Ha as [Ha|Ha]; [congruence|].
      apply Rle_antisym; auto. }
    subst b. f_equal. apply IH; auto. eapply Permutation_cons_inv; exact P.
Qed.

Lemma sorted_map_time (s : list ev) : StronglySorted tle s -> StronglySorted Rle (map etime s).
Proof.
  induction 1 as [|x r S IH F]; simpl; constructor; auto.
  rewrite Forall_forall in *. intros y Hy. apply in_map_iff in Hy. destruct Hy as [z [<- Hz]].
  apply F; exact Hz.
Qed.

(* ------------------------------------------------------------------ counting *)
Fixpoint sumZ (w : kind -> Z) (l : list ev) : Z :=
  match l with [] => 0%Z | e :: r => (w (ekind e) + sumZ w r)%Z end.
Fixpoint sumN (w : kind -> nat) (l : list ev) : nat :=
  match l with [] => 0%nat | e :: r => (w (ekind e) + sumN w r)%nat end.

Section Cnt.
Variable P : R -> Prop.
Variable Pdec : forall x, {P x} + {~ P x}.
Fixpoint cntZ (w : kind -> Z) (l : list ev) : Z :=
  match l with [] => 0%Z | e :: r => ((if Pdec (etime e) then w (ekind e) else 0) + cntZ w r)%Z end.
Fixpoint cntN (w : kind -> nat) (l : list ev) : nat :=
  match l with [] => 0%nat | e :: r => ((if Pdec (etime e) then w (ekind e) else 0) + cntN w r)%nat end.

Lemma cntZ_perm w l l' : Permutation l l' -> cntZ w l = cntZ w l'.
Proof. induction 1; simpl; lia. Qed.
Lemma cntN_perm w l l' : Permutation l l' -> cntN w l = cntN w l'.
Proof. induction 1; simpl; lia. Qed.
Lemma cntZ_app w a b : cntZ w (a ++ b) = (cntZ w a + cntZ w b)%Z.
Proof. induction a; simpl; lia. Qed.
Lemma cntN_app w a b : cntN w (a ++ b) = (cntN w a + cntN w b)%nat.
Proof. induction a; simpl; lia. Qed.
Lemma cntZ_all w l : (forall x, In x l -> w (ekind x) <> 0%Z -> P (etime x)) -> cntZ w l = sumZ w l.
Proof.
  induction l as [|e r IH]; intros H; simpl; [reflexivity|].
  rewrite IH by (intros; apply H; [right|]; assumption).
  destruct (Pdec (etime e)); [reflexivity|].
  destruct (Z.eq_dec (w (ekind e)) 0) as [E|E]; [lia|]. exfalso. apply n, H; [left; reflexivity | exact E].
Qed.
Lemma cntN_all w l : (forall x, In x l -> w (ekind x) <> 0%nat -> P (etime x)) -> cntN w l = sumN w l.
Proof.
  induction l as [|e r IH]; intros H; simpl; [reflexivity|].
  rewrite IH by (intros; apply H; [right|]; assumption).
  destruct (Pdec (etime e)); [reflexivity|].
  destruct (Nat.eq_dec (w (ekind e)) 0) as [E|E]; [lia|]. exfalso. apply n, H; [left; reflexivity | exact E].
Qed.
Lemma cntZ_none w l : (forall x, In x l -> w (ekind x) <> 0%Z -> ~ P (etime x)) -> cntZ w l = 0%Z.
Proof.
  induction l as [|e r IH]; intros H; simpl; [reflexivity|].
  rewrite IH by (intros; apply H; [right|]; assumption).
  destruct (Pdec (etime e)); [|reflexivity].
  destruct (Z.eq_dec (w (ekind e)) 0) as [E|E]; [lia|]. exfalso. apply (H e); [left; reflexivity | exact E | exact p].
Qed.
Lemma cntN_none w l : (forall x, In x l -> w (ekind x) <> 0%nat -> ~ P (etime x)) -> cntN w l = 0%nat.
Proof.
  induction l as [|e r IH]; intros H; simpl; [reflexivity|].
  rewrite IH by (intros; apply H; [right|]; assumption).
  destruct (Pdec (etime e)); [|reflexivity].
  destruct (Nat.eq_dec (w (ekind e)) 0) as [E|E]; [lia|]. exfalso. apply (H e); [left; reflexivity | exact E | exact p].
Qed.
Lemma cntN_le_sum w l : (cntN w l <= sumN w l)%nat.
Proof. induction l as [|e r IH]; simpl; [lia|]. destruct (Pdec (etime e)); lia. Qed.
End Cnt.

Lemma sumZ_app w a b : sumZ w (a ++ b) = (sumZ w a + sumZ w b)%Z.
Proof. induction a; simpl; lia. Qed.
Lemma sumN_app w a b : sumN w (a ++ b) = (sumN w a + sumN w b)%nat.
Proof. induction a; simpl; lia. Qed.
Lemma sumN_perm w l l' : Permutation l l' -> sumN w l = sumN w l'.
Proof. induction 1; simpl; lia. Qed.

(* THE COUNTING DEFINITIONS.  k(t): tips sampled at or before t minus coalescences at or before t;
   the number of grid points / coalescences at or before t; the number of grid points strictly
   before t. *)
Definition kcount (evs : list ev) (t : R) : Z := cntZ (fun x => x <= t) (fun x => Rle_dec x t) delta evs.
Definition gcount (evs : list ev) (t : R) : nat := cntN (fun x => x <= t) (fun x => Rle_dec x t) isgrid evs.
Definition ccount (evs : list ev) (t : R) : nat := cntN (fun x => x <= t) (fun x => Rle_dec x t) iscoal evs.
Definition glt (evs : list ev) (t : R) : nat := cntN (fun x => x < t) (fun x => Rlt_dec x t) isgrid evs.

(* no grid point lies exactly on a coalescent time (the value of a step function at its jump is a
   convention; for continuous N the hypothesis is only a proof convenience) *)
Definition no_tie (evs : list ev) : Prop :=
  forall c g, In c evs -> In g evs -> ekind c = Coal -> ekind g = Grid -> etime c <> etime g.

(* ------------------------------------------------------------------ the walk *)
Definition iv_ok (s : list ev) (iv : ival R) : Prop :=
  i_a iv <= i_b iv /\ (i_zero iv = true <-> i_a iv = i_b iv) /\
  (i_a iv < i_b iv -> i_k iv = kcount s (i_a iv) /\ i_g iv = gcount s (i_a iv) /\ i_c iv = ccount s (i_a iv)) /\
  (i_g iv <= sumN isgrid s)%nat /\
  (no_tie s -> i_end iv = Coal -> i_g iv = glt s (i_b iv)).

Lemma isgrid_nz k : isgrid k <> 0%nat -> k = Grid.
Proof. destruct k; simpl; congruence. Qed.

Lemma walk_ok : forall l pre p k g c,
  keys_ok (pre ++ l) -> In p (pre ++ l) -> StronglySorted tle l ->
  (forall x, In x pre -> etime x <= etime p) -> (forall x, In x l -> etime p <= etime x) ->
  k = sumZ delta pre -> g = sumN isgrid pre -> c = sumN iscoal pre ->
  Forall (iv_ok (pre ++ l)) (walk (ekey p) (etime p) k g c l).
Proof.
  induction l as [|e r IH]; intros pre p k g c K Hp S Hpre Hl Hk Hg Hc; simpl; [constructor|].
  inversion S as [|? ? S' F]; subst. rewrite Forall_forall in F.
  assert (Hpe : etime p <= etime e) by (apply Hl; left; reflexivity).
  assert (Hin : In e (pre ++ e :: r)) by (apply in_or_app; right; left; reflexivity).
  constructor.
  - unfold iv_ok; cbn [i_a i_b i_zero i_k i_g i_c i_end]. split; [exact Hpe|]. split.
    { apply (key_eq_time _ p e K Hp Hin). }
    split; [|split].
    + intros Hlt.
      assert (A : forall x, In x pre -> etime x <= etime p) by exact Hpre.
      assert (B : forall x, In x (e :: r) -> ~ etime x <= etime p).
      { intros x [<-|Hx]; [lra|]. specialize (F x Hx). unfold tle in F. lra. }
      unfold kcount, gcount, ccount. rewrite cntZ_app, !cntN_app.
      rewrite (cntZ_all _ _ delta pre) by (intros; apply A; assumption).
      rewrite (cntZ_none _ _ delta (e :: r)) by (intros; apply B; assumption).
      rewrite !(cntN_all _ _ _ pre) by (intros; apply A; assumption).
      rewrite !(cntN_none _ _ _ (e :: r)) by (intros; apply B; assumption).
      repeat split; lia.
    + rewrite sumN_app. lia.
    + intros NT Ec. unfold glt. rewrite cntN_app.
      rewrite (cntN_all _ _ isgrid pre).
      2:{ intros x Hx Hw. apply isgrid_nz in Hw.
          assert (etime e <> etime x).
          { apply NT; auto. apply in_or_app; left; exact Hx. }
          specialize (Hpre x Hx). lra. }
      rewrite (cntN_none _ _ isgrid (e :: r)).
      2:{ intros x Hx Hw. apply isgrid_nz in Hw. destruct Hx as [<-|Hx]; [congruence|].
          specialize (F x Hx). unfold tle in F. lra. }
      lia.
  - replace (pre ++ e :: r) with ((pre ++ [e]) ++ r) in * by (rewrite <- app_assoc; reflexivity).
    apply IH.
    + exact K.
    + exact Hin.
    + exact S'.
    + intros x Hx. apply in_app_or in Hx. destruct Hx as [Hx|[<-|[]]]; [|lra].
      specialize (Hpre x Hx). lra.
    + intros x Hx. apply F; exact Hx.
    + rewrite sumZ_app; simpl. lia.
    + rewrite sumN_app; simpl. lia.
    + rewrite sumN_app; simpl. lia.
Qed.

Lemma intervals_ok (s : list ev) : keys_ok s -> StronglySorted tle s -> Forall (iv_ok s) (intervals s).
Proof.
  intros K S. destruct s as [|e r]; [constructor|]. unfold intervals.
  apply (walk_ok (e :: r) [] e 0%Z 0%nat 0%nat); auto.
  - left; reflexivity.
  - intros x [].
  - intros x [<-|Hx]; [lra|]. inversion S as [|? ? S' F]; subst. rewrite Forall_forall in F.
    apply F; exact Hx.
Qed.

(* sums over the walk depend on the end points / end kinds only *)
Fixpoint pair_sum (F : R -> R -> R) (p : R) (ts : list R) : R :=
  match ts with [] => 0 | t :: r => F p t + pair_sum F t r end.
(* sum of F over the inter-event intervals of a time sequence *)
Definition isum (F : R -> R -> R) (ts : list R) : R :=
  match ts with [] => 0 | t :: r => pair_sum F t r end.

Lemma walk_pair_sum F pk pt k g c (l : list ev) :
  Rsum (map (fun iv => F (i_a iv) (i_b iv)) (walk pk pt k g c l)) = pair_sum F pt (map etime l).
Proof.
  revert pk pt k g c. induction l as [|e r IH]; intros; simpl; [reflexivity|]. rewrite IH. reflexivity.
Qed.

Definition coal_sum (F : R -> R) (l : list ev) : R :=
  Rsum (map (fun e => match ekind e with Coal => F (etime e) | _ => 0 end) l).
Lemma coal_sum_perm F l l' : Permutation l l' -> coal_sum F l = coal_sum F l'.
Proof. intros P. unfold coal_sum. apply Rsum_perm, Permutation_map, P. Qed.
Lemma walk_coal_sum F pk pt k g c (l : list ev) :
  Rsum (map (fun iv => match i_end iv with Coal => F (i_b iv) | _ => 0 end) (walk pk pt k g c l))
  = coal_sum F l.
Proof.
  revert pk pt k g c. induction l as [|e r IH]; intros; simpl; [reflexivity|].
  unfold coal_sum in *; simpl. rewrite IH. reflexivity.
Qed.

Definition choose2R (k : Z) : R := IZR (k * (k - 1)) / 2.
Lemma choose2_R k : choose2 NumR k = choose2R k.
Proof. unfold choose2, choose2R. cbn [ofQ NumR]. unfold Q2R; simpl. reflexivity. Qed.

(* the summand of the Kingman density on the interval (a,b), by counting *)
Definition kterm (P : R -> R -> nat -> nat -> R) (evs : list ev) (a b : R) : R :=
  if Rlt_dec a b then choose2R (kcount evs a) * P a b (gcount evs a) (ccount evs a) else 0.

(* sorted_cumsum_is_counting: for ANY sorted permutation s of the events (any tie-breaking) the
   running-count sum equals the sum over the inter-event intervals of the time sequence with the
   lineage / grid / coalescent counts DEFINED BY COUNTING; empty intervals contribute 0. *)
Theorem sorted_cumsum_is_counting_l P (evs s : list ev) :
  keys_ok evs -> Permutation s evs -> StronglySorted tle s ->
  ksum NumR (fun iv => P (i_a iv) (i_b iv) (i_g iv) (i_c iv)) (intervals s)
  = isum (kterm P evs) (map etime s).
Proof.
  intros K Pm S. unfold ksum. rewrite nsum_Rsum.
  assert (Ks : keys_ok s) by (eapply keys_ok_perm; [symmetry; exact Pm | exact K]).
  pose proof (intervals_ok s Ks S) as OK.
  rewrite (Rsum_map_ext_Forall _ (fun iv => kterm P evs (i_a iv) (i_b iv))).
  - destruct s as [|e r]; [reflexivity|]. unfold intervals. rewrite walk_pair_sum. simpl.
    unfold kterm at 1. destruct (Rlt_dec (etime e) (etime e)); lra.
  - eapply Forall_impl; [|exact OK]. intros iv [Hle [Hz [Hc _]]]. unfold kterm.
    cbn [zero mul NumR]. rewrite choose2_R.
    destruct (i_zero iv) eqn:Z.
    + destruct (Rlt_dec (i_a iv) (i_b iv)); [|reflexivity].
      assert (i_a iv = i_b iv) by (apply Hz; reflexivity). lra.
    + destruct (Rlt_dec (i_a iv) (i_b iv)) as [Hlt|Hn].
      * destruct (Hc Hlt) as [-> [-> ->]]. unfold kcount, gcount, ccount.
        rewrite (cntZ_perm _ _ _ _ _ Pm), !(cntN_perm _ _ _ _ _ Pm). reflexivity.
      * assert (H : i_a iv = i_b iv) by lra. apply Hz in H. discriminate.
Qed.

(* the ln N terms: under no_tie the grid count at a coalescent event is the number of grid points
   strictly before its time, for any tie-breaking *)
Lemma csum_counting_l L (evs s : list ev) :
  keys_ok evs -> no_tie evs -> Permutation s evs -> StronglySorted tle s ->
  csum NumR (fun iv => L (i_b iv) (i_g iv)) (intervals s) = coal_sum (fun t => L t (glt evs t)) evs.
Proof.
  intros K NT Pm S. unfold csum. rewrite nsum_Rsum.
  assert (Ks : keys_ok s) by (eapply keys_ok_perm; [symmetry; exact Pm | exact K]).
  assert (NTs : no_tie s).
  { intros c g Hc Hg. apply NT; eapply Permutation_in; eassumption. }
  pose proof (intervals_ok s Ks S) as OK.
  rewrite (Rsum_map_ext_Forall _ (fun iv => match i_end iv with Coal => L (i_b iv) (glt evs (i_b iv)) | _ => 0 end)).
  - rewrite <- (coal_sum_perm _ _ _ Pm).
    destruct s as [|e r]; [reflexivity|]. unfold intervals.
    apply (walk_coal_sum (fun t => L t (glt evs t))).
  - eapply Forall_impl; [|exact OK]. intros iv [_ [_ [_ [_ Hg]]]]. cbn [zero NumR].
    destruct (i_end iv) eqn:E; try reflexivity.
    rewrite (Hg NTs eq_refl). unfold glt. rewrite (cntN_perm _ _ _ _ _ Pm). reflexivity.
Qed.

(* ================================================================== Part 2: model = Kingman *)

(* The Kingman log density written with counting only.  [ts] is the sequence of event times in
   non-decreasing order (stated declaratively: any list that is sorted and a permutation of the
   times), [P a b g c] the integral of 1/N over the inter-event interval (a,b) lying in grid piece g
   / coalescent piece c, [lnN t] = ln N(t):
       - sum_{intervals (a,b)} C(k(a),2) * int_a^b 1/N  -  sum_{coalescent times t} ln N(t). *)
Definition kingman (P : R -> R -> nat -> nat -> R) (lnN : R -> R) (evs : list ev) (ts : list R) : R :=
  - isum (kterm P evs) ts - coal_sum lnN evs.

Lemma times_unique (evs : list ev) ts :
  keys_ok evs -> StronglySorted Rle ts -> Permutation ts (map etime evs) ->
  map etime (sort_ev evs) = ts.
Proof.
  intros K S Pm. apply sorted_perm_eq; auto.
  - apply sorted_map_time, sort_sorted, K.
  - rewrite Pm. apply Permutation_map, sort_perm.
Qed.

Lemma ksum_counting P (evs : list ev) ts :
  keys_ok evs -> StronglySorted Rle ts -> Permutation ts (map etime evs) ->
  ksum NumR (fun iv => P (i_a iv) (i_b iv) (i_g iv) (i_c iv)) (intervals (sort_ev evs))
  = isum (kterm P evs) ts.
Proof.
  intros K S Pm. rewrite (sorted_cumsum_is_counting_l P evs (sort_ev evs) K (sort_perm evs) (sort_sorted evs K)).
  rewrite (times_unique evs ts K S Pm). reflexivity.
Qed.

Lemma csum_times F (s : list ev) : csum NumR (fun iv => F (i_b iv)) (intervals s) = coal_sum F s.
Proof.
  unfold csum. rewrite nsum_Rsum. destruct s as [|e r]; [reflexivity|]. unfold intervals.
  apply (walk_coal_sum F).
Qed.

Lemma lp_counting P L (evs : list ev) ts :
  keys_ok evs -> no_tie evs -> StronglySorted Rle ts -> Permutation ts (map etime evs) ->
  lp NumR (fun iv => P (i_a iv) (i_b iv) (i_g iv) (i_c iv)) (fun iv => L (i_b iv) (i_g iv))
     (intervals (sort_ev evs))
  = kingman P (fun t => L t (glt evs t)) evs ts.
Proof.
  intros K NT S Pm. unfold lp, kingman. cbn [sub opp NumR].
  rewrite (ksum_counting P evs ts K S Pm).
  rewrite (csum_counting_l L evs (sort_ev evs) K NT (sort_perm evs) (sort_sorted evs K)). reflexivity.
Qed.

Lemma lp_counting_nogrid P F (evs : list ev) ts :
  keys_ok evs -> StronglySorted Rle ts -> Permutation ts (map etime evs) ->
  lp NumR (fun iv => P (i_a iv) (i_b iv) (i_g iv) (i_c iv)) (fun iv => F (i_b iv)) (intervals (sort_ev evs))
  = kingman P F evs ts.
Proof.
  intros K S Pm. unfold lp, kingman. cbn [sub opp NumR].
  rewrite (ksum_counting P evs ts K S Pm), csum_times, (coal_sum_perm _ _ _ (sort_perm evs)). reflexivity.
Qed.

Lemma ofNat_INR n : ofNat NumR n = INR n.
Proof. unfold ofNat; simpl. unfold Q2R; simpl. rewrite <- INR_IZR_INZ. lra. Qed.
Lemma count_kind_sumN f (l : list ev) : count_kind f l = sumN f l.
Proof. induction l; simpl; congruence. Qed.
Lemma coal_sum_const x (l : list ev) : coal_sum (fun _ => x) l = INR (sumN iscoal l) * x.
Proof.
  unfold coal_sum. induction l as [|e r IH]; simpl; [lra|]. rewrite IH.
  destruct (ekind e); cbn [iscoal]; rewrite ?plus_INR; simpl; lra.
Qed.

(* ---- constant ---- *)
Theorem constant_eq_kingman_l theta (evs : list ev) ts :
  keys_ok evs -> StronglySorted Rle ts -> Permutation ts (map etime evs) ->
  constant_lp NumR theta evs = kingman (fun a b _ _ => (b - a) / theta) (fun _ => ln theta) evs ts.
Proof.
  intros K S Pm. unfold kingman.
  rewrite <- (ksum_counting (fun a b _ _ => (b - a) / theta) evs ts K S Pm).
  rewrite coal_sum_const, <- count_kind_sumN, <- ofNat_INR. reflexivity.
Qed.

(* ---- exponential growth, growth <> 0 ---- *)
Theorem exponential_eq_kingman_l theta gq g (evs : list ev) ts :
  Qeq_bool gq 0 = false ->
  keys_ok evs -> StronglySorted Rle ts -> Permutation ts (map etime evs) ->
  exponential_lp NumR theta gq g evs
  = kingman (fun a b _ _ => (exp (b * g) - exp (a * g)) / (theta * g))
            (fun t => ln (theta * exp (- t * g))) evs ts.
Proof.
  intros G K S Pm. unfold exponential_lp. rewrite G.
  apply (lp_counting_nogrid (fun a b _ _ => (exp (b * g) - exp (a * g)) / (theta * g))
           (fun t => ln (theta * exp (- t * g))) evs ts K S Pm).
Qed.
(* growth = 0: the constant model (the flat limit) *)
Theorem exponential_flat_l theta gq g (evs : list ev) :
  Qeq_bool gq 0 = true -> exponential_lp NumR theta gq g evs = constant_lp NumR theta evs.
Proof.
  intros G. unfold exponential_lp, constant_lp, lp. rewrite G. f_equal.
  rewrite ofNat_INR, count_kind_sumN, <- (sumN_perm _ _ _ (sort_perm evs)).
  exact (eq_trans (csum_times (fun _ => ln theta) (sort_ev evs)) (coal_sum_const (ln theta) (sort_ev evs))).
Qed.

(* ---- skyride: N = thetas_c on the c-th inter-coalescent piece; the j-th coalescence sees thetas_j ---- *)
Theorem skyride_eq_kingman_l thetas (evs : list ev) ts :
  keys_ok evs -> StronglySorted Rle ts -> Permutation ts (map etime evs) ->
  skyride_lp NumR thetas evs
  = - isum (kterm (fun a b _ c => (b - a) / lk thetas c 0) evs) ts - Rsum (map ln thetas).
Proof.
  intros K S Pm.
  rewrite <- (ksum_counting (fun a b _ c => (b - a) / lk thetas c 0) evs ts K S Pm), <- nsum_Rsum.
  reflexivity.
Qed.

(* ---- skygrid: N(t) = thetas_(number of grid points before t) ---- *)
Theorem skygrid_eq_kingman_l thetas (evs : list ev) ts :
  keys_ok evs -> no_tie evs -> StronglySorted Rle ts -> Permutation ts (map etime evs) ->
  skygrid_lp NumR thetas evs
  = kingman (fun a b g _ => (b - a) / lk thetas g 0) (fun t => ln (lk thetas (glt evs t) 0)) evs ts.
Proof.
  intros K NT S Pm. unfold skygrid_lp.
  apply (lp_counting (fun a b g _ => (b - a) / lk thetas g 0) (fun t g => ln (lk thetas g 0)) evs ts K NT S Pm).
Qed.

(* ---- piecewise linear ---- *)
Definition linN (th gridT : list R) (j : nat) (t : R) : R := lin_N NumR th gridT j t.
Definition linP (thq : list Q) (th gridT : list R) (a b : R) (j : nat) : R :=
  if lin_flat thq (length gridT) j then (b - a) / lk th j 0
  else (b - a) * (ln (linN th gridT j b) - ln (linN th gridT j a)) / (linN th gridT j b - linN th gridT j a).
Theorem linear_eq_kingman_l thq th gridT (evs : list ev) ts :
  keys_ok evs -> no_tie evs -> StronglySorted Rle ts -> Permutation ts (map etime evs) ->
  linear_lp NumR thq th gridT evs
  = kingman (fun a b g _ => linP thq th gridT a b g) (fun t => ln (linN th gridT (glt evs t) t)) evs ts.
Proof.
  intros K NT S Pm. unfold linear_lp.
  apply (lp_counting (fun a b g _ => linP thq th gridT a b g) (fun t g => ln (linN th gridT g t)) evs ts K NT S Pm).
Qed.

(* ---- piecewise exponential ---- *)
Definition peLnN (theta : R) (growth gridT : list R) (j : nat) (t : R) : R :=
  pe_lnN NumR (ln theta) growth gridT j t.
Definition peP (theta : R) (gq : list Q) (growth gridT : list R) (a b : R) (j : nat) : R :=
  let ng := exp (pe_lnNg NumR (ln theta) growth gridT j) in
  if Qeq_bool (lk gq j 0%Q) 0 then (b - a) / ng
  else (exp (lk growth j 0 * (b - g0 NumR gridT j)) - exp (lk growth j 0 * (a - g0 NumR gridT j)))
       / (ng * lk growth j 0).
Theorem pwexp_eq_kingman_l theta gq growth gridT (evs : list ev) ts :
  keys_ok evs -> no_tie evs -> StronglySorted Rle ts -> Permutation ts (map etime evs) ->
  pwexp_lp NumR theta gq growth gridT evs
  = kingman (fun a b g _ => peP theta gq growth gridT a b g)
            (fun t => peLnN theta growth gridT (glt evs t) t) evs ts.
Proof.
  intros K NT S Pm. unfold pwexp_lp.
  apply (lp_counting (fun a b g _ => peP theta gq growth gridT a b g)
           (fun t g => peLnN theta growth gridT g t) evs ts K NT S Pm).
Qed.

(* ---- order invariance: any permutation of the supplied events (hence of the supplied internal
   heights, of the tips, of the grid) leaves every log_prob unchanged ---- *)
Lemma kterm_perm P (evs evs' : list ev) : Permutation evs evs' -> kterm P evs = kterm P evs'.
Proof.
  intros Pm. unfold kterm. apply FunctionalExtensionality.functional_extensionality; intros a.
  apply FunctionalExtensionality.functional_extensionality; intros b.
  unfold kcount, gcount, ccount. rewrite (cntZ_perm _ _ _ _ _ Pm), !(cntN_perm _ _ _ _ _ Pm). reflexivity.
Qed.
Lemma ksum_perm P (evs evs' : list ev) :
  keys_ok evs -> Permutation evs evs' ->
  ksum NumR (fun iv => P (i_a iv) (i_b iv) (i_g iv) (i_c iv)) (intervals (sort_ev evs))
  = ksum NumR (fun iv => P (i_a iv) (i_b iv) (i_g iv) (i_c iv)) (intervals (sort_ev evs')).
Proof.
  intros K Pm. assert (K' : keys_ok evs') by (eapply keys_ok_perm; eassumption).
  set (ts := map etime (sort_ev evs)).
  assert (S : StronglySorted Rle ts) by (apply sorted_map_time, sort_sorted, K).
  assert (P1 : Permutation ts (map etime evs)) by (apply Permutation_map, sort_perm).
  rewrite (ksum_counting P evs ts K S P1).
  rewrite (ksum_counting P evs' ts K' S).
  - rewrite (kterm_perm P evs evs' Pm). reflexivity.
  - rewrite P1. apply Permutation_map, Pm.
Qed.
Lemma csum_perm L (evs evs' : list ev) :
  keys_ok evs -> no_tie evs -> Permutation evs evs' ->
  csum NumR (fun iv => L (i_b iv) (i_g iv)) (intervals (sort_ev evs))
  = csum NumR (fun iv => L (i_b iv) (i_g iv)) (intervals (sort_ev evs')).
Proof.
  intros K NT Pm. assert (K' : keys_ok evs') by (eapply keys_ok_perm; eassumption).
  assert (NT' : no_tie evs').
  { intros c g Hc Hg. apply NT; eapply Permutation_in; try eassumption; symmetry; assumption. }
  rewrite (csum_counting_l L evs (sort_ev evs) K NT (sort_perm evs) (sort_sorted evs K)).
  rewrite (csum_counting_l L evs' (sort_ev evs') K' NT' (sort_perm evs') (sort_sorted evs' K')).
  rewrite (coal_sum_perm _ _ _ Pm). unfold coal_sum. f_equal. apply map_ext. intros e.
  unfold glt. rewrite (cntN_perm _ _ _ _ _ Pm). reflexivity.
Qed.
Lemma csum_perm_times F (evs evs' : list ev) :
  Permutation evs evs' ->
  csum NumR (fun iv => F (i_b iv)) (intervals (sort_ev evs)) = csum NumR (fun iv => F (i_b iv)) (intervals (sort_ev evs')).
Proof.
  intros Pm. rewrite !csum_times, !(coal_sum_perm _ _ _ (sort_perm _)). apply coal_sum_perm, Pm.
Qed.
Lemma lp_perm P L (evs evs' : list ev) :
  keys_ok evs -> no_tie evs -> Permutation evs evs' ->
  lp NumR (fun iv => P (i_a iv) (i_b iv) (i_g iv) (i_c iv)) (fun iv => L (i_b iv) (i_g iv)) (intervals (sort_ev evs))
  = lp NumR (fun iv => P (i_a iv) (i_b iv) (i_g iv) (i_c iv)) (fun iv => L (i_b iv) (i_g iv)) (intervals (sort_ev evs')).
Proof.
  intros K NT Pm. unfold lp. rewrite (ksum_perm P evs evs' K Pm), (csum_perm L evs evs' K NT Pm). reflexivity.
Qed.

Theorem order_invariance_l (evs evs' : list ev) :
  keys_ok evs -> Permutation evs evs' ->
  (forall theta, constant_lp NumR theta evs = constant_lp NumR theta evs') /\
  (forall theta gq g, exponential_lp NumR theta gq g evs = exponential_lp NumR theta gq g evs') /\
  (forall thetas, skyride_lp NumR thetas evs = skyride_lp NumR thetas evs') /\
  (no_tie evs ->
   (forall thetas, skygrid_lp NumR thetas evs = skygrid_lp NumR thetas evs') /\
   (forall thq th gridT, linear_lp NumR thq th gridT evs = linear_lp NumR thq th gridT evs') /\
   (forall theta gq growth gridT, pwexp_lp NumR theta gq growth gridT evs = pwexp_lp NumR theta gq growth gridT evs')).
Proof.
  intros K Pm. assert (K' : keys_ok evs') by (eapply keys_ok_perm; eassumption).
  split; [|split; [|split]].
  - intros theta. unfold constant_lp. f_equal.
    + f_equal. exact (ksum_perm (fun a b _ _ => (b - a) / theta) evs evs' K Pm).
    + f_equal. f_equal. rewrite !count_kind_sumN. apply sumN_perm, Pm.
  - intros theta gq g. unfold exponential_lp, lp.
    destruct (Qeq_bool gq 0).
    + f_equal.
      * f_equal. exact (ksum_perm (fun a b _ _ => (b - a) / theta) evs evs' K Pm).
      * apply (csum_perm_times (fun _ => ln theta) evs evs' Pm).
    + f_equal.
      * f_equal. exact (ksum_perm (fun a b _ _ => (exp (b * g) - exp (a * g)) / (theta * g)) evs evs' K Pm).
      * apply (csum_perm_times (fun t => ln (theta * exp (- t * g))) evs evs' Pm).
  - intros thetas. unfold skyride_lp. f_equal. f_equal.
    exact (ksum_perm (fun a b _ c => (b - a) / lk thetas c 0) evs evs' K Pm).
  - intros NT. split; [|split].
    + intros thetas. unfold skygrid_lp.
      apply (lp_perm (fun a b g _ => (b - a) / lk thetas g 0) (fun t g => ln (lk thetas g 0)) evs evs' K NT Pm).
    + intros thq th gridT. unfold linear_lp.
      apply (lp_perm (fun a b g _ => linP thq th gridT a b g) (fun t g => ln (linN th gridT g t)) evs evs' K NT Pm).
    + intros theta gq growth gridT. unfold pwexp_lp.
      apply (lp_perm (fun a b g _ => peP theta gq growth gridT a b g)
               (fun t g => peLnN theta growth gridT g t) evs evs' K NT Pm).
Qed.

(* ================================================================== Part 4a: all pieces equal = constant *)
Lemma lk_repeat {T} (x d : T) n j : (j < n)%nat -> lk (repeat x n) j d = x.
Proof.
  revert j. induction n as [|n IH]; intros [|j] H; simpl; try lia; auto. apply IH. lia.
Qed.
Lemma Rsum_map_repeat {A} (f : A -> R) x n : Rsum (map f (repeat x n)) = INR n * f x.
Proof. induction n as [|n IH]; [simpl; lra|]. rewrite S_INR. cbn [repeat map Rsum]. rewrite IH. lra. Qed.

Lemma ksum_ext_Forall f g (l : list (ival R)) :
  Forall (fun iv => i_zero iv = false ->
                    mul NumR (choose2 NumR (i_k iv)) (f iv) = mul NumR (choose2 NumR (i_k iv)) (g iv)) l ->
  ksum NumR f l = ksum NumR g l.
Proof.
  intros H. unfold ksum. f_equal. induction H as [|iv l Hiv H IH]; cbn [map]; [reflexivity|].
  rewrite IH. f_equal. destruct (i_zero iv); [reflexivity|]. apply Hiv. reflexivity.
Qed.
Lemma csum_ext_Forall f g (l : list (ival R)) :
  Forall (fun iv => i_end iv = Coal -> f iv = g iv) l -> csum NumR f l = csum NumR g l.
Proof.
  intros H. unfold csum. f_equal. induction H as [|iv l Hiv H IH]; cbn [map]; [reflexivity|].
  rewrite IH. f_equal. destruct (i_end iv); try reflexivity. apply Hiv. reflexivity.
Qed.
Lemma csum_const x (s : list ev) : csum NumR (fun _ => x) (intervals s) = INR (sumN iscoal s) * x.
Proof. exact (eq_trans (csum_times (fun _ => x) s) (coal_sum_const x s)). Qed.

Lemma log_term_const theta (evs : list ev) :
  csum NumR (fun _ => nln NumR theta) (intervals (sort_ev evs))
  = mul NumR (ofNat NumR (count_kind iscoal evs)) (nln NumR theta).
Proof.
  rewrite csum_const, ofNat_INR, count_kind_sumN, (sumN_perm _ _ _ (sort_perm evs)). reflexivity.
Qed.

(* skygrid with all thetas equal, for EVERY grid (points beyond the root, before the first
   coalescence, on event times, ...) and every event list whatsoever *)
Theorem skygrid_all_equal_l theta (evs : list ev) :
  keys_ok evs ->
  skygrid_lp NumR (repeat theta (S (sumN isgrid evs))) evs = constant_lp NumR theta evs.
Proof.
  intros K. unfold skygrid_lp, constant_lp, lp.
  assert (Ks : keys_ok (sort_ev evs)) by (eapply keys_ok_perm; [symmetry; apply sort_perm | exact K]).
  pose proof (intervals_ok (sort_ev evs) Ks (sort_sorted evs K)) as OK.
  f_equal.
  - f_equal. apply ksum_ext_Forall. eapply Forall_impl; [|exact OK].
    intros iv [_ [_ [_ [Hg _]]]] _. rewrite (sumN_perm _ _ _ (sort_perm evs)) in Hg.
    rewrite lk_repeat by lia. reflexivity.
  - rewrite <- log_term_const. apply csum_ext_Forall. eapply Forall_impl; [|exact OK].
    intros iv [_ [_ [_ [Hg _]]]] _. rewrite (sumN_perm _ _ _ (sort_perm evs)) in Hg.
    rewrite lk_repeat by lia. reflexivity.
Qed.

(* piecewise linear with all thetas equal *)
Lemma lin_flat_repeat q m j : lin_flat (repeat q (S m)) m j = true.
Proof.
  unfold lin_flat. destruct (m <=? j)%nat eqn:E; [reflexivity|]. apply Nat.leb_gt in E.
  rewrite !lk_repeat by lia. apply Qeq_bool_iff. reflexivity.
Qed.
Lemma lin_N_repeat theta gridT j t :
  (j <= length gridT)%nat -> lin_N NumR (repeat theta (S (length gridT))) gridT j t = theta.
Proof.
  intros H. unfold lin_N. destruct (length gridT <=? j)%nat eqn:E.
  - apply lk_repeat. lia.
  - apply Nat.leb_gt in E. rewrite !lk_repeat by lia. cbn [add sub mul div NumR]. unfold Rdiv. ring.
Qed.
Theorem linear_all_equal_l q theta gridT (evs : list ev) :
  keys_ok evs -> length gridT = sumN isgrid evs ->
  linear_lp NumR (repeat q (S (length gridT))) (repeat theta (S (length gridT))) gridT evs
  = constant_lp NumR theta evs.
Proof.
  intros K Hm. unfold linear_lp, constant_lp, lp.
  assert (Ks : keys_ok (sort_ev evs)) by (eapply keys_ok_perm; [symmetry; apply sort_perm | exact K]).
  pose proof (intervals_ok (sort_ev evs) Ks (sort_sorted evs K)) as OK.
  f_equal.
  - f_equal. apply ksum_ext_Forall. eapply Forall_impl; [|exact OK].
    intros iv [_ [_ [_ [Hg _]]]] _. rewrite (sumN_perm _ _ _ (sort_perm evs)), <- Hm in Hg.
    unfold lin_piece. rewrite lin_flat_repeat, lk_repeat by lia. reflexivity.
  - rewrite <- log_term_const. apply csum_ext_Forall. eapply Forall_impl; [|exact OK].
    intros iv [_ [_ [_ [Hg _]]]] _. rewrite (sumN_perm _ _ _ (sort_perm evs)), <- Hm in Hg.
    rewrite lin_N_repeat by lia. reflexivity.
Qed.

(* skyride with all thetas equal, for every valid time vector: at most n tips for n-1
   coalescences and never more coalescences than sampled lineages *)
Definition istip (k : kind) : nat := match k with Tip => 1%nat | _ => 0%nat end.
Definition tipcount (evs : list ev) (t : R) : nat := cntN (fun x => x <= t) (fun x => Rle_dec x t) istip evs.
Lemma kcount_split (evs : list ev) t :
  kcount evs t = (Z.of_nat (tipcount evs t) - Z.of_nat (ccount evs t))%Z.
Proof.
  unfold kcount, ccount, tipcount. induction evs as [|e r IH]; cbn [cntZ cntN]; [reflexivity|]. rewrite IH.
  destruct (Rle_dec (etime e) t); destruct (ekind e); cbn [delta istip iscoal]; lia.
Qed.
Lemma choose2_small k : (k = 0 \/ k = 1)%Z -> choose2 NumR k = 0.
Proof. intros [->| ->]; rewrite choose2_R; unfold choose2R; simpl; lra. Qed.

Theorem skyride_all_equal_l theta (evs : list ev) :
  keys_ok evs -> (sumN istip evs <= S (sumN iscoal evs))%nat -> (forall t, (0 <= kcount evs t)%Z) ->
  skyride_lp NumR (repeat theta (sumN iscoal evs)) evs = constant_lp NumR theta evs.
Proof.
  intros K Hn Hk. unfold skyride_lp, constant_lp.
  assert (Ks : keys_ok (sort_ev evs)) by (eapply keys_ok_perm; [symmetry; apply sort_perm | exact K]).
  pose proof (intervals_ok (sort_ev evs) Ks (sort_sorted evs K)) as OK.
  f_equal.
  - f_equal. apply ksum_ext_Forall. eapply Forall_impl; [|exact OK].
    intros iv [Hle [Hz [Hc _]]] Z.
    assert (Hlt : i_a iv < i_b iv).
    { destruct (Rle_lt_or_eq_dec _ _ Hle) as [H|H]; [exact H|]. apply Hz in H. congruence. }
    destruct (Hc Hlt) as [Ek [_ Ec]].
    unfold kcount in Ek. rewrite (cntZ_perm _ _ _ _ _ (sort_perm evs)) in Ek. fold (kcount evs (i_a iv)) in Ek.
    unfold ccount in Ec. rewrite (cntN_perm _ _ _ _ _ (sort_perm evs)) in Ec. fold (ccount evs (i_a iv)) in Ec.
    destruct (lt_dec (i_c iv) (sumN iscoal evs)) as [Hc1|Hc1].
    + rewrite lk_repeat by exact Hc1. reflexivity.
    + assert (H01 : (i_k iv = 0 \/ i_k iv = 1)%Z).
      { specialize (Hk (i_a iv)). rewrite Ek. rewrite kcount_split in *.
        pose proof (cntN_le_sum (fun x => x <= i_a iv) (fun x => Rle_dec x (i_a iv)) istip evs) as B1.
        pose proof (cntN_le_sum (fun x => x <= i_a iv) (fun x => Rle_dec x (i_a iv)) iscoal evs) as B2.
        fold (tipcount evs (i_a iv)) in B1. fold (ccount evs (i_a iv)) in B2. lia. }
      rewrite (choose2_small _ H01). cbn [mul NumR]. lra.
  - rewrite nsum_Rsum, Rsum_map_repeat, ofNat_INR, count_kind_sumN. reflexivity.
Qed.

(* ================================================================== Part 4b: scaling law *)
Definition scale_ev (cq : Q) (c : R) (e : ev) : ev := mkEv (cq * ekey e)%Q (c * etime e) (ekind e).

Lemma sumN_scale w cq c (evs : list ev) : sumN w (map (scale_ev cq c) evs) = sumN w evs.
Proof. induction evs; simpl; congruence. Qed.
Lemma cntZ_scale_le w cq c (evs : list ev) t : 0 < c ->
  cntZ (fun x => x <= c * t) (fun x => Rle_dec x (c * t)) w (map (scale_ev cq c) evs)
  = cntZ (fun x => x <= t) (fun x => Rle_dec x t) w evs.
Proof.
  intros Hc. induction evs as [|e r IH]; simpl; [reflexivity|]. rewrite IH.
  destruct (Rle_dec (c * etime e) (c * t)); destruct (Rle_dec (etime e) t); try reflexivity; exfalso; nra.
Qed.
Lemma cntN_scale_le w cq c (evs : list ev) t : 0 < c ->
  cntN (fun x => x <= c * t) (fun x => Rle_dec x (c * t)) w (map (scale_ev cq c) evs)
  = cntN (fun x => x <= t) (fun x => Rle_dec x t) w evs.
Proof.
  intros Hc. induction evs as [|e r IH]; simpl; [reflexivity|]. rewrite IH.
  destruct (Rle_dec (c * etime e) (c * t)); destruct (Rle_dec (etime e) t); try reflexivity; exfalso; nra.
Qed.
Lemma cntN_scale_lt w cq c (evs : list ev) t : 0 < c ->
  cntN (fun x => x < c * t) (fun x => Rlt_dec x (c * t)) w (map (scale_ev cq c) evs)
  = cntN (fun x => x < t) (fun x => Rlt_dec x t) w evs.
Proof.
  intros Hc. induction evs as [|e r IH]; simpl; [reflexivity|]. rewrite IH.
  destruct (Rlt_dec (c * etime e) (c * t)); destruct (Rlt_dec (etime e) t); try reflexivity; exfalso; nra.
Qed.

Lemma pair_sum_scale F F' c p ts :
  (forall a b, F' (c * a) (c * b) = F a b) -> pair_sum F' (c * p) (map (Rmult c) ts) = pair_sum F p ts.
Proof. intros H. revert p. induction ts as [|t r IH]; intros p; simpl; [reflexivity|]. rewrite H, IH. reflexivity. Qed.
Lemma isum_scale F F' c ts :
  (forall a b, F' (c * a) (c * b) = F a b) -> isum F' (map (Rmult c) ts) = isum F ts.
Proof. intros H. destruct ts as [|t r]; [reflexivity|]. simpl. apply pair_sum_scale, H. Qed.

Lemma kterm_scale P P' cq c (evs : list ev) : 0 < c ->
  (forall a b g k, a < b -> P' (c * a) (c * b) g k = P a b g k) ->
  forall a b, kterm P' (map (scale_ev cq c) evs) (c * a) (c * b) = kterm P evs a b.
Proof.
  intros Hc H a b. unfold kterm.
  destruct (Rlt_dec (c * a) (c * b)); destruct (Rlt_dec a b); try reflexivity; try (exfalso; nra).
  unfold kcount, gcount, ccount. rewrite cntZ_scale_le, !cntN_scale_le by exact Hc. rewrite H by assumption.
  reflexivity.
Qed.

Lemma sorted_scale c ts : 0 < c -> StronglySorted Rle ts -> StronglySorted Rle (map (Rmult c) ts).
Proof.
  intros Hc. induction 1 as [|x r S IH F]; simpl; constructor; auto.
  rewrite Forall_forall in *. intros y Hy. apply in_map_iff in Hy. destruct Hy as [z [<- Hz]].
  specialize (F z Hz). nra.
Qed.
Lemma times_scale cq c (evs : list ev) : map etime (map (scale_ev cq c) evs) = map (Rmult c) (map etime evs).
Proof. rewrite !map_map. reflexivity. Qed.

Lemma coal_sum_scale F F' cq c (evs : list ev) :
  (forall e, In e evs -> ekind e = Coal -> F' (c * etime e) = F (etime e) + ln c) ->
  coal_sum F' (map (scale_ev cq c) evs) = coal_sum F evs + INR (sumN iscoal evs) * ln c.
Proof.
  unfold coal_sum. induction evs as [|e r IH]; intros H; simpl; [lra|].
  rewrite IH by (intros; apply H; [right|]; assumption).
  destruct (ekind e) eqn:E; cbn [iscoal]; rewrite ?plus_INR; simpl; try lra.
  rewrite (H e (or_introl eq_refl) E). lra.
Qed.

Lemma kingman_scaling P P' lnN lnN' cq c (evs : list ev) ts : 0 < c ->
  (forall a b g k, a < b -> P' (c * a) (c * b) g k = P a b g k) ->
  (forall e, In e evs -> ekind e = Coal -> lnN' (c * etime e) = lnN (etime e) + ln c) ->
  kingman P' lnN' (map (scale_ev cq c) evs) (map (Rmult c) ts)
  = kingman P lnN evs ts - INR (sumN iscoal evs) * ln c.
Proof.
  intros Hc HP HL. unfold kingman.
  rewrite (isum_scale (kterm P evs) _ c ts (kterm_scale P P' cq c evs Hc HP)).
  rewrite (coal_sum_scale lnN lnN' cq c evs HL). lra.
Qed.

Section Scaling.
Variables (cq : Q) (c : R) (evs : list ev).
Hypothesis Hc : 0 < c.
Hypothesis K : keys_ok evs.
Hypothesis K' : keys_ok (map (scale_ev cq c) evs).
Let ts := map etime (sort_ev evs).
Let evs' := map (scale_ev cq c) evs.
Lemma ts_sorted : StronglySorted Rle ts.
Proof. apply sorted_map_time, sort_sorted, K. Qed.
Lemma ts_perm : Permutation ts (map etime evs).
Proof. apply Permutation_map, sort_perm. Qed.
Lemma ts'_sorted : StronglySorted Rle (map (Rmult c) ts).
Proof. apply sorted_scale; [exact Hc | exact ts_sorted]. Qed.
Lemma ts'_perm : Permutation (map (Rmult c) ts) (map etime evs').
Proof. unfold evs'. rewrite times_scale. apply Permutation_map, ts_perm. Qed.

(* times and the population size times c: log p - (n-1) ln c, n-1 = number of coalescences *)
Theorem constant_scaling_l theta : 0 < theta ->
  constant_lp NumR (c * theta) evs' = constant_lp NumR theta evs - INR (sumN iscoal evs) * ln c.
Proof.
  intros Ht.
  rewrite (constant_eq_kingman_l (c * theta) evs' _ K' ts'_sorted ts'_perm).
  rewrite (constant_eq_kingman_l theta evs ts K ts_sorted ts_perm).
  apply kingman_scaling; [exact Hc | |].
  - intros a b _ _ _. field. lra.
  - intros e _ _. rewrite ln_mult by lra. lra.
Qed.

(* growth rate divided by c *)
Theorem exponential_scaling_l theta gq gq' g : 0 < theta ->
  Qeq_bool gq 0 = false -> Qeq_bool gq' 0 = false ->
  exponential_lp NumR (c * theta) gq' (g / c) evs'
  = exponential_lp NumR theta gq g evs - INR (sumN iscoal evs) * ln c.
Proof.
  intros Ht G G'.
  rewrite (exponential_eq_kingman_l (c * theta) gq' (g / c) evs' _ G' K' ts'_sorted ts'_perm).
  rewrite (exponential_eq_kingman_l theta gq g evs ts G K ts_sorted ts_perm).
  apply kingman_scaling; [exact Hc | |].
  - intros a b _ _ _.
    replace (c * b * (g / c)) with (b * g) by (field; lra).
    replace (c * a * (g / c)) with (a * g) by (field; lra).
    replace (c * theta * (g / c)) with (theta * g) by (field; lra). reflexivity.
  - intros e _ _. replace (- (c * etime e) * (g / c)) with (- etime e * g) by (field; lra).
    pose proof (exp_pos (- etime e * g)).
    rewrite Rmult_assoc, ln_mult; [lra | lra | nra].
Qed.

Lemma lk_map_scale (l : list R) j : lk (map (Rmult c) l) j 0 = c * lk l j 0.
Proof. revert j. induction l as [|x l IH]; intros [|j]; simpl; try lra. apply IH. Qed.
Lemma div_scale a b x : (c * b - c * a) / (c * x) = (b - a) / x.
Proof.
  unfold Rdiv. rewrite Rinv_mult.
  replace ((c * b - c * a) * (/ c * / x)) with ((b - a) * / x * (c * / c)) by ring.
  rewrite Rinv_r by lra. ring.
Qed.

Theorem skyride_scaling_l thetas :
  Forall (fun x => 0 < x) thetas -> length thetas = sumN iscoal evs ->
  skyride_lp NumR (map (Rmult c) thetas) evs'
  = skyride_lp NumR thetas evs - INR (sumN iscoal evs) * ln c.
Proof.
  intros Hp Hl.
  rewrite (skyride_eq_kingman_l (map (Rmult c) thetas) evs' _ K' ts'_sorted ts'_perm).
  rewrite (skyride_eq_kingman_l thetas evs ts K ts_sorted ts_perm).
  rewrite (isum_scale (kterm (fun a b _ k => (b - a) / lk thetas k 0) evs) _ c ts).
  2:{ apply (kterm_scale _ _ cq c evs Hc). intros a b _ k _. rewrite lk_map_scale. apply div_scale. }
  rewrite <- Hl. clear Hl.
  assert (E : Rsum (map ln (map (Rmult c) thetas)) = Rsum (map ln thetas) + INR (length thetas) * ln c).
  { induction Hp as [|x l Hx Hp IH]; [simpl; lra|].
    cbn [map Rsum length]. rewrite IH, S_INR, ln_mult by lra. lra. }
  rewrite E. lra.
Qed.

Lemma no_tie_scale : no_tie evs -> no_tie evs'.
Proof.
  intros NT x y Hx Hy Ex Ey. apply in_map_iff in Hx, Hy.
  destruct Hx as [x0 [<- Hx]], Hy as [y0 [<- Hy]]. cbn [scale_ev etime ekind] in *.
  specialize (NT x0 y0 Hx Hy Ex Ey). nra.
Qed.

Theorem skygrid_scaling_l thetas :
  no_tie evs -> Forall (fun x => 0 < x) thetas -> length thetas = S (sumN isgrid evs) ->
  skygrid_lp NumR (map (Rmult c) thetas) evs'
  = skygrid_lp NumR thetas evs - INR (sumN iscoal evs) * ln c.
Proof.
  intros NT Hp Hl.
  rewrite (skygrid_eq_kingman_l (map (Rmult c) thetas) evs' _ K' (no_tie_scale NT) ts'_sorted ts'_perm).
  rewrite (skygrid_eq_kingman_l thetas evs ts K NT ts_sorted ts_perm).
  apply kingman_scaling; [exact Hc | |].
  - intros a b g _ _. rewrite lk_map_scale. apply div_scale.
  - intros e _ _. unfold glt, evs'. rewrite cntN_scale_lt by exact Hc. rewrite lk_map_scale.
    assert (0 < lk thetas (cntN (fun x => x < etime e) (fun x => Rlt_dec x (etime e)) isgrid evs) 0).
    { pose proof (cntN_le_sum (fun x => x < etime e) (fun x => Rlt_dec x (etime e)) isgrid evs) as B.
      rewrite lk_nth. rewrite Forall_forall in Hp. apply Hp, nth_In. lia. }
    rewrite ln_mult by lra. lra.
Qed.
End Scaling.

(* ================================================================== Part 3: closed-form piece integrals *)
From Coquelicot Require Import Coquelicot.

(* constant piece (also: any flat piece, the flat limit of the linear / exponential closed forms) *)
Theorem integral_const_l N0 a b : is_RInt (fun _ => / N0) a b ((b - a) / N0).
Proof.
  replace ((b - a) / N0) with (scal (b - a) (/ N0)) by (unfold scal; simpl; unfold mult; simpl; reflexivity).
  apply (is_RInt_const (V := R_NormedModule)).
Qed.

(* exponential piece  N(t) = N0 exp(-g (t - t0)),  g <> 0 :
   int_a^b 1/N = (exp(g (b - t0)) - exp(g (a - t0))) / (N0 g) *)
Theorem integral_exp_piece_l N0 g t0 a b : N0 <> 0 -> g <> 0 ->
  is_RInt (fun t => / (N0 * exp (- g * (t - t0)))) a b
          ((exp (g * (b - t0)) - exp (g * (a - t0))) / (N0 * g)).
Proof.
  intros HN Hg.
  replace ((exp (g * (b - t0)) - exp (g * (a - t0))) / (N0 * g))
    with (minus (exp (g * (b - t0)) / (N0 * g)) (exp (g * (a - t0)) / (N0 * g)))
    by (unfold minus, plus, opp; simpl; field; split; assumption).
  assert (E : forall x : R, exp (g * (x - t0)) / N0 = / (N0 * exp (- g * (x - t0)))).
  { intros x. replace (- g * (x - t0)) with (- (g * (x - t0))) by ring. rewrite exp_Ropp.
    field. split; [apply Rgt_not_eq, exp_pos | exact HN]. }
  apply (is_RInt_ext (fun t => exp (g * (t - t0)) / N0)).
  - intros x _. apply E.
  - apply (is_RInt_derive (fun t => exp (g * (t - t0)) / (N0 * g)) (fun t => exp (g * (t - t0)) / N0)).
    + intros x _. auto_derive; [exact I|]. unfold Rminus. field. split; assumption.
    + intros x _. apply (ex_derive_continuous (fun t => exp (g * (t - t0)) / N0)). auto_derive. exact I.
Qed.

(* the form ExponentialCoalescent uses: N(t) = theta exp(-g t) *)
Theorem integral_exp_l theta g a b : theta <> 0 -> g <> 0 ->
  is_RInt (fun t => / (theta * exp (- t * g))) a b ((exp (b * g) - exp (a * g)) / (theta * g)).
Proof.
  intros Ht Hg. pose proof (integral_exp_piece_l theta g 0 a b Ht Hg) as H.
  replace (g * (b - 0)) with (b * g) in H by ring. replace (g * (a - 0)) with (a * g) in H by ring.
  assert (E : forall x : R, / (theta * exp (- g * (x - 0))) = / (theta * exp (- x * g))).
  { intros x. f_equal. f_equal. f_equal. ring. }
  eapply is_RInt_ext; [|exact H]. intros x _. apply E.
Qed.

(* linear piece  N(t) = N0 + (N1 - N0)(t - t0)/(t1 - t0),  N1 <> N0, N > 0 on [a,b], a <> b :
   int_a^b 1/N = (b - a)(ln N(b) - ln N(a)) / (N(b) - N(a))  -- the form the code evaluates *)
Theorem integral_linear_l N0 N1 t0 t1 a b :
  t1 <> t0 -> N1 <> N0 -> a <> b ->
  let N := fun t => N0 + (N1 - N0) * (t - t0) / (t1 - t0) in
  (forall x, Rmin a b <= x <= Rmax a b -> 0 < N x) ->
  is_RInt (fun t => / N t) a b ((b - a) * (ln (N b) - ln (N a)) / (N b - N a)).
Proof.
  intros Ht HN Hab N Hpos.
  set (v := (N1 - N0) / (t1 - t0)).
  assert (Hv : v <> 0).
  { unfold v. intros E. apply HN. apply Rmult_eq_compat_r with (r := t1 - t0) in E.
    unfold Rdiv in E. rewrite Rmult_assoc, Rinv_l, Rmult_1_r, Rmult_0_l in E by lra. lra. }
  assert (HNv : forall t, N t = N0 + v * (t - t0)) by (intros t; unfold N, v; field; lra).
  replace ((b - a) * (ln (N b) - ln (N a)) / (N b - N a)) with (minus (ln (N b) / v) (ln (N a) / v)).
  2:{ unfold minus, plus, opp; simpl. rewrite !HNv.
      replace (N0 + v * (b - t0) - (N0 + v * (a - t0))) with (v * (b - a)) by ring.
      field. split; [lra | exact Hv]. }
  apply (is_RInt_derive (fun t => ln (N t) / v) (fun t => / N t)).
  - intros x Hx. specialize (Hpos x Hx). unfold N, v in *. auto_derive; [exact Hpos|].
    unfold Rminus, Rdiv in *. set (D := N0 + (N1 + - N0) * (x + - t0) * / (t1 + - t0)) in *.
    field. repeat split; lra.
  - intros x Hx. specialize (Hpos x Hx).
    apply (ex_derive_continuous (fun t => / N t)). unfold N in *. auto_derive.
    unfold Rminus, Rdiv in *. lra.
Qed.

(* the flat limit N1 = N0: the integrand is the constant 1/N0 and the integral is duration / N0
   (NOT duration / the last theta) *)
Theorem integral_linear_flat_l N0 N1 t0 t1 a b : N1 = N0 ->
  is_RInt (fun t => / (N0 + (N1 - N0) * (t - t0) / (t1 - t0))) a b ((b - a) / N0).
Proof.
  intros ->.
  assert (E : forall x : R, / N0 = / (N0 + (N0 - N0) * (x - t0) / (t1 - t0))).
  { intros x. f_equal. unfold Rdiv. ring. }
  eapply is_RInt_ext; [|apply integral_const_l]. intros x _. apply E.
Qed.

(* ---- the model's piece functions ARE these integrals of 1/N, N = the model's own N ---- *)
Theorem lin_piece_is_integral_l thq th gridT (iv : ival R) :
  let j := i_g iv in
  (j < length gridT)%nat -> lin_flat thq (length gridT) j = false ->
  lk th (S j) 0 <> lk th j 0 -> g0 NumR gridT (S j) <> g0 NumR gridT j -> i_a iv <> i_b iv ->
  (forall x, Rmin (i_a iv) (i_b iv) <= x <= Rmax (i_a iv) (i_b iv) -> 0 < lin_N NumR th gridT j x) ->
  is_RInt (fun t => / lin_N NumR th gridT j t) (i_a iv) (i_b iv) (lin_piece NumR thq th gridT iv).
Proof.
  intros j Hj Hf Hth Hg Hab Hpos. unfold lin_piece. fold j. rewrite Hf.
  unfold lin_N in *. assert (E : (length gridT <=? j)%nat = false) by (apply Nat.leb_gt; exact Hj).
  rewrite E in *.
  exact (integral_linear_l (lk th j 0) (lk th (S j) 0) (g0 NumR gridT j) (g0 NumR gridT (S j))
           (i_a iv) (i_b iv) Hg Hth Hab Hpos).
Qed.

Theorem lin_piece_flat_is_integral_l thq th gridT (iv : ival R) :
  let j := i_g iv in
  lin_flat thq (length gridT) j = true ->
  ((length gridT <= j)%nat \/ lk th (S j) 0 = lk th j 0) ->
  is_RInt (fun t => / lin_N NumR th gridT j t) (i_a iv) (i_b iv) (lin_piece NumR thq th gridT iv).
Proof.
  intros j Hf H. unfold lin_piece. fold j. rewrite Hf. unfold lin_N.
  destruct (length gridT <=? j)%nat eqn:E.
  - exact (integral_const_l (lk th j 0) (i_a iv) (i_b iv)).
  - destruct H as [H|H]; [apply Nat.leb_gt in E; lia|].
    exact (integral_linear_flat_l (lk th j 0) (lk th (S j) 0) (g0 NumR gridT j) (g0 NumR gridT (S j))
             (i_a iv) (i_b iv) H).
Qed.

Theorem pe_piece_is_integral_l theta gq growth gridT (iv : ival R) :
  let j := i_g iv in
  Qeq_bool (lk gq j 0%Q) 0 = false -> lk growth j 0 <> 0 ->
  is_RInt (fun t => / exp (pe_lnN NumR (ln theta) growth gridT j t)) (i_a iv) (i_b iv)
          (pe_piece NumR (ln theta) gq growth gridT iv).
Proof.
  intros j Hq Hg. unfold pe_piece. fold j. rewrite Hq.
  set (L := pe_lnNg NumR (ln theta) growth gridT j). set (g := lk growth j 0) in *.
  set (t0 := g0 NumR gridT j).
  assert (E : forall x : R, / (exp L * exp (- g * (x - t0))) = / exp (pe_lnN NumR (ln theta) growth gridT j x)).
  { intros x. f_equal. unfold pe_lnN. cbn [Num.zero sub mul NumR]. fold L g t0. rewrite <- exp_plus. f_equal. ring. }
  eapply is_RInt_ext; [intros x _; apply E|].
  exact (integral_exp_piece_l (exp L) g t0 (i_a iv) (i_b iv) (Rgt_not_eq _ _ (exp_pos L)) Hg).
Qed.

Theorem pe_piece_flat_is_integral_l theta gq growth gridT (iv : ival R) :
  let j := i_g iv in
  Qeq_bool (lk gq j 0%Q) 0 = true -> lk growth j 0 = 0 ->
  is_RInt (fun t => / exp (pe_lnN NumR (ln theta) growth gridT j t)) (i_a iv) (i_b iv)
          (pe_piece NumR (ln theta) gq growth gridT iv).
Proof.
  intros j Hq Hg. unfold pe_piece. fold j. rewrite Hq.
  set (L := pe_lnNg NumR (ln theta) growth gridT j).
  assert (E : forall x : R, / exp L = / exp (pe_lnN NumR (ln theta) growth gridT j x)).
  { intros x. f_equal. unfold pe_lnN. cbn [Num.zero sub mul NumR]. fold L. rewrite Hg. f_equal. ring. }
  eapply is_RInt_ext; [intros x _; apply E|].
  exact (integral_const_l (exp L) (i_a iv) (i_b iv)).
Qed.

(* ================================================================== the entry points the harness runs *)
(* events built from exact inputs (time = Q2R key) meet the hypotheses of the theorems above *)
Lemma mk_events_in tips coals grid (e : ev) :
  In e (mk_events NumR tips coals grid) ->
  exists q, e = mkEv q (Q2R q) (ekind e) /\
            ((ekind e = Tip /\ In q tips) \/ (ekind e = Coal /\ In q coals) \/ (ekind e = Grid /\ In q grid)).
Proof.
  unfold mk_events. intros He. apply in_app_or in He. destruct He as [He|He]; [|apply in_app_or in He; destruct He as [He|He]];
    apply in_map_iff in He; destruct He as [q [<- Hq]]; exists q; cbn [ekind]; auto 6.
Qed.
Lemma mk_events_keys_ok tips coals grid : keys_ok (mk_events NumR tips coals grid).
Proof.
  intros a b Ha Hb. destruct (mk_events_in _ _ _ a Ha) as [qa [-> _]]. destruct (mk_events_in _ _ _ b Hb) as [qb [-> _]].
  cbn [ekey etime]. rewrite Qle_bool_iff. split; [apply Qle_Rle | apply Rle_Qle].
Qed.
Lemma mk_events_no_tie tips coals grid :
  (forall c g, In c coals -> In g grid -> ~ (c == g)%Q) -> no_tie (mk_events NumR tips coals grid).
Proof.
  intros H x y Hx Hy Ex Ey.
  destruct (mk_events_in _ _ _ x Hx) as [qx [-> Kx]]. destruct (mk_events_in _ _ _ y Hy) as [qy [-> Ky]].
  cbn [ekind etime] in *. rewrite Ex in Kx. rewrite Ey in Ky.
  destruct Kx as [[? _]|[[_ Hc]|[? _]]]; try discriminate.
  destruct Ky as [[? _]|[[? _]|[_ Hg]]]; try discriminate.
  intros E. apply (H qx qy Hc Hg). apply eqR_Qeq. exact E.
Qed.
(* for every event list with consistent keys the sorted time sequence exists (non-vacuity of the
   hypotheses "ts sorted, ts a permutation of the times") *)
Lemma sorted_times_exist (evs : list ev) : keys_ok evs ->
  exists ts, StronglySorted Rle ts /\ Permutation ts (map etime evs).
Proof.
  intros K. exists (map etime (sort_ev evs)). split; [apply ts_sorted, K | apply ts_perm].
Qed.
