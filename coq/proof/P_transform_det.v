(* C07, closing the gap between "triangular Jacobian with diagonal d_i" and "log|det J| = sum ln d_i"
   for the cumulative transforms of M_transform.v:  the Jacobian matrix is BUILT from the model's
   partial derivatives (Coquelicot's Derive of output i in input j), its entries are computed
   (is_derive, so the derivatives exist), it is lower triangular, and its determinant (Laplace
   expansion, = mathcomp's \det by P_tridet_mc.v) is the product of the diagonal; the reported
   log-determinants of CumSumTransform, CumSumExpTransform and CumSumSoftPlusTransform are
   ln |det J|. *)
From Coq Require Import QArith Reals List Lra Lia Arith.
From Coquelicot Require Import Coquelicot.
Import ListNotations.
From TT Require Import Num NumR Tree M_transform P_transform P_det_def P_tridet.
Open Scope R_scope.

(* ---- the Jacobian matrix of a map list R -> list R at a point ---- *)
Fixpoint upd (l : list R) (j : nat) (t : R) : list R :=
  match l with
  | [] => []
  | x :: r => match j with O => t :: r | S j' => x :: upd r j' t end
  end.

(* d (output i) / d (input j) at x *)
Definition partial (F : list R -> list R) (x : list R) (i j : nat) : R :=
  Derive (fun t => nth i (F (upd x j t)) 0) (nth j x 0).

Definition jacobian (F : list R -> list R) (x : list R) : list (list R) :=
  map (fun i => map (fun j => partial F x i j) (seq 0 (length x))) (seq 0 (length x)).

Lemma nth_map_seq (f : nat -> R) n k : (k < n)%nat -> nth k (map f (seq 0 n)) 0 = f k.
Proof.
  intros Hk. rewrite (nth_indep _ 0 (f 0%nat)) by (rewrite map_length, seq_length; exact Hk).
  rewrite (map_nth f (seq 0 n) 0%nat k). rewrite seq_nth by exact Hk. reflexivity.
Qed.

Lemma entry_jacobian F x i j : (i < length x)%nat -> (j < length x)%nat ->
  entry NumR (jacobian F x) i j = partial F x i j.
Proof.
  intros Hi Hj. unfold entry, jacobian. cbn [zero NumR].
  rewrite (nth_indep _ [] ((fun i => map (fun j => partial F x i j) (seq 0 (length x))) 0%nat))
    by (rewrite map_length, seq_length; exact Hi).
  rewrite (map_nth (fun i => map (fun j => partial F x i j) (seq 0 (length x))) (seq 0 (length x)) 0%nat i).
  rewrite seq_nth by exact Hi. cbn [plus]. apply nth_map_seq. exact Hj.
Qed.

(* ---- how a cumulative sum depends on one input ---- *)
Lemma upd_same : forall l j, upd l j (nth j l 0) = l.
Proof. induction l as [|x l IH]; intros [|j]; cbn; try reflexivity. rewrite IH. reflexivity. Qed.
Lemma upd_length : forall l j t, length (upd l j t) = length l.
Proof. induction l as [|x l IH]; intros [|j] t; cbn; try reflexivity. rewrite IH. reflexivity. Qed.

Lemma cumsum_from_length : forall l acc, length (cumsum_from NumR acc l) = length l.
Proof. induction l as [|x l IH]; intros acc; cbn; [reflexivity|]. rewrite IH. reflexivity. Qed.

Lemma cumsum_from_shift : forall l acc d i, (i < length l)%nat ->
  nth i (cumsum_from NumR (acc + d) l) 0 = nth i (cumsum_from NumR acc l) 0 + d.
Proof.
  induction l as [|x l IH]; intros acc d i Hi; cbn [length] in Hi; [lia|].
  cbn [cumsum_from add NumR]. destruct i as [|i]; cbn [nth]; [lra|].
  replace (acc + d + x) with (acc + x + d) by lra. apply IH. lia.
Qed.

(* inputs after position i do not enter output i *)
Lemma cumsum_from_upd_above : forall l acc j i t, (i < j)%nat ->
  nth i (cumsum_from NumR acc (upd l j t)) 0 = nth i (cumsum_from NumR acc l) 0.
Proof.
  induction l as [|x l IH]; intros acc j i t Hij; [reflexivity|].
  destruct j as [|j]; [lia|]. cbn [upd cumsum_from]. destruct i as [|i]; cbn [nth]; [reflexivity|].
  apply IH. lia.
Qed.

(* input j <= i enters output i additively *)
Lemma cumsum_from_upd_below : forall l acc j i t, (j <= i < length l)%nat ->
  nth i (cumsum_from NumR acc (upd l j t)) 0 = nth i (cumsum_from NumR acc l) 0 - nth j l 0 + t.
Proof.
  induction l as [|x l IH]; intros acc j i t Hij; cbn [length] in Hij; [lia|].
  destruct j as [|j].
  - cbn [upd cumsum_from add NumR nth]. destruct i as [|i]; cbn [nth]; [lra|].
    replace (acc + t) with (acc + x + (t - x)) by lra. rewrite (cumsum_from_shift l (acc + x) (t - x) i) by lia. lra.
  - destruct i as [|i]; [lia|]. cbn [upd cumsum_from nth]. apply IH. lia.
Qed.

Section Cumulative.
Variables (g g' : R -> R).
Hypothesis Hg : forall z, is_derive g z (g' z).
Definition cumF (x : list R) : list R := map g (cumsum NumR x).

Lemma nth_cumF x i : (i < length x)%nat -> nth i (cumF x) 0 = g (nth i (cumsum NumR x) 0).
Proof.
  intros Hi. unfold cumF. rewrite (nth_indep _ 0 (g 0)) by (rewrite map_length; unfold cumsum; rewrite cumsum_from_length; exact Hi).
  apply map_nth.
Qed.

(* every entry of the Jacobian: d y_i / d x_j = g'(c_i) for j <= i, 0 above the diagonal *)
Theorem cumulative_partial x i j : (i < length x)%nat -> (j < length x)%nat ->
  is_derive (fun t => nth i (cumF (upd x j t)) 0) (nth j x 0)
            (if (j <=? i)%nat then g' (nth i (cumsum NumR x) 0) else 0).
Proof.
  intros Hi Hj. destruct (Nat.leb_spec j i) as [Hji|Hij].
  - set (K := nth i (cumsum NumR x) 0 - nth j x 0).
    apply (is_derive_ext (fun t => g (K + t))).
    + intros t. rewrite nth_cumF by (rewrite upd_length; exact Hi). unfold cumsum.
      rewrite cumsum_from_upd_below by lia. unfold K, cumsum. f_equal; lra.
    + replace (nth i (cumsum NumR x) 0) with (K + nth j x 0) by (unfold K; lra).
      apply cumulative_diagonal. exact Hg.
  - apply (is_derive_ext (fun _ => g (nth i (cumsum NumR x) 0))).
    + intros t. rewrite nth_cumF by (rewrite upd_length; exact Hi). unfold cumsum.
      rewrite cumsum_from_upd_above by lia. reflexivity.
    + apply @is_derive_const.
Qed.

Lemma cumulative_entry x i j : (i < length x)%nat -> (j < length x)%nat ->
  entry NumR (jacobian cumF x) i j = if (j <=? i)%nat then g' (nth i (cumsum NumR x) 0) else 0.
Proof.
  intros Hi Hj. rewrite entry_jacobian by assumption. unfold partial.
  apply is_derive_unique. apply cumulative_partial; assumption.
Qed.

Lemma cumulative_diag x : diagonal (length x) (jacobian cumF x) = map g' (cumsum NumR x).
Proof.
  unfold diagonal.
  rewrite (map_ext_in _ (fun i => g' (nth i (cumsum NumR x) 0))).
  - assert (L : length (cumsum NumR x) = length x) by (unfold cumsum; apply cumsum_from_length).
    rewrite <- L. generalize (cumsum NumR x). intros c.
    induction c as [|a c IH]; [reflexivity|]. cbn [length seq map nth]. f_equal.
    rewrite <- seq_shift, map_map. exact IH.
  - intros i Hi. apply in_seq in Hi. rewrite cumulative_entry by lia. rewrite Nat.leb_refl. reflexivity.
Qed.

(* det J = product of the g'(c_i) *)
Theorem cumulative_det x :
  ldet NumR (length x) (jacobian cumF x) = rprod (map g' (cumsum NumR x)).
Proof.
  rewrite ldet_lower_triangular.
  - rewrite cumulative_diag. reflexivity.
  - intros i j Hij. rewrite cumulative_entry by lia.
    destruct (Nat.leb_spec j i); [lia|reflexivity].
Qed.

(* log |det J| = sum of ln g'(c_i) when the diagonal is positive *)
Theorem cumulative_logabsdet x : (forall z, 0 < g' z) ->
  ln (Rabs (ldet NumR (length x) (jacobian cumF x))) = rsum (map ln (map g' (cumsum NumR x))).
Proof.
  intros Hp. rewrite cumulative_det. apply ln_rprod.
  apply Forall_forall. intros d Hd. apply in_map_iff in Hd. destruct Hd as (z & <- & _). apply Hp.
Qed.
End Cumulative.

Lemma nsum_rsum l : nsum NumR l = rsum l.
Proof. induction l as [|a l IH]; cbn; [reflexivity|]. rewrite <- IH. reflexivity. Qed.

(* ---- the three transforms of the model ---- *)
(* CumSumTransform: report 0 *)
Theorem cumsum_logdet_is_logabsdet x :
  cumsum_logdet NumR x = ln (Rabs (ldet NumR (length x) (jacobian (cumsum_fwd NumR) x))).
Proof.
  assert (E : jacobian (cumsum_fwd NumR) x = jacobian (cumF (fun z => z)) x).
  { unfold jacobian, partial, cumF, cumsum_fwd. apply map_ext. intros i. apply map_ext. intros j.
    apply Derive_ext. intros t. rewrite map_id. reflexivity. }
  rewrite E. rewrite (cumulative_logabsdet (fun z => z) (fun _ => 1)).
  - unfold cumsum_logdet. cbn [zero NumR]. generalize (cumsum NumR x). intros c.
    induction c as [|a c IH]; cbn [map rsum]; [reflexivity|]. rewrite <- IH, ln_1. lra.
  - intros z. apply @is_derive_id.
  - intros; lra.
Qed.

(* CumSumExpTransform: report sum of the cumulative sums *)
Theorem cumsumexp_logdet_is_logabsdet x :
  cumsumexp_logdet NumR x = ln (Rabs (ldet NumR (length x) (jacobian (cumsumexp_fwd NumR) x))).
Proof.
  change (cumsumexp_fwd NumR) with (cumF (nexp NumR)).
  rewrite (cumulative_logabsdet (nexp NumR) (nexp NumR)).
  - unfold cumsumexp_logdet. rewrite nsum_rsum. rewrite map_map. f_equal.
    rewrite <- (map_id (cumsum NumR x)) at 1. apply map_ext. intros z. cbn. symmetry. apply ln_exp.
  - exact exp_derive.
  - intros z. cbn. apply exp_pos.
Qed.

(* CumSumSoftPlusTransform: report sum of log_sigmoid of the cumulative sums *)
Lemma sigmoid_pos z : 0 < sigmoid NumR z.
Proof. unfold sigmoid; cbn. pose proof (exp_pos (- z)). apply Rdiv_lt_0_compat; lra. Qed.

Theorem cumsumsoftplus_logdet_is_logabsdet x :
  cumsumsoftplus_logdet NumR x
  = ln (Rabs (ldet NumR (length x) (jacobian (cumsumsoftplus_fwd NumR) x))).
Proof.
  change (cumsumsoftplus_fwd NumR) with (cumF (softplus NumR)).
  rewrite (cumulative_logabsdet (softplus NumR) (sigmoid NumR)).
  - unfold cumsumsoftplus_logdet. rewrite nsum_rsum. rewrite map_map. f_equal.
    apply map_ext. intros z. apply log_sigmoid_is_ln_sigmoid.
  - exact softplus_derive.
  - exact sigmoid_pos.
Qed.

Print Assumptions cumulative_partial.
Print Assumptions cumulative_det.
Print Assumptions cumsum_logdet_is_logabsdet.
Print Assumptions cumsumexp_logdet_is_logabsdet.
Print Assumptions cumsumsoftplus_logdet_is_logabsdet.
