From Coq Require Import QArith Reals List Lra Lia Arith.
Import ListNotations.
From TT Require Import Num NumR Tree M_height.
Open Scope R_scope.

Section HeightR.
Variable n : nat.
Variable times : list R.
Notation bound := (bound NumR times).
Notation time_of := (time_of NumR times).

Fixpoint wf_order (ht : htree R) : Prop :=
  match ht with
  | HLeaf _ _ => True
  | HNode _ h l r => hh l <= h /\ hh r <= h /\ wf_order l /\ wf_order r
  end.
Fixpoint tips_at (ht : htree R) : Prop :=
  match ht with
  | HLeaf i h => h = time_of i
  | HNode _ _ l r => tips_at l /\ tips_at r
  end.
Fixpoint same_shape (t : itree) (ht : htree R) : Prop :=
  match t, ht with
  | ILeaf i, HLeaf j _ => i = j
  | INode i l r, HNode j _ hl hr => i = j /\ same_shape l hl /\ same_shape r hr
  | _, _ => False
  end.
Fixpoint ipre (t : itree) : list nat :=
  match t with ILeaf _ => [] | INode i l r => i :: ipre l ++ ipre r end.

Lemma bound_node i l r : bound (INode i l r) = Rmax (bound l) (bound r).
Proof. reflexivity. Qed.

(* ---------------- ratio transform ---------------- *)
Section Ratio.
Variable x : list R.
Notation x_of := (x_of NumR n x).
Notation fwd := (ratio_fwd NumR n times x).

Lemma ratio_fwd_below t : forall hp,
  bound t <= hp ->
  (forall i, In i (ipre t) -> 0 <= x_of i <= 1) ->
  bound t <= hh (fwd (Some hp) t) <= hp /\ wf_order (fwd (Some hp) t) /\ tips_at (fwd (Some hp) t)
  /\ same_shape t (fwd (Some hp) t).
Proof.
  induction t as [i|i l IHl r IHr]; intros hp Hb Hx.
  - cbn. repeat split; try lra; exact Hb.
  - cbn [ratio_fwd]. change (bound (INode i l r)) with (Rmax (bound l) (bound r)) in *.
    cbn [add sub mul nmax NumR].
    remember (Rmax (bound l) (bound r)) as b eqn:Hbe.
    remember (b + x_of i * (hp - b)) as h eqn:Hhe.
    assert (Hxi : 0 <= x_of i <= 1) by (apply Hx; cbn; auto).
    assert (Hh : b <= h <= hp) by (subst h; split; nra).
    assert (Hbl : bound l <= h) by (pose proof (Rmax_l (bound l) (bound r)); lra).
    assert (Hbr : bound r <= h) by (pose proof (Rmax_r (bound l) (bound r)); lra).
    destruct (IHl h Hbl) as (Hl1 & Hl2 & Hl3 & Hl4).
    { intros j Hj. apply Hx. cbn. right. apply in_or_app; auto. }
    destruct (IHr h Hbr) as (Hr1 & Hr2 & Hr3 & Hr4).
    { intros j Hj. apply Hx. cbn. right. apply in_or_app; auto. }
    cbn [hh wf_order tips_at same_shape].
    repeat split; try tauto; lra.
Qed.

Lemma ratio_fwd_valid_l i l r :
  bound (INode i l r) <= x_of i ->
  (forall j, In j (ipre l ++ ipre r) -> 0 <= x_of j <= 1) ->
  let ht := fwd None (INode i l r) in
  wf_order ht /\ tips_at ht /\ same_shape (INode i l r) ht /\ hh ht = x_of i.
Proof.
  intros Hb Hx. cbn [ratio_fwd]. change (bound (INode i l r)) with (Rmax (bound l) (bound r)) in Hb.
  assert (Hbl : bound l <= x_of i) by (pose proof (Rmax_l (bound l) (bound r)); lra).
  assert (Hbr : bound r <= x_of i) by (pose proof (Rmax_r (bound l) (bound r)); lra).
  destruct (ratio_fwd_below l (x_of i) Hbl) as (Hl1 & Hl2 & Hl3 & Hl4).
  { intros j Hj. apply Hx. apply in_or_app; auto. }
  destruct (ratio_fwd_below r (x_of i) Hbr) as (Hr1 & Hr2 & Hr3 & Hr4).
  { intros j Hj. apply Hx. apply in_or_app; auto. }
  cbn [hh wf_order tips_at same_shape]. repeat split; try tauto; lra.
Qed.

(* inverse after forward, below a parent strictly above the bound, ratios strictly positive *)
Lemma ratio_roundtrip_below t : forall hp,
  bound t < hp ->
  (forall i, In i (ipre t) -> 0 < x_of i) ->
  ratio_inv NumR times (Some hp) t (fwd (Some hp) t) = map (fun i => (i, x_of i)) (ipre t)
  /\ (forall i l r, t = INode i l r -> bound t < hh (fwd (Some hp) t)).
Proof.
  induction t as [i|i l IHl r IHr]; intros hp Hb Hx.
  - cbn. split; [reflexivity|]. intros; discriminate.
  - cbn [ratio_fwd ratio_inv ipre map]. change (bound (INode i l r)) with (Rmax (bound l) (bound r)) in *.
    cbn [add sub mul div nmax NumR].
    remember (Rmax (bound l) (bound r)) as b eqn:Hbe.
    remember (b + x_of i * (hp - b)) as h eqn:Hhe.
    assert (Hxi : 0 < x_of i) by (apply Hx; cbn; auto).
    assert (Hh : b < h) by (subst h; nra).
    assert (Hbl : bound l < h) by (pose proof (Rmax_l (bound l) (bound r)); lra).
    assert (Hbr : bound r < h) by (pose proof (Rmax_r (bound l) (bound r)); lra).
    destruct (IHl h Hbl) as [El _].
    { intros j Hj. apply Hx. cbn. right. apply in_or_app; auto. }
    destruct (IHr h Hbr) as [Er _].
    { intros j Hj. apply Hx. cbn. right. apply in_or_app; auto. }
    split.
    + rewrite El, Er, map_app. f_equal. f_equal. subst h. field. lra.
    + intros i' l' r' E. cbn [hh]. exact Hh.
Qed.

Lemma ratio_roundtrip_l i l r :
  bound (INode i l r) < x_of i ->
  (forall j, In j (ipre l ++ ipre r) -> 0 < x_of j) ->
  ratio_inv NumR times None (INode i l r) (fwd None (INode i l r))
  = map (fun j => (j, x_of j)) (ipre (INode i l r)).
Proof.
  intros Hb Hx. cbn [ratio_fwd ratio_inv ipre map]. change (bound (INode i l r)) with (Rmax (bound l) (bound r)) in Hb.
  assert (Hbl : bound l < x_of i) by (pose proof (Rmax_l (bound l) (bound r)); lra).
  assert (Hbr : bound r < x_of i) by (pose proof (Rmax_r (bound l) (bound r)); lra).
  destruct (ratio_roundtrip_below l (x_of i) Hbl) as [El _].
  { intros j Hj. apply Hx. apply in_or_app; auto. }
  destruct (ratio_roundtrip_below r (x_of i) Hbr) as [Er _].
  { intros j Hj. apply Hx. apply in_or_app; auto. }
  rewrite El, Er, map_app. reflexivity.
Qed.
End Ratio.

(* ---------------- increment transform ---------------- *)
Section Diff.
Variable x : list R.
Notation dx := (fun i => lk x (nsub i n) 0).

Lemma diff_fwd_valid_l t :
  (forall i, In i (iinternals t) -> 0 <= dx i) ->
  wf_order (diff_fwd NumR n times x t) /\ tips_at (diff_fwd NumR n times x t)
  /\ same_shape t (diff_fwd NumR n times x t).
Proof.
  induction t as [i|i l IHl r IHr]; intros Hx.
  - cbn. auto.
  - cbn [diff_fwd]. cbn zeta.
    destruct IHl as (L1 & L2 & L3). { intros j Hj. apply Hx. cbn. apply in_or_app; auto. }
    destruct IHr as (R1 & R2 & R3).
    { intros j Hj. apply Hx. cbn. apply in_or_app; right. apply in_or_app; auto. }
    assert (Hi : 0 <= dx i).
    { apply Hx. cbn. apply in_or_app; right. apply in_or_app; right. cbn; auto. }
    cbn [wf_order tips_at same_shape hh]. cbn [add nmax NumR zero].
    set (a := hh (diff_fwd NumR n times x l)) in *.
    set (b := hh (diff_fwd NumR n times x r)) in *.
    pose proof (Rmax_l a b). pose proof (Rmax_r a b).
    repeat split; try tauto; cbn in Hi; lra.
Qed.

Lemma diff_roundtrip_l t :
  diff_inv NumR (diff_fwd NumR n times x t) = map (fun i => (i, dx i)) (iinternals t).
Proof.
  induction t as [i|i l IHl r IHr]; [reflexivity|].
  cbn [diff_fwd]. cbn zeta. cbn [diff_inv iinternals]. rewrite IHl, IHr, !map_app. cbn [map].
  f_equal. f_equal. f_equal. f_equal. cbn. ring.
Qed.
End Diff.

(* heights -> increments -> heights: the other direction, stated on the tree of heights *)
Fixpoint heights_consistent (ht : htree R) : Prop :=
  match ht with HLeaf i h => h = time_of i | HNode _ _ l r => heights_consistent l /\ heights_consistent r end.

(* ---------------- branch lengths ---------------- *)
Lemma hbranches_nonneg ht :
  wf_order ht -> Forall (fun p => 0 <= snd p) (hbranches NumR ht).
Proof.
  induction ht as [i h|i h l IHl r IHr]; intros Hw; cbn [hbranches]; [constructor|].
  destruct Hw as (Hl & Hr & Wl & Wr).
  constructor.
  - destruct l; cbn in *; lra.
  - apply Forall_app; split; [apply IHl; assumption|].
    constructor; [destruct r; cbn in *; lra | apply IHr; assumption].
Qed.

(* every entry of hbranches is (child index, parent height - child height): by definition; the
   statement below makes the reading explicit *)
Fixpoint edges (ht : htree R) : list (nat * R * R) :=   (* child index, parent h, child h *)
  match ht with
  | HLeaf _ _ => []
  | HNode _ h l r =>
      (match l with HLeaf i hl => (i, h, hl) | HNode i hl _ _ => (i, h, hl) end) :: edges l ++
      (match r with HLeaf i hr => (i, h, hr) | HNode i hr _ _ => (i, h, hr) end) :: edges r
  end.
Lemma hbranches_are_differences ht :
  hbranches NumR ht = map (fun e => (fst (fst e), snd (fst e) - snd e)) (edges ht).
Proof.
  induction ht as [i h|i h l IHl r IHr]; [reflexivity|].
  cbn [hbranches edges]. rewrite IHl, IHr. cbn [map]. rewrite map_app. cbn [map].
  destruct l, r; reflexivity.
Qed.

End HeightR.
