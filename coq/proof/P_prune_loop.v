(* C01: the array loop of the code (regenerated update expression, mutable list of partials, post-order
   triples) computes the structural pruning recursion [prune] of M_like.v, which P_like.v proves equal
   to the explicit marginalisation.  For ANY number type, any tree with a sound node numbering. *)
From Coq Require Import List Arith Lia Bool.
Import ListNotations.
From TT Require Import Num Tree M_like M_prune_loop G_prune.

(* ---- NoDup over concatenations (not in the 8.16 standard library under these names) ---- *)
Lemma nodup_app_l {A} (a b : list A) : NoDup (a ++ b) -> NoDup a.
Proof.
  induction a as [|x a IH]; intro H; [constructor|]. cbn in H. inversion H as [|? ? Hn Hd]; subst.
  constructor; [intro Hx; apply Hn; apply in_or_app; left; exact Hx | exact (IH Hd)].
Qed.
Lemma nodup_app_r {A} (a b : list A) : NoDup (a ++ b) -> NoDup b.
Proof. induction a as [|x a IH]; intro H; [exact H|]. cbn in H. inversion H; subst. auto. Qed.
Lemma nodup_app_disj {A} (a b : list A) : NoDup (a ++ b) -> forall x, In x a -> ~ In x b.
Proof.
  induction a as [|y a IH]; intros H x Hx Hy; [destruct Hx|].
  cbn in H. inversion H as [|? ? Hn Hd]; subst. destruct Hx as [Hx|Hx].
  - subst. apply Hn. apply in_or_app. right. exact Hy.
  - exact (IH Hd x Hx Hy).
Qed.
Lemma nodup_app_intro {A} (a b : list A) :
  NoDup a -> NoDup b -> (forall x, In x a -> ~ In x b) -> NoDup (a ++ b).
Proof.
  induction a as [|y a IH]; intros Ha Hb Hd; [exact Hb|]. cbn. inversion Ha as [|? ? Hn Ha']; subst.
  constructor.
  - intro Hx. apply in_app_or in Hx. destruct Hx as [Hx|Hx]; [exact (Hn Hx) | exact (Hd y (or_introl eq_refl) Hx)].
  - apply IH; [exact Ha' | exact Hb | intros x Hx; apply Hd; right; exact Hx].
Qed.

(* ---- generic: a loop whose update combines the two children's entries computes the fold over the tree ---- *)
Definition wfi (t : itree) : Prop :=
  NoDup (iinternals t) /\ forall x, In x (iinternals t) -> ~ In x (ileaves t).

Lemma iidx_in t : In (iidx t) (ileaves t) \/ In (iidx t) (iinternals t).
Proof.
  destruct t as [i|i l r]; cbn; [left; left; reflexivity|].
  right. rewrite !in_app_iff. right. right. left. reflexivity.
Qed.

Lemma wfi_node i l r : wfi (INode i l r) ->
  wfi l /\ wfi r /\ ~ In i (iinternals l) /\ ~ In i (iinternals r) /\ ~ In i (ileaves l) /\ ~ In i (ileaves r)
  /\ (forall x, In x (iinternals l) -> ~ In x (iinternals r) /\ ~ In x (ileaves r))
  /\ (forall x, In x (iinternals r) -> ~ In x (iinternals l) /\ ~ In x (ileaves l)).
Proof.
  intros [Hnd Hdis]. cbn [iinternals ileaves] in *.
  assert (Hl : NoDup (iinternals l)) by exact (nodup_app_l _ _ Hnd).
  assert (Hr' : NoDup (iinternals r ++ [i])) by exact (nodup_app_r _ _ Hnd).
  assert (Hr : NoDup (iinternals r)) by exact (nodup_app_l _ _ Hr').
  assert (Hlr : forall x, In x (iinternals l) -> ~ In x (iinternals r ++ [i]))
    by exact (nodup_app_disj _ _ Hnd).
  assert (Hir : ~ In i (iinternals r)).
  { intro Hx. exact (nodup_app_disj _ _ Hr' i Hx (or_introl eq_refl)). }
  repeat split.
  - exact Hl.
  - intros x Hx Hy. apply (Hdis x); [rewrite !in_app_iff; left; exact Hx | rewrite in_app_iff; left; exact Hy].
  - exact Hr.
  - intros x Hx Hy. apply (Hdis x); [rewrite !in_app_iff; right; left; exact Hx | rewrite in_app_iff; right; exact Hy].
  - intro Hx. apply (Hlr i Hx). apply in_or_app. right. left. reflexivity.
  - exact Hir.
  - intro Hx. apply (Hdis i); [rewrite !in_app_iff; right; right; left; reflexivity | rewrite in_app_iff; left; exact Hx].
  - intro Hx. apply (Hdis i); [rewrite !in_app_iff; right; right; left; reflexivity | rewrite in_app_iff; right; exact Hx].
  - intro Hy. apply (Hlr x H). apply in_or_app. left. exact Hy.
  - intro Hy. apply (Hdis x); [rewrite !in_app_iff; left; exact H | rewrite in_app_iff; right; exact Hy].
  - intro Hy. apply (Hlr x Hy). apply in_or_app. left. exact H.
  - intro Hy. apply (Hdis x); [rewrite !in_app_iff; right; left; exact H | rewrite in_app_iff; left; exact Hy].
Qed.

Lemma loop_app {A} (u : (nat -> A) -> nat -> nat -> nat -> A) p q a :
  loop u (p ++ q) a = loop u q (loop u p a).
Proof. unfold loop. apply fold_left_app. Qed.

Section Generic.
Context {A : Type}.
Variable f : nat -> nat -> nat -> A -> A -> A.    (* node, left index, right index, left entry, right entry *)
Variable update : (nat -> A) -> nat -> nat -> nat -> A.
(* [Inv]: a property of the entries under which the update is the combination f (e.g. "one vector per rate
   category"); it must hold of the tips and be preserved by f.  Take [fun _ => True] when none is needed. *)
Variable Inv : A -> Prop.
Hypothesis Hinv : forall node lf rt x y, Inv x -> Inv y -> Inv (f node lf rt x y).
Hypothesis Hupd : forall a node lf rt, Inv (a lf) -> Inv (a rt) -> update a node lf rt = f node lf rt (a lf) (a rt).

Fixpoint recf (tip : nat -> A) (t : itree) : A :=
  match t with
  | ILeaf i => tip i
  | INode i l r => f i (iidx l) (iidx r) (recf tip l) (recf tip r)
  end.

Lemma recf_inv (tip : nat -> A) : (forall i, Inv (tip i)) -> forall t, Inv (recf tip t).
Proof. intros Ht. induction t as [i|i l IHl r IHr]; cbn; [apply Ht | apply Hinv; assumption]. Qed.

Lemma loop_recf (tip : nat -> A) (Htip : forall i, Inv (tip i)) : forall t a,
  wfi t -> (forall i, In i (ileaves t) -> a i = tip i) ->
  let a' := loop update (postorder t) a in
  a' (iidx t) = recf tip t /\ (forall j, ~ In j (iinternals t) -> a' j = a j).
Proof.
  induction t as [i|i l IHl r IHr]; intros a Hw Hleaf.
  - cbn. split; [apply Hleaf; left; reflexivity | reflexivity].
  - cbn zeta. cbn [postorder]. rewrite !loop_app.
    destruct (wfi_node i l r Hw) as [Hwl [Hwr [Hil [Hir [Hill [Hilr [Hlr Hrl]]]]]]].
    specialize (IHl a Hwl). cbn zeta in IHl.
    destruct IHl as [Pl Ul]; [intros j Hj; apply Hleaf; cbn; apply in_or_app; left; exact Hj|].
    set (a1 := loop update (postorder l) a) in *.
    specialize (IHr a1 Hwr). cbn zeta in IHr.
    destruct IHr as [Pr Ur].
    { intros j Hj. rewrite Ul.
      - apply Hleaf. cbn. apply in_or_app. right. exact Hj.
      - intro Hx. exact (proj2 (Hlr j Hx) Hj). }
    set (a2 := loop update (postorder r) a1) in *.
    assert (Pl2 : a2 (iidx l) = recf tip l).
    { rewrite Ur; [exact Pl|]. intro Hx.
      destruct (iidx_in l) as [Hy|Hy]; [exact (proj2 (Hrl _ Hx) Hy) | exact (proj1 (Hrl _ Hx) Hy)]. }
    split.
    + unfold loop. cbn [fold_left]. unfold upd. rewrite Nat.eqb_refl.
      fold (loop update (postorder r) a1). fold a2.
      rewrite Hupd by (rewrite ?Pl2, ?Pr; apply recf_inv; exact Htip).
      cbn [recf]. rewrite Pl2, Pr. reflexivity.
    + intros j Hj. cbn [iinternals] in Hj. rewrite !in_app_iff in Hj.
      unfold loop. cbn [fold_left]. unfold upd. cbv beta. destruct (Nat.eqb j i) eqn:E.
      * apply Nat.eqb_eq in E. subst. exfalso. apply Hj. right. right. left. reflexivity.
      * fold (loop update (postorder r) a1). fold a2.
        rewrite Ur by (intro Hx; apply Hj; right; left; exact Hx).
        apply Ul. intro Hx. apply Hj. left. exact Hx.
Qed.
End Generic.

Section Loop.
Context {T : Type} (N : Num T).

(* the regenerated update IS the pruning step *)
Lemma g_update_is_step (mats : nat -> mat) (a : nat -> vec) node lf rt :
  g_update N mats a node lf rt = vmul N (matvec N (mats lf) (a lf)) (matvec N (mats rt) (a rt)).
Proof. reflexivity. Qed.

(* the structural recursion [prune] is the generic fold with the pruning step *)
Lemma recf_is_prune (mats : nat -> mat) (tip : nat -> vec) t :
  recf (fun _ lf rt x y => vmul N (matvec N (mats lf) x) (matvec N (mats rt) y)) tip t = prune N mats tip t.
Proof. induction t as [i|i l IHl r IHr]; cbn; [reflexivity|]. rewrite IHl, IHr. reflexivity. Qed.

Lemma loop_prune (mats : nat -> mat) (tip : nat -> vec) : forall t a,
  wfi t -> (forall i, In i (ileaves t) -> a i = tip i) ->
  let a' := loop (g_update N mats) (postorder t) a in
  a' (iidx t) = prune N mats tip t /\ (forall j, ~ In j (iinternals t) -> a' j = a j).
Proof.
  intros t a Hw Hl. rewrite <- recf_is_prune.
  apply (loop_recf (fun _ lf rt x y => vmul N (matvec N (mats lf) x) (matvec N (mats rt) y))
                   (g_update N mats) (fun _ => True)); [auto | | auto | exact Hw | exact Hl].
  intros. apply g_update_is_step.
Qed.

Theorem loop_computes_prune mats tip t a :
  wfi t -> (forall i, In i (ileaves t) -> a i = tip i) ->
  loop (g_update N mats) (postorder t) a (iidx t) = prune N mats tip t.
Proof. intros Hw Hl. exact (proj1 (loop_prune mats tip t a Hw Hl)). Qed.

(* the entry the code reads at the end, post_indexing[-1][0], is the root *)
Lemma root_of_last_postorder i l r : root_of_last (postorder (INode i l r)) = i.
Proof.
  unfold root_of_last. cbn [postorder]. rewrite app_assoc. rewrite last_last. reflexivity.
Qed.

End Loop.

(* ---- the numbering produced by setup_indexes is sound ---- *)
Lemma index_from_spec : forall t next it nx,
  index_from t next = (it, nx) ->
  next <= nx /\ (forall x, In x (iinternals it) -> next <= x < nx) /\ NoDup (iinternals it)
  /\ ileaves it = (fix lv (t : tree) := match t with Leaf i => [i] | Node l r => lv l ++ lv r end) t.
Proof.
  induction t as [i|l IHl r IHr]; intros next it nx H; cbn in H.
  - inversion H; subst. cbn. repeat split; try lia; try constructor.
  - destruct (index_from l next) as [il n1] eqn:El. destruct (index_from r n1) as [ir n2] eqn:Er.
    inversion H; subst. clear H.
    destruct (IHl _ _ _ El) as [L1 [L2 [L3 L4]]]. destruct (IHr _ _ _ Er) as [R1 [R2 [R3 R4]]].
    cbn [iinternals ileaves]. repeat split.
    + lia.
    + rewrite !in_app_iff in H. destruct H as [Hx|[Hx|[Hx|[]]]].
      * specialize (L2 x Hx). lia.
      * specialize (R2 x Hx). lia.
      * subst. lia.
    + rewrite !in_app_iff in H. destruct H as [Hx|[Hx|[Hx|[]]]].
      * specialize (L2 x Hx). lia.
      * specialize (R2 x Hx). lia.
      * subst. lia.
    + apply nodup_app_intro; [exact L3| |].
      * apply nodup_app_intro; [exact R3 | repeat constructor; intros [] |].
        intros x Hx [Hy|[]]. subst. specialize (R2 _ Hx). lia.
      * intros x Hx Hy. rewrite in_app_iff in Hy. specialize (L2 x Hx). destruct Hy as [Hy|[Hy|[]]].
        -- specialize (R2 x Hy). lia.
        -- subst. lia.
    + rewrite L4, R4. reflexivity.
Qed.

Fixpoint tlabels (t : tree) : list nat :=
  match t with Leaf i => [i] | Node l r => tlabels l ++ tlabels r end.

(* leaves are numbered by taxon position (< number of taxa), internal nodes from the number of taxa
   upwards in post-order: the numbering is sound *)
Lemma index_tree_wfi t : (forall i, In i (tlabels t) -> i < leaves t) -> wfi (index_tree t).
Proof.
  intros Hlab. unfold index_tree. destruct (index_from t (leaves t)) as [it nx] eqn:E. cbn [fst].
  destruct (index_from_spec _ _ _ _ E) as [_ [Hin [Hnd Hlv]]].
  split; [exact Hnd|]. intros x Hx Hy. specialize (Hin x Hx).
  assert (Hl : ileaves it = tlabels t) by exact Hlv. rewrite Hl in Hy. specialize (Hlab x Hy). lia.
Qed.

(* the tip-STATE loop is the tip-partial loop on the tip messages: whenever, for the children that are
   tips, the matrix-vector product equals the column selected by the tip state (P_like:
   tip_state_is_indicator / tip_unknown_is_ones), both regenerated updates coincide *)
Lemma g_update_states_eq {T} (N : Num T) S tc (mats : nat -> mat) (states : nat -> nat) (a : nat -> vec) node lf rt :
  (lf < tc -> matvec N (mats lf) (a lf) = tip_message_state N S (mats lf) (states lf)) ->
  (rt < tc -> matvec N (mats rt) (a rt) = tip_message_state N S (mats rt) (states rt)) ->
  g_update_states N S tc mats states a node lf rt = g_update N mats a node lf rt.
Proof.
  intros Hl Hr. unfold g_update_states, g_update.
  destruct (Nat.ltb lf tc) eqn:El; destruct (Nat.ltb rt tc) eqn:Er;
    try (apply Nat.ltb_lt in El); try (apply Nat.ltb_lt in Er);
    try rewrite (Hl El); try rewrite (Hr Er); reflexivity.
Qed.
