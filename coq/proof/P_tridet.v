(* det(triangular) = product of the diagonal, for real matrices given as lists of rows.
   [ldet] (P_det_def.v) is the Laplace expansion along the first row; P_tridet_mc.v proves that the same
   polymorphic definition is mathcomp's \det on every commutative ring.  This closes the step
   "the Jacobian is triangular with diagonal d_i  ==>  log|det J| = sum ln d_i" of C07. *)
From Coq Require Import Reals List Lra Lia Arith.
Import ListNotations.
From TT Require Import Num NumR P_det_def.
Open Scope R_scope.

Fixpoint rprod (l : list R) : R := match l with [] => 1 | x :: r => x * rprod r end.
Fixpoint rsum (l : list R) : R := match l with [] => 0 | x :: r => x + rsum r end.

Notation entryR := (entry NumR).
Notation ldetR := (ldet NumR).

(* the diagonal of the leading n x n block *)
Definition diagonal (n : nat) (m : list (list R)) : list R := map (fun i => entryR m i i) (seq 0 n).

(* a matrix given by its entries *)
Definition tabulate (n : nat) (f : nat -> nat -> R) : list (list R) :=
  map (fun i => map (fun j => f i j) (seq 0 n)) (seq 0 n).
Lemma nth_map_seq0 (f : nat -> R) n k : (k < n)%nat -> nth k (map f (seq 0 n)) 0 = f k.
Proof.
  intros Hk. rewrite (nth_indep _ 0 (f 0%nat)) by (rewrite map_length, seq_length; exact Hk).
  rewrite (map_nth f (seq 0 n) 0%nat k). rewrite seq_nth by exact Hk. reflexivity.
Qed.
Lemma entry_tabulate n f i j : (i < n)%nat -> (j < n)%nat -> entryR (tabulate n f) i j = f i j.
Proof.
  intros Hi Hj. unfold entry, tabulate. cbn [zero NumR].
  rewrite (nth_indep _ [] ((fun i => map (fun j => f i j) (seq 0 n)) 0%nat))
    by (rewrite map_length, seq_length; exact Hi).
  rewrite (map_nth (fun i => map (fun j => f i j) (seq 0 n)) (seq 0 n) 0%nat i).
  rewrite seq_nth by exact Hi. cbn [plus]. apply nth_map_seq0. exact Hj.
Qed.
Lemma map_nth_seq (d : list R) : map (fun i => nth i d 0) (seq 0 (length d)) = d.
Proof.
  induction d as [|a d IH]; [reflexivity|]. cbn [length seq map nth]. f_equal.
  rewrite <- seq_shift, map_map. exact IH.
Qed.

Lemma nsum_zero (f : nat -> R) l : (forall j, In j l -> f j = 0) -> nsum NumR (map f l) = 0.
Proof.
  induction l as [|a l IH]; intros H; cbn [map nsum]; [reflexivity|].
  cbn [add NumR]. rewrite (H a) by (left; reflexivity). rewrite IH; [lra|].
  intros j Hj. apply H. right. exact Hj.
Qed.

Lemma bump0 k : bump 0 k = S k.
Proof. reflexivity. Qed.
Lemma bump_pos j : (0 < j)%nat -> bump j 0 = 0%nat.
Proof. intros H. unfold bump. destruct (Nat.ltb_spec 0 j); [reflexivity|lia]. Qed.

Lemma diagonal_S n m :
  diagonal (S n) m = entryR m 0 0 :: diagonal n (minor0 0 m).
Proof.
  unfold diagonal. cbn [seq map]. f_equal.
  rewrite <- seq_shift, map_map. apply map_ext. intros i. rewrite entry_minor0. reflexivity.
Qed.

(* expansion when only the first entry of the first row contributes *)
Lemma ldet_first_only n m :
  (forall j, (1 <= j < S n)%nat -> entryR m 0 j * ldetR n (minor0 j m) = 0) ->
  ldetR (S n) m = entryR m 0 0 * ldetR n (minor0 0 m).
Proof.
  intros H. rewrite ldet_S. cbn [seq map nsum]. rewrite nsum_zero.
  - cbn [add mul sgn one NumR]. lra.
  - intros j Hj. apply in_seq in Hj. cbn [mul NumR]. rewrite H by lia. lra.
Qed.

(* LOWER triangular: entries above the diagonal are zero *)
Theorem ldet_lower_triangular : forall n m,
  (forall i j, (i < j < n)%nat -> entryR m i j = 0) ->
  ldetR n m = rprod (diagonal n m).
Proof.
  induction n as [|n IH]; intros m Hz; [reflexivity|].
  rewrite ldet_first_only.
  - rewrite diagonal_S. cbn [rprod]. f_equal. apply IH.
    intros i j Hij. rewrite entry_minor0. change (bump 0 j) with (S j). apply Hz. lia.
  - intros j Hj. rewrite (Hz 0%nat j) by lia. lra.
Qed.

(* a zero first column kills the determinant *)
Lemma ldet_zero_column : forall n m, (1 <= n)%nat ->
  (forall i, (i < n)%nat -> entryR m i 0 = 0) -> ldetR n m = 0.
Proof.
  induction n as [|n IH]; intros m Hn Hz; [lia|].
  rewrite ldet_first_only.
  - rewrite (Hz 0%nat) by lia. lra.
  - intros j Hj. rewrite IH; [lra|lia|].
    intros i Hi. rewrite entry_minor0, bump_pos by lia. apply Hz. lia.
Qed.

(* UPPER triangular: entries below the diagonal are zero *)
Theorem ldet_upper_triangular : forall n m,
  (forall i j, (j < i < n)%nat -> entryR m i j = 0) ->
  ldetR n m = rprod (diagonal n m).
Proof.
  induction n as [|n IH]; intros m Hz; [reflexivity|].
  rewrite ldet_first_only.
  - rewrite diagonal_S. cbn [rprod]. f_equal. apply IH.
    intros i j Hij. rewrite entry_minor0. change (bump 0 j) with (S j). apply Hz. lia.
  - intros j Hj. rewrite ldet_zero_column; [lra|lia|].
    intros i Hi. rewrite entry_minor0, bump_pos by lia. apply Hz. lia.
Qed.

(* log |det| = sum of ln of the diagonal, positive diagonal *)
Lemma rprod_pos l : Forall (fun d => 0 < d) l -> 0 < rprod l.
Proof.
  induction 1 as [|d l Hd _ IH]; cbn [rprod]; [lra|]. apply Rmult_lt_0_compat; assumption.
Qed.
Lemma ln_rprod l : Forall (fun d => 0 < d) l -> ln (Rabs (rprod l)) = rsum (map ln l).
Proof.
  intros H. rewrite Rabs_pos_eq by (left; apply rprod_pos; exact H).
  induction H as [|d l Hd Hl IH]; cbn [rprod map rsum]; [apply ln_1|].
  rewrite ln_mult; [rewrite IH; reflexivity | exact Hd | apply rprod_pos; exact Hl].
Qed.

Theorem logabsdet_lower_triangular : forall n m,
  (forall i j, (i < j < n)%nat -> entryR m i j = 0) ->
  Forall (fun d => 0 < d) (diagonal n m) ->
  ln (Rabs (ldetR n m)) = rsum (map ln (diagonal n m)).
Proof. intros n m Hz Hp. rewrite ldet_lower_triangular by exact Hz. apply ln_rprod. exact Hp. Qed.

Theorem logabsdet_upper_triangular : forall n m,
  (forall i j, (j < i < n)%nat -> entryR m i j = 0) ->
  Forall (fun d => 0 < d) (diagonal n m) ->
  ln (Rabs (ldetR n m)) = rsum (map ln (diagonal n m)).
Proof. intros n m Hz Hp. rewrite ldet_upper_triangular by exact Hz. apply ln_rprod. exact Hp. Qed.

Print Assumptions ldet_lower_triangular.
Print Assumptions ldet_upper_triangular.
Print Assumptions logabsdet_lower_triangular.

(* non-vacuity: the definition computes the usual 2x2 and 3x3 determinants *)
Example ldet_2x2 a b c d : ldetR 2 [[a; b]; [c; d]] = a * d - b * c.
Proof. cbn. ring. Qed.
Example ldet_3x3 a b c d e f g h i :
  ldetR 3 [[a; b; c]; [d; e; f]; [g; h; i]] = a * (e * i - f * h) - b * (d * i - f * g) + c * (d * h - e * g).
Proof. cbn. ring. Qed.
Example ldet_lower_example : ldetR 3 [[2; 0; 0]; [5; 3; 0]; [7; 11; 4]] = 24.
Proof. rewrite ldet_lower_triangular; [cbn; ring|]. intros [|[|[|i]]] [|[|[|j]]] H; try lia; reflexivity. Qed.
