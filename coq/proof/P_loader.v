(* C13 — lemmas about the loader model (model/M_loader.v). *)
From Coq Require Import List String Ascii ZArith Bool Arith Lia.
Import ListNotations.
From TT Require Import M_loader.
Open Scope string_scope.
Open Scope list_scope.
Local Arguments String.eqb : simpl never.

(* ---------------------------------------------------------------- induction on JSON terms *)

Lemma json_ind' (P : json -> Prop) :
  P JNull -> (forall b, P (JBool b)) -> (forall z, P (JInt z)) -> (forall z, P (JFlt z)) ->
  (forall s, P (JStr s)) ->
  (forall l, Forall P l -> P (JArr l)) ->
  (forall kv, Forall (fun p => P (snd p)) kv -> P (JObj kv)) ->
  forall j, P j.
Proof.
  intros Hn Hb Hi Hf Hs Ha Ho.
  fix IH 1. intros [| b | z | z | s | l | kv].
  - exact Hn.
  - apply Hb.
  - apply Hi.
  - apply Hf.
  - apply Hs.
  - apply Ha. induction l as [| x r IHr]; constructor; [apply IH | exact IHr].
  - apply Ho. induction kv as [| [k v] r IHr]; constructor; [apply IH | exact IHr].
Qed.

(* ------------------------------------------------------------------------ remove_comments *)

Lemma rc_arr l : rc (JArr l) = JArr (rc_list l).
Proof. reflexivity. Qed.

Lemma rc_obj kv : rc (JObj kv) = JObj (rc_fields kv).
Proof. reflexivity. Qed.

Lemma falsy_rc v : truthy v = false -> rc v = v.
Proof. destruct v as [| | | | | [| ] | [| ]]; simpl; auto; discriminate. Qed.

Lemma ignored_truthy v : ignored v = true -> truthy v = true.
Proof.
  destruct v as [| | | | | | kv]; simpl; try discriminate.
  destruct kv; simpl; [discriminate | auto].
Qed.

Lemma underscore_not_ignore k : underscore k = true -> String.eqb "ignore" k = false.
Proof.
  intros H. destruct (String.eqb_spec "ignore" k) as [E | E]; auto.
  subst k. simpl in H. discriminate.
Qed.

Lemma jget_ignore_rc_fields kv :
  match jget "ignore" kv with
  | None => jget "ignore" (rc_fields kv) = None
  | Some v => truthy v = false -> jget "ignore" (rc_fields kv) = Some v
  end.
Proof.
  induction kv as [| [k v] r IH]; simpl; auto.
  destruct (String.eqb "ignore" k) eqn:E.
  - intros F. apply String.eqb_eq in E. subst k.
    assert (ignored v = false) as Iv.
    { destruct (ignored v) eqn:I; auto. apply ignored_truthy in I. congruence. }
    rewrite Iv. simpl. rewrite (falsy_rc v F). reflexivity.
  - destruct (underscore k || ignored v); simpl; [| rewrite E]; exact IH.
Qed.

Lemma ignored_rc x : ignored x = false -> ignored (rc x) = false.
Proof.
  destruct x as [| | | | | l | kv]; try (simpl; auto; fail).
  intros H. rewrite rc_obj. unfold ignored in *.
  pose proof (jget_ignore_rc_fields kv) as G.
  destruct (jget "ignore" kv) as [v |].
  - rewrite (G H). exact H.
  - rewrite G. reflexivity.
Qed.

Lemma clean_arr l : clean (JArr l) <-> Forall (fun x => ignored x = false /\ clean x) l.
Proof.
  simpl. induction l as [| x r IH]; split; intros H; auto.
  - destruct H as (A & B & C). constructor; auto. apply IH; auto.
  - inversion H as [| ? ? [A B] C]; subst. repeat split; auto. apply IH; auto.
Qed.

Lemma clean_obj kv :
  clean (JObj kv) <-> Forall (fun p => underscore (fst p) = false /\ ignored (snd p) = false /\ clean (snd p)) kv.
Proof.
  simpl. induction kv as [| [k v] r IH]; split; intros H; auto.
  - destruct H as (A & B & C & D). constructor; auto. apply IH; auto.
  - inversion H as [| ? ? (A & B & C) D]; subst. repeat split; auto. apply IH; auto.
Qed.

Lemma rc_clean_l : forall j, clean (rc j).
Proof.
  induction j as [| | | | | l IH | kv IH] using json_ind'; try exact I.
  - rewrite rc_arr. apply clean_arr. induction IH as [| x r Hx Hr IHr]; simpl; auto.
    destruct (ignored x) eqn:E; auto. constructor; auto. split; auto. apply ignored_rc; auto.
  - rewrite rc_obj. apply clean_obj. induction IH as [| [k v] r Hx Hr IHr]; simpl; auto.
    destruct (underscore k) eqn:U; simpl; auto.
    destruct (ignored v) eqn:E; auto. constructor; auto. simpl. repeat split; auto. apply ignored_rc; auto.
Qed.

Lemma clean_rc_id_l : forall j, clean j -> rc j = j.
Proof.
  induction j as [| | | | | l IH | kv IH] using json_ind'; auto.
  - intros C. rewrite rc_arr. f_equal. apply clean_arr in C.
    induction IH as [| x r Hx Hr IHr]; simpl; auto.
    inversion C as [| ? ? [A B] C']; subst. rewrite A, (Hx B), (IHr C'). reflexivity.
  - intros C. rewrite rc_obj. f_equal. apply clean_obj in C.
    induction IH as [| [k v] r Hx Hr IHr]; simpl; auto.
    inversion C as [| ? ? (A & B & D) C']; subst. simpl in *. rewrite A, B. simpl.
    rewrite (Hx D), (IHr C'). reflexivity.
Qed.

Lemma rc_idempotent_l : forall j, rc (rc j) = rc j.
Proof. intros j. apply clean_rc_id_l, rc_clean_l. Qed.

(* comments are inert *)

Lemma deco_fields_jget_ignore kv kv' : deco_fields kv kv' -> jget "ignore" kv' = jget "ignore" kv.
Proof.
  induction 1 as [| k v kv kv' _ IH | k v v' kv kv' K _ _ IH | k v kv kv' U _ IH | k v kv kv' K _ _ IH]; simpl; auto.
  - rewrite IH. reflexivity.
  - destruct (String.eqb_spec "ignore" k); [congruence | exact IH].
  - rewrite (underscore_not_ignore k U). exact IH.
  - destruct (String.eqb_spec "ignore" k); [congruence | exact IH].
Qed.

Lemma deco_ignored x x' : deco x x' -> ignored x' = ignored x.
Proof.
  intros [j | l l' _ | kv kv' H]; auto.
  simpl. rewrite (deco_fields_jget_ignore _ _ H). reflexivity.
Qed.

Scheme deco_mind := Induction for deco Sort Prop
  with deco_list_mind := Induction for deco_list Sort Prop
  with deco_fields_mind := Induction for deco_fields Sort Prop.
Combined Scheme deco_mutind from deco_mind, deco_list_mind, deco_fields_mind.

Lemma deco_rc_all :
  (forall j j', deco j j' -> rc j' = rc j) /\
  (forall l l', deco_list l l' -> rc_list l' = rc_list l) /\
  (forall kv kv', deco_fields kv kv' -> rc_fields kv' = rc_fields kv).
Proof.
  apply deco_mutind; intros.
  - reflexivity.
  - change (JArr (rc_list l') = JArr (rc_list l)). f_equal. assumption.
  - change (JObj (rc_fields kv') = JObj (rc_fields kv)). f_equal. assumption.
  - reflexivity.
  - simpl. rewrite (deco_ignored _ _ d). rewrite H, H0. reflexivity.
  - simpl. rewrite e. assumption.
  - reflexivity.
  - simpl. rewrite H. reflexivity.
  - simpl. rewrite (deco_ignored _ _ d). rewrite H, H0. reflexivity.
  - simpl. rewrite e. simpl. assumption.
  - simpl. rewrite e. rewrite orb_true_r. assumption.
Qed.

Lemma deco_rc_l : forall j j', deco j j' -> rc j' = rc j.
Proof. apply deco_rc_all. Qed.

Lemma comments_inert_l : forall schema recheck fuel j j',
  deco j j' -> load schema recheck fuel j' = load schema recheck fuel j.
Proof. intros. unfold load. rewrite (deco_rc_l _ _ H). reflexivity. Qed.

(* --------------------------------------------------------------- induction on programs *)

Lemma prog_ind' (P : prog -> Prop) :
  (forall s, P (PRef s)) -> (forall s, P (PLook s)) -> (forall e, P (PBad e)) ->
  (forall id pre cls body, Forall (fun kc => P (snd kc)) body -> P (PDef id pre cls body)) ->
  forall p, P p.
Proof.
  intros Hr Hl Hb Hd. fix IH 1. intros [s | s | e | id pre cls body].
  - apply Hr.
  - apply Hl.
  - apply Hb.
  - apply Hd. induction body as [| [k c] r IHr]; constructor; [apply IH | exact IHr].
Qed.

Definition dom (st : state) : list string := map fst (st_reg st).

Lemma defs_def id pre cls body : defs (PDef id pre cls body) = defs_body body ++ [id].
Proof. reflexivity. Qed.
Lemma scoped_def D id pre cls body : scoped D (PDef id pre cls body) = (pre = None /\ scoped_body D body).
Proof. reflexivity. Qed.
Lemma explained_def R H id pre cls body :
  explained R H (PDef id pre cls body) =
  ((exists n kids, R id = Some n /\ H n = Some (mkObj cls id kids) /\ Forall2 (slot_ok R) body kids) /\
   explained_body R H body).
Proof. reflexivity. Qed.
Lemma occurs_def id cls body id' pre cls' body' :
  occurs id cls body (PDef id' pre cls' body') =
  ((id' = id /\ cls' = cls /\ body' = body) \/ occurs_body id cls body body').
Proof. reflexivity. Qed.

Lemma exec_def b id pre cls body st :
  exec b (PDef id pre cls body) st =
  if bound id (st_reg st) then Err (EDup id) [] else
  match pre with
  | Some e => Err e []
  | None =>
      match wrap cls id (run_body (exec b) body st []) with
      | Err e ch => Err e ch
      | Ok kids st' =>
          if b && bound id (st_reg st') then Err (EDup id) [] else
          let n := st_next st' in
          Ok n (mkSt (S n) ((id, n) :: st_reg st') ((n, mkObj cls id kids) :: st_heap st'))
      end
  end.
Proof. reflexivity. Qed.

Lemma lookup_in s r n : lookup s r = Some n -> In s (map fst r).
Proof.
  induction r as [| [k m] t IH]; simpl; [discriminate |].
  destruct (String.eqb_spec s k); [left; auto | right; auto].
Qed.

Lemma in_lookup s r : In s (map fst r) -> exists n, lookup s r = Some n.
Proof.
  induction r as [| [k m] t IH]; simpl; [tauto |].
  intros [E | I].
  - subst. rewrite String.eqb_refl. eauto.
  - destruct (String.eqb s k); eauto.
Qed.

Lemma bound_false s r : bound s r = false <-> ~ In s (map fst r).
Proof.
  unfold bound. split.
  - intros H I. apply in_lookup in I. destruct I as [n E]. rewrite E in H. discriminate.
  - intros H. destruct (lookup s r) eqn:E; auto. exfalso. apply H. eapply lookup_in; eauto.
Qed.

Lemma wrap_ok {A} cls id (r : res A) a st : wrap cls id r = Ok a st -> r = Ok a st.
Proof.
  destruct r as [a' st' | e ch]; simpl; [auto |].
  destruct e; simpl; try discriminate; destruct (String.eqb _ _); discriminate.
Qed.

(* ---------------------------------------- registry domain, scoping, distinctness of ids *)

Definition inv1 (b : bool) (p : prog) : Prop :=
  forall st n st', exec b p st = Ok n st' ->
    dom st' = rev (defs p) ++ dom st /\ scoped (dom st) p /\
    (b = true -> NoDup (dom st) -> NoDup (dom st')).

Lemma run_body_inv1 b body :
  Forall (fun kc => inv1 b (snd kc)) body ->
  forall st acc kids st', run_body (exec b) body st acc = Ok kids st' ->
    dom st' = rev (defs_body body) ++ dom st /\ scoped_body (dom st) body /\
    (b = true -> NoDup (dom st) -> NoDup (dom st')).
Proof.
  induction 1 as [| [k c] r Hc Hr IH]; intros st acc kids st' E; simpl in E.
  - inversion E; subst. simpl. auto.
  - destruct (exec b c st) as [n st1 | e ch] eqn:Ec; [| discriminate].
    destruct (Hc _ _ _ Ec) as (D1 & S1 & N1). simpl in D1.
    destruct (IH _ _ _ _ E) as (D2 & S2 & N2).
    simpl. rewrite rev_app_distr, <- app_assoc. rewrite <- D1. repeat split; auto.
Qed.

Lemma exec_inv1 b : forall p, inv1 b p.
Proof.
  induction p as [s | s | e | id pre cls body IH] using prog_ind'; intros st n st' E.
  - simpl in E. destruct (lookup s (st_reg st)) eqn:L; inversion E; subst. simpl.
    repeat split; auto. eapply lookup_in; eauto.
  - simpl in E. destruct (lookup s (st_reg st)) eqn:L; inversion E; subst. simpl.
    repeat split; auto. eapply lookup_in; eauto.
  - simpl in E. discriminate.
  - rewrite exec_def in E.
    destruct (bound id (st_reg st)) eqn:B0; [discriminate |].
    destruct pre as [e |]; [discriminate |].
    destruct (wrap cls id (run_body (exec b) body st [])) as [kids st1 | e ch] eqn:W; [| discriminate].
    apply wrap_ok in W.
    destruct (run_body_inv1 b body IH _ _ _ _ W) as (D1 & S1 & N1).
    destruct (b && bound id (st_reg st1)) eqn:B1; [discriminate |].
    inversion E; subst; clear E.
    rewrite defs_def, scoped_def. unfold dom at 1. simpl. fold (dom st1).
    rewrite rev_app_distr. simpl. rewrite D1. repeat split; auto.
    intros Hb ND. subst b. simpl in B1. apply bound_false in B1. fold (dom st1) in B1.
    rewrite <- D1. constructor; auto.
Qed.

Lemma exec_all_inv1 b : forall ps st st', exec_all b ps st = Ok tt st' ->
  dom st' = rev (defs_all ps) ++ dom st /\ scoped_all (dom st) ps /\
  (b = true -> NoDup (dom st) -> NoDup (dom st')).
Proof.
  induction ps as [| p r IH]; intros st st' E; simpl in E.
  - inversion E; subst. simpl. auto.
  - destruct (exec b p st) as [n st1 | e ch] eqn:Ep; [| discriminate].
    destruct (exec_inv1 b p _ _ _ Ep) as (D1 & S1 & N1).
    destruct (IH _ _ E) as (D2 & S2 & N2).
    unfold defs_all in *. simpl. rewrite rev_app_distr, <- app_assoc, <- D1. repeat split; auto.
Qed.

Lemma res_cases {A} (r : res A) : (exists a st, r = Ok a st) \/ (exists e ch, r = Err e ch).
Proof. destruct r; [left | right]; eauto. Qed.

(* an accepted specification defines every id once and refers only to completed definitions *)
Lemma accepted_wellformed_l : forall b ps st,
  exec_all b ps st0 = Ok tt st -> scoped_all [] ps /\ (b = true -> NoDup (defs_all ps)).
Proof.
  intros b ps st E. destruct (exec_all_inv1 b ps _ _ E) as (D & S & N). split; auto.
  intros Hb. specialize (N Hb (NoDup_nil _)). rewrite D in N. simpl in N. rewrite app_nil_r in N.
  apply NoDup_rev in N. rewrite rev_involutive in N. exact N.
Qed.

Lemma duplicate_rejected_l : forall ps,
  ~ NoDup (defs_all ps) -> exists e ch, exec_all true ps st0 = Err e ch.
Proof.
  intros ps H. destruct (res_cases (exec_all true ps st0)) as [(a & st & E) | X]; auto.
  destruct a. exfalso. apply H. eapply accepted_wellformed_l; eauto.
Qed.

Lemma dangling_rejected_l : forall b ps,
  ~ scoped_all [] ps -> exists e ch, exec_all b ps st0 = Err e ch.
Proof.
  intros b ps H. destruct (res_cases (exec_all b ps st0)) as [(a & st & E) | X]; auto.
  destruct a. exfalso. apply H. eapply accepted_wellformed_l; eauto.
Qed.
